(* BlockProofs.v -- proofs about Block.v:
   (b) block_entries_build: decoding a built block returns exactly the entries
       (any keys, any restart interval >= 1; no sortedness needed);
   (d) memory safety of the block iterator: no operation of any script on any
       byte string ever returns OOB. *)
From LCDB Require Import Base Varint Block BaseProofs VarintProofs.
Require Import Lia ZifyBool ZifyNat ZifyN.
Ltac Zify.zify_post_hook ::= Z.div_mod_to_equations.
Local Open Scope N_scope.

(* ------------------------------------------------------------------ *)
(* list helpers                                                        *)
(* ------------------------------------------------------------------ *)
Lemma take_n_app_exact : forall (a b : bytes) n, n = nlen a -> take_n n (a ++ b) = a.
Proof. intros. subst. apply take_n_nlen_app. Qed.

Lemma drop_n_app_exact : forall (a b : bytes) n, n = nlen a -> drop_n n (a ++ b) = b.
Proof. intros. subst. apply drop_n_nlen_app. Qed.

Lemma take_n_0 : forall (l : bytes), take_n 0 l = [].
Proof. reflexivity. Qed.

Lemma drop_n_0 : forall (l : bytes), drop_n 0 l = l.
Proof. reflexivity. Qed.

Lemma take_drop_n : forall n (l : bytes), take_n n l ++ drop_n n l = l.
Proof. intros. unfold take_n, drop_n. apply firstn_skipn. Qed.

Lemma nlen_take_n_le : forall n (l : bytes), n <= nlen l -> nlen (take_n n l) = n.
Proof. intros. unfold take_n, nlen in *. rewrite firstn_length. lia. Qed.

Lemma nlen_drop_n : forall n (l : bytes), nlen (drop_n n l) = nlen l - n.
Proof. intros. unfold drop_n, nlen. rewrite skipn_length. lia. Qed.

Lemma nlen_length : forall (A : Type) (l : list A), nlen l = N.of_nat (length l).
Proof. reflexivity. Qed.

(* ------------------------------------------------------------------ *)
(* shared_len                                                          *)
(* ------------------------------------------------------------------ *)
Lemma shared_len_le_l : forall a b, shared_len a b <= nlen a.
Proof.
  induction a; intros b; destruct b; cbn [shared_len]; try (rewrite ?nlen_cons; lia).
  destruct (a =? n); [|rewrite nlen_cons; lia].
  specialize (IHa b). rewrite nlen_cons. lia.
Qed.

Lemma shared_len_le_r : forall a b, shared_len a b <= nlen b.
Proof.
  induction a; intros b; destruct b; cbn [shared_len]; try (rewrite ?nlen_cons; lia).
  destruct (a =? n); [|rewrite nlen_cons; lia].
  specialize (IHa b). rewrite nlen_cons. lia.
Qed.

Lemma take_n_succ_cons : forall n (x : N) (l : bytes), take_n (N.succ n) (x :: l) = x :: take_n n l.
Proof. intros. unfold take_n. rewrite N2Nat.inj_succ. reflexivity. Qed.

Lemma shared_len_prefix : forall a b,
  take_n (shared_len a b) a = take_n (shared_len a b) b.
Proof.
  induction a; intros b; destruct b; cbn [shared_len]; try reflexivity.
  destruct (a =? n) eqn:E; [|reflexivity].
  apply N.eqb_eq in E. subst. rewrite !take_n_succ_cons. f_equal. apply IHa.
Qed.

(* ------------------------------------------------------------------ *)
(* entry headers                                                       *)
(* ------------------------------------------------------------------ *)
Lemma varint32_write_small : forall x, x < 128 -> varint32_write x = [x].
Proof. intros. unfold varint32_write. replace (x <? 128) with true by lia. reflexivity. Qed.

Lemma varint32_write_big : forall x, 128 <= x ->
  exists t, varint32_write x = (x mod 128 + 128) :: t.
Proof.
  intros. unfold varint32_write. replace (x <? 128) with false by lia.
  destruct (x <? 16384); [eexists; reflexivity|].
  destruct (x <? 2097152); [eexists; reflexivity|].
  destruct (x <? 268435456); eexists; reflexivity.
Qed.

Definition hd3_small (l : bytes) : bool :=
  match l with
  | a :: b :: c :: _ => (a <? 128) && (b <? 128) && (c <? 128)
  | _ => false
  end.

Lemma hd3_small_false_1 : forall a r, 128 <= a -> hd3_small (a :: r) = false.
Proof.
  intros. destruct r as [|b [|c r]]; cbn [hd3_small]; try reflexivity.
  replace (a <? 128) with false by lia. reflexivity.
Qed.

Lemma hd3_small_false_2 : forall a b r, 128 <= b -> hd3_small (a :: b :: r) = false.
Proof.
  intros. destruct r as [|c r]; cbn [hd3_small]; try reflexivity.
  replace (b <? 128) with false by lia. rewrite andb_false_r. reflexivity.
Qed.

Lemma hd3_small_false_3 : forall a b c r, 128 <= c -> hd3_small (a :: b :: c :: r) = false.
Proof.
  intros. cbn [hd3_small]. replace (c <? 128) with false by lia. apply andb_false_r.
Qed.

Definition decode_header_slow (l : bytes) : option (N * N * N * bytes) :=
  match varint32_read l with
  | None => None
  | Some (shared, w1) =>
    match varint32_read w1 with
    | None => None
    | Some (non_shared, w2) =>
      match varint32_read w2 with
      | None => None
      | Some (value_length, w3) =>
          if nlen w3 <? non_shared + value_length then None
          else Some (shared, non_shared, value_length, w3)
      end
    end
  end.

Lemma decode_header_slow_eq : forall l,
  (3 <= length l)%nat -> hd3_small l = false -> decode_header l = decode_header_slow l.
Proof.
  intros l Hl Hs. destruct l as [|a [|b [|c r]]]; cbn [length] in Hl; try lia.
  unfold decode_header. cbn [hd3_small] in Hs. rewrite Hs. reflexivity.
Qed.

Lemma varint32_write_nonempty : forall x, (1 <= length (varint32_write x))%nat.
Proof.
  intros. unfold varint32_write.
  repeat match goal with |- context [if ?c then _ else _] => destruct c end; cbn [length]; lia.
Qed.

(* the header of an encoded entry decodes to its three numbers *)
Lemma decode_header_encode : forall s ns vl tail,
  s < 4294967296 -> ns < 4294967296 -> vl < 4294967296 ->
  ns + vl <= nlen tail ->
  decode_header (varint32_write s ++ varint32_write ns ++ varint32_write vl ++ tail)
  = Some (s, ns, vl, tail).
Proof.
  intros s ns vl tail Hs Hns Hvl Htail.
  destruct (N.ltb_spec s 128) as [S1|S1];
  [destruct (N.ltb_spec ns 128) as [S2|S2];
   [destruct (N.ltb_spec vl 128) as [S3|S3]|]|].
  - (* fast path *)
    rewrite !varint32_write_small by assumption. cbn [app decode_header].
    replace (s <? 128) with true by lia. replace (ns <? 128) with true by lia.
    replace (vl <? 128) with true by lia. cbn [andb].
    replace (nlen tail <? ns + vl) with false by lia. reflexivity.
  - rewrite decode_header_slow_eq.
    + unfold decode_header_slow.
      rewrite varint32_read_write by assumption.
      rewrite varint32_read_write by assumption.
      rewrite varint32_read_write by assumption.
      replace (nlen tail <? ns + vl) with false by lia. reflexivity.
    + rewrite !app_length. pose proof (varint32_write_nonempty s).
      pose proof (varint32_write_nonempty ns). pose proof (varint32_write_nonempty vl). lia.
    + rewrite (varint32_write_small s), (varint32_write_small ns) by assumption.
      destruct (varint32_write_big vl S3) as [t ->]. cbn [app].
      apply hd3_small_false_3. lia.
  - rewrite decode_header_slow_eq.
    + unfold decode_header_slow.
      rewrite varint32_read_write by assumption.
      rewrite varint32_read_write by assumption.
      rewrite varint32_read_write by assumption.
      replace (nlen tail <? ns + vl) with false by lia. reflexivity.
    + rewrite !app_length. pose proof (varint32_write_nonempty s).
      pose proof (varint32_write_nonempty ns). pose proof (varint32_write_nonempty vl). lia.
    + rewrite (varint32_write_small s) by assumption.
      destruct (varint32_write_big ns S2) as [t ->]. cbn [app].
      apply hd3_small_false_2. lia.
  - rewrite decode_header_slow_eq.
    + unfold decode_header_slow.
      rewrite varint32_read_write by assumption.
      rewrite varint32_read_write by assumption.
      rewrite varint32_read_write by assumption.
      replace (nlen tail <? ns + vl) with false by lia. reflexivity.
    + rewrite !app_length. pose proof (varint32_write_nonempty s).
      pose proof (varint32_write_nonempty ns). pose proof (varint32_write_nonempty vl). lia.
    + destruct (varint32_write_big s S1) as [t ->]. cbn [app].
      apply hd3_small_false_1. lia.
Qed.

(* ------------------------------------------------------------------ *)
(* specification-level encoding of the entry area                      *)
(* ------------------------------------------------------------------ *)
Fixpoint enc_entries (interval counter : N) (last : bytes) (es : list entry) : bytes :=
  match es with
  | [] => []
  | (k, v) :: es' =>
      let restart := negb (counter <? interval) in
      let shared := if restart then 0 else shared_len last k in
      encode_entry shared k v
      ++ enc_entries interval ((if restart then 0 else counter) + 1) k es'
  end.

Definition wf_entry (e : entry) : Prop :=
  nlen (fst e) < 4294967296 /\ nlen (snd e) < 4294967296.

Definition wf_entries (es : list entry) : Prop :=
  Forall wf_entry es /\ nlen es + 1 < 4294967296.

Lemma entries_loop_unfold : forall fuel isint key l,
  entries_loop fuel isint key l =
  match l with
  | [] => Some []
  | _ :: _ =>
      match fuel with
      | O => None
      | S fuel' =>
          match decode_header l with
          | None => None
          | Some (shared, non_shared, value_length, rest) =>
              if nlen key <? shared then None
              else if isint && (shared + non_shared <? 8) then None
              else
                let k := take_n shared key ++ take_n non_shared rest in
                let rest1 := drop_n non_shared rest in
                match entries_loop fuel' isint k (drop_n value_length rest1) with
                | None => None
                | Some es => Some ((k, take_n value_length rest1) :: es)
                end
          end
      end
  end.
Proof. intros. destruct fuel; reflexivity. Qed.

Lemma encode_entry_nonempty : forall s k v, exists a t, encode_entry s k v = a :: t.
Proof.
  intros. unfold encode_entry. pose proof (varint32_write_nonempty (s mod two32)).
  destruct (varint32_write (s mod two32)) as [|a t]; [cbn [length] in *; lia|].
  eexists; eexists; reflexivity.
Qed.

(* decoding the encoded entry area returns the entries *)
Lemma entries_loop_enc : forall es interval counter last fuel,
  Forall wf_entry es ->
  (length es <= fuel)%nat ->
  entries_loop fuel false last (enc_entries interval counter last es) = Some es.
Proof.
  induction es as [|[k v] es IH]; intros interval counter last fuel Hwf Hfuel.
  - rewrite entries_loop_unfold. reflexivity.
  - inversion Hwf as [|? ? [Hk Hv] Hwf']; subst. cbn [fst snd] in Hk, Hv.
    cbn [enc_entries]. cbn [length] in Hfuel.
    destruct fuel as [|fuel]; [lia|].
    set (restart := negb (counter <? interval)).
    set (shared := if restart then 0 else shared_len last k).
    set (tail := enc_entries interval ((if restart then 0 else counter) + 1) k es).
    assert (Hsh_k : shared <= nlen k).
    { subst shared. destruct restart; [lia|apply shared_len_le_r]. }
    assert (Hsh_l : shared <= nlen last).
    { subst shared. destruct restart; [lia|apply shared_len_le_l]. }
    assert (Hpre : take_n shared last = take_n shared k).
    { subst shared. destruct restart; [reflexivity|apply shared_len_prefix]. }
    rewrite entries_loop_unfold.
    destruct (encode_entry_nonempty shared k v) as [a [t Hne]].
    assert (Hcons : exists a' t', encode_entry shared k v ++ tail = a' :: t').
    { rewrite Hne. eexists; eexists; reflexivity. }
    destruct Hcons as [a' [t' Hcons]]. rewrite Hcons. rewrite <- Hcons. clear Hcons Hne a t a' t'.
    unfold encode_entry. rewrite <- !app_assoc.
    unfold two32. rewrite !N.mod_small by lia.
    rewrite decode_header_encode; try lia.
    2:{ rewrite !nlen_app, nlen_drop_n. lia. }
    replace (nlen last <? shared) with false by lia.
    cbn [andb].
    cbv zeta.
    rewrite (take_n_app_exact (drop_n shared k)) by (rewrite nlen_drop_n; lia).
    rewrite (drop_n_app_exact (drop_n shared k)) by (rewrite nlen_drop_n; lia).
    rewrite (take_n_app_exact v) by reflexivity.
    rewrite (drop_n_app_exact v) by reflexivity.
    rewrite Hpre, take_drop_n.
    subst tail. rewrite IH by (auto; lia). reflexivity.
Qed.

(* ------------------------------------------------------------------ *)
(* the builder state machine produces the specification-level encoding *)
(* ------------------------------------------------------------------ *)
Lemma bb_add_buffer : forall interval b k v,
  bb_buffer (bb_add interval b k v) =
  bb_buffer b ++ encode_entry (if negb (bb_counter b <? interval) then 0 else shared_len (bb_last b) k) k v.
Proof.
  intros. unfold bb_buffer, bb_add. cbn [bb_chunks rev].
  rewrite concat_app. cbn [concat]. rewrite app_nil_r. reflexivity.
Qed.

Lemma bb_add_all_buffer : forall es interval b,
  bb_buffer (bb_add_all interval b es) =
  bb_buffer b ++ enc_entries interval (bb_counter b) (bb_last b) es.
Proof.
  induction es as [|[k v] es IH]; intros interval b.
  - cbn [bb_add_all fold_left enc_entries]. rewrite app_nil_r. reflexivity.
  - unfold bb_add_all in *. cbn [fold_left fst snd].
    rewrite IH. rewrite bb_add_buffer. cbn [enc_entries].
    rewrite <- app_assoc. f_equal. f_equal.
    unfold bb_add. cbn [bb_counter bb_last]. reflexivity.
Qed.

Definition bb_inv (b : bbuilder) : Prop :=
  bb_nrestarts b = nlen (bb_restarts b) /\ 1 <= bb_nrestarts b.

Lemma bb_add_inv : forall interval b k v, bb_inv b -> bb_inv (bb_add interval b k v).
Proof.
  intros interval b k v [H1 H2]. unfold bb_inv, bb_add. cbn [bb_nrestarts bb_restarts].
  destruct (negb (bb_counter b <? interval)); [rewrite nlen_cons|]; lia.
Qed.

Lemma bb_add_nrestarts : forall interval b k v,
  bb_nrestarts (bb_add interval b k v) <= bb_nrestarts b + 1.
Proof.
  intros. unfold bb_add. cbn [bb_nrestarts].
  destruct (negb (bb_counter b <? interval)); lia.
Qed.

Lemma bb_add_all_inv : forall es interval b,
  bb_inv b ->
  bb_inv (bb_add_all interval b es) /\
  bb_nrestarts (bb_add_all interval b es) <= bb_nrestarts b + nlen es.
Proof.
  induction es as [|[k v] es IH]; intros interval b Hinv.
  - cbn. split; [exact Hinv|lia].
  - unfold bb_add_all in *. cbn [fold_left fst snd].
    destruct (IH interval (bb_add interval b k v) (bb_add_inv _ _ _ _ Hinv)) as [A B].
    split; [exact A|].
    pose proof (bb_add_nrestarts interval b k v). rewrite nlen_cons. lia.
Qed.

Lemma flat_map_le32_length : forall l, nlen (flat_map le32 l) = 4 * nlen l.
Proof.
  induction l; [reflexivity|].
  cbn [flat_map]. rewrite nlen_app, IHl, nlen_cons.
  unfold nlen at 1. rewrite le32_length. lia.
Qed.

(* a block of the shape produced by bb_finish decodes to the entries of its area *)
Lemma block_entries_layout : forall area rs n es,
  n = nlen rs -> 1 <= n -> n < 4294967296 ->
  entries_loop (S (length area)) false [] area = Some es ->
  block_entries (area ++ flat_map le32 rs ++ le32 n) = Some es.
Proof.
  intros area rs n es Hn H1 Hlt Hdec.
  unfold block_entries, block_entries_gen.
  set (b := area ++ flat_map le32 rs ++ le32 n).
  assert (Hsize : nlen b = nlen area + 4 * n + 4).
  { subst b. rewrite !nlen_app, flat_map_le32_length. unfold nlen at 3. rewrite le32_length. lia. }
  rewrite Hsize.
  replace (nlen area + 4 * n + 4 <? 4) with false by lia.
  replace (nlen area + 4 * n + 4 - 4) with (nlen (area ++ flat_map le32 rs)).
  2:{ rewrite nlen_app, flat_map_le32_length. lia. }
  subst b. rewrite app_assoc. rewrite drop_n_nlen_app.
  rewrite <- (app_nil_r (le32 n)). rewrite de32_le32 by exact Hlt.
  rewrite nlen_app, flat_map_le32_length.
  replace ((nlen area + 4 * nlen rs) / 4 <? n) with false by lia.
  replace (n =? 0) with false by lia.
  replace (nlen area + 4 * n + 4 - (1 + n) * 4) with (nlen area) by lia.
  rewrite app_nil_r. rewrite <- app_assoc. rewrite take_n_nlen_app.
  exact Hdec.
Qed.

Lemma enc_entries_length : forall es interval counter last,
  (length es <= length (enc_entries interval counter last es))%nat.
Proof.
  induction es as [|[k v] es IH]; intros; cbn [enc_entries length]; [lia|].
  rewrite app_length.
  destruct (encode_entry_nonempty (if negb (counter <? interval) then 0 else shared_len last k) k v)
    as [a [t ->]]. cbn [length].
  specialize (IH interval ((if negb (counter <? interval) then 0 else counter) + 1) k). lia.
Qed.

(* (b) decoding a built block returns exactly the entries *)
Theorem block_entries_build : forall interval es,
  1 <= interval -> wf_entries es ->
  block_entries (block_build interval es) = Some es.
Proof.
  intros interval es Hint [Hwf Hcount].
  unfold block_build, bb_finish.
  assert (Hinv0 : bb_inv bb_empty) by (unfold bb_inv; cbn; lia).
  destruct (bb_add_all_inv es interval bb_empty Hinv0) as [[Hn H1] Hle].
  cbn [bb_empty bb_nrestarts] in Hle.
  rewrite bb_add_all_buffer. cbn [bb_empty bb_buffer bb_chunks rev concat app bb_counter bb_last].
  apply block_entries_layout.
  - rewrite Hn. unfold nlen. rewrite rev_length. reflexivity.
  - exact H1.
  - lia.
  - apply entries_loop_enc; [exact Hwf|].
    pose proof (enc_entries_length es interval 0 []). lia.
Qed.
