(* Cursor.v -- the iterator specification: a cursor over a list, the abstract
   iterator interface (table/iterator.h vtable), the generic compositions of
   table/iterator.c (seek_ge / seek_gt / seek_le / seek_lt) and scripts.

   A cursor over [l : list A] is a position [option nat]; [None] is the invalid
   iterator.  Every operation returns either [None] or [Some i] with i < length l.
   [c_next] / [c_prev] on an invalid cursor are undefined in C (assert); here they
   stay invalid, and the scripts never call them in that state.

   Definitions only; the theory is in CursorProofs.v. *)
From LCDB Require Import Base.

Inductive direction := Forward | Reverse.

Section Cursor.
Context {A : Type}.

Definition cursor := option nat.

(* first index whose element satisfies p *)
Fixpoint find_index (p : A -> bool) (l : list A) : option nat :=
  match l with
  | [] => None
  | x :: r => if p x then Some O else option_map S (find_index p r)
  end.

(* last index whose element satisfies p *)
Fixpoint find_last_index (p : A -> bool) (l : list A) : option nat :=
  match l with
  | [] => None
  | x :: r =>
      match find_last_index p r with
      | Some i => Some (S i)
      | None => if p x then Some O else None
      end
  end.

Definition c_first (l : list A) : cursor := match l with [] => None | _ :: _ => Some O end.
Definition c_last (l : list A) : cursor := match length l with O => None | S n => Some n end.
(* [ge] is "element >= target": monotone along a sorted list *)
Definition c_seek (ge : A -> bool) (l : list A) : cursor := find_index ge l.
(* last element satisfying a downward-closed predicate ("element <= target") *)
Definition c_seek_last (le : A -> bool) (l : list A) : cursor := find_last_index le l.
Definition c_next (l : list A) (c : cursor) : cursor :=
  match c with
  | Some i => if (S i <? length l)%nat then Some (S i) else None
  | None => None
  end.
Definition c_prev (l : list A) (c : cursor) : cursor :=
  match c with
  | Some (S i) => Some i
  | _ => None
  end.
Definition c_get (l : list A) (c : cursor) : option A :=
  match c with
  | Some i => nth_error l i
  | None => None
  end.

(* a cursor produced by the operations above *)
Definition c_wf (l : list A) (c : cursor) : Prop :=
  match c with Some i => (i < length l)%nat | None => True end.

End Cursor.

(* ---------------------------------------------------------------- iterator interface *)
(* ldb_itertbl_t: St = iterator state, T = seek target, O = what key()/value() yield.
   [i_get s = None] is "not valid".  [i_cmp o t] is ldb_iter_compare: the iterator's
   comparator applied to key() and a target. *)
Record iter_ops (St T O : Type) := mkIter {
  i_first : St -> St;
  i_last : St -> St;
  i_seek : T -> St -> St;
  i_next : St -> St;
  i_prev : St -> St;
  i_get : St -> option O;
  i_cmp : O -> T -> comparison
}.
Arguments mkIter {St T O}.
Arguments i_first {St T O}.
Arguments i_last {St T O}.
Arguments i_seek {St T O}.
Arguments i_next {St T O}.
Arguments i_prev {St T O}.
Arguments i_get {St T O}.
Arguments i_cmp {St T O}.

Inductive cmd (T : Type) :=
| CFirst | CLast | CNext | CPrev
| CSeek (t : T) | CSeekGe (t : T) | CSeekGt (t : T) | CSeekLe (t : T) | CSeekLt (t : T).
Arguments CFirst {T}.
Arguments CLast {T}.
Arguments CNext {T}.
Arguments CPrev {T}.
Arguments CSeek {T}.
Arguments CSeekGe {T}.
Arguments CSeekGt {T}.
Arguments CSeekLe {T}.
Arguments CSeekLt {T}.

(* what the harness prints after a step: "~" (next/prev skipped on an invalid
   iterator), "!" (invalid), or the entry *)
Inductive obs (O : Type) := OSkip | OInvalid | OAt (o : O).
Arguments OSkip {O}.
Arguments OInvalid {O}.
Arguments OAt {O}.

Section Scripts.
Context {St T O : Type}.
Variable I : iter_ops St T O.

Definition i_valid (s : St) : bool := match i_get I s with Some _ => true | None => false end.

(* table/iterator.c, exact compositions *)
Definition it_seek_ge (t : T) (s : St) : St := i_seek I t s.

Definition it_seek_gt (t : T) (s : St) : St :=
  let s1 := i_seek I t s in
  match i_get I s1 with
  | Some o => match i_cmp I o t with Eq => i_next I s1 | _ => s1 end
  | None => s1
  end.

Definition it_seek_le (t : T) (s : St) : St :=
  let s1 := i_seek I t s in
  match i_get I s1 with
  | Some o => match i_cmp I o t with Gt => i_prev I s1 | _ => s1 end
  | None => i_last I s1
  end.

Definition it_seek_lt (t : T) (s : St) : St :=
  let s1 := i_seek I t s in
  match i_get I s1 with
  | Some _ => i_prev I s1
  | None => i_last I s1
  end.

Definition observe (s : St) : obs O :=
  match i_get I s with Some o => OAt o | None => OInvalid end.

(* one script step of harness/k2.c run_script *)
Definition step_cmd (s : St) (c : cmd T) : St * obs O :=
  match c with
  | CFirst => let s' := i_first I s in (s', observe s')
  | CLast => let s' := i_last I s in (s', observe s')
  | CNext => if i_valid s then let s' := i_next I s in (s', observe s') else (s, OSkip)
  | CPrev => if i_valid s then let s' := i_prev I s in (s', observe s') else (s, OSkip)
  | CSeek t => let s' := i_seek I t s in (s', observe s')
  | CSeekGe t => let s' := it_seek_ge t s in (s', observe s')
  | CSeekGt t => let s' := it_seek_gt t s in (s', observe s')
  | CSeekLe t => let s' := it_seek_le t s in (s', observe s')
  | CSeekLt t => let s' := it_seek_lt t s in (s', observe s')
  end.

Fixpoint run_script (s : St) (script : list (cmd T)) : list (obs O) :=
  match script with
  | [] => []
  | c :: r => let '(s', o) := step_cmd s c in o :: run_script s' r
  end.

(* final state, for long-lived iterators driven by several scripts *)
Fixpoint run_state (s : St) (script : list (cmd T)) : St :=
  match script with
  | [] => s
  | c :: r => run_state (fst (step_cmd s c)) r
  end.

End Scripts.

(* two iterators are indistinguishable by scripts *)
Definition simulates {St1 St2 T O : Type} (I1 : iter_ops St1 T O) (s1 : St1)
                     (I2 : iter_ops St2 T O) (s2 : St2) : Prop :=
  forall script, run_script I1 s1 script = run_script I2 s2 script.

(* ---------------------------------------------------------------- the cursor as an iterator *)
Section CursorIter.
Context {A T : Type}.
Variable tge : T -> A -> bool.            (* element >= target *)
Variable tcmp : A -> T -> comparison.     (* element vs target *)
Variable l : list A.

Definition cursor_ops : iter_ops cursor T A :=
  mkIter (fun _ => c_first l) (fun _ => c_last l) (fun t _ => c_seek (tge t) l)
         (c_next l) (c_prev l) (c_get l) tcmp.

End CursorIter.

(* ---------------------------------------------------------------- the sorted-map reading of a script *)
(* What a sorted map dictates, stated directly (no compositions): seek_gt is the
   first element above the target, seek_le the last element not above it, ... *)
Section MapSpec.
Context {A T : Type}.
Variable tcmp : A -> T -> comparison.
Variable l : list A.

Definition is_ge (t : T) (a : A) : bool := match tcmp a t with Lt => false | _ => true end.
Definition is_gt (t : T) (a : A) : bool := match tcmp a t with Gt => true | _ => false end.
Definition is_le (t : T) (a : A) : bool := match tcmp a t with Gt => false | _ => true end.
Definition is_lt (t : T) (a : A) : bool := match tcmp a t with Lt => true | _ => false end.

Definition map_step (c : cursor) (x : cmd T) : cursor * obs A :=
  let ob (c' : cursor) := (c', match c_get l c' with Some a => OAt a | None => OInvalid end) in
  match x with
  | CFirst => ob (c_first l)
  | CLast => ob (c_last l)
  | CNext => match c_get l c with Some _ => ob (c_next l c) | None => (c, OSkip) end
  | CPrev => match c_get l c with Some _ => ob (c_prev l c) | None => (c, OSkip) end
  | CSeek t | CSeekGe t => ob (c_seek (is_ge t) l)
  | CSeekGt t => ob (c_seek (is_gt t) l)
  | CSeekLe t => ob (c_seek_last (is_le t) l)
  | CSeekLt t => ob (c_seek_last (is_lt t) l)
  end.

Fixpoint map_script (c : cursor) (script : list (cmd T)) : list (obs A) :=
  match script with
  | [] => []
  | x :: r => let '(c', o) := map_step c x in o :: map_script c' r
  end.

End MapSpec.
