(* TableIterProofs.v -- the two-level (table) iterator on a built table simulates a
   cursor over the entry list, for arbitrary scripts of First / Last / Seek / Next /
   Prev (Next / Prev are issued only when the iterator is valid, as the C functions
   require; the driver skips them otherwise): the observations are those of the
   reference cursor [ref_run] of BlockSeekProofs over the whole entry list, and the
   final status is OK.  Block boundaries are crossed in both directions and nothing is
   skipped, because no data block of a built table is empty.  Any compression function that the
   Snappy decoder inverts; table file below 4 GiB. *)
From LCDB Require Import Base Varint Crc32c Block Trie Filter Snappy TableFormat.
From LCDB Require Import BaseProofs VarintProofs Crc32cProofs BlockProofs BlockIterProofs BlockSeekProofs
  FilterProofs FilterBlockProofs SnappyProofs TableProofs TableBuildProofs BlockCursorProofs TableIndexProofs
  TableGetProofs.
Require Import Lia ZifyBool ZifyNat ZifyN.
Ltac Zify.zify_post_hook ::= Z.div_mod_to_equations.
Local Open Scope N_scope.

(* ---- list facts about the reference cursor ---- *)
Lemma ref_last_snoc : forall (l : list entry) e, ref_last (l ++ [e]) = Some (l, e, []).
Proof. intros. unfold ref_last. rewrite rev_app_distr. cbn [rev app]. rewrite rev_involutive. reflexivity. Qed.

Lemma ref_prev_snoc : forall (l : list entry) e' e post,
  ref_prev (l ++ [e'], e, post) = Some (l, e', e :: post).
Proof. intros. unfold ref_prev. rewrite rev_app_distr. cbn [rev app]. rewrite rev_involutive. reflexivity. Qed.

Section Iter.
Variable cmp : bytes -> bytes -> comparison.
Variable isint : bool.
Variable sep : bytes -> bytes -> bytes.
Variable succ : bytes -> bytes.
Variable has_filter : bool.
Variable fmatch : bytes -> bytes -> res bool.
Variable interval : N.
Hypothesis Hord : cmp_order cmp.
Hypothesis Hsep : sep_contract cmp sep.
Hypothesis Hsucc : succ_contract cmp succ.
Variable dkey : bytes -> Prop.
Hypothesis Hdkey : forall k, dkey k -> ikeyok isint k.
Hypothesis Hsepok : forall a b, dkey a -> ikeyok isint (sep a b).
Hypothesis Hsuccok : forall a, dkey a -> ikeyok isint (succ a).
Variable file : bytes.
Variable es : list entry.
Variable t : table.
Variable bl : list (handle * list entry).
Hypothesis Hbt : built_table sep succ has_filter fmatch interval file es t bl.
Hypothesis Hes : Forall (eok dkey) es.
Hypothesis Hcount : nlen es + 1 < 4294967296.
Hypothesis Hsorted : sorted_by cmp es.
Hypothesis Hlen : nlen file < 4294967296.
Variable verify : bool.

Let idx : list entry := index_of sep succ bl None.

Lemma I_lt_trans : forall x y z, cmp x y = Lt -> cmp y z = Lt -> cmp x z = Lt.
Proof. exact (co_lt_trans _ Hord). Qed.
Lemma I_lt_eq : forall x y z, cmp x y = Lt -> cmp y z = Eq -> cmp x z = Lt.
Proof. exact (co_lt_eq _ Hord). Qed.

Lemma I_idx_rel : index_rel cmp idx bl.
Proof. exact (idx_rel cmp sep succ has_filter fmatch interval Hord Hsep Hsucc file es t bl Hbt Hsorted). Qed.

Lemma I_idx_sorted : sorted_by cmp idx.
Proof. exact (idx_sorted cmp sep succ has_filter fmatch interval Hord Hsep Hsucc file es t bl Hbt Hsorted). Qed.

Lemma I_block_sorted : forall bpre h bes bpost, bl = bpre ++ (h, bes) :: bpost -> sorted_by cmp bes.
Proof. exact (block_sorted cmp sep succ has_filter fmatch interval file es t bl Hbt Hsorted). Qed.

Lemma I_handle_bound : forall fb, In fb bl -> fst (fst fb) < 4294967296 /\ snd (fst fb) < 4294967296.
Proof. exact (handle_bound isint sep succ has_filter fmatch interval dkey Hdkey Hsepok Hsuccok file es t bl Hbt Hcount Hlen). Qed.

Lemma I_index_cursor : exists it0, biter_create (t_index t) = Ok it0 /\ bcur isint 1 idx it0 None.
Proof. exact (index_block_cursor isint sep succ has_filter fmatch interval dkey Hdkey Hsepok Hsuccok file es t bl Hbt Hes Hcount Hlen). Qed.

Lemma I_blockreader : forall fb, In fb bl ->
  exists d0, table_blockreader t verify (handle_encode (fst fb)) = Ok d0 /\
             bcur isint interval (snd fb) d0 None.
Proof. exact (blockreader_built isint sep succ has_filter fmatch interval dkey Hdkey Hsepok Hsuccok file es t bl Hbt Hes Hcount Hlen verify). Qed.

Lemma I_nonempty : forall h bes, In (h, bes) bl -> bes <> [].
Proof.
  intros h bes Hin. pose proof (bt_nonempty _ _ _ _ _ _ _ _ _ Hbt) as Hne.
  rewrite Forall_forall in Hne. apply (Hne (h, bes) Hin).
Qed.

Lemma I_es : es = concat (map snd bl).
Proof. apply (bt_es _ _ _ _ _ _ _ _ _ Hbt). Qed.


(* ------------------------------------------------------------------ *)
(* states of the two-level iterator                                    *)
(* ------------------------------------------------------------------ *)
(* what every reachable state satisfies about its data iterator *)
Definition two_pre (it : twoiter) : Prop :=
  tw_status it = SOk /\
  match tw_data it with
  | None => True
  | Some d => exists h bes zd, In (h, bes) bl /\ tw_handle it = handle_encode h /\
                               bcur isint interval bes d zd
  end.

(* the index iterator stands at the entry of block (h, bes); the data iterator runs over
   that block and stands at the in-block position zd *)
Record two_at (it : twoiter) (ipre : list entry) (x : entry) (ipost : list entry)
              (bpre : list (handle * list entry)) (h : handle) (bes : list entry)
              (bpost : list (handle * list entry)) (zd : option zip) : Prop := {
  ta_index : bcur isint 1 idx (tw_index it) (Some (ipre, x, ipost));
  ta_bl : bl = bpre ++ (h, bes) :: bpost;
  ta_split : isplit cmp ipre x ipost bpre h bes bpost;
  ta_data : exists d, tw_data it = Some d /\ bcur isint interval bes d zd;
  ta_handle : tw_handle it = handle_encode h;
  ta_status : tw_status it = SOk
}.

Definition two_off (it : twoiter) : Prop :=
  bcur isint 1 idx (tw_index it) None /\ tw_data it = None /\ tw_status it = SOk.

Definition two_sim (it : twoiter) (z : option zip) : Prop :=
  match z with
  | None => two_off it
  | Some (pre, e, post) =>
      exists ipre x ipost bpre h bes bpost bp bq,
        two_at it ipre x ipost bpre h bes bpost (Some (bp, e, bq)) /\
        pre = concat (map snd bpre) ++ bp /\ post = bq ++ concat (map snd bpost)
  end.

Lemma two_at_pre : forall it ipre x ipost bpre h bes bpost zd,
  two_at it ipre x ipost bpre h bes bpost zd -> two_pre it.
Proof.
  intros it ipre x ipost bpre h bes bpost zd H. split; [apply (ta_status _ _ _ _ _ _ _ _ _ H)|].
  destruct (ta_data _ _ _ _ _ _ _ _ _ H) as (d & -> & Hd).
  exists h, bes, zd. split; [|split; [apply (ta_handle _ _ _ _ _ _ _ _ _ H)|exact Hd]].
  rewrite (ta_bl _ _ _ _ _ _ _ _ _ H). apply in_or_app. right. left. reflexivity.
Qed.

Lemma two_off_pre : forall it, two_off it -> two_pre it.
Proof. intros it (_ & A & B). split; [exact B|]. rewrite A. exact Logic.I. Qed.

Lemma two_sim_pre : forall it z, two_sim it z -> two_pre it /\ exists zi, bcur isint 1 idx (tw_index it) zi.
Proof.
  intros it [[[pre e] post]|] H; cbn [two_sim] in H.
  - destruct H as (ipre & x & ipost & bpre & h & bes & bpost & bp & bq & Hat & _).
    split; [eapply two_at_pre; exact Hat|]. eexists. apply (ta_index _ _ _ _ _ _ _ _ _ Hat).
  - split; [apply two_off_pre; exact H|]. exists None. apply H.
Qed.

(* ---- ldb_twoiter_init_data_block ---- *)
Lemma init_invalid : forall it,
  two_pre it -> bcur isint 1 idx (tw_index it) None ->
  two_init_data_block t verify it = Ok (two_set_data it None) /\ two_off (two_set_data it None).
Proof.
  intros it [Hst Hd] Hi. unfold two_init_data_block.
  rewrite (bcur_valid_none _ _ _ _ Hi). cbn [negb]. split; [reflexivity|].
  unfold two_off, two_set_data. cbn [tw_index tw_data tw_status]. split; [exact Hi|]. split; [reflexivity|].
  rewrite Hst. destruct (tw_data it) as [d|]; [|reflexivity].
  destruct Hd as (h & bes & zd & _ & _ & Hc). apply (bcur_status _ _ _ _ _ Hc).
Qed.

Lemma handle_encode_inj : forall h h',
  fst h < 4294967296 -> snd h < 4294967296 -> fst h' < 4294967296 -> snd h' < 4294967296 ->
  handle_encode h = handle_encode h' -> h = h'.
Proof.
  intros h h' A B C D E.
  assert (H1 : handle_decode (handle_encode h ++ []) = Some (h, [])) by (apply handle_decode_encode; lia).
  assert (H2 : handle_decode (handle_encode h' ++ []) = Some (h', [])) by (apply handle_decode_encode; lia).
  rewrite E in H1. rewrite H1 in H2. inversion H2. reflexivity.
Qed.

Lemma init_valid : forall it ipre x ipost,
  two_pre it -> bcur isint 1 idx (tw_index it) (Some (ipre, x, ipost)) ->
  exists it1 bpre h bes bpost zd,
    two_init_data_block t verify it = Ok it1 /\ two_at it1 ipre x ipost bpre h bes bpost zd.
Proof.
  intros it ipre x ipost [Hst Hd] Hi. unfold two_init_data_block.
  rewrite (bcur_valid_some _ _ _ _ _ _ _ Hi). cbn [negb].
  destruct (bcur_key_value _ _ _ _ _ _ _ Hi) as (Hidx & _ & ->). cbn [rbind].
  destruct (index_rel_split cmp ipre x ipost idx bl I_idx_rel Hidx) as (bpre & h & bes & bpost & Hbl & S).
  assert (Hfb : In (h, bes) bl) by (rewrite Hbl; apply in_or_app; right; left; reflexivity).
  rewrite (is_val _ _ _ _ _ _ _ _ S).
  destruct (I_blockreader _ Hfb) as (d0 & Hrd & Hd0). cbn [fst snd] in Hrd, Hd0.
  destruct (tw_data it) as [d|] eqn:Ed.
  - cbn [andb]. destruct (bytes_eqb (handle_encode h) (tw_handle it)) eqn:Eb.
    + apply bytes_eqb_eq in Eb. destruct Hd as (h0 & bes0 & zd & Hin0 & Hh0 & Hc0).
      assert (Hhh : h = h0).
      { destruct (I_handle_bound _ Hfb) as [B1 B2]. destruct (I_handle_bound _ Hin0) as [B3 B4].
        cbn [fst snd] in *. apply handle_encode_inj; try assumption. congruence. }
      subst h0.
      assert (Hbb : bes0 = bes).
      { eapply blocks_from_fun; [apply (bt_from _ _ _ _ _ _ _ _ _ Hbt)|exact Hin0|exact Hfb]. }
      subst bes0.
      exists it, bpre, h, bes, bpost, zd. split; [reflexivity|].
      constructor; auto. exists d. auto.
    + rewrite Hrd. cbn [rbind].
      eexists. exists bpre, h, bes, bpost, None. split; [reflexivity|].
      unfold two_set_data. cbn [tw_data tw_status tw_index tw_handle].
      constructor; cbn [tw_data tw_status tw_index tw_handle]; auto.
      * exists d0. auto.
      * rewrite Hst. destruct Hd as (h0 & bes0 & zd & _ & _ & Hc0). apply (bcur_status _ _ _ _ _ Hc0).
  - cbn [andb]. rewrite Hrd. cbn [rbind].
    eexists. exists bpre, h, bes, bpost, None. split; [reflexivity|].
    unfold two_set_data. cbn [tw_data tw_status tw_index tw_handle].
    constructor; cbn [tw_data tw_status tw_index tw_handle]; auto.
    exists d0. auto.
Qed.

(* ---- ldb_twoiter_skip_forward / skip_backward ---- *)
Lemma skip_valid : forall fwd fuel it d,
  tw_data it = Some d -> biter_valid d = true -> two_skip isint t verify fwd fuel it = Ok it.
Proof.
  intros fwd fuel it d Hd Hv. destruct fuel; cbn [two_skip]; unfold two_data_invalid; rewrite Hd, Hv; reflexivity.
Qed.

Lemma skip_off : forall fwd fuel it, two_off it ->
  exists it', two_skip isint t verify fwd fuel it = Ok it' /\ two_off it'.
Proof.
  intros fwd fuel it Hoff. pose proof Hoff as (Hi & Hd & Hst).
  exists (two_set_data it None). split.
  - destruct fuel; cbn [two_skip]; unfold two_data_invalid; rewrite Hd, (bcur_valid_none _ _ _ _ Hi); reflexivity.
  - unfold two_off, two_set_data. cbn [tw_index tw_data tw_status]. rewrite Hd. auto.
Qed.

Lemma with_index_pre : forall it i, two_pre it -> two_pre (two_with_index it i).
Proof. intros it i H. exact H. Qed.

Lemma two_at_with_data : forall it ipre x ipost bpre h bes bpost zd d' zd',
  two_at it ipre x ipost bpre h bes bpost zd -> bcur isint interval bes d' zd' ->
  two_at (two_with_data it d') ipre x ipost bpre h bes bpost zd'.
Proof.
  intros it ipre x ipost bpre h bes bpost zd d' zd' H Hd'.
  constructor; cbn [two_with_data tw_index tw_data tw_handle tw_status].
  - apply (ta_index _ _ _ _ _ _ _ _ _ H).
  - apply (ta_bl _ _ _ _ _ _ _ _ _ H).
  - apply (ta_split _ _ _ _ _ _ _ _ _ H).
  - exists d'. auto.
  - apply (ta_handle _ _ _ _ _ _ _ _ _ H).
  - apply (ta_status _ _ _ _ _ _ _ _ _ H).
Qed.


Lemma two_at_data_invalid : forall it ipre x ipost bpre h bes bpost,
  two_at it ipre x ipost bpre h bes bpost None ->
  two_data_invalid it = true /\ biter_valid (tw_index it) = true.
Proof.
  intros it ipre x ipost bpre h bes bpost H.
  destruct (ta_data _ _ _ _ _ _ _ _ _ H) as (d & Hd & Hc).
  unfold two_data_invalid. rewrite Hd, (bcur_valid_none _ _ _ _ Hc).
  split; [reflexivity|]. apply (bcur_valid_some _ _ _ _ _ _ _ (ta_index _ _ _ _ _ _ _ _ _ H)).
Qed.

(* forward: from the end of block (h, bes) to the first entry of the later blocks *)
Lemma skip_fwd : forall it ipre x ipost bpre h bes bpost fuel,
  two_at it ipre x ipost bpre h bes bpost None -> fuel <> [] ->
  exists it', two_skip isint t verify true fuel it = Ok it' /\
    two_sim it' (match concat (map snd bpost) with
                 | [] => None
                 | e' :: rest => Some (concat (map snd bpre) ++ bes, e', rest)
                 end).
Proof.
  intros it ipre x ipost bpre h bes bpost fuel Hat Hfuel.
  destruct fuel as [|f0 fuel']; [congruence|]. cbn [two_skip].
  destruct (two_at_data_invalid _ _ _ _ _ _ _ _ Hat) as [-> ->]. cbn [negb].
  pose proof (ta_split _ _ _ _ _ _ _ _ _ Hat) as S. pose proof (ta_bl _ _ _ _ _ _ _ _ _ Hat) as Hbl.
  destruct (bcur_next cmp isint 1 idx (tw_index it) ipre x ipost (ta_index _ _ _ _ _ _ _ _ _ Hat)) as (i' & -> & Hi').
  cbn [rbind].
  pose proof (with_index_pre it i' (two_at_pre _ _ _ _ _ _ _ _ _ Hat)) as Hpre.
  destruct ipost as [|x' ipost']; cbn [ref_next] in Hi'.
  - (* no next block *)
    destruct (init_invalid (two_with_index it i') Hpre Hi') as [-> Hoff]. cbn [rbind].
    assert (Hd : tw_data (two_set_data (two_with_index it i') None) = None) by reflexivity.
    rewrite Hd. cbn [rbind].
    destruct (skip_off true fuel' _ Hoff) as (it' & -> & Hoff').
    exists it'. split; [reflexivity|].
    pose proof (is_post _ _ _ _ _ _ _ _ S) as Hp. inversion Hp; subst. cbn [map concat]. exact Hoff'.
  - (* the next block *)
    destruct (init_valid (two_with_index it i') (ipre ++ [x]) x' ipost' Hpre Hi')
      as (it1 & bpre1 & h1 & bes1 & bpost1 & zd1 & -> & Hat1). cbn [rbind].
    pose proof (ta_split _ _ _ _ _ _ _ _ _ Hat1) as S1. pose proof (ta_bl _ _ _ _ _ _ _ _ _ Hat1) as Hbl1.
    assert (Hsame : bpre1 = bpre ++ [(h, bes)] /\ (h1, bes1) :: bpost1 = bpost).
    { apply app_inj_len.
      - rewrite (is_len _ _ _ _ _ _ _ _ S1), !app_length, (is_len _ _ _ _ _ _ _ _ S). reflexivity.
      - rewrite <- Hbl1, Hbl, <- app_assoc. reflexivity. }
    destruct Hsame as [Hb1 Hb2].
    destruct (ta_data _ _ _ _ _ _ _ _ _ Hat1) as (d1 & Hd1 & Hc1). rewrite Hd1.
    assert (Hfb1 : In (h1, bes1) bl) by (rewrite Hbl1; apply in_or_app; right; left; reflexivity).
    destruct (bcur_first cmp isint interval bes1 (I_block_sorted _ _ _ _ Hbl1) I_lt_trans I_lt_eq d1 zd1 Hc1)
      as (d' & -> & Hd'). cbn [rbind].
    destruct bes1 as [|e' bq'] eqn:Eb1; [exfalso; apply (I_nonempty _ _ Hfb1); reflexivity|].
    cbn [ref_first] in Hd'.
    pose proof (two_at_with_data _ _ _ _ _ _ _ _ _ d' _ Hat1 Hd') as Hat2.
    rewrite (skip_valid true fuel' (two_with_data it1 d') d' eq_refl (bcur_valid_some _ _ _ _ _ _ _ Hd')).
    eexists. split; [reflexivity|].
    rewrite <- Hb2. cbn [map concat snd app].
    cbn [two_sim]. exists (ipre ++ [x]), x', ipost', bpre1, h1, (e' :: bq'), bpost1, [], bq'.
    split; [exact Hat2|]. split; [|reflexivity].
    rewrite Hb1, concat_map_snd_app, app_nil_r. reflexivity.
Qed.

(* backward: from the start of block (h, bes) to the last entry of the earlier blocks *)
Lemma skip_bwd : forall it ipre x ipost bpre h bes bpost fuel,
  two_at it ipre x ipost bpre h bes bpost None -> fuel <> [] ->
  exists it', two_skip isint t verify false fuel it = Ok it' /\
    two_sim it' (match rev (concat (map snd bpre)) with
                 | [] => None
                 | e' :: rp => Some (rev rp, e', bes ++ concat (map snd bpost))
                 end).
Proof.
  intros it ipre x ipost bpre h bes bpost fuel Hat Hfuel.
  destruct fuel as [|f0 fuel']; [congruence|]. cbn [two_skip].
  destruct (two_at_data_invalid _ _ _ _ _ _ _ _ Hat) as [-> ->]. cbn [negb].
  pose proof (ta_split _ _ _ _ _ _ _ _ _ Hat) as S. pose proof (ta_bl _ _ _ _ _ _ _ _ _ Hat) as Hbl.
  destruct (bcur_prev cmp isint 1 idx I_idx_sorted I_lt_trans I_lt_eq (tw_index it) ipre x ipost
              (ta_index _ _ _ _ _ _ _ _ _ Hat)) as (i' & -> & Hi').
  cbn [rbind].
  pose proof (with_index_pre it i' (two_at_pre _ _ _ _ _ _ _ _ _ Hat)) as Hpre.
  destruct (snoc_cases _ ipre) as [->|(ipre' & x' & ->)].
  - (* no previous block *)
    cbn [ref_prev rev] in Hi'.
    destruct (init_invalid (two_with_index it i') Hpre Hi') as [-> Hoff]. cbn [rbind].
    assert (Hd : tw_data (two_set_data (two_with_index it i') None) = None) by reflexivity.
    rewrite Hd. cbn [rbind].
    destruct (skip_off false fuel' _ Hoff) as (it' & -> & Hoff').
    exists it'. split; [reflexivity|].
    pose proof (is_len _ _ _ _ _ _ _ _ S) as Hl. destruct bpre; [|discriminate Hl]. cbn [map concat rev]. exact Hoff'.
  - (* the previous block *)
    rewrite ref_prev_snoc in Hi'.
    destruct (init_valid (two_with_index it i') ipre' x' (x :: ipost) Hpre Hi')
      as (it1 & bpre1 & h1 & bes1 & bpost1 & zd1 & -> & Hat1). cbn [rbind].
    pose proof (ta_split _ _ _ _ _ _ _ _ _ Hat1) as S1. pose proof (ta_bl _ _ _ _ _ _ _ _ _ Hat1) as Hbl1.
    pose proof (is_len _ _ _ _ _ _ _ _ S) as Hl. rewrite app_length in Hl. cbn [length] in Hl.
    destruct (snoc_cases _ bpre) as [->|(bpre0 & fb0 & ->)]; [cbn in Hl; lia|].
    rewrite app_length in Hl. cbn [length] in Hl.
    assert (Hsame : bpre1 = bpre0 /\ (h1, bes1) :: bpost1 = fb0 :: (h, bes) :: bpost).
    { apply app_inj_len.
      - rewrite (is_len _ _ _ _ _ _ _ _ S1). lia.
      - rewrite <- Hbl1, Hbl, <- app_assoc. reflexivity. }
    destruct Hsame as [Hb1 Hb2]. inversion Hb2; subst fb0 bpost1 bpre1. clear Hb2.
    destruct (ta_data _ _ _ _ _ _ _ _ _ Hat1) as (d1 & Hd1 & Hc1). rewrite Hd1.
    assert (Hfb1 : In (h1, bes1) bl) by (rewrite Hbl1; apply in_or_app; right; left; reflexivity).
    destruct (bcur_last cmp isint interval bes1 (I_block_sorted _ _ _ _ Hbl1) I_lt_trans I_lt_eq d1 zd1 Hc1)
      as (d' & -> & Hd'). cbn [rbind].
    destruct (snoc_cases _ bes1) as [->|(bp' & e' & ->)]; [exfalso; apply (I_nonempty _ _ Hfb1); reflexivity|].
    rewrite ref_last_snoc in Hd'.
    pose proof (two_at_with_data _ _ _ _ _ _ _ _ _ d' _ Hat1 Hd') as Hat2.
    rewrite (skip_valid false fuel' (two_with_data it1 d') d' eq_refl (bcur_valid_some _ _ _ _ _ _ _ Hd')).
    eexists. split; [reflexivity|].
    rewrite concat_map_snd_app. cbn [snd]. rewrite app_assoc, rev_app_distr. cbn [rev app].
    rewrite rev_involutive.
    cbn [two_sim]. exists ipre', x', (x :: ipost), bpre0, h1, (bp' ++ [e']), ((h, bes) :: bpost), bp', [].
    split; [exact Hat2|]. split; reflexivity.
Qed.


(* ---- where the seeks land, in the whole entry list ---- *)
Lemma ref_seek_all_lt : forall (l : list entry) k,
  Forall (fun e => cmp (fst e) k = Lt) l -> ref_seek cmp l k = None.
Proof.
  intros l k H. unfold ref_seek.
  assert (E : split_lt cmp k l = (l, [])).
  { induction H as [|e l He Hl IH]; [reflexivity|]. cbn [split_lt]. rewrite He, IH. reflexivity. }
  rewrite E. reflexivity.
Qed.

Lemma pre_blocks_lt : forall ipre x ipost bpre h bes bpost k,
  isplit cmp ipre x ipost bpre h bes bpost ->
  Forall (fun y => cmp (fst y) k = Lt) ipre ->
  Forall (fun e => cmp (fst e) k = Lt) (concat (map snd bpre)).
Proof.
  intros ipre x ipost bpre h bes bpost k S Hipre. apply Forall_forall. intros e He.
  destruct (is_pre_ge _ _ _ _ _ _ _ _ S e He) as (y & Hy1 & Hy2).
  rewrite Forall_forall in Hipre. apply (co_le_lt cmp Hord _ (fst y)); [exact Hy2|apply Hipre; exact Hy1].
Qed.

Lemma es_split : forall bpre h bes bpost, bl = bpre ++ (h, bes) :: bpost ->
  es = concat (map snd bpre) ++ bes ++ concat (map snd bpost).
Proof. intros bpre h bes bpost Hbl. rewrite I_es, Hbl. apply concat_blocks_split. Qed.

Lemma seek_idx_none : forall k, ref_seek cmp idx k = None -> ref_seek cmp es k = None.
Proof.
  intros k H. apply ref_seek_all_lt. apply ref_seek_none in H.
  apply Forall_forall. intros e He. rewrite I_es in He.
  destruct (in_concat_split bl e He) as (bpre & h & bes & bpost & Hbl & Hin).
  destruct (index_rel_split_block cmp bpre h bes bpost idx bl I_idx_rel Hbl) as (ipre & x & ipost & Hidx & S).
  apply (co_le_lt cmp Hord _ (fst x)); [apply (is_ge _ _ _ _ _ _ _ _ S e Hin)|].
  rewrite Forall_forall in H. apply H. rewrite Hidx. apply in_or_app. right. left. reflexivity.
Qed.

Lemma seek_in_block : forall k ipre x ipost bpre h bes bpost bp e bq,
  bl = bpre ++ (h, bes) :: bpost -> isplit cmp ipre x ipost bpre h bes bpost ->
  ref_seek cmp idx k = Some (ipre, x, ipost) ->
  ref_seek cmp bes k = Some (bp, e, bq) ->
  ref_seek cmp es k = Some (concat (map snd bpre) ++ bp, e, bq ++ concat (map snd bpost)).
Proof.
  intros k ipre x ipost bpre h bes bpost bp e bq Hbl S Ei Eb.
  destruct (ref_seek_some _ _ _ _ _ _ Eb) as (Hbes & Hbp & He).
  destruct (ref_seek_some _ _ _ _ _ _ Ei) as (_ & Hipre & _).
  apply ref_seek_unique.
  - rewrite (es_split _ _ _ _ Hbl), Hbes, <- !app_assoc. reflexivity.
  - apply Forall_app. split; [eapply pre_blocks_lt; eassumption|exact Hbp].
  - exact He.
Qed.

Lemma seek_past_block : forall k ipre x ipost bpre h bes bpost,
  bl = bpre ++ (h, bes) :: bpost -> isplit cmp ipre x ipost bpre h bes bpost ->
  ref_seek cmp idx k = Some (ipre, x, ipost) ->
  ref_seek cmp bes k = None ->
  ref_seek cmp es k = match concat (map snd bpost) with
                      | [] => None
                      | e' :: rest => Some (concat (map snd bpre) ++ bes, e', rest)
                      end.
Proof.
  intros k ipre x ipost bpre h bes bpost Hbl S Ei Eb.
  apply ref_seek_none in Eb.
  destruct (ref_seek_some _ _ _ _ _ _ Ei) as (_ & Hipre & Hx).
  assert (Hlt : Forall (fun e => cmp (fst e) k = Lt) (concat (map snd bpre) ++ bes)).
  { apply Forall_app. split; [eapply pre_blocks_lt; eassumption|exact Eb]. }
  destruct (concat (map snd bpost)) as [|e' rest] eqn:Ep.
  - apply ref_seek_all_lt. rewrite (es_split _ _ _ _ Hbl), Ep, app_nil_r. exact Hlt.
  - apply ref_seek_unique.
    + rewrite (es_split _ _ _ _ Hbl), Ep, app_assoc. reflexivity.
    + exact Hlt.
    + intros Hc. apply Hx.
      apply (co_lt_trans cmp Hord _ (fst e')); [|exact Hc].
      apply (is_lt _ _ _ _ _ _ _ _ S e'). rewrite Ep. left. reflexivity.
Qed.

(* ---- the five operations ---- *)
Definition two_reach (it : twoiter) : Prop :=
  two_pre it /\ exists zi, bcur isint 1 idx (tw_index it) zi.

Lemma two_fuel_ne : forall it : twoiter, two_fuel it <> [].
Proof. intros it. unfold two_fuel. discriminate. Qed.

Lemma first_two : forall it, two_reach it ->
  exists it', twoiter_first isint t verify it = Ok it' /\ two_sim it' (ref_first es).
Proof.
  intros it [Hpre [zi Hzi]]. unfold twoiter_first.
  destruct (bcur_first cmp isint 1 idx I_idx_sorted I_lt_trans I_lt_eq (tw_index it) zi Hzi) as (i' & -> & Hi').
  cbn [rbind]. pose proof (with_index_pre it i' Hpre) as Hpre'.
  assert (Hcase : idx = [] \/ exists x ipost, idx = x :: ipost) by (destruct idx; eauto).
  destruct Hcase as [Eidx|(x & ipost & Eidx)].
  - assert (Hrf : ref_first idx = None) by (rewrite Eidx; reflexivity). rewrite Hrf in Hi'.
    destruct (init_invalid (two_with_index it i') Hpre' Hi') as [-> Hoff]. cbn [rbind].
    assert (Hd : tw_data (two_set_data (two_with_index it i') None) = None) by reflexivity.
    rewrite Hd. cbn [rbind].
    destruct (skip_off true (two_fuel (two_set_data (two_with_index it i') None)) _ Hoff) as (it' & -> & Hoff').
    exists it'. split; [reflexivity|].
    assert (Hbl0 : bl = []).
    { pose proof (index_rel_length cmp _ _ I_idx_rel) as Hl. symmetry in Hl. rewrite Eidx in Hl.
      apply length_zero_iff_nil in Hl. exact Hl. }
    rewrite I_es, Hbl0. exact Hoff'.
  - assert (Hrf : ref_first idx = Some ([], x, ipost)) by (rewrite Eidx; reflexivity). rewrite Hrf in Hi'.
    destruct (init_valid (two_with_index it i') [] x ipost Hpre' Hi')
      as (it1 & bpre1 & h1 & bes1 & bpost1 & zd1 & -> & Hat1). cbn [rbind].
    pose proof (ta_split _ _ _ _ _ _ _ _ _ Hat1) as S1. pose proof (ta_bl _ _ _ _ _ _ _ _ _ Hat1) as Hbl1.
    pose proof (is_len _ _ _ _ _ _ _ _ S1) as Hl. destruct bpre1; [|discriminate Hl].
    destruct (ta_data _ _ _ _ _ _ _ _ _ Hat1) as (d1 & Hd1 & Hc1). rewrite Hd1.
    assert (Hfb1 : In (h1, bes1) bl) by (rewrite Hbl1; left; reflexivity).
    destruct (bcur_first cmp isint interval bes1 (I_block_sorted _ _ _ _ Hbl1) I_lt_trans I_lt_eq d1 zd1 Hc1)
      as (d' & -> & Hd'). cbn [rbind].
    destruct bes1 as [|e' bq'] eqn:Eb1; [exfalso; apply (I_nonempty _ _ Hfb1); reflexivity|].
    cbn [ref_first] in Hd'.
    pose proof (two_at_with_data _ _ _ _ _ _ _ _ _ d' _ Hat1 Hd') as Hat2.
    rewrite (skip_valid true _ (two_with_data it1 d') d' eq_refl (bcur_valid_some _ _ _ _ _ _ _ Hd')).
    eexists. split; [reflexivity|].
    rewrite I_es, Hbl1. cbn [app map concat snd ref_first].
    cbn [two_sim]. exists [], x, ipost, [], h1, (e' :: bq'), bpost1, [], bq'.
    split; [exact Hat2|]. split; reflexivity.
Qed.

Lemma last_two : forall it, two_reach it ->
  exists it', twoiter_last isint t verify it = Ok it' /\ two_sim it' (ref_last es).
Proof.
  intros it [Hpre [zi Hzi]]. unfold twoiter_last.
  destruct (bcur_last cmp isint 1 idx I_idx_sorted I_lt_trans I_lt_eq (tw_index it) zi Hzi) as (i' & -> & Hi').
  cbn [rbind]. pose proof (with_index_pre it i' Hpre) as Hpre'.
  destruct (snoc_cases _ idx) as [Eidx|(ipre & x & Eidx)].
  - assert (Hrf : ref_last idx = None) by (rewrite Eidx; reflexivity). rewrite Hrf in Hi'.
    destruct (init_invalid (two_with_index it i') Hpre' Hi') as [-> Hoff]. cbn [rbind].
    assert (Hd : tw_data (two_set_data (two_with_index it i') None) = None) by reflexivity.
    rewrite Hd. cbn [rbind].
    destruct (skip_off false (two_fuel (two_set_data (two_with_index it i') None)) _ Hoff) as (it' & -> & Hoff').
    exists it'. split; [reflexivity|].
    assert (Hbl0 : bl = []).
    { pose proof (index_rel_length cmp _ _ I_idx_rel) as Hl. symmetry in Hl. rewrite Eidx in Hl.
      apply length_zero_iff_nil in Hl. exact Hl. }
    rewrite I_es, Hbl0. exact Hoff'.
  - assert (Hrf : ref_last idx = Some (ipre, x, [])) by (rewrite Eidx; apply ref_last_snoc). rewrite Hrf in Hi'.
    destruct (init_valid (two_with_index it i') ipre x [] Hpre' Hi')
      as (it1 & bpre1 & h1 & bes1 & bpost1 & zd1 & -> & Hat1). cbn [rbind].
    pose proof (ta_split _ _ _ _ _ _ _ _ _ Hat1) as S1. pose proof (ta_bl _ _ _ _ _ _ _ _ _ Hat1) as Hbl1.
    pose proof (is_post _ _ _ _ _ _ _ _ S1) as Hp. inversion Hp; subst bpost1.
    destruct (ta_data _ _ _ _ _ _ _ _ _ Hat1) as (d1 & Hd1 & Hc1). rewrite Hd1.
    assert (Hfb1 : In (h1, bes1) bl) by (rewrite Hbl1; apply in_or_app; right; left; reflexivity).
    destruct (bcur_last cmp isint interval bes1 (I_block_sorted _ _ _ _ Hbl1) I_lt_trans I_lt_eq d1 zd1 Hc1)
      as (d' & -> & Hd'). cbn [rbind].
    destruct (snoc_cases _ bes1) as [->|(bp' & e' & ->)]; [exfalso; apply (I_nonempty _ _ Hfb1); reflexivity|].
    rewrite ref_last_snoc in Hd'.
    pose proof (two_at_with_data _ _ _ _ _ _ _ _ _ d' _ Hat1 Hd') as Hat2.
    rewrite (skip_valid false _ (two_with_data it1 d') d' eq_refl (bcur_valid_some _ _ _ _ _ _ _ Hd')).
    eexists. split; [reflexivity|].
    rewrite I_es, Hbl1, concat_map_snd_app. cbn [snd]. rewrite app_assoc, ref_last_snoc.
    cbn [two_sim]. exists ipre, x, [], bpre1, h1, (bp' ++ [e']), [], bp', [].
    split; [exact Hat2|]. split; reflexivity.
Qed.

Lemma seek_two : forall target it, two_reach it -> (isint = true -> 8 <= nlen target) ->
  exists it', twoiter_seek cmp isint t verify target it = Ok it' /\ two_sim it' (ref_seek cmp es target).
Proof.
  intros target it [Hpre [zi Hzi]] Ht. unfold twoiter_seek.
  destruct (bcur_seek cmp isint 1 idx I_idx_sorted I_lt_trans I_lt_eq target (tw_index it) zi Hzi Ht) as (i' & -> & Hi').
  cbn [rbind]. pose proof (with_index_pre it i' Hpre) as Hpre'.
  destruct (ref_seek cmp idx target) as [[[ipre x] ipost]|] eqn:Ei.
  - destruct (init_valid (two_with_index it i') ipre x ipost Hpre' Hi')
      as (it1 & bpre1 & h1 & bes1 & bpost1 & zd1 & -> & Hat1). cbn [rbind].
    pose proof (ta_split _ _ _ _ _ _ _ _ _ Hat1) as S1. pose proof (ta_bl _ _ _ _ _ _ _ _ _ Hat1) as Hbl1.
    destruct (ta_data _ _ _ _ _ _ _ _ _ Hat1) as (d1 & Hd1 & Hc1). rewrite Hd1.
    destruct (bcur_seek cmp isint interval bes1 (I_block_sorted _ _ _ _ Hbl1) I_lt_trans I_lt_eq target d1 zd1 Hc1 Ht)
      as (d' & -> & Hd'). cbn [rbind].
    pose proof (two_at_with_data _ _ _ _ _ _ _ _ _ d' _ Hat1 Hd') as Hat2.
    destruct (ref_seek cmp bes1 target) as [[[bp e] bq]|] eqn:Eb.
    + rewrite (skip_valid true _ (two_with_data it1 d') d' eq_refl (bcur_valid_some _ _ _ _ _ _ _ Hd')).
      eexists. split; [reflexivity|].
      rewrite (seek_in_block target _ _ _ _ _ _ _ _ _ _ Hbl1 S1 Ei Eb).
      cbn [two_sim]. exists ipre, x, ipost, bpre1, h1, bes1, bpost1, bp, bq. auto.
    + destruct (skip_fwd _ _ _ _ _ _ _ _ (two_fuel (two_with_data it1 d')) Hat2 (two_fuel_ne _)) as (it' & -> & Hs).
      exists it'. split; [reflexivity|].
      rewrite (seek_past_block target _ _ _ _ _ _ _ Hbl1 S1 Ei Eb). exact Hs.
  - destruct (init_invalid (two_with_index it i') Hpre' Hi') as [-> Hoff]. cbn [rbind].
    assert (Hd : tw_data (two_set_data (two_with_index it i') None) = None) by reflexivity.
    rewrite Hd. cbn [rbind].
    destruct (skip_off true (two_fuel (two_set_data (two_with_index it i') None)) _ Hoff) as (it' & -> & Hoff').
    exists it'. split; [reflexivity|]. rewrite (seek_idx_none target Ei). exact Hoff'.
Qed.

Lemma next_two : forall it pre e post, two_sim it (Some (pre, e, post)) ->
  exists it', twoiter_next isint t verify it = Ok it' /\ two_sim it' (ref_next (pre, e, post)).
Proof.
  intros it pre e post Hs. cbn [two_sim] in Hs.
  destruct Hs as (ipre & x & ipost & bpre & h & bes & bpost & bp & bq & Hat & -> & ->).
  unfold twoiter_next.
  destruct (ta_data _ _ _ _ _ _ _ _ _ Hat) as (d & Hd & Hc). rewrite Hd.
  destruct (bcur_next cmp isint interval bes d bp e bq Hc) as (d' & -> & Hd'). cbn [rbind].
  pose proof (two_at_with_data _ _ _ _ _ _ _ _ _ d' _ Hat Hd') as Hat2.
  pose proof (bcur_zip_es _ _ _ _ _ _ _ Hc) as Hbes.
  destruct bq as [|e' bq']; cbn [ref_next] in Hd', Hat2.
  - destruct (skip_fwd _ _ _ _ _ _ _ _ (two_fuel (two_with_data it d')) Hat2 (two_fuel_ne _)) as (it' & -> & Hs).
    exists it'. split; [reflexivity|]. cbn [app ref_next].
    destruct (concat (map snd bpost)) as [|e' rest].
    + exact Hs.
    + rewrite Hbes in Hs. rewrite <- app_assoc. exact Hs.
  - rewrite (skip_valid true _ (two_with_data it d') d' eq_refl (bcur_valid_some _ _ _ _ _ _ _ Hd')).
    eexists. split; [reflexivity|]. cbn [app ref_next].
    cbn [two_sim]. exists ipre, x, ipost, bpre, h, bes, bpost, (bp ++ [e]), bq'.
    split; [exact Hat2|]. split; [rewrite app_assoc; reflexivity|reflexivity].
Qed.

Lemma prev_two : forall it pre e post, two_sim it (Some (pre, e, post)) ->
  exists it', twoiter_prev isint t verify it = Ok it' /\ two_sim it' (ref_prev (pre, e, post)).
Proof.
  intros it pre e post Hs. cbn [two_sim] in Hs.
  destruct Hs as (ipre & x & ipost & bpre & h & bes & bpost & bp & bq & Hat & -> & ->).
  unfold twoiter_prev.
  destruct (ta_data _ _ _ _ _ _ _ _ _ Hat) as (d & Hd & Hc). rewrite Hd.
  pose proof (ta_bl _ _ _ _ _ _ _ _ _ Hat) as Hbl.
  destruct (bcur_prev cmp isint interval bes (I_block_sorted _ _ _ _ Hbl) I_lt_trans I_lt_eq d bp e bq Hc)
    as (d' & -> & Hd'). cbn [rbind].
  pose proof (two_at_with_data _ _ _ _ _ _ _ _ _ d' _ Hat Hd') as Hat2.
  pose proof (bcur_zip_es _ _ _ _ _ _ _ Hc) as Hbes.
  destruct (snoc_cases _ bp) as [->|(bp' & e' & ->)].
  - cbn [ref_prev rev] in Hd', Hat2.
    destruct (skip_bwd _ _ _ _ _ _ _ _ (two_fuel (two_with_data it d')) Hat2 (two_fuel_ne _)) as (it' & -> & Hs).
    exists it'. split; [reflexivity|]. rewrite app_nil_r. unfold ref_prev.
    destruct (rev (concat (map snd bpre))) as [|e' rp].
    + exact Hs.
    + rewrite Hbes in Hs. cbn [app] in Hs. exact Hs.
  - rewrite ref_prev_snoc in Hd', Hat2.
    rewrite (skip_valid false _ (two_with_data it d') d' eq_refl (bcur_valid_some _ _ _ _ _ _ _ Hd')).
    eexists. split; [reflexivity|]. rewrite app_assoc, ref_prev_snoc.
    cbn [two_sim]. exists ipre, x, ipost, bpre, h, bes, bpost, bp', (e :: bq).
    split; [exact Hat2|]. split; reflexivity.
Qed.

(* ---- scripts ---- *)
Lemma two_sim_valid : forall it z, two_sim it z ->
  twoiter_valid it = match z with Some _ => true | None => false end.
Proof.
  intros it [[[pre e] post]|] Hs; cbn [two_sim] in Hs; unfold twoiter_valid.
  - destruct Hs as (ipre & x & ipost & bpre & h & bes & bpost & bp & bq & Hat & _).
    destruct (ta_data _ _ _ _ _ _ _ _ _ Hat) as (d & -> & Hc). apply (bcur_valid_some _ _ _ _ _ _ _ Hc).
  - destruct Hs as (_ & -> & _). reflexivity.
Qed.

Lemma two_sim_observe : forall it z, two_sim it z -> twoiter_observe it = Ok (zip_obs z).
Proof.
  intros it [[[pre e] post]|] Hs; cbn [two_sim] in Hs; unfold twoiter_observe.
  - destruct Hs as (ipre & x & ipost & bpre & h & bes & bpost & bp & bq & Hat & _).
    destruct (ta_data _ _ _ _ _ _ _ _ _ Hat) as (d & -> & Hc). apply (bcur_observe _ _ _ _ _ Hc).
  - destruct Hs as (_ & -> & _). reflexivity.
Qed.

Lemma two_sim_status : forall it z, two_sim it z -> twoiter_status it = SOk.
Proof.
  intros it [[[pre e] post]|] Hs; cbn [two_sim] in Hs; unfold twoiter_status.
  - destruct Hs as (ipre & x & ipost & bpre & h & bes & bpost & bp & bq & Hat & _).
    rewrite (bcur_status _ _ _ _ _ (ta_index _ _ _ _ _ _ _ _ _ Hat)).
    destruct (ta_data _ _ _ _ _ _ _ _ _ Hat) as (d & -> & Hc). rewrite (bcur_status _ _ _ _ _ Hc).
    apply (ta_status _ _ _ _ _ _ _ _ _ Hat).
  - destruct Hs as (Hi & -> & Hst). rewrite (bcur_status _ _ _ _ _ Hi). exact Hst.
Qed.

Lemma step_two : forall op it z, two_sim it z -> op_ok isint op ->
  exists it', twoiter_step cmp isint t verify op it = Ok it' /\ two_sim it' (ref_step cmp es op z).
Proof.
  intros op it z Hs Hop. pose proof (two_sim_pre it z Hs) as Hreach.
  destruct op; cbn [twoiter_step ref_step].
  - apply first_two. exact Hreach.
  - apply last_two. exact Hreach.
  - apply seek_two; [exact Hreach|exact Hop].
  - rewrite (two_sim_valid it z Hs). destruct z as [[[pre e] post]|].
    + apply next_two. exact Hs.
    + exists it. auto.
  - rewrite (two_sim_valid it z Hs). destruct z as [[[pre e] post]|].
    + apply prev_two. exact Hs.
    + exists it. auto.
Qed.

Lemma run_two : forall ops it z, two_sim it z -> Forall (op_ok isint) ops ->
  exists it', twoiter_run cmp isint t verify ops it = Ok (ref_run cmp es ops z, it') /\
              twoiter_status it' = SOk.
Proof.
  induction ops as [|op ops IH]; intros it z Hs Hops.
  - cbn [twoiter_run ref_run]. exists it. split; [reflexivity|]. eapply two_sim_status; exact Hs.
  - inversion Hops; subst. cbn [twoiter_run].
    destruct (step_two op it z Hs H1) as (it1 & -> & Hs1). cbn [rbind].
    rewrite (two_sim_observe it1 _ Hs1). cbn [rbind].
    destruct (IH it1 _ Hs1 H2) as (it2 & -> & St). cbn [rbind ref_run].
    exists it2. auto.
Qed.

Theorem twoiter_create_sim : exists it0, twoiter_create t = Ok it0 /\ two_sim it0 None.
Proof.
  unfold twoiter_create. destruct I_index_cursor as (i0 & -> & Hi0). cbn [rbind].
  eexists. split; [reflexivity|]. cbn [two_sim]. unfold two_off. cbn [tw_index tw_data tw_status]. auto.
Qed.

(* ------------------------------------------------------------------ *)
(* ldb_table_internal_get at the level of user keys: when the successor *)
(* of the target has the same "user key" (the part of the key the       *)
(* filter policy looks at), it is found -- neither the filter nor the   *)
(* shortened index separators can hide it.                              *)
(* ------------------------------------------------------------------ *)
Variable ukey : bytes -> bytes.
Hypothesis fmatch_safe : forall f k, fmatch f k <> OOB.
Hypothesis Hfu : forall k k', ukey k = ukey k' -> forall f, fmatch f k = fmatch f k'.
Hypothesis Hsepu : forall a b k e,
  cmp a b = Lt -> cmp a k = Lt -> cmp k (sep a b) <> Gt -> cmp b e <> Gt -> ukey e <> ukey k.

Theorem table_get_user : forall k p e q,
  (isint = true -> 8 <= nlen k) ->
  ref_seek cmp es k = Some (p, e, q) -> ukey (fst e) = ukey k ->
  table_get cmp isint fmatch t verify k = Ok (Some e, SOk).
Proof.
  intros k p e q Hk Eg Hu.
  destruct (table_get_core cmp isint sep succ has_filter fmatch interval Hord Hsep Hsucc dkey Hdkey Hsepok Hsuccok
              file es t bl Hbt Hes Hcount Hsorted Hlen fmatch_safe verify k Hk) as (r & Hget & Hspec).
  rewrite Hget. f_equal. f_equal.
  change (index_of sep succ bl None) with idx in Hspec.
  destruct (ref_seek cmp idx k) as [[[ipre x] ipost]|] eqn:Ei.
  2:{ exfalso. rewrite (seek_idx_none k Ei) in Eg. discriminate. }
  destruct Hspec as (bpre & h & bes & bpost & Hbl & S & Hr).
  destruct (ref_seek cmp bes k) as [[[bp e'] bq]|] eqn:Eb.
  - pose proof (seek_in_block k _ _ _ _ _ _ _ _ _ _ Hbl S Ei Eb) as Eg'. rewrite Eg in Eg'.
    inversion Eg'; subst p e' q.
    destruct Hr as [Hr|(_ & _ & Hnot)]; [exact Hr|].
    exfalso. apply (Hnot (fst e)).
    + destruct (ref_seek_some _ _ _ _ _ _ Eb) as (Hbes & _). rewrite Hbes. apply in_map.
      apply in_or_app. right. left. reflexivity.
    + apply Hfu. symmetry. exact Hu.
  - exfalso.
    pose proof (seek_past_block k _ _ _ _ _ _ _ Hbl S Ei Eb) as Eg'. rewrite Eg in Eg'.
    destruct bpost as [|[h1 b1] bpost1]; [discriminate Eg'|].
    cbn [map concat snd] in Eg'.
    assert (Hfb : In (h, bes) bl) by (rewrite Hbl; apply in_or_app; right; left; reflexivity).
    assert (Hfb1 : In (h1, b1) bl) by (rewrite Hbl; apply in_or_app; right; right; left; reflexivity).
    destruct b1 as [|e1 b1']; [exfalso; apply (I_nonempty _ _ Hfb1); reflexivity|].
    cbn [app] in Eg'. inversion Eg'; subst p e1 q. clear Eg'.
    destruct (ref_seek_some _ _ _ _ _ _ Ei) as (Hidx & _ & Hxk).
    (* x is the separator between the two blocks *)
    assert (Hx : fst x = sep (lastk bes) (fst e)).
    { unfold idx in Hidx. rewrite Hbl, index_of_app in Hidx.
      apply app_inj_len in Hidx.
      - destruct Hidx as [_ Hidx]. inversion Hidx as [[Hxx Hrest]]. reflexivity.
      - rewrite index_of_length. apply (is_len _ _ _ _ _ _ _ _ S). }
    destruct (lastk_in bes (I_nonempty _ _ Hfb)) as (el & Hel1 & Hel2).
    apply ref_seek_none in Eb.
    apply (Hsepu (lastk bes) (fst e) k (fst e)).
    + rewrite <- Hel2. pose proof Hsorted as Hs. rewrite (es_split _ _ _ _ Hbl) in Hs.
      apply sorted_by_app_r in Hs.
      apply (sorted_by_cross cmp _ _ el e Hs Hel1). cbn [map concat snd app]. left. reflexivity.
    + rewrite <- Hel2. rewrite Forall_forall in Eb. apply Eb. exact Hel1.
    + rewrite <- Hx. apply (co_not_lt_ge cmp Hord). exact Hxk.
    + rewrite (co_refl cmp Hord). discriminate.
    + exact Hu.
Qed.

End Iter.

(* ------------------------------------------------------------------ *)
(* table_iter command on a built table                                 *)
(* ------------------------------------------------------------------ *)
Section Run.
Variable cmp : bytes -> bytes -> comparison.
Variable isint : bool.
Variable sep : bytes -> bytes -> bytes.
Variable succ : bytes -> bytes.
Variable has_filter : bool.
Variable fbuild : list bytes -> bytes.
Variable fmatch : bytes -> bytes -> res bool.
Variable compress : bytes -> bytes.
Variables block_size interval compression : N.
Hypothesis Hcompress : compression = 1 -> forall raw,
  nlen (compress raw) < nlen raw - nlen raw / 8 ->
  snappy_decode_size (compress raw) <> None /\ snappy_decode (compress raw) = Ok (Some raw) /\
  nlen raw < 4294967296.
Hypothesis policy_sound : forall keys key, In key keys -> fmatch (fbuild keys) key = Ok true.
Hypothesis Hord : cmp_order cmp.
Hypothesis Hsep : sep_contract cmp sep.
Hypothesis Hsucc : succ_contract cmp succ.
Variable dkey : bytes -> Prop.
Hypothesis Hdkey : forall k, dkey k -> ikeyok isint k.
Hypothesis Hsepok : forall a b, dkey a -> ikeyok isint (sep a b).
Hypothesis Hsuccok : forall a, dkey a -> ikeyok isint (succ a).

Theorem table_run_build : forall paranoid verify es ops,
  Forall (eok dkey) es -> nlen es + 1 < 4294967296 -> sorted_by cmp es ->
  let file := table_build sep succ has_filter fbuild compress block_size interval compression es in
  wf_bytes file = true -> nlen file < 4294967296 ->
  Forall (op_ok isint) ops ->
  table_run cmp isint has_filter paranoid verify file ops = Ok (inr (ref_run cmp es ops None, SOk)).
Proof.
  intros paranoid verify es ops Hes Hcount Hsorted file Hwf Hlen Hops.
  destruct (table_build_open sep succ has_filter fbuild fmatch compress block_size interval compression
              Hcompress policy_sound paranoid es Hwf Hlen) as (t & bl & Hopen & Hbt).
  fold file in Hopen, Hbt.
  unfold table_run. rewrite Hopen. cbn [rbind].
  destruct (twoiter_create_sim cmp isint sep succ has_filter fmatch interval dkey Hdkey Hsepok Hsuccok
              file es t bl Hbt Hes Hcount Hlen) as (it0 & -> & Hs0). cbn [rbind].
  destruct (run_two cmp isint sep succ has_filter fmatch interval Hord Hsep Hsucc dkey Hdkey Hsepok Hsuccok
              file es t bl Hbt Hes Hcount Hsorted Hlen verify ops it0 None Hs0 Hops) as (it' & -> & St).
  cbn [rbind]. rewrite St. reflexivity.
Qed.

End Run.

(* ---- the two driver instances ---- *)
Theorem table_run_build_bytewise :
  forall bits compress block_size interval compression paranoid verify es ops,
  (compression = 1 -> forall raw, nlen (compress raw) < nlen raw - nlen raw / 8 ->
     snappy_decode_size (compress raw) <> None /\ snappy_decode (compress raw) = Ok (Some raw) /\
     nlen raw < 4294967296) ->
  Forall (fun e => nlen (fst e) < 4294967296 /\ nlen (snd e) < 4294967296) es ->
  nlen es + 1 < 4294967296 ->
  sorted_by bytes_compare es ->
  let file := table_build_i 0 bits compress block_size interval compression es in
  wf_bytes file = true -> nlen file < 4294967296 ->
  table_run_i 0 bits paranoid verify file ops = Ok (inr (ref_run bytes_compare es ops None, SOk)).
Proof.
  intros bits compress block_size interval compression paranoid verify es ops Hc Hes Hn Hs file Hwf Hlen.
  destruct bytewise_hooks as (H1 & H2 & H3).
  apply (table_run_build bytes_compare false tbl_sep tbl_succ (inst_has_filter bits) (user_fbuild bits)
           user_fmatch compress block_size interval compression Hc (user_policy_sound bits)
           bytes_order bytes_sep_contract bytes_succ_contract dkey_bytewise H1 H2 H3
           paranoid verify es ops); auto.
  - eapply Forall_impl; [|exact Hes]. intros e [A B]. split; [split; assumption|exact A].
  - apply Forall_forall. intros op _. destruct op; cbn; auto. intros H; discriminate.
Qed.

Theorem table_run_build_internal :
  forall bits compress block_size interval compression paranoid verify es ops,
  (compression = 1 -> forall raw, nlen (compress raw) < nlen raw - nlen raw / 8 ->
     snappy_decode_size (compress raw) <> None /\ snappy_decode (compress raw) = Ok (Some raw) /\
     nlen raw < 4294967296) ->
  Forall (fun e => nlen (fst e) < 4294967296 /\ 8 <= nlen (fst e) /\ nlen (snd e) < 4294967296) es ->
  nlen es + 1 < 4294967296 ->
  sorted_by tbl_ikey_compare es ->
  let file := table_build_i 1 bits compress block_size interval compression es in
  wf_bytes file = true -> nlen file < 4294967296 ->
  Forall (op_ok true) ops ->
  table_run_i 1 bits paranoid verify file ops = Ok (inr (ref_run tbl_ikey_compare es ops None, SOk)).
Proof.
  intros bits compress block_size interval compression paranoid verify es ops Hc Hes Hn Hs file Hwf Hlen Hops.
  destruct internal_hooks as (H1 & H2 & H3).
  apply (table_run_build tbl_ikey_compare true tbl_isep tbl_isucc (inst_has_filter bits) (internal_fbuild bits)
           internal_fmatch compress block_size interval compression Hc (internal_policy_sound bits)
           ikey_order ikey_sep_contract ikey_succ_contract dkey_internal H1 H2 H3
           paranoid verify es ops); auto.
  eapply Forall_impl; [|exact Hes]. intros e (A & B & C). split; [split; assumption|split; assumption].
Qed.

(* ------------------------------------------------------------------ *)
(* table_get command on a built table, at the level of user keys       *)
(* ------------------------------------------------------------------ *)
Section LookupUser.
Variable cmp : bytes -> bytes -> comparison.
Variable isint : bool.
Variable sep : bytes -> bytes -> bytes.
Variable succ : bytes -> bytes.
Variable has_filter : bool.
Variable fbuild : list bytes -> bytes.
Variable fmatch : bytes -> bytes -> res bool.
Variable compress : bytes -> bytes.
Variables block_size interval compression : N.
Hypothesis Hcompress : compression = 1 -> forall raw,
  nlen (compress raw) < nlen raw - nlen raw / 8 ->
  snappy_decode_size (compress raw) <> None /\ snappy_decode (compress raw) = Ok (Some raw) /\
  nlen raw < 4294967296.
Hypothesis policy_sound : forall keys key, In key keys -> fmatch (fbuild keys) key = Ok true.
Hypothesis fmatch_safe : forall f k, fmatch f k <> OOB.
Hypothesis Hord : cmp_order cmp.
Hypothesis Hsep : sep_contract cmp sep.
Hypothesis Hsucc : succ_contract cmp succ.
Variable dkey : bytes -> Prop.
Hypothesis Hdkey : forall k, dkey k -> ikeyok isint k.
Hypothesis Hsepok : forall a b, dkey a -> ikeyok isint (sep a b).
Hypothesis Hsuccok : forall a, dkey a -> ikeyok isint (succ a).
Variable ukey : bytes -> bytes.
Hypothesis Hfu : forall k k', ukey k = ukey k' -> forall f, fmatch f k = fmatch f k'.
Hypothesis Hsepu : forall a b k e,
  cmp a b = Lt -> cmp a k = Lt -> cmp k (sep a b) <> Gt -> cmp b e <> Gt -> ukey e <> ukey k.

Theorem table_lookup_user_build : forall paranoid verify es,
  Forall (eok dkey) es -> nlen es + 1 < 4294967296 -> sorted_by cmp es ->
  let file := table_build sep succ has_filter fbuild compress block_size interval compression es in
  wf_bytes file = true -> nlen file < 4294967296 ->
  forall k p e q, (isint = true -> 8 <= nlen k) ->
  ref_seek cmp es k = Some (p, e, q) -> ukey (fst e) = ukey k ->
  table_lookup cmp isint has_filter fmatch paranoid verify file k = Ok (inr (Some e, SOk)).
Proof.
  intros paranoid verify es Hes Hcount Hsorted file Hwf Hlen k p e q Hk Eg Hu.
  destruct (table_build_open sep succ has_filter fbuild fmatch compress block_size interval compression
              Hcompress policy_sound paranoid es Hwf Hlen) as (t & bl & Hopen & Hbt).
  fold file in Hopen, Hbt.
  unfold table_lookup. rewrite Hopen. cbn [rbind].
  rewrite (table_get_user cmp isint sep succ has_filter fmatch interval Hord Hsep Hsucc dkey Hdkey Hsepok Hsuccok
             file es t bl Hbt Hes Hcount Hsorted Hlen verify ukey fmatch_safe Hfu Hsepu k p e q Hk Eg Hu).
  reflexivity.
Qed.

End LookupUser.

(* the internal-key comparator: user key = all but the 8-byte tag *)
Lemma tbl_user_key_seek : forall u, tbl_user_key (u ++ tbl_seek_tag) = u.
Proof. intros u. rewrite tbl_user_key_eq, tbl_seek_tag_eq. apply IKeyProofs.ikey_user_seek. Qed.

Lemma ikey_le_user : forall a b, tbl_ikey_compare a b <> Gt ->
  bytes_compare (tbl_user_key a) (tbl_user_key b) <> Gt.
Proof.
  intros a b H G. apply H. unfold tbl_ikey_compare. rewrite G. reflexivity.
Qed.

Lemma ikey_sep_user : forall a b k e,
  tbl_ikey_compare a b = Lt -> tbl_ikey_compare a k = Lt ->
  tbl_ikey_compare k (tbl_isep a b) <> Gt -> tbl_ikey_compare b e <> Gt ->
  tbl_user_key e <> tbl_user_key k.
Proof.
  intros a b k e Hab Hak Hks Hbe. unfold tbl_isep in Hks.
  set (ua := tbl_user_key a) in *. set (ub := tbl_user_key b) in *.
  destruct ((nlen (tbl_sep ua ub) <? nlen ua) && bytes_ltb ua (tbl_sep ua ub)) eqn:Ec.
  - apply andb_prop in Ec. destruct Ec as [Elen _].
    assert (Hu : bytes_compare ua ub = Lt).
    { unfold tbl_ikey_compare in Hab. fold ua ub in Hab.
      destruct (bytes_compare ua ub) eqn:E; [|reflexivity|discriminate].
      apply bytes_compare_eq_iff in E. rewrite E, tbl_sep_eq, IKeyProofs.shortest_separator_same in Elen. lia. }
    destruct (bytes_sep_contract ua ub Hu) as [_ Hsb].
    apply ikey_le_user in Hks. rewrite tbl_user_key_seek in Hks.
    apply ikey_le_user in Hbe. fold ub in Hbe.
    (* uk <= tmp < ub <= ue *)
    pose proof (co_le_lt bytes_compare bytes_order _ _ _ Hks Hsb) as H1.
    pose proof (co_lt_le bytes_compare bytes_order _ _ _ H1 Hbe) as H2.
    intros Heq. rewrite Heq, bytes_compare_refl in H2. discriminate.
  - exfalso. apply Hks. apply (co_lt_gt tbl_ikey_compare ikey_order). exact Hak.
Qed.

Lemma internal_fmatch_user : forall k k', tbl_user_key k = tbl_user_key k' ->
  forall f, internal_fmatch f k = internal_fmatch f k'.
Proof.
  intros k k' H f. unfold internal_fmatch, strip_tag. unfold tbl_user_key in H. rewrite H. reflexivity.
Qed.

(* a lookup key (user key, snapshot sequence, SEEK type) whose successor in the table has
   the same user key finds that successor: this is what ldb_table_internal_get is used for *)
Theorem table_lookup_user_internal :
  forall bits compress block_size interval compression paranoid verify es,
  (compression = 1 -> forall raw, nlen (compress raw) < nlen raw - nlen raw / 8 ->
     snappy_decode_size (compress raw) <> None /\ snappy_decode (compress raw) = Ok (Some raw) /\
     nlen raw < 4294967296) ->
  Forall (fun e => nlen (fst e) < 4294967296 /\ 8 <= nlen (fst e) /\ nlen (snd e) < 4294967296) es ->
  nlen es + 1 < 4294967296 ->
  sorted_by tbl_ikey_compare es ->
  let file := table_build_i 1 bits compress block_size interval compression es in
  wf_bytes file = true -> nlen file < 4294967296 ->
  forall k p e q, 8 <= nlen k ->
  ref_seek tbl_ikey_compare es k = Some (p, e, q) ->
  tbl_user_key (fst e) = tbl_user_key k ->
  table_lookup (inst_cmp 1) (inst_internal 1) (inst_has_filter bits) (inst_fmatch 1)
               paranoid verify file k = Ok (inr (Some e, SOk)).
Proof.
  intros bits compress block_size interval compression paranoid verify es Hc Hes Hn Hs file Hwf Hlen k p e q Hk Eg Hu.
  destruct internal_hooks as (H1 & H2 & H3).
  apply (table_lookup_user_build tbl_ikey_compare true tbl_isep tbl_isucc (inst_has_filter bits) (internal_fbuild bits)
           internal_fmatch compress block_size interval compression Hc (internal_policy_sound bits) internal_fmatch_safe
           ikey_order ikey_sep_contract ikey_succ_contract dkey_internal H1 H2 H3
           tbl_user_key internal_fmatch_user ikey_sep_user
           paranoid verify es) with (p := p) (q := q); auto.
  eapply Forall_impl; [|exact Hes]. intros e0 (A & B & C). split; [split; assumption|split; assumption].
Qed.
