(* Properties_C03b.v -- C03 / C02 rule R7: "every log record is pushed to the OS
   before the write returns".  Model of the buffered writable file ldb_wfile_t
   (src/util/env_unix_impl.h) and of the log writer driving it
   (src/log_writer.c): WFile.v; proofs: WFileProofs.v.  Statements only.

   Standing assumption of the model (WFile.v): every system call succeeds and
   write(2) writes everything it is given (ldb_write loops over short writes and
   EINTR in C); error paths are not modelled.  The correspondence between the
   model's predicted write(2)/fsync/close sequence and the real one is checked at
   run time on I/O traces by checks/extra_wfile.py. *)
From LCDB Require Import Base LogFormat WFile WFileProofs.
Local Open Scope N_scope.

(* After any sequence of append / flush / sync / close on a fresh file: the bytes
   passed to write(2), in order, followed by the buffer contents, are exactly the
   concatenation of everything appended -- nothing lost, reordered or duplicated. *)
Theorem C03_wfile_bytes : forall manifest ops,
  wf_written (fst (wf_run (wf_init manifest) ops)) ++
  wf_buf (fst (wf_run (wf_init manifest) ops)) = appended ops.
Proof. exact wfile_bytes. Qed.
Print Assumptions C03_wfile_bytes.

(* the same from any state, and the calls returned are the calls recorded *)
Theorem C03_wfile_bytes_from : forall ops w,
  wf_written (fst (wf_run w ops)) ++ wf_buf (fst (wf_run w ops)) =
    wf_written w ++ wf_buf w ++ appended ops.
Proof. exact wf_run_written. Qed.
Print Assumptions C03_wfile_bytes_from.

Theorem C03_wfile_calls_recorded : forall ops w,
  wf_out (fst (wf_run w ops)) = wf_out w ++ snd (wf_run w ops).
Proof. exact wf_run_out. Qed.
Print Assumptions C03_wfile_calls_recorded.

(* the left fold executed by the model driver (wfile_calls) is this run *)
Theorem C03_wfile_exec_is_run : forall manifest ops,
  wf_exec (wf_init manifest) ops = fst (wf_run (wf_init manifest) ops) /\
  wf_out (wf_exec (wf_init manifest) ops) = snd (wf_run (wf_init manifest) ops).
Proof. exact wf_exec_is_run. Qed.
Print Assumptions C03_wfile_exec_is_run.

(* flush, sync and close leave the buffer empty ... *)
Theorem C03_wfile_flush_empties : forall w,
  wf_buf (fst (wf_flush w)) = [] /\ wf_buf (fst (wf_sync w)) = [] /\
  wf_buf (fst (wf_close w)) = [].
Proof. exact wfile_flush_empties. Qed.
Print Assumptions C03_wfile_flush_empties.

(* ... so after a history ending with one of them write(2) has received every byte
   appended so far *)
Theorem C03_wfile_flushed_all_written : forall manifest ops op,
  is_flushing op ->
  wf_buf (fst (wf_run (wf_init manifest) (ops ++ [op]))) = [] /\
  wf_written (fst (wf_run (wf_init manifest) (ops ++ [op]))) = appended ops.
Proof. exact wfile_flushed_all_written. Qed.
Print Assumptions C03_wfile_flushed_all_written.

(* the 64 KiB buffer never overflows *)
Theorem C03_wfile_buf_bound : forall ops w,
  nlen (wf_buf w) <= WBUF -> nlen (wf_buf (fst (wf_run w ops))) <= WBUF.
Proof. exact wfile_buf_bound. Qed.
Print Assumptions C03_wfile_buf_bound.

(* fd_write (the static ldb_write(fd, buf, len) of env_unix_impl.h): no byte lost; every write(2) carries between 1 and 2^30 bytes (so a
   length of 0 -- flush of an empty buffer -- issues no call) *)
Theorem C03_fd_write_bytes : forall d, written_of (fd_write d) = d.
Proof. exact fd_write_bytes. Qed.
Print Assumptions C03_fd_write_bytes.

Theorem C03_fd_write_chunks : forall d,
  Forall (fun e => exists c, e = WsWrite c /\ 0 < nlen c <= WMAX) (fd_write d).
Proof. exact fd_write_chunks_bound. Qed.
Print Assumptions C03_fd_write_chunks.

(* The file operations performed by ldb_writer_add_record carry exactly the bytes
   of the log format model and compute the same block offset. *)
Theorem C03_add_record_ops_bytes : forall off data,
  appended (fst (add_record_ops off data)) = fst (add_record off data) /\
  snd (add_record_ops off data) = snd (add_record off data).
Proof. exact add_record_ops_bytes. Qed.
Print Assumptions C03_add_record_ops_bytes.

(* R7.  When ldb_writer_add_record returns (buffer empty on entry, as it is after
   ldb_wfile_init and after every earlier add_record): the buffer is empty, and
   write(2) has received every byte of the record's encoding:
   written = previously written ++ fst (add_record off data). *)
Theorem C03_record_reaches_os_before_return : forall w off data,
  wf_buf w = [] ->
  let '(r, off') := wfile_add_record w off data in
  wf_buf (fst r) = [] /\
  off' = snd (add_record off data) /\
  written_of (snd r) = fst (add_record off data) /\
  wf_written (fst r) = wf_written w ++ fst (add_record off data).
Proof. exact record_reaches_os. Qed.
Print Assumptions C03_record_reaches_os_before_return.

(* without the precondition: what was buffered before goes first *)
Theorem C03_record_reaches_os_any_state : forall w off data,
  let '(r, off') := wfile_add_record w off data in
  wf_buf (fst r) = [] /\
  off' = snd (add_record off data) /\
  written_of (snd r) = wf_buf w ++ fst (add_record off data) /\
  wf_out (fst r) = wf_out w ++ snd r /\
  wf_written (fst r) = wf_written w ++ wf_buf w ++ fst (add_record off data).
Proof. exact record_reaches_os_gen. Qed.
Print Assumptions C03_record_reaches_os_any_state.

(* a whole log written record by record to a fresh file: write(2) has received
   exactly write_log rs (the input of the reader theorems of Properties_C03.v) *)
Theorem C03_log_reaches_os : forall manifest rs,
  wf_buf (fst (wfile_add_records (wf_init manifest) 0 rs)) = [] /\
  wf_written (fst (wfile_add_records (wf_init manifest) 0 rs)) = write_log rs.
Proof. exact log_reaches_os. Qed.
Print Assumptions C03_log_reaches_os.

(* exact system calls: one write(2) per fragment (zero trailer of the previous
   block ++ 7-byte header ++ payload), nothing else *)
Theorem C03_record_one_write_per_fragment : forall w off data,
  wf_buf w = [] ->
  snd (fst (wfile_add_record w off data)) = map WsWrite (record_chunks off data) /\
  concat (record_chunks off data) = fst (add_record off data).
Proof. exact record_one_write_per_fragment. Qed.
Print Assumptions C03_record_one_write_per_fragment.

(* add_record followed by ldb_wfile_sync (MANIFEST records; log records of sync
   writes): the fsync comes after the record's last write(2) *)
Theorem C03_record_sync_calls : forall w off data,
  wf_buf w = [] ->
  snd (fst (wfile_add_record_sync w off data)) =
    map WsWrite (record_chunks off data) ++
    (if wf_manifest w then [WsSyncDir] else []) ++ [WsFsync] /\
  wf_buf (fst (fst (wfile_add_record_sync w off data))) = [].
Proof. exact record_sync_calls. Qed.
Print Assumptions C03_record_sync_calls.
