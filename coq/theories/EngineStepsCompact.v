(* EngineStepsCompact.v -- OCompact and OMove: invariant and views. *)
From LCDB Require Import Base Engine EngineSpec EngineStepsBase EngineStepsInv EngineStepsBasic EngineStepsLevels EngineStepsEdit.
From Coq Require Import Sorting.Sorted Permutation.
Require Import Lia ZifyBool ZifyNat ZifyN.
Local Open Scope N_scope.

Section Compact.
Variable ucmp : bytes -> bytes -> comparison.
Context {TO : total_order ucmp}.

Notation ueq := (Engine.ueq ucmp).
Notation ule := (Engine.ule ucmp).
Notation ilt := (Engine.ilt ucmp).
Notation Srt := (EngineStepsBase.Srt ucmp).
Notation NO := (EngineStepsBase.NO ucmp).
Notation Cmp := (EngineStepsBase.Cmp ucmp).
Notation KD := (EngineStepsBase.KD ucmp).
Notation SInv := (EngineStepsInv.SInv ucmp).
Notation Rec := (EngineStepsInv.Rec ucmp).
Notation FOK := (EngineStepsInv.FOK ucmp).
Notation FB := (EngineStepsInv.FB ucmp).
Notation FC := (EngineStepsInv.FC ucmp).
Notation view := (EngineSpec.view ucmp).
Notation best := (Engine.best ucmp).

(* ------------------------------------------------------------ the drop loop *)
Definition ruleB (snap : N) (base : bytes -> bool) (e : entry) : bool :=
  negb (et e) && (es e <=? snap) && base (ek e).

Definition hiddenA (snap : N) (prev : option (bytes * N)) (e : entry) : bool :=
  match prev with Some (k, s) => ueq (ek e) k && (s <=? snap) | None => false end.

Lemma CE_cons snap base prev e r :
  compact_entries ucmp snap base prev (e :: r) =
  (if hiddenA snap prev e || ruleB snap base e then [] else [e])
    ++ compact_entries ucmp snap base (Some (ek e, es e)) r.
Proof. reflexivity. Qed.

Lemma CE_In snap base prev l x : In x (compact_entries ucmp snap base prev l) -> In x l.
Proof.
  revert prev. induction l as [|e r IH]; intros prev H. destruct H.
  rewrite CE_cons in H. apply in_app_or in H. destruct H as [H|H].
  - destruct (hiddenA snap prev e || ruleB snap base e); [destruct H|].
    destruct H as [H|[]]. left; auto.
  - right. eapply IH; eauto.
Qed.

Lemma CE_Srt snap base prev l : Srt l -> Srt (compact_entries ucmp snap base prev l).
Proof.
  revert prev. induction l as [|e r IH]; intros prev H. apply Srt_nil.
  apply Srt_cons_inv in H. destruct H as [H1 H2].
  rewrite CE_cons. apply Srt_app. split; [|split].
  - destruct (hiddenA snap prev e || ruleB snap base e). apply Srt_nil.
    apply Srt_cons. apply Srt_nil. intros x [].
  - apply IH; auto.
  - intros x y Hx Hy. apply CE_In in Hy.
    destruct (hiddenA snap prev e || ruleB snap base e); [destruct Hx|].
    destruct Hx as [<-|[]]. auto.
Qed.

Lemma CE_kept_aux snap base p r x :
  Srt (p :: r) -> In x (compact_entries ucmp snap base (Some (ek p, es p)) r) ->
  forall y, In y (p :: r) -> ueq (ek y) (ek x) = true -> es x < es y -> snap < es y.
Proof.
  revert p. induction r as [|e r IH]; intros p HS Hx y Hy Hk Hlt. destruct Hx.
  pose proof HS as HS0. apply Srt_cons_inv in HS. destruct HS as [HS Hp].
  pose proof HS as HS1. apply Srt_cons_inv in HS1. destruct HS1 as [_ He].
  rewrite CE_cons in Hx. apply in_app_or in Hx. destruct Hx as [Hx|Hx].
  - destruct (hiddenA snap (Some (ek p, es p)) e || ruleB snap base e) eqn:Ed; [destruct Hx|].
    destruct Hx as [<-|[]]. apply orb_false_iff in Ed. destruct Ed as [Ed _].
    cbn [hiddenA] in Ed.
    destruct Hy as [<-|[<-|Hy]].
    + rewrite ((ueq_sym ucmp) _ _ Hk) in Ed. cbn [andb] in Ed. lia.
    + lia.
    + pose proof (ilt_ueq_seq ucmp _ _ (He y Hy) ((ueq_sym ucmp) _ _ Hk)). lia.
  - destruct Hy as [<-|Hy].
    + assert (Hxr: In x r) by (eapply CE_In; eauto).
      pose proof (Hp e (or_introl eq_refl)) as Hpe. pose proof (He x Hxr) as Hex.
      apply ueq_iff in Hk.
      destruct ((ukey_squeeze ucmp) (ek p) (ek e) (ek x)) as [K1 K2]; auto.
      * apply ilt_ukey; auto.
      * apply ilt_ukey; auto.
      * pose proof (ilt_ueq_seq ucmp _ _ Hpe (proj2 (ueq_iff ucmp _ _) K1)).
        pose proof (ilt_ueq_seq ucmp _ _ Hex (proj2 (ueq_iff ucmp _ _) K2)).
        assert (snap < es e); [|lia].
        apply (IH e HS Hx e); auto. left; auto. apply ueq_iff; auto.
    + apply (IH e HS Hx y); auto.
Qed.

Lemma CE_dropped_aux snap base p r x :
  Srt (p :: r) -> In x r ->
  In x (compact_entries ucmp snap base (Some (ek p, es p)) r) \/ ruleB snap base x = true \/
  exists y, In y (p :: r) /\ ueq (ek x) (ek y) = true /\ es y <= snap /\ es x < es y.
Proof.
  revert p. induction r as [|e r IH]; intros p HS Hx. destruct Hx.
  pose proof HS as HS0. apply Srt_cons_inv in HS. destruct HS as [HS Hp].
  rewrite CE_cons. destruct Hx as [<-|Hx].
  - destruct (hiddenA snap (Some (ek p, es p)) e) eqn:E1.
    + right; right. cbn [hiddenA] in E1. apply andb_true_iff in E1. destruct E1 as [E1 E2].
      exists p. split. left; auto. split; auto. split. lia.
      apply (ilt_ueq_seq ucmp p e). apply Hp. left; auto. apply (ueq_sym ucmp); auto.
    + destruct (ruleB snap base e) eqn:E2; auto.
      left. cbn [orb app]. left; auto.
  - destruct (IH e HS Hx) as [H|[H|(y & Hy & H)]]; auto.
    + left. apply in_or_app. right; auto.
    + right; right. exists y. split; auto. right; auto.
Qed.

Lemma CE_kept snap base l x :
  Srt l -> In x (compact_entries ucmp snap base None l) ->
  forall y, In y l -> ueq (ek y) (ek x) = true -> es x < es y -> snap < es y.
Proof.
  intros HS Hx y Hy Hk Hlt. destruct l as [|e r]. destruct Hx.
  rewrite CE_cons in Hx. apply in_app_or in Hx. destruct Hx as [Hx|Hx].
  - destruct (hiddenA snap None e || ruleB snap base e); [destruct Hx|].
    destruct Hx as [<-|[]]. apply Srt_cons_inv in HS. destruct HS as [_ He].
    destruct Hy as [<-|Hy]. lia.
    pose proof (ilt_ueq_seq ucmp _ _ (He y Hy) ((ueq_sym ucmp) _ _ Hk)). lia.
  - eapply CE_kept_aux; eauto.
Qed.

Lemma CE_dropped snap base l x :
  Srt l -> In x l ->
  In x (compact_entries ucmp snap base None l) \/ ruleB snap base x = true \/
  exists y, In y l /\ ueq (ek x) (ek y) = true /\ es y <= snap /\ es x < es y.
Proof.
  intros HS Hx. destruct l as [|e r]. destruct Hx.
  rewrite CE_cons. cbn [hiddenA orb]. destruct Hx as [<-|Hx].
  - destruct (ruleB snap base e) eqn:E; auto. left. left; auto.
  - destruct (CE_dropped_aux snap base e r x HS Hx) as [H|[H|H]]; auto.
    left. apply in_or_app. right; auto.
Qed.

(* ------------------------------------------------------------ cutting the output *)
Lemma split_at_spec cuts l :
  forallb (fun n => (0 <? n)%nat) cuts = true ->
  concat (split_at cuts l) = l /\ Forall (fun r => r <> []) (split_at cuts l).
Proof.
  revert l. induction cuts as [|c cs IH]; intros l Hc; cbn [split_at].
  - destruct l as [|x r]; cbn [concat]; split; auto. apply app_nil_r.
    constructor; auto. congruence.
  - cbn [forallb] in Hc. apply andb_true_iff in Hc. destruct Hc as [Hc1 Hc2].
    destruct l as [|x r]; cbn [concat]; [split; auto|].
    destruct (IH (skipn c (x :: r)) Hc2) as [H1 H2]. split.
    + rewrite H1. apply firstn_skipn.
    + constructor; auto. destruct c as [|c]; [cbn in Hc1; discriminate|]. cbn [firstn]. congruence.
Qed.

Lemma zip_files_spec nums runs fs :
  zip_files nums runs = Some fs -> map fnum fs = nums /\ map fents fs = runs.
Proof.
  revert runs fs. induction nums as [|n ns IH]; intros runs fs H; cbn [zip_files] in H.
  - destruct runs; [|discriminate]. injection H as <-. auto.
  - destruct runs as [|r rs]; [discriminate|].
    destruct (zip_files ns rs) as [fs'|] eqn:E; [|discriminate]. injection H as <-.
    destruct (IH rs fs' E) as [H1 H2]. cbn [map fnum fents]. split; congruence.
Qed.

Lemma Srt_files fs :
  Srt (level_entries fs) -> (forall f, In f fs -> fents f <> []) ->
  Forall FOK fs /\ StronglySorted FB fs.
Proof.
  induction fs as [|f r IH]; intros HS Hne.
  - split; constructor.
  - rewrite level_entries_cons in HS. apply Srt_app in HS. destruct HS as (H1 & H2 & H3).
    destruct (IH H2) as [I1 I2]. intros g Hg. apply Hne. right; auto.
    split; constructor; auto.
    + split; auto. apply Hne. left; auto.
    + apply Forall_forall. intros g Hg x y Hx Hy. apply H3; auto.
      apply level_entries_In. eauto.
Qed.

(* ------------------------------------------------------------ the merged run *)
Lemma ueq_seq_Cmp x y : (ueq (ek x) (ek y) = true -> es x <> es y) -> Cmp x y.
Proof.
  intros H. unfold EngineStepsBase.Cmp. rewrite !ilt_iff, (ucmp_opp ucmp (ek y) (ek x)).
  rewrite ueq_iff in H.
  destruct (ucmp (ek x) (ek y)); cbn [CompOpp]; auto.
  specialize (H eq_refl).
  destruct (N.lt_trichotomy (es x) (es y)) as [H1|[H1|H1]]; auto; try contradiction.
Qed.

Lemma entries_Cmp s p p' x y :
  SInv s -> at_place s p x -> at_place s p' y -> p <> p' -> Cmp x y.
Proof.
  intros HI Hx Hy Hne. apply ueq_seq_Cmp. intros Hk.
  destruct (place_lt_total p p') as [E|[E|E]]; [contradiction| |].
  - pose proof (si_rec _ _ HI p p' x y E Hx Hy Hk). lia.
  - pose proof (si_rec _ _ HI p' p y x E Hy Hx ((ueq_sym ucmp) _ _ Hk)). lia.
Qed.

Lemma FOP_concat {A} (R : A -> A -> Prop) (ls : list (list A)) :
  (forall l, In l ls -> ForallOrdPairs R l) ->
  ForallOrdPairs (fun a b => forall x y, In x a -> In y b -> R x y) ls ->
  ForallOrdPairs R (concat ls).
Proof.
  induction ls as [|l r IH]; intros H1 H2; cbn [concat]. constructor.
  inversion H2; subst. apply FOP_app. split; [|split].
  - apply H1. left; auto.
  - apply IH; auto. intros l' Hl'. apply H1. right; auto.
  - intros x y Hx Hy. apply in_concat in Hy. destruct Hy as (l' & Hl' & Hy).
    rewrite Forall_forall in H3. apply (H3 l' Hl' x y); auto.
Qed.

Lemma Srt_FOP_Cmp l : Srt l -> ForallOrdPairs Cmp l.
Proof.
  intros H. apply SS_FOP in H. eapply FOP_impl; [|exact H].
  intros x y _ _ Hxy. left. exact Hxy.
Qed.

Lemma level_cross_Cmp s L f g x y :
  SInv s -> In f (level_files (levels s) L) -> In g (level_files (levels s) L) ->
  fnum f <> fnum g -> In x (fents f) -> In y (fents g) -> Cmp x y.
Proof.
  intros HI Hf Hg Hne Hx Hy. destruct L as [|L].
  - apply (entries_Cmp s (PF0 (fnum f)) (PF0 (fnum g))); auto.
    + cbn. eauto.
    + cbn. eauto.
    + congruence.
  - pose proof (si_lsort _ _ HI (S L)) as HS. apply SS_FOP in HS; [|lia].
    destruct (ForallOrdPairs_In HS f g Hf Hg) as [E|[E|E]].
    + subst. contradiction.
    + left. apply E; auto.
    + right. apply E; auto.
Qed.

Lemma level_files_FOP_Cmp s L (p : file -> bool) :
  SInv s -> ForallOrdPairs Cmp (level_entries (filter p (level_files (levels s) L))).
Proof.
  intros HI. unfold level_entries. apply FOP_concat.
  - intros l Hl. apply in_map_iff in Hl. destruct Hl as (f & <- & Hf). apply filter_In in Hf.
    apply Srt_FOP_Cmp. apply (si_fok _ _ HI L f). apply Hf.
  - apply FOP_map. apply FOP_filter.
    pose proof (proj1 (si_nd _ _ HI) L) as HN. apply NoDup_nums_FOP in HN.
    eapply FOP_impl; [|exact HN]. intros f g Hf Hg Hne x y Hx Hy.
    apply (level_cross_Cmp s L f g x y); auto.
Qed.

Lemma file_disjoint_gen m g :
  Srt m -> FOK g -> file_disjoint_from ucmp m g = true ->
  (forall x y, In x m -> In y (fents g) -> ilt y x = true) \/
  (forall x y, In x m -> In y (fents g) -> ilt x y = true).
Proof.
  intros HS Hg H. unfold file_disjoint_from in H.
  destruct m as [|m0 mr]. left. intros x y [].
  destruct (FOK_ends ucmp g Hg) as (a & r & E1 & E2 & E3). rewrite E2, E3 in H.
  destruct Hg as [_ Sg]. rewrite E1 in *.
  apply orb_true_iff in H. destruct H as [H|H]; [left|right]; intros x y Hx Hy.
  - eapply (ile_lt_trans ucmp). apply (Srt_last_max ucmp a r y Sg Hy).
    eapply (ilt_le_trans ucmp). exact H. apply (Srt_hd_min ucmp m0 mr x HS Hx).
  - eapply (ile_lt_trans ucmp). apply (Srt_last_max ucmp m0 mr x HS Hx).
    eapply (ilt_le_trans ucmp). exact H. apply (Srt_hd_min ucmp a r y Sg Hy).
Qed.

Lemma all_entries_split s L in0 in1 e :
  In e (all_entries s) <->
  In e (mem s) \/ In e (imm_run s)
  \/ (exists i f, i <> L /\ i <> S L /\ In f (level_files (levels s) i) /\ In e (fents f))
  \/ In e (level_entries (remove_files (level_files (levels s) L) in0))
  \/ In e (level_entries (remove_files (level_files (levels s) (S L)) in1))
  \/ In e (level_entries (select_files (level_files (levels s) L) in0))
  \/ In e (level_entries (select_files (level_files (levels s) (S L)) in1)).
Proof.
  rewrite all_entries_In. split.
  - intros [H|[H|(i & f & Hf & He)]]; auto.
    destruct (Nat.eq_dec i L) as [->|H1].
    + destruct (select_or_remove _ in0 f Hf) as [H|H].
      * do 5 right. left. apply level_entries_In. eauto.
      * do 3 right. left. apply level_entries_In. eauto.
    + destruct (Nat.eq_dec i (S L)) as [->|H2].
      * destruct (select_or_remove _ in1 f Hf) as [H|H].
        -- do 6 right. apply level_entries_In. eauto.
        -- do 4 right. left. apply level_entries_In. eauto.
      * right; right; left. exists i, f. auto.
  - intros [H|[H|[(i & f & _ & _ & Hf & He)|[H|[H|[H|H]]]]]]; auto; right; right;
      try (apply level_entries_In in H; destruct H as (f & Hf & He)).
    + eauto.
    + apply remove_In in Hf. exists L, f. tauto.
    + apply remove_In in Hf. exists (S L), f. tauto.
    + apply select_In in Hf. exists L, f. tauto.
    + apply select_In in Hf. exists (S L), f. tauto.
Qed.

Section WithCompaction.
Variables (s : state) (c : compaction).
Hypothesis HI : SInv s.

Let L := c_level c.
Let lvL := level_files (levels s) L.
Let lvL1 := level_files (levels s) (S L).
Let r0 := remove_files lvL (c_in0 c).
Let r1 := remove_files lvL1 (c_in1 c).
Let i0 := select_files lvL (c_in0 c).
Let i1 := select_files lvL1 (c_in1 c).
Let merged := compaction_merged ucmp s c.
Let snap := smallest_snapshot s.
Let base := is_base_level ucmp (levels s) L.
Let kept := compaction_kept ucmp s c.

Lemma merged_eq : merged = sort_entries ucmp (level_entries i0 ++ level_entries i1).
Proof. reflexivity. Qed.

Lemma kept_eq : kept = compact_entries ucmp snap base None merged.
Proof. reflexivity. Qed.

Lemma merged_In e : In e merged <-> In e (level_entries i0) \/ In e (level_entries i1).
Proof. rewrite merged_eq, sort_entries_In, in_app_iff. tauto. Qed.

Lemma merged_Srt : Srt merged.
Proof.
  rewrite merged_eq. apply (sort_entries_Srt ucmp). apply FOP_app. split; [|split].
  - apply level_files_FOP_Cmp; auto.
  - apply level_files_FOP_Cmp; auto.
  - intros x y Hx Hy. apply level_entries_In in Hx, Hy.
    destruct Hx as (f & Hf & Hx). destruct Hy as (g & Hg & Hy).
    apply select_In in Hf, Hg. destruct Hf as [Hf _]. destruct Hg as [Hg _].
    apply (entries_Cmp s (lvl_place L f) (PLv (S L))); auto.
    + apply in_level_place; auto.
    + cbn. split. lia. eauto.
    + generalize L. intros [|n]; cbn; intros E; inversion E; lia.
Qed.

Lemma kept_Srt : Srt kept.
Proof. rewrite kept_eq. apply CE_Srt. apply merged_Srt. Qed.

Lemma kept_merged e : In e kept -> In e merged.
Proof. rewrite kept_eq. apply CE_In. Qed.

Lemma file_disjoint_spec g :
  FOK g -> file_disjoint_from ucmp merged g = true ->
  (forall x y, In x merged -> In y (fents g) -> ilt y x = true) \/
  (forall x y, In x merged -> In y (fents g) -> ilt x y = true).
Proof. intros Hg H. apply file_disjoint_gen; auto. apply merged_Srt. Qed.

(* the guards *)
Record Guard : Prop := {
  g_lvl : (S L < NUM_LEVELS)%nat;
  g_no0 : NO (level_entries r0) (level_entries i0);
  g_disj : forall g, In g r1 -> file_disjoint_from ucmp merged g = true;
  g_no1 : NO (level_entries r1) merged;
  g_fresh : forall n, In n (c_outs c) -> next_file s <= n < c_nf c;
  g_incr : strictly_increasing (c_outs c) = true;
  g_nf : next_file s <= c_nf c;
  g_cuts : forallb (fun n => (0 <? n)%nat) (c_cuts c) = true
}.

Lemma guard_spec : compaction_guard ucmp s c = true -> Guard.
Proof.
  intros H. unfold compaction_guard, compaction_inputs in H. cbn zeta in H.
  fold L lvL lvL1 in H. fold r0 r1 i0 i1 in H.
  change (compaction_merged ucmp s c) with merged in H.
  repeat (apply andb_true_iff in H; let H' := fresh "G" in destruct H as [H H']).
  constructor; auto.
  - clear - H. lia.
  - apply newer_outside_NO; auto.
  - rewrite forallb_forall in G5. auto.
  - apply newer_outside_NO; auto.
  - intros n Hn. rewrite forallb_forall in G3, G1. specialize (G3 n Hn). specialize (G1 n Hn).
    unfold fresh_num in G3. clear - G3 G1. lia.
  - clear - G0. lia.
Qed.


Lemma CE_notB sn bs prev l x : In x (compact_entries ucmp sn bs prev l) -> ruleB sn bs x = false.
Proof.
  revert prev. induction l as [|e r IH]; intros prev H. destruct H.
  rewrite CE_cons in H. apply in_app_or in H. destruct H as [H|H].
  - destruct (hiddenA sn prev e || ruleB sn bs e) eqn:E; [destruct H|].
    destruct H as [<-|[]]. apply orb_false_iff in E. apply E.
  - eapply IH; eauto.
Qed.

Hypothesis HG : Guard.
Variable outs : list file.
Hypothesis Hzip : zip_files (c_outs c) (split_at (c_cuts c) kept) = Some outs.

Let s' := edit_state s L r0 (add_files ucmp r1 outs) (c_nf c).

Lemma outs_entries : level_entries outs = kept.
Proof.
  unfold level_entries. rewrite (proj2 (zip_files_spec _ _ _ Hzip)).
  apply split_at_spec. exact (g_cuts HG).
Qed.

Lemma outs_nonempty f : In f outs -> fents f <> [].
Proof.
  intros Hf. destruct (split_at_spec (c_cuts c) kept (g_cuts HG)) as [_ H].
  rewrite Forall_forall in H. apply H.
  rewrite <- (proj2 (zip_files_spec _ _ _ Hzip)). apply in_map; auto.
Qed.

Lemma outs_nums f : In f outs -> In (fnum f) (c_outs c).
Proof.
  intros Hf. rewrite <- (proj1 (zip_files_spec _ _ _ Hzip)). apply in_map; auto.
Qed.

Lemma strictly_increasing_inv x r :
  strictly_increasing (x :: r) = true -> (forall y, In y r -> x < y) /\ strictly_increasing r = true.
Proof.
  revert x. induction r as [|z r IH]; intros x H.
  - split; auto. intros y [].
  - cbn [strictly_increasing] in H. apply andb_true_iff in H. destruct H as [H1 H2].
    split; auto. intros y [<-|Hy]. lia.
    destruct (IH z H2) as [H3 _]. specialize (H3 y Hy). lia.
Qed.

Lemma strictly_increasing_NoDup l : strictly_increasing l = true -> NoDup l.
Proof.
  induction l as [|x r IH]; intros H. constructor.
  apply strictly_increasing_inv in H. destruct H as [H1 H2]. constructor; auto.
  intros Hin. specialize (H1 x Hin). lia.
Qed.

Lemma compact_edit_SInv : SInv s'.
Proof.
  pose proof kept_Srt as HK. rewrite <- outs_entries in HK.
  destruct (Srt_files outs HK outs_nonempty) as [Hok Hss].
  apply (edit_SInv ucmp s L (c_in0 c) (c_in1 c) outs (c_nf c) HI).
  - exact (g_lvl HG).
  - exact Hok.
  - exact Hss.
  - intros e He. rewrite outs_entries in He. apply kept_merged in He. apply merged_In; auto.
  - exact (g_no0 HG).
  - intros f g Hf Hg.
    assert (Hfm: forall x, In x (fents f) -> In x merged).
    { intros x Hx. apply kept_merged. rewrite <- outs_entries. apply level_entries_In. eauto. }
    assert (Hgok: FOK g).
    { apply remove_In in Hg. apply (si_fok _ _ HI (S L) g). apply Hg. }
    destruct (file_disjoint_spec g Hgok (g_disj HG g Hg)) as [H|H].
    + right. intros y x Hy Hx. apply H; auto.
    + left. intros x y Hx Hy. apply H; auto.
  - rewrite (proj1 (zip_files_spec _ _ _ Hzip)). apply strictly_increasing_NoDup. exact (g_incr HG).
  - intros f Hf. pose proof (g_fresh HG _ (outs_nums f Hf)) as Hn. split. lia.
    intros j g Hg.
    assert (Hold: exists i, In g (level_files (levels s) i)).
    { destruct (Nat.eq_dec j L) as [->|Hne].
      - rewrite level_files_set_eq in Hg. apply remove_In in Hg. exists L. apply Hg.
        rewrite (si_len _ _ HI). pose proof (g_lvl HG). lia.
      - rewrite level_files_set_neq in Hg; auto. eauto. }
    destruct Hold as (i & Hi). pose proof (si_num _ _ HI i g Hi). lia.
  - exact (g_nf HG).
Qed.

(* entries that are not inputs of the compaction *)
Definition Unch (e : entry) : Prop :=
  In e (mem s) \/ In e (imm_run s)
  \/ (exists i f, i <> L /\ i <> S L /\ In f (level_files (levels s) i) /\ In e (fents f))
  \/ In e (level_entries r0) \/ In e (level_entries r1).

Lemma all_split e : In e (all_entries s) <-> Unch e \/ In e merged.
Proof.
  rewrite all_entries_In, merged_In. unfold Unch. split.
  - intros [H|[H|(i & f & Hf & He)]]; auto.
    destruct (Nat.eq_dec i L) as [->|H1].
    + destruct (select_or_remove _ (c_in0 c) f Hf) as [H|H].
      * right. left. apply level_entries_In. eauto.
      * left. right; right; right; left. apply level_entries_In. eauto.
    + destruct (Nat.eq_dec i (S L)) as [->|H2].
      * destruct (select_or_remove _ (c_in1 c) f Hf) as [H|H].
        -- right. right. apply level_entries_In. eauto.
        -- left. right; right; right; right. apply level_entries_In. eauto.
      * left. right; right; left. exists i, f. auto.
  - intros [[H|[H|[(i & f & _ & _ & Hf & He)|[H|H]]]]|[H|H]]; auto; right; right;
      try (apply level_entries_In in H; destruct H as (f & Hf & He)).
    + eauto.
    + apply remove_In in Hf. exists L, f. tauto.
    + apply remove_In in Hf. exists (S L), f. tauto.
    + apply select_In in Hf. exists L, f. tauto.
    + apply select_In in Hf. exists (S L), f. tauto.
Qed.

Lemma all_split' e : In e (all_entries s') <-> Unch e \/ In e kept.
Proof.
  pose proof (edit_all_entries ucmp s L (c_in0 c) (c_in1 c) outs (c_nf c) HI (g_lvl HG) e) as H.
  rewrite outs_entries in H. unfold Unch, s', r0, r1, lvL, lvL1. tauto.
Qed.

Lemma In_skipn_nth {A} (d : A) n i (l : list A) :
  (n <= i)%nat -> (i < length l)%nat -> In (nth i l d) (skipn n l).
Proof.
  revert i l. induction n as [|n IH]; intros i l H1 H2.
  - cbn [skipn]. apply nth_In; auto.
  - destruct l as [|x r]; cbn [length] in H2. lia.
    destruct i as [|i]; [lia|]. cbn [skipn nth]. apply IH; lia.
Qed.

Lemma in_user_range_of f e k :
  FOK f -> In e (fents f) -> ueq (ek e) k = true -> in_user_range ucmp f k = true.
Proof.
  intros Hf He Hk. destruct (FOK_ends ucmp f Hf) as (a & r & E1 & E2 & E3).
  destruct Hf as [_ Sf]. rewrite E1 in *.
  unfold in_user_range. rewrite E2, E3. apply ueq_iff in Hk.
  apply andb_true_iff. split; apply ule_iff.
  - rewrite <- (ucmp_eq_r ucmp _ _ (ek a) Hk). apply (ile_ukey ucmp).
    apply (Srt_hd_min ucmp a r e Sf He).
  - rewrite <- (ucmp_eq_l ucmp _ _ (ek (last r a)) Hk). apply (ile_ukey ucmp).
    apply (Srt_last_max ucmp a r e Sf He).
Qed.

Lemma base_spec k i f :
  base k = true -> (L + 2 <= i)%nat -> In f (level_files (levels s) i) -> in_user_range ucmp f k = false.
Proof.
  unfold base, is_base_level. intros H Hi Hf. apply negb_true_iff in H.
  destruct (in_user_range ucmp f k) eqn:E; auto.
  assert (existsb (fun fs => existsb (fun f => in_user_range ucmp f k) fs) (skipn (L + 2) (levels s)) = true); [|congruence].
  apply existsb_exists. exists (level_files (levels s) i). split.
  - apply In_skipn_nth; auto. eapply level_files_In_lt; eauto.
  - apply existsb_exists. exists f. auto.
Qed.

(* an unchanged entry of a user key whose base level this is is newer than any input *)
Lemma unchanged_newer e e' :
  In e merged -> base (ek e) = true -> Unch e' -> ueq (ek e') (ek e) = true -> es e < es e'.
Proof.
  intros He Hb Hu Hk.
  assert (Hpl: exists p, at_place s p e /\ (p = PLv (S L) \/ exists f, p = lvl_place L f)).
  { apply merged_In in He. destruct He as [He|He]; apply level_entries_In in He;
      destruct He as (f & Hf & He); apply select_In in Hf; destruct Hf as [Hf _].
    - exists (lvl_place L f). split. apply in_level_place; auto. eauto.
    - exists (PLv (S L)). split; auto. cbn. split. lia. eauto. }
  destruct Hpl as (p & Hp & Hpc).
  assert (HR: forall p', at_place s p' e' -> place_lt p' p -> es e < es e').
  { intros p' Hp' Hlt. apply (si_rec _ _ HI p' p e' e); auto. }
  destruct Hu as [H|[H|[(i & f & H1 & H2 & Hf & Hi)|[H|H]]]].
  - apply (HR PMem); auto. destruct Hpc as [->|(f & ->)]. exact I. generalize L; intros [|n]; exact I.
  - apply (HR PImm); auto. destruct Hpc as [->|(f & ->)]. exact I. generalize L; intros [|n]; exact I.
  - destruct (Nat.lt_ge_cases i L) as [Hlt|Hge].
    + apply (HR (lvl_place i f)). apply in_level_place; auto.
      destruct Hpc as [->|(f' & ->)].
      * destruct i; cbn. exact I. lia.
      * revert Hlt. generalize L. intros [|n] Hlt; [lia|]. destruct i; cbn. exact I. lia.
    + exfalso. assert (Hi2: (L + 2 <= i)%nat) by lia.
      pose proof (base_spec (ek e) i f Hb Hi2 Hf) as Hbs.
      rewrite (in_user_range_of f e' (ek e)) in Hbs; auto. discriminate.
      apply (si_fok _ _ HI i f Hf).
  - apply merged_In in He. destruct He as [He|He].
    + apply (g_no0 HG e' e); auto.
    + apply level_entries_In in H. destruct H as (f & Hf & Hi). apply remove_In in Hf.
      apply level_entries_In in He. destruct He as (g & Hg & He). apply select_In in Hg.
      apply (si_rec _ _ HI (lvl_place L f) (PLv (S L)) e' e); auto.
      * generalize L; intros [|n]; cbn. exact I. lia.
      * apply in_level_place; auto. apply Hf.
      * cbn. split. lia. exists g. split; auto. apply Hg.
  - apply (g_no1 HG e' e); auto.
Qed.

Theorem compact_edit_view k q : snap <= q -> view s' k q = view s k q.
Proof.
  intros Hq. unfold EngineSpec.view.
  pose proof (SInv_KD ucmp _ compact_edit_SInv) as KD'.
  pose proof (SInv_KD ucmp _ HI) as KD0.
  assert (Hsub: forall e, In e (all_entries s') -> In e (all_entries s)).
  { intros e He. apply all_split' in He. apply all_split. destruct He as [He|He]; auto.
    right. apply kept_merged; auto. }
  destruct (best (all_entries s) k q) as [e|] eqn:Eb.
  - apply best_Some in Eb. destruct Eb as (He & Hm & Hmax).
    assert (Hstay: In e (all_entries s') ->
                   visible (result_of (best (all_entries s') k q)) = visible (result_of (Some e))).
    { intros He'. f_equal. f_equal. apply (best_unique ucmp); auto. }
    apply all_split in He. destruct He as [He|He].
    { apply Hstay. apply all_split'. auto. }
    pose proof (CE_dropped snap base merged e merged_Srt He) as Hd. fold kept in Hd.
    destruct Hd as [Hd|[Hd|(y & Hy & Hk & Hys & Hlt)]].
    + apply Hstay. apply all_split'. auto.
    + (* rule (B): a deletion marker; everything older of this key disappears as well *)
      unfold ruleB in Hd. apply andb_true_iff in Hd. destruct Hd as [Hd Hbase].
      apply andb_true_iff in Hd. destruct Hd as [Hdel Hsn].
      assert (Hvis: visible (result_of (Some e)) = None).
      { cbn [result_of]. unfold result_of_entry. destruct (et e); [discriminate|reflexivity]. }
      rewrite Hvis.
      destruct (best (all_entries s') k q) as [e'|] eqn:Eb'; [|reflexivity].
      exfalso. apply best_Some in Eb'. destruct Eb' as (He' & Hm' & _).
      pose proof (Hmax e' (Hsub e' He') Hm') as Hle.
      assert (Hkk: ueq (ek e') (ek e) = true).
      { apply matches_iff in Hm, Hm'. eapply (ueq_trans ucmp). apply Hm'. apply (ueq_sym ucmp), Hm. }
      apply all_split' in He'. destruct He' as [Hu|Hk'].
      * pose proof (unchanged_newer e e' He Hbase Hu Hkk). lia.
      * destruct (N.eq_dec (es e') (es e)) as [Heq|Hne].
        -- assert (e' = e).
           { apply KD0; auto. apply all_split. right. apply kept_merged; auto.
             apply all_split. auto. }
           subst e'. assert (HnB: ruleB snap base e = false) by (exact (CE_notB _ _ _ _ _ Hk')).
           unfold ruleB in HnB.
           rewrite Hdel, Hsn, Hbase in HnB. discriminate.
        -- pose proof (CE_kept snap base merged e' merged_Srt Hk' e He ((ueq_sym ucmp) _ _ Hkk)) as Hc.
           lia.
    + (* rule (A): hidden by a newer entry visible at q -- impossible for the best entry *)
      exfalso. assert (Hmy: matches ucmp k q y = true).
      { apply matches_iff in Hm. apply matches_iff. split.
        - eapply (ueq_trans ucmp). apply (ueq_sym ucmp), Hk. apply Hm.
        - lia. }
      assert (Hyall: In y (all_entries s)) by (apply all_split; auto).
      specialize (Hmax y Hyall Hmy). lia.
  - replace (best (all_entries s') k q) with (@None entry); auto.
    symmetry. rewrite best_None in *. intros e He. apply Eb. auto.
Qed.

End WithCompaction.


Lemma compact_state s c s' :
  do_compact ucmp s c = Some s' ->
  compaction_guard ucmp s c = true /\
  exists outs, zip_files (c_outs c) (split_at (c_cuts c) (compaction_kept ucmp s c)) = Some outs /\
    s' = edit_state s (c_level c) (remove_files (level_files (levels s) (c_level c)) (c_in0 c))
           (add_files ucmp (remove_files (level_files (levels s) (S (c_level c))) (c_in1 c)) outs) (c_nf c).
Proof.
  unfold do_compact. destruct (compaction_guard ucmp s c); [|discriminate].
  destruct (zip_files (c_outs c) (split_at (c_cuts c) (compaction_kept ucmp s c))) as [outs|]; [|discriminate].
  intros H. injection H as <-. split; auto. exists outs. split; auto.
Qed.

Lemma compact_SInv s c s' : SInv s -> do_compact ucmp s c = Some s' -> SInv s'.
Proof.
  intros HI H. apply compact_state in H. destruct H as (HG & outs & Hz & ->).
  apply compact_edit_SInv; auto. apply guard_spec; auto.
Qed.

Lemma compact_view s c s' k q :
  SInv s -> do_compact ucmp s c = Some s' -> smallest_snapshot s <= q -> view s' k q = view s k q.
Proof.
  intros HI H Hq. apply compact_state in H. destruct H as (HG & outs & Hz & ->).
  apply compact_edit_view; auto. apply guard_spec; auto.
Qed.

Lemma compact_sub s c s' e :
  SInv s -> do_compact ucmp s c = Some s' -> In e (all_entries s') -> In e (all_entries s).
Proof.
  intros HI H He. apply compact_state in H. destruct H as (HG & outs & Hz & ->).
  pose proof (guard_spec s c HG) as G.
  apply (all_split' s c HI G outs Hz) in He. apply (all_split s c). destruct He as [He|He]; auto.
  right. apply kept_merged; auto.
Qed.

Lemma compact_same s c s' : do_compact ucmp s c = Some s' ->
  last_seq s' = last_seq s /\ snaps s' = snaps s /\ hist s' = hist s.
Proof.
  intros H. apply compact_state in H. destruct H as (HG & outs & Hz & ->). auto.
Qed.

(* ------------------------------------------------------------ OMove *)
Lemma has_num_single n f : has_num [n] f = true <-> fnum f = n.
Proof. unfold has_num. cbn [existsb]. rewrite orb_false_r. apply N.eqb_eq. Qed.

Lemma same_num_short l n :
  NoDup (map fnum l) -> (forall f, In f l -> fnum f = n) -> l = [] \/ exists f, l = [f].
Proof.
  intros H1 H2. destruct l as [|f [|g r]]; eauto.
  exfalso. cbn [map] in H1. inversion H1; subst. apply H3. left.
  rewrite (H2 f), (H2 g); auto. right; left; auto. left; auto.
Qed.

Lemma move_state s L n s' :
  do_move ucmp s L n = Some s' ->
  move_guard ucmp s L n = true /\
  s' = edit_state s L (remove_files (level_files (levels s) L) [n])
         (add_files ucmp (remove_files (level_files (levels s) (S L)) [])
                    (select_files (level_files (levels s) L) [n])) (next_file s).
Proof.
  unfold do_move. destruct (move_guard ucmp s L n); [|discriminate].
  intros H. injection H as <-. split; auto. rewrite remove_files_nil. reflexivity.
Qed.

Lemma move_SInv s L n s' : SInv s -> do_move ucmp s L n = Some s' -> SInv s'.
Proof.
  intros HI H. apply move_state in H. destruct H as (HG & ->).
  unfold move_guard in HG. cbn zeta in HG.
  repeat (apply andb_true_iff in HG; let H' := fresh "G" in destruct HG as [HG H']).
  set (lvL := level_files (levels s) L) in *.
  set (lvL1 := level_files (levels s) (S L)) in *.
  set (i0 := select_files lvL [n]) in *.
  assert (Hi0: forall f, In f i0 -> In f lvL /\ fnum f = n).
  { intros f Hf. apply select_In in Hf. rewrite has_num_single in Hf. exact Hf. }
  assert (Hok: Forall FOK i0).
  { apply Forall_forall. intros f Hf. apply (si_fok _ _ HI L f). apply Hi0; auto. }
  assert (Hnd: NoDup (map fnum i0)).
  { apply NoDup_map_filter. apply (si_nd _ _ HI). }
  assert (Hss: StronglySorted FB i0).
  { destruct (same_num_short i0 n Hnd) as [E|(f & E)].
    - intros f Hf. apply Hi0; auto.
    - rewrite E. constructor.
    - rewrite E. constructor; constructor. }
  apply (edit_SInv ucmp s L [n] [] i0 (next_file s) HI).
  - clear - HG. lia.
  - exact Hok.
  - exact Hss.
  - intros e He. left. exact He.
  - apply newer_outside_NO. exact G1.
  - intros f g Hf Hg. rewrite remove_files_nil in Hg.
    rewrite forallb_forall in G0. specialize (G0 g Hg).
    assert (Hgok: FOK g) by (apply (si_fok _ _ HI (S L) g); auto).
    assert (HS: Srt (level_entries i0)) by (apply level_entries_Srt; auto).
    assert (Hfm: forall x, In x (fents f) -> In x (level_entries i0)).
    { intros x Hx. apply level_entries_In. eauto. }
    destruct (file_disjoint_gen _ g HS Hgok G0) as [H|H].
    + right. intros y x Hy Hx. apply H; auto.
    + left. intros x y Hx Hy. apply H; auto.
  - exact Hnd.
  - intros f Hf. destruct (Hi0 f Hf) as [Hf1 Hf2]. split.
    + apply (si_num _ _ HI L f Hf1).
    + intros j g Hg. destruct (Nat.eq_dec j L) as [->|Hne].
      * rewrite level_files_set_eq in Hg.
        -- apply remove_In in Hg. destruct Hg as [_ Hg]. intros E.
           assert (has_num [n] g = true) by (apply has_num_single; congruence). congruence.
        -- rewrite (si_len _ _ HI). clear - HG. lia.
      * rewrite level_files_set_neq in Hg; auto.
        apply (proj2 (si_nd _ _ HI) j L g f); auto.
  - lia.
Qed.

Lemma move_all_entries s L n s' e :
  SInv s -> do_move ucmp s L n = Some s' -> (In e (all_entries s') <-> In e (all_entries s)).
Proof.
  intros HI H. apply move_state in H. destruct H as (HG & ->).
  assert (HL: (S L < NUM_LEVELS)%nat).
  { unfold move_guard in HG. cbn zeta in HG.
    repeat (apply andb_true_iff in HG; let H' := fresh "G" in destruct HG as [HG H']).
    clear - HG. lia. }
  rewrite (edit_all_entries ucmp s L [n] [] _ (next_file s) HI HL).
  rewrite (all_entries_split s L [n] []).
  assert (E: level_entries (select_files (level_files (levels s) (S L)) []) = []).
  { unfold select_files. cbn [has_num existsb].
    induction (level_files (levels s) (S L)); cbn [filter]; auto. }
  rewrite E. cbn [In]. tauto.
Qed.

Lemma move_same s L n s' : do_move ucmp s L n = Some s' ->
  last_seq s' = last_seq s /\ snaps s' = snaps s /\ hist s' = hist s.
Proof.
  intros H. apply move_state in H. destruct H as (HG & ->). auto.
Qed.

End Compact.
