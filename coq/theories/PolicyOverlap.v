(* PolicyOverlap.v -- ldb_version_get_overlapping_inputs (Policy.overlapping_inputs):
   - level > 0: the files overlapping the user range, in level order;
   - level 0: the restart loop ends within its fuel, and its result is the set of files
     overlapping a widened range that is closed (no selected file extends it). *)
From LCDB Require Import Base Engine EngineSpec EngineStepsBase EngineStepsInv Policy PolicyBase.
From Coq Require Import Sorting.Sorted.
Require Import Lia ZifyBool ZifyNat ZifyN.
Local Open Scope N_scope.

Section PO.
Variable ucmp : bytes -> bytes -> comparison.
Context {TO : total_order ucmp}.

Notation ult := (Engine.ult ucmp).
Notation FOK := (EngineStepsInv.FOK ucmp).
Notation ovl := (PolicyBase.ovl ucmp).
Notation within := (PolicyBase.within ucmp).
Notation wider_b := (PolicyBase.wider_b ucmp).
Notation wider_e := (PolicyBase.wider_e ucmp).

(* ---------------------------------------------------------------- order helpers *)
Lemma ule_lt_trans a b c : ucmp a b <> Gt -> ucmp b c = Lt -> ucmp a c = Lt.
Proof.
  intros H1 H2. pose proof ((ucmp_trans3 ucmp) a b c) as HT. rewrite H2 in HT.
  destruct (ucmp a b) eqn:E1; auto. congruence.
Qed.

Lemma lt_ule_trans a b c : ucmp a b = Lt -> ucmp b c <> Gt -> ucmp a c = Lt.
Proof.
  intros H1 H2. pose proof ((ucmp_trans3 ucmp) a b c) as HT. rewrite H1 in HT.
  destruct (ucmp b c) eqn:E2; auto. congruence.
Qed.

Lemma ule_trans a b c : ucmp a b <> Gt -> ucmp b c <> Gt -> ucmp a c <> Gt.
Proof.
  intros H1 H2. pose proof ((ucmp_trans3 ucmp) a b c) as HT.
  destruct (ucmp a b) eqn:E1; destruct (ucmp b c) eqn:E2; try congruence.
Qed.

Lemma ult_trans a b c : ult a b = true -> ult b c = true -> ult a c = true.
Proof. rewrite !(ult_iff ucmp). apply (ucmp_lt_trans ucmp). Qed.

Lemma ult_irrefl a : ult a a = false.
Proof. unfold Engine.ult. rewrite (ucmp_refl ucmp). reflexivity. Qed.

(* ---------------------------------------------------------------- wider *)
Lemma wider_b_refl ub : wider_b ub ub.
Proof. destruct ub as [u|]; cbn [PolicyBase.wider_b]; auto. rewrite (ucmp_refl ucmp). congruence. Qed.

Lemma wider_e_refl ue : wider_e ue ue.
Proof. destruct ue as [u|]; cbn [PolicyBase.wider_e]; auto. rewrite (ucmp_refl ucmp). congruence. Qed.

Lemma wider_b_trans a b c : wider_b a b -> wider_b b c -> wider_b a c.
Proof.
  destruct a as [x|], b as [y|], c as [z|]; cbn [PolicyBase.wider_b]; try tauto.
  intros H1 H2. apply (ule_trans z y x); auto.
Qed.

Lemma wider_e_trans a b c : wider_e a b -> wider_e b c -> wider_e a c.
Proof.
  destruct a as [x|], b as [y|], c as [z|]; cbn [PolicyBase.wider_e]; try tauto.
  intros H1 H2. apply (ule_trans x y z); auto.
Qed.

Lemma wider_before_begin ub ub' x :
  wider_b ub ub' -> before_begin ucmp ub' x = true -> before_begin ucmp ub x = true.
Proof.
  destruct ub as [u|], ub' as [u'|]; cbn [PolicyBase.wider_b before_begin]; try tauto; try discriminate.
  rewrite !(ult_iff ucmp). intros H1 H2. apply (lt_ule_trans x u' u); auto.
Qed.

Lemma wider_after_end ue ue' x :
  wider_e ue ue' -> after_end ucmp ue' x = true -> after_end ucmp ue x = true.
Proof.
  destruct ue as [u|], ue' as [u'|]; cbn [PolicyBase.wider_e after_end]; try tauto; try discriminate.
  rewrite !(ugt_ult ucmp), !(ult_iff ucmp). intros H1 H2. apply (ule_lt_trans u u' x); auto.
Qed.

Lemma wider_ovl ub ue ub' ue' f :
  FOK f -> wider_b ub ub' -> wider_e ue ue' -> ovl ub ue f = true -> ovl ub' ue' f = true.
Proof.
  intros _ Hb He. unfold PolicyBase.ovl. rewrite !andb_true_iff, !negb_true_iff.
  intros [H1 H2]. split.
  - destruct (before_begin ucmp ub' (ek (lg f))) eqn:E; auto.
    rewrite (wider_before_begin ub ub' _ Hb E) in H1. discriminate.
  - destruct (after_end ucmp ue' (ek (sm f))) eqn:E; auto.
    rewrite (wider_after_end ue ue' _ He E) in H2. discriminate.
Qed.

(* ---------------------------------------------------------------- one scan *)
Lemma ov_scan_cons lvl0 ub ue f r : FOK f ->
  ov_scan ucmp lvl0 ub ue (f :: r) =
  if ovl ub ue f then
    if lvl0 && before_begin ucmp ub (ek (sm f)) then ScanRestart (Some (ek (sm f))) ue
    else if lvl0 && after_end ucmp ue (ek (lg f)) then ScanRestart ub (Some (ek (lg f)))
    else match ov_scan ucmp lvl0 ub ue r with
         | ScanDone l => ScanDone (f :: l)
         | x => x
         end
  else ov_scan ucmp lvl0 ub ue r.
Proof.
  intros Hf. cbn [ov_scan]. rewrite (FOK_sm ucmp f Hf), (FOK_lg ucmp f Hf).
  unfold PolicyBase.ovl.
  destruct (before_begin ucmp ub (ek (lg f))) eqn:E1; cbn [negb andb]; auto.
  destruct (after_end ucmp ue (ek (sm f))) eqn:E2; cbn [negb andb]; auto.
Qed.

Lemma ov_scan_false ub ue fs :
  Forall FOK fs -> ov_scan ucmp false ub ue fs = ScanDone (filter (ovl ub ue) fs).
Proof.
  induction 1 as [|f r Hf Hr IH]; [reflexivity|].
  rewrite (ov_scan_cons false ub ue f r Hf). cbn [filter andb].
  destruct (ovl ub ue f) eqn:E; rewrite IH; reflexivity.
Qed.

Lemma ov_fuel_S fs : ov_fuel fs = S (2 * length fs).
Proof. unfold ov_fuel. lia. Qed.

Lemma overlapping_inputs_false fs ub ue :
  Forall FOK fs -> overlapping_inputs ucmp false fs ub ue = filter (ovl ub ue) fs.
Proof.
  intros H. unfold overlapping_inputs. rewrite ov_fuel_S. cbn [ov_loop].
  rewrite (ov_scan_false ub ue fs H). reflexivity.
Qed.

(* the level-0 scan: either it runs to the end, and then no selected file extends the
   range; or some file extends the range at its begin or at its end *)
Lemma ov_scan_true_spec ub ue fs : Forall FOK fs ->
  (ov_scan ucmp true ub ue fs = ScanDone (filter (ovl ub ue) fs) /\
   forall f, In f fs -> ovl ub ue f = true -> within ub ue f = true)
  \/ (exists f u, In f fs /\ ub = Some u /\ ult (ek (sm f)) u = true /\
        ov_scan ucmp true ub ue fs = ScanRestart (Some (ek (sm f))) ue)
  \/ (exists f u, In f fs /\ ue = Some u /\ ult u (ek (lg f)) = true /\
        ov_scan ucmp true ub ue fs = ScanRestart ub (Some (ek (lg f)))).
Proof.
  induction 1 as [|f r Hf Hr IH].
  - left. split; [reflexivity|]. intros f [].
  - rewrite (ov_scan_cons true ub ue f r Hf). cbn [filter andb].
    destruct (ovl ub ue f) eqn:Eo.
    + destruct (before_begin ucmp ub (ek (sm f))) eqn:Eb.
      { right; left. destruct ub as [u|]; [|discriminate Eb]. cbn [before_begin] in Eb.
        exists f, u. repeat split; auto. left; reflexivity. }
      destruct (after_end ucmp ue (ek (lg f))) eqn:Ee.
      { right; right. destruct ue as [u|]; [|discriminate Ee]. cbn [after_end] in Ee.
        rewrite (ugt_ult ucmp) in Ee.
        exists f, u. repeat split; auto. left; reflexivity. }
      destruct IH as [[IH1 IH2] | [(g & u & Hg & Hu & Hlt & Hs) | (g & u & Hg & Hu & Hlt & Hs)]].
      * left. rewrite IH1. split; [reflexivity|].
        intros g [<-|Hg] Hov.
        -- unfold PolicyBase.within. rewrite Eb, Ee. reflexivity.
        -- apply IH2; auto.
      * right; left. exists g, u. rewrite Hs. repeat split; auto. right; auto.
      * right; right. exists g, u. rewrite Hs. repeat split; auto. right; auto.
    + destruct IH as [[IH1 IH2] | [(g & u & Hg & Hu & Hlt & Hs) | (g & u & Hg & Hu & Hlt & Hs)]].
      * left. split; [exact IH1|].
        intros g [<-|Hg] Hov; [congruence|]. apply IH2; auto.
      * right; left. exists g, u. repeat split; auto. right; auto.
      * right; right. exists g, u. repeat split; auto. right; auto.
Qed.

(* ---------------------------------------------------------------- the measure *)
Definition mu (ub ue : option bytes) (fs : list file) : nat :=
  (length (filter (fun f => before_begin ucmp ub (ek (sm f))) fs) +
   length (filter (fun f => after_end ucmp ue (ek (lg f))) fs))%nat.

Lemma flen_le {A} (p : A -> bool) l : (length (filter p l) <= length l)%nat.
Proof.
  induction l as [|x l IH]; cbn [filter length]; [lia|].
  destruct (p x); cbn [length]; lia.
Qed.

Lemma flen_mono {A} (p q : A -> bool) l :
  (forall x, In x l -> p x = true -> q x = true) ->
  (length (filter p l) <= length (filter q l))%nat.
Proof.
  induction l as [|x l IH]; intros Hpq; cbn [filter length]; [lia|].
  assert (IH' : (length (filter p l) <= length (filter q l))%nat).
  { apply IH. intros y Hy. apply Hpq. right; auto. }
  pose proof (Hpq x (or_introl eq_refl)) as Hx.
  destruct (p x) eqn:Ep; destruct (q x) eqn:Eq; cbn [length]; try lia;
    try (specialize (Hx eq_refl); discriminate).
Qed.

Lemma flen_strict {A} (p q : A -> bool) l a :
  (forall x, In x l -> p x = true -> q x = true) ->
  In a l -> p a = false -> q a = true ->
  (length (filter p l) < length (filter q l))%nat.
Proof.
  induction l as [|x l IH]; intros Hpq Ha Hpa Hqa; [destruct Ha|].
  assert (Hpq' : forall y, In y l -> p y = true -> q y = true).
  { intros y Hy. apply Hpq. right; auto. }
  pose proof (flen_mono p q l Hpq') as Hle.
  pose proof (Hpq x (or_introl eq_refl)) as Hx.
  cbn [filter]. destruct Ha as [->|Ha].
  - rewrite Hpa, Hqa. cbn [length]. lia.
  - pose proof (IH Hpq' Ha Hpa Hqa) as Hlt.
    destruct (p x) eqn:Ep; destruct (q x) eqn:Eq; cbn [length]; try lia;
      try (specialize (Hx eq_refl); discriminate).
Qed.

Lemma mu_le ub ue fs : (mu ub ue fs <= 2 * length fs)%nat.
Proof.
  unfold mu.
  pose proof (flen_le (fun f => before_begin ucmp ub (ek (sm f))) fs).
  pose proof (flen_le (fun f => after_end ucmp ue (ek (lg f))) fs).
  lia.
Qed.

Lemma mu_lt_fuel ub ue fs : (mu ub ue fs < ov_fuel fs)%nat.
Proof. pose proof (mu_le ub ue fs). rewrite ov_fuel_S. lia. Qed.

Lemma mu_restart_b ue fs f u :
  In f fs -> ult (ek (sm f)) u = true ->
  (mu (Some (ek (sm f))) ue fs < mu (Some u) ue fs)%nat.
Proof.
  intros Hf Hlt. unfold mu. apply Nat.add_lt_mono_r.
  apply (flen_strict _ _ fs f); cbn [before_begin]; auto.
  - intros g _ Hg. apply (ult_trans _ (ek (sm f)) _); auto.
  - apply ult_irrefl.
Qed.

Lemma mu_restart_e ub fs f u :
  In f fs -> ult u (ek (lg f)) = true ->
  (mu ub (Some (ek (lg f))) fs < mu ub (Some u) fs)%nat.
Proof.
  intros Hf Hlt. unfold mu. apply Nat.add_lt_mono_l.
  apply (flen_strict _ _ fs f); cbn [after_end]; auto.
  - intros g _. rewrite !(ugt_ult ucmp). intros Hg. apply (ult_trans _ (ek (lg f)) _); auto.
  - rewrite (ugt_ult ucmp). apply ult_irrefl.
  - rewrite (ugt_ult ucmp). exact Hlt.
Qed.

(* ---------------------------------------------------------------- the restart loop *)
(* with fuel above the measure the loop ends with a ScanDone: the result does not depend
   on the extra fuel, and it is the overlap set of a closed, widened range *)
Lemma ov_loop_true_spec fuel : forall ub ue fs,
  Forall FOK fs -> (mu ub ue fs < fuel)%nat ->
  exists ub' ue', wider_b ub ub' /\ wider_e ue ue' /\
    (forall k, ov_loop ucmp (fuel + k) true fs ub ue = filter (ovl ub' ue') fs) /\
    (forall f, In f fs -> ovl ub' ue' f = true -> within ub' ue' f = true).
Proof.
  induction fuel as [|n IH]; intros ub ue fs Hfs Hmu; [lia|].
  destruct (ov_scan_true_spec ub ue fs Hfs)
    as [[Hs Hcl] | [(f & u & Hf & Hu & Hlt & Hs) | (f & u & Hf & Hu & Hlt & Hs)]].
  - exists ub, ue. split; [apply wider_b_refl|]. split; [apply wider_e_refl|].
    split; [|exact Hcl]. intros k. cbn [Nat.add ov_loop]. rewrite Hs. reflexivity.
  - subst ub.
    pose proof (mu_restart_b ue fs f u Hf Hlt) as Hdec.
    destruct (IH (Some (ek (sm f))) ue fs Hfs ltac:(lia)) as (ub' & ue' & Hwb & Hwe & Hk & Hcl).
    exists ub', ue'. split.
    { apply (wider_b_trans _ (Some (ek (sm f))) _); auto.
      cbn [PolicyBase.wider_b]. apply (ult_iff ucmp) in Hlt. congruence. }
    split; [exact Hwe|]. split; [|exact Hcl].
    intros k. cbn [Nat.add ov_loop]. rewrite Hs. apply Hk.
  - subst ue.
    pose proof (mu_restart_e ub fs f u Hf Hlt) as Hdec.
    destruct (IH ub (Some (ek (lg f))) fs Hfs ltac:(lia)) as (ub' & ue' & Hwb & Hwe & Hk & Hcl).
    exists ub', ue'. split; [exact Hwb|]. split.
    { apply (wider_e_trans _ (Some (ek (lg f))) _); auto.
      cbn [PolicyBase.wider_e]. apply (ult_iff ucmp) in Hlt. congruence. }
    split; [|exact Hcl].
    intros k. cbn [Nat.add ov_loop]. rewrite Hs. apply Hk.
Qed.

(* fuel above the measure: extra fuel never changes the result *)
Lemma ov_loop_fuel_indep fuel k lvl0 fs ub ue :
  Forall FOK fs -> (mu ub ue fs < fuel)%nat ->
  ov_loop ucmp (fuel + k) lvl0 fs ub ue = ov_loop ucmp fuel lvl0 fs ub ue.
Proof.
  intros Hfs Hmu. destruct lvl0.
  - destruct (ov_loop_true_spec fuel ub ue fs Hfs Hmu) as (ub' & ue' & _ & _ & Hk & _).
    pose proof (Hk 0%nat) as H0. rewrite Nat.add_0_r in H0. rewrite H0, Hk. reflexivity.
  - destruct fuel as [|n]; [lia|]. cbn [Nat.add ov_loop].
    rewrite (ov_scan_false ub ue fs Hfs). reflexivity.
Qed.

Theorem overlapping_inputs_fuel lvl0 fs ub ue k :
  Forall FOK fs ->
  ov_loop ucmp (ov_fuel fs + k) lvl0 fs ub ue = overlapping_inputs ucmp lvl0 fs ub ue.
Proof.
  intros Hfs. unfold overlapping_inputs.
  apply ov_loop_fuel_indep; auto. apply mu_lt_fuel.
Qed.

Theorem overlapping_inputs_lvl0 fs ub ue : Forall FOK fs ->
  exists ub' ue', wider_b ub ub' /\ wider_e ue ue' /\
    overlapping_inputs ucmp true fs ub ue = filter (ovl ub' ue') fs /\
    (forall f, In f fs -> ovl ub' ue' f = true -> within ub' ue' f = true).
Proof.
  intros Hfs.
  destruct (ov_loop_true_spec (ov_fuel fs) ub ue fs Hfs (mu_lt_fuel ub ue fs))
    as (ub' & ue' & Hwb & Hwe & Hk & Hcl).
  exists ub', ue'. repeat split; auto.
  unfold overlapping_inputs. pose proof (Hk 0%nat) as H0. rewrite Nat.add_0_r in H0. exact H0.
Qed.

End PO.
