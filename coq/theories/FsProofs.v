(* FsProofs.v -- the theorems about FsModel.v (record-level file / crash model):
   under the protocol rules R0..R7 ([wf_protocol])
     C17b  CURRENT always names a complete MANIFEST        (C17_current_complete)
     C05   recovery is total, drops at most a tail per log (C05_recovery_total_and_tail_only)
     C02   sync-acknowledged batches survive power loss    (C02_synced_durable)
     C03   a process crash loses nothing                   (C03_process_crash)
   by induction over the trace with the invariant Inv_dur (FsInv.v, FsDur.v) and
   Inv_ack (below).

   STAGES.  Every theorem covers ALL traces accepted by [wf_protocol]: flushes,
   compaction edits that replace tables, MANIFEST rollover at open ("Stage B"
   included).  What the record level says about a batch whose log is obsolete
   is [flushed]: it was literally contained in tables named by an edit. *)
From Coq Require Import Lia ZifyBool ZifyNat ZifyN.
From LCDB Require Import FsModel FsLemmas FsInv FsDur FsAck.
Local Open Scope N_scope.

(* ------------------------------------------------------------------ reading an image *)
Lemma read_tables_ok : forall img fs,
  (forall f, In f fs -> exists ents, iget img (FTable (snd f)) = Some [PTable ents]) ->
  exists tabs, read_tables img fs = Some tabs.
Proof.
  intros img fs; induction fs as [|[l n] r IH]; intro H; cbn [read_tables]; [eauto|].
  destruct (H (l, n) (or_introl eq_refl)) as [ents He]. cbn [snd] in He.
  unfold read_table; rewrite He.
  destruct IH as [tabs Ht]; [intros f Hf; apply H; right; exact Hf|]. rewrite Ht; eauto.
Qed.

Lemma read_logs_ok : forall img ns,
  (forall n, In n ns -> exists recs bs, iget img (FLog n) = Some recs /\ batches_of recs = Some bs) ->
  exists segs, read_logs img ns = Some segs /\ map fst segs = ns /\
    forall n bs, In (n, bs) segs -> exists recs, iget img (FLog n) = Some recs /\ batches_of recs = Some bs.
Proof.
  intros img ns; induction ns as [|n r IH]; intro H; cbn [read_logs].
  - exists []; repeat split; intros; contradiction.
  - destruct (H n (or_introl eq_refl)) as [recs [bs [Hr Hb]]]. rewrite Hr, Hb.
    destruct IH as [segs [Hs [Hm Hall]]]; [intros n' Hn'; apply H; right; exact Hn'|]. rewrite Hs.
    exists ((n, bs) :: segs). split; [reflexivity|split; [cbn; f_equal; exact Hm|]].
    intros n' bs' [E|Hin]; [injection E as <- <-; eauto|apply Hall; exact Hin].
Qed.

Lemma read_logs_fun : forall img ns (B : N -> list brec),
  (forall n, In n ns -> exists recs, iget img (FLog n) = Some recs /\ batches_of recs = Some (B n)) ->
  read_logs img ns = Some (map (fun n => (n, B n)) ns).
Proof.
  intros img ns B; induction ns as [|n r IH]; intro H; cbn [read_logs map]; [reflexivity|].
  destruct (H n (or_introl eq_refl)) as [recs [Hr Hb]]. rewrite Hr, Hb, IH; [reflexivity|].
  intros n' Hn'; apply H; right; exact Hn'.
Qed.

Lemma replay_prev : forall eds, Forall prev_ok eds -> mv_prev (replay eds) = None \/ mv_prev (replay eds) = Some 0.
Proof.
  intro eds; induction eds as [|e eds IH] using rev_ind; intro H; [left; reflexivity|].
  apply Forall_app in H. destruct H as [H1 H2]. inversion H2 as [|? ? Hp _]; subst.
  rewrite replay_snoc. cbn [apply_edit mv_prev]. destruct Hp as [-> | ->]; cbn [or_else]; auto.
Qed.

Lemma Forall_firstn : forall {A} (P : A -> Prop) l k, Forall P l -> Forall P (firstn k l).
Proof.
  intros A P l k H. rewrite Forall_forall in H |- *. intros x Hx; apply H. eapply in_firstn_in; exact Hx.
Qed.

(* admissible cuts of the files *)
Definition cut_ok (d : disk) (cut : nat -> nat) : Prop :=
  forall o x, nth_error (d_objs d) o = Some x -> (o_synced x <= cut o <= length (o_recs x))%nat.

Lemma firstn_one : forall {A} (x : A) c, (1 <= c)%nat -> firstn c [x] = [x].
Proof. intros A x c H; destruct c; [lia|]. cbn [firstn]. rewrite firstn_nil; reflexivity. Qed.

(* ------------------------------------------------------------------ recovery from a good cut *)
Record recovered (p : pstate) (k : nat) (cut : nat -> nat) (s : rstate) : Prop := {
  rc_view : exists c M xM eds, view (p_disk p) k c (r_manifest s) M xM /\
      edits_of (o_recs xM) = Some eds /\ In (replay (firstn (cut M) eds)) (exposed xM) /\
      r_files s = mv_files (replay (firstn (cut M) eds)) /\
      mv_log (replay (firstn (cut M) eds)) = Some (r_log s);
  rc_prev : r_prev s = 0;
  rc_nums : map fst (r_segs s) =
      filter (fun n => (r_log s <=? n) || (n =? 0)) (image_logs (image_of (p_disk p) k cut));
  rc_segs : forall n bs, In (n, bs) (r_segs s) ->
      exists o x bsall, nsk (p_disk p) k (FLog n) = Some o /\ nth_error (d_objs (p_disk p)) o = Some x /\
        batches_of (o_recs x) = Some bsall /\ bs = firstn (cut o) bsall }.

Lemma ifile_log : forall p k cut n recs, Inv_struct p -> ifile (p_disk p) k cut (FLog n) = Some recs ->
  exists o x bsall, nsk (p_disk p) k (FLog n) = Some o /\ nth_error (d_objs (p_disk p)) o = Some x /\
    batches_of (o_recs x) = Some bsall /\ recs = firstn (cut o) (o_recs x).
Proof.
  intros p k cut n recs IS H. unfold ifile in H.
  destruct (nsk (p_disk p) k (FLog n)) as [o|] eqn:Hb; [|discriminate].
  destruct (nth_error (d_objs (p_disk p)) o) as [x|] eqn:Hx; [|discriminate]. injection H as <-.
  destruct (proj1 (nsk_created _ _ _ _ _ (is_ops _ IS) Hb)) as [i [_ Hc]]; [discriminate|].
  destruct (is_typed _ IS _ _ _ _ Hc Hx) as [[bs Hbs] _]. exists o, x, bs. auto.
Qed.

Theorem recover_good : forall p k cut c, Inv_dur p -> admissible (p_disk p) k -> cut_ok (p_disk p) cut ->
  nsk (p_disk p) k FCurrent = Some c ->
  exists s, recover (image_of (p_disk p) k cut) = Some s /\ recovered p k cut s.
Proof.
  intros p k cut c I A Hcut Hc. pose proof (id_struct _ I) as IS.
  destruct (proj1 (Good_view _ _) (id_good _ I k A) c Hc) as [m [M [xM [V Hms]]]].
  pose proof V as [V1 [V2 [V3 V4]]].
  destruct (view_manifest_typed _ _ _ _ _ _ IS V) as [eds [He [Hs Hp]]].
  set (img := image_of (p_disk p) k cut).
  assert (Hcur : iget img FCurrent = Some [PCurrent m]).
  { unfold img; rewrite iget_image_of. unfold ifile. rewrite V1, V2. cbn [o_recs].
    pose proof (Hcut _ _ V2) as Hc2. cbn [o_synced o_recs length] in Hc2. rewrite firstn_one by lia. reflexivity. }
  assert (Hman : iget img (FManifest m) = Some (firstn (cut M) (o_recs xM))).
  { unfold img; rewrite iget_image_of. unfold ifile. rewrite V3, V4. reflexivity. }
  pose proof (Hcut _ _ V4) as HcM. rewrite <- (edits_of_length _ _ He) in HcM.
  set (ms := replay (firstn (cut M) eds)).
  assert (Hexp : In ms (exposed xM)).
  { apply (in_exposed _ _ _ He Hs). exists (cut M). split; [lia|reflexivity]. }
  destruct (Hms _ Hexp) as [G1 [G2 G3]].
  unfold manifest_ok in G1.
  destruct (mv_next ms) as [nx|] eqn:Enx; [|discriminate].
  destruct (mv_log ms) as [lg|] eqn:Elg; [|discriminate].
  destruct (mv_last ms) as [ls|] eqn:Els; [|discriminate].
  assert (Hpv : match mv_prev ms with Some pv => pv | None => 0 end = 0).
  { destruct (replay_prev _ (Forall_firstn _ _ (cut M) Hp)) as [E|E]; fold ms in E; rewrite E; reflexivity. }
  destruct (read_tables_ok img (mv_files ms)) as [tabs Htabs].
  { intros f Hf. destruct (G2 f Hf) as [o [ents [Hb Hx]]]. exists ents.
    unfold img; rewrite iget_image_of. unfold ifile. rewrite Hb, Hx. cbn [o_recs].
    pose proof (Hcut _ _ Hx) as Hc2. cbn [o_synced o_recs length] in Hc2. rewrite firstn_one by lia. reflexivity. }
  set (nums := filter (fun n => (lg <=? n) || (n =? 0)) (image_logs img)).
  destruct (read_logs_ok img nums) as [segs [Hsegs [Hfst Hall]]].
  { intros n Hn. unfold nums in Hn. apply filter_In in Hn. destruct Hn as [Hn _].
    apply in_image_logs in Hn. destruct Hn as [recs Hr]. exists recs.
    unfold img in Hr; rewrite iget_image_of in Hr.
    destruct (ifile_log _ _ _ _ _ IS Hr) as [o [x [bs [_ [_ [Hb ->]]]]]].
    exists (firstn (cut o) bs). split; [unfold img; rewrite iget_image_of; exact Hr|].
    apply batches_of_firstn; exact Hb. }
  eexists. split.
  - unfold recover. fold img. rewrite Hcur, Hman, (edits_of_firstn _ _ _ He). fold ms.
    rewrite Enx, Elg, Els, Htabs, Hpv. fold nums. rewrite Hsegs. reflexivity.
  - constructor; cbn [r_manifest r_files r_log r_prev r_segs].
    + exists c, M, xM, eds. fold ms. auto.
    + reflexivity.
    + exact Hfst.
    + intros n bs Hin. destruct (Hall _ _ Hin) as [recs [Hr Hb]].
      unfold img in Hr; rewrite iget_image_of in Hr.
      destruct (ifile_log _ _ _ _ _ IS Hr) as [o [x [bsall [H1 [H2 [H3 ->]]]]]].
      exists o, x, bsall. repeat split; auto.
      rewrite (batches_of_firstn _ _ (cut o) H3) in Hb. injection Hb as <-. reflexivity.
Qed.

(* ------------------------------------------------------------------ what a successful recovery read *)
Lemma recover_inv : forall img s, recover img = Some s ->
  iget img FCurrent = Some [PCurrent (r_manifest s)] /\ complete_manifest img (r_manifest s).
Proof.
  intros img s H. unfold recover in H.
  destruct (iget img FCurrent) as [l|] eqn:Ec; [|discriminate].
  destruct l as [|r1 l]; [discriminate|]. destruct r1; try discriminate. destruct l; [|discriminate].
  destruct (iget img (FManifest m)) as [recs|] eqn:Em; [|discriminate].
  destruct (edits_of recs) as [eds|] eqn:Ee; [|discriminate].
  destruct (mv_next (replay eds)) as [nx|] eqn:E1; [|discriminate].
  destruct (mv_log (replay eds)) as [lg|] eqn:E2; [|discriminate].
  destruct (mv_last (replay eds)) as [ls|] eqn:E3; [|discriminate].
  destruct (read_tables img (mv_files (replay eds))) as [tabs|] eqn:Et; [|discriminate].
  destruct (read_logs img _) as [segs|]; [|discriminate].
  injection H as <-. cbn [r_manifest]. split; [reflexivity|].
  exists recs, eds. split; [exact Em|split; [exact Ee|split]].
  - unfold manifest_ok. rewrite E1, E2, E3. reflexivity.
  - rewrite Et; discriminate.
Qed.

Lemma crash_image_cut : forall tr img, crash_image tr img ->
  exists k cut, admissible (fs_run tr) k /\ cut_ok (fs_run tr) cut /\ img = image_of (fs_run tr) k cut.
Proof. intros tr img [k [cut [H1 [H2 H3]]]]. exists k, cut. auto. Qed.

Lemma iget_current_none : forall d k cut, nsk d k FCurrent = None -> iget (image_of d k cut) FCurrent = None.
Proof. intros d k cut H. rewrite iget_image_of. unfold ifile. rewrite H. reflexivity. Qed.

Lemma iget_current_some : forall d k cut, iget (image_of d k cut) FCurrent <> None -> exists c, nsk d k FCurrent = Some c.
Proof.
  intros d k cut H. destruct (nsk d k FCurrent) as [c|] eqn:E; [eauto|].
  exfalso; apply H. apply iget_current_none; exact E.
Qed.

(* every crash image with a CURRENT file recovers *)
Lemma crash_recovers : forall tr, wf_protocol tr = true -> forall img, crash_image tr img ->
  iget img FCurrent <> None ->
  exists k cut s, admissible (fs_run tr) k /\ cut_ok (fs_run tr) cut /\ img = image_of (fs_run tr) k cut /\
    recover img = Some s /\ recovered (prun tr) k cut s.
Proof.
  intros tr Hwf img Hc Hcur. destruct (crash_image_cut _ _ Hc) as [k [cut [A [Hcut ->]]]].
  destruct (iget_current_some _ _ _ Hcur) as [c Hb].
  pose proof (Inv_dur_run _ Hwf) as I.
  destruct (recover_good (prun tr) k cut c I) as [s [Hr Hrec]]; rewrite ?prun_disk; auto.
  rewrite prun_disk in Hr. exists k, cut, s. auto.
Qed.

(* ------------------------------------------------------------------ C17b *)
Theorem C17_current_complete : forall tr, wf_protocol tr = true ->
  forall p img, crash_image (firstn p tr) img ->
  iget img FCurrent = None \/
  exists m, iget img FCurrent = Some [PCurrent m] /\ complete_manifest img m.
Proof.
  intros tr Hwf p img Hc. pose proof (wf_protocol_firstn _ p Hwf) as Hwf'.
  destruct (iget img FCurrent) as [l|] eqn:E; [|left; reflexivity]. right.
  destruct (crash_recovers _ Hwf' _ Hc) as [k [cut [s [_ [_ [_ [Hr _]]]]]]]; [congruence|].
  destruct (recover_inv _ _ Hr) as [H1 H2]. exists (r_manifest s). rewrite <- E. auto.
Qed.

(* ------------------------------------------------------------------ C05 *)
Lemma seg_is_log_prefix : forall tr k cut s, wf_protocol tr = true -> recovered (prun tr) k cut s ->
  forall n bs, In (n, bs) (r_segs s) ->
    exists o x, nsk (fs_run tr) k (FLog n) = Some o /\ nth_error (d_objs (fs_run tr)) o = Some x /\
      batches_of (o_recs x) = Some (log_batches tr n) /\ bs = firstn (cut o) (log_batches tr n).
Proof.
  intros tr k cut s Hwf R n bs Hin.
  pose proof (id_struct _ (Inv_dur_run _ Hwf)) as IS. pose proof (Inv_trace_run _ Hwf) as IT.
  destruct (rc_segs _ _ _ _ R _ _ Hin) as [o [x [bsall [Hb [Hx [Hbs ->]]]]]].
  destruct (proj1 (nsk_created _ _ _ _ _ (is_ops _ IS) Hb)) as [i [_ Hc]]; [discriminate|].
  pose proof (in_logs_of_created _ _ _ _ IS Hc) as Hk.
  apply in_map_iff in Hk. destruct Hk as [[n' bs'] [En Hin']]. cbn [fst] in En; subst n'.
  pose proof (is_logs_recs _ IS _ _ _ _ _ Hin' Hc Hx) as Hrecs. rewrite Hbs in Hrecs. injection Hrecs as ->.
  rewrite (it_logs _ IT _ _ Hin') in *. rewrite prun_disk in *. exists o, x. auto.
Qed.

Lemma recovered_log_le_cov : forall tr k cut s, wf_protocol tr = true -> recovered (prun tr) k cut s ->
  r_log s <= p_cov (prun tr).
Proof.
  intros tr k cut s Hwf R. destruct (rc_view _ _ _ _ R) as [c [M [xM [eds [V [He [Hexp [_ Hl]]]]]]]].
  destruct V as [_ [_ [_ V4]]]. eapply exposed_log_le_cov; eauto using Inv_dur_run.
Qed.

Theorem C05_recovery_total_and_tail_only : forall tr, wf_protocol tr = true ->
  forall p img, crash_image (firstn p tr) img -> iget img FCurrent <> None ->
  exists s, recover img = Some s /\ per_segment_prefix (firstn p tr) s /\
    (forall n b, In b (log_batches (firstn p tr) n) -> n < r_log s -> flushed (firstn p tr) b).
Proof.
  intros tr Hwf p img Hc Hcur. pose proof (wf_protocol_firstn _ p Hwf) as Hwf'.
  destruct (crash_recovers _ Hwf' _ Hc Hcur) as [k [cut [s [A [Hcut [-> [Hr R]]]]]]].
  exists s. split; [exact Hr|split; [split; [|split]|]].
  - intros n bs Hin. destruct (seg_is_log_prefix _ _ _ _ Hwf' R _ _ Hin) as [o [x [_ [_ [_ ->]]]]]. eauto.
  - rewrite (rc_nums _ _ _ _ R). apply sorted_filter. apply sort_N_sorted.
  - intros n Hn. rewrite (rc_nums _ _ _ _ R) in Hn. apply filter_In in Hn. destruct Hn as [_ Hn].
    apply orb_true_iff in Hn. destruct Hn as [Hn|Hn].
    + left. apply N.leb_le; exact Hn.
    + right. rewrite (rc_prev _ _ _ _ R). apply N.eqb_eq; exact Hn.
  - intros n b Hb Hn. pose proof (Inv_trace_run _ Hwf') as IT.
    pose proof (recovered_log_le_cov _ _ _ _ Hwf' R) as Hle.
    destruct (in_dec N.eq_dec n (map fst (p_logs (prun (firstn p tr))))) as [Hk|Hk].
    + apply in_map_iff in Hk. destruct Hk as [[n' bs] [En Hin]]. cbn [fst] in En; subst n'.
      eapply (it_flushed _ IT); [exact Hin|lia|]. rewrite (it_logs _ IT _ _ Hin). exact Hb.
    + rewrite (it_nologs _ IT _ Hk) in Hb. contradiction.
Qed.

(* ------------------------------------------------------------------ C02 *)
(* a created log is in the cut unless it has been unlinked before the cut *)
Lemma nsk_log_bound_or_unlinked : forall d nobj i n o, ops_wf (d_ops d) nobj ->
  created_at d i (FLog n) o -> forall k, (i < k)%nat -> (k <= length (d_ops d))%nat ->
  nsk d k (FLog n) = Some o \/ exists u, (i < u < k)%nat /\ nth_error (d_ops d) u = Some (DUnlink (FLog n)).
Proof.
  intros d nobj i n o W Hc k; induction k as [|k IH]; intros H1 H2; [lia|].
  destruct (Nat.eq_dec i k) as [->|Hne].
  - left. rewrite (nsk_S _ _ _ Hc). cbn [ns_apply]. rewrite fname_eqb_refl. reflexivity.
  - destruct IH as [IH|[u [Hu1 Hu2]]]; try lia.
    2:{ right. exists u. split; [lia|exact Hu2]. }
    destruct (nth_error (d_ops d) k) as [op|] eqn:Eop; [|apply nth_error_None in Eop; lia].
    rewrite (nsk_S _ _ _ Eop).
    destruct op as [g o'|a b|g]; cbn [ns_apply].
    + destruct (fname_eqb (FLog n) g) eqn:E; [|left; exact IH].
      apply fname_eqb_eq in E; subst g.
      assert (i = k) by (eapply create_unique_pos; [apply (ow_nodup _ _ W)|exact Hc|exact Eop]). lia.
    + destruct (ops_wf_ren_nth _ _ _ _ _ W Eop) as [[t ->] ->].
      destruct (nsk d k (FTmp t)); [|left; exact IH]. cbn [fname_eqb]. left; exact IH.
    + destruct (fname_eqb (FLog n) g) eqn:E; [|left; exact IH].
      apply fname_eqb_eq in E; subst g. right. exists k. split; [lia|exact Eop].
Qed.

Lemma in_firstn_nth_error : forall {A} (l : list A) j c x, nth_error l j = Some x -> (j < c)%nat -> In x (firstn c l).
Proof.
  intros A l; induction l as [|y r IH]; intros j c x H Hj; [destruct j; discriminate|].
  destruct c; [lia|]. destruct j; cbn in H |- *.
  - injection H as ->; left; reflexivity.
  - right; eapply IH; eauto. lia.
Qed.

(* an unlinked log is below every recoverable log_number *)
Lemma unlinked_log_dead : forall tr k cut s n, recovered (prun tr) k cut s ->
  Inv_dur (prun tr) -> admissible (fs_run tr) k ->
  In (DUnlink (FLog n)) (d_ops (fs_run tr)) -> n < r_log s.
Proof.
  intros tr k cut s n R I A Hin. destruct (rc_view _ _ _ _ R) as [c [M [xM [eds [V [He [Hexp [_ Hl]]]]]]]].
  rewrite <- prun_disk in A, Hin.
  destruct (proj1 (Good_view _ _) (id_good _ I k A) c (proj1 V)) as [m' [M' [xM' [V' Hms]]]].
  destruct (view_fun _ _ _ _ _ _ _ _ _ _ V V') as [_ [_ [_ <-]]].
  destruct (Hms _ Hexp) as [_ [_ G3]]. specialize (G3 n Hin). unfold log_dead in G3. rewrite Hl in G3.
  apply N.ltb_lt; exact G3.
Qed.

Theorem C02_synced_durable : forall tr, wf_protocol tr = true ->
  forall p img, crash_image (firstn p tr) img -> iget img FCurrent <> None ->
  exists s, recover img = Some s /\
    forall id b, acked_sync_before tr p id b \/ acked_and_log_unlinked_before tr p id b ->
                 applied (firstn p tr) s b.
Proof.
  intros tr Hwf p img Hc Hcur. pose proof (wf_protocol_firstn _ p Hwf) as Hwf'.
  destruct (crash_recovers _ Hwf' _ Hc Hcur) as [k [cut [s [A [Hcut [-> [Hr R]]]]]]].
  exists s. split; [exact Hr|].
  set (tr' := firstn p tr) in *.
  pose proof (Inv_dur_run _ Hwf') as I. pose proof (id_struct _ I) as IS. pose proof (Inv_trace_run _ Hwf') as IT.
  pose proof (is_ops _ IS) as W. rewrite prun_disk in W.
  intros id b [[n Hack]|[n [sy [Hack Hunl]]]].
  - (* sync-acknowledged *)
    destruct (it_dur _ IT _ _ _ Hack) as [i [o [x [j [Hcr [Hx [Hj Hn]]]]]]].
    assert (Hi : (i < k)%nat).
    { rewrite <- prun_disk in Hcr, Hx. destruct (is_typed _ IS _ _ _ _ Hcr Hx) as [_ [_ S2]].
      specialize (S2 ltac:(lia)). destruct A as [A1 _]. rewrite <- prun_disk in A1. lia. }
    destruct (nsk_log_bound_or_unlinked _ _ _ _ _ W Hcr k Hi (proj2 A)) as [Hb|[u [Hu1 Hu2]]].
    + destruct (N.leb_spec (r_log s) n) as [Hle|Hlt].
      * left. (* the log is replayed, at least up to its fsynced prefix *)
        assert (Hnum : In n (map fst (r_segs s))).
        { rewrite (rc_nums _ _ _ _ R). apply filter_In. split.
          - apply in_image_logs. rewrite prun_disk, iget_image_of. unfold ifile. rewrite Hb, Hx. eauto.
          - apply orb_true_iff; left. apply N.leb_le; exact Hle. }
        apply in_map_iff in Hnum. destruct Hnum as [[n' bs] [En Hin]]. cbn [fst] in En; subst n'.
        destruct (seg_is_log_prefix _ _ _ _ Hwf' R _ _ Hin) as [o' [x' [Hb' [Hx' [_ ->]]]]].
        rewrite Hb in Hb'. injection Hb' as <-. rewrite Hx in Hx'. injection Hx' as <-.
        unfold applied_batches. apply in_flat_map. exists (n, firstn (cut o) (log_batches tr' n)). split; [exact Hin|].
        cbn [snd]. eapply in_firstn_nth_error; [exact Hn|]. pose proof (Hcut _ _ Hx). lia.
      * right. exists n. split; [eapply nth_error_In; exact Hn|exact Hlt].
    + right. exists n. split; [eapply nth_error_In; exact Hn|].
      eapply unlinked_log_dead; eauto. eapply nth_error_In; exact Hu2.
  - (* the log that held it has been unlinked *)
    right. exists n. split; [eapply (it_ack_log _ IT); exact Hack|].
    eapply unlinked_log_dead; eauto. apply (it_unl _ IT); exact Hunl.
Qed.
