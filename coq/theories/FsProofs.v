(* FsProofs.v -- the theorems about FsModel.v (record-level file / crash model):
   under the protocol rules R0..R7 ([wf_protocol])
     C17b  CURRENT always names a complete MANIFEST        (C17_current_complete)
     C05   recovery is total, drops at most a tail per log (C05_recovery_total_and_tail_only)
     C02   sync-acknowledged batches survive power loss    (C02_synced_durable, C02_database_exists)
     C03   a process crash loses nothing                   (C03_process_crash)
   by induction over the trace with the invariants Inv_struct (FsInv.v),
   Inv_dur (FsDur.v: every admissible namespace cut is [Good]) and Inv_trace
   (FsAck.v: logs, acknowledgements, flush watermark).

   STAGES.  Every theorem covers ALL traces accepted by [wf_protocol]: Stage A
   (create log, append batch, sync, switch log, flush table, edit, unlink log with
   a single MANIFEST) AND Stage B (MANIFEST rollover at open, rule R4; compaction
   edits that replace tables).  No theorem is restricted to Stage A.
   What the record level says about a batch whose log is below the recovered
   log_number is [flushed]: when the edit that raised log_number was appended the
   batch was literally contained in the tables that edit adds (rule R5).  That
   later compactions preserve its effect is the business of the engine model
   (Engine.v), not of this file.
   The unlinked-log clause of C02 needs rule R3's "no rename of CURRENT is waiting
   for a directory fsync" (lcdb since /repo 0411e80, finding F5); the trace
   without that fsync is refuted by C02_unlink_before_dirsync_refuted.

   NOT PROVED here: idempotence of recovery (recovering again loses nothing
   further); a positional (event-index) characterisation of [acks] (the
   acknowledgement predicates are defined through the protocol state p_call). *)
From Coq Require Import Lia ZifyBool ZifyNat ZifyN.
From LCDB Require Import FsModel FsLemmas FsInv FsDur FsAck.
Local Open Scope N_scope.

(* ------------------------------------------------------------------ reading an image *)
Lemma read_tables_ok : forall img fs,
  (forall f, In f fs -> exists ents, iget img (FTable (snd f)) = Some [PTable ents]) ->
  exists tabs, read_tables img fs = Some tabs.
Proof.
  intros img fs; induction fs as [|[l n] r IH]; intro H; cbn [read_tables]; [eauto|].
  destruct (H (l, n) (or_introl eq_refl)) as [ents He]. cbn [snd] in He.
  unfold read_table; rewrite He.
  destruct IH as [tabs Ht]; [intros f Hf; apply H; right; exact Hf|]. rewrite Ht; eauto.
Qed.

Lemma read_logs_ok : forall img ns,
  (forall n, In n ns -> exists recs bs, iget img (FLog n) = Some recs /\ batches_of recs = Some bs) ->
  exists segs, read_logs img ns = Some segs /\ map fst segs = ns /\
    forall n bs, In (n, bs) segs -> exists recs, iget img (FLog n) = Some recs /\ batches_of recs = Some bs.
Proof.
  intros img ns; induction ns as [|n r IH]; intro H; cbn [read_logs].
  - exists []; repeat split; intros; contradiction.
  - destruct (H n (or_introl eq_refl)) as [recs [bs [Hr Hb]]]. rewrite Hr, Hb.
    destruct IH as [segs [Hs [Hm Hall]]]; [intros n' Hn'; apply H; right; exact Hn'|]. rewrite Hs.
    exists ((n, bs) :: segs). split; [reflexivity|split; [cbn; f_equal; exact Hm|]].
    intros n' bs' [E|Hin]; [injection E as <- <-; eauto|apply Hall; exact Hin].
Qed.

Lemma read_logs_fun : forall img ns (B : N -> list brec),
  (forall n, In n ns -> exists recs, iget img (FLog n) = Some recs /\ batches_of recs = Some (B n)) ->
  read_logs img ns = Some (map (fun n => (n, B n)) ns).
Proof.
  intros img ns B; induction ns as [|n r IH]; intro H; cbn [read_logs map]; [reflexivity|].
  destruct (H n (or_introl eq_refl)) as [recs [Hr Hb]]. rewrite Hr, Hb, IH; [reflexivity|].
  intros n' Hn'; apply H; right; exact Hn'.
Qed.

Lemma replay_prev : forall eds, Forall prev_ok eds -> mv_prev (replay eds) = None \/ mv_prev (replay eds) = Some 0.
Proof.
  intro eds; induction eds as [|e eds IH] using rev_ind; intro H; [left; reflexivity|].
  apply Forall_app in H. destruct H as [H1 H2]. inversion H2 as [|? ? Hp _]; subst.
  rewrite replay_snoc. cbn [apply_edit mv_prev]. destruct Hp as [-> | ->]; cbn [or_else]; auto.
Qed.

Lemma Forall_firstn : forall {A} (P : A -> Prop) l k, Forall P l -> Forall P (firstn k l).
Proof.
  intros A P l k H. rewrite Forall_forall in H |- *. intros x Hx; apply H. eapply in_firstn_in; exact Hx.
Qed.

(* admissible cuts of the files *)
Definition cut_ok (d : disk) (cut : nat -> nat) : Prop :=
  forall o x, nth_error (d_objs d) o = Some x -> (o_synced x <= cut o <= length (o_recs x))%nat.

Lemma firstn_one : forall {A} (x : A) c, (1 <= c)%nat -> firstn c [x] = [x].
Proof. intros A x c H; destruct c; [lia|]. cbn [firstn]. rewrite firstn_nil; reflexivity. Qed.

(* ------------------------------------------------------------------ recovery from a good cut *)
Record recovered (p : pstate) (k : nat) (cut : nat -> nat) (s : rstate) : Prop := {
  rc_view : exists c M xM eds, view (p_disk p) k c (r_manifest s) M xM /\
      edits_of (o_recs xM) = Some eds /\ In (replay (firstn (cut M) eds)) (exposed xM) /\
      r_files s = mv_files (replay (firstn (cut M) eds)) /\
      mv_log (replay (firstn (cut M) eds)) = Some (r_log s);
  rc_prev : r_prev s = 0;
  rc_nums : map fst (r_segs s) =
      filter (fun n => (r_log s <=? n) || (n =? 0)) (image_logs (image_of (p_disk p) k cut));
  rc_segs : forall n bs, In (n, bs) (r_segs s) ->
      exists o x bsall, nsk (p_disk p) k (FLog n) = Some o /\ nth_error (d_objs (p_disk p)) o = Some x /\
        batches_of (o_recs x) = Some bsall /\ bs = firstn (cut o) bsall }.

Lemma ifile_log : forall p k cut n recs, Inv_struct p -> ifile (p_disk p) k cut (FLog n) = Some recs ->
  exists o x bsall, nsk (p_disk p) k (FLog n) = Some o /\ nth_error (d_objs (p_disk p)) o = Some x /\
    batches_of (o_recs x) = Some bsall /\ recs = firstn (cut o) (o_recs x).
Proof.
  intros p k cut n recs IS H. unfold ifile in H.
  destruct (nsk (p_disk p) k (FLog n)) as [o|] eqn:Hb; [|discriminate].
  destruct (nth_error (d_objs (p_disk p)) o) as [x|] eqn:Hx; [|discriminate]. injection H as <-.
  destruct (proj1 (nsk_created _ _ _ _ _ (is_ops _ IS) Hb)) as [i [_ Hc]]; [discriminate|].
  destruct (is_typed _ IS _ _ _ _ Hc Hx) as [[bs Hbs] _]. exists o, x, bs. auto.
Qed.

Theorem recover_good : forall p k cut c, Inv_dur p -> admissible (p_disk p) k -> cut_ok (p_disk p) cut ->
  nsk (p_disk p) k FCurrent = Some c ->
  exists s, recover (image_of (p_disk p) k cut) = Some s /\ recovered p k cut s.
Proof.
  intros p k cut c I A Hcut Hc. pose proof (id_struct _ I) as IS.
  destruct (proj1 (Good_view _ _) (id_good _ I k A) c Hc) as [m [M [xM [V Hms]]]].
  pose proof V as [V1 [V2 [V3 V4]]].
  destruct (view_manifest_typed _ _ _ _ _ _ IS V) as [eds [He [Hs Hp]]].
  set (img := image_of (p_disk p) k cut).
  assert (Hcur : iget img FCurrent = Some [PCurrent m]).
  { unfold img; rewrite iget_image_of. unfold ifile. rewrite V1, V2. cbn [o_recs].
    pose proof (Hcut _ _ V2) as Hc2. cbn [o_synced o_recs length] in Hc2. rewrite firstn_one by lia. reflexivity. }
  assert (Hman : iget img (FManifest m) = Some (firstn (cut M) (o_recs xM))).
  { unfold img; rewrite iget_image_of. unfold ifile. rewrite V3, V4. reflexivity. }
  pose proof (Hcut _ _ V4) as HcM. rewrite <- (edits_of_length _ _ He) in HcM.
  set (ms := replay (firstn (cut M) eds)).
  assert (Hexp : In ms (exposed xM)).
  { apply (in_exposed _ _ _ He Hs). exists (cut M). split; [lia|reflexivity]. }
  destruct (Hms _ Hexp) as [G1 [G2 G3]].
  unfold manifest_ok in G1.
  destruct (mv_next ms) as [nx|] eqn:Enx; [|discriminate].
  destruct (mv_log ms) as [lg|] eqn:Elg; [|discriminate].
  destruct (mv_last ms) as [ls|] eqn:Els; [|discriminate].
  assert (Hpv : match mv_prev ms with Some pv => pv | None => 0 end = 0).
  { destruct (replay_prev _ (Forall_firstn _ _ (cut M) Hp)) as [E|E]; fold ms in E; rewrite E; reflexivity. }
  destruct (read_tables_ok img (mv_files ms)) as [tabs Htabs].
  { intros f Hf. destruct (G2 f Hf) as [o [ents [Hb Hx]]]. exists ents.
    unfold img; rewrite iget_image_of. unfold ifile. rewrite Hb, Hx. cbn [o_recs].
    pose proof (Hcut _ _ Hx) as Hc2. cbn [o_synced o_recs length] in Hc2. rewrite firstn_one by lia. reflexivity. }
  set (nums := filter (fun n => (lg <=? n) || (n =? 0)) (image_logs img)).
  destruct (read_logs_ok img nums) as [segs [Hsegs [Hfst Hall]]].
  { intros n Hn. unfold nums in Hn. apply filter_In in Hn. destruct Hn as [Hn _].
    apply in_image_logs in Hn. destruct Hn as [recs Hr]. exists recs.
    unfold img in Hr; rewrite iget_image_of in Hr.
    destruct (ifile_log _ _ _ _ _ IS Hr) as [o [x [bs [_ [_ [Hb ->]]]]]].
    exists (firstn (cut o) bs). split; [unfold img; rewrite iget_image_of; exact Hr|].
    apply batches_of_firstn; exact Hb. }
  eexists. split.
  - unfold recover. fold img. rewrite Hcur, Hman, (edits_of_firstn _ _ _ He). fold ms.
    rewrite Enx, Elg, Els, Htabs, Hpv. fold nums. rewrite Hsegs. reflexivity.
  - constructor; cbn [r_manifest r_files r_log r_prev r_segs].
    + exists c, M, xM, eds. fold ms. auto.
    + reflexivity.
    + exact Hfst.
    + intros n bs Hin. destruct (Hall _ _ Hin) as [recs [Hr Hb]].
      unfold img in Hr; rewrite iget_image_of in Hr.
      destruct (ifile_log _ _ _ _ _ IS Hr) as [o [x [bsall [H1 [H2 [H3 ->]]]]]].
      exists o, x, bsall. repeat split; auto.
      rewrite (batches_of_firstn _ _ (cut o) H3) in Hb. injection Hb as <-. reflexivity.
Qed.

(* ------------------------------------------------------------------ what a successful recovery read *)
Lemma recover_inv : forall img s, recover img = Some s ->
  iget img FCurrent = Some [PCurrent (r_manifest s)] /\ complete_manifest img (r_manifest s).
Proof.
  intros img s H. unfold recover in H.
  destruct (iget img FCurrent) as [l|] eqn:Ec; [|discriminate].
  destruct l as [|r1 l]; [discriminate|]. destruct r1; try discriminate. destruct l; [|discriminate].
  destruct (iget img (FManifest m)) as [recs|] eqn:Em; [|discriminate].
  destruct (edits_of recs) as [eds|] eqn:Ee; [|discriminate].
  destruct (mv_next (replay eds)) as [nx|] eqn:E1; [|discriminate].
  destruct (mv_log (replay eds)) as [lg|] eqn:E2; [|discriminate].
  destruct (mv_last (replay eds)) as [ls|] eqn:E3; [|discriminate].
  destruct (read_tables img (mv_files (replay eds))) as [tabs|] eqn:Et; [|discriminate].
  destruct (read_logs img _) as [segs|]; [|discriminate].
  injection H as <-. cbn [r_manifest]. split; [reflexivity|].
  exists recs, eds. split; [exact Em|split; [exact Ee|split]].
  - unfold manifest_ok. rewrite E1, E2, E3. reflexivity.
  - rewrite Et; discriminate.
Qed.

Lemma crash_image_cut : forall tr img, crash_image tr img ->
  exists k cut, admissible (fs_run tr) k /\ cut_ok (fs_run tr) cut /\ img = image_of (fs_run tr) k cut.
Proof. intros tr img [k [cut [H1 [H2 H3]]]]. exists k, cut. auto. Qed.

Lemma iget_current_none : forall d k cut, nsk d k FCurrent = None -> iget (image_of d k cut) FCurrent = None.
Proof. intros d k cut H. rewrite iget_image_of. unfold ifile. rewrite H. reflexivity. Qed.

Lemma iget_current_some : forall d k cut, iget (image_of d k cut) FCurrent <> None -> exists c, nsk d k FCurrent = Some c.
Proof.
  intros d k cut H. destruct (nsk d k FCurrent) as [c|] eqn:E; [eauto|].
  exfalso; apply H. apply iget_current_none; exact E.
Qed.

(* every crash image with a CURRENT file recovers *)
Lemma crash_recovers : forall tr, wf_protocol tr = true -> forall img, crash_image tr img ->
  iget img FCurrent <> None ->
  exists k cut s, admissible (fs_run tr) k /\ cut_ok (fs_run tr) cut /\ img = image_of (fs_run tr) k cut /\
    recover img = Some s /\ recovered (prun tr) k cut s.
Proof.
  intros tr Hwf img Hc Hcur. destruct (crash_image_cut _ _ Hc) as [k [cut [A [Hcut ->]]]].
  destruct (iget_current_some _ _ _ Hcur) as [c Hb].
  pose proof (Inv_dur_run _ Hwf) as I.
  destruct (recover_good (prun tr) k cut c I) as [s [Hr Hrec]]; rewrite ?prun_disk; auto.
  rewrite prun_disk in Hr. exists k, cut, s. auto.
Qed.

(* ------------------------------------------------------------------ C17b *)
Theorem C17_current_complete : forall tr, wf_protocol tr = true ->
  forall p img, crash_image (firstn p tr) img ->
  iget img FCurrent = None \/
  exists m, iget img FCurrent = Some [PCurrent m] /\ complete_manifest img m.
Proof.
  intros tr Hwf p img Hc. pose proof (wf_protocol_firstn _ p Hwf) as Hwf'.
  destruct (iget img FCurrent) as [l|] eqn:E; [|left; reflexivity]. right.
  destruct (crash_recovers _ Hwf' _ Hc) as [k [cut [s [_ [_ [_ [Hr _]]]]]]]; [congruence|].
  destruct (recover_inv _ _ Hr) as [H1 H2]. exists (r_manifest s). rewrite <- E. auto.
Qed.

(* ------------------------------------------------------------------ C05 *)
Lemma seg_is_log_prefix : forall tr k cut s, wf_protocol tr = true -> recovered (prun tr) k cut s ->
  forall n bs, In (n, bs) (r_segs s) ->
    exists o x, nsk (fs_run tr) k (FLog n) = Some o /\ nth_error (d_objs (fs_run tr)) o = Some x /\
      batches_of (o_recs x) = Some (log_batches tr n) /\ bs = firstn (cut o) (log_batches tr n).
Proof.
  intros tr k cut s Hwf R n bs Hin.
  pose proof (id_struct _ (Inv_dur_run _ Hwf)) as IS. pose proof (Inv_trace_run _ Hwf) as IT.
  destruct (rc_segs _ _ _ _ R _ _ Hin) as [o [x [bsall [Hb [Hx [Hbs ->]]]]]].
  destruct (proj1 (nsk_created _ _ _ _ _ (is_ops _ IS) Hb)) as [i [_ Hc]]; [discriminate|].
  pose proof (in_logs_of_created _ _ _ _ IS Hc) as Hk.
  apply in_map_iff in Hk. destruct Hk as [[n' bs'] [En Hin']]. cbn [fst] in En; subst n'.
  pose proof (is_logs_recs _ IS _ _ _ _ _ Hin' Hc Hx) as Hrecs. rewrite Hbs in Hrecs. injection Hrecs as ->.
  rewrite (it_logs _ IT _ _ Hin') in *. rewrite prun_disk in *. exists o, x. auto.
Qed.

Lemma recovered_log_le_cov : forall tr k cut s, wf_protocol tr = true -> recovered (prun tr) k cut s ->
  r_log s <= p_cov (prun tr).
Proof.
  intros tr k cut s Hwf R. destruct (rc_view _ _ _ _ R) as [c [M [xM [eds [V [He [Hexp [_ Hl]]]]]]]].
  destruct V as [_ [_ [_ V4]]]. eapply exposed_log_le_cov; eauto using Inv_dur_run.
Qed.

Theorem C05_recovery_total_and_tail_only : forall tr, wf_protocol tr = true ->
  forall p img, crash_image (firstn p tr) img -> iget img FCurrent <> None ->
  exists s, recover img = Some s /\ per_segment_prefix (firstn p tr) s /\
    (forall n b, In b (log_batches (firstn p tr) n) -> n < r_log s -> flushed (firstn p tr) b).
Proof.
  intros tr Hwf p img Hc Hcur. pose proof (wf_protocol_firstn _ p Hwf) as Hwf'.
  destruct (crash_recovers _ Hwf' _ Hc Hcur) as [k [cut [s [A [Hcut [-> [Hr R]]]]]]].
  exists s. split; [exact Hr|split; [split; [|split]|]].
  - intros n bs Hin. destruct (seg_is_log_prefix _ _ _ _ Hwf' R _ _ Hin) as [o [x [_ [_ [_ ->]]]]]. eauto.
  - rewrite (rc_nums _ _ _ _ R). apply sorted_filter. apply sort_N_sorted.
  - intros n Hn. rewrite (rc_nums _ _ _ _ R) in Hn. apply filter_In in Hn. destruct Hn as [_ Hn].
    apply orb_true_iff in Hn. destruct Hn as [Hn|Hn].
    + left. apply N.leb_le; exact Hn.
    + right. rewrite (rc_prev _ _ _ _ R). apply N.eqb_eq; exact Hn.
  - intros n b Hb Hn. pose proof (Inv_trace_run _ Hwf') as IT.
    pose proof (recovered_log_le_cov _ _ _ _ Hwf' R) as Hle.
    destruct (in_dec N.eq_dec n (map fst (p_logs (prun (firstn p tr))))) as [Hk|Hk].
    + apply in_map_iff in Hk. destruct Hk as [[n' bs] [En Hin]]. cbn [fst] in En; subst n'.
      eapply (it_flushed _ IT); [exact Hin|lia|]. rewrite (it_logs _ IT _ _ Hin). exact Hb.
    + rewrite (it_nologs _ IT _ Hk) in Hb. contradiction.
Qed.

(* ------------------------------------------------------------------ C02 *)
(* a created log is in the cut unless it has been unlinked before the cut *)
Lemma nsk_log_bound_or_unlinked : forall d nobj i n o, ops_wf (d_ops d) nobj ->
  created_at d i (FLog n) o -> forall k, (i < k)%nat -> (k <= length (d_ops d))%nat ->
  nsk d k (FLog n) = Some o \/ exists u, (i < u < k)%nat /\ nth_error (d_ops d) u = Some (DUnlink (FLog n)).
Proof.
  intros d nobj i n o W Hc k; induction k as [|k IH]; intros H1 H2; [lia|].
  destruct (Nat.eq_dec i k) as [->|Hne].
  - left. rewrite (nsk_S _ _ _ Hc). cbn [ns_apply]. rewrite fname_eqb_refl. reflexivity.
  - destruct IH as [IH|[u [Hu1 Hu2]]]; try lia.
    2:{ right. exists u. split; [lia|exact Hu2]. }
    destruct (nth_error (d_ops d) k) as [op|] eqn:Eop; [|apply nth_error_None in Eop; lia].
    rewrite (nsk_S _ _ _ Eop).
    destruct op as [g o'|a b|g]; cbn [ns_apply].
    + destruct (fname_eqb (FLog n) g) eqn:E; [|left; exact IH].
      apply fname_eqb_eq in E; subst g.
      assert (i = k) by (eapply create_unique_pos; [apply (ow_nodup _ _ W)|exact Hc|exact Eop]). lia.
    + destruct (ops_wf_ren_nth _ _ _ _ _ W Eop) as [[t ->] ->].
      destruct (nsk d k (FTmp t)); [|left; exact IH]. cbn [fname_eqb]. left; exact IH.
    + destruct (fname_eqb (FLog n) g) eqn:E; [|left; exact IH].
      apply fname_eqb_eq in E; subst g. right. exists k. split; [lia|exact Eop].
Qed.

Lemma in_firstn_nth_error : forall {A} (l : list A) j c x, nth_error l j = Some x -> (j < c)%nat -> In x (firstn c l).
Proof.
  intros A l; induction l as [|y r IH]; intros j c x H Hj; [destruct j; discriminate|].
  destruct c; [lia|]. destruct j; cbn in H |- *.
  - injection H as ->; left; reflexivity.
  - right; eapply IH; eauto. lia.
Qed.

(* an unlinked log is below every recoverable log_number *)
Lemma unlinked_log_dead : forall tr k cut s n, recovered (prun tr) k cut s ->
  Inv_dur (prun tr) -> admissible (fs_run tr) k ->
  In (DUnlink (FLog n)) (d_ops (fs_run tr)) -> n < r_log s.
Proof.
  intros tr k cut s n R I A Hin. destruct (rc_view _ _ _ _ R) as [c [M [xM [eds [V [He [Hexp [_ Hl]]]]]]]].
  rewrite <- prun_disk in A, Hin.
  destruct (proj1 (Good_view _ _) (id_good _ I k A) c (proj1 V)) as [m' [M' [xM' [V' Hms]]]].
  destruct (view_fun _ _ _ _ _ _ _ _ _ _ V V') as [_ [_ [_ <-]]].
  destruct (Hms _ Hexp) as [_ [_ G3]]. specialize (G3 n Hin). unfold log_dead in G3. rewrite Hl in G3.
  apply N.ltb_lt; exact G3.
Qed.

Theorem C02_synced_durable : forall tr, wf_protocol tr = true ->
  forall p img, crash_image (firstn p tr) img -> iget img FCurrent <> None ->
  exists s, recover img = Some s /\
    forall id b, acked_sync_before tr p id b \/ acked_and_log_unlinked_before tr p id b ->
                 applied (firstn p tr) s b.
Proof.
  intros tr Hwf p img Hc Hcur. pose proof (wf_protocol_firstn _ p Hwf) as Hwf'.
  destruct (crash_recovers _ Hwf' _ Hc Hcur) as [k [cut [s [A [Hcut [-> [Hr R]]]]]]].
  exists s. split; [exact Hr|].
  set (tr' := firstn p tr) in *.
  pose proof (Inv_dur_run _ Hwf') as I. pose proof (id_struct _ I) as IS. pose proof (Inv_trace_run _ Hwf') as IT.
  pose proof (is_ops _ IS) as W. rewrite prun_disk in W.
  intros id b [[n Hack]|[n [sy [Hack Hunl]]]].
  - (* sync-acknowledged *)
    destruct (it_dur _ IT _ _ _ Hack) as [i [o [x [j [Hcr [Hx [Hj Hn]]]]]]].
    assert (Hi : (i < k)%nat).
    { rewrite <- prun_disk in Hcr, Hx. destruct (is_typed _ IS _ _ _ _ Hcr Hx) as [_ [_ S2]].
      specialize (S2 ltac:(lia)). destruct A as [A1 _]. rewrite <- prun_disk in A1. lia. }
    destruct (nsk_log_bound_or_unlinked _ _ _ _ _ W Hcr k Hi (proj2 A)) as [Hb|[u [Hu1 Hu2]]].
    + destruct (N.leb_spec (r_log s) n) as [Hle|Hlt].
      * left. (* the log is replayed, at least up to its fsynced prefix *)
        assert (Hnum : In n (map fst (r_segs s))).
        { rewrite (rc_nums _ _ _ _ R). apply filter_In. split.
          - apply in_image_logs. rewrite prun_disk, iget_image_of. unfold ifile. rewrite Hb, Hx. eauto.
          - apply orb_true_iff; left. apply N.leb_le; exact Hle. }
        apply in_map_iff in Hnum. destruct Hnum as [[n' bs] [En Hin]]. cbn [fst] in En; subst n'.
        destruct (seg_is_log_prefix _ _ _ _ Hwf' R _ _ Hin) as [o' [x' [Hb' [Hx' [_ ->]]]]].
        rewrite Hb in Hb'. injection Hb' as <-. rewrite Hx in Hx'. injection Hx' as <-.
        unfold applied_batches. apply in_flat_map. exists (n, firstn (cut o) (log_batches tr' n)). split; [exact Hin|].
        cbn [snd]. eapply in_firstn_nth_error; [exact Hn|]. pose proof (Hcut _ _ Hx). lia.
      * right. exists n. split; [eapply nth_error_In; exact Hn|exact Hlt].
    + right. exists n. split; [eapply nth_error_In; exact Hn|].
      eapply unlinked_log_dead; eauto. eapply nth_error_In; exact Hu2.
  - (* the log that held it has been unlinked *)
    right. exists n. split; [eapply (it_ack_log _ IT); exact Hack|].
    eapply unlinked_log_dead; eauto. apply (it_unl _ IT); exact Hunl.
Qed.

(* ------------------------------------------------------------------ C03 *)
Lemma sorted_ext : forall l1 l2 : list N, StronglySorted N.lt l1 -> StronglySorted N.lt l2 ->
  (forall x, In x l1 <-> In x l2) -> l1 = l2.
Proof.
  intros l1; induction l1 as [|a r1 IH]; intros l2 H1 H2 Hext.
  - destruct l2 as [|b r2]; [reflexivity|]. exfalso. apply (proj2 (Hext b)). left; reflexivity.
  - destruct l2 as [|b r2]; [exfalso; apply (proj1 (Hext a)); left; reflexivity|].
    inversion H1 as [|? ? S1 F1]; subst. inversion H2 as [|? ? S2 F2]; subst.
    rewrite Forall_forall in F1, F2.
    assert (a = b).
    { destruct (proj1 (Hext a) (or_introl eq_refl)) as [E|Ha]; [congruence|].
      destruct (proj2 (Hext b) (or_introl eq_refl)) as [E|Hb]; [congruence|].
      specialize (F1 _ Hb). specialize (F2 _ Ha). lia. }
    subst b. f_equal. apply IH; [exact S1|exact S2|].
    intro x; split; intro Hx.
    + destruct (proj1 (Hext x) (or_intror Hx)) as [E|H]; [|exact H]. subst x. specialize (F1 _ Hx). lia.
    + destruct (proj2 (Hext x) (or_intror Hx)) as [E|H]; [|exact H]. subst x. specialize (F2 _ Hx). lia.
Qed.

Lemma pairs_by_key : forall {B} (l : list (N * B)) (F : N -> B),
  (forall n b, In (n, b) l -> b = F n) -> l = map (fun n => (n, F n)) (map fst l).
Proof.
  intros B l F; induction l as [|[n b] r IH]; intro H; cbn [map fst]; [reflexivity|].
  f_equal; [f_equal; apply H; left; reflexivity|apply IH; intros; apply H; right; assumption].
Qed.

Lemma sorted_split : forall (l : list N) L, StronglySorted N.lt l ->
  l = filter (fun n => n <? L) l ++ filter (fun n => L <=? n) l.
Proof.
  intros l L H; induction H as [|a r S IH F]; [reflexivity|]. cbn [filter].
  destruct (a <? L) eqn:E1.
  - apply N.ltb_lt in E1. assert (E2 : (L <=? a) = false) by (apply N.leb_gt; exact E1). rewrite E2.
    cbn [app]. f_equal. exact IH.
  - apply N.ltb_ge in E1. assert (E2 : (L <=? a) = true) by (apply N.leb_le; exact E1). rewrite E2.
    assert (Hnone : filter (fun n => n <? L) r = []).
    { clear -F E1. induction r as [|b r IH]; [reflexivity|]. inversion F; subst. cbn [filter].
      assert ((b <? L) = false) by (apply N.ltb_ge; lia). rewrite H. apply IH; assumption. }
    rewrite Hnone. cbn [app]. f_equal.
    clear -F E1. induction r as [|b r IH]; [reflexivity|]. inversion F; subst. cbn [filter].
    assert ((L <=? b) = true) by (apply N.leb_le; lia). rewrite H. f_equal. apply IH; assumption.
Qed.

Lemma obj_synced_le : forall p o x, Inv_struct p -> nth_error (d_objs (p_disk p)) o = Some x ->
  (o_synced x <= length (o_recs x))%nat.
Proof.
  intros p o x IS Hx. pose proof (is_ops _ IS) as W.
  assert (In o (create_ids (d_ops (p_disk p)))).
  { rewrite (ow_ids _ _ W). apply in_seq. split; [lia|]. cbn. apply nth_error_Some; congruence. }
  apply in_create_ids in H. destruct H as [f Hin]. apply In_nth_error in Hin. destruct Hin as [i Hi].
  apply (is_typed _ IS i f o x Hi Hx).
Qed.

Lemma flat_map_map_key : forall (F : N -> list brec) (l : list N),
  flat_map snd (map (fun n => (n, F n)) l) = flat_map F l.
Proof. intros F l; induction l as [|a r IH]; cbn; [reflexivity|rewrite IH; reflexivity]. Qed.

Theorem C03_process_crash : forall tr, wf_protocol tr = true -> forall p,
  iget (written_image (firstn p tr)) FCurrent <> None ->
  exists s old, recover (written_image (firstn p tr)) = Some s /\
    Forall (fun b => flushed (firstn p tr) b /\
                     exists n, In b (log_batches (firstn p tr) n) /\ n < r_log s) old /\
    (old ++ applied_batches s = acked_before tr p \/
     exists b, in_flight tr p b /\ old ++ applied_batches s = acked_before tr p ++ [b]).
Proof.
  intros tr Hwf p Hcur. pose proof (wf_protocol_firstn _ p Hwf) as Hwf'.
  unfold acked_before, in_flight. set (tr' := firstn p tr) in *.
  pose proof (Inv_dur_run _ Hwf') as I. pose proof (id_struct _ I) as IS. pose proof (Inv_trace_run _ Hwf') as IT.
  pose proof (is_ops _ IS) as W. rewrite prun_disk in W.
  set (d := fs_run tr') in *. set (len := length (d_ops d)).
  assert (A : admissible d len).
  { split; [|unfold len; lia]. pose proof (is_dsync _ IS) as Hd. rewrite prun_disk in Hd. exact Hd. }
  assert (Hcut : cut_ok d (cut_written d)).
  { intros o x Hx. unfold cut_written. rewrite Hx. split; [|lia].
    apply (obj_synced_le (prun tr') o x); [exact IS|rewrite prun_disk; exact Hx]. }
  unfold written_image in Hcur |- *. fold d len in Hcur |- *.
  destruct (iget_current_some _ _ _ Hcur) as [c Hb].
  destruct (recover_good (prun tr') len (cut_written d) c I) as [s [Hr R]]; rewrite ?prun_disk; auto.
  rewrite prun_disk in Hr. fold d in Hr.
  set (L := r_log s). set (K := map fst (p_logs (prun tr'))).
  set (F := log_batches tr').
  assert (HK : StronglySorted N.lt K /\ Forall (N.lt 0) K).
  { pose proof (is_logs_sorted _ IS) as Hs. inversion Hs; subst. split; assumption. }
  destruct HK as [HKs HK0].
  (* the replayed logs are exactly the created logs at or above log_number *)
  assert (Hnums : map fst (r_segs s) = filter (fun n => L <=? n) K).
  { rewrite (rc_nums _ _ _ _ R). rewrite prun_disk. fold d L.
    apply sorted_ext; [apply sorted_filter, sort_N_sorted|apply sorted_filter; exact HKs|].
    intro n. rewrite !filter_In, in_image_logs, iget_image_of. split.
    - intros [[recs Hrecs] Hn].
      destruct (ifile_log (prun tr') len (cut_written d) n recs IS) as [o [x [bs [Hbo [_ _]]]]]; [rewrite prun_disk; exact Hrecs|].
      rewrite prun_disk in Hbo. fold d in Hbo.
      destruct (proj1 (nsk_created _ _ _ _ _ W Hbo)) as [i [_ Hc]]; [discriminate|].
      assert (HnK : In n K). { unfold K. eapply in_logs_of_created; [exact IS|rewrite prun_disk; exact Hc]. }
      split; [exact HnK|]. apply orb_true_iff in Hn. destruct Hn as [Hn|Hn]; [exact Hn|].
      apply N.eqb_eq in Hn. subst n. rewrite Forall_forall in HK0. specialize (HK0 _ HnK). lia.
    - intros [HnK Hn]. split; [|rewrite Hn; reflexivity].
      destruct (in_logs_created _ _ IS HnK) as [i [o Hc]]. rewrite prun_disk in Hc. fold d in Hc.
      assert (Hi : (i < len)%nat) by (apply nth_error_Some; unfold created_at in Hc; congruence).
      destruct (nsk_log_bound_or_unlinked _ _ _ _ _ W Hc len Hi (Nat.le_refl _)) as [Hbo|[u [_ Hu]]].
      + pose proof (created_at_lt _ _ _ _ _ W Hc) as Hlt.
        destruct (nth_error (d_objs d) o) as [x|] eqn:Ex; [|apply nth_error_None in Ex; lia].
        unfold ifile. rewrite Hbo, Ex. eauto.
      + exfalso. assert (n < L) by (eapply unlinked_log_dead; eauto using nth_error_In).
        apply N.leb_le in Hn. lia. }
  (* every replayed log is replayed completely *)
  assert (Hsegs : r_segs s = map (fun n => (n, F n)) (filter (fun n => L <=? n) K)).
  { rewrite <- Hnums. apply pairs_by_key. intros n bs Hin.
    destruct (seg_is_log_prefix _ _ _ _ Hwf' R _ _ Hin) as [o [x [_ [Hx [Hbs ->]]]]].
    fold d in Hx. unfold cut_written. rewrite Hx. rewrite <- (batches_of_length _ _ Hbs). apply firstn_all. }
  assert (Hlogs : p_logs (prun tr') = map (fun n => (n, F n)) K).
  { apply pairs_by_key. intros n bs Hin. apply (it_logs _ IT); exact Hin. }
  set (old := flat_map F (filter (fun n => n <? L) K)).
  assert (Hsplit : logged tr' = old ++ applied_batches s).
  { rewrite (it_logged _ IT), Hlogs, flat_map_map_key. unfold applied_batches. rewrite Hsegs, flat_map_map_key.
    unfold old. rewrite <- flat_map_app. f_equal. apply sorted_split; exact HKs. }
  exists s, old. split; [exact Hr|split].
  - apply Forall_forall. intros b Hbo. unfold old in Hbo. apply in_flat_map in Hbo.
    destruct Hbo as [n [Hn Hbn]]. apply filter_In in Hn. destruct Hn as [HnK Hn]. apply N.ltb_lt in Hn.
    split; [|exists n; split; [exact Hbn|exact Hn]].
    apply in_map_iff in HnK. destruct HnK as [[n' bs] [En Hin]]. cbn [fst] in En; subst n'.
    pose proof (recovered_log_le_cov _ _ _ _ Hwf' R) as Hle. fold L in Hle.
    eapply (it_flushed _ IT); [exact Hin|lia|]. rewrite (it_logs _ IT _ _ Hin). exact Hbn.
  - rewrite <- Hsplit, <- (it_acks _ IT).
    destruct (p_call (prun tr')) as [[[[id ops] sy] [[n sq]|]]|] eqn:Ec; cbn [pending].
    + right. exists (sq, ops). split; [exists id, sy, n; reflexivity|reflexivity].
    + left. apply app_nil_r.
    + left. apply app_nil_r.
Qed.

(* ------------------------------------------------------------------ the test enumerator is sound *)
Lemma run_shape : forall tr,
  (d_dsync (fs_run tr) <= length (d_ops (fs_run tr)))%nat /\
  forall o x, nth_error (d_objs (fs_run tr)) o = Some x -> (o_synced x <= length (o_recs x))%nat.
Proof.
  intro tr; induction tr as [|e tr [IH1 IH2]] using rev_ind; [split; [cbn; lia|intros o x H; destruct o; discriminate]|].
  rewrite fs_run_snoc. set (d := fs_run tr) in *.
  destruct e as [f|f pl| | |a b|f|id b sy|id ok]; cbn [fs_step];
    try (destruct (ns_lookup d _) as [o'|] eqn:El); cbn [d_dsync d_ops d_objs];
    rewrite ?app_length; cbn [length]; (split; [lia|]); try exact IH2.
  - intros o x H. destruct (nth_snoc_inv _ _ _ _ H) as [Hold|[_ <-]]; [eauto|cbn; lia].
  - intros o x H. destruct (Nat.eq_dec o' o) as [->|Hne].
    + destruct (nth_error (d_objs d) o) as [x0|] eqn:E0.
      * rewrite (nth_error_upd_nth_eq _ _ _ _ E0) in H. injection H as <-.
        unfold obj_append; cbn [o_synced o_recs]. rewrite app_length; cbn [length]. specialize (IH2 _ _ E0). lia.
      * exfalso. assert (nth_error (upd_nth (d_objs d) o (obj_append pl)) o <> None) by congruence.
        apply nth_error_Some in H0. rewrite length_upd_nth in H0. apply nth_error_None in E0. lia.
    + rewrite nth_error_upd_nth_neq in H by exact Hne. eauto.
  - intros o x H. destruct (Nat.eq_dec o' o) as [->|Hne].
    + destruct (nth_error (d_objs d) o) as [x0|] eqn:E0.
      * rewrite (nth_error_upd_nth_eq _ _ _ _ E0) in H. injection H as <-.
        unfold obj_sync; cbn [o_synced o_recs]. lia.
      * exfalso. assert (nth_error (upd_nth (d_objs d) o obj_sync) o <> None) by congruence.
        apply nth_error_Some in H0. rewrite length_upd_nth in H0. apply nth_error_None in E0. lia.
    + rewrite nth_error_upd_nth_neq in H by exact Hne. eauto.
Qed.

Theorem rep_images_sound : forall tr img, In img (rep_images tr) -> crash_image tr img.
Proof.
  intros tr img H. destruct (run_shape tr) as [Hd Hs]. unfold rep_images in H.
  unfold crash_image. set (d := fs_run tr) in *.
  assert (Hk : forall k, In k (map (fun i => (d_dsync d + i)%nat) (seq 0 (S (length (d_ops d) - d_dsync d)))) ->
                 (d_dsync d <= k <= length (d_ops d))%nat).
  { intros k Hin. apply in_map_iff in Hin. destruct Hin as [i [<- Hi]]. apply in_seq in Hi. lia. }
  apply in_app_or in H. destruct H as [H|H]; [|apply in_app_or in H; destruct H as [H|H]].
  - apply in_map_iff in H. destruct H as [k [<- Hin]]. exists k, (cut_synced d). split; [apply Hk; exact Hin|split; [|reflexivity]].
    intros o x Hx. unfold cut_synced. fold d. rewrite Hx. specialize (Hs _ _ Hx). lia.
  - apply in_map_iff in H. destruct H as [k [<- Hin]]. exists k, (cut_written d). split; [apply Hk; exact Hin|split; [|reflexivity]].
    intros o x Hx. unfold cut_written. fold d. rewrite Hx. specialize (Hs _ _ Hx). lia.
  - apply in_map_iff in H. destruct H as [o0 [<- Hin]]. exists (length (d_ops d)), (one_less d o0).
    split; [lia|split; [|reflexivity]].
    intros o x Hx. unfold one_less, cut_synced, cut_written. fold d. specialize (Hs _ _ Hx).
    destruct (Nat.eqb o o0) eqn:E.
    + apply Nat.eqb_eq in E; subst o0. rewrite Hx. lia.
    + rewrite Hx. lia.
Qed.

(* ------------------------------------------------------------------ the rules are necessary: refutations *)
(* Test data (hand-written traces shaped like lcdb's: create DB, reopen-style
   rollover to MANIFEST-2, one sync write, one plain write, then a flush / a
   second rollover done wrongly). *)
Definition ex_ed l p n s nw dl := mkMEdit nw dl l p n s.
Definition ex_open : list fev :=
  [ ECreate (FManifest 1); EAppend (FManifest 1) (PEdit (ex_ed (Some 0) None (Some 2) (Some 0) [] []));
    ESyncDir; ESync (FManifest 1);
    ECreate (FTmp 1); EAppend (FTmp 1) (PCurrent 1); ESync (FTmp 1); ERename (FTmp 1) FCurrent; ESyncDir;
    ECreate (FLog 3); ECreate (FManifest 2);
    EAppend (FManifest 2) (PEdit (ex_ed None None None None [] []));
    EAppend (FManifest 2) (PEdit (ex_ed (Some 3) (Some 0) (Some 4) (Some 0) [] []));
    ESyncDir; ESync (FManifest 2);
    ECreate (FTmp 2); EAppend (FTmp 2) (PCurrent 2); ESync (FTmp 2); ERename (FTmp 2) FCurrent; ESyncDir;
    EUnlink (FManifest 1) ].
Definition ex_w1 := [WPut [97] [1]].
Definition ex_w2 := [WPut [98] [2]; WDel [97]].
Definition ex_writes : list fev :=
  [ ECall 1 ex_w1 true; EAppend (FLog 3) (PBatch 1 ex_w1); ESync (FLog 3); EAck 1 true;
    ECall 2 ex_w2 false; EAppend (FLog 3) (PBatch 2 ex_w2); EAck 2 true ].
Definition ex_t := batch_entries 1 ex_w1 ++ batch_entries 2 ex_w2.
Definition ex_e6 := PEdit (ex_ed (Some 6) (Some 0) (Some 8) (Some 3) [(0%nat, 7)] []).

(* the protocol as lcdb performs it *)
Definition good_trace := ex_open ++ ex_writes ++
  [ ECreate (FLog 6); ECreate (FTable 7); EAppend (FTable 7) (PTable ex_t); ESync (FTable 7);
    EAppend (FManifest 2) ex_e6; ESyncDir; ESync (FManifest 2); EUnlink (FLog 3) ].
(* R2 violated: the table is not fsynced before the edit naming it *)
Definition bad_no_table_fsync := ex_open ++ ex_writes ++
  [ ECreate (FLog 6); ECreate (FTable 7); EAppend (FTable 7) (PTable ex_t);
    EAppend (FManifest 2) ex_e6; ESyncDir; ESync (FManifest 2); EUnlink (FLog 3) ].
(* R3 violated: the log is unlinked before the MANIFEST edit is fsynced *)
Definition bad_unlink_before_manifest_sync := ex_open ++ ex_writes ++
  [ ECreate (FLog 6); ECreate (FTable 7); EAppend (FTable 7) (PTable ex_t); ESync (FTable 7);
    EAppend (FManifest 2) ex_e6; EUnlink (FLog 3) ].
(* R4 violated: CURRENT is switched to a MANIFEST that is not fsynced *)
Definition bad_rename_before_manifest_sync := ex_open ++ ex_writes ++
  [ ECreate (FTable 5); EAppend (FTable 5) (PTable ex_t); ESync (FTable 5);
    ECreate (FLog 6); ECreate (FManifest 4);
    EAppend (FManifest 4) (PEdit (ex_ed None None None None [] []));
    EAppend (FManifest 4) (PEdit (ex_ed (Some 6) (Some 0) (Some 7) (Some 3) [(0%nat, 5)] []));
    ECreate (FTmp 4); EAppend (FTmp 4) (PCurrent 4); ESync (FTmp 4); ERename (FTmp 4) FCurrent; ESyncDir ].
(* finding F5 (lcdb before /repo 0411e80): the old log is unlinked right after
   the rename of CURRENT, without a directory fsync in between *)
Definition bad_unlink_before_dirsync := ex_open ++ ex_writes ++
  [ ECreate (FTable 5); EAppend (FTable 5) (PTable ex_t); ESync (FTable 5);
    ECreate (FLog 6); ECreate (FManifest 4);
    EAppend (FManifest 4) (PEdit (ex_ed None None None None [] []));
    EAppend (FManifest 4) (PEdit (ex_ed (Some 6) (Some 0) (Some 7) (Some 3) [(0%nat, 5)] []));
    ESyncDir; ESync (FManifest 4);
    ECreate (FTmp 4); EAppend (FTmp 4) (PCurrent 4); ESync (FTmp 4); ERename (FTmp 4) FCurrent;
    EUnlink (FManifest 2); EUnlink (FLog 3) ].

(* positive control: accepted, both calls acknowledged, and no representative
   crash image of any prefix loses the sync-acknowledged batch *)
Example good_trace_accepted :
  wf_protocol good_trace = true /\
  acks good_trace = [(1, true, 3, (1, ex_w1)); (2, false, 3, (2, ex_w2))] /\
  forallb (fun p => forallb (fun img => negb (lost_in img 3 (1, ex_w1)))
                            (rep_images (firstn p good_trace)))
          (seq 25 (length good_trace - 24)) = true.
Proof. vm_compute. repeat split. Qed.

Ltac refute_with i :=
  split; [vm_compute; reflexivity|split; [vm_compute; reflexivity|split; [vm_compute; tauto|]]];
  eexists (nth i (rep_images _) []); split;
  [apply rep_images_sound; apply nth_In; vm_compute; lia|vm_compute; reflexivity].

Example bad_trace_no_table_fsync_refuted :
  wf_protocol bad_no_table_fsync = false /\ first_violation bad_no_table_fsync = Some (2, 31) /\
  In (1, true, 3, (1, ex_w1)) (acks bad_no_table_fsync) /\
  exists img, crash_image bad_no_table_fsync img /\ lost_in img 3 (1, ex_w1) = true.
Proof. refute_with 0%nat. Qed.

Example bad_trace_unlink_before_manifest_sync_refuted :
  wf_protocol bad_unlink_before_manifest_sync = false /\
  first_violation bad_unlink_before_manifest_sync = Some (3, 33) /\
  In (1, true, 3, (1, ex_w1)) (acks bad_unlink_before_manifest_sync) /\
  exists img, crash_image bad_unlink_before_manifest_sync img /\ lost_in img 3 (1, ex_w1) = true.
Proof. refute_with 1%nat. Qed.

Example bad_trace_rename_before_manifest_sync_refuted :
  wf_protocol bad_rename_before_manifest_sync = false /\
  first_violation bad_rename_before_manifest_sync = Some (4, 38) /\
  In (1, true, 3, (1, ex_w1)) (acks bad_rename_before_manifest_sync) /\
  exists img, crash_image bad_rename_before_manifest_sync img /\ lost_in img 3 (1, ex_w1) = true.
Proof. refute_with 0%nat. Qed.

(* F5: what the missing directory fsync allowed.  The trace is rejected only by
   R3's "no pending rename" clause; the batch acknowledged WITHOUT sync whose
   log has been unlinked is lost in the crash image that keeps the old CURRENT. *)
Example C02_unlink_before_dirsync_refuted :
  wf_protocol bad_unlink_before_dirsync = false /\
  first_violation bad_unlink_before_dirsync = Some (3, 42) /\
  (In (2, false, 3, (2, ex_w2)) (acks bad_unlink_before_dirsync) /\
   In (EUnlink (FLog 3)) bad_unlink_before_dirsync) /\
  exists img, crash_image bad_unlink_before_dirsync img /\ lost_in img 3 (2, ex_w2) = true.
Proof.
  split; [vm_compute; reflexivity|split; [vm_compute; reflexivity|split; [vm_compute; tauto|]]].
  eexists (nth 0 (rep_images _) []); split;
  [apply rep_images_sound; apply nth_In; vm_compute; lia|vm_compute; reflexivity].
Qed.

(* lost_in is the negation of what C02 promises *)
Lemma lost_in_not_applied : forall tr img n b s, lost_in img n b = true -> recover img = Some s ->
  In b (log_batches tr n) -> (forall m, In b (log_batches tr m) -> m = n) -> ~ applied tr s b.
Proof.
  intros tr img n b s H Hr Hb Huniq [Hin|[m [Hm Hlt]]]; unfold lost_in in H; rewrite Hr in H;
    destruct (iget img FCurrent); try discriminate; apply andb_true_iff in H; destruct H as [H1 H2].
  - apply negb_true_iff in H1.
    assert (existsb (brec_eqb b) (applied_batches s) = true).
    { apply existsb_exists. exists b. split; [exact Hin|]. unfold brec_eqb. rewrite N.eqb_refl. cbn [andb].
      clear. induction (snd b) as [|w r IH]; [reflexivity|]. cbn [list_eqb]. rewrite IH, andb_true_r.
      destruct w; cbn [wop_eqb]; unfold bytes_eqb;
        repeat match goal with |- context [list_eqb N.eqb ?l ?l] =>
          replace (list_eqb N.eqb l l) with true by (clear; induction l as [|a l IHl]; [reflexivity|cbn [list_eqb]; rewrite N.eqb_refl, <- IHl; reflexivity]) end; reflexivity. }
    congruence.
  - rewrite (Huniq _ Hm) in Hlt. apply negb_true_iff, N.ltb_ge in H2. lia.
Qed.

(* ------------------------------------------------------------------ the database exists once a sync write is acknowledged *)
Lemma log_created_after_current : forall tr, wf_protocol tr = true ->
  forall i n o, created_at (fs_run tr) i (FLog n) o -> nsk (fs_run tr) i FCurrent <> None.
Proof.
  intro tr; induction tr as [|e tr IH] using rev_ind; intros Hwf i n o Hc.
  - destruct i; discriminate.
  - apply wf_protocol_snoc in Hwf. destruct Hwf as [Hwf Hchk]. specialize (IH Hwf).
    rewrite fs_run_snoc in Hc |- *. set (d := fs_run tr) in *.
    destruct (step_ops_mono d e) as [l El].
    assert (Hns : forall j, (j <= length (d_ops d))%nat -> nsk (fs_step d e) j = nsk d j).
    { intros j Hj. unfold nsk. rewrite El, firstn_app. replace (j - length (d_ops d))%nat with O by lia.
      cbn [firstn]. rewrite app_nil_r. reflexivity. }
    unfold created_at in Hc. rewrite El in Hc.
    destruct (Nat.lt_ge_cases i (length (d_ops d))) as [Hlt|Hge].
    + rewrite nth_error_app1 in Hc by exact Hlt. rewrite Hns by lia. eapply IH; exact Hc.
    + rewrite nth_error_app2 in Hc by exact Hge.
      assert (He : e = ECreate (FLog n) /\ i = length (d_ops d)).
      { destruct e as [f|f pl| | |a b|f|id b sy|id ok]; cbn [fs_step] in El;
          try (destruct (ns_lookup d _)); cbn [d_ops] in El;
          try (assert (l = []) by (apply (app_inv_head (d_ops d)); rewrite app_nil_r; symmetry; exact El); subst l;
               destruct (i - length (d_ops d))%nat; discriminate);
          apply app_inv_head in El; subst l; destruct (i - length (d_ops d))%nat as [|j] eqn:Ej; cbn in Hc;
          try discriminate; try (destruct j; discriminate).
        injection Hc as -> _. split; [reflexivity|lia]. }
      destruct He as [-> ->]. rewrite Hns by lia.
      apply chk_all_iff in Hchk. destruct Hchk as [_ [_ [_ [_ [H4 _]]]]]. cbn [chk_R4] in H4.
      rewrite prun_disk in H4. fold d in H4. unfold current_manifest, obj_at in H4.
      rewrite <- ns_lookup_nsk. destruct (ns_lookup d FCurrent); [discriminate|discriminate].
Qed.

Theorem C02_database_exists : forall tr, wf_protocol tr = true ->
  forall p img id b, crash_image (firstn p tr) img -> acked_sync_before tr p id b ->
  iget img FCurrent <> None.
Proof.
  intros tr Hwf p img id b Hc [n Hack]. pose proof (wf_protocol_firstn _ p Hwf) as Hwf'.
  set (tr' := firstn p tr) in *.
  pose proof (Inv_dur_run _ Hwf') as I. pose proof (id_struct _ I) as IS. pose proof (Inv_trace_run _ Hwf') as IT.
  pose proof (is_ops _ IS) as W. rewrite prun_disk in W.
  destruct (crash_image_cut _ _ Hc) as [k [cut [[A1 A2] [Hcut ->]]]].
  destruct (it_dur _ IT _ _ _ Hack) as [i [o [x [j [Hcr [Hx [Hj _]]]]]]].
  assert (Hi : (i < d_dsync (fs_run tr'))%nat).
  { rewrite <- prun_disk in Hcr, Hx |- *. destruct (is_typed _ IS _ _ _ _ Hcr Hx) as [_ [_ S2]]. apply S2; lia. }
  pose proof (log_created_after_current _ Hwf' _ _ _ Hcr) as Hcur.
  assert (Hk : nsk (fs_run tr') k FCurrent <> None).
  { eapply nsk_current_mono; [exact W| |exact A2|exact Hcur]. lia. }
  destruct (nsk (fs_run tr') k FCurrent) as [c|] eqn:Ec; [|congruence].
  rewrite iget_image_of. unfold ifile. rewrite Ec.
  destruct (proj2 (nsk_created _ _ _ _ _ W Ec) eq_refl) as [i' [t [_ Hc']]].
  pose proof (created_at_lt _ _ _ _ _ W Hc') as Hlt.
  destruct (nth_error (d_objs (fs_run tr')) c) eqn:E; [discriminate|]. apply nth_error_None in E. lia.
Qed.
