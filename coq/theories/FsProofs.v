(* FsProofs.v -- the theorems about FsModel.v (record-level file / crash model):
   under the protocol rules R0..R7 ([wf_protocol])
     C17b  CURRENT always names a complete MANIFEST        (C17_current_complete)
     C05   recovery is total, drops at most a tail per log (C05_recovery_total_and_tail_only)
     C02   sync-acknowledged batches survive power loss    (C02_synced_durable)
     C03   a process crash loses nothing                   (C03_process_crash)
   by induction over the trace with the invariant Inv_dur (FsInv.v, FsDur.v) and
   Inv_ack (below).

   STAGES.  Every theorem covers ALL traces accepted by [wf_protocol]: flushes,
   compaction edits that replace tables, MANIFEST rollover at open ("Stage B"
   included).  What the record level says about a batch whose log is obsolete
   is [flushed]: it was literally contained in tables named by an edit. *)
From Coq Require Import Lia ZifyBool ZifyNat ZifyN.
From LCDB Require Import FsModel FsLemmas FsInv FsDur.
Local Open Scope N_scope.

(* ------------------------------------------------------------------ reading an image *)
Lemma read_tables_ok : forall img fs,
  (forall f, In f fs -> exists ents, iget img (FTable (snd f)) = Some [PTable ents]) ->
  exists tabs, read_tables img fs = Some tabs.
Proof.
  intros img fs; induction fs as [|[l n] r IH]; intro H; cbn [read_tables]; [eauto|].
  destruct (H (l, n) (or_introl eq_refl)) as [ents He]. cbn [snd] in He.
  unfold read_table; rewrite He.
  destruct IH as [tabs Ht]; [intros f Hf; apply H; right; exact Hf|]. rewrite Ht; eauto.
Qed.

Lemma read_logs_ok : forall img ns,
  (forall n, In n ns -> exists recs bs, iget img (FLog n) = Some recs /\ batches_of recs = Some bs) ->
  exists segs, read_logs img ns = Some segs /\ map fst segs = ns /\
    forall n bs, In (n, bs) segs -> exists recs, iget img (FLog n) = Some recs /\ batches_of recs = Some bs.
Proof.
  intros img ns; induction ns as [|n r IH]; intro H; cbn [read_logs].
  - exists []; repeat split; intros; contradiction.
  - destruct (H n (or_introl eq_refl)) as [recs [bs [Hr Hb]]]. rewrite Hr, Hb.
    destruct IH as [segs [Hs [Hm Hall]]]; [intros n' Hn'; apply H; right; exact Hn'|]. rewrite Hs.
    exists ((n, bs) :: segs). split; [reflexivity|split; [cbn; f_equal; exact Hm|]].
    intros n' bs' [E|Hin]; [injection E as <- <-; eauto|apply Hall; exact Hin].
Qed.

Lemma read_logs_fun : forall img ns (B : N -> list brec),
  (forall n, In n ns -> exists recs, iget img (FLog n) = Some recs /\ batches_of recs = Some (B n)) ->
  read_logs img ns = Some (map (fun n => (n, B n)) ns).
Proof.
  intros img ns B; induction ns as [|n r IH]; intro H; cbn [read_logs map]; [reflexivity|].
  destruct (H n (or_introl eq_refl)) as [recs [Hr Hb]]. rewrite Hr, Hb, IH; [reflexivity|].
  intros n' Hn'; apply H; right; exact Hn'.
Qed.

Lemma replay_prev : forall eds, Forall prev_ok eds -> mv_prev (replay eds) = None \/ mv_prev (replay eds) = Some 0.
Proof.
  intro eds; induction eds as [|e eds IH] using rev_ind; intro H; [left; reflexivity|].
  apply Forall_app in H. destruct H as [H1 H2]. inversion H2 as [|? ? Hp _]; subst.
  rewrite replay_snoc. cbn [apply_edit mv_prev]. destruct Hp as [-> | ->]; cbn [or_else]; auto.
Qed.

Lemma Forall_firstn : forall {A} (P : A -> Prop) l k, Forall P l -> Forall P (firstn k l).
Proof.
  intros A P l k H. rewrite Forall_forall in H |- *. intros x Hx; apply H. eapply in_firstn_in; exact Hx.
Qed.

(* admissible cuts of the files *)
Definition cut_ok (d : disk) (cut : nat -> nat) : Prop :=
  forall o x, nth_error (d_objs d) o = Some x -> (o_synced x <= cut o <= length (o_recs x))%nat.

Lemma firstn_one : forall {A} (x : A) c, (1 <= c)%nat -> firstn c [x] = [x].
Proof. intros A x c H; destruct c; [lia|]. cbn [firstn]. rewrite firstn_nil; reflexivity. Qed.

(* ------------------------------------------------------------------ recovery from a good cut *)
Record recovered (p : pstate) (k : nat) (cut : nat -> nat) (s : rstate) : Prop := {
  rc_view : exists c M xM eds, view (p_disk p) k c (r_manifest s) M xM /\
      edits_of (o_recs xM) = Some eds /\ In (replay (firstn (cut M) eds)) (exposed xM) /\
      r_files s = mv_files (replay (firstn (cut M) eds)) /\
      mv_log (replay (firstn (cut M) eds)) = Some (r_log s);
  rc_prev : r_prev s = 0;
  rc_nums : map fst (r_segs s) =
      filter (fun n => (r_log s <=? n) || (n =? 0)) (image_logs (image_of (p_disk p) k cut));
  rc_segs : forall n bs, In (n, bs) (r_segs s) ->
      exists o x bsall, nsk (p_disk p) k (FLog n) = Some o /\ nth_error (d_objs (p_disk p)) o = Some x /\
        batches_of (o_recs x) = Some bsall /\ bs = firstn (cut o) bsall }.

Lemma ifile_log : forall p k cut n recs, Inv_struct p -> ifile (p_disk p) k cut (FLog n) = Some recs ->
  exists o x bsall, nsk (p_disk p) k (FLog n) = Some o /\ nth_error (d_objs (p_disk p)) o = Some x /\
    batches_of (o_recs x) = Some bsall /\ recs = firstn (cut o) (o_recs x).
Proof.
  intros p k cut n recs IS H. unfold ifile in H.
  destruct (nsk (p_disk p) k (FLog n)) as [o|] eqn:Hb; [|discriminate].
  destruct (nth_error (d_objs (p_disk p)) o) as [x|] eqn:Hx; [|discriminate]. injection H as <-.
  destruct (proj1 (nsk_created _ _ _ _ _ (is_ops _ IS) Hb)) as [i [_ Hc]]; [discriminate|].
  destruct (is_typed _ IS _ _ _ _ Hc Hx) as [[bs Hbs] _]. exists o, x, bs. auto.
Qed.

Theorem recover_good : forall p k cut c, Inv_dur p -> admissible (p_disk p) k -> cut_ok (p_disk p) cut ->
  nsk (p_disk p) k FCurrent = Some c ->
  exists s, recover (image_of (p_disk p) k cut) = Some s /\ recovered p k cut s.
Proof.
  intros p k cut c I A Hcut Hc. pose proof (id_struct _ I) as IS.
  destruct (proj1 (Good_view _ _) (id_good _ I k A) c Hc) as [m [M [xM [V Hms]]]].
  pose proof V as [V1 [V2 [V3 V4]]].
  destruct (view_manifest_typed _ _ _ _ _ _ IS V) as [eds [He [Hs Hp]]].
  set (img := image_of (p_disk p) k cut).
  assert (Hcur : iget img FCurrent = Some [PCurrent m]).
  { unfold img; rewrite iget_image_of. unfold ifile. rewrite V1, V2. cbn [o_recs].
    pose proof (Hcut _ _ V2) as Hc2. cbn [o_synced o_recs length] in Hc2. rewrite firstn_one by lia. reflexivity. }
  assert (Hman : iget img (FManifest m) = Some (firstn (cut M) (o_recs xM))).
  { unfold img; rewrite iget_image_of. unfold ifile. rewrite V3, V4. reflexivity. }
  pose proof (Hcut _ _ V4) as HcM. rewrite <- (edits_of_length _ _ He) in HcM.
  set (ms := replay (firstn (cut M) eds)).
  assert (Hexp : In ms (exposed xM)).
  { apply (in_exposed _ _ _ He Hs). exists (cut M). split; [lia|reflexivity]. }
  destruct (Hms _ Hexp) as [G1 [G2 G3]].
  unfold manifest_ok in G1.
  destruct (mv_next ms) as [nx|] eqn:Enx; [|discriminate].
  destruct (mv_log ms) as [lg|] eqn:Elg; [|discriminate].
  destruct (mv_last ms) as [ls|] eqn:Els; [|discriminate].
  assert (Hpv : match mv_prev ms with Some pv => pv | None => 0 end = 0).
  { destruct (replay_prev _ (Forall_firstn _ _ (cut M) Hp)) as [E|E]; fold ms in E; rewrite E; reflexivity. }
  destruct (read_tables_ok img (mv_files ms)) as [tabs Htabs].
  { intros f Hf. destruct (G2 f Hf) as [o [ents [Hb Hx]]]. exists ents.
    unfold img; rewrite iget_image_of. unfold ifile. rewrite Hb, Hx. cbn [o_recs].
    pose proof (Hcut _ _ Hx) as Hc2. cbn [o_synced o_recs length] in Hc2. rewrite firstn_one by lia. reflexivity. }
  set (nums := filter (fun n => (lg <=? n) || (n =? 0)) (image_logs img)).
  destruct (read_logs_ok img nums) as [segs [Hsegs [Hfst Hall]]].
  { intros n Hn. unfold nums in Hn. apply filter_In in Hn. destruct Hn as [Hn _].
    apply in_image_logs in Hn. destruct Hn as [recs Hr]. exists recs.
    unfold img in Hr; rewrite iget_image_of in Hr.
    destruct (ifile_log _ _ _ _ _ IS Hr) as [o [x [bs [_ [_ [Hb ->]]]]]].
    exists (firstn (cut o) bs). split; [unfold img; rewrite iget_image_of; exact Hr|].
    apply batches_of_firstn; exact Hb. }
  eexists. split.
  - unfold recover. fold img. rewrite Hcur, Hman, (edits_of_firstn _ _ _ He). fold ms.
    rewrite Enx, Elg, Els, Htabs, Hpv. fold nums. rewrite Hsegs. reflexivity.
  - constructor; cbn [r_manifest r_files r_log r_prev r_segs].
    + exists c, M, xM, eds. fold ms. auto.
    + reflexivity.
    + exact Hfst.
    + intros n bs Hin. destruct (Hall _ _ Hin) as [recs [Hr Hb]].
      unfold img in Hr; rewrite iget_image_of in Hr.
      destruct (ifile_log _ _ _ _ _ IS Hr) as [o [x [bsall [H1 [H2 [H3 ->]]]]]].
      exists o, x, bsall. repeat split; auto.
      rewrite (batches_of_firstn _ _ (cut o) H3) in Hb. injection Hb as <-. reflexivity.
Qed.
