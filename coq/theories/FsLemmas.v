(* FsLemmas.v -- generic lemmas about FsModel.v: names, runs, namespaces,
   images, manifests (used by FsInv.v and FsProofs.v). *)
From Coq Require Import Lia ZifyBool ZifyNat ZifyN.
From LCDB Require Import FsModel.
Local Open Scope N_scope.

(* ------------------------------------------------------------------ equalities *)
Lemma fname_eqb_eq : forall a b, fname_eqb a b = true <-> a = b.
Proof.
  intros a b; destruct a, b; cbn [fname_eqb]; split; intro H;
    try discriminate; try reflexivity;
    try (apply N.eqb_eq in H; subst; reflexivity);
    try (injection H as ->; apply N.eqb_refl).
Qed.

Lemma fname_eqb_refl : forall a, fname_eqb a a = true.
Proof. intro a; apply fname_eqb_eq; reflexivity. Qed.

Lemma fname_eqb_neq : forall a b, fname_eqb a b = false <-> a <> b.
Proof.
  intros a b; split; intro H.
  - intro E; apply fname_eqb_eq in E; congruence.
  - destruct (fname_eqb a b) eqn:E; [apply fname_eqb_eq in E; contradiction | reflexivity].
Qed.

Lemma fname_eqb_sym : forall a b, fname_eqb a b = fname_eqb b a.
Proof.
  intros a b; destruct (fname_eqb a b) eqn:E.
  - apply fname_eqb_eq in E; subst; symmetry; apply fname_eqb_refl.
  - symmetry; apply fname_eqb_neq; apply fname_eqb_neq in E; congruence.
Qed.

Lemma fname_eq_dec : forall a b : fname, {a = b} + {a <> b}.
Proof.
  intros a b; destruct (fname_eqb a b) eqn:E.
  - left; apply fname_eqb_eq; exact E.
  - right; apply fname_eqb_neq; exact E.
Qed.

(* ------------------------------------------------------------------ runs *)
Lemma fs_run_snoc : forall tr e, fs_run (tr ++ [e]) = fs_step (fs_run tr) e.
Proof. intros; unfold fs_run; rewrite fold_left_app; reflexivity. Qed.

Lemma prun_snoc : forall tr e, prun (tr ++ [e]) = pstep (prun tr) e.
Proof. intros; unfold prun; rewrite fold_left_app; reflexivity. Qed.

Lemma pstep_disk : forall p e, p_disk (pstep p e) = fs_step (p_disk p) e.
Proof.
  intros p e; destruct e as [f|f pl| | |a b|f|id b sy|id ok]; cbn [pstep p_disk]; try reflexivity.
  destruct f; try reflexivity; destruct pl; reflexivity.
Qed.

Lemma prun_disk : forall tr, p_disk (prun tr) = fs_run tr.
Proof.
  intro tr; induction tr as [|e tr IH] using rev_ind; [reflexivity|].
  rewrite prun_snoc, fs_run_snoc, pstep_disk, IH; reflexivity.
Qed.

Lemma all_steps_app : forall chk tr1 tr2 p,
  all_steps chk p (tr1 ++ tr2) = all_steps chk p tr1 && all_steps chk (fold_left pstep tr1 p) tr2.
Proof.
  intros chk tr1; induction tr1 as [|e r IH]; intros tr2 p; cbn [all_steps app fold_left].
  - reflexivity.
  - rewrite IH, andb_assoc; reflexivity.
Qed.

Definition chk_all (p : pstate) (e : fev) : bool :=
  chk_R0 p e && chk_R1 p e && chk_R2 p e && chk_R3 p e &&
  chk_R4 p e && chk_R5 p e && chk_R6 p e && chk_R7 p e.

Lemma wf_protocol_snoc : forall tr e,
  wf_protocol (tr ++ [e]) = true <-> wf_protocol tr = true /\ chk_all (prun tr) e = true.
Proof.
  intros tr e; unfold wf_protocol, rule_R0, rule_R1, rule_R2, rule_R3, rule_R4, rule_R5, rule_R6, rule_R7, chk_all.
  rewrite !all_steps_app; cbn [all_steps]; fold (prun tr).
  rewrite !andb_true_r, !andb_true_iff. tauto.
Qed.

Lemma wf_protocol_app_l : forall tr1 tr2, wf_protocol (tr1 ++ tr2) = true -> wf_protocol tr1 = true.
Proof.
  intros tr1 tr2; induction tr2 as [|e r IH] using rev_ind; intro H.
  - rewrite app_nil_r in H; exact H.
  - rewrite app_assoc in H. apply wf_protocol_snoc in H. apply IH, H.
Qed.

Lemma wf_protocol_firstn : forall tr p, wf_protocol tr = true -> wf_protocol (firstn p tr) = true.
Proof.
  intros tr p H; rewrite <- (firstn_skipn p tr) in H; eapply wf_protocol_app_l; exact H.
Qed.

(* ------------------------------------------------------------------ lists *)
Lemma firstn_snoc_le : forall {A} (l : list A) x k, (k <= length l)%nat -> firstn k (l ++ [x]) = firstn k l.
Proof.
  intros A l x k H. rewrite firstn_app. replace (k - length l)%nat with O by lia.
  cbn [firstn]. apply app_nil_r.
Qed.

Lemma firstn_snoc_S : forall {A} (l : list A) x, firstn (S (length l)) (l ++ [x]) = l ++ [x].
Proof.
  intros A l x. replace (S (length l)) with (length (l ++ [x])) by (rewrite app_length; cbn; lia).
  apply firstn_all.
Qed.

Lemma firstn_S_nth : forall {A} (l : list A) k x, nth_error l k = Some x -> firstn (S k) l = firstn k l ++ [x].
Proof.
  intros A l; induction l as [|y r IH]; intros k x H.
  - destruct k; discriminate.
  - destruct k as [|k]; cbn [nth_error] in H.
    + injection H as ->; reflexivity.
    + change (firstn (S (S k)) (y :: r)) with (y :: firstn (S k) r).
      rewrite (IH _ _ H); reflexivity.
Qed.

Lemma nth_error_upd_nth_eq : forall {A} (l : list A) i f x,
  nth_error l i = Some x -> nth_error (upd_nth l i f) i = Some (f x).
Proof.
  intros A l; induction l as [|y r IH]; intros i f x H; destruct i; cbn in *; try discriminate.
  - injection H as ->; reflexivity.
  - apply IH; exact H.
Qed.

Lemma nth_error_upd_nth_neq : forall {A} (l : list A) i j f,
  i <> j -> nth_error (upd_nth l i f) j = nth_error l j.
Proof.
  intros A l; induction l as [|y r IH]; intros i j f H; destruct i, j; cbn; try reflexivity; try congruence.
  apply IH; congruence.
Qed.

Lemma length_upd_nth : forall {A} (l : list A) i f, length (upd_nth l i f) = length l.
Proof. intros A l; induction l as [|y r IH]; intros i f; destruct i; cbn; auto. Qed.

Lemma nth_error_snoc_old : forall {A} (l : list A) x i y, nth_error l i = Some y -> nth_error (l ++ [x]) i = Some y.
Proof. intros. rewrite nth_error_app1; [assumption | apply nth_error_Some; congruence]. Qed.

Lemma nth_error_snoc_new : forall {A} (l : list A) x, nth_error (l ++ [x]) (length l) = Some x.
Proof. intros. rewrite nth_error_app2 by lia. rewrite Nat.sub_diag; reflexivity. Qed.

(* ------------------------------------------------------------------ namespaces *)
Definition nsk (d : disk) (k : nat) : nspace := ns_of (firstn k (d_ops d)).

Lemma ns_of_snoc : forall ops op, ns_of (ops ++ [op]) = ns_apply (ns_of ops) op.
Proof. intros; unfold ns_of; rewrite fold_left_app; reflexivity. Qed.

Lemma nsk_full : forall d, nsk d (length (d_ops d)) = ns_of (d_ops d).
Proof. intro d; unfold nsk; rewrite firstn_all; reflexivity. Qed.

Lemma ns_lookup_nsk : forall d f, ns_lookup d f = nsk d (length (d_ops d)) f.
Proof. intros; rewrite nsk_full; reflexivity. Qed.

Lemma ns_S : forall ops k op, nth_error ops k = Some op ->
  ns_of (firstn (S k) ops) = ns_apply (ns_of (firstn k ops)) op.
Proof. intros ops k op H. rewrite (firstn_S_nth _ _ _ H). apply ns_of_snoc. Qed.

Definition create_ids (ops : list dirop) : list nat :=
  flat_map (fun op => match op with DCreate _ o => [o] | _ => [] end) ops.
Definition created_names (ops : list dirop) : list fname :=
  flat_map (fun op => match op with DCreate f _ => [f] | _ => [] end) ops.

Record ops_wf (ops : list dirop) (nobj : nat) : Prop := {
  ow_ids : create_ids ops = seq 0 nobj;
  ow_nodup : NoDup (created_names ops);
  ow_nocur : ~ In FCurrent (created_names ops);
  ow_ren : forall a b, In (DRename a b) ops -> (exists n, a = FTmp n) /\ b = FCurrent;
  ow_unl : ~ In (DUnlink FCurrent) ops }.

Lemma create_ids_snoc : forall ops op, create_ids (ops ++ [op]) =
  create_ids ops ++ match op with DCreate _ o => [o] | _ => [] end.
Proof. intros; unfold create_ids; rewrite flat_map_app; cbn; rewrite app_nil_r; reflexivity. Qed.

Lemma created_names_snoc : forall ops op, created_names (ops ++ [op]) =
  created_names ops ++ match op with DCreate f _ => [f] | _ => [] end.
Proof. intros; unfold created_names; rewrite flat_map_app; cbn; rewrite app_nil_r; reflexivity. Qed.

Lemma in_created_names : forall ops f, In f (created_names ops) <-> exists o, In (DCreate f o) ops.
Proof.
  intros ops f; unfold created_names; rewrite in_flat_map; split.
  - intros [op [Hin Hf]]; destruct op; cbn in Hf; try contradiction.
    destruct Hf as [->|[]]; eauto.
  - intros [o Hin]; exists (DCreate f o); split; [assumption | left; reflexivity].
Qed.

Lemma in_create_ids : forall ops o, In o (create_ids ops) <-> exists f, In (DCreate f o) ops.
Proof.
  intros ops o; unfold create_ids; rewrite in_flat_map; split.
  - intros [op [Hin Hf]]; destruct op; cbn in Hf; try contradiction.
    destruct Hf as [->|[]]; eauto.
  - intros [f Hin]; exists (DCreate f o); split; [assumption | left; reflexivity].
Qed.

Lemma NoDup_app_r : forall {A} (l l' : list A), NoDup (l ++ l') -> NoDup l'.
Proof.
  intros A l; induction l as [|x r IH]; intros l' H; [exact H|].
  inversion H; subst; auto.
Qed.

(* an object has one creation name *)
Lemma create_unique_name : forall ops f1 f2 o,
  NoDup (create_ids ops) -> In (DCreate f1 o) ops -> In (DCreate f2 o) ops -> f1 = f2.
Proof.
  intros ops; induction ops as [|op r IH]; intros f1 f2 o ND H1 H2; [contradiction|].
  assert (Hr : NoDup (create_ids r)).
  { unfold create_ids in ND |- *; cbn [flat_map] in ND. apply NoDup_app_r in ND; exact ND. }
  destruct H1 as [H1|H1], H2 as [H2|H2].
  - congruence.
  - subst op. unfold create_ids in ND; cbn [flat_map app] in ND. inversion ND as [|x l Hn _]; subst.
    exfalso; apply Hn. apply in_create_ids; eauto.
  - subst op. unfold create_ids in ND; cbn [flat_map app] in ND. inversion ND as [|x l Hn _]; subst.
    exfalso; apply Hn. apply in_create_ids; eauto.
  - eapply IH; eauto.
Qed.

(* a name is created once *)
Lemma create_unique_pos : forall ops f o o' i j,
  NoDup (created_names ops) ->
  nth_error ops i = Some (DCreate f o) -> nth_error ops j = Some (DCreate f o') -> i = j.
Proof.
  intros ops; induction ops as [|op r IH]; intros f o o' i j ND Hi Hj.
  - destruct i; discriminate.
  - assert (Hr : NoDup (created_names r)).
    { unfold created_names in ND |- *; cbn [flat_map] in ND. apply NoDup_app_r in ND; exact ND. }
    destruct i as [|i], j as [|j]; cbn in Hi, Hj.
    + reflexivity.
    + injection Hi as ->. unfold created_names in ND; cbn [flat_map app] in ND.
      inversion ND as [|x l Hn _]; subst. exfalso; apply Hn.
      apply in_created_names. exists o'. eapply nth_error_In; eauto.
    + injection Hj as ->. unfold created_names in ND; cbn [flat_map app] in ND.
      inversion ND as [|x l Hn _]; subst. exfalso; apply Hn.
      apply in_created_names. exists o. eapply nth_error_In; eauto.
    + f_equal; eapply IH; eauto.
Qed.

Lemma seq_NoDup' : forall n, NoDup (seq 0 n).
Proof. intro; apply seq_NoDup. Qed.

(* where a bound object comes from *)
Lemma ns_origin : forall ops,
  (forall a b, In (DRename a b) ops -> (exists n, a = FTmp n) /\ b = FCurrent) ->
  ~ In FCurrent (created_names ops) ->
  forall f o, ns_of ops f = Some o ->
    (f <> FCurrent -> In (DCreate f o) ops) /\
    (f = FCurrent -> exists n, In (DCreate (FTmp n) o) ops).
Proof.
  intros ops; induction ops as [|op ops IH] using rev_ind; intros Hren Hnc f o H.
  - discriminate.
  - assert (Hren' : forall a b, In (DRename a b) ops -> (exists n, a = FTmp n) /\ b = FCurrent).
    { intros a b Hin; apply Hren; apply in_or_app; left; exact Hin. }
    assert (Hnc' : ~ In FCurrent (created_names ops)).
    { intro Hin; apply Hnc; rewrite created_names_snoc; apply in_or_app; left; exact Hin. }
    specialize (IH Hren' Hnc').
    rewrite ns_of_snoc in H.
    destruct op as [g o'|a b|g]; cbn [ns_apply] in H.
    + destruct (fname_eqb f g) eqn:E.
      * apply fname_eqb_eq in E; subst g. injection H as ->. split.
        -- intros _; apply in_or_app; right; left; reflexivity.
        -- intros ->. exfalso; apply Hnc. rewrite created_names_snoc; apply in_or_app; right; left; reflexivity.
      * destruct (IH _ _ H) as [I1 I2]; split.
        -- intro Hf; apply in_or_app; left; auto.
        -- intro Hf; destruct (I2 Hf) as [n Hn]; exists n; apply in_or_app; left; exact Hn.
    + destruct (Hren a b) as [[n ->] ->]; [apply in_or_app; right; left; reflexivity|].
      destruct (ns_of ops (FTmp n)) as [oa|] eqn:Ea.
      * destruct (fname_eqb f FCurrent) eqn:E.
        -- apply fname_eqb_eq in E; subst f. injection H as ->. split; [congruence|].
           intros _. exists n. apply in_or_app; left. apply (IH _ _ Ea); discriminate.
        -- destruct (fname_eqb f (FTmp n)) eqn:E2; [discriminate|].
           destruct (IH _ _ H) as [I1 I2]; split.
           ++ intro Hf; apply in_or_app; left; auto.
           ++ intros ->. rewrite fname_eqb_refl in E; discriminate.
      * destruct (IH _ _ H) as [I1 I2]; split.
        -- intro Hf; apply in_or_app; left; auto.
        -- intro Hf; destruct (I2 Hf) as [n' Hn]; exists n'; apply in_or_app; left; exact Hn.
    + destruct (fname_eqb f g) eqn:E; [discriminate|].
      destruct (IH _ _ H) as [I1 I2]; split.
      * intro Hf; apply in_or_app; left; auto.
      * intro Hf; destruct (I2 Hf) as [n' Hn]; exists n'; apply in_or_app; left; exact Hn.
Qed.

Lemma nsk_S : forall d k op, nth_error (d_ops d) k = Some op -> nsk d (S k) = ns_apply (nsk d k) op.
Proof. intros; unfold nsk; apply ns_S; assumption. Qed.

Lemma ops_wf_ren_nth : forall ops n k a b, ops_wf ops n -> nth_error ops k = Some (DRename a b) ->
  (exists t, a = FTmp t) /\ b = FCurrent.
Proof. intros ops n k a b W H; eapply ow_ren; eauto using nth_error_In. Qed.

(* a non-CURRENT name bound to o at k2 was bound to o ever since its creation *)
Lemma nsk_stable : forall d n f o i, ops_wf (d_ops d) n -> f <> FCurrent ->
  nth_error (d_ops d) i = Some (DCreate f o) ->
  forall k2 k1, (i < k1)%nat -> (k1 <= k2)%nat -> (k2 <= length (d_ops d))%nat ->
  nsk d k2 f = Some o -> nsk d k1 f = Some o.
Proof.
  intros d n f o i W Hf Hi k2; induction k2 as [|k2 IH]; intros k1 H1 H2 H3 H.
  - lia.
  - destruct (Nat.eq_dec k1 (S k2)) as [->|Hne]; [exact H|].
    apply IH; try lia.
    destruct (nth_error (d_ops d) k2) as [op|] eqn:Eop.
    2:{ apply nth_error_None in Eop; lia. }
    rewrite (nsk_S _ _ _ Eop) in H.
    destruct op as [g o'|a b|g]; cbn [ns_apply] in H.
    + destruct (fname_eqb f g) eqn:E; [|exact H].
      apply fname_eqb_eq in E; subst g.
      assert (i = k2) by (eapply create_unique_pos; eauto using ow_nodup). lia.
    + destruct (ops_wf_ren_nth _ _ _ _ _ W Eop) as [[t ->] ->].
      destruct (nsk d k2 (FTmp t)) eqn:Ea; [|exact H].
      destruct (fname_eqb f FCurrent) eqn:E1; [apply fname_eqb_eq in E1; contradiction|].
      destruct (fname_eqb f (FTmp t)) eqn:E2; [discriminate|exact H].
    + destruct (fname_eqb f g) eqn:E; [discriminate|exact H].
Qed.

(* an unlinked name stays unbound (names are never created twice) *)
Lemma nsk_unlinked : forall d n f o i u, ops_wf (d_ops d) n ->
  nth_error (d_ops d) i = Some (DCreate f o) -> nth_error (d_ops d) u = Some (DUnlink f) -> (i < u)%nat ->
  forall k, (u < k)%nat -> (k <= length (d_ops d))%nat -> nsk d k f = None.
Proof.
  intros d n f o i u W Hi Hu Hiu k; induction k as [|k IH]; intros H1 H2; [lia|].
  destruct (nth_error (d_ops d) k) as [op|] eqn:Eop.
  2:{ apply nth_error_None in Eop; lia. }
  rewrite (nsk_S _ _ _ Eop).
  assert (Hf : f <> FCurrent).
  { intros ->. eapply ow_nocur; eauto. apply in_created_names. exists o. eapply nth_error_In; eauto. }
  destruct (Nat.eq_dec u k) as [->|Hne].
  - rewrite Hu in Eop; injection Eop as <-. cbn [ns_apply]. rewrite fname_eqb_refl; reflexivity.
  - assert (IH' : nsk d k f = None) by (apply IH; lia).
    destruct op as [g o'|a b|g]; cbn [ns_apply].
    + destruct (fname_eqb f g) eqn:E; [|exact IH'].
      apply fname_eqb_eq in E; subst g.
      assert (i = k) by (eapply create_unique_pos; eauto using ow_nodup). lia.
    + destruct (ops_wf_ren_nth _ _ _ _ _ W Eop) as [[t ->] ->].
      destruct (nsk d k (FTmp t)) eqn:Ea; [|exact IH'].
      destruct (fname_eqb f FCurrent) eqn:E1; [apply fname_eqb_eq in E1; contradiction|].
      destruct (fname_eqb f (FTmp t)) eqn:E2; [reflexivity|exact IH'].
    + destruct (fname_eqb f g) eqn:E; [reflexivity|exact IH'].
Qed.

(* a name is unbound before its creation *)
Lemma nsk_before_create : forall d n f o i, ops_wf (d_ops d) n -> f <> FCurrent ->
  nth_error (d_ops d) i = Some (DCreate f o) ->
  forall k, (k <= i)%nat -> nsk d k f = None.
Proof.
  intros d n f o i W Hf Hi k; induction k as [|k IH]; intro H.
  - reflexivity.
  - destruct (nth_error (d_ops d) k) as [op|] eqn:Eop.
    2:{ apply nth_error_None in Eop. assert (nth_error (d_ops d) i <> None) by congruence.
        apply nth_error_Some in H0. lia. }
    rewrite (nsk_S _ _ _ Eop). assert (IH' : nsk d k f = None) by (apply IH; lia).
    destruct op as [g o'|a b|g]; cbn [ns_apply].
    + destruct (fname_eqb f g) eqn:E; [|exact IH'].
      apply fname_eqb_eq in E; subst g.
      assert (i = k) by (eapply create_unique_pos; eauto using ow_nodup). lia.
    + destruct (ops_wf_ren_nth _ _ _ _ _ W Eop) as [[t ->] ->].
      destruct (nsk d k (FTmp t)) eqn:Ea; [|exact IH'].
      destruct (fname_eqb f FCurrent) eqn:E1; [apply fname_eqb_eq in E1; contradiction|].
      destruct (fname_eqb f (FTmp t)) eqn:E2; [reflexivity|exact IH'].
    + destruct (fname_eqb f g) eqn:E; [reflexivity|exact IH'].
Qed.

(* CURRENT, once bound, stays bound *)
Lemma nsk_current_mono : forall d n k1 k2, ops_wf (d_ops d) n ->
  (k1 <= k2)%nat -> (k2 <= length (d_ops d))%nat -> nsk d k1 FCurrent <> None -> nsk d k2 FCurrent <> None.
Proof.
  intros d n k1 k2 W H1; induction H1 as [|k2 Hle IH]; intros H2 H; [exact H|].
  destruct (nth_error (d_ops d) k2) as [op|] eqn:Eop.
  2:{ apply nth_error_None in Eop; lia. }
  rewrite (nsk_S _ _ _ Eop). assert (IH' : nsk d k2 FCurrent <> None) by (apply IH; [lia|exact H]).
  destruct op as [g o'|a b|g]; cbn [ns_apply].
  - destruct (fname_eqb FCurrent g) eqn:E; [discriminate|exact IH'].
  - destruct (ops_wf_ren_nth _ _ _ _ _ W Eop) as [[t ->] ->].
    destruct (nsk d k2 (FTmp t)) eqn:Ea; [|exact IH'].
    cbn [fname_eqb]. discriminate.
  - destruct (fname_eqb FCurrent g) eqn:E; [|exact IH'].
    apply fname_eqb_eq in E; subst g. exfalso. eapply ow_unl; eauto using nth_error_In.
Qed.

(* without renames in between, CURRENT keeps its binding *)
Lemma nsk_current_norename : forall d n k1 k2, ops_wf (d_ops d) n ->
  (k1 <= k2)%nat -> (k2 <= length (d_ops d))%nat ->
  existsb is_rename_op (skipn k1 (firstn k2 (d_ops d))) = false ->
  nsk d k2 FCurrent = nsk d k1 FCurrent.
Proof.
  intros d n k1 k2 W H1; induction H1 as [|k2 Hle IH]; intros H2 H; [reflexivity|].
  destruct (nth_error (d_ops d) k2) as [op|] eqn:Eop.
  2:{ apply nth_error_None in Eop; lia. }
  rewrite (firstn_S_nth _ _ _ Eop) in H.
  rewrite skipn_app in H. rewrite firstn_length in H.
  replace (k1 - Nat.min k2 (length (d_ops d)))%nat with O in H by lia.
  cbn [skipn] in H. rewrite existsb_app in H. apply orb_false_iff in H. destruct H as [Ha Hb].
  rewrite (nsk_S _ _ _ Eop), <- IH by (assumption || lia).
  destruct op as [g o'|a b|g]; cbn [ns_apply].
  - destruct (fname_eqb FCurrent g) eqn:E; [|reflexivity].
    apply fname_eqb_eq in E; subst g. exfalso. eapply ow_nocur; eauto.
    apply in_created_names; exists o'; eauto using nth_error_In.
  - cbn in Hb; discriminate.
  - destruct (fname_eqb FCurrent g) eqn:E; [|reflexivity].
    apply fname_eqb_eq in E; subst g. exfalso. eapply ow_unl; eauto using nth_error_In.
Qed.

(* ------------------------------------------------------------------ images *)
Definition ifile (d : disk) (k : nat) (cut : nat -> nat) (f : fname) : option (list payload) :=
  match nsk d k f with
  | Some o => match nth_error (d_objs d) o with
              | Some x => Some (firstn (cut o) (o_recs x))
              | None => None
              end
  | None => None
  end.

Lemma in_add_name : forall f g l, In f (add_name g l) <-> f = g \/ In f l.
Proof.
  intros f g l; induction l as [|h r IH]; cbn [add_name].
  - cbn; intuition congruence.
  - destruct (fname_eqb h g) eqn:E.
    + apply fname_eqb_eq in E; subst h. cbn; intuition congruence.
    + cbn [In]; rewrite IH; intuition congruence.
Qed.

Lemma op_names_snoc : forall ops op, op_names (ops ++ [op]) =
  match op with DCreate f _ => add_name f (op_names ops) | DRename _ b => add_name b (op_names ops) | DUnlink _ => op_names ops end.
Proof. intros; unfold op_names; rewrite fold_left_app; reflexivity. Qed.

Lemma op_names_mono : forall l1 l2 f, In f (op_names l1) -> In f (op_names (l1 ++ l2)).
Proof.
  intros l1 l2; induction l2 as [|op r IH] using rev_ind; intros f H.
  - rewrite app_nil_r; exact H.
  - rewrite app_assoc, op_names_snoc. specialize (IH f H).
    destruct op; try apply in_add_name; auto.
Qed.

Lemma ns_bound_named : forall ops f o, ns_of ops f = Some o -> In f (op_names ops).
Proof.
  intros ops; induction ops as [|op ops IH] using rev_ind; intros f o H; [discriminate|].
  rewrite ns_of_snoc in H. rewrite op_names_snoc.
  destruct op as [g o'|a b|g]; cbn [ns_apply] in H.
  - apply in_add_name. destruct (fname_eqb f g) eqn:E; [left; apply fname_eqb_eq; exact E|right; eauto].
  - destruct (ns_of ops a) eqn:Ea.
    + apply in_add_name. destruct (fname_eqb f b) eqn:E; [left; apply fname_eqb_eq; exact E|].
      right. destruct (fname_eqb f a); [discriminate|eauto].
    + apply in_add_name; right; eauto.
  - destruct (fname_eqb f g); [discriminate|eauto].
Qed.

Lemma iget_flat_map : forall (g : fname -> option (list payload)) names f,
  iget (flat_map (fun f' => match g f' with Some v => [(f', v)] | None => [] end) names) f =
  if existsb (fname_eqb f) names then g f else None.
Proof.
  intros g names f; induction names as [|h r IH]; cbn [flat_map existsb]; [reflexivity|].
  destruct (g h) as [v|] eqn:Eg; cbn [app iget].
  - rewrite (fname_eqb_sym f h). destruct (fname_eqb h f) eqn:E; cbn [orb].
    + apply fname_eqb_eq in E; subst h. symmetry; exact Eg.
    + exact IH.
  - rewrite IH. destruct (fname_eqb f h) eqn:E; cbn [orb]; [|reflexivity].
    apply fname_eqb_eq in E; subst h. rewrite Eg. destruct (existsb (fname_eqb f) r); reflexivity.
Qed.

Lemma image_of_flat : forall d k cut,
  image_of d k cut = flat_map (fun f => match ifile d k cut f with Some v => [(f, v)] | None => [] end) (op_names (d_ops d)).
Proof.
  intros d k cut; unfold image_of. apply flat_map_ext; intro f. unfold ifile, nsk.
  destruct (ns_of (firstn k (d_ops d)) f) as [o|]; [|reflexivity].
  destruct (nth_error (d_objs d) o); reflexivity.
Qed.

Lemma iget_image_of : forall d k cut f, iget (image_of d k cut) f = ifile d k cut f.
Proof.
  intros d k cut f. rewrite image_of_flat, iget_flat_map.
  destruct (existsb (fname_eqb f) (op_names (d_ops d))) eqn:E; [reflexivity|].
  unfold ifile. destruct (nsk d k f) as [o|] eqn:En; [|reflexivity].
  exfalso. unfold nsk in En. apply ns_bound_named in En.
  rewrite <- (firstn_skipn k (d_ops d)) in E.
  apply (op_names_mono _ (skipn k (d_ops d))) in En.
  assert (existsb (fname_eqb f) (op_names (firstn k (d_ops d) ++ skipn k (d_ops d))) = true).
  { apply existsb_exists; exists f; split; [exact En|apply fname_eqb_refl]. }
  congruence.
Qed.

(* ------------------------------------------------------------------ sorting of log numbers *)
Lemma in_insert_N : forall x y l, In x (insert_N y l) <-> x = y \/ In x l.
Proof.
  intros x y l; induction l as [|z r IH]; cbn [insert_N].
  - cbn; intuition congruence.
  - destruct (y <? z) eqn:E1; [cbn; intuition congruence|].
    destruct (y =? z) eqn:E2.
    + apply N.eqb_eq in E2; subst z. cbn; intuition congruence.
    + cbn [In]; rewrite IH; intuition congruence.
Qed.

Lemma in_sort_N : forall x l, In x (sort_N l) <-> In x l.
Proof.
  intros x l; induction l as [|y r IH]; cbn [sort_N fold_right]; [reflexivity|].
  fold (sort_N r). rewrite in_insert_N, IH; cbn; intuition congruence.
Qed.

Lemma insert_N_sorted : forall y l, StronglySorted N.lt l -> StronglySorted N.lt (insert_N y l).
Proof.
  intros y l H; induction H as [|z r Hs IH Hf]; cbn [insert_N].
  - repeat constructor.
  - destruct (y <? z) eqn:E1.
    + apply N.ltb_lt in E1. constructor; [constructor; assumption|].
      constructor; [exact E1|]. eapply Forall_impl; [|exact Hf]. intros a Ha; cbn in Ha; lia.
    + destruct (y =? z) eqn:E2; [constructor; assumption|].
      apply N.ltb_ge in E1. apply N.eqb_neq in E2.
      constructor; [exact IH|]. apply Forall_forall; intros a Ha. apply in_insert_N in Ha.
      destruct Ha as [->|Ha]; [lia|]. rewrite Forall_forall in Hf; auto.
Qed.

Lemma sort_N_sorted : forall l, StronglySorted N.lt (sort_N l).
Proof.
  intro l; induction l as [|y r IH]; cbn [sort_N fold_right]; [constructor|].
  fold (sort_N r). apply insert_N_sorted; exact IH.
Qed.

Lemma iget_in : forall img f, (exists recs, iget img f = Some recs) <-> In f (map fst img).
Proof.
  intros img f; induction img as [|[g recs] r IH]; cbn [iget map fst In].
  - split; [intros [? H]; discriminate|contradiction].
  - destruct (fname_eqb g f) eqn:E.
    + apply fname_eqb_eq in E; subst g. split; eauto.
    + rewrite IH. apply fname_eqb_neq in E. intuition congruence.
Qed.

Lemma in_image_logs : forall img n, In n (image_logs img) <-> exists recs, iget img (FLog n) = Some recs.
Proof.
  intros img n; unfold image_logs. rewrite in_sort_N, iget_in, in_flat_map, in_map_iff. split.
  - intros [[f recs] [Hin Hn]]; cbn [fst] in Hn. destruct f; cbn in Hn; try contradiction.
    destruct Hn as [->|[]]. exists (FLog n, recs); split; [reflexivity|exact Hin].
  - intros [[f recs] [Hf Hin]]; cbn [fst] in Hf; subst f. exists (FLog n, recs); split; [exact Hin|left; reflexivity].
Qed.

Lemma sorted_filter : forall (f : N -> bool) l, StronglySorted N.lt l -> StronglySorted N.lt (filter f l).
Proof.
  intros f l H; induction H as [|z r Hs IH Hf]; cbn [filter]; [constructor|].
  destruct (f z); [|exact IH]. constructor; [exact IH|].
  apply Forall_forall; intros a Ha. apply filter_In in Ha. rewrite Forall_forall in Hf; apply Hf, Ha.
Qed.

(* ------------------------------------------------------------------ records *)
Lemma edits_of_app : forall a b, edits_of (a ++ b) =
  match edits_of a, edits_of b with Some x, Some y => Some (x ++ y) | _, _ => None end.
Proof.
  intros a b; induction a as [|p r IH]; cbn [app edits_of].
  - destruct (edits_of b); reflexivity.
  - destruct p; try reflexivity. rewrite IH.
    destruct (edits_of r), (edits_of b); reflexivity.
Qed.

Lemma batches_of_app : forall a b, batches_of (a ++ b) =
  match batches_of a, batches_of b with Some x, Some y => Some (x ++ y) | _, _ => None end.
Proof.
  intros a b; induction a as [|p r IH]; cbn [app batches_of].
  - destruct (batches_of b); reflexivity.
  - destruct p; try reflexivity. rewrite IH.
    destruct (batches_of r), (batches_of b); reflexivity.
Qed.

Lemma edits_of_length : forall recs es, edits_of recs = Some es -> length es = length recs.
Proof.
  intros recs; induction recs as [|p r IH]; intros es H; cbn [edits_of] in H.
  - injection H as <-; reflexivity.
  - destruct p; try discriminate. destruct (edits_of r) eqn:E; [|discriminate].
    injection H as <-. cbn; f_equal; auto.
Qed.

Lemma batches_of_length : forall recs bs, batches_of recs = Some bs -> length bs = length recs.
Proof.
  intros recs; induction recs as [|p r IH]; intros bs H; cbn [batches_of] in H.
  - injection H as <-; reflexivity.
  - destruct p; try discriminate. destruct (batches_of r) eqn:E; [|discriminate].
    injection H as <-. cbn; f_equal; auto.
Qed.

Lemma edits_of_firstn : forall recs es j, edits_of recs = Some es -> edits_of (firstn j recs) = Some (firstn j es).
Proof.
  intros recs; induction recs as [|p r IH]; intros es j H; cbn [edits_of] in H.
  - injection H as <-. rewrite !firstn_nil; reflexivity.
  - destruct p; try discriminate. destruct (edits_of r) eqn:E; [|discriminate].
    injection H as <-. destruct j; [reflexivity|]. cbn [firstn edits_of]. rewrite (IH _ j eq_refl); reflexivity.
Qed.

Lemma batches_of_firstn : forall recs bs j, batches_of recs = Some bs -> batches_of (firstn j recs) = Some (firstn j bs).
Proof.
  intros recs; induction recs as [|p r IH]; intros bs j H; cbn [batches_of] in H.
  - injection H as <-. rewrite !firstn_nil; reflexivity.
  - destruct p; try discriminate. destruct (batches_of r) eqn:E; [|discriminate].
    injection H as <-. destruct j; [reflexivity|]. cbn [firstn batches_of]. rewrite (IH _ j eq_refl); reflexivity.
Qed.

Lemma batches_of_nth : forall recs bs i s ops, batches_of recs = Some bs ->
  nth_error recs i = Some (PBatch s ops) -> nth_error bs i = Some (s, ops).
Proof.
  intros recs; induction recs as [|p r IH]; intros bs i s ops H Hn.
  - destruct i; discriminate.
  - cbn [batches_of] in H. destruct p; try discriminate. destruct (batches_of r) eqn:E; [|discriminate].
    injection H as <-. destruct i; cbn in Hn |- *.
    + injection Hn as -> ->; reflexivity.
    + eapply IH; eauto.
Qed.

Lemma replay_snoc : forall es e, replay (es ++ [e]) = apply_edit (replay es) e.
Proof. intros; unfold replay; rewrite fold_left_app; reflexivity. Qed.

Lemma in_exposed : forall x es ms, edits_of (o_recs x) = Some es -> (o_synced x <= length es)%nat ->
  (In ms (exposed x) <-> exists j, (o_synced x <= j <= length es)%nat /\ ms = replay (firstn j es)).
Proof.
  intros x es ms He Hs; unfold exposed; rewrite He, in_map_iff. split.
  - intros [j [<- Hj]]. apply in_seq in Hj. exists j; split; [lia|reflexivity].
  - intros [j [Hj ->]]. exists j; split; [reflexivity|]. apply in_seq; lia.
Qed.

Lemma exposed_nonempty : forall x es, edits_of (o_recs x) = Some es -> exposed x <> [].
Proof. intros x es He; unfold exposed; rewrite He. cbn [seq map]. discriminate. Qed.

Lemma exposed_typed : forall x, exposed x <> [] -> exists es, edits_of (o_recs x) = Some es.
Proof. intros x H; unfold exposed in H. destruct (edits_of (o_recs x)); [eauto|congruence]. Qed.
