(* Base.v -- common definitions of the lcdb model: bytes, fixed-width
   little-endian integers (src/util/coding.h fixed32 and fixed64 codecs), list helpers.
   Model file: definitions only (proofs live in *Proofs.v files). *)
From Coq Require Export List NArith ZArith Bool Lia.
Export ListNotations.
Local Open Scope N_scope.

(* A byte is an N; well-formed when < 256. *)
Definition byte := N.
Definition bytes := list N.

Definition is_byte (b : N) : bool := b <? 256.
Definition wf_bytes (l : bytes) : bool := forallb is_byte l.

Definition nlen {A} (l : list A) : N := N.of_nat (length l).

(* ---- fixed32 / fixed64 (little endian) ---- *)
Definition le32 (x : N) : bytes :=
  [ x mod 256; (x / 256) mod 256; (x / 65536) mod 256; (x / 16777216) mod 256 ].

Definition le64 (x : N) : bytes :=
  le32 (x mod 4294967296) ++ le32 ((x / 4294967296) mod 4294967296).

Definition de32 (l : bytes) : option N :=
  match l with
  | a :: b :: c :: d :: _ => Some (a + 256 * b + 65536 * c + 16777216 * d)
  | _ => None
  end.

Definition de64 (l : bytes) : option N :=
  match de32 l, de32 (skipn 4 l) with
  | Some lo, Some hi => Some (lo + 4294967296 * hi)
  | _, _ => None
  end.

(* ldb_fixed32_read / ldb_fixed64_read: value and remaining input *)
Definition fixed32_read (l : bytes) : option (N * bytes) :=
  match de32 l with Some v => Some (v, skipn 4 l) | None => None end.
Definition fixed64_read (l : bytes) : option (N * bytes) :=
  match de64 l with Some v => Some (v, skipn 8 l) | None => None end.

(* ---- generic helpers ---- *)
Fixpoint list_eqb {A} (eqb : A -> A -> bool) (a b : list A) : bool :=
  match a, b with
  | [], [] => true
  | x :: a', y :: b' => eqb x y && list_eqb eqb a' b'
  | _, _ => false
  end.

Definition bytes_eqb := list_eqb N.eqb.

(* lexicographic comparison of byte strings = memcmp then length (ldb_slice_compare / ldb_memcmp4) *)
Fixpoint bytes_compare (a b : bytes) : comparison :=
  match a, b with
  | [], [] => Eq
  | [], _ :: _ => Lt
  | _ :: _, [] => Gt
  | x :: a', y :: b' =>
      match N.compare x y with
      | Eq => bytes_compare a' b'
      | c => c
      end
  end.

Definition bytes_ltb (a b : bytes) : bool :=
  match bytes_compare a b with Lt => true | _ => false end.
Definition bytes_leb (a b : bytes) : bool :=
  match bytes_compare a b with Gt => false | _ => true end.

Definition take_n {A} (n : N) (l : list A) : list A := firstn (N.to_nat n) l.
Definition drop_n {A} (n : N) (l : list A) : list A := skipn (N.to_nat n) l.

Definition opt_bind {A B} (o : option A) (f : A -> option B) : option B :=
  match o with Some a => f a | None => None end.
Notation "x <- e ;; k" := (opt_bind e (fun x => k))
  (at level 61, e at next level, right associativity).
Notation "' p <- e ;; k" := (opt_bind e (fun p => k))
  (at level 61, p pattern, e at next level, right associativity).
