(* SkiplistInvInsert.v -- the well-formedness invariant [wf sl order] of the skiplist model
   and its preservation by sl_insert / sl_insert_all; what sl_build produces.
   Used by SkiplistProofs.v. *)
From LCDB Require Import Skiplist SkiplistSpec SkiplistLemmas SkiplistInv.
Require Import Lia ZifyBool ZifyNat ZifyN.
Require Import List Arith.
Import ListNotations.
Local Open Scope nat_scope.

Section InvInsert.
Variable K : Type.
Variable cmp : K -> K -> comparison.
Hypothesis Hord : cmp_order cmp.

(* [order]: the non-head nodes in key order *)
Record wf (sl : skiplist K) (order : list nat) : Prop := {
  wf_len : length (sl_nodes sl) = S (length order);
  wf_nodup : NoDup (0 :: order);
  wf_range : forall y, In y order -> y < length (sl_nodes sl);
  wf_hkey : node_key sl 0 = None;
  wf_hht : node_height sl 0 = MAX_HEIGHT;
  wf_key : forall y, In y order -> node_key sl y <> None;
  wf_ht : forall y, In y order -> 1 <= node_height sl y <= sl_maxh sl;
  wf_maxh : 1 <= sl_maxh sl <= MAX_HEIGHT;
  wf_sorted : srt (nlt cmp sl) order;
  wf_chain : forall l, l < MAX_HEIGHT -> chain sl l (filter (lf sl l) (0 :: order))
}.

Lemma wf_empty : wf sl_empty [].
Proof.
  constructor.
  - reflexivity.
  - constructor; [intros [] | constructor].
  - intros y [].
  - reflexivity.
  - reflexivity.
  - intros y [].
  - intros y [].
  - cbn [sl_empty sl_maxh]. unfold MAX_HEIGHT. lia.
  - exact I.
  - intros l Hl. rewrite filter_cons'. cbn [filter].
    assert (H0 : lf (@sl_empty K) l 0 = true).
    { unfold lf. apply Nat.ltb_lt. exact Hl. }
    rewrite H0. cbn [chain]. split; auto.
    unfold node_next, nodes_next. cbn [sl_empty sl_nodes nth_error nnext hd_error].
    apply nth_repeat'.
Qed.

(* ---- splitting the order by a key ---- *)
Lemma split_exists : forall sl k order,
  srt (nlt cmp sl) order ->
  exists A B, order = A ++ B /\
    Forall (fun y => ka cmp sl k y = true) A /\ Forall (fun y => ka cmp sl k y = false) B.
Proof.
  induction order as [|y r IH]; intros Hs.
  - exists [], []. repeat split; constructor.
  - destruct Hs as [Hy Hr].
    destruct (ka cmp sl k y) eqn:Hk.
    + destruct (IH Hr) as (A & B & -> & HA & HB).
      exists (y :: A), B. repeat split; auto.
    + exists [], (y :: r). repeat split; auto. constructor; auto.
      rewrite Forall_forall in *. intros z Hz.
      destruct (ka cmp sl k z) eqn:Hkz; auto. exfalso.
      specialize (Hy z Hz). unfold nlt in Hy.
      apply ka_true in Hkz. destruct Hkz as (kz & Hkz & Hlt).
      rewrite Hkz in Hy. destruct (node_key sl y) as [ky|] eqn:Hky; [|contradiction].
      apply (ka_false _ _ _ _ _ _ Hk Hky). eapply (co_trans _ _ Hord); eauto.
Qed.

Lemma wf_find_ge : forall sl A B k, wf sl (A ++ B) ->
  Forall (fun y => ka cmp sl k y = true) A -> Forall (fun y => ka cmp sl k y = false) B ->
  find_ge cmp sl k = (hd_error B, map (pred_at sl (0 :: A)) (seq 0 (sl_maxh sl))).
Proof.
  intros sl A B k Hwf HA HB. unfold find_ge.
  pose proof (wf_maxh _ _ Hwf) as Hm. pose proof (wf_hht _ _ Hwf) as Hh.
  rewrite (find_ge_loop_spec K cmp sl k A B HA HB (wf_chain _ _ Hwf)
             (fun y Hy => proj1 (wf_ht _ _ Hwf y Hy)) (sl_fuel sl) [] 0 A).
  - rewrite app_nil_r. replace (S (sl_maxh sl - 1)) with (sl_maxh sl) by lia. reflexivity.
  - reflexivity.
  - lia.
  - lia.
  - unfold sl_fuel. rewrite (wf_len _ _ Hwf), app_length. lia.
Qed.

Lemma wf_find_lt : forall sl A B k, wf sl (A ++ B) ->
  Forall (fun y => ka cmp sl k y = true) A -> Forall (fun y => ka cmp sl k y = false) B ->
  find_lt cmp sl k = last (0 :: A) 0.
Proof.
  intros sl A B k Hwf HA HB. unfold find_lt.
  pose proof (wf_maxh _ _ Hwf) as Hm. pose proof (wf_hht _ _ Hwf) as Hh.
  apply (find_lt_loop_spec K cmp sl k A B HA HB (wf_chain _ _ Hwf)
             (fun y Hy => proj1 (wf_ht _ _ Hwf y Hy)) (sl_fuel sl) [] 0 A).
  - reflexivity.
  - lia.
  - lia.
  - unfold sl_fuel. rewrite (wf_len _ _ Hwf), app_length. lia.
Qed.

Lemma wf_find_last : forall sl order, wf sl order -> find_last sl = last (0 :: order) 0.
Proof.
  intros sl order Hwf. unfold find_last.
  pose proof (wf_maxh _ _ Hwf) as Hm. pose proof (wf_hht _ _ Hwf) as Hh.
  apply (find_last_loop_spec K sl order []) with (a := []) (c := order).
  - rewrite app_nil_r. apply (wf_chain _ _ Hwf).
  - rewrite app_nil_r. intros y Hy. apply (wf_ht _ _ Hwf y Hy).
  - reflexivity.
  - reflexivity.
  - lia.
  - lia.
  - unfold sl_fuel. rewrite (wf_len _ _ Hwf). lia.
Qed.

Lemma wf_level_nodes : forall sl order l, wf sl order -> l < MAX_HEIGHT ->
  level_nodes sl l = filter (lf sl l) order.
Proof.
  intros sl order l Hwf Hl. unfold level_nodes.
  pose proof (wf_chain _ _ Hwf l Hl) as Hc. rewrite filter_cons' in Hc.
  assert (H0 : lf sl l 0 = true).
  { unfold lf. apply Nat.ltb_lt. rewrite (wf_hht _ _ Hwf). exact Hl. }
  rewrite H0 in Hc. destruct Hc as [Hn Hc]. rewrite Hn.
  apply chain_from_spec; auto.
  rewrite (wf_len _ _ Hwf). pose proof (filter_length_le' (lf sl l) order). lia.
Qed.

Lemma wf_level0 : forall sl order, wf sl order -> filter (lf sl 0) order = order.
Proof.
  intros sl order Hwf. apply filter_true. intros y Hy. unfold lf. apply Nat.ltb_lt.
  pose proof (wf_ht _ _ Hwf y Hy). lia.
Qed.

(* ---- keys_of ---- *)
Lemma keys_of_app : forall (sl : skiplist K) a b, keys_of sl (a ++ b) = keys_of sl a ++ keys_of sl b.
Proof.
  induction a as [|y a IH]; intros b; cbn [app keys_of]; auto.
  destruct (node_key sl y); rewrite IH; reflexivity.
Qed.

Lemma keys_of_ext : forall (sl sl' : skiplist K) c,
  (forall y, In y c -> node_key sl' y = node_key sl y) -> keys_of sl' c = keys_of sl c.
Proof.
  induction c as [|y c IH]; intros H; cbn [keys_of]; auto.
  rewrite (H y (or_introl eq_refl)). rewrite IH; auto. intros z Hz. apply H. right; auto.
Qed.

Lemma keys_of_insert : forall sl k A B,
  Forall (fun y => ka cmp sl k y = true) A -> Forall (fun y => ka cmp sl k y = false) B ->
  (forall y, In y B -> node_key sl y <> None) ->
  (forall y ky, In y B -> node_key sl y = Some ky -> cmp ky k <> Eq) ->
  insert_key cmp k (keys_of sl A ++ keys_of sl B) = keys_of sl A ++ k :: keys_of sl B.
Proof.
  induction A as [|a A IH]; intros B HA HB Hkey Hd.
  - cbn [keys_of app]. destruct B as [|b B']; [reflexivity|].
    cbn [keys_of]. destruct (node_key sl b) as [kb|] eqn:Hkb.
    + cbn [insert_key].
      assert (H1 : cmp kb k <> Lt).
      { inversion HB; subst. eapply ka_false; eauto. }
      assert (H2 : cmp kb k <> Eq). { eapply Hd; eauto. left; auto. }
      rewrite (co_antisym _ _ Hord k kb). destruct (cmp kb k); cbn [CompOpp]; congruence.
    + exfalso. apply (Hkey b); auto. left; auto.
  - inversion HA as [|? ? Ha HA']; subst.
    apply ka_true in Ha. destruct Ha as (kx & Hkx & Hlt).
    cbn [keys_of]. rewrite Hkx. cbn [app insert_key].
    rewrite (co_antisym _ _ Hord k kx), Hlt. cbn [CompOpp]. f_equal. apply IH; auto.
Qed.

(* ---- sl_insert preserves the invariant ---- *)
Lemma insert_wf : forall sl order k h,
  wf sl order -> 1 <= h <= MAX_HEIGHT ->
  (forall y ky, In y order -> node_key sl y = Some ky -> cmp ky k <> Eq) ->
  exists A B, order = A ++ B /\
    Forall (fun y => ka cmp sl k y = true) A /\ Forall (fun y => ka cmp sl k y = false) B /\
    wf (sl_insert cmp sl k h) (A ++ length (sl_nodes sl) :: B) /\
    length (sl_nodes (sl_insert cmp sl k h)) = S (length (sl_nodes sl)) /\
    (forall y, node_key (sl_insert cmp sl k h) y
               = if y =? length (sl_nodes sl) then Some k else node_key sl y) /\
    (forall y, node_height (sl_insert cmp sl k h) y
               = if y =? length (sl_nodes sl) then h else node_height sl y) /\
    sl_maxh (sl_insert cmp sl k h) = Nat.max (sl_maxh sl) h.
Proof.
  intros sl order k h Hwf Hh Hdist.
  destruct (split_exists sl k order (wf_sorted _ _ Hwf)) as (A & B & -> & HA & HB).
  exists A, B. split; [reflexivity|]. split; [exact HA|]. split; [exact HB|].
  pose proof (wf_find_ge sl A B k Hwf HA HB) as Hfg.
  pose proof (wf_maxh _ _ Hwf) as Hm. pose proof (wf_hht _ _ Hwf) as Hhh.
  pose proof (wf_len _ _ Hwf) as Hlen.
  set (xn := length (sl_nodes sl)) in *.
  set (pr := pred_at sl (0 :: A)).
  set (ns0 := sl_nodes sl ++ [mkNode (Some k) (repeat None h)]).
  assert (Hsl' : sl_insert cmp sl k h
                 = mkSL (link_loop ns0 xn (map pr (seq 0 h)) 0)
                        (if sl_maxh sl <? h then h else sl_maxh sl)).
  { unfold sl_insert. rewrite Hfg. cbv beta iota zeta. rewrite prev_firstn; [reflexivity|].
    intros y Hy. apply (wf_ht _ _ Hwf). apply in_or_app; left; auto. }
  (* the arena before linking *)
  assert (Hnth0 : forall y, nth_error ns0 y
            = if y =? xn then Some (mkNode (Some k) (repeat None h)) else nth_error (sl_nodes sl) y).
  { intros y. unfold ns0. destruct (Nat.eqb_spec y xn) as [->|Hne].
    - rewrite nth_error_app2 by (unfold xn; lia).
      replace (xn - length (sl_nodes sl)) with 0 by (unfold xn; lia). reflexivity.
    - destruct (lt_dec y xn) as [Hlt|Hge].
      + apply nth_error_app1. exact Hlt.
      + transitivity (@None (snode K)).
        * apply nth_error_None. rewrite app_length. cbn [length]. fold xn. lia.
        * symmetry. apply nth_error_None. fold xn. lia. }
  assert (Hh0 : forall y, nheight ns0 y = if y =? xn then h else node_height sl y).
  { intros y. unfold nheight, node_height. rewrite Hnth0.
    destruct (y =? xn); [|reflexivity]. cbn [nnext]. apply repeat_length. }
  assert (Hk0 : forall y, nkeyof ns0 y = if y =? xn then Some k else node_key sl y).
  { intros y. unfold nkeyof, node_key. rewrite Hnth0. destruct (y =? xn); reflexivity. }
  assert (Hn0 : forall y l, nodes_next ns0 y l = if y =? xn then None else node_next sl y l).
  { intros y l. unfold node_next, nodes_next. rewrite Hnth0.
    destruct (y =? xn); [|reflexivity]. cbn [nnext]. apply nth_repeat'. }
  assert (Hpr_in : forall i, pr i = 0 \/ In (pr i) A) by (intros; apply pred_at_in).
  assert (Hpr_lt : forall i, pr i < xn).
  { intros i. destruct (Hpr_in i) as [->|Hin]; [lia|].
    apply (wf_range _ _ Hwf). apply in_or_app; auto. }
  destruct (link_loop_spec K xn (map pr (seq 0 h)) 0 ns0) as (Llen & Lh & Lk & Ln).
  { intros j Hj. rewrite map_length, seq_length in Hj. rewrite nth_map_seq by auto.
    specialize (Hpr_lt (0 + j)). lia. }
  { intros j Hj. rewrite map_length, seq_length in Hj. rewrite nth_map_seq by auto.
    cbn [Nat.add]. rewrite Hh0.
    destruct (Nat.eqb_spec (pr j) xn) as [E|_]; [specialize (Hpr_lt j); lia|].
    assert (Hlf : lf sl j (pr j) = true) by (apply pred_at_lf; lia).
    unfold lf in Hlf. apply Nat.ltb_lt in Hlf. exact Hlf. }
  { intros j Hj. rewrite map_length, seq_length in Hj. rewrite Hh0, Nat.eqb_refl. lia. }
  rewrite map_length, seq_length in Ln.
  remember (sl_insert cmp sl k h) as sl' eqn:Esl0. clear Esl0. rename Hsl' into Esl'.
  assert (Hnodes' : sl_nodes sl' = link_loop ns0 xn (map pr (seq 0 h)) 0) by (rewrite Esl'; reflexivity).
  assert (Hmaxh' : sl_maxh sl' = Nat.max (sl_maxh sl) h).
  { rewrite Esl'. cbn [sl_maxh]. destruct (Nat.ltb_spec (sl_maxh sl) h); lia. }
  assert (Hlen' : length (sl_nodes sl') = S xn).
  { rewrite Hnodes', Llen. unfold ns0. rewrite app_length. cbn [length]. fold xn. lia. }
  assert (Hkey' : forall y, node_key sl' y = if y =? xn then Some k else node_key sl y).
  { intros y. change (node_key sl' y) with (nkeyof (sl_nodes sl') y).
    rewrite Hnodes', Lk. apply Hk0. }
  assert (Hheight' : forall y, node_height sl' y = if y =? xn then h else node_height sl y).
  { intros y. change (node_height sl' y) with (nheight (sl_nodes sl') y).
    rewrite Hnodes', Lh. apply Hh0. }
  assert (Hnext' : forall y l, node_next sl' y l =
      if l <? h then (if y =? xn then node_next sl (pr l) l
                      else if y =? pr l then Some xn else node_next sl y l)
      else if y =? xn then None else node_next sl y l).
  { intros y l. unfold node_next at 1. rewrite Hnodes', Ln. cbn [Nat.leb Nat.add andb].
    rewrite Nat.sub_0_r.
    destruct (Nat.ltb_spec l h) as [Hl|Hl].
    - rewrite nth_map_seq by auto. cbn [Nat.add]. rewrite !Hn0.
      destruct (Nat.eqb_spec (pr l) xn) as [E|_]; [specialize (Hpr_lt l); lia|].
      destruct (y =? xn); [reflexivity|]. destruct (y =? pr l); reflexivity.
    - apply Hn0. }
  clear Esl' Hnodes' Llen Lh Lk Ln.
  assert (Hxn_notin : ~ In xn (0 :: A ++ B)).
  { intros [H|H]; [lia|]. apply (wf_range _ _ Hwf) in H. fold xn in H. lia. }
  assert (Hold_key : forall y, In y (0 :: A ++ B) -> node_key sl' y = node_key sl y).
  { intros y Hy. rewrite Hkey'. destruct (Nat.eqb_spec y xn) as [->|_]; [contradiction|reflexivity]. }
  assert (Hold_ht : forall y, In y (0 :: A ++ B) -> node_height sl' y = node_height sl y).
  { intros y Hy. rewrite Hheight'. destruct (Nat.eqb_spec y xn) as [->|_]; [contradiction|reflexivity]. }
  assert (Hxn_key : node_key sl' xn = Some k) by (rewrite Hkey', Nat.eqb_refl; reflexivity).
  assert (Hxn_ht : node_height sl' xn = h) by (rewrite Hheight', Nat.eqb_refl; reflexivity).
  split; [|repeat split; auto].
  constructor.
  - (* wf_len *) rewrite Hlen', Hlen, !app_length. cbn [length]. lia.
  - (* wf_nodup *)
    change (0 :: A ++ xn :: B) with ((0 :: A) ++ xn :: B).
    apply (NoDup_Add (a := xn) (l := (0 :: A) ++ B)); [apply Add_app|].
    split; [exact (wf_nodup _ _ Hwf) | exact Hxn_notin].
  - (* wf_range *)
    intros y Hy. rewrite Hlen'. apply in_app_or in Hy. destruct Hy as [Hy|[<-|Hy]]; [|lia|].
    + assert (y < xn); [|lia]. apply (wf_range _ _ Hwf). apply in_or_app; auto.
    + assert (y < xn); [|lia]. apply (wf_range _ _ Hwf). apply in_or_app; auto.
  - (* wf_hkey *) rewrite Hold_key by (left; auto). exact (wf_hkey _ _ Hwf).
  - (* wf_hht *) rewrite Hold_ht by (left; auto). exact Hhh.
  - (* wf_key *)
    intros y Hy. apply in_app_or in Hy. destruct Hy as [Hy|[<-|Hy]].
    + rewrite Hold_key by (right; apply in_or_app; auto).
      apply (wf_key _ _ Hwf). apply in_or_app; auto.
    + rewrite Hxn_key. discriminate.
    + rewrite Hold_key by (right; apply in_or_app; auto).
      apply (wf_key _ _ Hwf). apply in_or_app; auto.
  - (* wf_ht *)
    intros y Hy. rewrite Hmaxh'. apply in_app_or in Hy. destruct Hy as [Hy|[<-|Hy]].
    + rewrite Hold_ht by (right; apply in_or_app; auto).
      assert (In y (A ++ B)) as Hin by (apply in_or_app; auto).
      pose proof (wf_ht _ _ Hwf y Hin). lia.
    + rewrite Hxn_ht. lia.
    + rewrite Hold_ht by (right; apply in_or_app; auto).
      assert (In y (A ++ B)) as Hin by (apply in_or_app; auto).
      pose proof (wf_ht _ _ Hwf y Hin). lia.
  - (* wf_maxh *) rewrite Hmaxh'. lia.
  - (* wf_sorted *)
    assert (Hs : srt (nlt cmp sl') (A ++ B)).
    { apply srt_impl_in with (R := nlt cmp sl); [|exact (wf_sorted _ _ Hwf)].
      intros a b Ha Hb. unfold nlt.
      rewrite (Hold_key a) by (right; auto). rewrite (Hold_key b) by (right; auto). auto. }
    apply srt_app in Hs. destruct Hs as (HsA & HsB & HAB).
    apply srt_app. split; [exact HsA|]. split.
    + cbn [srt]. split; [|exact HsB].
      rewrite Forall_forall. intros b Hb. unfold nlt. rewrite Hxn_key.
      rewrite Hold_key by (right; apply in_or_app; auto).
      assert (Hbin : In b (A ++ B)) by (apply in_or_app; auto).
      destruct (node_key sl b) as [kb|] eqn:Hkb; [|exact (wf_key _ _ Hwf b Hbin Hkb)].
      assert (H1 : cmp kb k <> Lt).
      { apply (ka_false K cmp sl k b kb); [|exact Hkb]. rewrite Forall_forall in HB. apply HB; auto. }
      assert (H2 : cmp kb k <> Eq) by (eapply Hdist; eauto).
      rewrite (co_antisym _ _ Hord k kb). destruct (cmp kb k); cbn [CompOpp]; congruence.
    + rewrite Forall_forall in *. intros a Ha. constructor; [|apply HAB; auto].
      unfold nlt. rewrite Hxn_key. rewrite Hold_key by (right; apply in_or_app; auto).
      destruct (ka_true _ _ _ _ _ (HA a Ha)) as (kx & Hkx & Hlt). rewrite Hkx. exact Hlt.
  - (* wf_chain *)
    intros l Hl.
    assert (Hlf' : forall y, In y (0 :: A ++ B) -> lf sl' l y = lf sl l y).
    { intros y Hy. unfold lf. rewrite Hold_ht; auto. }
    pose proof (wf_chain _ _ Hwf l Hl) as Hc.
    assert (Hnd : NoDup (filter (lf sl l) (0 :: A ++ B))) by (apply NoDup_filter; exact (wf_nodup _ _ Hwf)).
    assert (Hni : ~ In xn (filter (lf sl l) (0 :: A ++ B))).
    { intros H. apply filter_In in H. tauto. }
    change (0 :: A ++ B) with ((0 :: A) ++ B) in Hc, Hnd, Hni.
    rewrite filter_app in Hc, Hnd, Hni.
    change (0 :: A ++ xn :: B) with ((0 :: A) ++ xn :: B).
    rewrite filter_app, (filter_cons' _ xn B).
    rewrite (filter_ext_in (lf sl' l) (lf sl l) (0 :: A))
      by (intros y Hy; apply Hlf'; destruct Hy as [<-|Hy]; [left; auto | right; apply in_or_app; auto]).
    rewrite (filter_ext_in (lf sl' l) (lf sl l) B)
      by (intros y Hy; apply Hlf'; right; apply in_or_app; auto).
    unfold lf at 2. rewrite Hxn_ht.
    destruct (Nat.ltb_spec l h) as [Hlh|Hlh].
    + (* the new node is spliced in after pr l *)
      assert (HF : filter (lf sl l) (0 :: A) <> []).
      { rewrite filter_cons'. assert (H0 : lf sl l 0 = true) by (unfold lf; apply Nat.ltb_lt; lia).
        rewrite H0. discriminate. }
      destruct (exists_last HF) as (F0 & p & HFp).
      assert (Hp : pr l = p). { unfold pr, pred_at. rewrite HFp. apply last_last. }
      rewrite HFp in *. rewrite <- app_assoc in *. cbn [app] in *.
      apply chain_splice with (sl := sl); auto.
      * intros y Hy1 Hy2. rewrite Hnext'. destruct (Nat.ltb_spec l h); [|lia].
        destruct (Nat.eqb_spec y xn); [contradiction|].
        destruct (Nat.eqb_spec y (pr l)); [congruence|]. reflexivity.
      * rewrite Hnext'. destruct (Nat.ltb_spec l h); [|lia].
        destruct (Nat.eqb_spec p xn) as [E|_]; [specialize (Hpr_lt l); lia|].
        rewrite Hp, Nat.eqb_refl. reflexivity.
      * rewrite Hnext'. destruct (Nat.ltb_spec l h); [|lia].
        rewrite Nat.eqb_refl, Hp. reflexivity.
    + (* level untouched *)
      apply chain_ext with (sl := sl); [|exact Hc].
      intros y Hy. rewrite Hnext'. destruct (Nat.ltb_spec l h); [lia|].
      destruct (Nat.eqb_spec y xn) as [->|_]; [contradiction|reflexivity].
Qed.


Lemma fold_right_max_init : forall r m h,
  fold_right Nat.max (Nat.max m h) r = Nat.max h (fold_right Nat.max m r).
Proof. induction r as [|x r IH]; intros m h; cbn [fold_right]; [lia|]. rewrite IH. lia. Qed.

(* ---- sl_insert_all from a well-formed state ---- *)
Lemma insert_all_wf : forall keys hs sl order,
  wf sl order -> length hs = length keys -> Forall (fun h => 1 <= h <= MAX_HEIGHT) hs ->
  keys_distinct cmp keys ->
  (forall y ky, In y order -> node_key sl y = Some ky -> Forall (fun x => cmp ky x <> Eq) keys) ->
  exists order',
    wf (sl_insert_all cmp sl keys hs) order' /\
    keys_of (sl_insert_all cmp sl keys hs) order'
      = fold_left (fun acc k => insert_key cmp k acc) keys (keys_of sl order) /\
    length (sl_nodes (sl_insert_all cmp sl keys hs)) = length (sl_nodes sl) + length keys /\
    (forall y, y < length (sl_nodes sl) ->
       node_height (sl_insert_all cmp sl keys hs) y = node_height sl y) /\
    map (node_height (sl_insert_all cmp sl keys hs)) (seq (length (sl_nodes sl)) (length keys)) = hs /\
    sl_maxh (sl_insert_all cmp sl keys hs) = fold_right Nat.max (sl_maxh sl) hs.
Proof.
  induction keys as [|k keys IH]; intros hs sl order Hwf Hlen Hhs Hdist Hex.
  - destruct hs; [|cbn [length] in Hlen; lia].
    cbn [sl_insert_all fold_left length seq map fold_right]. exists order.
    split; [exact Hwf|]. split; [reflexivity|]. split; [lia|]. split; [auto|]. split; reflexivity.
  - destruct hs as [|h hs]; [cbn [length] in Hlen; lia|].
    cbn [sl_insert_all].
    inversion Hhs as [|? ? Hh Hhs']; subst.
    destruct Hdist as [Hk Hdist'].
    destruct (insert_wf sl order k h Hwf Hh) as (A & B & -> & HA & HB & Hwf1 & Hlen1 & Hkey1 & Hht1 & Hmax1).
    { intros y ky Hy Hky. specialize (Hex y ky Hy Hky). inversion Hex; auto. }
    set (sl1 := sl_insert cmp sl k h) in *.
    set (xn := length (sl_nodes sl)) in *.
    destruct (IH hs sl1 (A ++ xn :: B) Hwf1) as (order' & Hwf' & Hkeys' & Hlen' & Hold' & Hmap' & Hmax'); auto.
    { intros y ky Hy Hky. rewrite Hkey1 in Hky.
      destruct (Nat.eqb_spec y xn) as [->|Hne].
      - injection Hky as <-. exact Hk.
      - assert (Hy' : In y (A ++ B)).
        { apply in_app_or in Hy. apply in_or_app. destruct Hy as [Hy|[Hy|Hy]]; auto. congruence. }
        specialize (Hex y ky Hy' Hky). inversion Hex; auto. }
    exists order'. split; [exact Hwf'|]. split; [|split; [|split; [|split]]].
    + rewrite Hkeys'. cbn [fold_left]. f_equal.
      rewrite keys_of_app. cbn [keys_of]. rewrite Hkey1, Nat.eqb_refl.
      assert (Hxn_notin : ~ In xn (A ++ B)).
      { intros H. apply (wf_range _ _ Hwf) in H. fold xn in H. lia. }
      assert (Hext : forall c, (forall y, In y c -> In y (A ++ B)) -> keys_of sl1 c = keys_of sl c).
      { intros c Hc. apply keys_of_ext. intros y Hy. rewrite Hkey1.
        destruct (Nat.eqb_spec y xn) as [->|_]; [|reflexivity].
        exfalso. apply Hxn_notin. auto. }
      rewrite (Hext A) by (intros; apply in_or_app; auto).
      rewrite (Hext B) by (intros; apply in_or_app; auto).
      rewrite keys_of_app. symmetry. apply keys_of_insert; auto.
      * intros y Hy. apply (wf_key _ _ Hwf). apply in_or_app; auto.
      * intros y ky Hy Hky. assert (Hy' : In y (A ++ B)) by (apply in_or_app; auto).
        specialize (Hex y ky Hy' Hky). inversion Hex; auto.
    + rewrite Hlen', Hlen1. cbn [length]. lia.
    + intros y Hy. rewrite Hold' by (rewrite Hlen1; lia). rewrite Hht1.
      destruct (Nat.eqb_spec y xn); [lia|reflexivity].
    + cbn [length seq map]. f_equal.
      * rewrite Hold' by (rewrite Hlen1; lia). rewrite Hht1, Nat.eqb_refl. reflexivity.
      * rewrite Hlen1 in Hmap'. exact Hmap'.
    + rewrite Hmax', Hmax1. cbn [fold_right]. apply fold_right_max_init.
Qed.

Lemma build_wf : forall keys hs, keys_distinct cmp keys -> heights_ok keys hs ->
  exists order,
    wf (sl_build cmp keys hs) order /\
    keys_of (sl_build cmp keys hs) order = sort_keys cmp keys /\
    length order = length keys /\
    map (node_height (sl_build cmp keys hs)) (seq 1 (length keys)) = hs /\
    sl_maxh (sl_build cmp keys hs) = fold_right Nat.max 1 hs.
Proof.
  intros keys hs Hd [Hlen Hhs]. unfold sl_build.
  destruct (insert_all_wf keys hs sl_empty [] wf_empty Hlen Hhs Hd)
    as (order & Hwf & Hkeys & Hl & _ & Hmap & Hmax).
  { intros y ky []. }
  exists order. split; [exact Hwf|]. split; [exact Hkeys|]. split; [|split].
  - pose proof (wf_len _ _ Hwf) as H. rewrite Hl in H. cbn [sl_empty sl_nodes length] in H. lia.
  - exact Hmap.
  - exact Hmax.
Qed.

End InvInsert.
