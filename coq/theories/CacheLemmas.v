(* CacheLemmas.v -- list / heap / arithmetic lemmas used by CacheInv.v and CacheProofs.v. *)
From LCDB Require Import Base BaseProofs Cache CacheSpec.
From Coq Require Import Lia ZifyBool ZifyNat ZifyN Permutation.
Local Open Scope N_scope.

Ltac Zify.zify_post_hook ::= Z.div_mod_to_equations.

#[local] Arguments N.mul : simpl never.
#[local] Arguments N.add : simpl never.
#[local] Arguments N.div : simpl never.
#[local] Arguments N.modulo : simpl never.
#[local] Arguments N.ltb : simpl never.
#[local] Arguments N.pow : simpl never.

(* ------------------------------------------------------------------ *)
(* ldb_hash is a 32-bit value, hence shard_index < 16                   *)
(* ------------------------------------------------------------------ *)
Lemma lxor_lt_two32 : forall a b, a < two32 -> b < two32 -> N.lxor a b < two32.
Proof.
  intros a b Ha Hb. change two32 with (2 ^ 32) in *.
  destruct (N.eq_dec (N.lxor a b) 0) as [E|E].
  - rewrite E. reflexivity.
  - apply N.log2_lt_pow2; [lia|].
    eapply N.le_lt_trans; [apply N.log2_lxor|].
    apply N.max_lub_lt.
    + destruct (N.eq_dec a 0) as [->|Na]; [reflexivity|].
      apply N.log2_lt_pow2; [lia|exact Ha].
    + destruct (N.eq_dec b 0) as [->|Nb]; [reflexivity|].
      apply N.log2_lt_pow2; [lia|exact Hb].
Qed.

Lemma mod_two32_lt : forall x, x mod two32 < two32.
Proof. intros x. apply N.mod_lt. discriminate. Qed.

Lemma div_two32_lt : forall x c, x < two32 -> x / c < two32.
Proof.
  intros x c Hx. eapply N.le_lt_trans; [|exact Hx].
  destruct (N.eq_dec c 0) as [->|Hc].
  - destruct x; cbn; lia.
  - apply N.div_le_upper_bound; [exact Hc|]. nia.
Qed.

Lemma hash_mix_lt : forall x c, N.lxor (x mod two32) ((x mod two32) / c) < two32.
Proof.
  intros x c. apply lxor_lt_two32; [apply mod_two32_lt|].
  apply div_two32_lt, mod_two32_lt.
Qed.

Lemma hash_loop_lt : forall n l h, (length l <= n)%nat -> h < two32 -> hash_loop l h < two32.
Proof.
  induction n as [|n IH]; intros l h Hl Hh.
  - destruct l as [|a l]; [exact Hh | cbn [length] in Hl; lia].
  - destruct l as [|a [|b [|c [|d rest]]]].
    + exact Hh.
    + cbn [hash_loop]. apply hash_mix_lt.
    + cbn [hash_loop]. apply hash_mix_lt.
    + cbn [hash_loop]. apply hash_mix_lt.
    + cbn [hash_loop]. apply IH; [cbn [length] in Hl; lia|]. apply hash_mix_lt.
Qed.

Lemma ldb_hash0_lt : forall data, ldb_hash data 0 < two32.
Proof.
  intros data. unfold ldb_hash. apply hash_loop_lt with (n := length data); [lia|].
  rewrite N.lxor_0_l. apply mod_two32_lt.
Qed.

Lemma shard_index_lt : forall k, (shard_index k < 16)%nat.
Proof.
  intros k. unfold shard_index. pose proof (ldb_hash0_lt k) as H. unfold two32 in H.
  assert (ldb_hash k 0 / 268435456 < 16) by (apply N.div_lt_upper_bound; lia).
  lia.
Qed.

(* ------------------------------------------------------------------ *)
(* heap_get / heap_set / heap_del                                       *)
(* ------------------------------------------------------------------ *)
Lemma heap_get_some : forall h id e, heap_get h id = Some e -> In e h /\ ce_id e = id.
Proof.
  unfold heap_get. intros h id e H. apply find_some in H. destruct H as [H1 H2].
  split; [exact H1|]. apply N.eqb_eq. exact H2.
Qed.

Lemma heap_get_none : forall h id, heap_get h id = None -> forall e, In e h -> ce_id e <> id.
Proof.
  unfold heap_get. intros h id H e He. pose proof (find_none _ _ H e He) as H1.
  cbv beta in H1. apply N.eqb_neq. exact H1.
Qed.

Lemma nodup_id_inj : forall h e1 e2, NoDup (map ce_id h) -> In e1 h -> In e2 h ->
  ce_id e1 = ce_id e2 -> e1 = e2.
Proof.
  induction h as [|a t IH]; cbn [map In]; intros e1 e2 Hnd H1 H2 Heq; [contradiction|].
  inversion Hnd as [|x l Hnot Hnd']; subst.
  destruct H1 as [H1|H1], H2 as [H2|H2]; subst.
  - reflexivity.
  - exfalso. apply Hnot. rewrite Heq. apply in_map. exact H2.
  - exfalso. apply Hnot. rewrite <- Heq. apply in_map. exact H1.
  - apply IH; assumption.
Qed.

Lemma heap_get_in : forall h e, NoDup (map ce_id h) -> In e h -> heap_get h (ce_id e) = Some e.
Proof.
  intros h e Hnd He. destruct (heap_get h (ce_id e)) as [x|] eqn:E.
  - apply heap_get_some in E. destruct E as [E1 E2]. f_equal.
    apply (nodup_id_inj h); assumption.
  - exfalso. exact (heap_get_none _ _ E e He eq_refl).
Qed.

Lemma heap_get_notin : forall h id, (forall e, In e h -> ce_id e <> id) -> heap_get h id = None.
Proof.
  intros h id H. destruct (heap_get h id) as [x|] eqn:E; [|reflexivity].
  apply heap_get_some in E. destruct E as [E1 E2]. exfalso. exact (H x E1 E2).
Qed.

Lemma heap_set_ids : forall h e, map ce_id (heap_set h e) = map ce_id h.
Proof.
  intros h e. unfold heap_set. rewrite map_map. apply map_ext. intros a.
  destruct (N.eqb_spec (ce_id a) (ce_id e)) as [E|E]; [symmetry; exact E|reflexivity].
Qed.

Lemma in_heap_set : forall h e' x, In x (heap_set h e') <->
  (x = e' /\ exists y, In y h /\ ce_id y = ce_id e') \/ (In x h /\ ce_id x <> ce_id e').
Proof.
  intros h e' x. unfold heap_set. rewrite in_map_iff. split.
  - intros [y [Hy Hin]]. destruct (N.eqb_spec (ce_id y) (ce_id e')) as [E|E]; subst.
    + left. split; [reflexivity|]. exists y. split; assumption.
    + right. split; assumption.
  - intros [[Hx [y [Hy E]]] | [Hin Hne]].
    + subst x. exists y. rewrite (proj2 (N.eqb_eq _ _) E). split; [reflexivity|exact Hy].
    + exists x. rewrite (proj2 (N.eqb_neq _ _) Hne). split; [reflexivity|exact Hin].
Qed.

Lemma in_heap_del : forall h id x, In x (heap_del h id) <-> In x h /\ ce_id x <> id.
Proof.
  intros h id x. unfold heap_del. rewrite filter_In. rewrite negb_true_iff, N.eqb_neq. reflexivity.
Qed.

Lemma heap_del_ids : forall h id, map ce_id (heap_del h id) = filter (fun x => negb (x =? id)) (map ce_id h).
Proof.
  intros h id. unfold heap_del. induction h as [|a t IH]; [reflexivity|].
  cbn [filter map]. destruct (ce_id a =? id); cbn [negb map]; rewrite IH; reflexivity.
Qed.

Lemma heap_del_nodup : forall h id, NoDup (map ce_id h) -> NoDup (map ce_id (heap_del h id)).
Proof. intros h id H. rewrite heap_del_ids. apply NoDup_filter. exact H. Qed.

Lemma heap_del_notin : forall h id, (forall e, In e h -> ce_id e <> id) -> heap_del h id = h.
Proof.
  unfold heap_del. induction h as [|a t IH]; intros id H; [reflexivity|].
  cbn [filter]. rewrite (proj2 (N.eqb_neq _ _) (H a (or_introl eq_refl))). cbn [negb].
  f_equal. apply IH. intros e He. apply H. right. exact He.
Qed.

Lemma heap_set_notin : forall h e', (forall e, In e h -> ce_id e <> ce_id e') -> heap_set h e' = h.
Proof.
  unfold heap_set. induction h as [|a t IH]; intros e' H; [reflexivity|].
  cbn [map]. rewrite (proj2 (N.eqb_neq _ _) (H a (or_introl eq_refl))).
  f_equal. apply IH. intros e He. apply H. right. exact He.
Qed.

Lemma nodup_cons_ids : forall a t, NoDup (map ce_id (a :: t)) ->
  NoDup (map ce_id t) /\ forall e, In e t -> ce_id e <> ce_id a.
Proof.
  intros a t H. cbn [map] in H. inversion H as [|x l Hnot Hnd]; subst. split; [exact Hnd|].
  intros e He E. apply Hnot. rewrite <- E. apply in_map. exact He.
Qed.

Lemma heap_perm_del : forall h id e, NoDup (map ce_id h) -> In e h -> ce_id e = id ->
  Permutation h (e :: heap_del h id).
Proof.
  induction h as [|a t IH]; intros id e Hnd Hin Hid; [contradiction|].
  destruct (nodup_cons_ids _ _ Hnd) as [Hnd' Hnot].
  destruct Hin as [Ha|Hin].
  - subst a. unfold heap_del. cbn [filter]. rewrite Hid, N.eqb_refl. cbn [negb].
    fold (heap_del t id). rewrite heap_del_notin; [reflexivity|].
    intros x Hx. rewrite <- Hid. apply Hnot. exact Hx.
  - unfold heap_del. cbn [filter]. fold (heap_del t id).
    destruct (N.eqb_spec (ce_id a) id) as [E|E].
    + exfalso. apply (Hnot e Hin). congruence.
    + cbn [negb]. eapply perm_trans; [apply perm_skip; apply (IH id e Hnd' Hin Hid)|].
      apply perm_swap.
Qed.

Lemma heap_set_perm : forall h e' e, NoDup (map ce_id h) -> In e h -> ce_id e = ce_id e' ->
  Permutation (heap_set h e') (e' :: heap_del h (ce_id e')).
Proof.
  induction h as [|a t IH]; intros e' e Hnd Hin Hid; [contradiction|].
  destruct (nodup_cons_ids _ _ Hnd) as [Hnd' Hnot].
  destruct Hin as [Ha|Hin].
  - subst a. unfold heap_set, heap_del. cbn [map filter]. rewrite Hid, N.eqb_refl. cbn [negb].
    fold (heap_set t e'). fold (heap_del t (ce_id e')).
    rewrite heap_set_notin, heap_del_notin; [reflexivity| |];
      intros x Hx; rewrite <- Hid; apply Hnot; exact Hx.
  - unfold heap_set, heap_del. cbn [map filter].
    fold (heap_set t e'). fold (heap_del t (ce_id e')).
    destruct (N.eqb_spec (ce_id a) (ce_id e')) as [E|E].
    + exfalso. apply (Hnot e Hin). congruence.
    + cbn [negb]. eapply perm_trans; [apply perm_skip; apply (IH e' e Hnd' Hin Hid)|].
      apply perm_swap.
Qed.

Lemma nodup_ids_snoc : forall h e, NoDup (map ce_id h) -> (forall x, In x h -> ce_id x <> ce_id e) ->
  NoDup (map ce_id (h ++ [e])).
Proof.
  intros h e Hnd Hnot. rewrite map_app. cbn [map].
  apply (Permutation_NoDup (l := ce_id e :: map ce_id h)).
  - apply Permutation_cons_append.
  - constructor; [|exact Hnd]. intros Hin. apply in_map_iff in Hin.
    destruct Hin as [x [Hx Hin]]. exact (Hnot x Hin Hx).
Qed.

(* ------------------------------------------------------------------ *)
(* list_remove                                                          *)
(* ------------------------------------------------------------------ *)
Lemma in_list_remove : forall id l x, In x (list_remove id l) <-> In x l /\ x <> id.
Proof.
  intros id l x. unfold list_remove. rewrite filter_In, negb_true_iff, N.eqb_neq. reflexivity.
Qed.

Lemma list_remove_nodup : forall id l, NoDup l -> NoDup (list_remove id l).
Proof. intros id l H. apply NoDup_filter. exact H. Qed.

Lemma list_remove_notin : forall id l, ~ In id l -> list_remove id l = l.
Proof.
  unfold list_remove. induction l as [|a t IH]; intros H; [reflexivity|].
  cbn [filter]. destruct (N.eqb_spec a id) as [E|E].
  - exfalso. apply H. left. exact E.
  - cbn [negb]. f_equal. apply IH. intros Hin. apply H. right. exact Hin.
Qed.

Lemma list_remove_head : forall id t, NoDup (id :: t) -> list_remove id (id :: t) = t.
Proof.
  intros id t H. inversion H as [|x l Hnot Hnd]; subst.
  unfold list_remove. cbn [filter]. rewrite N.eqb_refl. cbn [negb].
  apply list_remove_notin. exact Hnot.
Qed.

Lemma nodup_snoc : forall (l : list N) x, NoDup l -> ~ In x l -> NoDup (l ++ [x]).
Proof.
  intros l x Hnd Hnot. apply (Permutation_NoDup (l := x :: l)).
  - apply Permutation_cons_append.
  - constructor; assumption.
Qed.

(* ------------------------------------------------------------------ *)
(* sums of charges                                                      *)
(* ------------------------------------------------------------------ *)
Definition icc (e : centry) : N := if ce_in_cache e then ce_charge e else 0.
Definition icsum (h : list centry) : N := sum_charges (filter ce_in_cache h).

Lemma icsum_cons : forall e h, icsum (e :: h) = icc e + icsum h.
Proof.
  intros e h. unfold icsum, icc, sum_charges. cbn [filter]. destruct (ce_in_cache e); cbn [fold_right]; lia.
Qed.

Lemma icsum_nil : icsum [] = 0.
Proof. reflexivity. Qed.

Lemma icsum_perm : forall h h', Permutation h h' -> icsum h = icsum h'.
Proof.
  intros h h' H. induction H as [|x l l' H IH|x y l|l l' l'' H1 IH1 H2 IH2].
  - reflexivity.
  - rewrite !icsum_cons, IH. reflexivity.
  - rewrite !icsum_cons. lia.
  - congruence.
Qed.

Lemma icsum_app : forall a b, icsum (a ++ b) = icsum a + icsum b.
Proof.
  induction a as [|x a IH]; intros b; [rewrite icsum_nil; cbn [app]; lia|].
  cbn [app]. rewrite !icsum_cons, IH. lia.
Qed.

Lemma icsum_del : forall h id e, NoDup (map ce_id h) -> In e h -> ce_id e = id ->
  icsum h = icc e + icsum (heap_del h id).
Proof.
  intros h id e Hnd Hin Hid. rewrite (icsum_perm _ _ (heap_perm_del h id e Hnd Hin Hid)).
  apply icsum_cons.
Qed.

Lemma icsum_set : forall h e' e, NoDup (map ce_id h) -> In e h -> ce_id e = ce_id e' ->
  icsum (heap_set h e') = icc e' + icsum (heap_del h (ce_id e')).
Proof.
  intros h e' e Hnd Hin Hid. rewrite (icsum_perm _ _ (heap_set_perm h e' e Hnd Hin Hid)).
  apply icsum_cons.
Qed.

Lemma icsum_zero : forall h, (forall e, In e h -> ce_in_cache e = false) -> icsum h = 0.
Proof.
  induction h as [|a t IH]; intros H; [reflexivity|].
  rewrite icsum_cons, IH; [|intros e He; apply H; right; exact He].
  unfold icc. rewrite (H a (or_introl eq_refl)). reflexivity.
Qed.

(* kv multisets *)
Lemma kv_del_perm : forall h id e, NoDup (map ce_id h) -> In e h -> ce_id e = id ->
  Permutation (map kv h) (kv e :: map kv (heap_del h id)).
Proof.
  intros h id e Hnd Hin Hid.
  exact (Permutation_map kv (heap_perm_del h id e Hnd Hin Hid)).
Qed.

Lemma kv_set_perm : forall h e' e, NoDup (map ce_id h) -> In e h -> ce_id e = ce_id e' -> kv e = kv e' ->
  Permutation (map kv (heap_set h e')) (map kv h).
Proof.
  intros h e' e Hnd Hin Hid Hkv.
  eapply perm_trans; [exact (Permutation_map kv (heap_set_perm h e' e Hnd Hin Hid))|].
  cbn [map]. rewrite <- Hkv. symmetry. apply kv_del_perm; assumption.
Qed.

(* usage arithmetic (size_t) *)
Lemma usage_sub : forall u c S', c < two64 -> u = (c + S') mod two64 ->
  (u + two64 - c) mod two64 = S' mod two64.
Proof. intros u c S' Hc Hu. unfold two64 in *. lia. Qed.

Lemma usage_add : forall u c S, u = S mod two64 -> (u + c) mod two64 = (S + c) mod two64.
Proof. intros u c S Hu. unfold two64 in *. lia. Qed.

(* ------------------------------------------------------------------ *)
(* set_nth                                                              *)
(* ------------------------------------------------------------------ *)
Lemma set_nth_length : forall A n (x : A) l, length (set_nth n x l) = length l.
Proof.
  intros A n x l. revert n. induction l as [|a t IH]; intros n; [destruct n; reflexivity|].
  destruct n as [|n]; cbn [set_nth length]; [reflexivity|]. rewrite IH. reflexivity.
Qed.

Lemma set_nth_split : forall A n (l : list A) y, nth_error l n = Some y ->
  exists l1 l2, l = l1 ++ y :: l2 /\ length l1 = n /\ forall x, set_nth n x l = l1 ++ x :: l2.
Proof.
  intros A n l. revert n. induction l as [|a t IH]; intros n y H.
  - destruct n; discriminate.
  - destruct n as [|n].
    + cbn [nth_error] in H. injection H as ->. exists [], t. repeat split.
    + cbn [nth_error] in H. destruct (IH n y H) as [l1 [l2 [E1 [E2 E3]]]].
      exists (a :: l1), l2. split; [cbn [app]; rewrite <- E1; reflexivity|].
      split; [cbn [length]; rewrite E2; reflexivity|].
      intros x. cbn [set_nth app]. rewrite E3. reflexivity.
Qed.

Lemma nth_error_set_nth_eq : forall A n (x : A) l, (n < length l)%nat -> nth_error (set_nth n x l) n = Some x.
Proof.
  intros A n x l. revert n. induction l as [|a t IH]; intros n H; [cbn [length] in H; lia|].
  destruct n as [|n]; cbn [set_nth nth_error]; [reflexivity|]. apply IH. cbn [length] in H. lia.
Qed.

Lemma nth_error_set_nth_neq : forall A n m (x : A) l, m <> n -> nth_error (set_nth n x l) m = nth_error l m.
Proof.
  intros A n m x l. revert n m. induction l as [|a t IH]; intros n m H; [destruct n; reflexivity|].
  destruct n as [|n], m as [|m]; cbn [set_nth nth_error]; try reflexivity; [congruence|].
  apply IH. congruence.
Qed.

Lemma set_nth_oob : forall A n (x : A) l, (length l <= n)%nat -> set_nth n x l = l.
Proof.
  intros A n x l. revert n. induction l as [|a t IH]; intros n H; [destruct n; reflexivity|].
  destruct n as [|n]; cbn [length] in H; [lia|]. cbn [set_nth]. rewrite IH; [reflexivity|lia].
Qed.
