(* Lts.v -- labelled transition system of lcdb's concurrency protocol
   (src/db_impl.c: ldb_write / ldb_make_room_for_write / ldb_build_batch_group,
   ldb_get / ldb_snapshot / ldb_release, ldb_background_call / ldb_background_compaction /
   ldb_compact_memtable / ldb_maybe_schedule_compaction, ldb_test_compact_memtable,
   ldb_test_compact_range, ldb_destroy_internal; src/util/thread_pool.c).

   ATOMICITY ASSUMPTIONS (what the model takes for granted):
   (A1) a region executed while holding db->mutex is atomic.  One LTS step is one such region or a
        part of one; splitting a region into several steps only ADDS interleavings.
   (A2) the unlocked regions are single steps: [WLeaderLog] (log append + memtable insert by the queue
        head) and [RRead] (log_lookup in mem / imm / version by a reader).  The memtable insert of a group
        that is not yet published is invisible to readers because every reader filters by the sequence
        number it captured under the mutex: a read at sequence q returns [log_lookup k (firstn q store)].
   (A3) memtables, the immutable memtable and tables are modelled by the batches they contain; the
        store (their concatenation in sequence order) only grows.  That flush and compaction preserve
        the view at every readable sequence is property C01/C06 (EngineSteps), not re-proved here.
   (A4) condition variables: a waiting thread is a thread whose program counter is one of the
        waiting states ([wait_set_cv], [wait_set_bg]); signal wakes the (only possible) waiter of a
        writer's own condition variable, broadcast wakes all waiters of background_work_finished,
        spurious wake-ups are allowed ([Spurious]).
   (A5) sizes are abstract: "memtable full" is a state bit set nondeterministically by [WLeaderLog],
        the level-0 file count moves nondeterministically at background steps, the group-commit size
        limit is a free choice of the group length.  Thresholds 4 / 12 are lcdb's.
   (A6) the thread pool is one worker: [BgStart] is the worker taking the scheduled call.

   Definitions only (executable, extracted through coq/extract/lts.roots); proofs in LtsProofs.v. *)
From Coq Require Import List NArith Bool Arith Lia.
Import ListNotations.

(* ---------------------------------------------------------------- operations and the sequential spec *)
Inductive lop := LPut (k v : N) | LDel (k : N).

Definition lop_key (o : lop) : N := match o with LPut k _ => k | LDel k => k end.
Definition lop_val (o : lop) : option N := match o with LPut _ v => Some v | LDel _ => None end.

(* sorted-map specification: the state is the log of applied operations; the last one on a key wins *)
Fixpoint lookup_from (acc : option N) (k : N) (log : list lop) : option N :=
  match log with
  | [] => acc
  | o :: r => lookup_from (if N.eqb (lop_key o) k then lop_val o else acc) k r
  end.
Definition log_lookup (k : N) (log : list lop) : option N := lookup_from None k log.

Inductive sop :=
| SWrite (b : list lop) | SFlush | SGet (k : N) | SGetAt (h : nat) (k : N)
| SSnap | SRelease (h : nat) | SManual | SClose.

Inductive lres := ResOk | ResErr | ResVal (v : option N) | ResSnap (h : nat).

Definition optN_eqb (a b : option N) : bool :=
  match a, b with Some x, Some y => N.eqb x y | None, None => true | _, _ => false end.

(* spec_step log op r = Some log' : the sequential map, in state [log], may answer [r] to [op] and moves to [log'].
   A snapshot handle is the number of operations applied when it was taken. *)
Definition spec_step (log : list lop) (o : sop) (r : lres) : option (list lop) :=
  match o, r with
  | SWrite b, ResOk => Some (log ++ b)
  | SWrite _, ResErr => Some log
  | SGet k, ResVal v => if optN_eqb v (log_lookup k log) then Some log else None
  | SGetAt h k, ResVal v => if (h <=? length log) && optN_eqb v (log_lookup k (firstn h log)) then Some log else None
  | SSnap, ResSnap h => if h =? length log then Some log else None
  | SFlush, ResOk | SFlush, ResErr => Some log
  | SRelease _, ResOk | SManual, ResOk | SClose, ResOk => Some log
  | _, _ => None
  end.

Inductive levent :=
| EInv (t : nat) (o : sop)
| ELin (t : nat) (o : sop) (r : lres)      (* linearization point (ghost) *)
| ERet (t : nat) (r : lres).

(* ---------------------------------------------------------------- state *)
Record qent := mkQ { q_tid : nat; q_batch : option (list lop); q_sync : bool }.

(* program counter of a client thread.  Whether a queued writer is a flush request
   (ldb_test_compact_memtable: ldb_write with a NULL batch) is read off its queue entry. *)
Inductive pc :=
| PIdle
| PCheck                        (* in the writer queue, at "while (!w.done && &w != head)" *)
| PWaitCv                       (* blocked in cond_wait on its own w.cv *)
| PDone (fl : bool) (ok : bool) (* popped and marked done by a group leader, not yet returned *)
| PRoomWait                     (* queue head blocked on background_work_finished in make_room *)
| PLog (n : nat)                (* queue head, group = first n queue entries, mutex released *)
| PLogged (n : nat)             (* log appended and memtable updated, not yet published *)
| PFlushCheck                   (* ldb_test_compact_memtable after the write: "while (imm && !bg_error)" *)
| PFlushWait
| PRead (q : nat) (k : N)       (* captured sequence q, reading unlocked *)
| PMan (d : bool)               (* ldb_test_compact_range first loop, d = manual.done *)
| PManWait (d : bool)
| PMan2                         (* second loop "while (background_compaction_scheduled)" *)
| PMan2Wait
| PCloseCheck                   (* ldb_destroy_internal: shutting_down set, "while (scheduled)" *)
| PCloseWait
| PClosed.

Inductive bgpc := BIdle | BQueued | BRunning | BWorked.

Record lstate := mkL {
  l_threads : list nat;
  l_pc : nat -> pc;
  l_queue : list qent;
  l_last_seq : nat;
  l_mem : list (list lop);              (* batches inserted into the current memtable *)
  l_imm : option (list (list lop));     (* immutable memtable *)
  l_tables : list (list lop);           (* batches that reached tables *)
  l_committed : list (list lop);        (* ghost: published batches, publish order *)
  l_full : bool;                        (* memtable_usage > write_buffer_size *)
  l_snaps : list nat;
  l_bgs : bool;                         (* background_compaction_scheduled *)
  l_bgpc : bgpc;
  l_bge : bool;                         (* bg_error != OK *)
  l_manual : option nat;                (* owner of db->manual_compaction *)
  l_sd : bool;                          (* shutting_down *)
  l_l0 : nat;                           (* level-0 files *)
  l_trace : list levent                  (* ghost: newest first *)
}.

Definition imm_batches (s : lstate) : list (list lop) := match l_imm s with Some b => b | None => [] end.
(* every operation ever logged + inserted, position i has sequence number i+1 *)
Definition l_store (s : lstate) : list lop :=
  concat (l_tables s) ++ concat (imm_batches s) ++ concat (l_mem s).

Definition upd {A} (f : nat -> A) (t : nat) (v : A) : nat -> A :=
  fun x => if Nat.eqb x t then v else f x.

Definition lts_init (threads : list nat) : lstate :=
  mkL threads (fun _ => PIdle) [] 0 [] None [] [] false [] false BIdle false None false 0 [].

(* setters *)
Definition set_pc (s : lstate) (f : nat -> pc) : lstate :=
  mkL (l_threads s) f (l_queue s) (l_last_seq s) (l_mem s) (l_imm s) (l_tables s) (l_committed s) (l_full s)
      (l_snaps s) (l_bgs s) (l_bgpc s) (l_bge s) (l_manual s) (l_sd s) (l_l0 s) (l_trace s).
Definition set_queue (s : lstate) (q : list qent) : lstate :=
  mkL (l_threads s) (l_pc s) q (l_last_seq s) (l_mem s) (l_imm s) (l_tables s) (l_committed s) (l_full s)
      (l_snaps s) (l_bgs s) (l_bgpc s) (l_bge s) (l_manual s) (l_sd s) (l_l0 s) (l_trace s).
Definition set_trace (s : lstate) (tr : list levent) : lstate :=
  mkL (l_threads s) (l_pc s) (l_queue s) (l_last_seq s) (l_mem s) (l_imm s) (l_tables s) (l_committed s) (l_full s)
      (l_snaps s) (l_bgs s) (l_bgpc s) (l_bge s) (l_manual s) (l_sd s) (l_l0 s) tr.
Definition set_bg (s : lstate) (bgs : bool) (p : bgpc) : lstate :=
  mkL (l_threads s) (l_pc s) (l_queue s) (l_last_seq s) (l_mem s) (l_imm s) (l_tables s) (l_committed s) (l_full s)
      (l_snaps s) bgs p (l_bge s) (l_manual s) (l_sd s) (l_l0 s) (l_trace s).
Definition set_manual (s : lstate) (m : option nat) : lstate :=
  mkL (l_threads s) (l_pc s) (l_queue s) (l_last_seq s) (l_mem s) (l_imm s) (l_tables s) (l_committed s) (l_full s)
      (l_snaps s) (l_bgs s) (l_bgpc s) (l_bge s) m (l_sd s) (l_l0 s) (l_trace s).
Definition set_snaps (s : lstate) (sn : list nat) : lstate :=
  mkL (l_threads s) (l_pc s) (l_queue s) (l_last_seq s) (l_mem s) (l_imm s) (l_tables s) (l_committed s) (l_full s)
      sn (l_bgs s) (l_bgpc s) (l_bge s) (l_manual s) (l_sd s) (l_l0 s) (l_trace s).
Definition set_sd (s : lstate) (b : bool) : lstate :=
  mkL (l_threads s) (l_pc s) (l_queue s) (l_last_seq s) (l_mem s) (l_imm s) (l_tables s) (l_committed s) (l_full s)
      (l_snaps s) (l_bgs s) (l_bgpc s) (l_bge s) (l_manual s) b (l_l0 s) (l_trace s).
Definition set_bge (s : lstate) (b : bool) : lstate :=
  mkL (l_threads s) (l_pc s) (l_queue s) (l_last_seq s) (l_mem s) (l_imm s) (l_tables s) (l_committed s) (l_full s)
      (l_snaps s) (l_bgs s) (l_bgpc s) b (l_manual s) (l_sd s) (l_l0 s) (l_trace s).
Definition set_l0 (s : lstate) (n : nat) : lstate :=
  mkL (l_threads s) (l_pc s) (l_queue s) (l_last_seq s) (l_mem s) (l_imm s) (l_tables s) (l_committed s) (l_full s)
      (l_snaps s) (l_bgs s) (l_bgpc s) (l_bge s) (l_manual s) (l_sd s) n (l_trace s).
(* memory layout: mem, imm, tables, full *)
Definition set_store (s : lstate) (m : list (list lop)) (i : option (list (list lop))) (tb : list (list lop)) (full : bool) : lstate :=
  mkL (l_threads s) (l_pc s) (l_queue s) (l_last_seq s) m i tb (l_committed s) full
      (l_snaps s) (l_bgs s) (l_bgpc s) (l_bge s) (l_manual s) (l_sd s) (l_l0 s) (l_trace s).
Definition set_publish (s : lstate) (ls : nat) (c : list (list lop)) : lstate :=
  mkL (l_threads s) (l_pc s) (l_queue s) ls (l_mem s) (l_imm s) (l_tables s) c (l_full s)
      (l_snaps s) (l_bgs s) (l_bgpc s) (l_bge s) (l_manual s) (l_sd s) (l_l0 s) (l_trace s).

Definition emit (s : lstate) (evs : list levent) : lstate := set_trace s (evs ++ l_trace s).   (* evs newest first *)

(* ---------------------------------------------------------------- helpers *)
Definition is_thread (s : lstate) (t : nat) : bool := existsb (Nat.eqb t) (l_threads s).

Definition head_tid (q : list qent) : option nat := match q with [] => None | e :: _ => Some (q_tid e) end.
Definition is_head (q : list qent) (t : nat) : bool :=
  match q with [] => false | e :: _ => Nat.eqb (q_tid e) t end.
Definition in_queue (q : list qent) (t : nat) : bool := existsb (fun e => Nat.eqb (q_tid e) t) q.

(* ldb_build_batch_group: a sync writer is not put into a group led by a non-sync writer *)
Definition group_ok (q : list qent) (n : nat) : bool :=
  match q with
  | [] => false
  | h :: r => (1 <=? n) && (n <=? length q) &&
              forallb (fun e => implb (q_sync e) (q_sync h)) (firstn (n - 1) r) &&
              match q_batch h with Some _ => true | None => false end
  end.

Definition group_batches (g : list qent) : list (list lop) :=
  flat_map (fun e => match q_batch e with Some b => [b] | None => [] end) g.

(* ldb_maybe_schedule_compaction; [extra] = a need the model does not compute (scores of deeper levels, seek statistics) *)
Definition L0_COMPACTION_TRIGGER := 4.
Definition L0_STOP_WRITES_TRIGGER := 12.

Definition has_imm (s : lstate) : bool := match l_imm s with Some _ => true | None => false end.
Definition has_manual (s : lstate) : bool := match l_manual s with Some _ => true | None => false end.

Definition bg_schedule (s : lstate) (extra : bool) : lstate :=
  if l_bgs s then s
  else if l_sd s then s
  else if l_bge s then s
  else if negb (has_imm s) && negb (has_manual s) && (l_l0 s <? L0_COMPACTION_TRIGGER) && negb extra then s
  else set_bg s true BQueued.

(* waiting states *)
Definition waits_cv (p : pc) : bool := match p with PWaitCv => true | _ => false end.
Definition waits_bg (p : pc) : bool :=
  match p with PRoomWait | PFlushWait | PManWait _ | PMan2Wait | PCloseWait => true | _ => false end.
(* explicit wait sets *)
Definition wait_set_cv (s : lstate) (t : nat) : list nat := if waits_cv (l_pc s t) then [t] else [].
Definition wait_set_bg (s : lstate) : list nat := filter (fun t => waits_bg (l_pc s t)) (l_threads s).

Definition wake (p : pc) : pc :=
  match p with
  | PWaitCv => PCheck
  | PRoomWait => PCheck
  | PFlushWait => PFlushCheck
  | PManWait d => PMan d
  | PMan2Wait => PMan2
  | PCloseWait => PCloseCheck
  | p => p
  end.
Definition wake_cv (p : pc) : pc := if waits_cv p then wake p else p.
Definition wake_bg (p : pc) : pc := if waits_bg p then wake p else p.

(* pthread_cond_signal(&w->cv) *)
Definition signal_cv (f : nat -> pc) (t : nat) : nat -> pc := upd f t (wake_cv (f t)).
(* pthread_cond_broadcast(&background_work_finished_signal) *)
Definition broadcast_bg (f : nat -> pc) : nat -> pc := fun t => wake_bg (f t).

Definition signal_head (f : nat -> pc) (q : list qent) : nat -> pc :=
  match q with [] => f | e :: _ => signal_cv f (q_tid e) end.

(* the leader marks the other members of its group done and signals them *)
Definition is_flush (e : qent) : bool := match q_batch e with Some _ => false | None => true end.
Definition mark_done (fl ok : bool) (p : pc) : pc :=
  match p with PCheck | PWaitCv => PDone fl ok | p => p end.
Fixpoint mark_group (f : nat -> pc) (leader : nat) (ok : bool) (g : list qent) : nat -> pc :=
  match g with
  | [] => f
  | e :: r => let f' := mark_group f leader ok r in
              if Nat.eqb (q_tid e) leader then f' else upd f' (q_tid e) (mark_done (is_flush e) ok (f' (q_tid e)))
  end.

(* linearization events of a published group, oldest first *)
Definition group_lin (g : list qent) : list levent :=
  flat_map (fun e => match q_batch e with Some b => [ELin (q_tid e) (SWrite b) ResOk] | None => [] end) g.

Definition set_mdone (d : bool) (p : pc) : pc :=
  match p with PMan _ => PMan d | PManWait _ => PManWait d | p => p end.

Definition remove_one (h : nat) (l : list nat) : list nat :=
  (fix go l := match l with [] => [] | x :: r => if Nat.eqb x h then r else x :: go r end) l.

Definition all_idle (s : lstate) : bool :=
  forallb (fun t => match l_pc s t with PIdle => true | _ => false end) (l_threads s).

(* ---------------------------------------------------------------- labels *)
Inductive label :=
| WEnqueue (t : nat) (b : list lop) (sync : bool)   (* ldb_write: lock, push *)
| FEnqueue (t : nat)                                (* ldb_test_compact_memtable: ldb_write(NULL) *)
| WWaitFollower (t : nat)                           (* cond_wait(&w.cv): only while not done and not head *)
| WLeaderStart (t : nat) (n : nat)                  (* head, room available: build group of n, unlock *)
| WLeaderErr (t : nat)                              (* head, bg_error set: fail *)
| WRoomWait (t : nat)                               (* head, memtable full and (imm != NULL or L0 >= 12): cond_wait(bg) *)
| Switch (t : nat)                                  (* head, memtable full or forced: imm := mem, schedule *)
| WLeaderLog (t : nat) (full : bool)                (* UNLOCKED: append group to log, insert into mem *)
| WLeaderPublish (t : nat)                          (* lock; last_sequence += count; pop group; signal *)
| WFollowerDone (t : nat)                           (* woken with done set: return status *)
| FlushCheck (t : nat)                              (* while (imm != NULL && bg_error == OK) wait *)
| RCapture (t : nat) (k : N) (src : option nat)     (* ldb_get/iterator: capture sequence (or snapshot) + refs *)
| RRead (t : nat) (extra : bool)                    (* UNLOCKED read, then lock, stats, maybe schedule, unlock *)
| Snap (t : nat)
| Release (t : nat) (h : nat)
| BgStart                                           (* pool worker takes the call: ldb_background_call locks *)
| BgFlush                                           (* ldb_compact_memtable: imm -> table, install *)
| BgCompact (l0' : nat) (d : bool)                  (* ldb_background_compaction, manual or automatic *)
| BgFail                                            (* I/O error in background work: bg_error, broadcast *)
| BgSkip                                            (* shutting down or bg_error: nothing to do *)
| BgFinish (extra : bool)                           (* scheduled := 0; maybe_schedule; broadcast *)
| ManualStart (t : nat)
| ManualLoop (t : nat)
| Manual2 (t : nat)
| CloseStart (t : nat)
| CloseCheck (t : nat)
| Spurious (t : nat).                               (* spurious wake-up of any waiting thread *)

Definition invocable (s : lstate) (t : nat) : bool :=
  is_thread s t && negb (l_sd s) && match l_pc s t with PIdle => true | _ => false end.

Definition lts_step (s : lstate) (l : label) : option lstate :=
  match l with
  | WEnqueue t b sync =>
      if invocable s t then
        Some (emit (set_queue (set_pc s (upd (l_pc s) t PCheck)) (l_queue s ++ [mkQ t (Some b) sync]))
                   [EInv t (SWrite b)])
      else None
  | FEnqueue t =>
      if invocable s t then
        Some (emit (set_queue (set_pc s (upd (l_pc s) t PCheck)) (l_queue s ++ [mkQ t None false]))
                   [EInv t SFlush])
      else None
  | WWaitFollower t =>
      match l_pc s t with
      | PCheck => if negb (is_head (l_queue s) t) then Some (set_pc s (upd (l_pc s) t PWaitCv)) else None
      | _ => None
      end
  | WLeaderStart t n =>
      match l_pc s t with
      | PCheck =>
          if is_head (l_queue s) t && negb (l_bge s) && negb (l_full s) && group_ok (l_queue s) n
          then Some (set_pc s (upd (l_pc s) t (PLog n))) else None
      | _ => None
      end
  | WLeaderErr t =>
      match l_pc s t, l_queue s with
      | PCheck, e :: q' =>
          if Nat.eqb (q_tid e) t && l_bge s then
            let s1 := set_queue (set_pc s (signal_head (upd (l_pc s) t PIdle) q')) q' in
            Some (emit s1 (match q_batch e with
                           | Some b => [ERet t ResErr; ELin t (SWrite b) ResErr]
                           | None => [ERet t ResErr; ELin t SFlush ResErr] end))
          else None
      | _, _ => None
      end
  | WRoomWait t =>
      match l_pc s t, l_queue s with
      | PCheck, e :: _ =>
          if Nat.eqb (q_tid e) t && negb (l_bge s) && (is_flush e || l_full s) &&
             (has_imm s || (L0_STOP_WRITES_TRIGGER <=? l_l0 s))
          then Some (set_pc s (upd (l_pc s) t PRoomWait)) else None
      | _, _ => None
      end
  | Switch t =>
      match l_pc s t, l_queue s with
      | PCheck, e :: q' =>
          if Nat.eqb (q_tid e) t && negb (l_bge s) && (is_flush e || l_full s) &&
             negb (has_imm s) && (l_l0 s <? L0_STOP_WRITES_TRIGGER)
          then
            let s1 := bg_schedule (set_store s [] (Some (l_mem s)) (l_tables s) false) false in
            if is_flush e then
              (* forced switch of a flush request: nothing to log, pop itself, return from ldb_write *)
              Some (set_queue (set_pc s1 (signal_head (upd (l_pc s1) t PFlushCheck) q')) q')
            else Some s1
          else None
      | _, _ => None
      end
  | WLeaderLog t full =>
      match l_pc s t with
      | PLog n =>
          Some (set_pc (set_store s (l_mem s ++ group_batches (firstn n (l_queue s))) (l_imm s) (l_tables s) full)
                       (upd (l_pc s) t (PLogged n)))
      | _ => None
      end
  | WLeaderPublish t =>
      match l_pc s t with
      | PLogged n =>
          let g := firstn n (l_queue s) in
          let q' := skipn n (l_queue s) in
          let f1 := mark_group (upd (l_pc s) t PIdle) t true g in
          let s1 := set_publish s (length (l_store s)) (l_committed s ++ group_batches g) in
          Some (emit (set_queue (set_pc s1 (signal_head f1 q')) q')
                     (ERet t ResOk :: rev (group_lin g)))
      | _ => None
      end
  | WFollowerDone t =>
      match l_pc s t with
      | PDone false ok => Some (emit (set_pc s (upd (l_pc s) t PIdle)) [ERet t (if ok then ResOk else ResErr)])
      | PDone true true => Some (set_pc s (upd (l_pc s) t PFlushCheck))
      | PDone true false => Some (emit (set_pc s (upd (l_pc s) t PIdle)) [ERet t ResErr; ELin t SFlush ResErr])
      | _ => None
      end
  | FlushCheck t =>
      match l_pc s t with
      | PFlushCheck =>
          if has_imm s && negb (l_bge s) then Some (set_pc s (upd (l_pc s) t PFlushWait))
          else let r := if has_imm s then ResErr else ResOk in
               Some (emit (set_pc s (upd (l_pc s) t PIdle)) [ERet t r; ELin t SFlush r])
      | _ => None
      end
  | RCapture t k src =>
      if invocable s t then
        match src with
        | None =>
            let q := l_last_seq s in
            Some (emit (set_pc s (upd (l_pc s) t (PRead q k)))
                       [ELin t (SGet k) (ResVal (log_lookup k (firstn q (l_store s)))); EInv t (SGet k)])
        | Some h =>
            if existsb (Nat.eqb h) (l_snaps s) then
              Some (emit (set_pc s (upd (l_pc s) t (PRead h k)))
                         [ELin t (SGetAt h k) (ResVal (log_lookup k (firstn h (l_store s)))); EInv t (SGetAt h k)])
            else None
        end
      else None
  | RRead t extra =>
      match l_pc s t with
      | PRead q k =>
          Some (bg_schedule (emit (set_pc s (upd (l_pc s) t PIdle)) [ERet t (ResVal (log_lookup k (firstn q (l_store s))))]) extra)
      | _ => None
      end
  | Snap t =>
      if invocable s t then
        Some (emit (set_snaps s (l_snaps s ++ [l_last_seq s]))
                   [ERet t (ResSnap (l_last_seq s)); ELin t SSnap (ResSnap (l_last_seq s)); EInv t SSnap])
      else None
  | Release t h =>
      if invocable s t && existsb (Nat.eqb h) (l_snaps s) then
        Some (emit (set_snaps s (remove_one h (l_snaps s)))
                   [ERet t ResOk; ELin t (SRelease h) ResOk; EInv t (SRelease h)])
      else None
  | BgStart =>
      match l_bgpc s with BQueued => Some (set_bg s (l_bgs s) BRunning) | _ => None end
  | BgFlush =>
      match l_bgpc s, l_imm s with
      | BRunning, Some im =>
          if negb (l_sd s) && negb (l_bge s) then
            Some (set_bg (set_l0 (set_store s (l_mem s) None (l_tables s ++ im) (l_full s)) (S (l_l0 s))) (l_bgs s) BWorked)
          else None
      | _, _ => None
      end
  | BgCompact l0' d =>
      match l_bgpc s with
      | BRunning =>
          if negb (l_sd s) && negb (l_bge s) && negb (has_imm s) then
            let s1 := set_bg (set_l0 s l0') (l_bgs s) BWorked in
            match l_manual s with
            | Some m => Some (set_manual (set_pc s1 (upd (l_pc s1) m (set_mdone d (l_pc s1 m)))) None)
            | None => Some s1
            end
          else None
      | _ => None
      end
  | BgFail =>
      match l_bgpc s with
      | BRunning =>
          if negb (l_sd s) && negb (l_bge s) then
            let s1 := set_bg (set_bge s true) (l_bgs s) BWorked in
            let s2 := match l_manual s with
                      | Some m => if has_imm s then s1
                                  else set_manual (set_pc s1 (upd (l_pc s1) m (set_mdone true (l_pc s1 m)))) None
                      | None => s1 end in
            Some (set_pc s2 (broadcast_bg (l_pc s2)))
          else None
      | _ => None
      end
  | BgSkip =>
      match l_bgpc s with
      | BRunning => if l_sd s || l_bge s then Some (set_bg s (l_bgs s) BWorked) else None
      | _ => None
      end
  | BgFinish extra =>
      match l_bgpc s with
      | BWorked =>
          let s1 := bg_schedule (set_bg s false BIdle) extra in
          Some (set_pc s1 (broadcast_bg (l_pc s1)))
      | _ => None
      end
  | ManualStart t =>
      if invocable s t then Some (emit (set_pc s (upd (l_pc s) t (PMan false))) [EInv t SManual]) else None
  | ManualLoop t =>
      match l_pc s t with
      | PMan d =>
          if negb d && negb (l_sd s) && negb (l_bge s) then
            match l_manual s with
            | None => Some (bg_schedule (set_manual s (Some t)) false)
            | Some _ => Some (set_pc s (upd (l_pc s) t (PManWait d)))
            end
          else Some (set_pc s (upd (l_pc s) t PMan2))
      | _ => None
      end
  | Manual2 t =>
      match l_pc s t with
      | PMan2 =>
          if l_bgs s then Some (set_pc s (upd (l_pc s) t PMan2Wait))
          else
            let s1 := match l_manual s with
                      | Some m => if Nat.eqb m t then set_manual s None else s
                      | None => s end in
            Some (emit (set_pc s1 (upd (l_pc s1) t PIdle)) [ERet t ResOk; ELin t SManual ResOk])
      | _ => None
      end
  | CloseStart t =>
      if is_thread s t && negb (l_sd s) && all_idle s && match l_queue s with [] => true | _ => false end then
        Some (emit (set_sd (set_pc s (upd (l_pc s) t PCloseCheck)) true) [EInv t SClose])
      else None
  | CloseCheck t =>
      match l_pc s t with
      | PCloseCheck =>
          if l_bgs s then Some (set_pc s (upd (l_pc s) t PCloseWait))
          else Some (emit (set_pc s (upd (l_pc s) t PClosed)) [ERet t ResOk; ELin t SClose ResOk])
      | _ => None
      end
  | Spurious t =>
      if waits_cv (l_pc s t) || waits_bg (l_pc s t) then Some (set_pc s (upd (l_pc s) t (wake (l_pc s t)))) else None
  end.

Inductive reachable (threads : list nat) : lstate -> Prop :=
| reach_init : reachable threads (lts_init threads)
| reach_step : forall s l s', reachable threads s -> lts_step s l = Some s' -> reachable threads s'.

(* run a list of labels (used by the extracted driver and by tests) *)
Fixpoint lts_run (s : lstate) (ls : list label) : option lstate :=
  match ls with
  | [] => Some s
  | l :: r => match lts_step s l with Some s' => lts_run s' r | None => None end
  end.

(* labels that make progress inside a call already started: no new invocation, no spurious wake-up *)
Definition progress_label (l : label) : bool :=
  match l with
  | WEnqueue _ _ _ | FEnqueue _ | RCapture _ _ _ | Snap _ | Release _ _ | ManualStart _ | CloseStart _ | Spurious _ => false
  | _ => true
  end.

(* ---------------------------------------------------------------- abstract observations (harness/k8.c, "A"/"E" lines) *)
Record aq := mkAQ { aq_tid : N; aq_done : bool; aq_sync : bool; aq_batch : bool }.
Record absstate := mkAbs {
  a_queue : list aq; a_ls : N; a_imm : bool; a_bgs : bool; a_bge : bool; a_man : bool; a_sd : bool; a_l0 : N; a_logn : N }.

Inductive how := HL | HU | HW | HR.        (* acquired / about to unlock / about to wait / re-acquired after a wait *)
Inductive cvid := CvNone | CvBg | CvW (t : N) | CvOther.
Inductive aobs :=
| OState (t : N) (h : how) (a : absstate) (cv : cvid)
| OSig (t : N) (bcast : bool) (cv : cvid).

Definition abs_of (s : lstate) : absstate :=
  mkAbs (map (fun e => mkAQ (N.of_nat (q_tid e)) false (q_sync e) (match q_batch e with Some _ => true | None => false end)) (l_queue s))
        (N.of_nat (l_last_seq s)) (has_imm s) (l_bgs s) (l_bge s) (has_manual s) (l_sd s) (N.of_nat (l_l0 s)) 0.

(* invariants of one abstract state (checked at every observation) *)
Definition abs_inv (a : absstate) : bool :=
  (* nobody in the queue is done: a writer is popped before it is marked done (so the head is never done) *)
  forallb (fun e => negb (aq_done e)) (a_queue a) &&
  (* an immutable memtable is always being taken care of *)
  implb (a_imm a) (a_bgs a || a_bge a || a_sd a) &&
  (* a pending manual compaction is always being taken care of *)
  implb (a_man a) (a_bgs a || a_bge a || a_sd a) &&
  (* level 0 at the compaction trigger is always being taken care of *)
  implb (4 <=? a_l0 a)%N (a_bgs a || a_bge a || a_sd a).

Definition aq_eqb (x y : aq) : bool :=
  N.eqb (aq_tid x) (aq_tid y) && Bool.eqb (aq_done x) (aq_done y) && Bool.eqb (aq_sync x) (aq_sync y) && Bool.eqb (aq_batch x) (aq_batch y).
Fixpoint aql_eqb (a b : list aq) : bool :=
  match a, b with
  | [], [] => true
  | x :: a', y :: b' => aq_eqb x y && aql_eqb a' b'
  | _, _ => false
  end.
Definition abs_eqb (a b : absstate) : bool :=
  aql_eqb (a_queue a) (a_queue b) && N.eqb (a_ls a) (a_ls b) && Bool.eqb (a_imm a) (a_imm b) && Bool.eqb (a_bgs a) (a_bgs b) &&
  Bool.eqb (a_bge a) (a_bge b) && Bool.eqb (a_man a) (a_man b) && Bool.eqb (a_sd a) (a_sd b) && N.eqb (a_l0 a) (a_l0 b) && N.eqb (a_logn a) (a_logn b).

Definition cvid_eqb (a b : cvid) : bool :=
  match a, b with CvNone, CvNone | CvBg, CvBg | CvOther, CvOther => true | CvW x, CvW y => N.eqb x y | _, _ => false end.

Definition aq_head_is (q : list aq) (t : N) : bool := match q with [] => false | e :: _ => N.eqb (aq_tid e) t end.
Definition aq_mem (q : list aq) (t : N) : bool := existsb (fun e => N.eqb (aq_tid e) t) q.
Definition is_bg_thread (t : N) : bool := (100 <=? t)%N.

(* is [b] = skipn n a for some n >= 1 ?  returns the popped prefix *)
Fixpoint popped (a b : list aq) : option (list aq) :=
  if aql_eqb a b then Some []
  else match a with
       | [] => None
       | x :: a' => match popped a' b with Some p => Some (x :: p) | None => None end
       end.

Definition signalled (sigs : list (bool * cvid)) (bc : bool) (cv : cvid) : bool :=
  existsb (fun s => Bool.eqb (fst s) bc && cvid_eqb (snd s) cv) sigs.

(* a waiter on cv is woken by a signal OR a broadcast on it: the obligation is a lower bound, extra or more
   generous wake-ups are harmless (every wait is a predicate loop) *)
Definition woken (sigs : list (bool * cvid)) (cv : cvid) : bool :=
  signalled sigs false cv || signalled sigs true cv.

(* the queue after thread t pushed itself *)
Definition is_push (a b : list aq) (t : N) : bool :=
  match rev b with
  | e :: r => N.eqb (aq_tid e) t && negb (aq_done e) && aql_eqb a (rev r)
  | [] => false
  end.

(* valid_transition t sigs h cv a b: one critical section of thread t (state a when it got db->mutex, state b when
   it gives it up by unlock (HU) or cond_wait (HW, on cv), having issued the signals sigs) is explained by lcdb's
   protocol.  Reason codes: 0 = ok. *)
Definition valid_transition (t : N) (sigs : list (bool * cvid)) (h : how) (cv : cvid) (a b : absstate) : nat :=
  let qa := a_queue a in let qb := a_queue b in
  let same_q := aql_eqb qa qb in
  let push := is_push qa qb t in
  let pop := if same_q then None else popped qa qb in
  (* queue: unchanged, pushed itself, or (being the head) popped a non-empty prefix *)
  if negb (same_q || push || match pop with Some (_ :: _) => aq_head_is qa t | _ => false end) then 1
  (* publish: last_sequence only grows, and only the queue head (which then pops its group) moves it *)
  else if (a_ls b <? a_ls a)%N then 2
  else if negb (N.eqb (a_ls a) (a_ls b)) && negb (match pop with Some (_ :: _) => aq_head_is qa t | _ => false end) then 3
  (* waker obligation of a pop: every popped follower and the new head are signalled *)
  else if match pop with
          | Some p => negb (forallb (fun e => N.eqb (aq_tid e) t || woken sigs (CvW (aq_tid e))) p &&
                            match qb with [] => true | e :: _ => woken sigs (CvW (aq_tid e)) end)
          | None => false end then 4
  (* memtable switch: only by the queue head (possibly just pushed, possibly popped again: flush request); new log number;
     and a background call is scheduled (or impossible: error / shutdown) *)
  else if negb (a_imm a) && a_imm b &&
          negb ((aq_head_is qa t || (match qa with [] => true | _ => false end)) && (a_logn a <? a_logn b)%N &&
                (a_bgs b || a_bge b || a_sd b)) then 5
  else if a_imm a && negb (a_imm b) && negb (is_bg_thread t) then 6
  else if negb (N.eqb (a_logn a) (a_logn b)) && negb (negb (a_imm a) && a_imm b) then 7
  (* background_compaction_scheduled: cleared only by the background thread, with a broadcast; set only when allowed *)
  else if a_bgs a && negb (a_bgs b) && negb (is_bg_thread t && signalled sigs true CvBg) then 8
  else if negb (a_bgs a) && a_bgs b && (a_sd b || a_bge b) then 9
  (* the background thread reschedules itself (signal to the pool worker) only at the end of a background call: broadcast due *)
  else if is_bg_thread t && signalled sigs false CvOther && negb (signalled sigs true CvBg) then 10
  (* manual compaction slot: taken by a client, cleared by the background thread or a client *)
  else if negb (a_man a) && a_man b && is_bg_thread t then 11
  (* shutting_down never reset; bg_error never reset and announced by a broadcast *)
  else if a_sd a && negb (a_sd b) then 12
  else if a_bge a && negb (a_bge b) then 13
  else if negb (a_bge a) && a_bge b && negb (signalled sigs true CvBg) then 14
  (* level-0 file count moves only in the background thread *)
  else if negb (N.eqb (a_l0 a) (a_l0 b)) && negb (is_bg_thread t) then 15
  (* waiting: on the own cv only while in the queue and not head; on background_work_finished only while a
     background call is scheduled or running (pending waker) *)
  else match h, cv with
       | HW, CvW x => if N.eqb x t && aq_mem qb t && negb (aq_head_is qb t) then 0 else 16
       | HW, CvBg => if a_bgs b then 0 else 17
       | HW, _ => 18
       | _, _ => 0
       end.

Definition is_release (h : how) : bool := match h with HU | HW => true | _ => false end.

(* check_trace: Some (index, code) of the first offending observation, None if the whole trace is accepted.
   cur = Some (t, a): thread t holds the mutex since state a;  last = state at the last release *)
Fixpoint check_from (i : nat) (tr : list aobs) (cur : option (N * absstate)) (sigs : list (bool * cvid)) (last : option absstate)
  : option (nat * nat) :=
  match tr with
  | [] => None
  | OSig t bc cv :: r =>
      match cur with
      | Some (t', a) => if N.eqb t t' then check_from (S i) r cur ((bc, cv) :: sigs) last else Some (i, 30)
      | None => Some (i, 31)
      end
  | OState t h a cv :: r =>
      if negb (abs_inv a) then Some (i, 40)
      else if is_release h then
        match cur with
        | Some (t', a0) =>
            if negb (N.eqb t t') then Some (i, 32)
            else match valid_transition t sigs h cv a0 a with
                 | O => check_from (S i) r None [] (Some a)
                 | c => Some (i, c)
                 end
        | None => Some (i, 33)
        end
      else
        match cur with
        | Some _ => Some (i, 34)            (* two holders of the mutex *)
        | None =>
            match last with
            | Some p => if abs_eqb p a then check_from (S i) r (Some (t, a)) [] last else Some (i, 35)  (* changed while unlocked *)
            | None => check_from (S i) r (Some (t, a)) [] last
            end
        end
  end.

Definition check_trace (tr : list aobs) : option (nat * nat) := check_from 0 tr None [] None.
