(* PolicyProofs.v -- lcdb's own compaction input selection (Policy.v: exact replicas of
   ldb_versions_compact_range, ldb_versions_pick_compaction, ldb_versions_setup_other_inputs,
   add_boundary_inputs, ldb_version_get_overlapping_inputs) always produces inputs that
   satisfy the INPUT-SIDE guards of the model's compaction step (Engine.compaction_guard),
   on every state satisfying the invariant.  Hence (EngineSteps files) every compaction lcdb
   can select preserves the invariant and all views. *)
From LCDB Require Import Base Engine EngineSpec EngineStepsBase EngineStepsInv EngineStepsEdit EngineStepsFlush EngineSteps
                         Policy PolicyBase PolicyOverlap PolicyBoundary PolicyFlush.
From Coq Require Import Sorting.Sorted.
Require Import Lia ZifyBool ZifyNat ZifyN.
Local Open Scope N_scope.

Section PP.
Variable ucmp : bytes -> bytes -> comparison.
Context {TO : total_order ucmp}.

Notation ueq := (Engine.ueq ucmp).
Notation ult := (Engine.ult ucmp).
Notation ilt := (Engine.ilt ucmp).
Notation Srt := (EngineStepsBase.Srt ucmp).
Notation NO := (EngineStepsBase.NO ucmp).
Notation SInv := (EngineStepsInv.SInv ucmp).
Notation FOK := (EngineStepsInv.FOK ucmp).
Notation FB := (EngineStepsInv.FB ucmp).
Notation ovl := (PolicyBase.ovl ucmp).
Notation within := (PolicyBase.within ucmp).
Notation ULe := (PolicyBoundary.ULe ucmp).
Notation ULt := (PolicyBoundary.ULt ucmp).
Notation Convex := (PolicyBoundary.Convex ucmp).
Notation Closed := (PolicyBoundary.Closed ucmp).

(* ------------------------------------------------------------ the level-(L+1) inputs *)
(* what a file of level L+1 that is not selected looks like relative to the merged run M *)
Definition Sides (g : file) (M : list entry) : Prop :=
  ((forall m, In m M -> ilt (lg g) m = true) \/ (forall m, In m M -> ilt m (sm g) = true)) /\
  NO (fents g) M.

Section Parent.
Variable fs1 : list file.
Hypothesis HF1 : Forall FOK fs1.
Hypothesis HS1 : StronglySorted FB fs1.

Lemma parent_core X1 R1 lo hi E0 :
  Closed fs1 X1 R1 -> (forall f, In f R1 -> exists x, In x X1) ->
  X1 = filter (ovl (Some lo) (Some hi)) fs1 ->
  (forall m, In m E0 -> ULe lo (ek m) /\ ULe (ek m) hi) ->
  forall g, In g fs1 -> ~ In g R1 -> Sides g (E0 ++ level_entries R1).
Proof.
  intros HC HX EX HE g Hg Hng.
  assert (Hokg: FOK g) by (apply (fs_FOK ucmp fs1); auto).
  assert (HokR: forall f, In f R1 -> FOK f).
  { intros f Hf. apply (fs_FOK ucmp fs1); auto. apply (cl_sub _ _ _ _ HC); auto. }
  assert (Og: ovl (Some lo) (Some hi) g = false).
  { destruct (ovl (Some lo) (Some hi) g) eqn:E; auto. exfalso. apply Hng.
    apply (cl_X _ _ _ _ HC). rewrite EX. apply filter_In. auto. }
  assert (HXo: forall x, In x X1 -> In x R1 /\ ULe lo (ek (lg x)) /\ ULe (ek (sm x)) hi).
  { intros x Hx. split. apply (cl_X _ _ _ _ HC); auto.
    rewrite EX in Hx. apply filter_In in Hx. destruct Hx as [_ Ox].
    unfold PolicyBase.ovl in Ox. cbn [before_begin after_end] in Ox. rewrite (ugt_ult ucmp) in Ox.
    apply andb_true_iff in Ox. destruct Ox as [O1 O2]. apply negb_true_iff in O1, O2.
    split; apply (not_ult_ULe ucmp); auto. }
  unfold PolicyBase.ovl in Og. cbn [before_begin after_end] in Og. rewrite (ugt_ult ucmp) in Og.
  apply andb_false_iff in Og. destruct Og as [Og|Og]; apply negb_false_iff, (ult_ULt ucmp) in Og.
  - (* g ends before the user range of the level-L inputs *)
    assert (HB: forall f, In f R1 -> FB g f).
    { intros f Hf. destruct (Closed_sides ucmp fs1 HS1 X1 R1 g HC Hg Hng) as [H|H]; auto.
      exfalso. destruct (HX f Hf) as (x & Hx). destruct (HXo x Hx) as (HxR & Hx1 & _).
      destruct (H x HxR) as [H1 _].
      apply (ULt_ULe_absurd ucmp _ _ Og). eapply (ULe_trans ucmp); [exact Hx1|].
      apply (ilt_ULe ucmp). apply (FB_lg_lt ucmp); auto. }
    split.
    + left. intros m Hm. apply in_app_or in Hm. destruct Hm as [Hm|Hm].
      * apply (ULt_ilt ucmp). eapply (ULt_ULe ucmp); [exact Og|]. apply (HE m Hm).
      * apply level_entries_In in Hm. destruct Hm as (f & Hf & Hm).
        apply (HB f Hf); auto. apply (lg_In ucmp); auto.
    + intros o m Ho Hm Hk. apply in_app_or in Hm. destruct Hm as [Hm|Hm].
      * exfalso. apply (ueq_ULe ucmp) in Hk. destruct Hk as [_ Hk].
        apply (ULt_ULe_absurd ucmp _ _ Og). eapply (ULe_trans ucmp); [apply (HE m Hm)|].
        eapply (ULe_trans ucmp); [exact Hk|]. apply (ents_ULe ucmp g o Hokg Ho).
      * apply level_entries_In in Hm. destruct Hm as (f & Hf & Hm).
        apply (ilt_ueq_seq ucmp); auto. apply (HB f Hf); auto.
  - (* g starts after the user range of the level-L inputs *)
    assert (HA: forall f, In f R1 -> ULt (ek (lg f)) (ek (sm g))).
    { intros f Hf. destruct (Closed_sides ucmp fs1 HS1 X1 R1 g HC Hg Hng) as [H|H]; [|apply H; auto].
      exfalso. destruct (HX f Hf) as (x & Hx). destruct (HXo x Hx) as (HxR & _ & Hx2).
      specialize (H x HxR).
      apply (ULt_ULe_absurd ucmp _ _ Og). eapply (ULe_trans ucmp); [|exact Hx2].
      eapply (ULe_trans ucmp). apply (sm_ULe_lg ucmp); auto.
      apply (ilt_ULe ucmp). apply (FB_ilt ucmp); auto. }
    assert (HM: forall m, In m (E0 ++ level_entries R1) -> ULt (ek m) (ek (sm g))).
    { intros m Hm. apply in_app_or in Hm. destruct Hm as [Hm|Hm].
      - eapply (ULe_ULt ucmp); [apply (HE m Hm)|exact Og].
      - apply level_entries_In in Hm. destruct Hm as (f & Hf & Hm).
        eapply (ULe_ULt ucmp); [|apply (HA f Hf)]. apply (ents_ULe ucmp f m); auto. }
    split.
    + right. intros m Hm. apply (ULt_ilt ucmp). auto.
    + intros o m Ho Hm Hk. exfalso. apply (ueq_ULe ucmp) in Hk. destruct Hk as [Hk _].
      apply (ULt_ULe_absurd ucmp _ _ (HM m Hm)).
      eapply (ULe_trans ucmp); [|exact Hk]. apply (ents_ULe ucmp g o Hokg Ho).
Qed.

Lemma Closed_nil : Closed fs1 [] [].
Proof.
  constructor.
  - intros f [].
  - intros f [].
  - intros f f' g [].
  - intros b [].
  - intros g f _ _ [].
Qed.

Theorem parent_inputs_ok in0 : Forall FOK in0 -> in0 <> [] ->
  incl (parent_inputs ucmp fs1 in0) fs1 /\
  forall g, In g fs1 -> ~ In g (parent_inputs ucmp fs1 in0) ->
    Sides g (level_entries in0 ++ level_entries (parent_inputs ucmp fs1 in0)).
Proof.
  intros H0 Hne. unfold parent_inputs.
  destruct (get_range_spec ucmp in0 H0 Hne) as (a & b & E & _ & _ & _). rewrite E.
  rewrite (overlapping_inputs_false ucmp fs1 _ _ HF1).
  set (X1 := filter (ovl (Some (ek a)) (Some (ek b))) fs1).
  assert (HC: Closed fs1 X1 (boundary_inputs ucmp fs1 X1) /\
              forall f, In f (boundary_inputs ucmp fs1 X1) -> exists x, In x X1).
  { destruct X1 as [|x0 X'] eqn:EX.
    - split. apply Closed_nil. intros f [].
    - rewrite <- EX. split.
      + apply (boundary_sorted ucmp fs1 HF1 HS1).
        * rewrite EX; discriminate.
        * intros f Hf. apply (proj1 (filter_In _ _ _) Hf).
        * apply (Convex_ovl ucmp); auto.
      + intros _ _. exists x0. rewrite EX. left; auto. }
  destruct HC as [HC HX]. split. apply (cl_sub _ _ _ _ HC).
  apply (parent_core X1 _ (ek a) (ek b)); auto.
  intros m Hm. apply (get_range_bounds ucmp in0 a b m); auto.
Qed.

End Parent.

(* ------------------------------------------------------------ the level-L inputs *)
(* a selection of level-L files such that what stays behind is newer *)
Definition GoodSel (fsL i0 : list file) : Prop :=
  incl i0 fsL /\ forall g, In g fsL -> ~ In g i0 -> NO (fents g) (level_entries i0).

Lemma GoodSel_nil fsL : GoodSel fsL [].
Proof. split. intros f []. intros g _ _ o m _ []. Qed.

Lemma good_sorted fsL X : Forall FOK fsL -> StronglySorted FB fsL -> incl X fsL -> Convex fsL X ->
  GoodSel fsL (boundary_inputs ucmp fsL X).
Proof.
  intros HF HS Hsub Hcvx. destruct X as [|x0 X'] eqn:EX. apply GoodSel_nil. rewrite <- EX in *.
  assert (HC: Closed fsL X (boundary_inputs ucmp fsL X)).
  { apply (boundary_sorted ucmp); auto. rewrite EX; discriminate. }
  split. apply (cl_sub _ _ _ _ HC). intros g Hg Hng. eapply (Closed_NO ucmp); eauto.
Qed.

Lemma good_lvl0 fs0 ub ue : Forall FOK fs0 ->
  GoodSel fs0 (boundary_inputs ucmp fs0 (overlapping_inputs ucmp true fs0 ub ue)).
Proof.
  intros HF. destruct (overlapping_inputs_lvl0 ucmp fs0 ub ue HF) as (ub' & ue' & _ & _ & E & Hw).
  rewrite E, (boundary_lvl0 ucmp fs0 ub' ue' HF Hw). split.
  - intros f Hf. apply (proj1 (filter_In _ _ _) Hf).
  - intros g Hg Hng. apply (lvl0_NO ucmp); auto.
    destruct (ovl ub' ue' g) eqn:Og; auto. exfalso. apply Hng. apply filter_In. auto.
Qed.

(* seeds handed to setup_other_inputs by compact_range / pick_compaction *)
Definition SeedOK (fsL : list file) (L : nat) (in0 : list file) : Prop :=
  match L with
  | O => in0 = [] \/ exists ub ue, in0 = overlapping_inputs ucmp true fsL ub ue
  | S _ => incl in0 fsL /\ Convex fsL in0
  end.

Lemma setup_shape s L in0 expand :
  let fsL := level_files (levels s) L in
  let sel := setup_other_inputs ucmp s L in0 expand in
  snd sel = parent_inputs ucmp (level_files (levels s) (S L)) (fst sel) /\
  (fst sel = boundary_inputs ucmp fsL in0 \/
   exists a b, fst sel = boundary_inputs ucmp fsL (overlapping_inputs ucmp (L =? 0)%nat fsL (Some a) (Some b))).
Proof.
  cbv zeta. unfold setup_other_inputs. cbv zeta.
  set (fsL := level_files (levels s) L). set (fsL1 := level_files (levels s) (S L)).
  set (inputs0 := boundary_inputs ucmp fsL in0). set (inputs1 := parent_inputs ucmp fsL1 inputs0).
  destruct (get_range ucmp (inputs0 ++ inputs1)) as [[all_start all_limit]|]; [|cbn [fst snd]; auto].
  destruct (negb (is_nil inputs1)); [|cbn [fst snd]; auto].
  set (expanded0 := boundary_inputs ucmp fsL
                      (overlapping_inputs ucmp (L =? 0)%nat fsL (Some (ek all_start)) (Some (ek all_limit)))).
  destruct ((length inputs0 <? length expanded0)%nat && expand); [|cbn [fst snd]; auto].
  destruct ((length (parent_inputs ucmp fsL1 expanded0) =? length inputs1)%nat); cbn [fst snd]; auto.
  split; auto. right. exists (ek all_start), (ek all_limit). reflexivity.
Qed.

Section WithState.
Variable s : state.
Hypothesis HI : SInv s.
Variable L : nat.

Let fsL := level_files (levels s) L.
Let fsL1 := level_files (levels s) (S L).

Lemma lvl_FOK i : Forall FOK (level_files (levels s) i).
Proof. apply Forall_forall. intros f Hf. eapply (si_fok ucmp s HI); eauto. Qed.

Lemma lvl_sorted i : (1 <= i)%nat -> StronglySorted FB (level_files (levels s) i).
Proof. apply (si_lsort ucmp s HI). Qed.

Lemma lvl_inj i : NumInj (level_files (levels s) i).
Proof. apply NoDup_nums_inj. apply (proj1 (si_nd ucmp s HI) i). Qed.

Lemma setup_good in0 expand :
  SeedOK fsL L in0 -> GoodSel fsL (fst (setup_other_inputs ucmp s L in0 expand)).
Proof.
  intros Hseed. destruct (setup_shape s L in0 expand) as [_ [E|(a & b & E)]]; rewrite E; fold fsL.
  - destruct L as [|L'] eqn:EL; cbn [SeedOK] in Hseed.
    + destruct Hseed as [->|(ub & ue & ->)]. apply GoodSel_nil. apply good_lvl0. apply lvl_FOK.
    + destruct Hseed as [H1 H2]. apply good_sorted; auto. apply lvl_FOK. apply lvl_sorted. lia.
  - destruct L as [|L'] eqn:EL.
    + change (0 =? 0)%nat with true. apply good_lvl0. apply lvl_FOK.
    + change (S L' =? 0)%nat with false.
      rewrite (overlapping_inputs_false ucmp fsL _ _ (lvl_FOK (S L'))).
      apply good_sorted. apply lvl_FOK. apply lvl_sorted; lia.
      intros f Hf. apply (proj1 (filter_In _ _ _) Hf).
      apply (Convex_ovl ucmp). apply lvl_FOK.
Qed.

(* the semantic content of the input-side guards *)
Record SelOK (i0 i1 : list file) : Prop := {
  so_ne : i0 <> [];
  so_good : GoodSel fsL i0;
  so_sub1 : incl i1 fsL1;
  so_sides : forall g, In g fsL1 -> ~ In g i1 -> Sides g (level_entries i0 ++ level_entries i1)
}.

Lemma setup_SelOK in0 expand :
  SeedOK fsL L in0 -> fst (setup_other_inputs ucmp s L in0 expand) <> [] ->
  SelOK (fst (setup_other_inputs ucmp s L in0 expand)) (snd (setup_other_inputs ucmp s L in0 expand)).
Proof.
  intros Hseed Hne. pose proof (setup_good in0 expand Hseed) as HG.
  destruct (setup_shape s L in0 expand) as [E1 _]. rewrite E1. fold fsL1.
  set (i0 := fst (setup_other_inputs ucmp s L in0 expand)) in *.
  assert (H0: Forall FOK i0).
  { eapply Forall_FOK_incl. apply (lvl_FOK L). apply HG. }
  destruct (parent_inputs_ok fsL1 (lvl_FOK (S L)) (lvl_sorted (S L) ltac:(lia)) i0 H0 Hne) as [Hs Hd].
  constructor; auto.
Qed.

(* seeds of the two entry points *)
Lemma manual_seed b e keep :
  let inputs := overlapping_inputs ucmp (L =? 0)%nat fsL b e in
  SeedOK fsL L (if (L =? 0)%nat then inputs else firstn keep inputs).
Proof.
  cbv zeta. destruct L as [|L'] eqn:EL.
  - change (0 =? 0)%nat with true. cbn [SeedOK]. right. eauto.
  - change (S L' =? 0)%nat with false. cbn [SeedOK].
    rewrite (overlapping_inputs_false ucmp fsL _ _ (lvl_FOK (S L'))). split.
    + intros f Hf. apply firstn_In' in Hf. apply (proj1 (filter_In _ _ _) Hf).
    + apply (Convex_firstn ucmp). apply lvl_FOK. apply lvl_sorted; lia.
      apply (Convex_ovl ucmp). apply lvl_FOK.
Qed.

Lemma manual_SelOK b e keep expand :
  fst (manual_inputs ucmp s L b e keep expand) <> [] ->
  SelOK (fst (manual_inputs ucmp s L b e keep expand)) (snd (manual_inputs ucmp s L b e keep expand)).
Proof.
  unfold manual_inputs. cbv zeta. fold fsL.
  destruct (overlapping_inputs ucmp (L =? 0)%nat fsL b e) as [|x0 r] eqn:E.
  - cbn [fst]. congruence.
  - rewrite <- E. apply setup_SelOK. apply manual_seed.
Qed.

Lemma picked_SelOK seed expand :
  fst (picked_inputs ucmp s L seed expand) <> [] ->
  SelOK (fst (picked_inputs ucmp s L seed expand)) (snd (picked_inputs ucmp s L seed expand)).
Proof.
  unfold picked_inputs. cbv zeta. fold fsL.
  destruct (find (fun f => fnum f =? seed) fsL) as [f|] eqn:E.
  - apply find_some in E. destruct E as [Hf _]. apply setup_SelOK.
    destruct L as [|L'] eqn:EL.
    + change (0 =? 0)%nat with true. cbn [SeedOK].
      destruct (get_range ucmp [f]) as [[a b]|]; eauto.
    + change (S L' =? 0)%nat with false. cbn [SeedOK]. split.
      * intros x [<-|[]]; auto.
      * apply (Convex_single ucmp); auto. apply lvl_FOK.
  - cbn [fst]. congruence.
Qed.

(* ------------------------------------------------------------ from files to file numbers *)
Lemma has_num_map X f : has_num (map fnum X) f = true <-> exists x, In x X /\ fnum x = fnum f.
Proof.
  unfold has_num. rewrite existsb_exists. split.
  - intros (n & Hn & E). apply in_map_iff in Hn. destruct Hn as (x & <- & Hx). exists x. split; auto. lia.
  - intros (x & Hx & E). exists (fnum x). split. apply in_map; auto. lia.
Qed.

Lemma sel_iff i X f : incl X (level_files (levels s) i) ->
  (In f (select_files (level_files (levels s) i) (map fnum X)) <-> In f X).
Proof.
  intros Hsub. rewrite select_In, has_num_map. split.
  - intros (Hf & x & Hx & E). assert (x = f); [|subst; auto]. apply (lvl_inj i); auto.
  - intros Hf. split; auto. exists f. auto.
Qed.

Lemma rem_iff i X f : incl X (level_files (levels s) i) ->
  (In f (remove_files (level_files (levels s) i) (map fnum X)) <-> In f (level_files (levels s) i) /\ ~ In f X).
Proof.
  intros Hsub. split.
  - intros H. apply EngineStepsEdit.remove_In in H. destruct H as (Hf & Hn). split; auto. intros HX.
    assert (has_num (map fnum X) f = true) by (apply has_num_map; eauto). congruence.
  - intros (Hf & Hn). apply EngineStepsEdit.remove_In. split; auto. destruct (has_num (map fnum X) f) eqn:E; auto.
    apply has_num_map in E. destruct E as (x & Hx & E). exfalso. apply Hn.
    assert (x = f); [|subst; auto]. apply (lvl_inj i); auto.
Qed.

Lemma level_entries_ext A B : (forall f, In f A <-> In f B) ->
  forall e, In e (level_entries A) <-> In e (level_entries B).
Proof.
  intros H e. rewrite !level_entries_In. split; intros (f & Hf & He); exists f; split; auto; apply H; auto.
Qed.

Lemma all_in_incl X fs : incl X fs -> all_in (map fnum X) fs = true.
Proof.
  intros H. unfold all_in. apply forallb_forall. intros n Hn. apply in_map_iff in Hn.
  destruct Hn as (x & <- & Hx). apply existsb_exists. exists x. split; auto. lia.
Qed.

Lemma disjoint_of_sides (E : list entry) g : E <> [] -> FOK g ->
  ((forall m, In m E -> ilt (lg g) m = true) \/ (forall m, In m E -> ilt m (sm g) = true)) ->
  file_disjoint_from ucmp E g = true.
Proof.
  intros Hne Hg H. unfold file_disjoint_from. destruct E as [|m0 mr]; [congruence|].
  rewrite (FOK_sm ucmp g Hg), (FOK_lg ucmp g Hg). apply orb_true_iff.
  destruct H as [H|H]; [left|right]; apply H. left; auto. apply last_In.
Qed.

(* the INPUT-SIDE conjuncts of Engine.compaction_guard *)
Definition input_guards (c : compaction) : Prop :=
  let lv := levels s in
  let i0 := fst (compaction_inputs s c) in
  let merged := compaction_merged ucmp s c in
  all_in (c_in0 c) (level_files lv (c_level c)) = true /\
  all_in (c_in1 c) (level_files lv (S (c_level c))) = true /\
  newer_outside ucmp (level_entries (remove_files (level_files lv (c_level c)) (c_in0 c))) (level_entries i0) = true /\
  forallb (file_disjoint_from ucmp merged) (remove_files (level_files lv (S (c_level c))) (c_in1 c)) = true /\
  newer_outside ucmp (level_entries (remove_files (level_files lv (S (c_level c))) (c_in1 c))) merged = true.

Lemma SelOK_guards i0 i1 cuts outs nf :
  SelOK i0 i1 -> input_guards (to_compaction L (i0, i1) cuts outs nf).
Proof.
  intros [Hne [Hsub0 Hgood] Hsub1 Hsides].
  unfold input_guards, compaction_merged, compaction_inputs, to_compaction.
  cbn [c_level c_in0 c_in1 fst snd]. fold fsL fsL1.
  set (S0 := select_files fsL (map fnum i0)). set (S1 := select_files fsL1 (map fnum i1)).
  assert (HE0: forall e, In e (level_entries S0) <-> In e (level_entries i0)).
  { apply level_entries_ext. intros f. apply (sel_iff L); auto. }
  assert (HE1: forall e, In e (level_entries S1) <-> In e (level_entries i1)).
  { apply level_entries_ext. intros f. apply (sel_iff (S L)); auto. }
  assert (HM: forall e, In e (sort_entries ucmp (level_entries S0 ++ level_entries S1)) <->
                        In e (level_entries i0 ++ level_entries i1)).
  { intros e. rewrite (sort_entries_In ucmp), !in_app_iff, HE0, HE1. tauto. }
  assert (HMne: sort_entries ucmp (level_entries S0 ++ level_entries S1) <> []).
  { destruct i0 as [|f0 r0]; [congruence|].
    assert (Hok: FOK f0). { eapply (si_fok ucmp s HI L). apply Hsub0. left; auto. }
    assert (In (sm f0) (sort_entries ucmp (level_entries S0 ++ level_entries S1))).
    { apply HM. apply in_or_app. left. apply level_entries_In. exists f0. split. left; auto.
      apply (sm_In ucmp); auto. }
    intros E. rewrite E in H. destruct H. }
  split; [|split; [|split; [|split]]].
  - apply all_in_incl; auto.
  - apply all_in_incl; auto.
  - apply (newer_outside_NO ucmp). intros o m Ho Hm Hk.
    apply level_entries_In in Ho. destruct Ho as (g & Hg & Ho).
    apply (rem_iff L) in Hg; auto. destruct Hg as [Hg Hng].
    apply (Hgood g Hg Hng o m); auto. apply HE0; auto.
  - apply forallb_forall. intros g Hg. apply (rem_iff (S L)) in Hg; auto. destruct Hg as [Hg Hng].
    apply disjoint_of_sides; auto. eapply (si_fok ucmp s HI); eauto.
    destruct (Hsides g Hg Hng) as [[H|H] _]; [left|right]; intros m Hm; apply H, HM, Hm.
  - apply (newer_outside_NO ucmp). intros o m Ho Hm Hk.
    apply level_entries_In in Ho. destruct Ho as (g & Hg & Ho).
    apply (rem_iff (S L)) in Hg; auto. destruct Hg as [Hg Hng].
    destruct (Hsides g Hg Hng) as [_ H]. apply (H o m); auto. apply HM; auto.
Qed.

(* trivial move: a single level-L file and no level-(L+1) input *)
Lemma SelOK_move f : (S L < NUM_LEVELS)%nat -> SelOK [f] [] -> move_guard ucmp s L (fnum f) = true.
Proof.
  intros HL [Hne [Hsub0 Hgood] Hsub1 Hsides].
  unfold move_guard. cbv zeta. fold fsL fsL1.
  change [fnum f] with (map fnum [f]).
  set (S0 := select_files fsL (map fnum [f])).
  assert (HE0: forall e, In e (level_entries S0) <-> In e (level_entries [f])).
  { apply level_entries_ext. intros x. apply (sel_iff L); auto. }
  assert (Hokf: FOK f). { eapply (si_fok ucmp s HI L). apply Hsub0. left; auto. }
  assert (HSne: level_entries S0 <> []).
  { assert (In (sm f) (level_entries S0)).
    { apply HE0. apply level_entries_In. exists f. split. left; auto. apply (sm_In ucmp); auto. }
    intros E. rewrite E in H. destruct H. }
  assert (HM: forall m, In m (level_entries S0) -> In m (level_entries [f] ++ level_entries [])).
  { intros m Hm. apply in_or_app. left. apply HE0; auto. }
  apply andb_true_iff; split; [apply andb_true_iff; split; [apply andb_true_iff; split; [apply andb_true_iff; split|]|]|].
  - apply Nat.ltb_lt. exact HL.
  - apply all_in_incl; auto.
  - apply (newer_outside_NO ucmp). intros o m Ho Hm Hk.
    apply level_entries_In in Ho. destruct Ho as (g & Hg & Ho).
    apply (rem_iff L) in Hg; auto. destruct Hg as [Hg Hng].
    apply (Hgood g Hg Hng o m); auto. apply HE0; auto.
  - apply forallb_forall. intros g Hg.
    apply disjoint_of_sides; auto. eapply (si_fok ucmp s HI); eauto.
    destruct (Hsides g Hg (fun H => H)) as [[H|H] _]; [left|right]; intros m Hm; apply H, HM, Hm.
  - apply (newer_outside_NO ucmp). intros o m Ho Hm Hk.
    apply level_entries_In in Ho. destruct Ho as (g & Hg & Ho).
    destruct (Hsides g Hg (fun H => H)) as [_ H]. apply (H o m); auto.
Qed.

End WithState.

(* ------------------------------------------------------------ the theorems *)
Theorem policy_satisfies_guards s L :
  inv_b ucmp s = true -> (S L < NUM_LEVELS)%nat ->
  (forall b e keep expand cuts outs nf,
     fst (manual_inputs ucmp s L b e keep expand) <> [] ->
     input_guards s (to_compaction L (manual_inputs ucmp s L b e keep expand) cuts outs nf)) /\
  (forall seed expand cuts outs nf,
     fst (picked_inputs ucmp s L seed expand) <> [] ->
     input_guards s (to_compaction L (picked_inputs ucmp s L seed expand) cuts outs nf)).
Proof.
  intros HI _. apply (inv_b_SInv ucmp) in HI. split.
  - intros b e keep expand cuts outs nf Hne.
    pose proof (manual_SelOK s HI L b e keep expand Hne) as H.
    destruct (manual_inputs ucmp s L b e keep expand) as [i0 i1]. apply SelOK_guards; auto.
  - intros seed expand cuts outs nf Hne.
    pose proof (picked_SelOK s HI L seed expand Hne) as H.
    destruct (picked_inputs ucmp s L seed expand) as [i0 i1]. apply SelOK_guards; auto.
Qed.

(* compaction_guard = level bound, non-empty inputs[0], input side, output side *)
Definition output_guards (s : state) (c : compaction) : bool :=
  forallb (fresh_num s) (c_outs c) && strictly_increasing (c_outs c)
  && forallb (fun n => n <? c_nf c) (c_outs c) && (next_file s <=? c_nf c)
  && forallb (fun n => (0 <? n)%nat) (c_cuts c).

Lemma compaction_guard_split s c :
  (S (c_level c) < NUM_LEVELS)%nat -> c_in0 c <> [] -> input_guards s c -> output_guards s c = true ->
  compaction_guard ucmp s c = true.
Proof.
  intros HL Hne (G1 & G2 & G3 & G4 & G5) HO.
  unfold output_guards in HO. rewrite !andb_true_iff in HO. destruct HO as ((((O1 & O2) & O3) & O4) & O5).
  unfold compaction_guard. cbv zeta.
  unfold compaction_merged in *. destruct (compaction_inputs s c) as [i0 i1] eqn:Ei.
  cbn [fst] in G3.
  rewrite G1, G2, G3, G4, G5, O1, O2, O3, O4, O5.
  destruct (c_in0 c); [congruence|]. cbn [negb]. rewrite !andb_true_r. apply Nat.ltb_lt. exact HL.
Qed.

Lemma zip_files_some nums runs : length nums = length runs -> zip_files nums runs <> None.
Proof.
  revert runs. induction nums as [|n ns IH]; intros [|r rs] H; cbn [length] in H; try lia; cbn [zip_files].
  - discriminate.
  - specialize (IH rs ltac:(lia)). destruct (zip_files ns rs); [discriminate|congruence].
Qed.

Lemma policy_step_of_sel s L sel cuts outs nf :
  (S L < NUM_LEVELS)%nat -> fst sel <> [] -> input_guards s (to_compaction L sel cuts outs nf) ->
  let c := to_compaction L sel cuts outs nf in
  output_guards s c = true ->
  length outs = length (split_at cuts (compaction_kept ucmp s c)) ->
  compaction_guard ucmp s c = true /\ do_compact ucmp s c <> None.
Proof.
  intros HL Hne HG c HO Hlen.
  assert (Hg: compaction_guard ucmp s c = true).
  { apply compaction_guard_split; auto. unfold c, to_compaction. cbn [c_in0].
    destruct (fst sel); [congruence|]. cbn [map]. discriminate. }
  split; auto. unfold do_compact. rewrite Hg.
  change (c_outs c) with outs. change (c_cuts c) with cuts.
  pose proof (zip_files_some outs _ Hlen) as Hz.
  destruct (zip_files outs (split_at cuts (compaction_kept ucmp s c))); [discriminate|congruence].
Qed.

(* every selection lcdb can make is an enabled step of the model: fresh output numbers,
   positive cuts, as many output numbers as output runs *)
Theorem policy_step_exists s L :
  inv_b ucmp s = true -> (S L < NUM_LEVELS)%nat ->
  forall sel, (exists b e keep expand, sel = manual_inputs ucmp s L b e keep expand) \/
              (exists seed expand, sel = picked_inputs ucmp s L seed expand) ->
  fst sel <> [] ->
  forall cuts outs nf,
  let c := to_compaction L sel cuts outs nf in
  output_guards s c = true ->
  length outs = length (split_at cuts (compaction_kept ucmp s c)) ->
  compaction_guard ucmp s c = true /\ do_compact ucmp s c <> None.
Proof.
  intros HI HL sel Hsel Hne cuts outs nf.
  destruct (policy_satisfies_guards s L HI HL) as [HM HP].
  apply policy_step_of_sel; auto.
  destruct Hsel as [(b & e & keep & expand & ->)|(seed & expand & ->)]; auto.
Qed.

(* ldb_compaction_is_trivial_move: one level-L file, no level-(L+1) input *)
Theorem policy_trivial_move s L :
  inv_b ucmp s = true -> (S L < NUM_LEVELS)%nat ->
  forall sel, (exists b e keep expand, sel = manual_inputs ucmp s L b e keep expand) \/
              (exists seed expand, sel = picked_inputs ucmp s L seed expand) ->
  forall f gp, sel = ([f], []) -> is_trivial_move sel gp = true ->
  move_guard ucmp s L (fnum f) = true /\ do_move ucmp s L (fnum f) <> None.
Proof.
  intros HI HL sel Hsel f gp E _. apply (inv_b_SInv ucmp) in HI.
  assert (H: SelOK s L [f] []).
  { destruct Hsel as [(b & e & keep & expand & E')|(seed & expand & E')].
    - pose proof (manual_SelOK s HI L b e keep expand) as H. rewrite <- E', E in H. cbn [fst snd] in H.
      apply H. discriminate.
    - pose proof (picked_SelOK s HI L seed expand) as H. rewrite <- E', E in H. cbn [fst snd] in H.
      apply H. discriminate. }
  assert (Hm: move_guard ucmp s L (fnum f) = true) by (apply SelOK_move; auto).
  split; auto. unfold do_move. rewrite Hm. discriminate.
Qed.

(* end to end: a compaction (or trivial move) that lcdb's selection code can choose is a step of
   the model that keeps the invariant and every readable view *)
Theorem policy_compaction_correct s L :
  inv_b ucmp s = true -> (S L < NUM_LEVELS)%nat ->
  forall sel, (exists b e keep expand, sel = manual_inputs ucmp s L b e keep expand) \/
              (exists seed expand, sel = picked_inputs ucmp s L seed expand) ->
  fst sel <> [] ->
  forall cuts outs nf,
  let c := to_compaction L sel cuts outs nf in
  output_guards s c = true ->
  length outs = length (split_at cuts (compaction_kept ucmp s c)) ->
  exists s', step ucmp s (OCompact c) = Some s' /\ inv_b ucmp s' = true /\
             forall k q, readable s q -> view ucmp s' k q = view ucmp s k q.
Proof.
  intros HI HL sel Hsel Hne cuts outs nf c HO Hlen.
  destruct (policy_step_exists s L HI HL sel Hsel Hne cuts outs nf HO Hlen) as [_ Hd].
  fold c in Hd. cbn [step]. destruct (do_compact ucmp s c) as [s'|] eqn:E; [|congruence].
  exists s'. split; auto. split.
  - apply (step_preserves_inv ucmp TO s (OCompact c) s'); auto.
  - apply (step_preserves_views_sharp ucmp TO s (OCompact c) s'); cbn; auto.
Qed.

Theorem policy_move_correct s L :
  inv_b ucmp s = true -> (S L < NUM_LEVELS)%nat ->
  forall sel, (exists b e keep expand, sel = manual_inputs ucmp s L b e keep expand) \/
              (exists seed expand, sel = picked_inputs ucmp s L seed expand) ->
  forall f gp, sel = ([f], []) -> is_trivial_move sel gp = true ->
  exists s', step ucmp s (OMove L (fnum f)) = Some s' /\ inv_b ucmp s' = true /\
             forall k q, readable s q -> view ucmp s' k q = view ucmp s k q.
Proof.
  intros HI HL sel Hsel f gp E Ht.
  destruct (policy_trivial_move s L HI HL sel Hsel f gp E Ht) as [_ Hd].
  cbn [step]. destruct (do_move ucmp s L (fnum f)) as [s'|] eqn:E'; [|congruence].
  exists s'. split; auto. split.
  - apply (step_preserves_inv ucmp TO s (OMove L (fnum f)) s'); auto.
  - apply (step_preserves_views_sharp ucmp TO s (OMove L (fnum f)) s'); cbn; auto.
Qed.

End PP.
