(* Properties_C20.v -- theorems for property C20 (lifecycle operations are exclusive,
   complete and non-destructive).  Models: Lifecycle.v (lock table, destroy, backup,
   comparator check) over Engine.v and Filename.v; proofs: LifecycleProofs.v.

   What is a theorem about the model and what is tied to the code only by the
   differential runs (checks/c20.py) is said at each statement. *)
From LCDB Require Import Base BaseProofs Engine EngineSpec EngineRead EngineSteps EngineTop.
From LCDB Require Import Filename FilenameProofs Edit Lifecycle LifecycleProofs.
Require Import Lia.
Local Open Scope N_scope.

(* ================================================================== 1. exclusive open *)
(* For every sequence of opens, failed opens and closes of any directories (one process):
   (a) at most one handle is open per directory;
   (b) the lock of a directory is held exactly while a handle is open on it;
   (c) a second open of an open directory fails in ldb_lock_file and changes nothing
       (whether or not the rest of that open would have succeeded);
   (d) a directory that is not open can be opened;
   (e) after ldb_close the directory is not open, other directories are unaffected, and it
       can be opened again;
   (f) an open that fails after taking the lock leaves the state as it was: the directory
       can be opened again. *)
Theorem C20_exclusive : forall ops s, s = lk_run lk_init ops ->
  (forall d, (count_open d s <= 1)%nat) /\
  (forall d, In d (locks s) <-> In d (open_dirs s)) /\
  (forall d ok, In d (open_dirs s) -> lc_open_gen ok s d = (s, RLocked)) /\
  (forall d, ~ In d (open_dirs s) ->
     snd (lc_open s d) = ROpened (next_handle s) /\ In d (open_dirs (fst (lc_open s d)))) /\
  (forall d, In d (open_dirs s) ->
     snd (lc_close s d) = RClosed /\ ~ In d (open_dirs (fst (lc_close s d))) /\
     (forall d', d' <> d -> (In d' (open_dirs (fst (lc_close s d))) <-> In d' (open_dirs s))) /\
     exists h, snd (lc_open (fst (lc_close s d)) d) = ROpened h) /\
  (forall d, ~ In d (open_dirs s) ->
     lc_failed_open s d = (s, RFailed) /\
     exists h, snd (lc_open (fst (lc_failed_open s d)) d) = ROpened h).
Proof.
  intros ops s ->. pose proof (lk_run_LInv ops lk_init lk_init_LInv) as HI.
  set (s := lk_run lk_init ops) in *.
  split. { intros d. apply count_nodup. exact (li_dirs_nodup s HI). }
  split. { exact (li_held s HI). }
  split. { intros d ok Hin. apply second_open_fails; assumption. }
  split. { intros d Hn. apply open_succeeds; assumption. }
  split.
  - intros d Hin. destruct (close_releases s d HI Hin) as (H1 & H2 & H3).
    split; [exact H1|]. split; [exact H2|]. split; [exact H3|].
    pose proof (close_LInv s d HI) as HI'.
    destruct (open_succeeds (fst (lc_close s d)) d HI' H2) as [Ho _]. eexists. exact Ho.
  - intros d Hn. pose proof (failed_open_releases s d HI Hn) as Hf. split; [exact Hf|].
    rewrite Hf. cbn [fst]. destruct (open_succeeds s d HI Hn) as [Ho _]. eexists. exact Ho.
Qed.
Print Assumptions C20_exclusive.

(* the invariant behind it, for every reachable state *)
Theorem C20_lock_invariant : forall ops, LInv (lk_run lk_init ops).
Proof. intros ops. apply lk_run_LInv. apply lk_init_LInv. Qed.
Print Assumptions C20_lock_invariant.

(* Several processes, in-process table + operating-system record lock.
   If ldb_lock_file consults its table BEFORE opening the LOCK file (the code since fix
   96e3fcf), no directory is ever open through two handles, in whatever order any
   processes open and close. *)
Theorem C20_exclusive_processes_checked : forall ops d,
  (p_count_open d (mp_run true mp_init ops) <= 1)%nat.
Proof.
  intros ops d. assert (HI : PInv mp_init) by (repeat split; constructor).
  pose proof (prun_checked_PInv ops mp_init HI) as (H1 & H2 & H3).
  unfold p_count_open. rewrite H2. apply p_count_nodup. exact H3.
Qed.
Print Assumptions C20_exclusive_processes_checked.

(* lcdb's ORIGINAL order (open the LOCK file, find the directory in the table, close the
   descriptor) with POSIX record locks, which are dropped when the process closes any
   descriptor of the file: process 1 opens d, its second open of d fails as it should --
   and releases the record lock; process 2 then opens d while process 1 still has it open.
   Found on the implementation by checks/c20.py (`lock2`: F_GETLK probe from a forked child
   before and after the failed second open, kind lock-dropped-by-failed-open) and repaired
   in /repo by fix 96e3fcf, after which the code is the [check_first = true] variant of
   C20_exclusive_processes_checked. *)
Definition lock_drop_witness : list mp_op := [POpen 1 [100]; POpen 1 [100]; POpen 2 [100]].

Theorem C20_exclusive_processes_refuted :
  snd (mp_step false (mp_run false mp_init [POpen 1 [100]]) (POpen 1 [100])) = false /\
  p_count_open [100] (mp_run false mp_init lock_drop_witness) = 2%nat /\
  p_handles (mp_run false mp_init lock_drop_witness) = [(2, [100]); (1, [100])].
Proof. vm_compute. repeat split. Qed.
Print Assumptions C20_exclusive_processes_refuted.

(* ================================================================== 2. destroy *)
(* ldb_destroy removes exactly the names ldb_parse_filename accepts *)
Theorem C20_destroy : forall n l,
  In n (destroy_remaining l) <-> In n l /\ parse_filename n = None.
Proof. exact destroy_remaining_In. Qed.
Print Assumptions C20_destroy.

(* every name the database itself creates is removed *)
Theorem C20_destroy_own_files_removed : forall kind num l,
  num < 2 ^ 64 -> ~ In (make_name kind num) (destroy_remaining l).
Proof.
  intros kind num l Hn Hin. apply destroy_remaining_In in Hin. destruct Hin as [_ Hp].
  rewrite (parse_filename_make kind num Hn) in Hp. discriminate.
Qed.
Print Assumptions C20_destroy_own_files_removed.

(* the order of the surviving names is kept and a second destroy removes nothing more *)
Theorem C20_destroy_idempotent : forall l, destroy_remaining (destroy_remaining l) = destroy_remaining l.
Proof. exact destroy_remaining_idem. Qed.
Print Assumptions C20_destroy_idempotent.

(* the directory itself disappears exactly when it held nothing foreign: every name was
   the database's own and the "lost" subdirectory, if any, could be removed (it held no
   CURRENT and only own names) *)
Theorem C20_destroy_directory_gone : forall top lost,
  destroy_tree top lost = None <->
  (forall n, In n top -> owned n = true) /\
  (match lost with
   | None => True
   | Some sub => ~ In s_CURRENT sub /\ forall n, In n sub -> owned n = true
   end).
Proof.
  intros top lost. unfold destroy_tree. rewrite <- (destroy_remaining_nil top).
  destruct (destroy_remaining top) as [|n t] eqn:E.
  - destruct lost as [sub|].
    + unfold destroy_lost. destruct (existsb (bytes_eqb s_CURRENT) sub) eqn:C.
      * split; [discriminate|]. intros [_ [Hn _]]. exfalso. apply Hn.
        apply existsb_exists in C. destruct C as (x & Hx & He). apply bytes_eqb_eq in He. subst x. exact Hx.
      * assert (Hn : ~ In s_CURRENT sub).
        { intros Hin. assert (existsb (bytes_eqb s_CURRENT) sub = true).
          { apply existsb_exists. exists s_CURRENT. split; [exact Hin|apply bytes_eqb_refl]. } congruence. }
        rewrite <- (destroy_remaining_nil sub). destruct (destroy_remaining sub); split; try tauto; try discriminate.
        intros [_ [_ H]]. discriminate.
    + tauto.
  - split; [destruct (match lost with None => None | Some sub => destroy_lost sub end); discriminate|].
    intros [H _]. discriminate.
Qed.
Print Assumptions C20_destroy_directory_gone.

(* a "lost" subdirectory holding a CURRENT is a database of its own: not touched *)
Theorem C20_destroy_keeps_nested_database : forall sub, In s_CURRENT sub -> destroy_lost sub = Some sub.
Proof.
  intros sub Hin. unfold destroy_lost.
  assert (H : existsb (bytes_eqb s_CURRENT) sub = true).
  { apply existsb_exists. exists s_CURRENT. split; [exact Hin|apply bytes_eqb_refl]. }
  rewrite H. reflexivity.
Qed.
Print Assumptions C20_destroy_keeps_nested_database.

(* foreign names next to a database are kept; computed on the Filename.v model of
   ldb_parse_filename (names as ASCII codes) *)
Definition ascii_README : bytes := [82;69;65;68;77;69].
Definition ascii_000001_txt : bytes := [48;48;48;48;48;49;46;116;120;116].
Definition ascii_MANIFEST : bytes := [77;65;78;73;70;69;83;84].
Definition ascii_MANIFEST_dash : bytes := [77;65;78;73;70;69;83;84;45].
Definition ascii_MANIFEST_x : bytes := [77;65;78;73;70;69;83;84;45;48;48;48;48;48;52;120].
Definition ascii_CURRENT_bak : bytes := [67;85;82;82;69;78;84;46;98;97;107].
Definition ascii_1_log_old : bytes := [49;46;108;111;103;46;111;108;100].
Definition ascii_current_lower : bytes := [99;117;114;114;101;110;116].
Definition ascii_dot_log : bytes := [46;108;111;103].
Definition ascii_LOG_old2 : bytes := [76;79;71;46;111;108;100;50].
Definition ascii_12_LDB_upper : bytes := [49;50;46;76;68;66].
Definition ascii_huge_log : bytes :=     (* 18446744073709551616.log: the number overflows uint64 *)
  [49;56;52;52;54;55;52;52;48;55;51;55;48;57;53;53;49;54;49;54;46;108;111;103].
Definition ascii_minus1_log : bytes := [45;49;46;108;111;103].
Definition ascii_lost : bytes := s_lost.

Definition foreign_names : list bytes :=
  [ascii_README; ascii_000001_txt; ascii_MANIFEST; ascii_MANIFEST_dash; ascii_MANIFEST_x; ascii_CURRENT_bak;
   ascii_1_log_old; ascii_current_lower; ascii_dot_log; ascii_LOG_old2; ascii_12_LDB_upper; ascii_huge_log;
   ascii_minus1_log; ascii_lost].

Definition own_names : list bytes :=
  [current_name; lock_name; info_name; oldinfo_name; desc_name 4; log_name 12; table_name 12; sstable_name 12;
   temp_name 7; [49;46;108;111;103] (* 1.log *); [48;46;115;115;116] (* 0.sst *);
   [49;56;52;52;54;55;52;52;48;55;51;55;48;57;53;53;49;54;49;53;46;108;100;98] (* 18446744073709551615.ldb *)].

Theorem C20_destroy_examples :
  destroy_remaining (own_names ++ foreign_names) = foreign_names /\
  destroy_remaining (foreign_names ++ own_names) = foreign_names /\
  destroy_remaining own_names = [] /\
  destroy_tree own_names None = None /\
  destroy_tree own_names (Some own_names) = Some ([], Some own_names) /\       (* lost/CURRENT exists *)
  destroy_tree own_names (Some [log_name 3; table_name 5]) = None /\
  destroy_tree (ascii_README :: own_names) (Some [log_name 3; ascii_README])
    = Some ([ascii_README], Some [ascii_README]).
Proof. vm_compute. repeat split. Qed.
Print Assumptions C20_destroy_examples.

(* ================================================================== 3. backup and copy *)
(* The backup of state s is a recovery of the same files: it shows, at the source's latest
   sequence, exactly what the source shows.  (Inv2 holds in every reachable state:
   EngineTop.reachable_Inv2; it covers data in the memtable only, an immutable memtable
   pending, and any level layout.) *)
Theorem C20_backup_contents : forall ucmp, total_order ucmp -> forall s bounds nums nf b,
  Inv2 ucmp s -> do_reopen ucmp s bounds nums nf = Some b ->
  forall k, view ucmp b k (last_seq s) = view ucmp s k (last_seq s).
Proof. intros ucmp TO s bounds nums nf b HI H k. exact (backup_contents ucmp TO s bounds nums nf b HI H k). Qed.
Print Assumptions C20_backup_contents.

(* ... at every sequence that is still readable in the source, too *)
Theorem C20_backup_contents_at : forall ucmp, total_order ucmp -> forall s bounds nums nf b,
  Inv2 ucmp s -> backup_state ucmp s bounds nums nf = Some b ->
  forall k q, readable s q -> view ucmp b k q = view ucmp s k q.
Proof. intros ucmp TO s bounds nums nf b HI H. exact (backup_views ucmp TO s bounds nums nf b HI H). Qed.
Print Assumptions C20_backup_contents_at.

(* the backup is an openable, well-formed database with the source's sequence number and
   no snapshots; ldb_get on it returns what ldb_get returns on the source, and an
   iterator over it yields the source's live entries *)
Theorem C20_backup_is_database : forall ucmp, total_order ucmp -> forall s bounds nums nf b,
  Inv2 ucmp s -> backup_state ucmp s bounds nums nf = Some b ->
  Inv2 ucmp b /\ last_seq b = last_seq s /\ snaps b = [] /\
  (forall k, visible (get ucmp b k (last_seq b)) = visible (get ucmp s k (last_seq s))) /\
  (forall k v, (exists k', ucmp k' k = Eq /\ In (k', v) (live_view ucmp b (last_seq b))) <->
               (exists k', ucmp k' k = Eq /\ In (k', v) (live_view ucmp s (last_seq s)))).
Proof.
  intros ucmp TO s bounds nums nf b HI H.
  destruct (backup_last_seq ucmp s bounds nums nf b H) as (H1 & H2 & _).
  split. { exact (backup_Inv2 ucmp TO s bounds nums nf b HI H). }
  split; [exact H1|]. split; [exact H2|].
  split. { exact (backup_get ucmp TO s bounds nums nf b HI H). }
  exact (backup_scan ucmp TO s bounds nums nf b HI H).
Qed.
Print Assumptions C20_backup_is_database.

(* a backup can be taken in every state *)
Theorem C20_backup_exists : forall ucmp s, exists nf b, backup_state ucmp s [] [] nf = Some b.
Proof. intros ucmp s. destruct (backup_exists ucmp s) as (b & Hb). eexists. exists b. exact Hb. Qed.
Print Assumptions C20_backup_exists.

(* Taking a backup is not a step of the source: the source component of the resulting
   pair is the same value.  (By construction of the model; on the implementation this is
   what the tie checks: the history continues on the source and every later read is
   compared with the model that took no step.) *)
Theorem C20_source_unchanged : forall ucmp s bounds nums nf w,
  take_backup ucmp s bounds nums nf = Some w ->
  w_src w = s /\ backup_state ucmp s bounds nums nf = Some (w_bak w).
Proof.
  intros ucmp s bounds nums nf w H. unfold take_backup in H.
  destruct (backup_state ucmp s bounds nums nf) as [b|]; [|discriminate]. injection H as <-. auto.
Qed.
Print Assumptions C20_source_unchanged.

(* The backup state is a value: whatever the source does afterwards does not change it. *)
Theorem C20_backup_independent : forall ucmp s bounds nums nf b ops s',
  backup_state ucmp s bounds nums nf = Some b ->
  run ucmp s ops = Some s' ->
  wrun ucmp (mkW s b) (map WSrc ops) = Some (mkW s' b).
Proof.
  intros ucmp s bounds nums nf b ops s' _. revert s. induction ops as [|o r IH]; intros s H; cbn [run map wrun wstep] in *.
  - injection H as ->. reflexivity.
  - cbn [w_src w_bak]. destruct (step ucmp s o) as [s1|]; [|discriminate]. apply IH. exact H.
Qed.
Print Assumptions C20_backup_independent.

(* in general: operations on the source and on the backup, interleaved in any way, act on
   their own database only *)
Theorem C20_source_and_backup_independent : forall ucmp ops w w',
  wrun ucmp w ops = Some w' <->
  run ucmp (w_src w) (src_ops ops) = Some (w_src w') /\ run ucmp (w_bak w) (bak_ops ops) = Some (w_bak w').
Proof. intros ucmp. exact (wrun_split ucmp). Qed.
Print Assumptions C20_source_and_backup_independent.

Lemma src_ops_WSrc ops : src_ops (map WSrc ops) = ops.
Proof. induction ops as [|o r IH]; cbn; [reflexivity|rewrite IH; reflexivity]. Qed.
Lemma bak_ops_WSrc ops : bak_ops (map WSrc ops) = [].
Proof. induction ops as [|o r IH]; cbn; [reflexivity|exact IH]. Qed.
Lemma run_app ucmp a : forall s0 s b s', run ucmp s0 a = Some s -> run ucmp s b = Some s' -> run ucmp s0 (a ++ b) = Some s'.
Proof.
  induction a as [|o r IH]; intros s0 s b s' H0 H1; cbn [run app] in *.
  - injection H0 as ->. exact H1.
  - destruct (step ucmp s0 o) as [s1|]; [|discriminate]. eapply IH; eauto.
Qed.

(* together: while the source goes on (writes, flushes, compactions, reopens), the backup
   keeps showing the source's contents of the moment it was taken, and the source shows
   its own history as if no backup had happened *)
Theorem C20_backup_frozen : forall ucmp, total_order ucmp -> forall ops0 s bounds nums nf w ops w',
  run ucmp init_state ops0 = Some s ->
  take_backup ucmp s bounds nums nf = Some w ->
  wrun ucmp w (map WSrc ops) = Some w' ->
  (forall k, view ucmp (w_bak w') k (last_seq s) = view ucmp s k (last_seq s)) /\
  run ucmp init_state (ops0 ++ ops) = Some (w_src w').
Proof.
  intros ucmp TO ops0 s bounds nums nf w ops w' H0 Hb Hw.
  destruct (C20_source_unchanged ucmp s bounds nums nf w Hb) as [Hs Hbk].
  apply (wrun_split ucmp) in Hw. destruct Hw as [Hsrc Hbak].
  rewrite src_ops_WSrc in Hsrc. rewrite bak_ops_WSrc in Hbak. cbn [run] in Hbak. injection Hbak as Hbak.
  split.
  - intros k. rewrite <- Hbak.
    apply (backup_contents ucmp TO s bounds nums nf (w_bak w) (reachable_Inv2 ucmp TO ops0 s H0) Hbk).
  - rewrite Hs in Hsrc. eapply run_app; eauto.
Qed.
Print Assumptions C20_backup_frozen.

(* ================================================================== 4. comparator check *)
(* An open with a comparator name other than the one recorded in the MANIFEST returns
   LDB_INVALID; with the recorded one it passes the check.  The image component of the
   result is the argument: the model function cannot modify the directory BY CONSTRUCTION,
   so "without modifying it" is not a theorem about the code; it is established for the
   implementation only by the differential run (`wrongcmp`: directory listing with sizes
   and checksums before and after the refused open). *)
Theorem C20_wrong_comparator_refused : forall (Img : Type) (img : Img) edits requested e c,
  In e edits -> e_comparator e = Some c -> c <> requested ->
  open_with_comparator img edits requested = (OpenInvalid, img) /\ status_code OpenInvalid = 30004.
Proof.
  intros Img img edits requested e c Hin Hc Hne. split; [|reflexivity]. unfold open_with_comparator.
  destruct (edits_check edits requested) eqn:E; [|reflexivity].
  exfalso. apply Hne. exact (proj1 (edits_check_true edits requested) E e c Hin Hc).
Qed.
Print Assumptions C20_wrong_comparator_refused.

Theorem C20_right_comparator_accepted : forall (Img : Type) (img : Img) edits requested,
  (forall e c, In e edits -> e_comparator e = Some c -> c = requested) ->
  open_with_comparator img edits requested = (OpenOk, img).
Proof.
  intros Img img edits requested H. unfold open_with_comparator.
  rewrite (proj2 (edits_check_true edits requested) H). reflexivity.
Qed.
Print Assumptions C20_right_comparator_accepted.

Theorem C20_comparator_names_differ :
  open_check name_bytewise name_reverse = false /\ open_check name_reverse name_bytewise = false /\
  open_check name_bytewise name_bytewise = true /\ open_check name_reverse name_reverse = true.
Proof. vm_compute. repeat split. Qed.
Print Assumptions C20_comparator_names_differ.
