(* EngineStepsInv.v -- a Prop-level reading of the executable invariant inv_b:
   files, levels, places and recency; inv_b s = true <-> SInv s. *)
From LCDB Require Import Base Engine EngineSpec EngineStepsBase.
From Coq Require Import Sorting.Sorted Permutation.
Require Import Lia ZifyBool ZifyNat ZifyN.
Local Open Scope N_scope.

Section SInv.
Variable ucmp : bytes -> bytes -> comparison.
Context {TO : total_order ucmp}.

Notation ueq := (Engine.ueq ucmp).
Notation ilt := (Engine.ilt ucmp).
Notation Srt := (EngineStepsBase.Srt ucmp).
Notation NO := (EngineStepsBase.NO ucmp).

(* ------------------------------------------------------------ files *)
Definition FOK (f : file) : Prop := fents f <> [] /\ Srt (fents f).

Lemma file_ok_FOK f : file_ok ucmp f = true <-> FOK f.
Proof.
  unfold file_ok, FOK. rewrite andb_true_iff, (sorted_run_Srt ucmp).
  destruct (fents f); cbn [negb]; split; intros [H1 H2]; split; auto; congruence.
Qed.

Definition FB (f g : file) : Prop :=
  forall x y, In x (fents f) -> In y (fents g) -> ilt x y = true.

Definition FBb (f g : file) : bool :=
  match flargest f, fsmallest g with Some a, Some b => ilt a b | _, _ => false end.

Lemma FOK_ends f : FOK f ->
  exists a r, fents f = a :: r /\ fsmallest f = Some a /\ flargest f = Some (last r a).
Proof.
  intros [H1 H2]. unfold fsmallest, flargest. destruct (fents f) as [|a r]; [congruence|].
  exists a, r. auto.
Qed.

Lemma FBb_FB f g : FOK f -> FOK g -> (FBb f g = true <-> FB f g).
Proof.
  intros Hf Hg. pose proof Hf as [_ Sf]. pose proof Hg as [_ Sg].
  destruct (FOK_ends f Hf) as (a & r & E1 & E2 & E3).
  destruct (FOK_ends g Hg) as (b & t & G1 & G2 & G3).
  unfold FBb, FB. rewrite E3, G2, E1, G1. rewrite E1 in Sf. rewrite G1 in Sg. split.
  - intros H x y Hx Hy.
    pose proof (Srt_last_max ucmp a r x Sf Hx) as H1.
    pose proof (Srt_hd_min ucmp b t y Sg Hy) as H2.
    eapply (ile_lt_trans ucmp); [exact H1|]. eapply (ilt_le_trans ucmp); [exact H|exact H2].
  - intros H. apply H. apply last_In. left; auto.
Qed.

Lemma FB_trans f g h : fents g <> [] -> FB f g -> FB g h -> FB f h.
Proof.
  intros Hg H1 H2 x z Hx Hz. destruct (fents g) as [|y r] eqn:E; [congruence|].
  eapply (ilt_trans ucmp). apply (H1 x y); auto. rewrite E; left; auto.
  apply (H2 y z); auto. rewrite E; left; auto.
Qed.

Lemma level_sorted_SS fs :
  Forall FOK fs -> (level_sorted ucmp fs = true <-> StronglySorted FB fs).
Proof.
  induction fs as [|f r IH]; intros HF.
  - split; intros; [constructor|reflexivity].
  - inversion HF as [|? ? Hf Hr]; subst. cbn [level_sorted]. rewrite andb_true_iff, (IH Hr). split.
    + intros [H1 H2]. constructor; auto.
      destruct r as [|g r']; [constructor|].
      inversion Hr as [|? ? Hg Hr']; subst.
      change (FBb f g = true) in H1. apply (FBb_FB f g Hf Hg) in H1.
      inversion H2; subst. constructor; auto.
      eapply Forall_impl; [|eassumption]. intros h Hh. eapply FB_trans; eauto. apply Hg.
    + intros H. inversion H; subst. split; auto.
      destruct r as [|g r']; auto. inversion Hr; subst.
      change (FBb f g = true). apply FBb_FB; auto. inversion H3; auto.
Qed.

Lemma level_entries_In fs e : In e (level_entries fs) <-> exists f, In f fs /\ In e (fents f).
Proof.
  unfold level_entries. rewrite in_concat. split.
  - intros (l & H1 & H2). apply in_map_iff in H1. destruct H1 as (f & <- & Hf). eauto.
  - intros (f & H1 & H2). exists (fents f). split; auto. apply in_map; auto.
Qed.

Lemma level_entries_cons f r : level_entries (f :: r) = fents f ++ level_entries r.
Proof. reflexivity. Qed.

Lemma level_entries_Srt fs : Forall FOK fs -> StronglySorted FB fs -> Srt (level_entries fs).
Proof.
  induction fs as [|f r IH]; intros HF HS.
  - apply Srt_nil.
  - inversion HF; subst. inversion HS; subst. rewrite level_entries_cons. apply Srt_app.
    split; [apply H1|]. split; [auto|].
    intros x y Hx Hy. apply level_entries_In in Hy. destruct Hy as (g & Hg & Hy).
    rewrite Forall_forall in H4. apply (H4 g Hg x y); auto.
Qed.

(* insert_file / add_files *)
Lemma insert_file_Perm f l : Permutation (insert_file ucmp f l) (f :: l).
Proof.
  induction l as [|g r IH]; cbn [insert_file]; auto.
  destruct (file_before ucmp f g); auto.
  eapply perm_trans. apply perm_skip, IH. apply perm_swap.
Qed.

Lemma add_files_Perm fs news : Permutation (add_files ucmp fs news) (news ++ fs).
Proof.
  unfold add_files. revert fs. induction news as [|n r IH]; intros fs; cbn [fold_left app]; auto.
  eapply perm_trans. apply IH.
  eapply perm_trans. apply Permutation_app_head. apply insert_file_Perm.
  symmetry. apply Permutation_middle.
Qed.

Lemma insert_file_In f l g : In g (insert_file ucmp f l) <-> g = f \/ In g l.
Proof.
  split; intros H.
  - apply (Permutation_in _ (insert_file_Perm f l)) in H. destruct H; auto.
  - apply (Permutation_in _ (Permutation_sym (insert_file_Perm f l))). destruct H; [left|right]; auto.
Qed.

Lemma add_files_In fs news g : In g (add_files ucmp fs news) <-> In g news \/ In g fs.
Proof.
  split; intros H.
  - apply (Permutation_in _ (add_files_Perm fs news)) in H. apply in_app_or; auto.
  - apply (Permutation_in _ (Permutation_sym (add_files_Perm fs news))). apply in_or_app; auto.
Qed.

Definition FC (f g : file) : Prop := FB f g \/ FB g f.

Lemma file_before_iff f g : FOK f -> FOK g ->
  (file_before ucmp f g = true <->
   exists a b r t, fents f = a :: r /\ fents g = b :: t /\ ilt a b = true).
Proof.
  intros Hf Hg.
  destruct (FOK_ends f Hf) as (a & r & E1 & E2 & E3).
  destruct (FOK_ends g Hg) as (b & t & G1 & G2 & G3).
  unfold file_before. rewrite E2, G2. split.
  - intros H. exists a, b, r, t. auto.
  - intros (a' & b' & r' & t' & H1 & H2 & H3). congruence.
Qed.

Lemma insert_file_SS f l :
  FOK f -> Forall FOK l -> StronglySorted FB l -> (forall g, In g l -> FC f g) ->
  StronglySorted FB (insert_file ucmp f l).
Proof.
  intros Hf. induction l as [|g r IH]; intros HF HS HC; cbn [insert_file].
  - constructor; constructor.
  - inversion HF as [|? ? Hg Hr]; subst. inversion HS as [|? ? HS' Hgr]; subst.
    pose proof Hf as [_ Sf]. pose proof Hg as [_ Sg].
    destruct (FOK_ends f Hf) as (a & ra & E1 & _ & _).
    destruct (FOK_ends g Hg) as (b & rb & G1 & _ & _).
    destruct (file_before ucmp f g) eqn:E.
    + apply file_before_iff in E; auto.
      destruct E as (a' & b' & r' & t' & H1 & H2 & H3).
      assert (Hfg: FB f g).
      { destruct (HC g (or_introl eq_refl)) as [H|H]; auto.
        exfalso. specialize (H b' a'). rewrite H1, H2 in H.
        specialize (H (or_introl eq_refl) (or_introl eq_refl)).
        rewrite (ilt_asym ucmp _ _ H3) in H. discriminate. }
      constructor; auto. constructor; auto.
      eapply Forall_impl; [|exact Hgr]. intros h Hh. eapply FB_trans; eauto. apply Hg.
    + assert (Hgf: FB g f).
      { destruct (HC g (or_introl eq_refl)) as [H|H]; auto.
        exfalso. assert (E': file_before ucmp f g = true).
        { apply file_before_iff; auto. exists a, b, ra, rb. repeat split; auto.
          apply H. rewrite E1; left; auto. rewrite G1; left; auto. }
        congruence. }
      constructor.
      * apply IH; auto. intros h Hh. apply HC. right; auto.
      * apply Forall_forall. intros h Hh. apply insert_file_In in Hh.
        destruct Hh as [Hh|Hh]; subst; auto. rewrite Forall_forall in Hgr; auto.
Qed.

Lemma add_files_SS fs news :
  Forall FOK fs -> Forall FOK news -> StronglySorted FB fs ->
  ForallOrdPairs FC news -> (forall f g, In f news -> In g fs -> FC f g) ->
  StronglySorted FB (add_files ucmp fs news).
Proof.
  unfold add_files. revert fs. induction news as [|n r IH]; intros fs Hfs Hn HS HP HC; cbn [fold_left]; auto.
  inversion Hn; subst. inversion HP; subst. apply IH; auto.
  - apply Forall_forall. intros g Hg. apply insert_file_In in Hg.
    destruct Hg as [Hg|Hg]; subst; auto. rewrite Forall_forall in Hfs; auto.
  - apply insert_file_SS; auto. intros g Hg. apply HC; auto. left; auto.
  - intros f g Hf Hg. apply insert_file_In in Hg. destruct Hg as [Hg|Hg]; subst.
    + rewrite Forall_forall in H3. destruct (H3 f Hf) as [H|H]; [right|left]; auto.
    + apply HC; auto. right; auto.
Qed.

Lemma SS_filter {A} (R : A -> A -> Prop) f (l : list A) :
  StronglySorted R l -> StronglySorted R (filter f l).
Proof.
  intros H. apply SS_FOP. apply FOP_filter. apply SS_FOP; auto.
Qed.

(* ------------------------------------------------------------ levels *)
Lemma level_files_set_eq lv L fs : (L < length lv)%nat -> level_files (set_level lv L fs) L = fs.
Proof.
  unfold level_files. revert L. induction lv as [|x r IH]; intros L H; cbn [length] in H. lia.
  destruct L as [|L]; cbn [set_level nth]; auto. apply IH. lia.
Qed.

Lemma level_files_set_neq lv L fs i : i <> L -> level_files (set_level lv L fs) i = level_files lv i.
Proof.
  unfold level_files. revert L i. induction lv as [|x r IH]; intros L i H.
  - cbn [set_level]. reflexivity.
  - destruct L as [|L]; cbn [set_level]; destruct i as [|i]; cbn [nth]; auto. congruence.
Qed.

Lemma set_level_length lv L fs : length (set_level lv L fs) = length lv.
Proof.
  revert L. induction lv as [|x r IH]; intros L; cbn [set_level]; auto.
  destruct L; cbn [length]; auto.
Qed.

Lemma level_files_oob lv i : (length lv <= i)%nat -> level_files lv i = [].
Proof. intros H. apply nth_overflow; auto. Qed.

Lemma level_files_In_lt lv i (f : file) : In f (level_files lv i) -> (i < length lv)%nat.
Proof.
  intros H. destruct (Nat.lt_ge_cases i (length lv)); auto.
  rewrite level_files_oob in H; auto. destruct H.
Qed.

Lemma In_levels lv (fs : list file) :
  In fs lv <-> exists i, (i < length lv)%nat /\ level_files lv i = fs.
Proof.
  split.
  - intros H. destruct (In_nth _ _ [] H) as (i & H1 & H2). eauto.
  - intros (i & H1 & <-). apply nth_In; auto.
Qed.

Lemma In_skip1_levels lv (fs : list file) :
  In fs (skipn 1 lv) <-> exists i, (1 <= i)%nat /\ (i < length lv)%nat /\ level_files lv i = fs.
Proof.
  destruct lv as [|x r].
  - cbn. split. intros []. intros (i & _ & H & _). lia.
  - cbn [skipn]. rewrite In_levels. split.
    + intros (i & H1 & H2). exists (S i). cbn [length]. repeat split; auto; lia.
    + intros (i & H1 & H2 & H3). destruct i as [|i]; [lia|]. exists i.
      cbn [length] in H2. split; auto. lia.
Qed.

Lemma In_concat_levels lv (f : file) : In f (concat lv) <-> exists i, In f (level_files lv i).
Proof.
  rewrite in_concat. split.
  - intros (fs & H1 & H2). apply In_levels in H1. destruct H1 as (i & _ & <-). eauto.
  - intros (i & H). exists (level_files lv i). split; auto.
    apply In_levels. exists i. split; auto. eapply level_files_In_lt; eauto.
Qed.

Lemma all_entries_In s e :
  In e (all_entries s) <->
  In e (mem s) \/ In e (imm_run s) \/ exists i f, In f (level_files (levels s) i) /\ In e (fents f).
Proof.
  unfold all_entries. rewrite !in_app_iff, in_concat.
  split; (intros [H|[H|H]]; [left; auto|right; left; auto|right; right]).
  - destruct H as (l & H1 & H2). apply in_map_iff in H1. destruct H1 as (fs & <- & H1).
    apply In_levels in H1. destruct H1 as (i & _ & <-).
    apply level_entries_In in H2. destruct H2 as (f & H2 & H3). eauto.
  - destruct H as (i & f & H1 & H2). exists (level_entries (level_files (levels s) i)). split.
    + apply in_map. apply In_levels. exists i. split; auto. eapply level_files_In_lt; eauto.
    + apply level_entries_In. eauto.
Qed.

(* file numbers *)
Lemma nodup_nums_NoDup l : nodup_nums l = true <-> NoDup (map fnum l).
Proof.
  unfold nodup_nums. induction l as [|f r IH]; cbn [map].
  - split; auto. constructor.
  - rewrite andb_true_iff, IH, negb_true_iff. split.
    + intros [H1 H2]. constructor; auto. intros Hin. apply in_map_iff in Hin.
      destruct Hin as (g & Hg1 & Hg2).
      assert (existsb (fun g => fnum g =? fnum f) r = true).
      { apply existsb_exists. exists g. split; auto. lia. }
      congruence.
    + intros H. inversion H; subst. split; auto.
      destruct (existsb (fun g => fnum g =? fnum f) r) eqn:E; auto.
      apply existsb_exists in E. destruct E as (g & Hg1 & Hg2).
      exfalso. apply H2. apply in_map_iff. exists g. split; auto. lia.
Qed.

Lemma NoDup_app_iff {A} (a b : list A) :
  NoDup (a ++ b) <-> NoDup a /\ NoDup b /\ forall x, In x a -> In x b -> False.
Proof.
  induction a as [|e a IH]; cbn [app].
  - split. intros H. split; [constructor|]. split; auto. intros (_ & H & _); auto.
  - split.
    + intros H. inversion H; subst. apply IH in H3. destruct H3 as (Ha & Hb & Hab).
      split; [|split]; auto.
      * constructor; auto. intros Hin. apply H2, in_or_app; auto.
      * intros x [Hx|Hx] Hy; subst. apply H2, in_or_app; auto. eapply Hab; eauto.
    + intros (Ha & Hb & Hab). inversion Ha; subst. constructor.
      * intros Hin. apply in_app_or in Hin. destruct Hin as [Hin|Hin]; auto.
        apply (Hab e); auto. left; auto.
      * apply IH. split; [|split]; auto. intros x Hx. apply Hab. right; auto.
Qed.

Definition ND (lv : list (list file)) : Prop :=
  (forall i, NoDup (map fnum (level_files lv i))) /\
  (forall i j f g, i <> j -> In f (level_files lv i) -> In g (level_files lv j) -> fnum f <> fnum g).

Lemma NoDup_concat_ND lv : NoDup (map fnum (concat lv)) <-> ND lv.
Proof.
  unfold ND. induction lv as [|x r IH].
  - cbn [concat map]. split.
    + intros _. split. intros i. unfold level_files. destruct i; cbn; constructor.
      intros i j f g _ H. unfold level_files in H. destruct i; destruct H.
    + intros _. constructor.
  - cbn [concat]. rewrite map_app, NoDup_app_iff, IH. split.
    + intros (Hx & (Hr1 & Hr2) & Hd). split.
      * intros [|i]; unfold level_files; cbn [nth]; auto. apply Hr1.
      * intros i j f g Hij Hf Hg Hn. unfold level_files in Hf, Hg.
        destruct i as [|i], j as [|j]; cbn [nth] in Hf, Hg; try lia.
        -- apply (Hd (fnum f)). apply in_map; auto. rewrite Hn. apply in_map.
           apply In_concat_levels. eauto.
        -- apply (Hd (fnum g)). apply in_map; auto. rewrite <- Hn. apply in_map.
           apply In_concat_levels. eauto.
        -- apply (Hr2 i j f g); auto.
    + intros (H1 & H2). split; [|split].
      * apply (H1 0%nat).
      * split. intros i. apply (H1 (S i)).
        intros i j f g Hij Hf Hg. apply (H2 (S i) (S j)); auto.
      * intros n Hx Hr. apply in_map_iff in Hx. destruct Hx as (f & <- & Hf).
        apply in_map_iff in Hr. destruct Hr as (g & Hn & Hg).
        apply In_concat_levels in Hg. destruct Hg as (j & Hg).
        apply (H2 0%nat (S j) f g); auto.
Qed.

(* ------------------------------------------------------------ places *)
Inductive place := PMem | PImm | PF0 (n : N) | PLv (i : nat).

Definition at_place (s : state) (p : place) (e : entry) : Prop :=
  match p with
  | PMem => In e (mem s)
  | PImm => In e (imm_run s)
  | PF0 n => exists f, In f (level_files (levels s) 0) /\ fnum f = n /\ In e (fents f)
  | PLv i => (1 <= i)%nat /\ exists f, In f (level_files (levels s) i) /\ In e (fents f)
  end.

Definition place_lt (p p' : place) : Prop :=
  match p, p' with
  | PMem, PMem => False
  | PMem, _ => True
  | PImm, PMem => False
  | PImm, PImm => False
  | PImm, _ => True
  | PF0 n, PF0 m => m < n
  | PF0 _, PLv _ => True
  | PF0 _, _ => False
  | PLv i, PLv j => (i < j)%nat
  | PLv _, _ => False
  end.

Definition Rec (s : state) : Prop :=
  forall p p' o m, place_lt p p' -> at_place s p o -> at_place s p' m ->
                   ueq (ek o) (ek m) = true -> es m < es o.

Lemma all_entries_place s e : In e (all_entries s) <-> exists p, at_place s p e.
Proof.
  rewrite all_entries_In. split.
  - intros [H|[H|(i & f & H1 & H2)]].
    + exists PMem; auto.
    + exists PImm; auto.
    + destruct i as [|i].
      * exists (PF0 (fnum f)). cbn. eauto.
      * exists (PLv (S i)). cbn. split. lia. eauto.
  - intros ([| |n|i] & H); cbn in H; auto.
    + destruct H as (f & H1 & _ & H2). right; right; eauto.
    + destruct H as (_ & f & H1 & H2). right; right; eauto.
Qed.

Let LE (s : state) (i : nat) : list entry := level_entries (level_files (levels s) i).

Lemma LE_place s i e : (1 <= i)%nat -> (In e (LE s i) <-> at_place s (PLv i) e).
Proof.
  intros Hi. unfold LE. rewrite level_entries_In. cbn. tauto.
Qed.

Lemma deep_places_nth s i :
  nth i (map level_entries (skipn 1 (levels s))) [] = LE s (S i).
Proof.
  unfold LE, level_files.
  change (@nil entry) with (level_entries []) at 1. rewrite map_nth. f_equal.
  destruct (levels s) as [|x r]; cbn [skipn nth]; auto. destruct i; auto.
Qed.

Lemma deep_places_In s y :
  In y (map level_entries (skipn 1 (levels s))) <->
  exists i, (1 <= i)%nat /\ (i < length (levels s))%nat /\ y = LE s i.
Proof.
  rewrite in_map_iff. split.
  - intros (fs & <- & H). apply In_skip1_levels in H. destruct H as (i & H1 & H2 & <-). eauto.
  - intros (i & H1 & H2 & ->). exists (level_files (levels s) i). split; auto.
    apply In_skip1_levels. eauto.
Qed.

Lemma deep_places_FOP s :
  ForallOrdPairs NO (map level_entries (skipn 1 (levels s))) <->
  forall i j, (1 <= i)%nat -> (i < j)%nat -> NO (LE s i) (LE s j).
Proof.
  rewrite (FOP_nth NO []). split.
  - intros H i j Hi Hij.
    destruct (Nat.lt_ge_cases j (length (levels s))) as [Hj|Hj].
    + destruct i as [|i]; [lia|]. destruct j as [|j]; [lia|].
      rewrite <- !deep_places_nth. apply H. lia.
      rewrite map_length, skipn_length. lia.
    + unfold LE at 2. rewrite level_files_oob; auto. apply NO_nil_r.
  - intros H i j Hij Hj. rewrite !deep_places_nth. apply H; lia.
Qed.

Lemma l0_places_In s x :
  In x (map fents (sort_newest (level_files (levels s) 0))) <->
  exists f, In f (level_files (levels s) 0) /\ x = fents f.
Proof.
  rewrite in_map_iff. split.
  - intros (f & <- & H). rewrite sort_newest_In in H. eauto.
  - intros (f & H & ->). exists f. split; auto. apply sort_newest_In; auto.
Qed.

Lemma Rec_NO s p p' X Y :
  Rec s -> place_lt p p' ->
  (forall o, In o X -> at_place s p o) -> (forall m, In m Y -> at_place s p' m) -> NO X Y.
Proof.
  intros HR Hlt HX HY o m Ho Hm Hk. eapply HR; eauto.
Qed.

Lemma places_Rec s :
  NoDup (map fnum (level_files (levels s) 0)) ->
  (recency ucmp (places s) = true <-> Rec s).
Proof.
  intros HND. rewrite (recency_FOP ucmp). unfold places.
  set (F := map fents (sort_newest (level_files (levels s) 0))).
  set (D := map level_entries (skipn 1 (levels s))).
  split.
  - intros H. inversion H as [|? ? H1 H']; subst. inversion H' as [|? ? H2 H'']; subst.
    apply FOP_app in H''. destruct H'' as (HF & HD & HFD).
    rewrite Forall_forall in H1, H2.
    unfold F in HF. rewrite FOP_map in HF. rewrite (sort_newest_FOP _ _ HND) in HF.
    unfold D in HD. rewrite deep_places_FOP in HD.
    assert (InF: forall f, In f (level_files (levels s) 0) -> In (fents f) F).
    { intros f Hf. apply l0_places_In. eauto. }
    assert (InD: forall i f, (1 <= i)%nat -> In f (level_files (levels s) i) -> In (LE s i) D).
    { intros i f Hi Hf. apply deep_places_In. exists i. repeat split; auto.
      eapply level_files_In_lt; eauto. }
    intros p p' o m Hlt Ho Hm Hk.
    destruct p as [| |n|i], p' as [| |n'|i']; cbn in Hlt; try contradiction; cbn in Ho, Hm.
    + apply (H1 (imm_run s) (or_introl eq_refl) o m); auto.
    + destruct Hm as (f & Hf & _ & Hm).
      apply (H1 (fents f)); auto. right. apply in_or_app. left; auto.
    + destruct Hm as (Hi & f & Hf & Hm).
      apply (H1 (LE s i')); auto. right. apply in_or_app. right; eauto.
      apply LE_place; cbn; eauto.
    + destruct Hm as (f & Hf & _ & Hm).
      apply (H2 (fents f)); auto. apply in_or_app. left; auto.
    + destruct Hm as (Hi & f & Hf & Hm).
      apply (H2 (LE s i')); auto. apply in_or_app. right; eauto.
      apply LE_place; cbn; eauto.
    + destruct Ho as (f & Hf & Hn & Ho). destruct Hm as (g & Hg & Hn' & Hm). subst.
      apply (HF f g Hf Hg Hlt o m); auto.
    + destruct Ho as (f & Hf & Hn & Ho). destruct Hm as (Hi & g & Hg & Hm).
      apply (HFD (fents f) (LE s i')); eauto. apply LE_place; cbn; eauto.
    + destruct Ho as (Hi & f & Hf & Ho). destruct Hm as (Hi' & g & Hg & Hm).
      apply (HD i i' Hi Hlt o m); auto; apply LE_place; cbn; eauto.
  - intros HR.
    assert (PF: forall x, In x F -> exists f, In f (level_files (levels s) 0) /\ x = fents f).
    { intros x Hx. apply l0_places_In; auto. }
    assert (PD: forall y, In y D -> exists i, (1 <= i)%nat /\ y = LE s i).
    { intros y Hy. apply deep_places_In in Hy. destruct Hy as (i & H1 & _ & H2). eauto. }
    assert (AF: forall f o, In f (level_files (levels s) 0) -> In o (fents f) ->
                            at_place s (PF0 (fnum f)) o).
    { intros f o Hf Ho. cbn. eauto. }
    constructor; [|constructor].
    + apply Forall_forall. intros x [Hx|Hx]; [subst|apply in_app_or in Hx; destruct Hx as [Hx|Hx]].
      * apply (Rec_NO s PMem PImm); auto. exact I.
      * destruct (PF x Hx) as (f & Hf & ->).
        apply (Rec_NO s PMem (PF0 (fnum f))); auto. exact I.
      * destruct (PD x Hx) as (i & Hi & ->).
        apply (Rec_NO s PMem (PLv i)); auto. exact I. intros m Hm. apply LE_place; auto.
    + apply Forall_forall. intros x Hx. apply in_app_or in Hx; destruct Hx as [Hx|Hx].
      * destruct (PF x Hx) as (f & Hf & ->).
        apply (Rec_NO s PImm (PF0 (fnum f))); auto. exact I.
      * destruct (PD x Hx) as (i & Hi & ->).
        apply (Rec_NO s PImm (PLv i)); auto. exact I. intros m Hm. apply LE_place; auto.
    + apply FOP_app. split; [|split].
      * unfold F. rewrite FOP_map. rewrite (sort_newest_FOP _ _ HND).
        intros f g Hf Hg Hlt. apply (Rec_NO s (PF0 (fnum f)) (PF0 (fnum g))); auto.
      * unfold D. rewrite deep_places_FOP. intros i j Hi Hij.
        apply (Rec_NO s (PLv i) (PLv j)); auto; intros m Hm; apply LE_place; auto; lia.
      * intros x y Hx Hy. destruct (PF x Hx) as (f & Hf & ->). destruct (PD y Hy) as (i & Hi & ->).
        apply (Rec_NO s (PF0 (fnum f)) (PLv i)); auto. exact I. intros m Hm. apply LE_place; auto.
Qed.

(* ------------------------------------------------------------ the invariant, semantically *)
Record SInv (s : state) : Prop := mkSInv {
  si_len : length (levels s) = NUM_LEVELS;
  si_mem : Srt (mem s);
  si_imm : Srt (imm_run s);
  si_fok : forall i f, In f (level_files (levels s) i) -> FOK f;
  si_lsort : forall i, (1 <= i)%nat -> StronglySorted FB (level_files (levels s) i);
  si_rec : Rec s;
  si_seq : forall e, In e (all_entries s) -> es e <= last_seq s;
  si_num : forall i f, In f (level_files (levels s) i) -> fnum f < next_file s;
  si_nd : ND (levels s);
  si_snap : forall q, In q (snaps s) -> q <= last_seq s;
  si_snsort : sorted_le (snaps s) = true
}.

Lemma forallb_levels (P : file -> bool) lv :
  forallb (forallb P) lv = true <-> forall i f, In f (level_files lv i) -> P f = true.
Proof.
  rewrite forallb_forall. split.
  - intros H i f Hf. assert (Hi := level_files_In_lt _ _ _ Hf).
    specialize (H (level_files lv i)). rewrite forallb_forall in H. apply H; auto.
    apply In_levels; eauto.
  - intros H fs Hfs. apply In_levels in Hfs. destruct Hfs as (i & _ & <-).
    apply forallb_forall. intros f Hf. eapply H; eauto.
Qed.

Lemma imm_sorted_iff s :
  (match imm s with Some im => sorted_run ucmp im | None => true end) = true <-> Srt (imm_run s).
Proof.
  unfold imm_run. destruct (imm s).
  - apply (sorted_run_Srt ucmp).
  - split; auto. intros _. apply Srt_nil.
Qed.

Theorem inv_b_SInv s : inv_b ucmp s = true <-> SInv s.
Proof.
  unfold inv_b. rewrite !andb_true_iff. split.
  - intros ((((((((((H1 & H2) & H3) & H4) & H5) & H6) & H7) & H8) & H9) & H10) & H11).
    rewrite forallb_levels in H4.
    assert (HF: forall i f, In f (level_files (levels s) i) -> FOK f).
    { intros i f Hf. apply file_ok_FOK. eauto. }
    apply nodup_nums_NoDup, NoDup_concat_ND in H9.
    constructor; auto.
    + apply Nat.eqb_eq; auto.
    + apply (sorted_run_Srt ucmp); auto.
    + apply imm_sorted_iff; auto.
    + intros i Hi. destruct (Nat.lt_ge_cases i (length (levels s))) as [Hl|Hl].
      * rewrite forallb_forall in H5. apply level_sorted_SS.
        apply Forall_forall. intros f Hf. eauto.
        apply H5. apply In_skip1_levels. eauto.
      * rewrite level_files_oob; auto. constructor.
    + apply places_Rec; auto. apply H9.
    + rewrite forallb_forall in H7. intros e He. specialize (H7 e He). lia.
    + rewrite forallb_forall in H8. intros i f Hf.
      assert (In f (concat (levels s))) by (apply In_concat_levels; eauto).
      specialize (H8 f H). lia.
    + rewrite forallb_forall in H10. intros q Hq. specialize (H10 q Hq). lia.
  - intros [H1 H2 H3 H4 H5 H6 H7 H8 H9 H10 H11].
    repeat split; auto.
    + apply Nat.eqb_eq; auto.
    + apply (sorted_run_Srt ucmp); auto.
    + apply imm_sorted_iff; auto.
    + apply forallb_levels. intros i f Hf. apply file_ok_FOK. eauto.
    + apply forallb_forall. intros fs Hfs. apply In_skip1_levels in Hfs.
      destruct Hfs as (i & Hi & _ & <-). apply level_sorted_SS; auto.
      apply Forall_forall. intros f Hf. eauto.
    + apply places_Rec; auto. apply H9.
    + apply forallb_forall. intros e He. specialize (H7 e He). lia.
    + apply forallb_forall. intros f Hf. apply In_concat_levels in Hf.
      destruct Hf as (i & Hf). specialize (H8 i f Hf). lia.
    + apply nodup_nums_NoDup, NoDup_concat_ND; auto.
    + apply forallb_forall. intros q Hq. specialize (H10 q Hq). lia.
Qed.

(* ------------------------------------------------------------ consequences *)
Lemma place_lt_total p p' : p = p' \/ place_lt p p' \/ place_lt p' p.
Proof.
  destruct p as [| |n|i], p' as [| |n'|i']; cbn; auto.
  - destruct (N.lt_trichotomy n n') as [H|[H|H]]; subst; auto.
  - destruct (Nat.lt_trichotomy i i') as [H|[H|H]]; subst; auto.
Qed.

Lemma place_run s p : SInv s ->
  exists l, Srt l /\ forall e, at_place s p e -> In e l.
Proof.
  intros HI. destruct p as [| |n|i].
  - exists (mem s). split; auto. apply HI.
  - exists (imm_run s). split; auto. apply HI.
  - destruct (in_dec N.eq_dec n (map fnum (level_files (levels s) 0))) as [Hin|Hnin].
    + apply in_map_iff in Hin. destruct Hin as (f & Hn & Hf). exists (fents f). split.
      * apply (si_fok s HI 0%nat f Hf).
      * intros e (g & Hg & Hn' & He). subst.
        assert (g = f); [|subst; auto].
        apply (NoDup_nums_inj _ (proj1 (si_nd s HI) 0%nat)); auto.
    + exists []. split. apply Srt_nil. intros e (g & Hg & Hn' & He). subst.
      exfalso. apply Hnin. apply in_map; auto.
  - destruct i as [|i].
    + exists []. split. apply Srt_nil. intros e [H _]. lia.
    + exists (level_entries (level_files (levels s) (S i))). split.
      * apply level_entries_Srt. apply Forall_forall. intros f Hf. eapply si_fok; eauto.
        apply si_lsort; auto. lia.
      * intros e He. apply LE_place; auto. lia.
Qed.

Lemma SInv_KD s : SInv s -> KD ucmp (all_entries s).
Proof.
  intros HI a b Ha Hb Hk Hs.
  apply all_entries_place in Ha, Hb. destruct Ha as (p & Ha). destruct Hb as (p' & Hb).
  destruct (place_lt_total p p') as [E|[E|E]].
  - subst p'. destruct (place_run s p HI) as (l & Hl & Hin).
    apply (Srt_KD ucmp l Hl); auto.
  - pose proof (si_rec s HI p p' a b E Ha Hb Hk). lia.
  - pose proof (si_rec s HI p' p b a E Hb Ha (ueq_sym ucmp _ _ Hk)). lia.
Qed.

End SInv.
