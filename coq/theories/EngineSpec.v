(* EngineSpec.v -- Prop-level vocabulary for the engine theorems (no proofs). *)
From LCDB Require Export Engine.
Local Open Scope N_scope.

(* the user comparator is a total order (what lcdb requires of ldb_comparator_t) *)
Record total_order (ucmp : bytes -> bytes -> comparison) : Prop := {
  to_refl    : forall a, ucmp a a = Eq;
  to_eq      : forall a b, ucmp a b = Eq -> forall c, ucmp a c = ucmp b c /\ ucmp c a = ucmp c b;
  to_antisym : forall a b, ucmp a b = CompOpp (ucmp b a);
  to_trans   : forall a b c, ucmp a b = Lt -> ucmp b c = Lt -> ucmp a c = Lt
}.

Section Spec.
Variable ucmp : bytes -> bytes -> comparison.

(* sequences at which reads are still possible: every live snapshot and the
   latest sequence are >= smallest_snapshot *)
Definition readable (s : state) (q : N) : Prop := smallest_snapshot s <= q.

(* what a reader at sequence q sees for key k, computed from ALL entries *)
Definition view (s : state) (k : bytes) (q : N) : option bytes :=
  visible (result_of (best ucmp (all_entries s) k q)).

(* the engine state agrees with the write history at every readable sequence *)
Definition hist_ok (s : state) : Prop :=
  forall k q, readable s q -> view s k q = spec_get ucmp s k q.

Definition Inv (s : state) : Prop := inv_b ucmp s = true.

End Spec.
