(* Properties_C17.v -- theorems for property C17 (metadata codecs: version edits,
   write batches, internal keys / separators, file names).  Statements only; the
   proofs are in EditProofs.v, BatchProofs.v, IKeyProofs.v, FilenameProofs.v. *)
From LCDB Require Import Base Varint Batch IKey Edit Filename.
From LCDB Require Import EditProofs BatchProofs IKeyProofs FilenameProofs.
From Coq Require Import Sorted.
Local Open Scope N_scope.

(* ---- version edits ---- *)
Theorem C17_edit_import_export : forall e,
  wf_edit e = true -> edit_import (edit_export e) = Some (edit_canon e).
Proof. exact edit_import_export. Qed.
Print Assumptions C17_edit_import_export.

Theorem C17_edit_canon_id : forall e,
  StronglySorted (fun a b => fe_compare a b = Lt) (e_deleted_files e) -> edit_canon e = e.
Proof. exact edit_canon_id. Qed.
Print Assumptions C17_edit_canon_id.

Theorem C17_edit_canon_idem : forall e, edit_canon (edit_canon e) = edit_canon e.
Proof. exact edit_canon_idem. Qed.
Print Assumptions C17_edit_canon_idem.

Theorem C17_edit_roundtrip_export : forall e,
  wf_edit e = true -> edit_roundtrip (edit_export e) = Some (edit_export e).
Proof. exact edit_roundtrip_export. Qed.
Print Assumptions C17_edit_roundtrip_export.

Theorem C17_edit_remove_file_sorted : forall e l n,
  StronglySorted (fun a b => fe_compare a b = Lt) (e_deleted_files e) ->
  StronglySorted (fun a b => fe_compare a b = Lt) (e_deleted_files (edit_remove_file e l n)).
Proof. exact edit_remove_file_sorted. Qed.
Print Assumptions C17_edit_remove_file_sorted.

Theorem C17_edit_import_bad_tag : forall tag rest,
  tag < 128 -> tag <> 1 -> tag <> 2 -> tag <> 3 -> tag <> 4 -> tag <> 5 -> tag <> 6 ->
  tag <> 7 -> tag <> 9 ->
  edit_import (tag :: rest) = None.
Proof. exact edit_import_bad_tag. Qed.
Print Assumptions C17_edit_import_bad_tag.

Theorem C17_level_read_bad_level : forall lvl rest,
  EDIT_NUM_LEVELS <= lvl -> lvl < 4294967296 -> level_read (varint32_write lvl ++ rest) = None.
Proof. exact level_read_bad_level. Qed.
Print Assumptions C17_level_read_bad_level.

Theorem C17_standard_tags :
  TAG_COMPARATOR = 1 /\ TAG_LOG_NUMBER = 2 /\ TAG_NEXT_FILE_NUMBER = 3 /\ TAG_LAST_SEQUENCE = 4 /\
  TAG_COMPACT_POINTER = 5 /\ TAG_DELETED_FILE = 6 /\ TAG_NEW_FILE = 7 /\ TAG_PREV_LOG_NUMBER = 9 /\
  EDIT_NUM_LEVELS = 7.
Proof. repeat split; reflexivity. Qed.
Print Assumptions C17_standard_tags.

(* ---- write batches ---- *)
Theorem C17_batch_iterate_build : forall seq ops,
  wf_ops ops = true -> batch_iterate (batch_build seq ops) = (ops, BOk).
Proof. exact batch_iterate_build. Qed.
Print Assumptions C17_batch_iterate_build.

Theorem C17_batch_build_layout : forall seq ops,
  batch_build seq ops =
  le64 (seq mod 18446744073709551616) ++ le32 (nlen ops mod 4294967296) ++ enc_ops ops.
Proof. exact batch_build_layout. Qed.
Print Assumptions C17_batch_build_layout.

Theorem C17_batch_sequence_build : forall seq ops,
  seq < 18446744073709551616 -> batch_sequence (batch_build seq ops) = seq.
Proof. exact batch_sequence_build. Qed.
Print Assumptions C17_batch_sequence_build.

Theorem C17_batch_count_build : forall seq ops,
  nlen ops < 4294967296 -> batch_count (batch_build seq ops) = nlen ops.
Proof. exact batch_count_build. Qed.
Print Assumptions C17_batch_count_build.

Theorem C17_batch_append_build : forall s1 s2 o1 o2,
  batch_append (batch_build s1 o1) (batch_build s2 o2) = batch_build s1 (o1 ++ o2).
Proof. exact batch_append_build. Qed.
Print Assumptions C17_batch_append_build.

Theorem C17_batch_append_iterate : forall a b oa ob,
  batch_iterate a = (oa, BOk) -> batch_iterate b = (ob, BOk) ->
  nlen oa + nlen ob < 4294967296 ->
  batch_iterate (batch_append a b) = (oa ++ ob, BOk) /\
  batch_count (batch_append a b) = batch_count a + batch_count b /\
  batch_sequence (batch_append a b) = batch_sequence a.
Proof. exact batch_append_iterate. Qed.
Print Assumptions C17_batch_append_iterate.

Theorem C17_batch_iterate_ok_count : forall b ops,
  batch_iterate b = (ops, BOk) -> nlen ops = batch_count b.
Proof. exact batch_iterate_ok_count. Qed.
Print Assumptions C17_batch_iterate_ok_count.

Theorem C17_batch_iterate_count_mismatch : forall seq ops c,
  wf_ops ops = true -> c mod 4294967296 <> nlen ops ->
  batch_iterate (batch_set_count (batch_build seq ops) c) = (ops, BWrongCount).
Proof. exact batch_iterate_build_wrong_count. Qed.
Print Assumptions C17_batch_iterate_count_mismatch.

(* ---- internal keys ---- *)
Theorem C17_ikey_parse_encode : forall k s t,
  s < 2 ^ 56 -> t <= 1 -> ikey_parse (ikey_encode k s t) = Some (k, s, t).
Proof. exact ikey_parse_encode. Qed.
Print Assumptions C17_ikey_parse_encode.

Theorem C17_ikey_compare_strict_total_order :
  (forall a, ikey_compare a a <> Lt) /\
  (forall a b c, ikey_compare a b = Lt -> ikey_compare b c = Lt -> ikey_compare a c = Lt) /\
  (forall a b, ikey_compare a b = Lt -> ikey_compare b a <> Lt) /\
  (forall a b, wf_ikey a = true -> wf_ikey b = true ->
               ikey_compare a b = Lt \/ a = b \/ ikey_compare b a = Lt).
Proof. exact ikey_compare_strict_total_order. Qed.
Print Assumptions C17_ikey_compare_strict_total_order.

Theorem C17_ikey_compare_antisym : forall a b,
  ikey_compare a b = CompOpp (ikey_compare b a).
Proof. exact ikey_compare_antisym. Qed.
Print Assumptions C17_ikey_compare_antisym.

Theorem C17_ikey_compare_encode : forall u1 s1 t1 u2 s2 t2,
  s1 < 2 ^ 56 -> s2 < 2 ^ 56 -> t1 <= 1 -> t2 <= 1 ->
  ikey_compare (ikey_encode u1 s1 t1) (ikey_encode u2 s2 t2) =
  match bytes_compare u1 u2 with
  | Eq => match N.compare s2 s1 with Eq => N.compare t2 t1 | c => c end
  | c => c
  end.
Proof. exact ikey_compare_encode. Qed.
Print Assumptions C17_ikey_compare_encode.

Theorem C17_lkey_internal_key : forall u s,
  lkey_internal_key u s = ikey_encode u s VALTYPE_SEEK /\ lkey_user_key u s = u.
Proof. intros u s. split; [exact (lkey_internal_key_eq u s)|exact (lkey_user_key_eq u s)]. Qed.
Print Assumptions C17_lkey_internal_key.

(* ---- separators and successors ---- *)
Theorem C17_shortest_separator_contract : forall a b,
  bytes_compare a b = Lt ->
  bytes_leb a (shortest_separator a b) = true /\
  bytes_ltb (shortest_separator a b) b = true.
Proof. exact shortest_separator_contract. Qed.
Print Assumptions C17_shortest_separator_contract.

Theorem C17_short_successor_contract : forall a, bytes_leb a (short_successor a) = true.
Proof. exact short_successor_contract. Qed.
Print Assumptions C17_short_successor_contract.

Theorem C17_ikc_shortest_separator_contract : forall a b,
  ikey_compare a b = Lt ->
  ikey_compare a (ikc_shortest_separator a b) <> Gt /\
  ikey_compare (ikc_shortest_separator a b) b = Lt.
Proof. exact ikc_shortest_separator_contract. Qed.
Print Assumptions C17_ikc_shortest_separator_contract.

Theorem C17_ikc_short_successor_contract : forall a,
  ikey_compare a (ikc_short_successor a) <> Gt.
Proof. exact ikc_short_successor_contract. Qed.
Print Assumptions C17_ikc_short_successor_contract.

Theorem C17_ikc_shortest_separator_length : forall a b,
  (8 <= length a)%nat ->
  (8 <= length (ikc_shortest_separator a b) <= length a)%nat.
Proof. exact ikc_shortest_separator_length. Qed.
Print Assumptions C17_ikc_shortest_separator_length.

(* ---- file names ---- *)
Theorem C17_parse_filename_make : forall kind n,
  n < 2 ^ 64 ->
  parse_filename (make_name kind n) = Some (kind_type kind, if kind <? 5 then n else 0).
Proof. exact parse_filename_make. Qed.
Print Assumptions C17_parse_filename_make.

Theorem C17_decode_int_encode_int : forall x pad rest,
  x < 18446744073709551616 ->
  match rest with [] => True | c :: _ => c < 48 \/ 57 < c end ->
  decode_int (encode_int x pad ++ rest) = Some (x, rest).
Proof. exact decode_int_encode_int. Qed.
Print Assumptions C17_decode_int_encode_int.

(* ---- MANIFEST replay (ManifestReplay.v = replica of ldb_versions_recover with the
   version builder; proofs in ManifestBuilderProofs.v / ManifestReplayProofs.v) ---- *)
From LCDB Require Import LogFormat ManifestReplay ManifestBuilderProofs ManifestReplayProofs.

(* replaying the bytes of a MANIFEST written from the edits es = folding the edits,
   one ldb_versions_apply at a time, over the empty state; the counters are the last
   values set (log round trip o edit round trip o builder) *)
Theorem C17_replay_fold : forall cmpname es,
  Forall (fun e => wf_edit e = true) es ->
  Forall (fun e => wf_bytes (edit_export e) = true) es ->
  Forall (cmp_matches cmpname) es ->
  fresh_adds empty_levels es ->
  manifest_replay cmpname (write_log (map edit_export es)) =
  finish_vstate 2 (fold_left (apply_edit ikey_compare) (map edit_canon es) vstate_init).
Proof. exact replay_fold. Qed.
Print Assumptions C17_replay_fold.

(* a reused MANIFEST (a later session appends es2 with a writer created at the
   file size): es2 replayed on top of the state after es1 *)
Theorem C17_replay_append : forall cmpname es1 es2,
  Forall (fun e => wf_edit e = true) (es1 ++ es2) ->
  Forall (fun e => wf_bytes (edit_export e) = true) (es1 ++ es2) ->
  Forall (cmp_matches cmpname) (es1 ++ es2) ->
  fresh_adds empty_levels (es1 ++ es2) ->
  manifest_replay cmpname
    (write_log (map edit_export es1) ++
     write_log_from (nlen (write_log (map edit_export es1))) (map edit_export es2)) =
  finish_vstate 2
    (fold_left (apply_edit ikey_compare) (map edit_canon es2)
       (fold_left (apply_edit ikey_compare) (map edit_canon es1) vstate_init)).
Proof. exact replay_append. Qed.
Print Assumptions C17_replay_append.

(* a new MANIFEST = the snapshot record of (levels, compact) followed by the edits es
   replays to es applied to exactly that state: rolling over loses nothing *)
Theorem C17_replay_snapshot : forall cmpname levels compact es,
  wf_str cmpname = true -> wf_bytes cmpname = true ->
  wf_version ikey_compare levels compact ->
  Forall (fun e => wf_edit e = true) es ->
  Forall (fun e => wf_bytes (edit_export e) = true) es ->
  Forall (cmp_matches cmpname) es ->
  fresh_adds levels es ->
  manifest_replay cmpname
    (write_log (map edit_export (snapshot_edit cmpname compact levels :: es))) =
  finish_vstate 2
    (fold_left (apply_edit ikey_compare) (map edit_canon es)
       (mkV levels compact None None None None)).
Proof. exact replay_snapshot. Qed.
Print Assumptions C17_replay_snapshot.

(* the snapshot record followed by nothing: exactly the state's file set and compaction
   pointers, no counters *)
Theorem C17_replay_snapshot_nothing : forall cmpname levels compact,
  wf_str cmpname = true -> wf_bytes cmpname = true ->
  wf_version ikey_compare levels compact ->
  (forall l, (l < NLEVELS)%nat -> NoDup (map f_number (nth l levels []))) ->
  manifest_replay_state cmpname (write_log [edit_export (snapshot_edit cmpname compact levels)]) =
  inr (mkV levels compact None None None None).
Proof. exact replay_state_snapshot_nothing. Qed.
Print Assumptions C17_replay_snapshot_nothing.

(* the freshness hypothesis cannot be dropped: a number added, deleted and added again at
   one level comes back twice on replay (the recovery builder accumulates all edits) *)
Theorem C17_replay_fold_needs_fresh :
  level_numbers (manifest_replay [] (write_log (map edit_export cx_edits))) =
    [[]; [5; 5]; []; []; []; []; []] /\
  level_numbers (finish_vstate 2 (fold_left (apply_edit ikey_compare) (map edit_canon cx_edits) vstate_init)) =
    [[]; [5]; []; []; []; []; []].
Proof. exact replay_fold_needs_fresh. Qed.
Print Assumptions C17_replay_fold_needs_fresh.

(* the same for every user comparator that is a total order (EngineSpec.total_order):
   the internal-key comparator is ikc_compare ucmp *)
Theorem C17_replay_fold_any_comparator : forall ucmp, EngineSpec.total_order ucmp -> forall cmpname es,
  Forall (fun e => wf_edit e = true) es ->
  Forall (fun e => wf_bytes (edit_export e) = true) es ->
  Forall (cmp_matches cmpname) es ->
  fresh_adds empty_levels es ->
  manifest_replay_with (ikc_compare ucmp) cmpname (write_log (map edit_export es)) =
  finish_vstate 2 (fold_left (apply_edit (ikc_compare ucmp)) (map edit_canon es) vstate_init).
Proof. exact replay_fold_any_comparator. Qed.
Print Assumptions C17_replay_fold_any_comparator.
