(* Properties_C17.v -- theorems for property C17 (metadata codecs: version edits,
   write batches, internal keys / separators, file names).  Statements only; the
   proofs are in EditProofs.v, BatchProofs.v, IKeyProofs.v, FilenameProofs.v. *)
From LCDB Require Import Base Varint Batch IKey Edit Filename.
From LCDB Require Import EditProofs BatchProofs IKeyProofs FilenameProofs.
From Coq Require Import Sorted.
Local Open Scope N_scope.

(* ---- version edits ---- *)
Theorem C17_edit_import_export : forall e,
  wf_edit e = true -> edit_import (edit_export e) = Some (edit_canon e).
Proof. exact edit_import_export. Qed.
Print Assumptions C17_edit_import_export.

Theorem C17_edit_canon_id : forall e,
  StronglySorted (fun a b => fe_compare a b = Lt) (e_deleted_files e) -> edit_canon e = e.
Proof. exact edit_canon_id. Qed.
Print Assumptions C17_edit_canon_id.

Theorem C17_edit_canon_idem : forall e, edit_canon (edit_canon e) = edit_canon e.
Proof. exact edit_canon_idem. Qed.
Print Assumptions C17_edit_canon_idem.

Theorem C17_edit_roundtrip_export : forall e,
  wf_edit e = true -> edit_roundtrip (edit_export e) = Some (edit_export e).
Proof. exact edit_roundtrip_export. Qed.
Print Assumptions C17_edit_roundtrip_export.

Theorem C17_edit_remove_file_sorted : forall e l n,
  StronglySorted (fun a b => fe_compare a b = Lt) (e_deleted_files e) ->
  StronglySorted (fun a b => fe_compare a b = Lt) (e_deleted_files (edit_remove_file e l n)).
Proof. exact edit_remove_file_sorted. Qed.
Print Assumptions C17_edit_remove_file_sorted.

Theorem C17_edit_import_bad_tag : forall tag rest,
  tag < 128 -> tag <> 1 -> tag <> 2 -> tag <> 3 -> tag <> 4 -> tag <> 5 -> tag <> 6 ->
  tag <> 7 -> tag <> 9 ->
  edit_import (tag :: rest) = None.
Proof. exact edit_import_bad_tag. Qed.
Print Assumptions C17_edit_import_bad_tag.

Theorem C17_level_read_bad_level : forall lvl rest,
  EDIT_NUM_LEVELS <= lvl -> lvl < 4294967296 -> level_read (varint32_write lvl ++ rest) = None.
Proof. exact level_read_bad_level. Qed.
Print Assumptions C17_level_read_bad_level.

Theorem C17_standard_tags :
  TAG_COMPARATOR = 1 /\ TAG_LOG_NUMBER = 2 /\ TAG_NEXT_FILE_NUMBER = 3 /\ TAG_LAST_SEQUENCE = 4 /\
  TAG_COMPACT_POINTER = 5 /\ TAG_DELETED_FILE = 6 /\ TAG_NEW_FILE = 7 /\ TAG_PREV_LOG_NUMBER = 9 /\
  EDIT_NUM_LEVELS = 7.
Proof. repeat split; reflexivity. Qed.
Print Assumptions C17_standard_tags.

(* ---- write batches ---- *)
Theorem C17_batch_iterate_build : forall seq ops,
  wf_ops ops = true -> batch_iterate (batch_build seq ops) = (ops, BOk).
Proof. exact batch_iterate_build. Qed.
Print Assumptions C17_batch_iterate_build.

Theorem C17_batch_build_layout : forall seq ops,
  batch_build seq ops =
  le64 (seq mod 18446744073709551616) ++ le32 (nlen ops mod 4294967296) ++ enc_ops ops.
Proof. exact batch_build_layout. Qed.
Print Assumptions C17_batch_build_layout.

Theorem C17_batch_sequence_build : forall seq ops,
  seq < 18446744073709551616 -> batch_sequence (batch_build seq ops) = seq.
Proof. exact batch_sequence_build. Qed.
Print Assumptions C17_batch_sequence_build.

Theorem C17_batch_count_build : forall seq ops,
  nlen ops < 4294967296 -> batch_count (batch_build seq ops) = nlen ops.
Proof. exact batch_count_build. Qed.
Print Assumptions C17_batch_count_build.

Theorem C17_batch_append_build : forall s1 s2 o1 o2,
  batch_append (batch_build s1 o1) (batch_build s2 o2) = batch_build s1 (o1 ++ o2).
Proof. exact batch_append_build. Qed.
Print Assumptions C17_batch_append_build.

Theorem C17_batch_append_iterate : forall a b oa ob,
  batch_iterate a = (oa, BOk) -> batch_iterate b = (ob, BOk) ->
  nlen oa + nlen ob < 4294967296 ->
  batch_iterate (batch_append a b) = (oa ++ ob, BOk) /\
  batch_count (batch_append a b) = batch_count a + batch_count b /\
  batch_sequence (batch_append a b) = batch_sequence a.
Proof. exact batch_append_iterate. Qed.
Print Assumptions C17_batch_append_iterate.

Theorem C17_batch_iterate_ok_count : forall b ops,
  batch_iterate b = (ops, BOk) -> nlen ops = batch_count b.
Proof. exact batch_iterate_ok_count. Qed.
Print Assumptions C17_batch_iterate_ok_count.

Theorem C17_batch_iterate_count_mismatch : forall seq ops c,
  wf_ops ops = true -> c mod 4294967296 <> nlen ops ->
  batch_iterate (batch_set_count (batch_build seq ops) c) = (ops, BWrongCount).
Proof. exact batch_iterate_build_wrong_count. Qed.
Print Assumptions C17_batch_iterate_count_mismatch.

(* ---- internal keys ---- *)
Theorem C17_ikey_parse_encode : forall k s t,
  s < 2 ^ 56 -> t <= 1 -> ikey_parse (ikey_encode k s t) = Some (k, s, t).
Proof. exact ikey_parse_encode. Qed.
Print Assumptions C17_ikey_parse_encode.

Theorem C17_ikey_compare_strict_total_order :
  (forall a, ikey_compare a a <> Lt) /\
  (forall a b c, ikey_compare a b = Lt -> ikey_compare b c = Lt -> ikey_compare a c = Lt) /\
  (forall a b, ikey_compare a b = Lt -> ikey_compare b a <> Lt) /\
  (forall a b, wf_ikey a = true -> wf_ikey b = true ->
               ikey_compare a b = Lt \/ a = b \/ ikey_compare b a = Lt).
Proof. exact ikey_compare_strict_total_order. Qed.
Print Assumptions C17_ikey_compare_strict_total_order.

Theorem C17_ikey_compare_antisym : forall a b,
  ikey_compare a b = CompOpp (ikey_compare b a).
Proof. exact ikey_compare_antisym. Qed.
Print Assumptions C17_ikey_compare_antisym.

Theorem C17_ikey_compare_encode : forall u1 s1 t1 u2 s2 t2,
  s1 < 2 ^ 56 -> s2 < 2 ^ 56 -> t1 <= 1 -> t2 <= 1 ->
  ikey_compare (ikey_encode u1 s1 t1) (ikey_encode u2 s2 t2) =
  match bytes_compare u1 u2 with
  | Eq => match N.compare s2 s1 with Eq => N.compare t2 t1 | c => c end
  | c => c
  end.
Proof. exact ikey_compare_encode. Qed.
Print Assumptions C17_ikey_compare_encode.

Theorem C17_lkey_internal_key : forall u s,
  lkey_internal_key u s = ikey_encode u s VALTYPE_SEEK /\ lkey_user_key u s = u.
Proof. intros u s. split; [exact (lkey_internal_key_eq u s)|exact (lkey_user_key_eq u s)]. Qed.
Print Assumptions C17_lkey_internal_key.

(* ---- separators and successors ---- *)
Theorem C17_shortest_separator_contract : forall a b,
  bytes_compare a b = Lt ->
  bytes_leb a (shortest_separator a b) = true /\
  bytes_ltb (shortest_separator a b) b = true.
Proof. exact shortest_separator_contract. Qed.
Print Assumptions C17_shortest_separator_contract.

Theorem C17_short_successor_contract : forall a, bytes_leb a (short_successor a) = true.
Proof. exact short_successor_contract. Qed.
Print Assumptions C17_short_successor_contract.

Theorem C17_ikc_shortest_separator_contract : forall a b,
  ikey_compare a b = Lt ->
  ikey_compare a (ikc_shortest_separator a b) <> Gt /\
  ikey_compare (ikc_shortest_separator a b) b = Lt.
Proof. exact ikc_shortest_separator_contract. Qed.
Print Assumptions C17_ikc_shortest_separator_contract.

Theorem C17_ikc_short_successor_contract : forall a,
  ikey_compare a (ikc_short_successor a) <> Gt.
Proof. exact ikc_short_successor_contract. Qed.
Print Assumptions C17_ikc_short_successor_contract.

Theorem C17_ikc_shortest_separator_length : forall a b,
  (8 <= length a)%nat ->
  (8 <= length (ikc_shortest_separator a b) <= length a)%nat.
Proof. exact ikc_shortest_separator_length. Qed.
Print Assumptions C17_ikc_shortest_separator_length.

(* ---- file names ---- *)
Theorem C17_parse_filename_make : forall kind n,
  n < 2 ^ 64 ->
  parse_filename (make_name kind n) = Some (kind_type kind, if kind <? 5 then n else 0).
Proof. exact parse_filename_make. Qed.
Print Assumptions C17_parse_filename_make.

Theorem C17_decode_int_encode_int : forall x pad rest,
  x < 18446744073709551616 ->
  match rest with [] => True | c :: _ => c < 48 \/ 57 < c end ->
  decode_int (encode_int x pad ++ rest) = Some (x, rest).
Proof. exact decode_int_encode_int. Qed.
Print Assumptions C17_decode_int_encode_int.
