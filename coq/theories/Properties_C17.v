(* Properties_C17.v -- theorems for property C17 (metadata codecs). *)
From LCDB Require Import Base Varint Batch IKey Edit Filename.
Local Open Scope N_scope.

Theorem C17_standard_tags :
  TAG_COMPARATOR = 1 /\ TAG_LOG_NUMBER = 2 /\ TAG_NEXT_FILE_NUMBER = 3 /\ TAG_LAST_SEQUENCE = 4 /\
  TAG_COMPACT_POINTER = 5 /\ TAG_DELETED_FILE = 6 /\ TAG_NEW_FILE = 7 /\ TAG_PREV_LOG_NUMBER = 9 /\
  EDIT_NUM_LEVELS = 7.
Proof. repeat split; reflexivity. Qed.
Print Assumptions C17_standard_tags.
