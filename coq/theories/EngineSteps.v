(* EngineSteps.v -- every guarded step of the engine model preserves the executable
   invariant inv_b, what every reader can see (view) at every readable sequence,
   and the agreement with the ghost write history.

   The per-operation proofs are in EngineStepsBasic.v (write, switch, snapshot, release),
   EngineStepsFlush.v (flush, reopen), EngineStepsEdit.v / EngineStepsCompact.v
   (compaction, trivial move); EngineStepsInv.v reads inv_b as a Prop (SInv).

   Two facts about reachable states are NOT part of inv_b and are needed as extra
   hypotheses (counterexamples without them are recorded at the end of this file):
     hist_bounded s : every ghost-history entry has a sequence <= last_seq s
                      (needed for hist_ok across OWrite),
     seqs_pos s     : every stored entry has a sequence >= 1
                      (needed for views across OReopen: chunk 0 b tests 0 <? es e).
   Both hold initially and are preserved by every step: Inv2. *)
From LCDB Require Import Base Engine EngineSpec.
From LCDB Require Import EngineStepsBase EngineStepsInv EngineStepsBasic EngineStepsLevels
                         EngineStepsFlush EngineStepsEdit EngineStepsCompact.
Require Import Lia ZifyBool ZifyNat ZifyN.
Local Open Scope N_scope.

Section Steps.
Variable ucmp : bytes -> bytes -> comparison.
Hypothesis TO : total_order ucmp.

Notation SInv := (EngineStepsInv.SInv ucmp).

Definition Inv2 (s : state) : Prop := inv_b ucmp s = true /\ hist_bounded s /\ seqs_pos s.

Definition structural (o : op) : Prop := match o with OWrite _ => False | _ => True end.

(* ------------------------------------------------------------ 1. the invariant is inductive *)
Theorem init_inv : inv_b ucmp init_state = true.
Proof. reflexivity. Qed.

Lemma step_SInv s o s' : SInv s -> step ucmp s o = Some s' -> SInv s'.
Proof.
  intros HI H. destruct o as [b| |lvl num nf|c|L n| |q|bounds nums nf]; cbn [step] in H.
  - injection H as <-. apply write_SInv; auto.
  - eapply switch_SInv; eauto.
  - eapply (flush_SInv ucmp); eauto.
  - eapply (compact_SInv ucmp); eauto.
  - eapply (move_SInv ucmp); eauto.
  - injection H as <-. apply snapshot_SInv; auto.
  - eapply release_SInv; eauto.
  - eapply (reopen_SInv ucmp); eauto.
Qed.

Theorem step_preserves_inv : forall s o s',
  inv_b ucmp s = true -> step ucmp s o = Some s' -> inv_b ucmp s' = true.
Proof.
  intros s o s' HI H. apply (inv_b_SInv ucmp). apply (inv_b_SInv ucmp) in HI.
  eapply step_SInv; eauto.
Qed.

Theorem run_preserves_inv : forall ops s s',
  inv_b ucmp s = true -> run ucmp s ops = Some s' -> inv_b ucmp s' = true.
Proof.
  induction ops as [|o r IH]; intros s s' HI H; cbn [run] in H.
  - injection H as <-. exact HI.
  - destruct (step ucmp s o) as [s1|] eqn:E; [|discriminate].
    eapply IH; [|exact H]. eapply step_preserves_inv; eauto.
Qed.

(* ------------------------------------------------------------ the auxiliary invariants *)
Lemma init_hist_bounded : hist_bounded init_state.
Proof. intros e []. Qed.

Lemma init_seqs_pos : seqs_pos init_state.
Proof. intros e H. cbn in H. destruct H. Qed.

Lemma step_hist_bounded s o s' :
  hist_bounded s -> step ucmp s o = Some s' -> hist_bounded s'.
Proof.
  intros HB H. destruct o as [b| |lvl num nf|c|L n| |q|bounds nums nf]; cbn [step] in H.
  - injection H as <-. apply write_hist_bounded; auto.
  - unfold do_switch in H. destruct (imm s); [discriminate|]. injection H as <-. exact HB.
  - destruct (flush_same ucmp _ _ _ _ _ H) as (E1 & _ & E3). intros e He. rewrite E1. apply HB. rewrite <- E3. auto.
  - destruct (compact_same ucmp _ _ _ H) as (E1 & _ & E3). intros e He. rewrite E1. apply HB. rewrite <- E3. auto.
  - destruct (move_same ucmp _ _ _ _ H) as (E1 & _ & E3). intros e He. rewrite E1. apply HB. rewrite <- E3. auto.
  - injection H as <-. exact HB.
  - unfold do_release in H. destruct (remove_first q (snaps s)); [|discriminate]. injection H as <-. exact HB.
  - destruct (reopen_same ucmp _ _ _ _ _ H) as (E1 & _ & E3). intros e He. rewrite E1. apply HB. rewrite <- E3. auto.
Qed.

Lemma step_seqs_pos s o s' :
  SInv s -> seqs_pos s -> step ucmp s o = Some s' -> seqs_pos s'.
Proof.
  intros HI HP H. destruct o as [b| |lvl num nf|c|L n| |q|bounds nums nf]; cbn [step] in H.
  - injection H as <-. apply write_seqs_pos; auto.
  - intros e He. apply HP. apply (switch_all_entries s s' e H). exact He.
  - intros e He. apply HP. apply (flush_all_entries ucmp s lvl num nf s' e HI H). exact He.
  - intros e He. apply HP. apply (compact_sub ucmp s c s' e HI H). exact He.
  - intros e He. apply HP. apply (move_all_entries ucmp s L n s' e HI H). exact He.
  - injection H as <-. exact HP.
  - unfold do_release in H. destruct (remove_first q (snaps s)); [|discriminate]. injection H as <-. exact HP.
  - intros e He. apply HP. apply (reopen_all_entries ucmp s bounds nums nf s' e HI HP H). exact He.
Qed.

Theorem init_Inv2 : Inv2 init_state.
Proof. split; [|split]. apply init_inv. apply init_hist_bounded. apply init_seqs_pos. Qed.

Theorem step_preserves_Inv2 : forall s o s', Inv2 s -> step ucmp s o = Some s' -> Inv2 s'.
Proof.
  intros s o s' (H1 & H2 & H3) H. split; [|split].
  - eapply step_preserves_inv; eauto.
  - eapply step_hist_bounded; eauto.
  - eapply step_seqs_pos; eauto. apply (inv_b_SInv ucmp); auto.
Qed.

Theorem run_preserves_Inv2 : forall ops s s', Inv2 s -> run ucmp s ops = Some s' -> Inv2 s'.
Proof.
  induction ops as [|o r IH]; intros s s' HI H; cbn [run] in H.
  - injection H as <-. exact HI.
  - destruct (step ucmp s o) as [s1|] eqn:E; [|discriminate].
    eapply IH; [|exact H]. eapply step_preserves_Inv2; eauto.
Qed.

(* ------------------------------------------------------------ 2. views *)
(* sharp form: seqs_pos is needed for OReopen only *)
Definition views_side (s : state) (o : op) : Prop :=
  match o with OReopen _ _ _ => seqs_pos s | _ => True end.

Theorem step_preserves_views_sharp : forall s o s',
  inv_b ucmp s = true -> views_side s o -> step ucmp s o = Some s' -> structural o ->
  forall k q, readable s q -> view ucmp s' k q = view ucmp s k q.
Proof.
  intros s o s' HI HS H Hst k q Hq. apply (inv_b_SInv ucmp) in HI.
  destruct o as [b| |lvl num nf|c|L n| |qr|bounds nums nf]; cbn [step] in H; cbn in Hst, HS.
  - contradiction.
  - apply view_ext; auto. intros e. apply (switch_all_entries s s' e H).
  - apply view_ext; auto. intros e. apply (flush_all_entries ucmp s lvl num nf s' e HI H).
  - apply (compact_view ucmp s c s' k q HI H). exact Hq.
  - apply view_ext; auto. intros e. apply (move_all_entries ucmp s L n s' e HI H).
  - injection H as <-. reflexivity.
  - unfold do_release in H. destruct (remove_first qr (snaps s)); [|discriminate].
    injection H as <-. reflexivity.
  - apply view_ext; auto. intros e. apply (reopen_all_entries ucmp s bounds nums nf s' e HI HS H).
Qed.

Theorem step_preserves_views : forall s o s',
  Inv2 s -> step ucmp s o = Some s' -> structural o ->
  forall k q, readable s q -> view ucmp s' k q = view ucmp s k q.
Proof.
  intros s o s' (H1 & H2 & H3) H Hst. apply (step_preserves_views_sharp s o s'); auto.
  destruct o; cbn; auto.
Qed.

Theorem write_preserves_old_views : forall s b k q,
  inv_b ucmp s = true -> q <= last_seq s ->
  view ucmp (do_write ucmp s b) k q = view ucmp s k q.
Proof.
  intros s b k q HI Hq. apply (inv_b_SInv ucmp) in HI. apply write_old_views; auto.
Qed.

(* ------------------------------------------------------------ 3. agreement with the history *)
Theorem init_hist_ok : hist_ok ucmp init_state.
Proof. intros k q _. reflexivity. Qed.

(* the set of readable sequences never grows by a step *)
Lemma step_readable s o s' q :
  SInv s -> step ucmp s o = Some s' -> readable s' q -> readable s q.
Proof.
  intros HI H. destruct o as [b| |lvl num nf|c|L n| |qr|bounds nums nf]; cbn [step] in H.
  - injection H as <-. apply write_readable; auto.
  - unfold do_switch in H. destruct (imm s); [discriminate|]. injection H as <-. auto.
  - destruct (flush_same ucmp _ _ _ _ _ H) as (E1 & E2 & _).
    unfold readable, smallest_snapshot. rewrite E1, E2. auto.
  - destruct (compact_same ucmp _ _ _ H) as (E1 & E2 & _).
    unfold readable, smallest_snapshot. rewrite E1, E2. auto.
  - destruct (move_same ucmp _ _ _ _ H) as (E1 & E2 & _).
    unfold readable, smallest_snapshot. rewrite E1, E2. auto.
  - injection H as <-. apply (snapshot_readable ucmp); auto.
  - eapply (release_readable ucmp); eauto.
  - destruct (reopen_same ucmp _ _ _ _ _ H) as (E1 & E2 & _).
    unfold readable, smallest_snapshot. rewrite E1, E2.
    destruct (snaps s) as [|a r] eqn:E; auto.
    pose proof (si_snap _ _ HI a) as Ha. rewrite E in Ha. specialize (Ha (or_introl eq_refl)). lia.
Qed.

Lemma step_hist_same s o s' : structural o -> step ucmp s o = Some s' -> hist s' = hist s.
Proof.
  intros Hst H. destruct o as [b| |lvl num nf|c|L n| |qr|bounds nums nf]; cbn [step] in H; cbn in Hst.
  - contradiction.
  - unfold do_switch in H. destruct (imm s); [discriminate|]. injection H as <-. auto.
  - apply (flush_same ucmp _ _ _ _ _ H).
  - apply (compact_same ucmp _ _ _ H).
  - apply (move_same ucmp _ _ _ _ H).
  - injection H as <-. auto.
  - unfold do_release in H. destruct (remove_first qr (snaps s)); [|discriminate]. injection H as <-. auto.
  - apply (reopen_same ucmp _ _ _ _ _ H).
Qed.

Lemma structural_hist_ok s o s' :
  Inv2 s -> hist_ok ucmp s -> structural o -> step ucmp s o = Some s' -> hist_ok ucmp s'.
Proof.
  intros HI2 HO Hst H k q Hq. pose proof HI2 as (H1 & H2 & H3).
  pose proof (proj1 (inv_b_SInv ucmp s) H1) as HI.
  pose proof (step_readable s o s' q HI H Hq) as Hq0.
  rewrite (step_preserves_views s o s' HI2 H Hst k q Hq0).
  unfold spec_get. rewrite (step_hist_same s o s' Hst H). apply (HO k q Hq0).
Qed.

Theorem step_preserves_hist_ok : forall s o s',
  Inv2 s -> hist_ok ucmp s -> step ucmp s o = Some s' -> hist_ok ucmp s'.
Proof.
  intros s o s' HI2 HO H. pose proof HI2 as (H1 & H2 & H3).
  pose proof (proj1 (inv_b_SInv ucmp s) H1) as HI.
  destruct o as [b| | | | | | | ].
  - cbn [step] in H. injection H as <-. apply write_hist_ok; auto.
  - eapply structural_hist_ok; eauto. exact I.
  - eapply structural_hist_ok; eauto. exact I.
  - eapply structural_hist_ok; eauto. exact I.
  - eapply structural_hist_ok; eauto. exact I.
  - eapply structural_hist_ok; eauto. exact I.
  - eapply structural_hist_ok; eauto. exact I.
  - eapply structural_hist_ok; eauto. exact I.
Qed.

Theorem run_Inv2_hist_ok : forall ops s s',
  Inv2 s -> hist_ok ucmp s -> run ucmp s ops = Some s' -> Inv2 s' /\ hist_ok ucmp s'.
Proof.
  induction ops as [|o r IH]; intros s s' HI HO H; cbn [run] in H.
  - injection H as <-. auto.
  - destruct (step ucmp s o) as [s1|] eqn:E; [|discriminate].
    eapply IH; [| |exact H].
    + eapply step_preserves_Inv2; eauto.
    + eapply step_preserves_hist_ok; eauto.
Qed.

Theorem run_hist_ok : forall ops s,
  run ucmp init_state ops = Some s -> inv_b ucmp s = true /\ hist_ok ucmp s.
Proof.
  intros ops s H.
  destruct (run_Inv2_hist_ok ops init_state s init_Inv2 init_hist_ok H) as ((H1 & _) & H2). auto.
Qed.

End Steps.

(* the full statements as originally requested, for reference *)
Definition step_preserves_views_statement : Prop :=
  forall ucmp, total_order ucmp -> forall s o s',
  inv_b ucmp s = true -> step ucmp s o = Some s' ->
  (match o with OWrite _ => False | _ => True end) ->
  forall k q, readable s q -> view ucmp s' k q = view ucmp s k q.
(* FALSE without seqs_pos: s = mem [(k,seq 0,v)], last_seq 0, OReopen [] [] 2 loses the entry *)

Definition step_preserves_hist_ok_statement : Prop :=
  forall ucmp, total_order ucmp -> forall s o s',
  inv_b ucmp s = true -> hist_ok ucmp s -> step ucmp s o = Some s' -> hist_ok ucmp s'.
(* FALSE without hist_bounded: hist may hold an entry with a sequence > last_seq *)

Section Counterexamples.
Local Definition lv7 := repeat (@nil file) 7.
Local Definition s_seq0 := mkS [mkE [1] 0 true [7]] None lv7 0 [] 2 [mkE [1] 0 true [7]].
Example cex_reopen_seq0 :
  inv_b bytes_compare s_seq0 = true /\
  exists s', step bytes_compare s_seq0 (OReopen [] [] 2) = Some s' /\
             view bytes_compare s_seq0 [1] 0 = Some [7] /\ view bytes_compare s' [1] 0 = None.
Proof. split. reflexivity. eexists. split. reflexivity. split; reflexivity. Qed.

Local Definition s_hist := mkS [mkE [1] 3 true [7]] None lv7 5 [] 2
                               [mkE [1] 100 true [7]; mkE [1] 3 true [7]].
Example cex_write_hist :
  inv_b bytes_compare s_hist = true /\
  let s' := do_write bytes_compare s_hist [WPut [1] [9]] in
  readable s' 100 /\ view bytes_compare s' [1] 100 = Some [9] /\ spec_get bytes_compare s' [1] 100 = Some [7].
Proof. split. reflexivity. cbv zeta. split. unfold readable. cbn. lia. split; reflexivity. Qed.
End Counterexamples.

Print Assumptions step_preserves_inv.
Print Assumptions step_preserves_views.
Print Assumptions run_hist_ok.
