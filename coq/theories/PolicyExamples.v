(* PolicyExamples.v -- computed examples for the selection replicas (ucmp := bytes_compare). *)
From LCDB Require Import Base Engine Policy.
Local Open Scope N_scope.

Definition e (k : N) (q : N) : entry := mkE [k] q true [].

(* 1. the level-0 restart loop of ldb_version_get_overlapping_inputs: with n files up to 2n
   restarts happen (each file can extend the range once at its start and once at its limit), so
   "n + 1 restarts suffice" is FALSE; ov_fuel = 2n + 1 passes is what the fuel lemma proves.
   files [c..x] and [a..z], range [m,m]: passes  [m,m] -> [c,m] -> [c,x] -> [a,x] -> [a,z]. *)
Definition f1 := mkF 10 [e 99 1; e 120 2].     (* c .. x *)
Definition f2 := mkF 11 [e 97 3; e 122 4].     (* a .. z *)
Example ov_restarts_2n :
  ov_loop bytes_compare 4 true [f1; f2] (Some [109]) (Some [109]) = [] /\          (* n + 2 passes: fuel exhausted *)
  ov_loop bytes_compare 5 true [f1; f2] (Some [109]) (Some [109]) = [f1; f2] /\    (* 2n + 1 passes *)
  overlapping_inputs bytes_compare true [f1; f2] (Some [109]) (Some [109]) = [f1; f2].
Proof. vm_compute. repeat split. Qed.

(* 2. add_boundary_inputs: level 1 holds user key 'k' in two files (the newer entry k@9 ends
   file 20, the older k@5 starts file 21); compacting file 20 alone would leave the older entry
   above the newer one, so file 21 is pulled in, and so is the level-2 boundary file 31. *)
Definition g20 := mkF 20 [e 100 8; e 107 9].
Definition g21 := mkF 21 [e 107 5; e 112 6].
Definition g22 := mkF 22 [e 113 7].
Definition h30 := mkF 30 [e 101 1; e 112 4].
Definition h31 := mkF 31 [e 112 3; e 115 2].
Definition st : state := mkS [] None [[]; [g20; g21; g22]; [h30; h31]; []; []; []; []] 9 [] 40 [].
Example boundary_pulled_in :
  inv_b bytes_compare st = true /\
  picked_inputs bytes_compare st 1 20 false = ([g20; g21], [h30; h31]) /\
  manual_inputs bytes_compare st 1 (Some [100]) (Some [101]) 1 false = ([g20; g21], [h30; h31]) /\
  compaction_guard bytes_compare st
    (to_compaction 1 (picked_inputs bytes_compare st 1 20 false) [] [40] 41) = true /\
  (* without the boundary file the guard is false *)
  compaction_guard bytes_compare st (mkC 1 [20] [30; 31] [] [40] 41) = false.
Proof. vm_compute. repeat split. Qed.
