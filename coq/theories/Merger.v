(* Merger.v -- replica of src/table/merger.c (ldb_mergeiter_t) over children that
   are cursors over runs.

   The state is the C struct: the children (each a run with its cursor: the
   ldb_wrapiter_t array), [current] (index of the child mi->current points to,
   None = NULL) and [direction].  A child over a run is the model of a memtable
   iterator, of a table iterator (level 0) or of a concatenating two-level
   iterator (levels >= 1, covered by the table theorems).

   Generic in the element type and in the comparator.  Definitions only; the
   theorems are in MergerProofs.v. *)
From LCDB Require Import Base Cursor Engine.

Section Merger.
Context {A : Type}.
Variable cmp : A -> A -> comparison.     (* mi->comparator *)

Definition child := (list A * cursor)%type.

Definition ch_get (c : child) : option A := c_get (fst c) (snd c).
Definition ch_first (c : child) : child := (fst c, c_first (fst c)).
Definition ch_last (c : child) : child := (fst c, c_last (fst c)).
Definition ch_seek (ge : A -> bool) (c : child) : child := (fst c, c_seek ge (fst c)).
Definition ch_next (c : child) : child := (fst c, c_next (fst c) (snd c)).
Definition ch_prev (c : child) : child := (fst c, c_prev (fst c) (snd c)).

Record mstate := mkM {
  m_children : list child;
  m_current : option nat;
  m_dir : direction
}.

Definition m_init (runs : list (list A)) : mstate :=
  mkM (map (fun r => (r, None)) runs) None Forward.

(* ldb_mergeiter_find_smallest: scan i = 0 .. n-1; a later child replaces the
   candidate only when strictly smaller, so the FIRST child wins ties *)
Fixpoint find_smallest_from (i : nat) (cs : list child) (best : option (nat * A)) : option (nat * A) :=
  match cs with
  | [] => best
  | c :: r =>
      let best' :=
        match ch_get c with
        | None => best
        | Some k =>
            match best with
            | None => Some (i, k)
            | Some (_, bk) => match cmp k bk with Lt => Some (i, k) | _ => best end
            end
        end in
      find_smallest_from (S i) r best'
  end.

Definition find_smallest (cs : list child) : option nat :=
  option_map fst (find_smallest_from O cs None).

(* ldb_mergeiter_find_largest: scan i = n-1 .. 0; an earlier child replaces the
   candidate only when strictly larger, so the LAST child wins ties *)
Fixpoint find_largest_from (i : nat) (cs : list child) : option (nat * A) :=
  match cs with
  | [] => None
  | c :: r =>
      let best := find_largest_from (S i) r in
      match ch_get c with
      | None => best
      | Some k =>
          match best with
          | None => Some (i, k)
          | Some (_, bk) => match cmp k bk with Gt => Some (i, k) | _ => best end
          end
      end
  end.

Definition find_largest (cs : list child) : option nat :=
  option_map fst (find_largest_from O cs).

Fixpoint mapi_from {B C : Type} (i : nat) (f : nat -> B -> C) (l : list B) : list C :=
  match l with
  | [] => []
  | x :: r => f i x :: mapi_from (S i) f r
  end.
Definition mapi {B C : Type} (f : nat -> B -> C) (l : list B) : list C := mapi_from O f l.

(* ldb_mergeiter_key *)
Definition m_key (st : mstate) : option A :=
  match m_current st with
  | Some i => match nth_error (m_children st) i with Some c => ch_get c | None => None end
  | None => None
  end.

Definition m_first (st : mstate) : mstate :=
  let cs := map ch_first (m_children st) in
  mkM cs (find_smallest cs) Forward.

Definition m_last (st : mstate) : mstate :=
  let cs := map ch_last (m_children st) in
  mkM cs (find_largest cs) Reverse.

(* [ge] is "entry >= target" in the order of the children *)
Definition m_seek (ge : A -> bool) (st : mstate) : mstate :=
  let cs := map (ch_seek ge) (m_children st) in
  mkM cs (find_smallest cs) Forward.

(* ldb_wrapiter_seek(child, key(mi)): first entry of the child that is >= key *)
Definition ge_key (key : A) (e : A) : bool := match cmp e key with Lt => false | _ => true end.

(* ldb_mergeiter_next; on an invalid iterator the C code asserts: the state is
   left unchanged here *)
Definition m_next (st : mstate) : mstate :=
  match m_current st, m_key st with
  | Some cur, Some key =>
      let cs1 :=
        match m_dir st with
        | Forward => m_children st
        | Reverse =>
            mapi (fun i c =>
                    if (i =? cur)%nat then c
                    else
                      let c' := ch_seek (ge_key key) c in
                      match ch_get c' with
                      | Some ck => match cmp key ck with Eq => ch_next c' | _ => c' end
                      | None => c'
                      end) (m_children st)
        end in
      let cs2 := mapi (fun i c => if (i =? cur)%nat then ch_next c else c) cs1 in
      mkM cs2 (find_smallest cs2) Forward
  | _, _ => st
  end.

(* ldb_mergeiter_prev *)
Definition m_prev (st : mstate) : mstate :=
  match m_current st, m_key st with
  | Some cur, Some key =>
      let cs1 :=
        match m_dir st with
        | Reverse => m_children st
        | Forward =>
            mapi (fun i c =>
                    if (i =? cur)%nat then c
                    else
                      let c' := ch_seek (ge_key key) c in
                      match ch_get c' with
                      | Some _ => ch_prev c'       (* first entry >= key(): step back *)
                      | None => ch_last c'         (* no entries >= key(): last entry *)
                      end) (m_children st)
        end in
      let cs2 := mapi (fun i c => if (i =? cur)%nat then ch_prev c else c) cs1 in
      mkM cs2 (find_largest cs2) Reverse
  | _, _ => st
  end.

Context {T : Type}.
Variable tge : T -> A -> bool.
Variable tcmp : A -> T -> comparison.

Definition merger_ops : iter_ops mstate T A :=
  mkIter m_first m_last (fun t => m_seek (tge t)) m_next m_prev m_key tcmp.

End Merger.

(* ---------------------------------------------------------------- the internal iterator of a DB state *)
Section Internal.
Variable ucmp : bytes -> bytes -> comparison.

(* a seek target of the internal iterator is the internal key (k, q, VALTYPE_SEEK) *)
Definition itarget := (bytes * N)%type.

Definition itge (t : itarget) (e : entry) : bool := ge_target ucmp (fst t) (snd t) e.

(* internal comparator on (entry, target): user key, then the (sequence, type) tag descending *)
Definition itcmp (e : entry) (t : itarget) : comparison :=
  match ucmp (ek e) (fst t) with
  | Eq => N.compare (snd t * 256 + 1) (es e * 256 + (if et e then 1 else 0))
  | c => c
  end.

(* ldb_internal_iterator + ldb_version_add_iterators: memtable, immutable memtable
   (when there is one), every level-0 file in version order, one concatenating
   iterator per non-empty level >= 1 *)
Definition nonempty_level (fs : list file) : bool := match fs with [] => false | _ => true end.

Definition runs_of (s : state) : list (list entry) :=
  mem s :: (match imm s with Some im => [im] | None => [] end)
        ++ map fents (level_files (levels s) 0)
        ++ map level_entries (filter nonempty_level (skipn 1 (levels s))).

Definition internal_ops : iter_ops (@mstate entry) itarget entry :=
  merger_ops (icmp ucmp) itge itcmp.

End Internal.
