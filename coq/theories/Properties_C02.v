(* Properties_C02.v -- C02: a write acknowledged with sync (or whose log the DB has
   deleted) survives a power failure at any later instant.  Record-level model:
   FsModel.v (crash model [crash_image], recovery [recover], protocol rules
   [wf_protocol] = R0..R7 checked on every lifted real trace by checks/k3check.py);
   proofs: FsProofs.v.  All theorems cover every accepted trace (flushes, compaction
   edits, MANIFEST rollover). *)
From LCDB Require Import Base LogFormat LogFormatClosed FsModel FsProofs.
Local Open Scope N_scope.

Theorem C02_log_cut_is_record_prefix : forall rs n,
  Forall (fun r => wf_bytes r = true) rs -> (n <= length (write_log rs))%nat ->
  exists k, read_log (firstn n (write_log rs)) = map Rec (firstn k rs).
Proof. exact read_cut_prefix. Qed.
Print Assumptions C02_log_cut_is_record_prefix.

Theorem C02_synced_durable : forall tr, wf_protocol tr = true ->
  forall p img, crash_image (firstn p tr) img -> iget img FCurrent <> None ->
  exists s, recover img = Some s /\
    forall id b, acked_sync_before tr p id b \/ acked_and_log_unlinked_before tr p id b ->
                 applied (firstn p tr) s b.
Proof. exact FsProofs.C02_synced_durable. Qed.
Print Assumptions C02_synced_durable.

Theorem C02_database_exists : forall tr, wf_protocol tr = true ->
  forall p img id b, crash_image (firstn p tr) img -> acked_sync_before tr p id b ->
  iget img FCurrent <> None.
Proof. exact FsProofs.C02_database_exists. Qed.
Print Assumptions C02_database_exists.

Theorem C02_bad_trace_no_table_fsync_refuted :
  wf_protocol bad_no_table_fsync = false /\ first_violation bad_no_table_fsync = Some (2, 31) /\
  In (1, true, 3, (1, ex_w1)) (acks bad_no_table_fsync) /\
  exists img, crash_image bad_no_table_fsync img /\ lost_in img 3 (1, ex_w1) = true.
Proof. exact bad_trace_no_table_fsync_refuted. Qed.
Print Assumptions C02_bad_trace_no_table_fsync_refuted.

Theorem C02_bad_trace_unlink_before_manifest_sync_refuted :
  wf_protocol bad_unlink_before_manifest_sync = false /\
  first_violation bad_unlink_before_manifest_sync = Some (3, 33) /\
  In (1, true, 3, (1, ex_w1)) (acks bad_unlink_before_manifest_sync) /\
  exists img, crash_image bad_unlink_before_manifest_sync img /\ lost_in img 3 (1, ex_w1) = true.
Proof. exact bad_trace_unlink_before_manifest_sync_refuted. Qed.
Print Assumptions C02_bad_trace_unlink_before_manifest_sync_refuted.

Theorem C02_bad_trace_rename_before_manifest_sync_refuted :
  wf_protocol bad_rename_before_manifest_sync = false /\
  first_violation bad_rename_before_manifest_sync = Some (4, 38) /\
  In (1, true, 3, (1, ex_w1)) (acks bad_rename_before_manifest_sync) /\
  exists img, crash_image bad_rename_before_manifest_sync img /\ lost_in img 3 (1, ex_w1) = true.
Proof. exact bad_trace_rename_before_manifest_sync_refuted. Qed.
Print Assumptions C02_bad_trace_rename_before_manifest_sync_refuted.

Theorem C02_unlink_before_dirsync_refuted :
  wf_protocol bad_unlink_before_dirsync = false /\
  first_violation bad_unlink_before_dirsync = Some (3, 42) /\
  (In (2, false, 3, (2, ex_w2)) (acks bad_unlink_before_dirsync) /\
   In (EUnlink (FLog 3)) bad_unlink_before_dirsync) /\
  exists img, crash_image bad_unlink_before_dirsync img /\ lost_in img 3 (2, ex_w2) = true.
Proof. exact FsProofs.C02_unlink_before_dirsync_refuted. Qed.
Print Assumptions C02_unlink_before_dirsync_refuted.
