(* TableFormat.v -- model of the SSTable layer:
     src/table/format.c          (block handles, footer, ldb_read_block)
     src/table/table_builder.c   (the ldb_tablegen functions)
     src/table/table.c           (ldb_table_open, ldb_table_internal_get, block reader)
     src/table/two_level_iterator.c + iterator_wrapper.h
   and the two comparators lcdb tables are built with (util/comparator.c
   bytewise; dbformat.c internal-key comparator and internal filter policy).
   Definitions only; proofs are in TableProofs.v.

   A file is the byte string of its contents.  Status codes: see Block.status
   (SIoerr = "the read failed", whatever errno the environment reports). *)
From LCDB Require Export Base Varint Crc32c Block Filter Snappy.
Local Open Scope N_scope.

(* ------------------------------------------------------------------ *)
(* format.c                                                            *)
(* ------------------------------------------------------------------ *)
Definition handle := (N * N)%type.     (* offset, size *)

Definition TABLE_MAGIC : N := 15800726617472432983.   (* 0xdb4775248b80fb57 *)
Definition FOOTER_SIZE : N := 48.
Definition TRAILER_SIZE : N := 5.

(* ldb_handle_write *)
Definition handle_encode (h : handle) : bytes :=
  varint64_write (fst h) ++ varint64_write (snd h).

(* ldb_handle_read / ldb_handle_import *)
Definition handle_decode (l : bytes) : option (handle * bytes) :=
  match varint64_read l with
  | None => None
  | Some (o, r) =>
      match varint64_read r with
      | None => None
      | Some (s, r') => Some ((o, s), r')
      end
  end.

(* ldb_footer_write *)
Definition footer_encode (metaindex index : handle) : bytes :=
  let hs := handle_encode metaindex ++ handle_encode index in
  hs ++ repeat 0 (40 - length hs) ++ le64 TABLE_MAGIC.

(* ldb_footer_read on the 48 bytes read by ldb_table_open *)
Definition footer_decode (l : bytes) : res (option (handle * handle)) :=
  if nlen l <? FOOTER_SIZE then Ok None
  else
    match de64 (drop_n 40 l) with
    | None => OOB
    | Some m =>
        if negb (m =? TABLE_MAGIC) then Ok None
        else
          match handle_decode l with
          | None => Ok None
          | Some (mi, r) =>
              match handle_decode r with
              | None => Ok None
              | Some (ih, _) => Ok (Some (mi, ih))
              end
          end
    end.

Inductive rb := RBok (b : bytes) | RBerr (s : status).

(* ldb_read_block.  [fsize] = length of [file]. *)
Definition read_block (file : bytes) (fsize : N) (verify : bool) (h : handle) : res rb :=
  let '(off, n) := h in
  (* Check for overflow: handle->size > SIZE_MAX - LDB_TRAILER_SIZE *)
  if 18446744073709551610 <? n then Ok (RBerr SCorruption)
  else
    let len := n + TRAILER_SIZE in
    (* ldb_rfile_pread: mapped files reject the range with EINVAL, pread returns
       fewer bytes ("truncated block read"); malloc may fail first *)
    if fsize <? off + len then Ok (RBerr SIoerr)
    else
      contents <~ slice file fsize off len ;;
      let data := take_n n contents in
      match drop_n n contents with
      | ty :: c0 :: c1 :: c2 :: c3 :: _ =>
          let crc_bad :=
            if verify then
              negb (crc_unmask (c0 + 256 * c1 + 65536 * c2 + 16777216 * c3)
                    =? crc_value (take_n (n + 1) contents))
            else false in
          if crc_bad then Ok (RBerr SCorruption)   (* block checksum mismatch *)
          else if ty =? 0 then Ok (RBok data)
          else if ty =? 1 then
            match snappy_decode_size data with
            | None => Ok (RBerr SCorruption)
            | Some _ =>
                u <~ snappy_decode data ;;
                match u with
                | None => Ok (RBerr SCorruption)
                | Some ub => Ok (RBok ub)
                end
            end
          else Ok (RBerr SCorruption)              (* bad block type *)
      | _ => OOB
      end.

(* ------------------------------------------------------------------ *)
(* The two comparators (shortest_separator / short_successor)          *)
(* ------------------------------------------------------------------ *)
(* util/comparator.c shortest_separator(start, limit) *)
Fixpoint tbl_sep (start limit : bytes) : bytes :=
  match start, limit with
  | x :: s', y :: l' =>
      if x =? y then x :: tbl_sep s' l'
      else if (x <? 255) && (x + 1 <? y) then [x + 1]
      else start
  | _, _ => start
  end.

(* util/comparator.c short_successor(key) *)
Fixpoint tbl_succ (key : bytes) : bytes :=
  match key with
  | [] => []
  | x :: r => if x =? 255 then x :: tbl_succ r else [x + 1]
  end.

(* pack_seqtype(LDB_MAX_SEQUENCE, LDB_VALTYPE_SEEK) as fixed64 *)
Definition tbl_seek_tag : bytes := le64 18446744073709551361.

(* dbformat.c ldb_ikc_shortest_separator / ldb_ikc_short_successor *)
Definition tbl_isep (start limit : bytes) : bytes :=
  let us := tbl_user_key start in
  let tmp := tbl_sep us (tbl_user_key limit) in
  if (nlen tmp <? nlen us) && bytes_ltb us tmp then tmp ++ tbl_seek_tag else start.

Definition tbl_isucc (key : bytes) : bytes :=
  let uk := tbl_user_key key in
  let tmp := tbl_succ uk in
  if (nlen tmp <? nlen uk) && bytes_ltb uk tmp then tmp ++ tbl_seek_tag else key.

(* "filter." ++ "leveldb.BuiltinBloomFilter2" (ldb_bloom_name) *)
Definition FILTER_KEY : bytes :=
  [102; 105; 108; 116; 101; 114; 46;
   108; 101; 118; 101; 108; 100; 98; 46;
   66; 117; 105; 108; 116; 105; 110;
   66; 108; 111; 111; 109;
   70; 105; 108; 116; 101; 114; 50].

(* ------------------------------------------------------------------ *)
Section Table.
(* options->comparator *)
Variable cmp : bytes -> bytes -> comparison.
Variable is_internal : bool.
Variable sep : bytes -> bytes -> bytes.    (* shortest_separator *)
Variable succ : bytes -> bytes.            (* short_successor *)
(* options->filter_policy (NULL when has_filter = false) *)
Variable has_filter : bool.
Variable fbuild : list bytes -> bytes.
Variable fmatch : bytes -> bytes -> res bool.
(* snappy_encode, as a hook: any function will do for the writer *)
Variable compress : bytes -> bytes.

(* ------------------------------------------------------------------ *)
(* table_builder.c                                                     *)
(* ------------------------------------------------------------------ *)
Record tbuilder := mk_tb {
  tb_chunks : list bytes;        (* file contents so far, most recent chunk first *)
  tb_offset : N;
  tb_data : bbuilder;
  tb_index : bbuilder;
  tb_last_key : bytes;
  tb_filter : fbuilder;          (* meaningful iff has_filter *)
  tb_pending : option handle     (* pending_index_entry / pending_handle *)
}.

Definition tb_empty : tbuilder :=
  mk_tb [] 0 bb_empty bb_empty [] (fb_start_block fbuild fb_empty 0) None.

(* ldb_tablegen_write_raw_block: new chunks, new offset, the handle *)
Definition write_raw_block (chunks : list bytes) (offset : N) (contents : bytes) (ty : N)
  : list bytes * N * handle :=
  let crc := crc_extend (crc_value contents) [ty] in
  let trailer := ty :: le32 (crc_mask crc) in
  (trailer :: contents :: chunks, offset + nlen contents + TRAILER_SIZE,
   (offset, nlen contents)).

(* ldb_tablegen_write_block: choose the stored form of a finished block *)
Definition block_contents (compression : N) (raw : bytes) : bytes * N :=
  if compression =? 1 then
    let c := compress raw in
    if nlen c <? nlen raw - nlen raw / 8 then (c, 1) else (raw, 0)
  else (raw, 0).

Definition write_block (compression : N) (chunks : list bytes) (offset : N) (b : bbuilder)
  : list bytes * N * handle :=
  let '(contents, ty) := block_contents compression (bb_finish b) in
  write_raw_block chunks offset contents ty.

(* ldb_tablegen_flush *)
Definition tb_flush (compression : N) (t : tbuilder) : tbuilder :=
  if bb_is_empty (tb_data t) then t
  else
    let '(chunks, offset, h) := write_block compression (tb_chunks t) (tb_offset t) (tb_data t) in
    mk_tb chunks offset bb_empty (tb_index t) (tb_last_key t)
          (if has_filter then fb_start_block fbuild (tb_filter t) offset else tb_filter t)
          (Some h).

(* ldb_tablegen_add *)
Definition tb_add (block_size interval compression : N) (t : tbuilder) (k v : bytes) : tbuilder :=
  let index1 :=
    match tb_pending t with
    | Some h => bb_add 1 (tb_index t) (sep (tb_last_key t) k) (handle_encode h)
    | None => tb_index t
    end in
  let filter1 := if has_filter then fb_add_key (tb_filter t) k else tb_filter t in
  let data1 := bb_add interval (tb_data t) k v in
  let t1 := mk_tb (tb_chunks t) (tb_offset t) data1 index1 k filter1 None in
  if block_size <=? bb_estimate data1 then tb_flush compression t1 else t1.

(* ldb_tablegen_finish: the whole file *)
Definition tb_finish (interval compression : N) (t : tbuilder) : bytes :=
  let t1 := tb_flush compression t in
  (* filter block *)
  let '(chunks2, offset2, filter_handle) :=
    if has_filter then
      write_raw_block (tb_chunks t1) (tb_offset t1) (fb_finish fbuild (tb_filter t1)) 0
    else (tb_chunks t1, tb_offset t1, (0, 0)) in
  (* metaindex block *)
  let meta :=
    if has_filter then bb_add interval bb_empty FILTER_KEY (handle_encode filter_handle)
    else bb_empty in
  let '(chunks3, offset3, metaindex_handle) := write_block compression chunks2 offset2 meta in
  (* index block *)
  let index1 :=
    match tb_pending t1 with
    | Some h => bb_add 1 (tb_index t1) (succ (tb_last_key t1)) (handle_encode h)
    | None => tb_index t1
    end in
  let '(chunks4, offset4, index_handle) := write_block compression chunks3 offset3 index1 in
  concat (rev (footer_encode metaindex_handle index_handle :: chunks4)).

Definition table_build (block_size interval compression : N) (es : list entry) : bytes :=
  tb_finish interval compression
    (fold_left (fun t e => tb_add block_size interval compression t (fst e) (snd e)) es tb_empty).

(* ------------------------------------------------------------------ *)
(* table.c                                                             *)
(* ------------------------------------------------------------------ *)
Record table := mk_table {
  t_file : bytes;
  t_fsize : N;
  t_index : block;
  t_filter : option freader
}.

(* ldb_table_read_filter *)
Definition table_read_filter (file : bytes) (fsize : N) (paranoid : bool) (hv : bytes)
  : res (option freader) :=
  match handle_decode hv with
  | None => Ok None
  | Some (h, _) =>
      r <~ read_block file fsize paranoid h ;;
      match r with
      | RBerr _ => Ok None
      | RBok b => fr <~ filter_init b ;; Ok (Some fr)
      end
  end.

(* ldb_table_read_meta (metaindex block is searched with the bytewise comparator) *)
Definition table_read_meta (file : bytes) (fsize : N) (paranoid : bool) (metaindex : handle)
  : res (option freader) :=
  if negb has_filter then Ok None
  else
    r <~ read_block file fsize paranoid metaindex ;;
    match r with
    | RBerr _ => Ok None
    | RBok b =>
        blk <~ block_init b ;;
        it <~ biter_create blk ;;
        it1 <~ biter_seek bytes_compare false FILTER_KEY it ;;
        if biter_valid it1 && bytes_eqb (biter_key it1) FILTER_KEY then
          v <~ biter_value it1 ;;
          table_read_filter file fsize paranoid v
        else Ok None
    end.

(* ldb_table_open *)
Definition table_open (paranoid : bool) (file : bytes) : res (status + table) :=
  let size := nlen file in
  if size <? FOOTER_SIZE then Ok (inl SCorruption)
  else
    input <~ slice file size (size - FOOTER_SIZE) FOOTER_SIZE ;;
    f <~ footer_decode input ;;
    match f with
    | None => Ok (inl SCorruption)
    | Some (metaindex_handle, index_handle) =>
        r <~ read_block file size paranoid index_handle ;;
        match r with
        | RBerr s => Ok (inl s)
        | RBok b =>
            index_block <~ block_init b ;;
            flt <~ table_read_meta file size paranoid metaindex_handle ;;
            Ok (inr (mk_table file size index_block flt))
        end
    end.

(* ldb_table_blockreader (the block cache does not change what is returned) *)
Definition table_blockreader (t : table) (verify : bool) (index_value : bytes) : res biter :=
  match handle_decode index_value with
  | None => Ok (biter_empty SCorruption)
  | Some (h, _) =>
      r <~ read_block (t_file t) (t_fsize t) verify h ;;
      match r with
      | RBerr s => Ok (biter_empty s)
      | RBok b => blk <~ block_init b ;; biter_create blk
      end
  end.

(* ldb_table_internal_get: the entry handed to handle_result (if any) and rc *)
Definition table_get (t : table) (verify : bool) (k : bytes) : res (option entry * status) :=
  index_iter <~ biter_create (t_index t) ;;
  index_iter <~ biter_seek cmp is_internal k index_iter ;;
  if biter_valid index_iter then
    iter_value <~ biter_value index_iter ;;
    skip <~ match t_filter t, handle_decode iter_value with
            | Some fr, Some (h, _) =>
                m <~ filter_matches fmatch fr (fst h) k ;; Ok (negb m)
            | _, _ => Ok false
            end ;;
    if skip then Ok (None, biter_status index_iter)       (* Not found. *)
    else
      block_iter <~ table_blockreader t verify iter_value ;;
      block_iter <~ biter_seek cmp is_internal k block_iter ;;
      found <~ biter_observe block_iter ;;
      let rc := biter_status block_iter in
      Ok (found, match rc with SOk => biter_status index_iter | _ => rc end)
  else Ok (None, biter_status index_iter).

(* ------------------------------------------------------------------ *)
(* two_level_iterator.c                                                *)
(* ------------------------------------------------------------------ *)
Record twoiter := mk_two {
  tw_index : biter;
  tw_data : option biter;
  tw_handle : bytes;        (* data_block_handle *)
  tw_status : status
}.

(* ldb_tableiter_create *)
Definition twoiter_create (t : table) : res twoiter :=
  index_iter <~ biter_create (t_index t) ;;
  Ok (mk_two index_iter None [] SOk).

Definition twoiter_valid (it : twoiter) : bool :=
  match tw_data it with Some d => biter_valid d | None => false end.

(* ldb_twoiter_status *)
Definition twoiter_status (it : twoiter) : status :=
  match biter_status (tw_index it) with
  | SOk =>
      match tw_data it with
      | Some d => match biter_status d with SOk => tw_status it | s => s end
      | None => tw_status it
      end
  | s => s
  end.

(* ldb_twoiter_set_data_iter (with ldb_twoiter_saverr) *)
Definition two_set_data (it : twoiter) (d : option biter) : twoiter :=
  let st :=
    match tw_data it, tw_status it with
    | Some old, SOk => biter_status old
    | _, s => s
    end in
  mk_two (tw_index it) d (tw_handle it) st.

Section TwoLevel.
Variable t : table.
Variable verify : bool.     (* iterator's read options *)

(* ldb_twoiter_init_data_block *)
Definition two_init_data_block (it : twoiter) : res twoiter :=
  if negb (biter_valid (tw_index it)) then Ok (two_set_data it None)
  else
    h <~ biter_value (tw_index it) ;;
    if (match tw_data it with Some _ => true | None => false end) && bytes_eqb h (tw_handle it)
    then Ok it
    else
      d <~ table_blockreader t verify h ;;
      Ok (two_set_data (mk_two (tw_index it) (tw_data it) h (tw_status it)) (Some d)).

Definition two_data_invalid (it : twoiter) : bool :=
  match tw_data it with Some d => negb (biter_valid d) | None => true end.

Definition two_with_index (it : twoiter) (i : biter) : twoiter :=
  mk_two i (tw_data it) (tw_handle it) (tw_status it).
Definition two_with_data (it : twoiter) (d : biter) : twoiter :=
  mk_two (tw_index it) (Some d) (tw_handle it) (tw_status it).

(* ldb_twoiter_skip_forward / skip_backward; fuel: one step per index entry *)
Fixpoint two_skip (forward : bool) (fuel : bytes) (it : twoiter) : res twoiter :=
  if two_data_invalid it then
    if negb (biter_valid (tw_index it)) then Ok (two_set_data it None)
    else
      match fuel with
      | [] => Ok it
      | _ :: fuel' =>
          i <~ (if forward then biter_next is_internal (tw_index it)
                else biter_prev is_internal (tw_index it)) ;;
          it1 <~ two_init_data_block (two_with_index it i) ;;
          it2 <~ match tw_data it1 with
                 | Some d =>
                     d' <~ (if forward then biter_first is_internal d
                            else biter_last is_internal d) ;;
                     Ok (two_with_data it1 d')
                 | None => Ok it1
                 end ;;
          two_skip forward fuel' it2
      end
  else Ok it.

Definition two_fuel (it : twoiter) : bytes := 0 :: bi_data (tw_index it).

Definition twoiter_seek (target : bytes) (it : twoiter) : res twoiter :=
  i <~ biter_seek cmp is_internal target (tw_index it) ;;
  it1 <~ two_init_data_block (two_with_index it i) ;;
  it2 <~ match tw_data it1 with
         | Some d => d' <~ biter_seek cmp is_internal target d ;; Ok (two_with_data it1 d')
         | None => Ok it1
         end ;;
  two_skip true (two_fuel it2) it2.

Definition twoiter_first (it : twoiter) : res twoiter :=
  i <~ biter_first is_internal (tw_index it) ;;
  it1 <~ two_init_data_block (two_with_index it i) ;;
  it2 <~ match tw_data it1 with
         | Some d => d' <~ biter_first is_internal d ;; Ok (two_with_data it1 d')
         | None => Ok it1
         end ;;
  two_skip true (two_fuel it2) it2.

Definition twoiter_last (it : twoiter) : res twoiter :=
  i <~ biter_last is_internal (tw_index it) ;;
  it1 <~ two_init_data_block (two_with_index it i) ;;
  it2 <~ match tw_data it1 with
         | Some d => d' <~ biter_last is_internal d ;; Ok (two_with_data it1 d')
         | None => Ok it1
         end ;;
  two_skip false (two_fuel it2) it2.

(* REQUIRE valid *)
Definition twoiter_next (it : twoiter) : res twoiter :=
  match tw_data it with
  | Some d => d' <~ biter_next is_internal d ;;
              let it1 := two_with_data it d' in two_skip true (two_fuel it1) it1
  | None => Ok it
  end.

Definition twoiter_prev (it : twoiter) : res twoiter :=
  match tw_data it with
  | Some d => d' <~ biter_prev is_internal d ;;
              let it1 := two_with_data it d' in two_skip false (two_fuel it1) it1
  | None => Ok it
  end.

Definition twoiter_observe (it : twoiter) : res (option entry) :=
  match tw_data it with
  | Some d => biter_observe d
  | None => Ok None
  end.

Definition twoiter_step (op : iop) (it : twoiter) : res twoiter :=
  match op with
  | IFirst => twoiter_first it
  | ILast => twoiter_last it
  | ISeek tg => twoiter_seek tg it
  | INext => if twoiter_valid it then twoiter_next it else Ok it
  | IPrev => if twoiter_valid it then twoiter_prev it else Ok it
  end.

Fixpoint twoiter_run (ops : list iop) (it : twoiter) : res (list (option entry) * twoiter) :=
  match ops with
  | [] => Ok ([], it)
  | op :: ops' =>
      it1 <~ twoiter_step op it ;;
      o <~ twoiter_observe it1 ;;
      '(os, it2) <~ twoiter_run ops' it1 ;;
      Ok (o :: os, it2)
  end.

(* forward scan: First, then Next while valid; [fuel] bounds the number of entries *)
Fixpoint two_collect (forward : bool) (fuel : bytes) (it : twoiter) (acc : list entry)
  : res (list entry * twoiter) :=
  o <~ twoiter_observe it ;;
  match o with
  | None => Ok (rev' acc, it)
  | Some e =>
      match fuel with
      | [] => Ok (rev' (e :: acc), it)
      | _ :: fuel' =>
          it' <~ (if forward then twoiter_next it else twoiter_prev it) ;;
          two_collect forward fuel' it' (e :: acc)
      end
  end.

End TwoLevel.

(* table_iter command *)
Definition table_run (paranoid verify : bool) (file : bytes) (ops : list iop)
  : res (status + (list (option entry) * status)) :=
  r <~ table_open paranoid file ;;
  match r with
  | inl s => Ok (inl s)
  | inr t =>
      it <~ twoiter_create t ;;
      '(os, it') <~ twoiter_run t verify ops it ;;
      Ok (inr (os, twoiter_status it'))
  end.

(* table_scan command: all entries forward (First, then Next repeatedly) with the final status,
   then all entries backward (Last, then Prev repeatedly) with the final status *)
Definition table_scan (paranoid verify : bool) (file : bytes)
  : res (status + ((list entry * status) * (list entry * status))) :=
  r <~ table_open paranoid file ;;
  match r with
  | inl s => Ok (inl s)
  | inr t =>
      it <~ twoiter_create t ;;
      itf <~ twoiter_first t verify it ;;
      '(fw, itf') <~ two_collect t verify true file itf [] ;;
      itb <~ twoiter_last t verify itf' ;;
      '(bw, itb') <~ two_collect t verify false file itb [] ;;
      Ok (inr ((fw, twoiter_status itf'), (bw, twoiter_status itb')))
  end.

(* table_get command *)
Definition table_lookup (paranoid verify : bool) (file : bytes) (k : bytes)
  : res (status + (option entry * status)) :=
  r <~ table_open paranoid file ;;
  match r with
  | inl s => Ok (inl s)
  | inr t => g <~ table_get t verify k ;; Ok (inr g)
  end.

(* ------------------------------------------------------------------ *)
(* Linear reader: every entry of the table in order, by walking the     *)
(* index block and decoding each data block (no iterator state).        *)
(* Stops with the status of the first block that cannot be read.        *)
(* ------------------------------------------------------------------ *)
Fixpoint table_entries_loop (file : bytes) (fsize : N) (verify : bool) (idx : list entry)
  : res (status + list entry) :=
  match idx with
  | [] => Ok (inr [])
  | (_, hv) :: idx' =>
      match handle_decode hv with
      | None => Ok (inl SCorruption)
      | Some (h, _) =>
          r <~ read_block file fsize verify h ;;
          match r with
          | RBerr s => Ok (inl s)
          | RBok b =>
              match block_entries_gen is_internal b with
              | None => Ok (inl SCorruption)
              | Some es =>
                  rest <~ table_entries_loop file fsize verify idx' ;;
                  match rest with
                  | inl s => Ok (inl s)
                  | inr es' => Ok (inr (es ++ es'))
                  end
              end
          end
      end
  end.

Definition table_entries (paranoid verify : bool) (file : bytes) : res (status + list entry) :=
  r <~ table_open paranoid file ;;
  match r with
  | inl s => Ok (inl s)
  | inr t =>
      match block_entries_gen is_internal (blk_data (t_index t)) with
      | None => Ok (inl SCorruption)
      | Some idx => table_entries_loop (t_file t) (t_fsize t) verify idx
      end
  end.

End Table.

(* ------------------------------------------------------------------ *)
(* Instances used by the differential drivers.                         *)
(* comparator id 0 = bytewise comparator + user bloom policy;          *)
(* id 1 = internal-key comparator (over bytewise) + internal policy;   *)
(* filter bits = 0 means options->filter_policy == NULL.               *)
(* ------------------------------------------------------------------ *)
Definition inst_cmp (c : N) : bytes -> bytes -> comparison :=
  if c =? 0 then bytes_compare else tbl_ikey_compare.
Definition inst_internal (c : N) : bool := negb (c =? 0).
Definition inst_sep (c : N) : bytes -> bytes -> bytes := if c =? 0 then tbl_sep else tbl_isep.
Definition inst_succ (c : N) : bytes -> bytes := if c =? 0 then tbl_succ else tbl_isucc.
Definition inst_fbuild (c bits : N) : list bytes -> bytes :=
  if c =? 0 then user_fbuild bits else internal_fbuild bits.
Definition inst_fmatch (c : N) : bytes -> bytes -> res bool :=
  if c =? 0 then user_fmatch else internal_fmatch.
Definition inst_has_filter (bits : N) : bool := negb (bits =? 0).

Definition table_build_i (c bits : N) (compress : bytes -> bytes)
  (block_size interval compression : N) (es : list entry) : bytes :=
  table_build (inst_sep c) (inst_succ c) (inst_has_filter bits) (inst_fbuild c bits) compress
              block_size interval compression es.

Definition table_run_i (c bits : N) (paranoid verify : bool) (file : bytes) (ops : list iop) :=
  table_run (inst_cmp c) (inst_internal c) (inst_has_filter bits) paranoid verify file ops.

Definition table_scan_i (c bits : N) (paranoid verify : bool) (file : bytes) :=
  table_scan (inst_internal c) (inst_has_filter bits) paranoid verify file.

Definition table_entries_i (c bits : N) (paranoid verify : bool) (file : bytes) :=
  table_entries (inst_internal c) (inst_has_filter bits) paranoid verify file.

(* table_get command: one open, several lookups *)
Fixpoint table_gets (c : N) (t : table) (verify : bool) (ks : list bytes)
  : res (list (option entry * status)) :=
  match ks with
  | [] => Ok []
  | k :: ks' =>
      g <~ table_get (inst_cmp c) (inst_internal c) (inst_fmatch c) t verify k ;;
      gs <~ table_gets c t verify ks' ;;
      Ok (g :: gs)
  end.

Definition table_lookups_i (c bits : N) (paranoid verify : bool) (file : bytes) (ks : list bytes)
  : res (status + list (option entry * status)) :=
  r <~ table_open (inst_has_filter bits) paranoid file ;;
  match r with
  | inl s => Ok (inl s)
  | inr t => gs <~ table_gets c t verify ks ;; Ok (inr gs)
  end.

Definition block_run_i (c : N) (b : bytes) (ops : list iop) :=
  block_run (inst_cmp c) (inst_internal c) b ops.

Definition filter_block_build_i (c bits : N) (groups : list (N * list bytes)) : bytes :=
  filter_block_build (inst_fbuild c bits) groups.
Definition filter_block_matches_i (c : N) (blockbytes : bytes) (off : N) (key : bytes) : res bool :=
  filter_block_matches (inst_fmatch c) blockbytes off key.
