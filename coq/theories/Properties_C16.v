(* Properties_C16.v -- theorems for property C16 (headline statements only). *)
From LCDB Require Import Base Varint Crc32c Block Filter Snappy TableFormat.
Local Open Scope N_scope.

Theorem C16_standard_constants :
  TABLE_MAGIC = 15800726617472432983 /\ FOOTER_SIZE = 48 /\ TRAILER_SIZE = 5 /\ FILTER_BASE_LG = 11.
Proof. repeat split; reflexivity. Qed.
Print Assumptions C16_standard_constants.
