(* Properties_C16.v -- headline theorems for property C16 (statements only; the
   proofs are in BlockProofs / FilterProofs / FilterBlockProofs / SnappyProofs /
   TableProofs / TableBuildProofs). *)
From LCDB Require Import Base Varint Crc32c Block Trie Filter Snappy TableFormat.
From LCDB Require Import BlockProofs BlockIterProofs BlockSeekProofs FilterProofs FilterBlockProofs SnappyProofs TableProofs TableBuildProofs.
From LCDB Require Import BlockCursorProofs TableIndexProofs TableGetProofs TableIterProofs.
Local Open Scope N_scope.

(* (a) filters never reject a present key: for ANY hash function *)
Theorem C16_bloom_no_false_negative :
  forall (hashf : bytes -> N) (bits : N) (keys : list bytes) (key : bytes),
  In key keys ->
  bloom_match_with hashf (bloom_build_with hashf bits keys) key = Ok true.
Proof. exact bloom_no_false_negative. Qed.
Print Assumptions C16_bloom_no_false_negative.

(* (a) ... and for the filter block: a key added under a block offset matches at that
   offset, for any policy without false negatives *)
Theorem C16_filter_block_no_false_negative :
  forall (fbuild : list bytes -> bytes) (fmatch : bytes -> bytes -> res bool),
  (forall keys key, In key keys -> fmatch (fbuild keys) key = Ok true) ->
  forall (groups : list (N * list bytes)) (off : N) (ks : list bytes) (k : bytes),
  groups_sorted 0 groups ->
  nlen (filter_block_build fbuild groups) < 4294967296 ->
  In (off, ks) groups -> In k ks ->
  filter_block_matches fmatch (filter_block_build fbuild groups) off k = Ok true.
Proof. exact filter_block_no_false_negative. Qed.
Print Assumptions C16_filter_block_no_false_negative.

(* the two policies lcdb tables use have no false negatives *)
Theorem C16_lcdb_policies_sound :
  (forall bits keys key, In key keys -> user_fmatch (user_fbuild bits keys) key = Ok true) /\
  (forall bits keys key, In key keys -> internal_fmatch (internal_fbuild bits keys) key = Ok true).
Proof. exact (conj user_policy_sound internal_policy_sound). Qed.
Print Assumptions C16_lcdb_policies_sound.

(* (b) decoding a built block returns exactly the entries (no sortedness needed) *)
Theorem C16_block_entries_build :
  forall (interval : N) (es : list entry),
  1 <= interval -> wf_entries es ->
  block_entries (block_build interval es) = Some es.
Proof. exact block_entries_build. Qed.
Print Assumptions C16_block_entries_build.

(* (d) memory safety / totality of the decoders on ALL byte strings *)
Theorem C16_block_iterator_safe :
  forall (cmp : bytes -> bytes -> comparison) (is_internal : bool) (b : bytes) (ops : list iop),
  block_run cmp is_internal b ops <> OOB.
Proof. exact block_run_safe. Qed.
Print Assumptions C16_block_iterator_safe.

Theorem C16_filter_reader_safe :
  forall (fmatch : bytes -> bytes -> res bool),
  (forall f k, fmatch f k <> OOB) ->
  forall (blockbytes : bytes) (off : N) (key : bytes),
  filter_block_matches fmatch blockbytes off key <> OOB.
Proof. exact filter_block_matches_safe. Qed.
Print Assumptions C16_filter_reader_safe.

Theorem C16_bloom_match_safe :
  forall (hashf : bytes -> N) (filter key : bytes), bloom_match_with hashf filter key <> OOB.
Proof. exact bloom_match_safe. Qed.
Print Assumptions C16_bloom_match_safe.

Theorem C16_snappy_decode_safe : forall x : bytes, snappy_decode x <> OOB.
Proof. exact snappy_decode_safe. Qed.
Print Assumptions C16_snappy_decode_safe.

Theorem C16_footer_decode_safe : forall l : bytes, footer_decode l <> OOB.
Proof. exact footer_decode_safe. Qed.
Print Assumptions C16_footer_decode_safe.

Theorem C16_read_block_safe :
  forall (file : bytes) (verify : bool) (h : handle), read_block file (nlen file) verify h <> OOB.
Proof. exact read_block_safe. Qed.
Print Assumptions C16_read_block_safe.

Theorem C16_table_iterator_safe :
  forall (cmp : bytes -> bytes -> comparison) (is_internal has_filter paranoid verify : bool)
         (file : bytes) (ops : list iop),
  table_run cmp is_internal has_filter paranoid verify file ops <> OOB.
Proof. exact table_iterator_safe. Qed.
Print Assumptions C16_table_iterator_safe.

Theorem C16_table_get_safe :
  forall (cmp : bytes -> bytes -> comparison) (is_internal has_filter : bool)
         (fmatch : bytes -> bytes -> res bool),
  (forall f k, fmatch f k <> OOB) ->
  forall (paranoid verify : bool) (file k : bytes),
  table_lookup cmp is_internal has_filter fmatch paranoid verify file k <> OOB.
Proof. exact table_lookup_safe. Qed.
Print Assumptions C16_table_get_safe.

(* (e) a built table yields exactly its entries, in order, through the linear reader:
   any block size, restart interval, filter policy, checksum options; any compression
   function that the Snappy decoder inverts; both lcdb comparators *)
Theorem C16_table_entries_build_bytewise :
  forall bits compress block_size interval compression paranoid verify es,
  (compression = 1 -> forall raw, nlen (compress raw) < nlen raw - nlen raw / 8 ->
     snappy_decode_size (compress raw) <> None /\ snappy_decode (compress raw) = Ok (Some raw)) ->
  Forall (fun e => nlen (fst e) < 4294967296 /\ nlen (snd e) < 4294967296) es ->
  nlen es + 1 < 4294967296 ->
  let file := table_build_i 0 bits compress block_size interval compression es in
  wf_bytes file = true -> nlen file < 18446744073709551616 ->
  table_entries_i 0 bits paranoid verify file = Ok (inr es).
Proof. exact table_entries_build_bytewise. Qed.
Print Assumptions C16_table_entries_build_bytewise.

Theorem C16_table_entries_build_internal :
  forall bits compress block_size interval compression paranoid verify es,
  (compression = 1 -> forall raw, nlen (compress raw) < nlen raw - nlen raw / 8 ->
     snappy_decode_size (compress raw) <> None /\ snappy_decode (compress raw) = Ok (Some raw)) ->
  Forall (fun e => nlen (fst e) < 4294967296 /\ 8 <= nlen (fst e) /\ nlen (snd e) < 4294967296) es ->
  nlen es + 1 < 4294967296 ->
  let file := table_build_i 1 bits compress block_size interval compression es in
  wf_bytes file = true -> nlen file < 18446744073709551616 ->
  table_entries_i 1 bits paranoid verify file = Ok (inr es).
Proof. exact table_entries_build_internal. Qed.
Print Assumptions C16_table_entries_build_internal.

(* (f) Snappy: decoding the serialisation of any valid element list (literals with
   every length encoding, copies with 1-, 2- and 4-byte offsets, overlapping or not)
   yields its expansion; the memcpy path of the C decoder equals its byte loop *)
Theorem C16_snappy_decode_ops :
  forall ops : list sop,
  sops_ok 0 ops -> sops_len ops < 2147483648 ->
  snappy_decode (varint32_write (sops_len ops) ++ sops_bytes ops)
  = Ok (Some (rev (sops_apply ops []))).
Proof. exact snappy_decode_ops. Qed.
Print Assumptions C16_snappy_decode_ops.

(* (c, forward half) on a built block the iterator state machine enumerates exactly
   the entries: First, then Next repeatedly; the Next after the last entry
   invalidates the iterator with status OK *)
Theorem C16_block_iter_forward :
  forall (cmp : bytes -> bytes -> comparison) (isint : bool) (interval : N) (es : list entry),
  wf_entries es -> keys_ge8 isint es ->
  block_run cmp isint (block_build interval es) (IFirst :: repeat INext (length es))
  = Ok (map Some es ++ [None], SOk).
Proof. exact block_iter_forward. Qed.
Print Assumptions C16_block_iter_forward.

(* (c) on a built block whose keys are strictly sorted under cmp, the block iterator
   simulates a cursor over the entry list for ARBITRARY scripts: the observations are
   those of the reference cursor ref_run (First / Last / Next / Prev move as in the
   list; Seek t lands on the first entry whose key is not below t, see ref_seek), and
   the final status is OK *)
Theorem C16_block_cursor_sim :
  forall (cmp : bytes -> bytes -> comparison) (isint : bool) (I : N) (es : list entry) (ops : list iop),
  wf_entries es -> keys_ge8 isint es ->
  nlen (block_build I es) < 4294967296 ->
  (forall pre k v mid k' v' post, es = pre ++ (k, v) :: mid ++ (k', v') :: post -> cmp k k' = Lt) ->
  (forall x y z, cmp x y = Lt -> cmp y z = Lt -> cmp x z = Lt) ->
  (forall x y z, cmp x y = Lt -> cmp y z = Eq -> cmp x z = Lt) ->
  Forall (op_ok isint) ops ->
  block_run cmp isint (block_build I es) ops = Ok (ref_run cmp es ops None, SOk).
Proof. exact block_cursor_sim. Qed.
Print Assumptions C16_block_cursor_sim.

(* the specification of Seek used above: the split of the list at the first key that
   is not below the target *)
Theorem C16_seek_spec :
  forall (cmp : bytes -> bytes -> comparison) (t : bytes) (l : list entry),
  l = fst (split_lt cmp t l) ++ snd (split_lt cmp t l) /\
  Forall (fun e => cmp (fst e) t = Lt) (fst (split_lt cmp t l)) /\
  match snd (split_lt cmp t l) with [] => True | e :: _ => cmp (fst e) t <> Lt end.
Proof. exact split_lt_spec. Qed.
Print Assumptions C16_seek_spec.

Theorem C16_block_cursor_sim_bytewise :
  forall (I : N) (es : list entry) (ops : list iop),
  wf_entries es ->
  nlen (block_build I es) < 4294967296 ->
  (forall pre k v mid k' v' post, es = pre ++ (k, v) :: mid ++ (k', v') :: post -> bytes_compare k k' = Lt) ->
  block_run bytes_compare false (block_build I es) ops = Ok (ref_run bytes_compare es ops None, SOk).
Proof. exact block_cursor_sim_bytewise. Qed.
Print Assumptions C16_block_cursor_sim_bytewise.

Theorem C16_block_cursor_sim_internal :
  forall (I : N) (es : list entry) (ops : list iop),
  wf_entries es -> keys_ge8 true es ->
  nlen (block_build I es) < 4294967296 ->
  (forall pre k v mid k' v' post, es = pre ++ (k, v) :: mid ++ (k', v') :: post -> tbl_ikey_compare k k' = Lt) ->
  Forall (op_ok true) ops ->
  block_run tbl_ikey_compare true (block_build I es) ops = Ok (ref_run tbl_ikey_compare es ops None, SOk).
Proof. exact block_cursor_sim_internal. Qed.
Print Assumptions C16_block_cursor_sim_internal.

(* ================================================================== *)
(* (g) ldb_table_internal_get and the two-level iterator on built      *)
(* tables (proofs: BlockCursorProofs / TableIndexProofs /              *)
(* TableGetProofs / TableIterProofs).  Any block size, restart         *)
(* interval, filter bits (0 = no filter) and checksum options; both    *)
(* lcdb comparators; any compression function that the Snappy decoder  *)
(* inverts (and that only shrinks blocks below 4 GiB); table files     *)
(* below 4 GiB.                                                        *)
(* ================================================================== *)

(* the crux: in the index block of a built table the key stored for data block i is
   >= every key of block i and < every key of all later blocks (index_rel), for any
   comparator whose shortest_separator / short_successor satisfy their contracts ... *)
Theorem C16_index_separators :
  forall (cmp : bytes -> bytes -> comparison), cmp_order cmp ->
  forall (sep : bytes -> bytes -> bytes) (succ : bytes -> bytes),
  sep_contract cmp sep -> succ_contract cmp succ ->
  forall (blocks : list (handle * list entry)),
  Forall (fun fb => snd fb <> []) blocks ->
  (forall pre k v mid k' v' post,
     concat (map snd blocks) = pre ++ (k, v) :: mid ++ (k', v') :: post -> cmp k k' = Lt) ->
  index_rel cmp (index_of sep succ blocks None) blocks.
Proof.
  intros cmp Hord sep succ Hsep Hsucc blocks Hne Hs.
  apply (index_of_rel cmp Hord sep succ Hsep Hsucc blocks None Hne Hs). intros k H; discriminate.
Qed.
Print Assumptions C16_index_separators.

(* ... which the two lcdb comparators do (TableFormat's own copies of the hooks) *)
Theorem C16_table_comparators :
  (cmp_order bytes_compare /\ sep_contract bytes_compare tbl_sep /\ succ_contract bytes_compare tbl_succ) /\
  (cmp_order tbl_ikey_compare /\ sep_contract tbl_ikey_compare tbl_isep /\ succ_contract tbl_ikey_compare tbl_isucc).
Proof.
  exact (conj (conj bytes_order (conj bytes_sep_contract bytes_succ_contract))
              (conj ikey_order (conj ikey_sep_contract ikey_succ_contract))).
Qed.
Print Assumptions C16_table_comparators.

(* table_open of a built table succeeds; its data blocks are the entry list cut into
   non-empty pieces at increasing offsets, its index block is index_of, its filter never
   rejects a key of a block at the offset of that block *)
Theorem C16_table_build_open :
  forall sep succ has_filter fbuild fmatch compress block_size interval compression,
  (compression = 1 -> forall raw, nlen (compress raw) < nlen raw - nlen raw / 8 ->
     snappy_decode_size (compress raw) <> None /\ snappy_decode (compress raw) = Ok (Some raw) /\
     nlen raw < 4294967296) ->
  (forall keys key, In key keys -> fmatch (fbuild keys) key = Ok true) ->
  forall paranoid es,
  let file := table_build sep succ has_filter fbuild compress block_size interval compression es in
  wf_bytes file = true -> nlen file < 4294967296 ->
  exists t blocks, table_open has_filter paranoid file = Ok (inr t) /\
                   built_table sep succ has_filter fmatch interval file es t blocks.
Proof. exact table_build_open. Qed.
Print Assumptions C16_table_build_open.

(* a present key is found, with its value (whatever the filter says about other keys) *)
Theorem C16_table_get_present_bytewise :
  forall bits compress block_size interval compression paranoid verify es k v,
  (compression = 1 -> forall raw, nlen (compress raw) < nlen raw - nlen raw / 8 ->
     snappy_decode_size (compress raw) <> None /\ snappy_decode (compress raw) = Ok (Some raw) /\
     nlen raw < 4294967296) ->
  Forall (fun e => nlen (fst e) < 4294967296 /\ nlen (snd e) < 4294967296) es ->
  nlen es + 1 < 4294967296 ->
  (forall pre k v mid k' v' post, es = pre ++ (k, v) :: mid ++ (k', v') :: post -> bytes_compare k k' = Lt) ->
  let file := table_build_i 0 bits compress block_size interval compression es in
  wf_bytes file = true -> nlen file < 4294967296 ->
  In (k, v) es ->
  table_lookup (inst_cmp 0) (inst_internal 0) (inst_has_filter bits) (inst_fmatch 0) paranoid verify file k
  = Ok (inr (Some (k, v), SOk)).
Proof.
  intros bits compress block_size interval compression paranoid verify es k v Hc Hes Hn Hs file Hwf Hlen Hin.
  destruct (table_lookup_build_bytewise bits compress block_size interval compression paranoid verify es
              Hc Hes Hn Hs Hwf Hlen k) as (r & Hget & _ & Hp & _).
  fold file in Hget. rewrite Hget, (Hp v Hin). reflexivity.
Qed.
Print Assumptions C16_table_get_present_bytewise.

Theorem C16_table_get_present_internal :
  forall bits compress block_size interval compression paranoid verify es k v,
  (compression = 1 -> forall raw, nlen (compress raw) < nlen raw - nlen raw / 8 ->
     snappy_decode_size (compress raw) <> None /\ snappy_decode (compress raw) = Ok (Some raw) /\
     nlen raw < 4294967296) ->
  Forall (fun e => nlen (fst e) < 4294967296 /\ 8 <= nlen (fst e) /\ nlen (snd e) < 4294967296) es ->
  nlen es + 1 < 4294967296 ->
  (forall pre k v mid k' v' post, es = pre ++ (k, v) :: mid ++ (k', v') :: post -> tbl_ikey_compare k k' = Lt) ->
  let file := table_build_i 1 bits compress block_size interval compression es in
  wf_bytes file = true -> nlen file < 4294967296 ->
  In (k, v) es ->
  table_lookup (inst_cmp 1) (inst_internal 1) (inst_has_filter bits) (inst_fmatch 1) paranoid verify file k
  = Ok (inr (Some (k, v), SOk)).
Proof.
  intros bits compress block_size interval compression paranoid verify es k v Hc Hes Hn Hs file Hwf Hlen Hin.
  assert (Hk : 8 <= nlen k).
  { rewrite Forall_forall in Hes. destruct (Hes (k, v) Hin) as (_ & A & _). exact A. }
  destruct (table_lookup_build_internal bits compress block_size interval compression paranoid verify es
              Hc Hes Hn Hs Hwf Hlen k Hk) as (r & Hget & _ & Hp & _).
  fold file in Hget. rewrite Hget, (Hp v Hin). reflexivity.
Qed.
Print Assumptions C16_table_get_present_internal.

(* any key: the call succeeds with status OK and hands over either nothing or THE
   successor of the key in the entry list (the first entry whose key is not below the
   target, see C16_seek_spec) -- never another entry, never an error; nothing at all
   when every key of the table is below the target.  ("Nothing" although a successor
   exists happens when the filter rejects the key, or when the key lies between the
   last key of a data block and the shortened separator stored for that block.) *)
Theorem C16_table_get_absent_bytewise :
  forall bits compress block_size interval compression paranoid verify es,
  (compression = 1 -> forall raw, nlen (compress raw) < nlen raw - nlen raw / 8 ->
     snappy_decode_size (compress raw) <> None /\ snappy_decode (compress raw) = Ok (Some raw) /\
     nlen raw < 4294967296) ->
  Forall (fun e => nlen (fst e) < 4294967296 /\ nlen (snd e) < 4294967296) es ->
  nlen es + 1 < 4294967296 ->
  (forall pre k v mid k' v' post, es = pre ++ (k, v) :: mid ++ (k', v') :: post -> bytes_compare k k' = Lt) ->
  let file := table_build_i 0 bits compress block_size interval compression es in
  wf_bytes file = true -> nlen file < 4294967296 ->
  forall k,
  exists r, table_lookup (inst_cmp 0) (inst_internal 0) (inst_has_filter bits) (inst_fmatch 0)
                         paranoid verify file k = Ok (inr (r, SOk)) /\
    (r = None \/ r = zip_obs (ref_seek bytes_compare es k)) /\
    (forall v, In (k, v) es -> r = Some (k, v)) /\
    (Forall (fun e => bytes_compare (fst e) k = Lt) es -> r = None).
Proof. exact table_lookup_build_bytewise. Qed.
Print Assumptions C16_table_get_absent_bytewise.

Theorem C16_table_get_absent_internal :
  forall bits compress block_size interval compression paranoid verify es,
  (compression = 1 -> forall raw, nlen (compress raw) < nlen raw - nlen raw / 8 ->
     snappy_decode_size (compress raw) <> None /\ snappy_decode (compress raw) = Ok (Some raw) /\
     nlen raw < 4294967296) ->
  Forall (fun e => nlen (fst e) < 4294967296 /\ 8 <= nlen (fst e) /\ nlen (snd e) < 4294967296) es ->
  nlen es + 1 < 4294967296 ->
  (forall pre k v mid k' v' post, es = pre ++ (k, v) :: mid ++ (k', v') :: post -> tbl_ikey_compare k k' = Lt) ->
  let file := table_build_i 1 bits compress block_size interval compression es in
  wf_bytes file = true -> nlen file < 4294967296 ->
  forall k, 8 <= nlen k ->
  exists r, table_lookup (inst_cmp 1) (inst_internal 1) (inst_has_filter bits) (inst_fmatch 1)
                         paranoid verify file k = Ok (inr (r, SOk)) /\
    (r = None \/ r = zip_obs (ref_seek tbl_ikey_compare es k)) /\
    (forall v, In (k, v) es -> r = Some (k, v)) /\
    (Forall (fun e => tbl_ikey_compare (fst e) k = Lt) es -> r = None).
Proof. exact table_lookup_build_internal. Qed.
Print Assumptions C16_table_get_absent_internal.

(* the way lcdb uses it: a lookup key (user key, snapshot sequence, SEEK tag) is never
   itself in the table; if its successor in the table carries the same user key, that
   successor is what the call hands over -- neither the filter (keyed by user keys) nor
   the shortened index separators hide it *)
Theorem C16_table_get_user_key_internal :
  forall bits compress block_size interval compression paranoid verify es,
  (compression = 1 -> forall raw, nlen (compress raw) < nlen raw - nlen raw / 8 ->
     snappy_decode_size (compress raw) <> None /\ snappy_decode (compress raw) = Ok (Some raw) /\
     nlen raw < 4294967296) ->
  Forall (fun e => nlen (fst e) < 4294967296 /\ 8 <= nlen (fst e) /\ nlen (snd e) < 4294967296) es ->
  nlen es + 1 < 4294967296 ->
  (forall pre k v mid k' v' post, es = pre ++ (k, v) :: mid ++ (k', v') :: post -> tbl_ikey_compare k k' = Lt) ->
  let file := table_build_i 1 bits compress block_size interval compression es in
  wf_bytes file = true -> nlen file < 4294967296 ->
  forall k p e q, 8 <= nlen k ->
  ref_seek tbl_ikey_compare es k = Some (p, e, q) ->
  tbl_user_key (fst e) = tbl_user_key k ->
  table_lookup (inst_cmp 1) (inst_internal 1) (inst_has_filter bits) (inst_fmatch 1)
               paranoid verify file k = Ok (inr (Some e, SOk)).
Proof. exact table_lookup_user_internal. Qed.
Print Assumptions C16_table_get_user_key_internal.

(* the two-level iterator of a built table simulates a cursor over the entry list for
   ARBITRARY scripts (Next / Prev issued when valid, skipped otherwise, as the driver
   does): observations = those of the reference cursor over the whole list (Seek lands on
   the first entry at or after the target, block boundaries are crossed in both
   directions, nothing is skipped), final status OK *)
Theorem C16_table_iterator_is_cursor_bytewise :
  forall bits compress block_size interval compression paranoid verify es ops,
  (compression = 1 -> forall raw, nlen (compress raw) < nlen raw - nlen raw / 8 ->
     snappy_decode_size (compress raw) <> None /\ snappy_decode (compress raw) = Ok (Some raw) /\
     nlen raw < 4294967296) ->
  Forall (fun e => nlen (fst e) < 4294967296 /\ nlen (snd e) < 4294967296) es ->
  nlen es + 1 < 4294967296 ->
  (forall pre k v mid k' v' post, es = pre ++ (k, v) :: mid ++ (k', v') :: post -> bytes_compare k k' = Lt) ->
  let file := table_build_i 0 bits compress block_size interval compression es in
  wf_bytes file = true -> nlen file < 4294967296 ->
  table_run_i 0 bits paranoid verify file ops = Ok (inr (ref_run bytes_compare es ops None, SOk)).
Proof. exact table_run_build_bytewise. Qed.
Print Assumptions C16_table_iterator_is_cursor_bytewise.

Theorem C16_table_iterator_is_cursor_internal :
  forall bits compress block_size interval compression paranoid verify es ops,
  (compression = 1 -> forall raw, nlen (compress raw) < nlen raw - nlen raw / 8 ->
     snappy_decode_size (compress raw) <> None /\ snappy_decode (compress raw) = Ok (Some raw) /\
     nlen raw < 4294967296) ->
  Forall (fun e => nlen (fst e) < 4294967296 /\ 8 <= nlen (fst e) /\ nlen (snd e) < 4294967296) es ->
  nlen es + 1 < 4294967296 ->
  (forall pre k v mid k' v' post, es = pre ++ (k, v) :: mid ++ (k', v') :: post -> tbl_ikey_compare k k' = Lt) ->
  let file := table_build_i 1 bits compress block_size interval compression es in
  wf_bytes file = true -> nlen file < 4294967296 ->
  Forall (op_ok true) ops ->
  table_run_i 1 bits paranoid verify file ops = Ok (inr (ref_run tbl_ikey_compare es ops None, SOk)).
Proof. exact table_run_build_internal. Qed.
Print Assumptions C16_table_iterator_is_cursor_internal.

(* ... for any comparator / separator / filter policy satisfying the contracts *)
Theorem C16_table_iterator_is_cursor :
  forall cmp isint sep succ has_filter fbuild fmatch compress block_size interval compression,
  (compression = 1 -> forall raw, nlen (compress raw) < nlen raw - nlen raw / 8 ->
     snappy_decode_size (compress raw) <> None /\ snappy_decode (compress raw) = Ok (Some raw) /\
     nlen raw < 4294967296) ->
  (forall keys key, In key keys -> fmatch (fbuild keys) key = Ok true) ->
  cmp_order cmp -> sep_contract cmp sep -> succ_contract cmp succ ->
  forall dkey : bytes -> Prop,
  (forall k, dkey k -> ikeyok isint k) ->
  (forall a b, dkey a -> ikeyok isint (sep a b)) ->
  (forall a, dkey a -> ikeyok isint (succ a)) ->
  forall paranoid verify es ops,
  Forall (fun e => wf_entry e /\ dkey (fst e)) es -> nlen es + 1 < 4294967296 ->
  (forall pre k v mid k' v' post, es = pre ++ (k, v) :: mid ++ (k', v') :: post -> cmp k k' = Lt) ->
  let file := table_build sep succ has_filter fbuild compress block_size interval compression es in
  wf_bytes file = true -> nlen file < 4294967296 ->
  Forall (op_ok isint) ops ->
  table_run cmp isint has_filter paranoid verify file ops = Ok (inr (ref_run cmp es ops None, SOk)).
Proof. exact table_run_build. Qed.
Print Assumptions C16_table_iterator_is_cursor.
