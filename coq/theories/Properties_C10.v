(* Properties_C10.v -- one handle can be shared by threads without data races.

   What is proved (HbProofs.v), for all executions of the axiomatic model Hb.v:
     lockset_drf, publish_drf, atomic_drf : the three disciplines exclude races;
     C10_drf_generic : a fact table accepted by [check_facts] has only
       race-free executions.
   What is checked on every run: [C10_this_tree] is re-evaluated (vm_compute)
   against the fact table REGENERATED from the current sources by
   bin/facts_c10.py (the check compiles this file against the regenerated
   Facts_C10.v in a scratch directory; the copy in this directory is the table
   of the tree the framework was committed against).
   Trusted: the translator, and [execution_of]: the executions of the C code
   are executions whose accesses respect the guards the translator read off
   the source text (lock regions, memory orders, the two hand-listed protocol
   tokens).  The theorem is about this access skeleton, not the object code;
   the ThreadSanitizer runs of checks/c10.py are the tie to the binary. *)
Require Import List String.
Import ListNotations.
Require Import LCDB.Hb LCDB.HbProofs LCDB.Facts_C10.

Theorem C10_this_tree : check_facts Facts_C10.facts = true.
Proof. vm_compute. reflexivity. Qed.

Theorem C10_this_tree_race_free : forall ex, execution_of Facts_C10.facts ex -> race_free ex.
Proof. exact (C10_drf_generic Facts_C10.facts C10_this_tree). Qed.

Theorem C10_lockset_drf : forall ex init x m,
  wf_mutex ex -> guarded_by ex init x m ->
  forall i j ei, ev ex i = Some ei -> e_loc ei = x ->
    init i = false -> init j = false -> ~ race ex i j.
Proof. exact lockset_drf. Qed.

Theorem C10_publish_drf : forall ex fld t0 w,
  wf_rf ex -> published_object ex fld t0 w ->
  forall i j ei, ev ex i = Some ei -> fld (e_loc ei) = true -> ~ race ex i j.
Proof. exact publish_drf. Qed.

Theorem C10_atomic_drf : forall ex x, only_atomic ex x ->
  forall i j ei, ev ex i = Some ei -> e_loc ei = x -> ~ race ex i j.
Proof. exact atomic_drf. Qed.

Theorem C10_drf_generic' : forall F, check_facts F = true ->
  forall ex, execution_of F ex -> race_free ex.
Proof. exact C10_drf_generic. Qed.

(* The model can express races, and the table check is not vacuous. *)
Theorem C10_model_has_races : ~ race_free racy_ex.
Proof. exact racy_ex_races. Qed.

Theorem C10_relaxed_publication_rejected :
  check_facts
    [ mkClass "next store" 0 Write Relaxed GAtomic RPublish;
      mkClass "next load" 0 Read Acquire GAtomic RTraverse;
      mkClass "field write" 1 Write NonAtomic (GPublishedBy 0) RPlain;
      mkClass "field read" 1 Read NonAtomic (GPublishedBy 0) RPlain ] = false.
Proof. vm_compute. reflexivity. Qed.

Theorem C10_unlocked_access_rejected :
  check_facts
    [ mkClass "x write under m" 0 Write NonAtomic (GLock [1]) RPlain;
      mkClass "x read without lock" 0 Read NonAtomic (GLock []) RPlain ] = false.
Proof. vm_compute. reflexivity. Qed.

Print Assumptions C10_this_tree.
Print Assumptions C10_this_tree_race_free.
Print Assumptions C10_lockset_drf.
Print Assumptions C10_publish_drf.
Print Assumptions C10_atomic_drf.
Print Assumptions C10_drf_generic'.
Print Assumptions C10_model_has_races.
