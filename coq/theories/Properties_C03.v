(* Properties_C03.v -- C03: a process crash (everything that reached the OS persists)
   loses nothing that was acknowledged.  Record-level model FsModel.v, proofs FsProofs.v.
   The recovered state replays [applied_batches s]; the older batches [old] are those of
   logs below the recovered log_number, each literally contained in tables named by an
   edit ([flushed]).  Covers every trace accepted by [wf_protocol]. *)
From LCDB Require Import Base LogFormat LogFormatClosed FsModel FsProofs.
Local Open Scope N_scope.

Theorem C03_written_log_prefix_is_record_prefix : forall rs n,
  Forall (fun r => wf_bytes r = true) rs -> (n <= length (write_log rs))%nat ->
  exists k, read_log (firstn n (write_log rs)) = map Rec (firstn k rs).
Proof. exact read_cut_prefix. Qed.
Print Assumptions C03_written_log_prefix_is_record_prefix.

Theorem C03_process_crash : forall tr, wf_protocol tr = true -> forall p,
  iget (written_image (firstn p tr)) FCurrent <> None ->
  exists s old, recover (written_image (firstn p tr)) = Some s /\
    Forall (fun b => flushed (firstn p tr) b /\
                     exists n, In b (log_batches (firstn p tr) n) /\ n < r_log s) old /\
    (old ++ applied_batches s = acked_before tr p \/
     exists b, in_flight tr p b /\ old ++ applied_batches s = acked_before tr p ++ [b]).
Proof. exact FsProofs.C03_process_crash. Qed.
Print Assumptions C03_process_crash.
