(* EngineTop.v -- property-level theorems about the engine model (Engine.v), assembled
   from the read-path theorem (EngineRead.v) and the step theorems (EngineSteps.v):

   A. the ghost history IS the write history ([written]), and reading the history at a
      sequence is the sequential map semantics of the writes up to that sequence;
   B. C01: a lookup at the latest sequence returns the most recent write to the key;
   C. C06: a live snapshot is a frozen view;
   D. C14: the layout invariant holds in every reachable state, spelled out; a clean
      close + reopen reproduces the layout;
   E. C13: file numbers are fresh, distinct, never reused;
   F. a concrete run exercising every operation, with the theorems instantiated on it. *)
From LCDB Require Import Base Engine EngineSpec EngineRead.
From LCDB Require Import EngineStepsBase EngineStepsInv EngineStepsBasic EngineStepsLevels
                         EngineStepsFlush EngineStepsEdit EngineStepsCompact EngineSteps.
From Coq Require Import Sorting.Sorted.
Require Import Lia ZifyBool ZifyNat ZifyN.
Local Open Scope N_scope.

(* ================================================================== A. the write history *)
(* entries in write order, with the sequences lcdb assigns *)
Fixpoint written (seq : N) (ops : list op) : list entry :=
  match ops with
  | [] => []
  | OWrite b :: r => batch_entries (seq + 1) b ++ written (seq + nlen b) r
  | _ :: r => written seq r
  end.

Fixpoint total_writes (ops : list op) : N :=
  match ops with
  | [] => 0
  | OWrite b :: r => nlen b + total_writes r
  | _ :: r => total_writes r
  end.

(* sequences strictly increasing in list order *)
Definition seq_incr (l : list entry) : Prop := ForallOrdPairs (fun x y => es x < es y) l.

Lemma written_structural seq o r : structural o -> written seq (o :: r) = written seq r.
Proof. destruct o; cbn [structural written]; intros H; auto. contradiction. Qed.

Lemma total_writes_structural o r : structural o -> total_writes (o :: r) = total_writes r.
Proof. destruct o; cbn [structural total_writes]; intros H; auto. contradiction. Qed.

Lemma op_cases o : (exists b, o = OWrite b) \/ structural o.
Proof. destruct o; cbn [structural]; eauto. Qed.

Theorem written_range : forall ops seq e,
  In e (written seq ops) -> seq < es e <= seq + total_writes ops.
Proof.
  induction ops as [|o r IH]; intros seq e H.
  - destruct H.
  - destruct (op_cases o) as [(b & ->)|Hst].
    + cbn [written total_writes] in *. apply in_app_or in H. destruct H as [H|H].
      * apply batch_entries_seq in H. lia.
      * apply IH in H. lia.
    + rewrite written_structural in H by auto. rewrite total_writes_structural by auto. auto.
Qed.

Theorem written_incr : forall ops seq, seq_incr (written seq ops).
Proof.
  unfold seq_incr. induction ops as [|o r IH]; intros seq.
  - constructor.
  - destruct (op_cases o) as [(b & ->)|Hst].
    + cbn [written]. apply FOP_app. split; [apply batch_entries_FOP|]. split; [apply IH|].
      intros x y Hx Hy. apply batch_entries_seq in Hx. apply written_range in Hy. lia.
    + rewrite written_structural by auto. apply IH.
Qed.

Lemma filter_all {A} (f : A -> bool) (l : list A) : (forall x, In x l -> f x = true) -> filter f l = l.
Proof.
  induction l as [|a r IH]; intros H; cbn [filter]; auto.
  rewrite (H a (or_introl eq_refl)). f_equal. apply IH. intros x Hx. apply H. right; auto.
Qed.

Section Top.
Variable ucmp : bytes -> bytes -> comparison.

(* ------------------------------------------------------------ the ghost history *)
Lemma structural_same s o s' :
  structural o -> step ucmp s o = Some s' -> last_seq s' = last_seq s /\ hist s' = hist s.
Proof.
  intros Hst H. destruct o as [b| |lvl num nf|c|L n| |qr|bounds nums nf]; cbn [step] in H; cbn in Hst.
  - contradiction.
  - unfold do_switch in H. destruct (imm s); [discriminate|]. injection H as <-. auto.
  - destruct (flush_same ucmp _ _ _ _ _ H) as (E1 & _ & E3). auto.
  - destruct (compact_same ucmp _ _ _ H) as (E1 & _ & E3). auto.
  - destruct (move_same ucmp _ _ _ _ H) as (E1 & _ & E3). auto.
  - injection H as <-. auto.
  - unfold do_release in H. destruct (remove_first qr (snaps s)); [|discriminate]. injection H as <-. auto.
  - destruct (reopen_same ucmp _ _ _ _ _ H) as (E1 & _ & E3). auto.
Qed.

Theorem run_hist : forall ops s s',
  run ucmp s ops = Some s' ->
  hist s' = rev (written (last_seq s) ops) ++ hist s /\
  last_seq s' = last_seq s + total_writes ops.
Proof.
  induction ops as [|o r IH]; intros s s' H; cbn [run] in H.
  - injection H as <-. cbn [written total_writes rev app]. split; auto. lia.
  - destruct (step ucmp s o) as [s1|] eqn:E; [|discriminate].
    destruct (IH s1 s' H) as [IH1 IH2].
    destruct (op_cases o) as [(b & ->)|Hst].
    + cbn [step] in E. injection E as <-. unfold do_write in IH1, IH2. cbn [last_seq hist] in IH1, IH2.
      cbn [written total_writes]. rewrite rev_app_distr, <- app_assoc. split; auto. lia.
    + destruct (structural_same s o s1 Hst E) as [E1 E2].
      rewrite written_structural, total_writes_structural by auto.
      rewrite E1, E2 in *. auto.
Qed.

Corollary run_hist_init : forall ops s,
  run ucmp init_state ops = Some s ->
  hist s = rev (written 0 ops) /\ last_seq s = total_writes ops.
Proof.
  intros ops s H. destruct (run_hist ops init_state s H) as [H1 H2].
  cbn [init_state hist last_seq] in H1, H2. rewrite app_nil_r in H1. split; auto.
Qed.

Lemma step_last_seq_mono s o s' : step ucmp s o = Some s' -> last_seq s <= last_seq s'.
Proof.
  intros H. destruct (run_hist [o] s s') as [_ H2].
  - cbn [run]. rewrite H. reflexivity.
  - lia.
Qed.

(* ------------------------------------------------------------ sequential map semantics *)
Definition apply_entry (m : bytes -> option bytes) (e : entry) : bytes -> option bytes :=
  fun k => if ueq ucmp (ek e) k then (if et e then Some (ev e) else None) else m k.

Definition map_after (l : list entry) : bytes -> option bytes :=
  fold_left apply_entry l (fun _ => None).

Lemma map_after_snoc l e k : map_after (l ++ [e]) k = apply_entry (map_after l) e k.
Proof. unfold map_after. rewrite fold_left_app. reflexivity. Qed.

(* reading a history with increasing sequences at q = replaying the writes with
   sequence <= q in order *)
Theorem best_rev_map_after_upto : forall l k q,
  seq_incr l ->
  visible (result_of (best ucmp (rev l) k q)) = map_after (filter (fun e => es e <=? q) l) k.
Proof.
  unfold seq_incr. induction l as [|e l IH] using rev_ind; intros k q Hinc.
  - reflexivity.
  - apply FOP_app in Hinc. destruct Hinc as (Hl & _ & Hle).
    rewrite rev_unit, (EngineStepsBase.best_cons ucmp), filter_app. cbn [filter].
    unfold matches. destruct (es e <=? q) eqn:Eq.
    + rewrite andb_true_r, map_after_snoc. unfold apply_entry.
      destruct (ueq ucmp (ek e) k) eqn:Ek.
      * assert (En: newer e (best ucmp (rev l) k q) = Some e).
        { unfold newer. destruct (best ucmp (rev l) k q) as [a|] eqn:Eb; auto.
          apply (best_Some ucmp) in Eb. destruct Eb as (Ha & _). apply in_rev in Ha.
          assert (Hlt: es a < es e) by (apply Hle; [exact Ha|left; reflexivity]).
          replace (es a <? es e) with true by lia. reflexivity. }
        rewrite En. cbn [result_of]. unfold result_of_entry. destruct (et e); reflexivity.
      * apply IH. exact Hl.
    + rewrite andb_false_r, app_nil_r. apply IH. exact Hl.
Qed.

Corollary best_rev_map_after : forall l k q,
  seq_incr l -> (forall e, In e l -> es e <= q) ->
  visible (result_of (best ucmp (rev l) k q)) = map_after l k.
Proof.
  intros l k q Hinc Hq. rewrite best_rev_map_after_upto by auto.
  rewrite filter_all; auto. intros x Hx. specialize (Hq x Hx). lia.
Qed.

(* the specification of a read at sequence q is the map after the writes up to q *)
Theorem spec_at_seq : forall ops s k q,
  run ucmp init_state ops = Some s ->
  spec_get ucmp s k q = map_after (filter (fun e => es e <=? q) (written 0 ops)) k.
Proof.
  intros ops s k q H. destruct (run_hist_init ops s H) as [Hh _].
  unfold spec_get. rewrite Hh. apply best_rev_map_after_upto. apply written_incr.
Qed.

Theorem spec_is_last_write : forall ops s k q,
  run ucmp init_state ops = Some s -> last_seq s <= q ->
  spec_get ucmp s k q = map_after (written 0 ops) k.
Proof.
  intros ops s k q H Hq. destruct (run_hist_init ops s H) as [Hh Hl].
  unfold spec_get. rewrite Hh. apply best_rev_map_after. apply written_incr.
  intros e He. apply written_range in He. lia.
Qed.

(* ================================================================== B. C01 *)
Hypothesis TO : total_order ucmp.

Lemma readable_last s : inv_b ucmp s = true -> readable s (last_seq s).
Proof.
  intros HI. apply (inv_b_SInv ucmp) in HI. unfold readable, smallest_snapshot.
  destruct (snaps s) as [|a r] eqn:E. lia.
  apply (si_snap _ _ HI). rewrite E. left; reflexivity.
Qed.

Lemma readable_snapshot s q : inv_b ucmp s = true -> In q (snaps s) -> readable s q.
Proof.
  intros HI Hq. apply (inv_b_SInv ucmp) in HI. unfold readable, smallest_snapshot.
  pose proof (si_snsort _ _ HI) as Hs.
  destruct (snaps s) as [|a r]. destruct Hq.
  apply sorted_le_cons_inv in Hs. destruct Hs as [_ Hs].
  destruct Hq as [<-|Hq]. lia. apply Hs; auto.
Qed.

(* the engine agrees with the history at every readable sequence *)
Theorem get_spec : forall ops s,
  run ucmp init_state ops = Some s ->
  forall k q, readable s q -> visible (get ucmp s k q) = spec_get ucmp s k q.
Proof.
  intros ops s H k q Hq. destruct (run_hist_ok ucmp TO ops s H) as [HI HO].
  rewrite (get_view ucmp TO s k q HI). apply HO. exact Hq.
Qed.

Theorem get_at_any_state : forall ops s,
  run ucmp init_state ops = Some s ->
  forall k, visible (get ucmp s k (last_seq s)) = spec_get ucmp s k (last_seq s).
Proof.
  intros ops s H k. apply (get_spec ops s H). apply readable_last.
  apply (run_hist_ok ucmp TO ops s H).
Qed.

Theorem get_latest : forall ops s,
  run ucmp init_state ops = Some s ->
  forall k, visible (get ucmp s k (last_seq s)) = map_after (written 0 ops) k.
Proof.
  intros ops s H k. rewrite (get_at_any_state ops s H). apply spec_is_last_write; auto. lia.
Qed.

(* a read at any readable sequence q sees the writes up to q *)
Theorem get_at_seq : forall ops s,
  run ucmp init_state ops = Some s ->
  forall k q, readable s q ->
  visible (get ucmp s k q) = map_after (filter (fun e => es e <=? q) (written 0 ops)) k.
Proof.
  intros ops s H k q Hq. rewrite (get_spec ops s H k q Hq). apply spec_at_seq; auto.
Qed.

(* ================================================================== C. C06 *)
(* the snapshot sequence q stays registered along the whole run of ops from s
   (snaps is a multiset: one ORelease q removes one occurrence; OReopen drops all) *)
Definition held (q : N) (s : state) (ops : list op) : Prop :=
  forall pre post s', ops = pre ++ post -> run ucmp s pre = Some s' -> In q (snaps s').

Lemma held_now q s ops : held q s ops -> In q (snaps s).
Proof. intros H. apply (H [] ops s); reflexivity. Qed.

Lemma held_step q s o r s1 : held q s (o :: r) -> step ucmp s o = Some s1 -> held q s1 r.
Proof.
  intros H E pre post s' Hr Hrun. apply (H (o :: pre) post s').
  - rewrite Hr. reflexivity.
  - cbn [run]. rewrite E. exact Hrun.
Qed.

Theorem frozen_view : forall ops s s' q,
  Inv2 ucmp s -> q <= last_seq s -> run ucmp s ops = Some s' -> held q s ops ->
  forall k, view ucmp s' k q = view ucmp s k q.
Proof.
  induction ops as [|o r IH]; intros s s' q HI Hq H Hh k; cbn [run] in H.
  - injection H as <-. reflexivity.
  - destruct (step ucmp s o) as [s1|] eqn:E; [|discriminate].
    pose proof (held_now _ _ _ Hh) as Hin.
    pose proof HI as (HIb & _ & _).
    pose proof (readable_snapshot s q HIb Hin) as Hrd.
    assert (E1: view ucmp s1 k q = view ucmp s k q).
    { destruct (op_cases o) as [(b & ->)|Hst].
      - cbn [step] in E. injection E as <-. apply (write_preserves_old_views ucmp TO); auto.
      - apply (step_preserves_views ucmp TO s o s1 HI E Hst k q Hrd). }
    rewrite <- E1. apply IH; auto.
    + eapply (step_preserves_Inv2 ucmp TO); eauto.
    + pose proof (step_last_seq_mono s o s1 E). lia.
    + eapply held_step; eauto.
Qed.

Lemma reachable_Inv2 ops s : run ucmp init_state ops = Some s -> Inv2 ucmp s.
Proof. intros H. eapply (run_preserves_Inv2 ucmp TO); [apply init_Inv2|exact H]. Qed.

Lemma snapshot_Inv2 s : Inv2 ucmp s -> Inv2 ucmp (do_snapshot s).
Proof. intros H. apply (step_preserves_Inv2 ucmp TO s OSnapshot); auto. Qed.

Theorem snapshot_frozen : forall ops1 s1 ops2 s2,
  run ucmp init_state ops1 = Some s1 ->
  run ucmp (do_snapshot s1) ops2 = Some s2 ->
  held (last_seq s1) (do_snapshot s1) ops2 ->
  forall k, visible (get ucmp s2 k (last_seq s1)) = visible (get ucmp s1 k (last_seq s1)).
Proof.
  intros ops1 s1 ops2 s2 H1 H2 Hh k.
  pose proof (reachable_Inv2 ops1 s1 H1) as HI1.
  pose proof (snapshot_Inv2 s1 HI1) as HI1'.
  pose proof (run_preserves_Inv2 ucmp TO ops2 _ s2 HI1' H2) as HI2.
  rewrite (get_view ucmp TO s2) by apply HI2.
  rewrite (get_view ucmp TO s1) by apply HI1.
  change (view ucmp s1 k (last_seq s1)) with (view ucmp (do_snapshot s1) k (last_seq s1)).
  apply (frozen_view ops2 (do_snapshot s1) s2); auto. cbn [do_snapshot last_seq]. lia.
Qed.

(* the same in terms of the write history: the snapshot shows the writes before it *)
Theorem snapshot_shows_history : forall ops1 s1 ops2 s2,
  run ucmp init_state ops1 = Some s1 ->
  run ucmp (do_snapshot s1) ops2 = Some s2 ->
  held (last_seq s1) (do_snapshot s1) ops2 ->
  forall k, visible (get ucmp s2 k (last_seq s1)) = map_after (written 0 ops1) k.
Proof.
  intros ops1 s1 ops2 s2 H1 H2 Hh k.
  rewrite (snapshot_frozen ops1 s1 ops2 s2 H1 H2 Hh k). apply get_latest; auto.
Qed.

(* ------------------------------------------------------------ a syntactic criterion for held *)
Fixpoint cnt (q : N) (l : list N) : nat :=
  match l with
  | [] => O
  | x :: r => ((if (x =? q)%N then 1 else 0) + cnt q r)%nat
  end.

Fixpoint releases (q : N) (ops : list op) : nat :=
  match ops with
  | [] => O
  | ORelease x :: r => ((if (x =? q)%N then 1 else 0) + releases q r)%nat
  | _ :: r => releases q r
  end.

Definition not_reopen (o : op) : bool := match o with OReopen _ _ _ => false | _ => true end.
Definition no_reopen (ops : list op) : bool := forallb not_reopen ops.

Lemma cnt_In q l : (0 < cnt q l)%nat -> In q l.
Proof.
  induction l as [|x r IH]; cbn [cnt]; intros H. lia.
  destruct (x =? q) eqn:E. left; lia. right. apply IH. lia.
Qed.

Lemma cnt_app q a b : cnt q (a ++ b) = (cnt q a + cnt q b)%nat.
Proof. induction a as [|x r IH]; cbn [app cnt]; auto. rewrite IH. lia. Qed.

Lemma cnt_remove_first q x : forall l l',
  remove_first x l = Some l' -> cnt q l = ((if (x =? q)%N then 1 else 0) + cnt q l')%nat.
Proof.
  induction l as [|y r IH]; intros l' H; cbn [remove_first] in H. discriminate.
  destruct (y =? x) eqn:E.
  - injection H as <-. cbn [cnt]. replace y with x by lia. reflexivity.
  - destruct (remove_first x r) as [r'|] eqn:Er; [|discriminate]. injection H as <-.
    cbn [cnt]. rewrite (IH r' eq_refl). lia.
Qed.

Lemma releases_app q a b : releases q (a ++ b) = (releases q a + releases q b)%nat.
Proof.
  induction a as [|o r IH]; cbn [app]; auto.
  destruct o; cbn [releases]; rewrite IH; lia.
Qed.

Lemma step_cnt q s o s' :
  step ucmp s o = Some s' -> not_reopen o = true ->
  (cnt q (snaps s) <= cnt q (snaps s') + releases q [o])%nat.
Proof.
  intros H Hn. destruct o as [b| |lvl num nf|c|L n| |qr|bounds nums nf]; cbn [step] in H;
    cbn [releases]; cbn [not_reopen] in Hn.
  - injection H as <-. cbn [do_write snaps]. lia.
  - unfold do_switch in H. destruct (imm s); [discriminate|]. injection H as <-. cbn [snaps]. lia.
  - destruct (flush_same ucmp _ _ _ _ _ H) as (_ & E2 & _). rewrite E2. lia.
  - destruct (compact_same ucmp _ _ _ H) as (_ & E2 & _). rewrite E2. lia.
  - destruct (move_same ucmp _ _ _ _ H) as (_ & E2 & _). rewrite E2. lia.
  - injection H as <-. cbn [do_snapshot snaps]. rewrite cnt_app. lia.
  - unfold do_release in H. destruct (remove_first qr (snaps s)) as [sn|] eqn:Er; [|discriminate].
    injection H as <-. cbn [snaps]. rewrite (cnt_remove_first q qr _ _ Er). lia.
  - discriminate.
Qed.

Lemma run_cnt q : forall ops s s',
  run ucmp s ops = Some s' -> no_reopen ops = true ->
  (cnt q (snaps s) <= cnt q (snaps s') + releases q ops)%nat.
Proof.
  induction ops as [|o r IH]; intros s s' H Hn; cbn [run] in H.
  - injection H as <-. cbn [releases]. lia.
  - destruct (step ucmp s o) as [s1|] eqn:E; [|discriminate].
    unfold no_reopen in Hn. cbn [forallb] in Hn. apply andb_true_iff in Hn. destruct Hn as [Hn1 Hn2].
    pose proof (step_cnt q s o s1 E Hn1) as H1.
    pose proof (IH s1 s' H Hn2) as H2.
    change (o :: r) with ([o] ++ r). rewrite releases_app. lia.
Qed.

(* no reopen, and fewer releases of q than there are handles at q *)
Theorem held_by_count q s ops :
  no_reopen ops = true -> (releases q ops < cnt q (snaps s))%nat -> held q s ops.
Proof.
  intros Hn Hc pre post s' -> Hrun.
  unfold no_reopen in Hn. rewrite forallb_app in Hn. apply andb_true_iff in Hn. destruct Hn as [Hn _].
  pose proof (run_cnt q pre s s' Hrun Hn) as H. rewrite releases_app in Hc.
  apply cnt_In. lia.
Qed.

Theorem snapshot_frozen_count : forall ops1 s1 ops2 s2,
  run ucmp init_state ops1 = Some s1 ->
  run ucmp (do_snapshot s1) ops2 = Some s2 ->
  no_reopen ops2 = true ->
  (releases (last_seq s1) ops2 <= cnt (last_seq s1) (snaps s1))%nat ->
  forall k, visible (get ucmp s2 k (last_seq s1)) = visible (get ucmp s1 k (last_seq s1)) /\
            visible (get ucmp s2 k (last_seq s1)) = map_after (written 0 ops1) k.
Proof.
  intros ops1 s1 ops2 s2 H1 H2 Hn Hc k.
  assert (Hh: held (last_seq s1) (do_snapshot s1) ops2).
  { apply held_by_count; auto. cbn [do_snapshot snaps]. rewrite cnt_app. cbn [cnt].
    rewrite N.eqb_refl. lia. }
  split.
  - apply (snapshot_frozen ops1 s1 ops2 s2); auto.
  - apply (snapshot_shows_history ops1 s1 ops2 s2); auto.
Qed.

(* taking or releasing OTHER snapshots (and any writes, flushes, compactions) does not
   change what the snapshot observes *)
Corollary other_snapshots_irrelevant : forall ops1 s1 ops2 s2,
  run ucmp init_state ops1 = Some s1 ->
  run ucmp (do_snapshot s1) ops2 = Some s2 ->
  no_reopen ops2 = true -> releases (last_seq s1) ops2 = O ->
  forall k, visible (get ucmp s2 k (last_seq s1)) = visible (get ucmp s1 k (last_seq s1)).
Proof.
  intros ops1 s1 ops2 s2 H1 H2 Hn Hc k.
  apply (snapshot_frozen_count ops1 s1 ops2 s2); auto. lia.
Qed.

(* ================================================================== D. C14 *)
Theorem inv_reachable : forall ops s, run ucmp init_state ops = Some s -> inv_b ucmp s = true.
Proof. intros ops s H. apply (run_hist_ok ucmp TO ops s H). Qed.

Notation isorted := (StronglySorted (fun a b => ilt ucmp a b = true)).

Theorem layout_wellformed : forall s, inv_b ucmp s = true ->
  (* seven levels; memtables and files strictly sorted by internal key, files non-empty *)
  length (levels s) = 7%nat /\
  isorted (mem s) /\ isorted (imm_run s) /\
  (forall i f, In f (level_files (levels s) i) -> fents f <> [] /\ isorted (fents f)) /\
  (* levels >= 1: files sorted and pairwise disjoint *)
  (forall i, (1 <= i)%nat ->
     StronglySorted (fun f g => forall x y, In x (fents f) -> In y (fents g) -> ilt ucmp x y = true)
                    (level_files (levels s) i)) /\
  (* recency: for one user key, shallower places / newer level-0 files hold newer entries *)
  (forall o m, ueq ucmp (ek o) (ek m) = true -> In o (mem s) -> In m (imm_run s) -> es m < es o) /\
  (forall o m i f, ueq ucmp (ek o) (ek m) = true -> In o (mem s) \/ In o (imm_run s) ->
     In f (level_files (levels s) i) -> In m (fents f) -> es m < es o) /\
  (forall o m f g, ueq ucmp (ek o) (ek m) = true ->
     In f (level_files (levels s) 0) -> In g (level_files (levels s) 0) -> fnum g < fnum f ->
     In o (fents f) -> In m (fents g) -> es m < es o) /\
  (forall o m i j f g, ueq ucmp (ek o) (ek m) = true -> (i < j)%nat ->
     In f (level_files (levels s) i) -> In g (level_files (levels s) j) ->
     In o (fents f) -> In m (fents g) -> es m < es o) /\
  (* sequences, file numbers, snapshots *)
  (forall e, In e (all_entries s) -> es e <= last_seq s) /\
  (forall f, In f (concat (levels s)) -> fnum f < next_file s) /\
  NoDup (map fnum (concat (levels s))) /\
  (forall q, In q (snaps s) -> q <= last_seq s) /\ sorted_le (snaps s) = true.
Proof.
  intros s HI. apply (inv_b_SInv ucmp) in HI.
  assert (Hfile: forall i f m, In f (level_files (levels s) i) -> In m (fents f) ->
            at_place s (match i with O => PF0 (fnum f) | S _ => PLv i end) m).
  { intros i f m Hf Hm. destruct i as [|i]; cbn [at_place]; eauto. split. lia. eauto. }
  split. apply (si_len _ _ HI).
  split. apply (si_mem _ _ HI).
  split. apply (si_imm _ _ HI).
  split. apply (si_fok _ _ HI).
  split. apply (si_lsort _ _ HI).
  split.
  { intros o m Hk Ho Hm. apply (si_rec _ _ HI PMem PImm o m); cbn; auto. }
  split.
  { intros o m i f Hk Ho Hf Hm. pose proof (Hfile i f m Hf Hm) as Hp.
    destruct Ho as [Ho|Ho].
    - eapply (si_rec _ _ HI PMem); [|exact Ho|exact Hp|exact Hk]. destruct i; exact I.
    - eapply (si_rec _ _ HI PImm); [|exact Ho|exact Hp|exact Hk]. destruct i; exact I. }
  split.
  { intros o m f g Hk Hf Hg Hn Ho Hm.
    apply (si_rec _ _ HI (PF0 (fnum f)) (PF0 (fnum g)) o m); cbn; eauto. }
  split.
  { intros o m i j f g Hk Hij Hf Hg Ho Hm.
    pose proof (Hfile i f o Hf Ho) as Hp. pose proof (Hfile j g m Hg Hm) as Hp'.
    eapply (si_rec _ _ HI); [|exact Hp|exact Hp'|exact Hk].
    destruct i as [|i], j as [|j]; cbn [place_lt]; auto; lia. }
  split. apply (si_seq _ _ HI).
  split.
  { intros f Hf. apply In_concat_levels in Hf. destruct Hf as (i & Hf). apply (si_num _ _ HI i f Hf). }
  split. apply NoDup_concat_ND. apply (si_nd _ _ HI).
  split. apply (si_snap _ _ HI). apply (si_snsort _ _ HI).
Qed.

(* close + reopen with nothing to replay into tables (bounds = nums = []: the log is
   reused, or the write buffer was empty) keeps the layout *)
Lemma set_level_same0 (lv : list (list file)) : set_level lv 0 (level_files lv 0) = lv.
Proof. destruct lv; reflexivity. Qed.

Theorem reopen_same_layout : forall s nf s',
  do_reopen ucmp s [] [] nf = Some s' ->
  levels s' = levels s /\ imm s' = None /\ last_seq s' = last_seq s /\
  (mem s = [] -> imm s = None -> mem s' = []).
Proof.
  intros s nf s' H. apply (reopen_inv ucmp) in H.
  destruct H as (fs & top & ER & _ & _ & _ & ->).
  cbn [reopen_files] in ER. injection ER as <- <-.
  unfold reopen_state. cbn [levels imm last_seq mem filter]. unfold add_files. cbn [fold_left].
  split. apply set_level_same0. split; auto. split; auto.
  intros Hm Him. unfold pending_entries. rewrite Him, Hm. reflexivity.
Qed.

Theorem reopen_same_layout_exists : forall s nf,
  (forall f, In f (concat (levels s)) -> fnum f < nf) ->
  exists s', do_reopen ucmp s [] [] nf = Some s' /\ levels s' = levels s.
Proof.
  intros s nf Hnf.
  assert (G: forallb (fun f => fnum f <? nf) (concat (levels s)) = true).
  { apply forallb_forall. intros f Hf. specialize (Hnf f Hf). lia. }
  unfold do_reopen. cbn [forallb strictly_increasing andb reopen_files]. rewrite G. cbn [andb filter].
  eexists. split. reflexivity. cbn [levels]. unfold add_files. cbn [fold_left]. apply set_level_same0.
Qed.

(* ================================================================== E. C13 (allocator) *)
Theorem numbers_fresh : forall ops s,
  run ucmp init_state ops = Some s ->
  (forall f, In f (concat (levels s)) -> fnum f < next_file s) /\
  NoDup (map fnum (concat (levels s))).
Proof.
  intros ops s H. pose proof (layout_wellformed s (inv_reachable ops s H)) as HL.
  decompose [and] HL. auto.
Qed.

(* the counter never goes back while the database is open (a reopen restarts it from the
   MANIFEST, possibly lower: see next_file_monotone_statement below) *)
Theorem next_file_monotone : forall s o s',
  step ucmp s o = Some s' -> not_reopen o = true -> next_file s <= next_file s'.
Proof.
  intros s o s' H Hn. destruct o as [b| |lvl num nf|c|L n| |qr|bounds nums nf]; cbn [step] in H.
  - injection H as <-. cbn [do_write next_file]. lia.
  - unfold do_switch in H. destruct (imm s); [discriminate|]. injection H as <-. cbn [next_file]. lia.
  - apply (flush_inv ucmp) in H. destruct H as (im & _ & G1 & G2 & _ & _ & ->). cbn [next_file]. lia.
  - apply (compact_state ucmp) in H. destruct H as (HG & outs & _ & ->).
    pose proof (g_nf _ _ _ (guard_spec ucmp s c HG)). cbn [edit_state next_file]. lia.
  - apply (move_state ucmp) in H. destruct H as (_ & ->). cbn [edit_state next_file]. lia.
  - injection H as <-. cbn [do_snapshot next_file]. lia.
  - unfold do_release in H. destruct (remove_first qr (snaps s)); [|discriminate].
    injection H as <-. cbn [next_file]. lia.
  - discriminate.
Qed.

Lemma move_guard_level s L n : move_guard ucmp s L n = true -> (S L < NUM_LEVELS)%nat.
Proof.
  intros HG. unfold move_guard in HG. cbn zeta in HG.
  repeat (apply andb_true_iff in HG; let H' := fresh "G" in destruct HG as [HG H']).
  clear - HG. lia.
Qed.

(* while open: a file of the new version is a file of the old version or carries a number
   the allocator had not handed out *)
Theorem created_numbers_alloc : forall s o s',
  inv_b ucmp s = true -> step ucmp s o = Some s' -> not_reopen o = true ->
  forall f, In f (concat (levels s')) ->
  In f (concat (levels s)) \/ next_file s <= fnum f < next_file s'.
Proof.
  intros s o s' HI H Hnr f Hf. apply (inv_b_SInv ucmp) in HI.
  pose proof (si_len _ _ HI) as Hlen. unfold NUM_LEVELS in Hlen.
  destruct o as [b| |lvl num nf|c|L n| |qr|bounds nums nf]; cbn [step] in H.
  - injection H as <-. left. exact Hf.
  - unfold do_switch in H. destruct (imm s); [discriminate|]. injection H as <-. left. exact Hf.
  - apply (flush_inv ucmp) in H. destruct H as (im & _ & G1 & G2 & _ & G4 & ->).
    cbn [levels next_file] in *. apply In_concat_levels in Hf. destruct Hf as (i & Hf).
    apply (flush_files ucmp) in Hf; [|lia]. destruct Hf as [Hf|(_ & _ & ->)].
    + left. apply In_concat_levels. eauto.
    + right. cbn [fnum]. lia.
  - apply (compact_state ucmp) in H. destruct H as (HG & outs & Hz & ->).
    pose proof (guard_spec ucmp s c HG) as G.
    apply In_concat_levels in Hf. destruct Hf as (i & Hf).
    apply (edit_file_cases ucmp s (c_level c) (c_in0 c) (c_in1 c) outs (c_nf c) HI (g_lvl _ _ _ G)) in Hf.
    destruct Hf as [(Hf & _)|(_ & Hf)].
    + left. apply In_concat_levels. eauto.
    + right. cbn [edit_state next_file]. apply (g_fresh _ _ _ G). eapply (outs_nums ucmp); eauto.
  - apply (move_state ucmp) in H. destruct H as (HG & ->).
    apply In_concat_levels in Hf. destruct Hf as (i & Hf).
    apply (edit_file_cases ucmp s L [n] [] _ (next_file s) HI (move_guard_level s L n HG)) in Hf.
    left. apply In_concat_levels. destruct Hf as [(Hf & _)|(_ & Hf)]; eauto.
    apply select_In in Hf. destruct Hf as [Hf _]. eauto.
  - injection H as <-. left. exact Hf.
  - unfold do_release in H. destruct (remove_first qr (snaps s)); [|discriminate].
    injection H as <-. left. exact Hf.
  - discriminate.
Qed.

(* every step, reopen included: a created file is numbered above every file that was
   live before the step (so never takes the number of a live file), below the new counter *)
Theorem created_numbers_fresh : forall s o s',
  inv_b ucmp s = true -> step ucmp s o = Some s' ->
  forall f, In f (concat (levels s')) ->
  In f (concat (levels s)) \/
  ((forall g, In g (concat (levels s)) -> fnum g < fnum f) /\ fnum f < next_file s').
Proof.
  intros s o s' HI H f Hf.
  destruct (not_reopen o) eqn:Hnr.
  - destruct (created_numbers_alloc s o s' HI H Hnr f Hf) as [Hc|Hc]; auto.
    right. split; [|lia]. intros g Hg.
    pose proof (layout_wellformed s HI) as HL. decompose [and] HL.
    match goal with Hnum : forall f, In f (concat (levels s)) -> fnum f < next_file s |- _ =>
      pose proof (Hnum g Hg) end. lia.
  - destruct o as [b| |lvl num nf|c|L n| |qr|bounds nums nf]; try discriminate. cbn [step] in H.
    apply (inv_b_SInv ucmp) in HI.
    pose proof (si_len _ _ HI) as Hlen. unfold NUM_LEVELS in Hlen.
    apply (reopen_inv ucmp) in H. destruct H as (fs & top & ER & Hn & _ & Hnf & ->).
    apply In_concat_levels in Hf. destruct Hf as (i & Hf).
    apply (reopen_level_files ucmp) in Hf; [|lia]. destruct Hf as [(_ & Hf & _)|Hf].
    + right. cbn [reopen_state next_file].
      assert (Hin: In (fnum f) nums).
      { destruct (reopen_files_spec _ _ _ _ _ _ ER) as (I1 & _). rewrite <- I1. apply in_map; auto. }
      destruct (Hn _ Hin) as [Hlt Hab]. split; auto.
      intros g Hg. apply In_concat_levels in Hg. destruct Hg as (j & Hg). eapply Hab; eauto.
    + left. apply In_concat_levels. eauto.
Qed.

Corollary created_numbers_not_live : forall s o s',
  inv_b ucmp s = true -> step ucmp s o = Some s' ->
  forall f, In f (concat (levels s')) -> ~ In f (concat (levels s)) ->
  forall g, In g (concat (levels s)) -> fnum g <> fnum f.
Proof.
  intros s o s' HI H f Hf Hnew g Hg.
  destruct (created_numbers_fresh s o s' HI H f Hf) as [Hc|[Hc _]]; [contradiction|].
  specialize (Hc g Hg). lia.
Qed.

(* along a whole run without reopen *)
Theorem run_created_numbers_fresh : forall ops s s',
  inv_b ucmp s = true -> run ucmp s ops = Some s' -> no_reopen ops = true ->
  next_file s <= next_file s' /\
  forall f, In f (concat (levels s')) -> In f (concat (levels s)) \/ next_file s <= fnum f < next_file s'.
Proof.
  induction ops as [|o r IH]; intros s s' HI H Hn; cbn [run] in H.
  - injection H as <-. split. lia. auto.
  - destruct (step ucmp s o) as [s1|] eqn:E; [|discriminate].
    unfold no_reopen in Hn. cbn [forallb] in Hn. apply andb_true_iff in Hn. destruct Hn as [Hn1 Hn2].
    pose proof (step_preserves_inv ucmp TO s o s1 HI E) as HI1.
    destruct (IH s1 s' HI1 H Hn2) as [M1 F1].
    pose proof (next_file_monotone s o s1 E Hn1) as M0.
    split. lia. intros f Hf. destruct (F1 f Hf) as [Hc|Hc].
    + destruct (created_numbers_alloc s o s1 HI E Hn1 f Hc) as [Hd|Hd]; auto. right. lia.
    + right. lia.
Qed.

End Top.

(* the C13 statements as originally requested; both are FALSE for OReopen since the model's
   reopen restarts the counter from the MANIFEST value (any nf above the live table numbers) *)
Definition next_file_monotone_statement : Prop :=
  forall ucmp s o s', step ucmp s o = Some s' -> next_file s <= next_file s'.
Definition created_numbers_fresh_statement : Prop :=
  forall ucmp s o s', inv_b ucmp s = true -> step ucmp s o = Some s' ->
  forall f, In f (concat (levels s')) -> ~ In f (concat (levels s)) -> next_file s <= fnum f.

Example next_file_monotone_statement_false : ~ next_file_monotone_statement.
Proof.
  intros H. specialize (H bytes_compare init_state (OReopen [] [] 0) _ eq_refl).
  vm_compute in H. apply H. reflexivity.
Qed.

Example created_numbers_fresh_statement_false : ~ created_numbers_fresh_statement.
Proof.
  intros H.
  pose (s := do_write bytes_compare init_state [WPut [97] [1]]).
  specialize (H bytes_compare s (OReopen [1] [0] 1) _ eq_refl eq_refl (mkF 0 [mkE [97] 1 true [1]])).
  vm_compute in H. apply H; auto.
Qed.

(* ================================================================== F. non-vacuity *)
Module Example.
Definition ka : bytes := [97].
Definition kb : bytes := [98].
Definition kc : bytes := [99].
Definition kd : bytes := [100].

(* before the snapshot *)
Definition ops1 : list op := [ OWrite [WPut ka [1]; WPut kb [2]] ].                (* seq 1 2 *)
(* while the snapshot (sequence 2) is held *)
Definition ops2 : list op :=
  [ OWrite [WDel ka; WPut kc [3]];                                                  (* seq 3 4 *)
    OSwitch; OFlush 2 2 3;                            (* imm -> table 2 at level 2 *)
    OSnapshot;                                        (* another snapshot, at 4 *)
    OWrite [WDel kb; WPut kd [6]];                                                  (* seq 5 6 *)
    OSwitch; OFlush 0 3 4;                            (* imm -> table 3 at level 0 *)
    OCompact (mkC 0 [3] [] [] [4] 5);                 (* level 0 -> 1, tombstone of kb kept *)
    ORelease 4 ].                                     (* the OTHER snapshot goes away *)
(* afterwards *)
Definition ops3 : list op :=
  [ ORelease 2;
    OWrite [WPut kb [7]];                                                           (* seq 7 *)
    OReopen [7] [5] 6 ].                              (* replayed log -> table 5 at level 0 *)

Definition all_ops : list op := ops1 ++ OSnapshot :: ops2 ++ ops3.

Definition s1 : state :=
  mkS [mkE ka 1 true [1]; mkE kb 2 true [2]] None (repeat [] 7) 2 [] 2
      [mkE kb 2 true [2]; mkE ka 1 true [1]].

Definition s2 : state :=
  mkS [] None
      [ []; [mkF 4 [mkE kb 5 false []; mkE kd 6 true [6]]];
        [mkF 2 [mkE ka 3 false []; mkE ka 1 true [1]; mkE kb 2 true [2]; mkE kc 4 true [3]]];
        []; []; []; [] ]
      6 [2] 5
      [mkE kd 6 true [6]; mkE kb 5 false []; mkE kc 4 true [3]; mkE ka 3 false [];
       mkE kb 2 true [2]; mkE ka 1 true [1]].

Definition s3 : state :=
  mkS [] None
      [ [mkF 5 [mkE kb 7 true [7]]]; [mkF 4 [mkE kb 5 false []; mkE kd 6 true [6]]];
        [mkF 2 [mkE ka 3 false []; mkE ka 1 true [1]; mkE kb 2 true [2]; mkE kc 4 true [3]]];
        []; []; []; [] ]
      7 [] 6
      [mkE kb 7 true [7]; mkE kd 6 true [6]; mkE kb 5 false []; mkE kc 4 true [3];
       mkE ka 3 false []; mkE kb 2 true [2]; mkE ka 1 true [1]].

Example run1 : run bytes_compare init_state ops1 = Some s1.
Proof. vm_compute. reflexivity. Qed.
Example run2 : run bytes_compare (do_snapshot s1) ops2 = Some s2.
Proof. vm_compute. reflexivity. Qed.
Example run_all : run bytes_compare init_state all_ops = Some s3.
Proof. vm_compute. reflexivity. Qed.

Example written_all :
  written 0 all_ops =
  [mkE ka 1 true [1]; mkE kb 2 true [2]; mkE ka 3 false []; mkE kc 4 true [3];
   mkE kb 5 false []; mkE kd 6 true [6]; mkE kb 7 true [7]].
Proof. vm_compute. reflexivity. Qed.

(* C01 on the run: the final lookups are the last writes *)
Example c01_instance : forall k,
  visible (get bytes_compare s3 k 7) = map_after bytes_compare (written 0 all_ops) k.
Proof. exact (get_latest bytes_compare bytes_compare_total all_ops s3 run_all). Qed.

Example c01_values :
  map (fun k => visible (get bytes_compare s3 k 7)) [ka; kb; kc; kd; [101]]
  = [None; Some [7]; Some [3]; Some [6]; None].
Proof. vm_compute. reflexivity. Qed.

(* C06 on the run: the snapshot at sequence 2 is held throughout ops2 ... *)
Example c06_held : held bytes_compare 2 (do_snapshot s1) ops2.
Proof. apply held_by_count; vm_compute; [reflexivity|lia]. Qed.

Example c06_instance : forall k,
  visible (get bytes_compare s2 k 2) = visible (get bytes_compare s1 k 2) /\
  visible (get bytes_compare s2 k 2) = map_after bytes_compare (written 0 ops1) k.
Proof.
  intros k. split.
  - exact (snapshot_frozen bytes_compare bytes_compare_total ops1 s1 ops2 s2 run1 run2 c06_held k).
  - exact (snapshot_shows_history bytes_compare bytes_compare_total ops1 s1 ops2 s2 run1 run2 c06_held k).
Qed.

(* ... it still sees the deleted keys, while the latest view does not *)
Example c06_values :
  map (fun k => visible (get bytes_compare s2 k 2)) [ka; kb; kc; kd] = [Some [1]; Some [2]; None; None] /\
  map (fun k => visible (get bytes_compare s2 k 6)) [ka; kb; kc; kd] = [None; None; Some [3]; Some [6]].
Proof. vm_compute. split; reflexivity. Qed.

(* the hypothesis [held] cannot be dropped: once released, a compaction may drop what
   only the snapshot could see *)
Definition rel_ops : list op :=
  [ OWrite [WPut ka [2]]; ORelease 1; OSwitch; OFlush 0 2 3; OCompact (mkC 0 [2] [] [] [3] 4) ].
Example released_snapshot_not_frozen :
  exists t1 t2,
    run bytes_compare init_state [OWrite [WPut ka [1]]] = Some t1 /\
    run bytes_compare (do_snapshot t1) rel_ops = Some t2 /\
    visible (get bytes_compare t1 ka 1) = Some [1] /\
    visible (get bytes_compare t2 ka 1) = None.
Proof. do 2 eexists. split. reflexivity. split. vm_compute. reflexivity. split; reflexivity. Qed.

(* C14 / C13 on the run *)
Example c14_instance : inv_b bytes_compare s3 = true.
Proof. exact (inv_reachable bytes_compare bytes_compare_total all_ops s3 run_all). Qed.

Example c14_reopen_instance :
  exists s', do_reopen bytes_compare s3 [] [] 6 = Some s' /\ levels s' = levels s3.
Proof.
  apply reopen_same_layout_exists. intros f Hf. vm_compute in Hf.
  destruct Hf as [<-|[<-|[<-|[]]]]; vm_compute; reflexivity.
Qed.

Example c13_instance :
  map fnum (concat (levels s3)) = [5; 4; 2] /\ next_file s3 = 6.
Proof. split; reflexivity. Qed.
End Example.

Print Assumptions run_hist.
Print Assumptions spec_is_last_write.
Print Assumptions get_latest.
Print Assumptions snapshot_frozen.
Print Assumptions snapshot_frozen_count.
Print Assumptions layout_wellformed.
Print Assumptions created_numbers_alloc.
Print Assumptions created_numbers_fresh.
Print Assumptions run_created_numbers_fresh.
