(* PolicyBoundary.v -- what get_range, find_smallest_boundary_file and
   add_boundary_inputs (Policy.v) compute:
   - on a sorted level (levels >= 1) the boundary closure of a convex, non-empty
     selection is convex and leaves no file behind that starts with the user key the
     selection ends with ([Closed]);
   - on level 0, applied to an overlap-closed selection, it adds nothing. *)
From LCDB Require Import Base Engine EngineSpec EngineStepsBase EngineStepsInv EngineStepsFlush Policy PolicyBase.
From Coq Require Import Sorting.Sorted.
Require Import Lia ZifyBool ZifyNat ZifyN.
Local Open Scope N_scope.

Section PBd.
Variable ucmp : bytes -> bytes -> comparison.
Context {TO : total_order ucmp}.

Notation ueq := (Engine.ueq ucmp).
Notation ult := (Engine.ult ucmp).
Notation ilt := (Engine.ilt ucmp).
Notation Srt := (EngineStepsBase.Srt ucmp).
Notation NO := (EngineStepsBase.NO ucmp).
Notation FOK := (EngineStepsInv.FOK ucmp).
Notation FB := (EngineStepsInv.FB ucmp).
Notation ovl := (PolicyBase.ovl ucmp).
Notation within := (PolicyBase.within ucmp).

(* ------------------------------------------------------------ user-key order, Prop level *)
Definition ULe (a b : bytes) : Prop := ucmp a b <> Gt.
Definition ULt (a b : bytes) : Prop := ucmp a b = Lt.

Lemma ULe_refl a : ULe a a.
Proof. unfold ULe. rewrite (ucmp_refl ucmp). discriminate. Qed.

Lemma ULe_trans a b c : ULe a b -> ULe b c -> ULe a c.
Proof.
  unfold ULe. intros H1 H2. pose proof (ucmp_trans3 ucmp a b c) as H.
  destruct (ucmp a b) eqn:E1, (ucmp b c) eqn:E2; try congruence; rewrite H; discriminate.
Qed.

Lemma ULe_ULt a b c : ULe a b -> ULt b c -> ULt a c.
Proof. apply (ule_lt_trans ucmp). Qed.
Lemma ULt_ULe a b c : ULt a b -> ULe b c -> ULt a c.
Proof. apply (lt_ule_trans ucmp). Qed.

Lemma ULt_irrefl a : ULt a a -> False.
Proof. unfold ULt. rewrite (ucmp_refl ucmp). discriminate. Qed.

Lemma ULt_ULe_absurd a b : ULt a b -> ULe b a -> False.
Proof. intros H1 H2. apply (ULt_irrefl a). eapply ULt_ULe; eauto. Qed.

Lemma ULt_le a b : ULt a b -> ULe a b.
Proof. unfold ULt, ULe. congruence. Qed.

Lemma ueq_ULe a b : ueq a b = true -> ULe a b /\ ULe b a.
Proof.
  intros H. apply (ueq_iff ucmp) in H. unfold ULe. rewrite H, ((ucmp_eq_sym ucmp) a b H).
  split; discriminate.
Qed.

Lemma ilt_ULe a b : ilt a b = true -> ULe (ek a) (ek b).
Proof. apply (ilt_ukey ucmp). Qed.
Lemma ile_ULe a b : ilt b a = false -> ULe (ek a) (ek b).
Proof. apply (ile_ukey ucmp). Qed.
Lemma ULt_ilt a b : ULt (ek a) (ek b) -> ilt a b = true.
Proof. intros H. apply (ilt_iff ucmp). left; auto. Qed.

Lemma ult_ULt a b : ult a b = true <-> ULt a b.
Proof. apply (ult_iff ucmp). Qed.
Lemma not_ult_ULe a b : ult a b = false -> ULe b a.
Proof.
  unfold Engine.ult, ULe. intros H E. apply (ucmp_gt_lt ucmp) in E. rewrite E in H. discriminate.
Qed.
Lemma ULe_not_ult a b : ULe b a -> ult a b = false.
Proof.
  intros H. destruct (ult a b) eqn:E; auto. apply ult_ULt in E. exfalso. eapply ULt_ULe_absurd; eauto.
Qed.
Lemma ULe_ULe_ueq a b : ULe a b -> ULe b a -> ueq a b = true.
Proof.
  unfold ULe. intros H1 H2. apply (ueq_iff ucmp). rewrite ((ucmp_opp ucmp) b a) in H2.
  destruct (ucmp a b); cbn [CompOpp] in H2; congruence.
Qed.
Lemma ULe_neq_ULt a b : ULe a b -> ueq a b = false -> ULt a b.
Proof.
  unfold ULe, ULt, Engine.ueq. intros H1 H2. destruct (ucmp a b); congruence.
Qed.

(* ------------------------------------------------------------ files *)
Lemma sm_ULe_lg f : FOK f -> ULe (ek (sm f)) (ek (lg f)).
Proof. apply (sm_lg_user ucmp). Qed.

Lemma ents_ULe f x : FOK f -> In x (fents f) -> ULe (ek (sm f)) (ek x) /\ ULe (ek x) (ek (lg f)).
Proof. intros H Hx. split. apply (sm_umin ucmp); auto. apply (lg_umax ucmp); auto. Qed.

Lemma FB_ilt f g : FOK f -> FOK g -> FB f g -> ilt (lg f) (sm g) = true.
Proof. intros Hf Hg H. apply (FB_sm_lg ucmp); auto. Qed.
Lemma ilt_FB f g : FOK f -> FOK g -> ilt (lg f) (sm g) = true -> FB f g.
Proof. intros Hf Hg H. apply (FB_sm_lg ucmp); auto. Qed.

Lemma FB_irrefl f : FOK f -> FB f f -> False.
Proof.
  intros Hf H. specialize (H (sm f) (sm f) (sm_In ucmp f Hf) (sm_In ucmp f Hf)).
  rewrite (ilt_irrefl ucmp) in H. discriminate.
Qed.

Lemma FB_asym f g : FOK f -> FOK g -> FB f g -> FB g f -> False.
Proof.
  intros Hf Hg H1 H2. apply (FB_irrefl f Hf). eapply (FB_trans ucmp); eauto. apply Hg.
Qed.

Lemma FB_sm_lt f g : FOK f -> FOK g -> FB f g -> ilt (sm f) (sm g) = true.
Proof. intros Hf Hg H. apply H. apply (sm_In ucmp); auto. apply (sm_In ucmp); auto. Qed.
Lemma FB_lg_lt f g : FOK f -> FOK g -> FB f g -> ilt (lg f) (lg g) = true.
Proof. intros Hf Hg H. apply H. apply (lg_In ucmp); auto. apply (lg_In ucmp); auto. Qed.

Lemma Forall_FOK_incl (fs X : list file) : Forall FOK fs -> incl X fs -> Forall FOK X.
Proof.
  intros H Hi. apply Forall_forall. intros f Hf. rewrite Forall_forall in H. apply H, Hi, Hf.
Qed.

(* ------------------------------------------------------------ get_range *)
Lemma range_from_spec fs : Forall FOK fs -> forall small large a b,
  range_from ucmp small large fs = (a, b) ->
  (a = small \/ exists f, In f fs /\ a = sm f) /\ (b = large \/ exists f, In f fs /\ b = lg f) /\
  ilt small a = false /\ ilt b large = false /\
  (forall f, In f fs -> ilt (sm f) a = false /\ ilt b (lg f) = false).
Proof.
  induction 1 as [|f r Hf Hr IH]; intros small large a b E.
  - cbn [range_from] in E. injection E as <- <-.
    split; [|split; [|split; [|split]]]; auto; try apply (ilt_irrefl ucmp). intros g [].
  - cbn [range_from] in E. rewrite (FOK_sm ucmp f Hf), (FOK_lg ucmp f Hf), (igt_ilt ucmp) in E.
    apply IH in E. destruct E as (Ea & Eb & Hs & Hl & Hall).
    assert (HA: (if ilt (sm f) small then sm f else small) = small \/ (if ilt (sm f) small then sm f else small) = sm f)
      by (destruct (ilt (sm f) small); auto).
    assert (HB: (if ilt large (lg f) then lg f else large) = large \/ (if ilt large (lg f) then lg f else large) = lg f)
      by (destruct (ilt large (lg f)); auto).
    split; [|split; [|split; [|split]]].
    + destruct Ea as [->|(g & Hg & ->)]; [|right; exists g; split; auto; right; auto].
      destruct HA as [->| ->]; [left; auto|right; exists f; split; auto; left; auto].
    + destruct Eb as [->|(g & Hg & ->)]; [|right; exists g; split; auto; right; auto].
      destruct HB as [->| ->]; [left; auto|right; exists f; split; auto; left; auto].
    + destruct (ilt (sm f) small) eqn:E1; auto.
      apply (ilt_asym ucmp). eapply (ile_lt_trans ucmp); eauto.
    + destruct (ilt large (lg f)) eqn:E2; auto.
      apply (ilt_asym ucmp). eapply (ilt_le_trans ucmp); eauto.
    + intros g [<-|Hg]; [|apply Hall; auto]. split.
      * destruct (ilt (sm f) small) eqn:E1; auto. eapply (ile_trans ucmp); eauto.
      * destruct (ilt large (lg f)) eqn:E2; auto. eapply (ile_trans ucmp); eauto.
Qed.

Lemma get_range_spec fs : Forall FOK fs -> fs <> [] ->
  exists a b, get_range ucmp fs = Some (a, b) /\
    (exists f, In f fs /\ a = sm f) /\ (exists g, In g fs /\ b = lg g) /\
    (forall f, In f fs -> ilt (sm f) a = false /\ ilt b (lg f) = false).
Proof.
  intros HF Hne. destruct fs as [|f r]; [congruence|]. inversion HF as [|? ? Hf Hr]; subst.
  cbn [get_range]. rewrite (FOK_sm ucmp f Hf), (FOK_lg ucmp f Hf).
  destruct (range_from ucmp (sm f) (lg f) r) as [a b] eqn:E.
  apply (range_from_spec r Hr) in E. destruct E as (Ea & Eb & Hs & Hl & Hall).
  exists a, b. split; auto. split; [|split].
  - destruct Ea as [->|(g & Hg & ->)]; [exists f|exists g]; split; auto; [left|right]; auto.
  - destruct Eb as [->|(g & Hg & ->)]; [exists f|exists g]; split; auto; [left|right]; auto.
  - intros g [<-|Hg]; auto.
Qed.

Lemma get_range_bounds fs a b x : Forall FOK fs -> get_range ucmp fs = Some (a, b) ->
  In x (level_entries fs) -> ULe (ek a) (ek x) /\ ULe (ek x) (ek b).
Proof.
  intros HF E Hx. apply level_entries_In in Hx. destruct Hx as (f & Hf & Hx).
  assert (Hne: fs <> []) by (intros ->; destruct Hf).
  destruct (get_range_spec fs HF Hne) as (a' & b' & E' & _ & _ & Hall).
  rewrite E in E'. injection E' as <- <-.
  assert (Hok: FOK f) by (rewrite Forall_forall in HF; auto).
  destruct (Hall f Hf) as [H1 H2]. destruct (ents_ULe f x Hok Hx) as [H3 H4]. split.
  - eapply ULe_trans; [|exact H3]. apply ile_ULe; auto.
  - eapply ULe_trans; [exact H4|]. apply ile_ULe; auto.
Qed.

(* ------------------------------------------------------------ find_smallest_boundary_file *)
Definition cand (key : entry) (f : file) : bool := ilt key (sm f) && ueq (ek (sm f)) (ek key).

Lemma fsbf_from_spec fs : Forall FOK fs -> forall res key, (forall g, res = Some g -> FOK g) ->
  match fsbf_from ucmp res key fs with
  | None => res = None /\ forall c, In c fs -> cand key c = false
  | Some b => (res = Some b \/ (In b fs /\ cand key b = true)) /\
              (forall c, In c fs -> cand key c = true -> ilt (sm c) (sm b) = false) /\
              (forall g, res = Some g -> ilt (sm g) (sm b) = false)
  end.
Proof.
  induction 1 as [|f r Hf Hr IH]; intros res key Hres.
  - cbn [fsbf_from]. destruct res as [g|].
    + split; auto. split. intros c []. intros g' E. injection E as <-. apply (ilt_irrefl ucmp).
    + split; auto. intros c [].
  - cbn [fsbf_from]. rewrite (FOK_sm ucmp f Hf), (igt_ilt ucmp).
    assert (Hskip: cand key f = false ->
      match fsbf_from ucmp res key r with
      | None => res = None /\ forall c, In c (f :: r) -> cand key c = false
      | Some b => (res = Some b \/ (In b (f :: r) /\ cand key b = true)) /\
                  (forall c, In c (f :: r) -> cand key c = true -> ilt (sm c) (sm b) = false) /\
                  (forall g, res = Some g -> ilt (sm g) (sm b) = false)
      end).
    { intros Hc. specialize (IH res key Hres). destruct (fsbf_from ucmp res key r) as [b|].
      - destruct IH as (H1 & H2 & H3). split; [|split]; auto.
        + destruct H1 as [H1|[H1 H1']]; auto. right. split; auto. right; auto.
        + intros c [<-|Hc'] Hcc; auto. congruence.
      - destruct IH as (H1 & H2). split; auto. intros c [<-|Hc']; auto. }
    unfold cand in Hskip.
    destruct (ilt key (sm f)) eqn:E1; [|apply Hskip; reflexivity].
    destruct (ueq (ek (sm f)) (ek key)) eqn:E2; [|apply Hskip; reflexivity].
    clear Hskip.
    assert (Hcf: cand key f = true) by (unfold cand; rewrite E1, E2; reflexivity).
    assert (Htake: forall (Hle: forall g, res = Some g -> ilt (sm f) (sm g) = true),
      match fsbf_from ucmp (Some f) key r with
      | None => res = None /\ forall c, In c (f :: r) -> cand key c = false
      | Some b => (res = Some b \/ (In b (f :: r) /\ cand key b = true)) /\
                  (forall c, In c (f :: r) -> cand key c = true -> ilt (sm c) (sm b) = false) /\
                  (forall g, res = Some g -> ilt (sm g) (sm b) = false)
      end).
    { intros Hle. assert (Hf': forall g, Some f = Some g -> FOK g) by (intros g E; injection E as <-; auto).
      specialize (IH (Some f) key Hf'). destruct (fsbf_from ucmp (Some f) key r) as [b|].
      - destruct IH as (H1 & H2 & H3). specialize (H3 f eq_refl). split; [|split].
        + right. destruct H1 as [H1|[H1 H1']]. injection H1 as <-. split; auto. left; auto.
          split; auto. right; auto.
        + intros c [<-|Hc'] Hcc; auto.
        + intros g E. apply (ilt_asym ucmp). eapply (ile_lt_trans ucmp). exact H3. apply Hle; auto.
      - destruct IH as [H1 _]. discriminate. }
    destruct res as [g|].
    + rewrite (FOK_sm ucmp g (Hres g eq_refl)).
      destruct (ilt (sm f) (sm g)) eqn:E3.
      * apply Htake. intros g' E. injection E as <-. auto.
      * specialize (IH (Some g) key Hres). destruct (fsbf_from ucmp (Some g) key r) as [b|].
        -- destruct IH as (H1 & H2 & H3). specialize (H3 g eq_refl). split; [|split].
           ++ destruct H1 as [H1|[H1 H1']]; auto. right. split; auto. right; auto.
           ++ intros c [<-|Hc'] Hcc; auto. eapply (ile_trans ucmp); eauto.
           ++ intros g' E. injection E as <-. auto.
        -- destruct IH as [H1 _]. discriminate.
    + apply Htake. intros g E. discriminate.
Qed.

Lemma fsbf_Some fs key b : Forall FOK fs -> find_smallest_boundary_file ucmp fs key = Some b ->
  In b fs /\ cand key b = true /\ forall c, In c fs -> cand key c = true -> ilt (sm c) (sm b) = false.
Proof.
  intros HF E. unfold find_smallest_boundary_file in E.
  assert (Hn: forall g, @None file = Some g -> FOK g) by (intros g H; discriminate).
  pose proof (fsbf_from_spec fs HF None key Hn) as H. rewrite E in H.
  destruct H as ([H1|[H1 H1']] & H2 & _); [discriminate|]. auto.
Qed.

Lemma fsbf_None fs key : Forall FOK fs -> find_smallest_boundary_file ucmp fs key = None ->
  forall c, In c fs -> cand key c = false.
Proof.
  intros HF E. unfold find_smallest_boundary_file in E.
  assert (Hn: forall g, @None file = Some g -> FOK g) by (intros g H; discriminate).
  pose proof (fsbf_from_spec fs HF None key Hn) as H. rewrite E in H. apply H.
Qed.

(* ------------------------------------------------------------ the boundary loop terminates *)
Inductive Chain (fs : list file) : entry -> list file -> Prop :=
| Chain_nil key : find_smallest_boundary_file ucmp fs key = None -> Chain fs key []
| Chain_cons key b l : find_smallest_boundary_file ucmp fs key = Some b -> Chain fs (lg b) l ->
                       Chain fs key (b :: l).

Lemma filter_length_le {A} (p : A -> bool) l : (length (filter p l) <= length l)%nat.
Proof. induction l as [|x r IH]; cbn [filter length]; auto. destruct (p x); cbn [length]; lia. Qed.

Lemma filter_length_lt {A} (p q : A -> bool) l b :
  (forall x, In x l -> p x = true -> q x = true) -> In b l -> q b = true -> p b = false ->
  (length (filter p l) < length (filter q l))%nat.
Proof.
  induction l as [|x r IH]; intros Hpq Hb Hqb Hpb; [destruct Hb|].
  cbn [filter]. destruct Hb as [->|Hb].
  - rewrite Hqb, Hpb. cbn [length].
    assert (length (filter p r) <= length (filter q r))%nat; [|lia].
    clear - Hpq. induction r as [|y r IH]; cbn [filter length]; auto.
    assert (Hpq': forall x0, In x0 (b :: r) -> p x0 = true -> q x0 = true).
    { intros z [<-|Hz]; apply Hpq; [left|right; right]; auto. }
    specialize (IH Hpq').
    destruct (p y) eqn:E. rewrite (Hpq y (or_intror (or_introl eq_refl)) E). cbn [length]. lia.
    destruct (q y); cbn [length]; lia.
  - assert (IH': (length (filter p r) < length (filter q r))%nat).
    { apply IH; auto. intros z Hz. apply Hpq. right; auto. }
    destruct (p x) eqn:E. rewrite (Hpq x (or_introl eq_refl) E). cbn [length]. lia.
    destruct (q x); cbn [length]; lia.
Qed.

Definition cnt (key : entry) (fs : list file) : nat := length (filter (fun f => ilt key (sm f)) fs).

Lemma boundary_loop_Chain fs : Forall FOK fs -> forall fuel key,
  (cnt key fs < fuel)%nat -> Chain fs key (boundary_loop ucmp fuel fs key).
Proof.
  intros HF. induction fuel as [|n IH]; intros key Hc; [lia|].
  cbn [boundary_loop]. destruct (find_smallest_boundary_file ucmp fs key) as [b|] eqn:E.
  - destruct (fsbf_Some fs key b HF E) as (Hb & Hcb & _).
    assert (Hok: FOK b) by (rewrite Forall_forall in HF; auto).
    rewrite (FOK_lg ucmp b Hok). apply Chain_cons; auto. apply IH.
    unfold cand in Hcb. apply andb_true_iff in Hcb. destruct Hcb as [Hcb _].
    assert ((cnt (lg b) fs < cnt key fs)%nat); [|lia].
    unfold cnt. apply (filter_length_lt _ _ fs b); auto.
    + intros x Hx H. eapply (ilt_trans ucmp); [exact Hcb|].
      eapply (ile_lt_trans ucmp); [|exact H]. apply (sm_le_lg ucmp); auto.
    + apply (sm_le_lg ucmp); auto.
  - apply Chain_nil; auto.
Qed.

Lemma Chain_det fs key l l' : Chain fs key l -> Chain fs key l' -> l = l'.
Proof.
  intros H. revert l'. induction H as [key E|key b l E Hc IH]; intros l' H'; inversion H'; subst; try congruence.
  rewrite E in H. injection H as <-. f_equal. apply IH; auto.
Qed.

Lemma cnt_le key fs : (cnt key fs <= length fs)%nat.
Proof. apply filter_length_le. Qed.

(* more fuel than |level_files| + 1 never changes the result of add_boundary_inputs *)
Theorem boundary_loop_fuel fs key k : Forall FOK fs ->
  boundary_loop ucmp (S (length fs) + k) fs key = boundary_loop ucmp (S (length fs)) fs key.
Proof.
  intros HF. pose proof (cnt_le key fs).
  apply (Chain_det fs key); apply boundary_loop_Chain; auto; lia.
Qed.

(* ------------------------------------------------------------ sorted levels *)
Section Sorted.
Variable fs : list file.
Hypothesis HF : Forall FOK fs.
Hypothesis HS : StronglySorted FB fs.

Lemma fs_FOK f : In f fs -> FOK f.
Proof. rewrite Forall_forall in HF. auto. Qed.

Lemma fs_total f g : In f fs -> In g fs -> f = g \/ FB f g \/ FB g f.
Proof.
  intros Hf Hg. apply (SS_FOP FB) in HS. apply (ForallOrdPairs_In HS); auto.
Qed.

Definition Convex (X : list file) : Prop :=
  forall f f' g, In f X -> In f' X -> In g fs -> FB f g -> FB g f' -> In g X.

Record BSt (X R : list file) (key : entry) : Prop := {
  bs_sub : incl R fs;
  bs_X : incl X R;
  bs_cvx : Convex R;
  bs_key : exists fl, In fl R /\ key = lg fl;
  bs_max : forall f, In f R -> ilt key (lg f) = false;
  bs_after : forall b, In b R -> In b X \/ forall f, In f X -> FB f b
}.

Lemma BSt_step X R key b :
  BSt X R key -> find_smallest_boundary_file ucmp fs key = Some b -> BSt X (R ++ [b]) (lg b).
Proof.
  intros [Hsub HX Hcvx (fl & Hfl & Hkey) Hmax Haft] E.
  destruct (fsbf_Some fs key b HF E) as (Hb & Hcb & Hmin).
  assert (Hokb: FOK b) by (apply fs_FOK; auto).
  unfold cand in Hcb. apply andb_true_iff in Hcb. destruct Hcb as [Hc1 Hc2].
  assert (HRb: forall f, In f R -> FB f b).
  { intros f Hf. apply ilt_FB; auto. apply fs_FOK; auto.
    eapply (ile_lt_trans ucmp); [apply Hmax; auto|exact Hc1]. }
  constructor.
  - intros f Hf. apply in_app_or in Hf. destruct Hf as [Hf|[<-|[]]]; auto.
  - intros f Hf. apply in_or_app. left. auto.
  - intros f f' g Hf Hf' Hg H1 H2. apply in_or_app.
    assert (Hokg: FOK g) by (apply fs_FOK; auto).
    apply in_app_or in Hf. apply in_app_or in Hf'.
    destruct Hf as [Hf|[<-|[]]]; destruct Hf' as [Hf'|[<-|[]]].
    + left. apply (Hcvx f f' g); auto.
    + (* f in R, g between f and b *)
      destruct (fs_total g fl Hg (Hsub _ Hfl)) as [->|[H3|H3]].
      * left; auto.
      * left. apply (Hcvx f fl g); auto.
      * exfalso. subst key.
        assert (Hokfl: FOK fl) by (apply fs_FOK; auto).
        assert (Hcg: cand (lg fl) g = true).
        { unfold cand. apply andb_true_iff. split. apply FB_ilt; auto.
          (* user keys: lg fl <= sm g <= sm b, and sm b = lg fl *)
          apply ueq_ULe in Hc2. destruct Hc2 as [Hc2 Hc2'].
          apply ULe_ULe_ueq.
          - eapply ULe_trans; [|exact Hc2]. apply ilt_ULe. apply FB_sm_lt; auto.
          - apply ilt_ULe. apply FB_ilt; auto. }
        specialize (Hmin g Hg Hcg). rewrite (FB_sm_lt g b Hokg Hokb H2) in Hmin. discriminate.
    + (* b before g before f' in R: impossible *)
      exfalso. apply (FB_asym b f' Hokb); auto. apply fs_FOK; auto.
      eapply (FB_trans ucmp); eauto. apply Hokg.
    + exfalso. apply (FB_asym b g Hokb Hokg); auto.
  - exists b. split; auto. apply in_or_app. right. left; auto.
  - intros f Hf. apply in_app_or in Hf. destruct Hf as [Hf|[<-|[]]].
    + apply (ilt_asym ucmp). apply FB_lg_lt; auto. apply fs_FOK; auto.
    + apply (ilt_irrefl ucmp).
  - intros f Hf. apply in_app_or in Hf. destruct Hf as [Hf|[<-|[]]]; auto.
Qed.

Record Closed (X R : list file) : Prop := {
  cl_sub : incl R fs;
  cl_X : incl X R;
  cl_cvx : Convex R;
  cl_after : forall b, In b R -> In b X \/ forall f, In f X -> FB f b;
  cl_gap : forall g f, In g fs -> ~ In g R -> In f R -> FB f g -> ULt (ek (lg f)) (ek (sm g))
}.

Lemma BSt_Closed X R key :
  BSt X R key -> find_smallest_boundary_file ucmp fs key = None -> Closed X R.
Proof.
  intros [Hsub HX Hcvx (fl & Hfl & Hkey) Hmax Haft] E.
  pose proof (fsbf_None fs key HF E) as Hnc.
  constructor; auto.
  intros g f Hg Hng Hf H1.
  assert (Hokg: FOK g) by (apply fs_FOK; auto).
  assert (Hokf: FOK f) by (apply fs_FOK; auto).
  assert (Hokfl: FOK fl) by (apply fs_FOK; auto).
  assert (H3: FB fl g).
  { destruct (fs_total g fl Hg (Hsub _ Hfl)) as [->|[H3|H3]]; auto.
    - contradiction.
    - exfalso. apply Hng. apply (Hcvx f fl g); auto. }
  specialize (Hnc g Hg). unfold cand in Hnc. subst key.
  rewrite (FB_ilt fl g Hokfl Hokg H3) in Hnc. cbn [andb] in Hnc.
  eapply ULe_ULt. apply ile_ULe. apply (Hmax f Hf).
  apply ULe_neq_ULt. apply ilt_ULe. apply FB_ilt; auto.
  destruct (ueq (ek (lg fl)) (ek (sm g))) eqn:E'; auto.
  apply (ueq_sym ucmp) in E'. congruence.
Qed.

Lemma Chain_Closed X l : forall R key, BSt X R key -> Chain fs key l -> Closed X (R ++ l).
Proof.
  intros R key HB HC. revert R HB. induction HC as [key E|key b l E HC IH]; intros R HB.
  - rewrite app_nil_r. eapply BSt_Closed; eauto.
  - change (b :: l) with ([b] ++ l). rewrite app_assoc. apply IH. apply (BSt_step X R key b); auto.
Qed.

(* add_boundary_inputs on a sorted level, applied to a convex non-empty selection *)
Theorem boundary_sorted X : X <> [] -> incl X fs -> Convex X -> Closed X (boundary_inputs ucmp fs X).
Proof.
  intros Hne Hsub Hcvx. unfold boundary_inputs, find_largest_key.
  assert (HFX: Forall FOK X) by (eapply Forall_FOK_incl; eauto).
  destruct (get_range_spec X HFX Hne) as (a & key & E & _ & (fl & Hfl & Hkey) & Hall).
  rewrite E. apply (Chain_Closed X _ X key).
  - constructor; auto.
    + intros f Hf; auto.
    + exists fl. auto.
    + intros f Hf. apply Hall; auto.
  - apply boundary_loop_Chain; auto. pose proof (cnt_le key fs). lia.
Qed.

Lemma boundary_nil : boundary_inputs ucmp fs [] = [].
Proof. reflexivity. Qed.

(* a file left behind by a closed selection lies entirely before it, or entirely
   after it with a strictly larger user key *)
Lemma Closed_sides X R g : Closed X R -> In g fs -> ~ In g R ->
  (forall f, In f R -> FB g f) \/
  (forall f, In f R -> FB f g /\ ULt (ek (lg f)) (ek (sm g))).
Proof.
  intros [Hsub HX Hcvx Haft Hgap] Hg Hng.
  destruct R as [|f0 R']. left. intros f [].
  assert (Hf0: In f0 (f0 :: R')) by (left; auto).
  destruct (fs_total g f0 Hg (Hsub _ Hf0)) as [->|[H0|H0]]; [contradiction| |].
  - left. intros f Hf. destruct (fs_total g f Hg (Hsub _ Hf)) as [->|[H1|H1]]; auto; [contradiction|].
    exfalso. apply Hng. apply (Hcvx f f0 g); auto.
  - right. intros f Hf. destruct (fs_total g f Hg (Hsub _ Hf)) as [->|[H1|H1]]; [contradiction| |].
    + exfalso. apply Hng. apply (Hcvx f0 f g); auto.
    + split; auto.
Qed.

Lemma Closed_NO X R g : Closed X R -> In g fs -> ~ In g R -> NO (fents g) (level_entries R).
Proof.
  intros HC Hg Hng o m Ho Hm Hk.
  apply level_entries_In in Hm. destruct Hm as (f & Hf & Hm).
  assert (Hokg: FOK g) by (apply fs_FOK; auto).
  assert (Hokf: FOK f) by (apply fs_FOK; auto; apply (cl_sub _ _ HC); auto).
  destruct (Closed_sides X R g HC Hg Hng) as [H|H].
  - apply (ilt_ueq_seq ucmp); auto. apply (H f Hf); auto.
  - exfalso. destruct (H f Hf) as [_ H2].
    apply ueq_ULe in Hk. destruct Hk as [Hk _].
    apply (ULt_ULe_absurd _ _ H2).
    eapply ULe_trans. apply (ents_ULe g o Hokg Ho).
    eapply ULe_trans. exact Hk. apply (ents_ULe f m Hokf Hm).
Qed.

(* convex selections *)
Lemma Convex_single f : In f fs -> Convex [f].
Proof.
  intros Hf x y g [<-|[]] [<-|[]] Hg H1 H2. exfalso.
  apply (FB_asym f g); auto; apply fs_FOK; auto.
Qed.

Lemma Convex_ovl ub ue : Convex (filter (ovl ub ue) fs).
Proof.
  intros f f' g Hf Hf' Hg H1 H2. apply filter_In in Hf, Hf'. destruct Hf as [Hf Of]. destruct Hf' as [Hf' Of'].
  apply filter_In. split; auto.
  assert (Hokg: FOK g) by (apply fs_FOK; auto).
  assert (Hokf: FOK f) by (apply fs_FOK; auto).
  assert (Hokf': FOK f') by (apply fs_FOK; auto).
  unfold PolicyBase.ovl in *. apply andb_true_iff in Of, Of'. apply andb_true_iff.
  destruct Of as [Of _]. destruct Of' as [_ Of']. split.
  - destruct ub as [u|]; cbn [before_begin] in *; auto.
    apply negb_true_iff in Of. apply negb_true_iff. apply ULe_not_ult.
    eapply ULe_trans. apply not_ult_ULe; exact Of. apply ilt_ULe. apply FB_lg_lt; auto.
  - destruct ue as [u|]; cbn [after_end] in *; auto.
    rewrite (ugt_ult ucmp) in *.
    apply negb_true_iff in Of'. apply negb_true_iff. apply ULe_not_ult.
    eapply ULe_trans; [|apply not_ult_ULe; exact Of']. apply ilt_ULe. apply FB_sm_lt; auto.
Qed.

Lemma SS_app_inv {A} (R : A -> A -> Prop) (a b : list A) :
  StronglySorted R (a ++ b) -> forall x y, In x a -> In y b -> R x y.
Proof.
  intros H. apply SS_FOP in H. apply FOP_app in H. apply H.
Qed.

Lemma firstn_In' {A} k (l : list A) x : In x (firstn k l) -> In x l.
Proof. intros H. rewrite <- (firstn_skipn k l). apply in_or_app. left; auto. Qed.

Lemma Convex_firstn p k : Convex (filter p fs) -> Convex (firstn k (filter p fs)).
Proof.
  intros HC f f' g Hf Hf' Hg H1 H2.
  set (X := filter p fs) in *.
  assert (HX: In g X).
  { apply (HC f f' g); auto; eapply firstn_In'; eauto. }
  assert (HSX: StronglySorted FB X) by (apply SS_filter; auto).
  rewrite <- (firstn_skipn k X) in HX. apply in_app_or in HX. destruct HX as [HX|HX]; auto.
  exfalso. rewrite <- (firstn_skipn k X) in HSX.
  pose proof (SS_app_inv FB _ _ HSX f' g Hf' HX) as H3.
  apply (FB_asym g f'); auto; apply fs_FOK; auto.
  apply (proj1 (filter_In p f' fs)). eapply firstn_In'; eauto.
Qed.

End Sorted.

(* ------------------------------------------------------------ level 0 *)
(* on an overlap-closed selection add_boundary_inputs finds nothing *)
Theorem boundary_lvl0 fs ub ue : Forall FOK fs ->
  (forall f, In f fs -> ovl ub ue f = true -> within ub ue f = true) ->
  boundary_inputs ucmp fs (filter (ovl ub ue) fs) = filter (ovl ub ue) fs.
Proof.
  intros HF Hw. set (X := filter (ovl ub ue) fs).
  destruct X as [|x0 X'] eqn:EX. reflexivity. rewrite <- EX.
  assert (Hne: X <> []) by (rewrite EX; discriminate).
  assert (Hsub: incl X fs) by (intros f Hf; apply (proj1 (filter_In _ _ _) Hf)).
  assert (HFX: Forall FOK X) by (eapply Forall_FOK_incl; eauto).
  unfold boundary_inputs, find_largest_key.
  destruct (get_range_spec X HFX Hne) as (a & key & E & _ & (fl & Hfl & Hkey) & Hall).
  rewrite E. cbn [boundary_loop].
  destruct (find_smallest_boundary_file ucmp fs key) as [c|] eqn:Ec; [|apply app_nil_r].
  exfalso. destruct (fsbf_Some fs key c HF Ec) as (Hc & Hcc & _).
  unfold cand in Hcc. apply andb_true_iff in Hcc. destruct Hcc as [Hc1 Hc2].
  assert (Hokc: FOK c) by (rewrite Forall_forall in HF; auto).
  assert (Hokfl: FOK fl) by (rewrite Forall_forall in HFX; auto).
  apply filter_In in Hfl. destruct Hfl as [Hfl Ofl].
  pose proof (Hw fl Hfl Ofl) as Wfl.
  apply ueq_ULe in Hc2. destruct Hc2 as [Hc2 Hc2'].
  assert (Oc: ovl ub ue c = true).
  { unfold PolicyBase.ovl, PolicyBase.within in *. apply andb_true_iff in Wfl. destruct Wfl as [W1 W2].
    apply andb_true_iff. split.
    - destruct ub as [u|]; cbn [before_begin] in *; auto.
      apply negb_true_iff in W1. apply negb_true_iff. apply ULe_not_ult.
      eapply ULe_trans. apply not_ult_ULe; exact W1.
      eapply ULe_trans. apply sm_ULe_lg; auto. subst key.
      eapply ULe_trans. exact Hc2'. apply sm_ULe_lg; auto.
    - destruct ue as [u|]; cbn [after_end] in *; auto.
      rewrite (ugt_ult ucmp) in *.
      apply negb_true_iff in W2. apply negb_true_iff. apply ULe_not_ult.
      eapply ULe_trans; [|apply not_ult_ULe; exact W2]. subst key. exact Hc2. }
  assert (HcX: In c X) by (apply filter_In; auto).
  destruct (Hall c HcX) as [_ H2].
  assert (H3: ilt key (lg c) = true).
  { eapply (ilt_le_trans ucmp). exact Hc1. apply (sm_le_lg ucmp); auto. }
  congruence.
Qed.

Lemma lvl0_NO fs ub ue g : Forall FOK fs ->
  (forall f, In f fs -> ovl ub ue f = true -> within ub ue f = true) ->
  In g fs -> ovl ub ue g = false -> NO (fents g) (level_entries (filter (ovl ub ue) fs)).
Proof.
  intros HF Hw Hg Og o m Ho Hm Hk. exfalso.
  apply level_entries_In in Hm. destruct Hm as (f & Hf & Hm).
  apply filter_In in Hf. destruct Hf as [Hf Of]. pose proof (Hw f Hf Of) as Wf.
  assert (Hokg: FOK g) by (rewrite Forall_forall in HF; auto).
  assert (Hokf: FOK f) by (rewrite Forall_forall in HF; auto).
  apply ueq_ULe in Hk. destruct Hk as [Hk Hk'].
  destruct (ents_ULe g o Hokg Ho) as [Go1 Go2]. destruct (ents_ULe f m Hokf Hm) as [Fm1 Fm2].
  unfold PolicyBase.ovl, PolicyBase.within in *. apply andb_true_iff in Wf. destruct Wf as [W1 W2].
  apply andb_false_iff in Og. destruct Og as [Og|Og]; apply negb_false_iff in Og.
  - destruct ub as [u|]; cbn [before_begin] in *; [|discriminate].
    apply negb_true_iff in W1. apply ult_ULt in Og. apply not_ult_ULe in W1.
    apply (ULt_ULe_absurd _ _ Og).
    eapply ULe_trans. exact W1. eapply ULe_trans. exact Fm1. eapply ULe_trans. exact Hk'. exact Go2.
  - destruct ue as [u|]; cbn [after_end] in *; [|discriminate].
    rewrite (ugt_ult ucmp) in *.
    apply negb_true_iff in W2. apply ult_ULt in Og. apply not_ult_ULe in W2.
    apply (ULt_ULe_absurd _ _ Og).
    eapply ULe_trans. exact Go1. eapply ULe_trans. exact Hk. eapply ULe_trans. exact Fm2. exact W2.
Qed.

End PBd.
