(* GcProofs.v -- the garbage collector of Gc.v keeps exactly the needed names (property C13). *)
From Coq Require Import List NArith Bool Lia.
From LCDB Require Import Base Filename FilenameProofs Gc.
Import ListNotations.
Local Open Scope N_scope.

Lemma memN_In : forall n l, memN n l = true <-> In n l.
Proof.
  intros n l. unfold memN. rewrite existsb_exists. split.
  - intros [x [Hin Heq]]. apply N.eqb_eq in Heq. subst. exact Hin.
  - intros H. exists n. split; [exact H|apply N.eqb_refl].
Qed.

Lemma memN_false : forall n l, memN n l = false <-> ~ In n l.
Proof.
  intros n l. rewrite <- memN_In. destruct (memN n l); split; intros H; congruence.
Qed.

(* the keep decision is the boolean form of `needed` *)
Theorem gc_keeps_needed : forall st name, gc_keeps st name = true <-> needed st name.
Proof.
  intros st name. unfold gc_keeps, needed.
  destruct (parse_filename name) as [[t n]|]; [|tauto].
  destruct t; cbn [keep_file]; try tauto.
  - rewrite orb_true_iff, N.leb_le, N.eqb_eq. tauto.
  - apply memN_In.
  - apply N.leb_le.
  - apply memN_In.
Qed.

Theorem gc_removes_unneeded : forall st name, gc_keeps st name = false <-> ~ needed st name.
Proof.
  intros st name. rewrite <- gc_keeps_needed.
  destruct (gc_keeps st name); split; intros H; congruence.
Qed.

(* exactness on a listing: survivors = needed entries, unlinked = the others, nothing else *)
Theorem gc_exact : forall st dir name,
  (In name (gc st dir) <-> In name dir /\ needed st name) /\
  (In name (gc_removed st dir) <-> In name dir /\ ~ needed st name).
Proof.
  intros st dir name. unfold gc, gc_removed. rewrite !filter_In. split.
  - rewrite gc_keeps_needed. tauto.
  - rewrite negb_true_iff, gc_removes_unneeded. tauto.
Qed.

Theorem gc_partition : forall st dir name,
  In name dir -> (In name (gc st dir) /\ ~ In name (gc_removed st dir)) \/
                 (~ In name (gc st dir) /\ In name (gc_removed st dir)).
Proof.
  intros st dir name Hin.
  destruct (gc_exact st dir name) as [H1 H2].
  destruct (gc_keeps st name) eqn:E.
  - left. apply gc_keeps_needed in E. split; [apply H1; tauto|]. intros H. apply H2 in H. tauto.
  - right. apply gc_removes_unneeded in E. split; [|apply H2; tauto]. intros H. apply H1 in H. tauto.
Qed.

Theorem gc_sublist : forall st dir name, In name (gc st dir) -> In name dir.
Proof. intros st dir name H. apply (gc_exact st dir name) in H. tauto. Qed.

Lemma filter_idem : forall (A : Type) (f : A -> bool) l, filter f (filter f l) = filter f l.
Proof.
  intros A f l. induction l as [|x xs IH]; [reflexivity|].
  cbn [filter]. destruct (f x) eqn:E; [cbn [filter]; rewrite E, IH; reflexivity|exact IH].
Qed.

Lemma filter_neg_nil : forall (A : Type) (f : A -> bool) l, filter (fun x => negb (f x)) (filter f l) = [].
Proof.
  intros A f l. induction l as [|x xs IH]; [reflexivity|].
  cbn [filter]. destruct (f x) eqn:E; [cbn [filter]; rewrite E; exact IH|exact IH].
Qed.

(* a second collection in the same state removes nothing *)
Theorem gc_idempotent : forall st dir, gc st (gc st dir) = gc st dir /\ gc_removed st (gc st dir) = [].
Proof. intros st dir. unfold gc, gc_removed. split; [apply filter_idem|apply filter_neg_nil]. Qed.

(* ---- tables: kept iff referenced by a pinned version or a pending output ---- *)
Definition U64 : N := 18446744073709551616.

Lemma In_live_of : forall n pending pinned,
  In n (live_of pending pinned) <-> In n pending \/ exists v, In v pinned /\ In n v.
Proof.
  intros n pending pinned. unfold live_of. rewrite in_app_iff, in_concat.
  split; (intros [H|H]; [left; exact H|right]); destruct H as [v [Hv Hn]]; exists v; tauto.
Qed.

Theorem gc_keeps_pinned_tables : forall st pending pinned v n dir,
  g_live st = live_of pending pinned -> In v pinned -> In n v -> n < U64 ->
  (In (table_name n) dir -> In (table_name n) (gc st dir)) /\
  (In (sstable_name n) dir -> In (sstable_name n) (gc st dir)).
Proof.
  intros st pending pinned v n dir Hl Hv Hn Hlt.
  assert (Hlive : In n (g_live st)) by (rewrite Hl; apply In_live_of; right; exists v; tauto).
  split; intros Hin; apply (gc_exact st dir); (split; [exact Hin|]); unfold needed.
  - rewrite parse_table_name by exact Hlt. exact Hlive.
  - rewrite parse_sstable_name by exact Hlt. exact Hlive.
Qed.

Theorem gc_keeps_pending_outputs : forall st pending pinned n dir,
  g_live st = live_of pending pinned -> In n pending -> n < U64 ->
  (In (table_name n) dir -> In (table_name n) (gc st dir)) /\
  (In (temp_name n) dir -> In (temp_name n) (gc st dir)).
Proof.
  intros st pending pinned n dir Hl Hp Hlt.
  assert (Hlive : In n (g_live st)) by (rewrite Hl; apply In_live_of; left; exact Hp).
  split; intros Hin; apply (gc_exact st dir); (split; [exact Hin|]); unfold needed.
  - rewrite parse_table_name by exact Hlt. exact Hlive.
  - rewrite parse_temp_name by exact Hlt. exact Hlive.
Qed.

Theorem gc_removes_unreferenced_tables : forall st pending pinned n dir,
  g_live st = live_of pending pinned -> ~ In n pending ->
  (forall v, In v pinned -> ~ In n v) -> n < U64 ->
  ~ In (table_name n) (gc st dir) /\ ~ In (sstable_name n) (gc st dir) /\
  (In (table_name n) dir -> In (table_name n) (gc_removed st dir)).
Proof.
  intros st pending pinned n dir Hl Hp Hv Hlt.
  assert (Hdead : ~ In n (g_live st)).
  { rewrite Hl, In_live_of. intros [H|[v [H1 H2]]]; [exact (Hp H)|exact (Hv v H1 H2)]. }
  assert (Hnt : ~ needed st (table_name n)) by (unfold needed; rewrite parse_table_name by exact Hlt; exact Hdead).
  assert (Hns : ~ needed st (sstable_name n)) by (unfold needed; rewrite parse_sstable_name by exact Hlt; exact Hdead).
  repeat split.
  - intros H. apply (gc_exact st dir) in H. tauto.
  - intros H. apply (gc_exact st dir) in H. tauto.
  - intros H. apply (gc_exact st dir). tauto.
Qed.

(* ---- logs: kept iff their number is at least log_number (or the previous log being recovered) ---- *)
Theorem gc_keeps_current_logs : forall st n dir,
  n < U64 -> g_log st <= n \/ n = g_prevlog st ->
  In (log_name n) dir -> In (log_name n) (gc st dir).
Proof.
  intros st n dir Hlt Hk Hin. apply (gc_exact st dir). split; [exact Hin|].
  unfold needed. rewrite parse_log_name by exact Hlt. exact Hk.
Qed.

Theorem gc_removes_old_logs : forall st n dir,
  n < U64 -> n < g_log st -> n <> g_prevlog st ->
  ~ In (log_name n) (gc st dir) /\ (In (log_name n) dir -> In (log_name n) (gc_removed st dir)).
Proof.
  intros st n dir Hlt Hold Hprev.
  assert (Hn : ~ needed st (log_name n)).
  { unfold needed. rewrite parse_log_name by exact Hlt. lia. }
  split.
  - intros H. apply (gc_exact st dir) in H. tauto.
  - intros H. apply (gc_exact st dir). tauto.
Qed.

(* ---- descriptors and the fixed names ---- *)
Theorem gc_keeps_manifest : forall st n dir,
  n < U64 -> g_manifest st <= n -> In (desc_name n) dir -> In (desc_name n) (gc st dir).
Proof.
  intros st n dir Hlt Hk Hin. apply (gc_exact st dir). split; [exact Hin|].
  unfold needed. rewrite parse_desc_name by exact Hlt. exact Hk.
Qed.

Theorem gc_removes_old_manifests : forall st n dir,
  n < U64 -> n < g_manifest st -> ~ In (desc_name n) (gc st dir).
Proof.
  intros st n dir Hlt Hold H. apply (gc_exact st dir) in H. destruct H as [_ H].
  unfold needed in H. rewrite parse_desc_name in H by exact Hlt. lia.
Qed.

Theorem gc_keeps_fixed_names : forall st dir name,
  In name [current_name; lock_name; info_name; oldinfo_name] -> In name dir -> In name (gc st dir).
Proof.
  intros st dir name Hn Hin. apply (gc_exact st dir). split; [exact Hin|].
  unfold needed. cbn [In] in Hn.
  destruct Hn as [H|[H|[H|[H|[]]]]]; subst name.
  - rewrite parse_current_name. exact I.
  - rewrite parse_lock_name. exact I.
  - rewrite parse_info_name. exact I.
  - rewrite parse_oldinfo_name. exact I.
Qed.

Theorem gc_keeps_foreign_names : forall st dir name,
  parse_filename name = None -> In name dir -> In name (gc st dir).
Proof.
  intros st dir name Hp Hin. apply (gc_exact st dir). split; [exact Hin|].
  unfold needed. rewrite Hp. exact I.
Qed.

(* ---- monotonicity: pinning more, or needing older logs, never removes more ---- *)
Theorem gc_monotone : forall st st' dir name,
  (forall n, In n (g_live st) -> In n (g_live st')) ->
  g_log st' <= g_log st -> g_prevlog st' = g_prevlog st -> g_manifest st' <= g_manifest st ->
  In name (gc st dir) -> In name (gc st' dir).
Proof.
  intros st st' dir name Hl Hlog Hprev Hman H.
  apply (gc_exact st dir) in H. destruct H as [Hin Hn]. apply (gc_exact st' dir). split; [exact Hin|].
  unfold needed in *. destruct (parse_filename name) as [[t n]|]; [|exact I].
  destruct t; auto; try lia; try (rewrite Hprev; lia).
Qed.

(* ---- a run of collections: whatever is needed at every collection survives all of them ---- *)
Fixpoint gc_run (sts : list gc_state) (dir : list bytes) : list bytes :=
  match sts with
  | [] => dir
  | st :: r => gc_run r (gc st dir)
  end.

Theorem gc_run_keeps_always_needed : forall sts dir name,
  In name dir -> (forall st, In st sts -> needed st name) -> In name (gc_run sts dir).
Proof.
  induction sts as [|st r IH]; intros dir name Hin Hn; [exact Hin|].
  cbn [gc_run]. apply IH.
  - apply (gc_exact st dir). split; [exact Hin|]. apply Hn. left. reflexivity.
  - intros st' Hst'. apply Hn. right. exact Hst'.
Qed.

Theorem gc_run_only_removes_unneeded : forall sts dir name,
  In name dir -> ~ In name (gc_run sts dir) -> exists st, In st sts /\ ~ needed st name.
Proof.
  induction sts as [|st r IH]; intros dir name Hin Hgone; [exfalso; exact (Hgone Hin)|].
  cbn [gc_run] in Hgone.
  destruct (gc_keeps st name) eqn:E.
  - assert (Hin' : In name (gc st dir)).
    { apply (gc_exact st dir). split; [exact Hin|]. apply gc_keeps_needed. exact E. }
    destruct (IH _ _ Hin' Hgone) as [st' [H1 H2]]. exists st'. split; [right; exact H1|exact H2].
  - exists st. split; [left; reflexivity|]. apply gc_removes_unneeded. exact E.
Qed.

(* non-vacuity: a directory in which something is kept for each reason and something removed for each reason *)
Example gc_example :
  let st := {| g_live := [5; 9]; g_log := 8; g_prevlog := 0; g_manifest := 7 |} in
  let dir := [current_name; lock_name; info_name; table_name 5; table_name 6; sstable_name 9; log_name 8;
              log_name 4; desc_name 7; desc_name 2; temp_name 9; temp_name 3; [104; 105]] in
  gc st dir = [current_name; lock_name; info_name; table_name 5; sstable_name 9; log_name 8; desc_name 7;
               temp_name 9; [104; 105]] /\
  gc_removed st dir = [table_name 6; log_name 4; desc_name 2; temp_name 3].
Proof. vm_compute. split; reflexivity. Qed.
