(* FsDur.v -- Part B of the invariant: the durable state.  For every namespace
   cut a crash may leave (admissible k) CURRENT names a MANIFEST every exposable
   version of which is recoverable ([Good]); preservation by accepted steps. *)
From Coq Require Import Lia ZifyBool ZifyNat ZifyN.
From LCDB Require Import FsModel FsLemmas FsInv.
Local Open Scope N_scope.

(* ================================================================== Part B *)
Definition admissible (d : disk) (k : nat) : Prop := (d_dsync d <= k <= length (d_ops d))%nat.

Definition table_good (d : disk) (k : nat) (t : N) : Prop :=
  exists o ents, nsk d k (FTable t) = Some o /\ nth_error (d_objs d) o = Some (mkObj [PTable ents] 1).

(* a version that a crash may expose is recoverable in the namespace cut k *)
Definition ver_good (d : disk) (k : nat) (ms : mver) : Prop :=
  manifest_ok ms = true /\
  (forall f, In f (mv_files ms) -> table_good d k (snd f)) /\
  (forall n, In (DUnlink (FLog n)) (d_ops d) -> log_dead ms n = true).

Definition Good (d : disk) (k : nat) : Prop :=
  forall c, nsk d k FCurrent = Some c ->
  exists m M xM, nth_error (d_objs d) c = Some (mkObj [PCurrent m] 1) /\
    nsk d k (FManifest m) = Some M /\ nth_error (d_objs d) M = Some xM /\
    forall ms, In ms (exposed xM) -> ver_good d k ms.

Record Inv_dur (p : pstate) : Prop := {
  id_struct : Inv_struct p;
  id_good : forall k, admissible (p_disk p) k -> Good (p_disk p) k;
  id_cov : forall o x e l, nth_error (d_objs (p_disk p)) o = Some x -> In (PEdit e) (o_recs x) ->
      me_log e = Some l -> l <= p_cov p;
  id_unl : forall u f, nth_error (d_ops (p_disk p)) u = Some (DUnlink f) ->
      exists i o, (i < u)%nat /\ created_at (p_disk p) i f o }.

(* ---- versions *)
Lemma in_edits_of : forall recs eds e, edits_of recs = Some eds -> In e eds -> In (PEdit e) recs.
Proof.
  intros recs; induction recs as [|pl r IH]; intros eds e H Hin; cbn [edits_of] in H.
  - injection H as <-; contradiction.
  - destruct pl; try discriminate. destruct (edits_of r) eqn:E; [|discriminate]. injection H as <-.
    destruct Hin as [->|Hin]; [left; reflexivity|right; eapply IH; eauto].
Qed.

Lemma replay_log_from : forall eds L, mv_log (replay eds) = Some L -> exists e, In e eds /\ me_log e = Some L.
Proof.
  intro eds; induction eds as [|e eds IH] using rev_ind; intros L H; [discriminate|].
  rewrite replay_snoc in H. cbn [apply_edit mv_log] in H.
  destruct (me_log e) as [l|] eqn:El; cbn [or_else] in H.
  - injection H as <-. exists e; split; [apply in_or_app; right; left; reflexivity|exact El].
  - destruct (IH _ H) as [e' [Hin He]]. exists e'; split; [apply in_or_app; left; exact Hin|exact He].
Qed.

Lemma exposed_log_le_cov : forall p o x ms L, Inv_dur p -> nth_error (d_objs (p_disk p)) o = Some x ->
  In ms (exposed x) -> mv_log ms = Some L -> L <= p_cov p.
Proof.
  intros p o x ms L I Hx Hin HL. unfold exposed in Hin.
  destruct (edits_of (o_recs x)) as [eds|] eqn:He; [|contradiction].
  apply in_map_iff in Hin. destruct Hin as [j [<- _]].
  destruct (replay_log_from _ _ HL) as [e [Hin Hl]].
  eapply (id_cov _ I); eauto. eapply in_edits_of; eauto. eapply in_firstn_in; exact Hin.
Qed.

Lemma exposed_append : forall x e eds, edits_of (o_recs x) = Some eds -> (o_synced x <= length eds)%nat ->
  forall ms, In ms (exposed (obj_append (PEdit e) x)) ->
    In ms (exposed x) \/ ms = apply_edit (replay eds) e.
Proof.
  intros x e eds He Hs ms Hin.
  assert (He' : edits_of (o_recs (obj_append (PEdit e) x)) = Some (eds ++ [e])).
  { unfold obj_append; cbn [o_recs]. rewrite edits_of_app, He. reflexivity. }
  apply (in_exposed _ _ ms He') in Hin.
  2:{ unfold obj_append; cbn [o_synced]. rewrite app_length; cbn [length]; lia. }
  unfold obj_append in Hin; cbn [o_synced] in Hin. destruct Hin as [j [Hj ->]].
  rewrite app_length in Hj; cbn [length] in Hj.
  destruct (Nat.eq_dec j (length eds + 1)) as [->|Hne].
  - right. rewrite firstn_all2 by (rewrite app_length; cbn [length]; lia). apply replay_snoc.
  - left. apply (in_exposed _ _ _ He Hs). exists j; split; [lia|].
    rewrite firstn_app. replace (j - length eds)%nat with O by lia. cbn [firstn]. rewrite app_nil_r; reflexivity.
Qed.

Lemma exposed_last : forall x eds, edits_of (o_recs x) = Some eds -> (o_synced x <= length eds)%nat ->
  In (replay eds) (exposed x).
Proof.
  intros x eds He Hs. apply (in_exposed _ _ _ He Hs). exists (length eds); split; [lia|].
  rewrite firstn_all; reflexivity.
Qed.

Lemma exposed_sync : forall x eds, edits_of (o_recs x) = Some eds -> (o_synced x <= length eds)%nat ->
  forall ms, In ms (exposed (obj_sync x)) -> In ms (exposed x).
Proof.
  intros x eds He Hs ms Hin.
  assert (He' : edits_of (o_recs (obj_sync x)) = Some eds) by exact He.
  apply (in_exposed _ _ ms He') in Hin.
  2:{ unfold obj_sync; cbn [o_synced o_recs]. rewrite (edits_of_length _ _ He); lia. }
  unfold obj_sync in Hin; cbn [o_synced o_recs] in Hin. destruct Hin as [j [Hj ->]].
  rewrite <- (edits_of_length _ _ He) in Hj.
  apply (in_exposed _ _ _ He Hs). exists j; split; [lia|reflexivity].
Qed.

Lemma manifest_ok_apply : forall ms e, manifest_ok ms = true -> manifest_ok (apply_edit ms e) = true.
Proof.
  intros ms e H; unfold manifest_ok in *; cbn [apply_edit mv_next mv_log mv_last].
  destruct (mv_next ms), (mv_log ms), (mv_last ms); try discriminate.
  destruct (me_next e), (me_log e), (me_last e); reflexivity.
Qed.

Lemma in_apply_files : forall ms e f, In f (mv_files (apply_edit ms e)) -> In f (mv_files ms) \/ In f (me_new e).
Proof.
  intros ms e f H; cbn [apply_edit mv_files] in H. apply in_app_or in H.
  destruct H as [H|H]; [left; apply filter_In in H; apply H|right; exact H].
Qed.

(* ---- frame lemmas *)
Lemma ver_good_frame : forall d d' k k' ms,
  ver_good d k ms ->
  (forall f o, In f (mv_files ms) -> nsk d k (FTable (snd f)) = Some o -> nsk d' k' (FTable (snd f)) = Some o) ->
  (forall o ents, nth_error (d_objs d) o = Some (mkObj [PTable ents] 1) ->
                  nth_error (d_objs d') o = Some (mkObj [PTable ents] 1)) ->
  (forall n, In (DUnlink (FLog n)) (d_ops d') -> In (DUnlink (FLog n)) (d_ops d) \/ log_dead ms n = true) ->
  ver_good d' k' ms.
Proof.
  intros d d' k k' ms [V1 [V2 V3]] Hns Hobj Hunl. split; [exact V1|split].
  - intros f Hin. destruct (V2 f Hin) as [o [ents [Hb Hx]]]. exists o, ents; split; [eapply Hns; eauto|eauto].
  - intros n Hin. destruct (Hunl n Hin) as [H|H]; [apply V3; exact H|exact H].
Qed.

Definition view (d : disk) (k : nat) (c : nat) (m : N) (M : nat) (xM : fobj) : Prop :=
  nsk d k FCurrent = Some c /\ nth_error (d_objs d) c = Some (mkObj [PCurrent m] 1) /\
  nsk d k (FManifest m) = Some M /\ nth_error (d_objs d) M = Some xM.

Lemma Good_view : forall d k, Good d k <->
  (forall c, nsk d k FCurrent = Some c ->
     exists m M xM, view d k c m M xM /\ forall ms, In ms (exposed xM) -> ver_good d k ms).
Proof.
  intros d k; unfold Good, view; split; intros H c Hc; destruct (H c Hc) as [m [M [xM HH]]];
    exists m, M, xM; intuition.
Qed.

Lemma view_fun : forall d k c m M xM c' m' M' xM', view d k c m M xM -> view d k c' m' M' xM' ->
  c = c' /\ m = m' /\ M = M' /\ xM = xM'.
Proof.
  intros d k c m M xM c' m' M' xM' [A1 [A2 [A3 A4]]] [B1 [B2 [B3 B4]]].
  rewrite A1 in B1; injection B1 as <-. rewrite A2 in B2; injection B2 as <-.
  rewrite A3 in B3; injection B3 as <-. rewrite A4 in B4; injection B4 as <-. auto.
Qed.

Lemma Good_transfer : forall d d' k k', Good d k ->
  nsk d' k' FCurrent = nsk d k FCurrent ->
  (forall o x, nth_error (d_objs d) o = Some x -> nth_error (d_objs d') o = Some x) ->
  (forall c m M xM, view d k c m M xM ->
     nsk d' k' (FManifest m) = Some M /\
     forall ms, In ms (exposed xM) -> ver_good d k ms -> ver_good d' k' ms) ->
  Good d' k'.
Proof.
  intros d d' k k' G Hcur Hobj Hv. apply Good_view. intros c Hc. rewrite Hcur in Hc.
  destruct (proj1 (Good_view _ _) G c Hc) as [m [M [xM [V Hms]]]].
  destruct (Hv _ _ _ _ V) as [HM Hver]. destruct V as [V1 [V2 [V3 V4]]].
  exists m, M, xM. split.
  - unfold view. rewrite Hcur. auto.
  - intros ms Hin. apply Hver; auto.
Qed.

Lemma Good_upd : forall d d' k ou g xu, Good d k ->
  d_ops d' = d_ops d -> d_objs d' = upd_nth (d_objs d) ou g ->
  nth_error (d_objs d) ou = Some xu ->
  (forall m, xu = mkObj [PCurrent m] 1 -> g xu = xu) ->
  (forall ents, xu = mkObj [PTable ents] 1 -> g xu = xu) ->
  (forall c m, view d k c m ou xu -> (forall ms, In ms (exposed xu) -> ver_good d k ms) ->
     forall ms, In ms (exposed (g xu)) -> ver_good d' k ms) ->
  Good d' k.
Proof.
  intros d d' k ou g xu G Eops Eobjs Hxu Hcur Htab HM.
  assert (Hns : forall f, nsk d' k f = nsk d k f) by (intro f; unfold nsk; rewrite Eops; reflexivity).
  assert (Hkeep : forall o x, nth_error (d_objs d) o = Some x -> (o = ou -> g xu = xu) ->
                    nth_error (d_objs d') o = Some x).
  { intros o x Hx Hg. rewrite Eobjs. destruct (Nat.eq_dec ou o) as [<-|Hne].
    - rewrite (nth_error_upd_nth_eq _ _ _ _ Hxu). rewrite Hx in Hxu. injection Hxu as ->.
      rewrite (Hg eq_refl); reflexivity.
    - rewrite nth_error_upd_nth_neq by exact Hne. exact Hx. }
  assert (Htabs : forall o ents, nth_error (d_objs d) o = Some (mkObj [PTable ents] 1) ->
                    nth_error (d_objs d') o = Some (mkObj [PTable ents] 1)).
  { intros o ents Hx. apply Hkeep; [exact Hx|]. intros ->. rewrite Hx in Hxu. injection Hxu as <-.
    apply (Htab ents); reflexivity. }
  assert (Hvg : forall ms, ver_good d k ms -> ver_good d' k ms).
  { intros ms V. eapply ver_good_frame; [exact V| | |].
    - intros f o _ Hb. rewrite Hns; exact Hb.
    - exact Htabs.
    - intros n Hin. left. rewrite <- Eops; exact Hin. }
  apply Good_view. intros c Hc. rewrite Hns in Hc.
  destruct (proj1 (Good_view _ _) G c Hc) as [m [M [xM [V Hms]]]].
  pose proof V as [V1 [V2 [V3 V4]]].
  assert (Hc' : nth_error (d_objs d') c = Some (mkObj [PCurrent m] 1)).
  { apply Hkeep; [exact V2|]. intros ->. rewrite V2 in Hxu. injection Hxu as <-. apply (Hcur m); reflexivity. }
  destruct (Nat.eq_dec M ou) as [->|Hne].
  - rewrite V4 in Hxu. injection Hxu as ->.
    exists m, ou, (g xu). split.
    + unfold view. rewrite !Hns. repeat split; auto.
      rewrite Eobjs. apply nth_error_upd_nth_eq; exact V4.
    + intros ms Hin. eapply HM; eauto.
  - exists m, M, xM. split.
    + unfold view. rewrite !Hns. repeat split; auto.
      rewrite Eobjs, nth_error_upd_nth_neq by congruence. exact V4.
    + intros ms Hin. apply Hvg, Hms, Hin.
Qed.

Lemma ver_good_upd : forall d d' k ou g xu ms,
  d_ops d' = d_ops d -> d_objs d' = upd_nth (d_objs d) ou g ->
  nth_error (d_objs d) ou = Some xu ->
  (forall ents, xu = mkObj [PTable ents] 1 -> g xu = xu) ->
  ver_good d k ms -> ver_good d' k ms.
Proof.
  intros d d' k ou g xu ms Eops Eobjs Hxu Htab V.
  eapply ver_good_frame; [exact V| | |].
  - intros f o _ Hb. unfold nsk; rewrite Eops; exact Hb.
  - intros o ents Hx. rewrite Eobjs. destruct (Nat.eq_dec ou o) as [<-|Hne].
    + rewrite (nth_error_upd_nth_eq _ _ _ _ Hxu). rewrite Hx in Hxu. injection Hxu as <-.
      rewrite (Htab ents eq_refl); reflexivity.
    + rewrite nth_error_upd_nth_neq by exact Hne. exact Hx.
  - intros n Hin. left. rewrite <- Eops; exact Hin.
Qed.

Lemma Good_ext : forall d d' k, d_ops d' = d_ops d -> d_objs d' = d_objs d -> Good d k -> Good d' k.
Proof.
  intros d d' k Eo Eb G. eapply Good_transfer; [exact G| | |].
  - unfold nsk; rewrite Eo; reflexivity.
  - intros o x H; rewrite Eb; exact H.
  - intros c m M xM [V1 [V2 [V3 V4]]]. split; [unfold nsk; rewrite Eo; exact V3|].
    intros ms _ V. eapply ver_good_frame; [exact V| | |].
    + intros f o _ Hb. unfold nsk; rewrite Eo; exact Hb.
    + intros o ents Hx; rewrite Eb; exact Hx.
    + intros n Hin; left; rewrite <- Eo; exact Hin.
Qed.

(* the object a MANIFEST name denotes does not depend on the cut *)
Lemma same_name_same_obj : forall p k1 k2 f o1 o2, Inv_struct p -> f <> FCurrent ->
  nsk (p_disk p) k1 f = Some o1 -> nsk (p_disk p) k2 f = Some o2 -> o1 = o2.
Proof.
  intros p k1 k2 f o1 o2 I Hf H1 H2. pose proof (is_ops _ I) as W.
  destruct (proj1 (nsk_created _ _ _ _ _ W H1) Hf) as [i1 [_ C1]].
  destruct (proj1 (nsk_created _ _ _ _ _ W H2) Hf) as [i2 [_ C2]].
  assert (i1 = i2) by (eapply create_unique_pos; [apply (ow_nodup _ _ W)|exact C1|exact C2]). subst i2.
  unfold created_at in C1, C2. rewrite C1 in C2. injection C2 as ->. reflexivity.
Qed.

Lemma view_manifest_typed : forall p k c m M xM, Inv_struct p -> view (p_disk p) k c m M xM ->
  exists eds, edits_of (o_recs xM) = Some eds /\ (o_synced xM <= length eds)%nat /\ Forall prev_ok eds.
Proof.
  intros p k c m M xM I [_ [_ [V3 V4]]]. pose proof (is_ops _ I) as W.
  destruct (proj1 (nsk_created _ _ _ _ _ W V3)) as [i [_ C]]; [discriminate|].
  destruct (is_typed _ I _ _ _ _ C V4) as [[eds [He Hp]] [S1 _]].
  exists eds. split; [exact He|split; [|exact Hp]]. rewrite (edits_of_length _ _ He); exact S1.
Qed.

(* the view of the whole directory is the one the rules look at *)
Lemma current_view : forall p m0 x0 k c m M xM, Inv_struct p ->
  current_manifest (p_disk p) = Some m0 -> obj_at (p_disk p) (FManifest m0) = Some x0 ->
  view (p_disk p) k c m M xM ->
  nsk (p_disk p) k FCurrent = nsk (p_disk p) (length (d_ops (p_disk p))) FCurrent ->
  m = m0 /\ xM = x0.
Proof.
  intros p m0 x0 k c m M xM I Hcm Hob [V1 [V2 [V3 V4]]] Hsame.
  unfold current_manifest, obj_at in Hcm. rewrite ns_lookup_nsk, <- Hsame, V1, V2 in Hcm.
  injection Hcm as <-. split; [reflexivity|].
  destruct (obj_at_some _ _ _ Hob) as [M0 [Hl Hx]]. rewrite ns_lookup_nsk in Hl.
  assert (M = M0) by (eapply same_name_same_obj; eauto; discriminate). subst M0.
  rewrite V4 in Hx. injection Hx as <-. reflexivity.
Qed.

Lemma existsb_skipn_mono : forall {A} (f : A -> bool) l k1 k2, (k1 <= k2)%nat ->
  existsb f (skipn k1 l) = false -> existsb f (skipn k2 l) = false.
Proof.
  intros A f l; induction l as [|x r IH]; intros k1 k2 Hle H.
  - rewrite skipn_nil; reflexivity.
  - destruct k2 as [|k2]; [replace k1 with O in H by lia; exact H|].
    cbn [skipn]. destruct k1 as [|k1].
    + cbn [skipn existsb] in H. apply orb_false_iff in H. apply (IH O k2); [lia|apply H].
    + cbn [skipn] in H. apply (IH k1 k2); [lia|exact H].
Qed.

Lemma admissible_same_current : forall p k, Inv_struct p -> admissible (p_disk p) k ->
  no_pending_rename (p_disk p) = true ->
  nsk (p_disk p) k FCurrent = nsk (p_disk p) (length (d_ops (p_disk p))) FCurrent.
Proof.
  intros p k I [A1 A2] Hn. symmetry. eapply nsk_current_norename; [apply (is_ops _ I)|exact A2|lia|].
  rewrite firstn_all. unfold no_pending_rename in Hn. apply negb_true_iff in Hn.
  eapply existsb_skipn_mono; [|exact Hn]. exact A1.
Qed.

Lemma nsk_snoc_old : forall d d' op k, d_ops d' = d_ops d ++ [op] -> (k <= length (d_ops d))%nat ->
  nsk d' k = nsk d k.
Proof. intros d d' op k E H; unfold nsk; rewrite E, firstn_snoc_le by exact H; reflexivity. Qed.

Lemma nsk_snoc_new : forall d d' op, d_ops d' = d_ops d ++ [op] ->
  nsk d' (S (length (d_ops d))) = ns_apply (nsk d (length (d_ops d))) op.
Proof.
  intros d d' op E; unfold nsk. rewrite E, firstn_snoc_S, firstn_all. apply ns_of_snoc.
Qed.

Lemma bound_name_created : forall d n k g o, ops_wf (d_ops d) n -> g <> FCurrent ->
  nsk d k g = Some o -> In g (created_names (d_ops d)).
Proof.
  intros d n k g o W Hg H. destruct (proj1 (nsk_created _ _ _ _ _ W H) Hg) as [i [_ C]].
  apply in_created_names; exists o; eapply nth_error_In; exact C.
Qed.

Lemma pstep_cov_mono : forall p e, p_cov p <= p_cov (pstep p e).
Proof.
  intros p e; rewrite pstep_cov. destruct e as [f|f pl| | |a b|f|id b sy|id ok]; try lia.
  destruct f; try lia. destruct pl as [s ops|ed|ents|m]; try lia.
  destruct (me_log ed); lia.
Qed.

(* ---- steps that leave objects and directory alone *)
Lemma dur_same : forall p e ds, Inv_dur p -> chk_all p e = true ->
  p_disk (pstep p e) = mkDisk (d_objs (p_disk p)) (d_ops (p_disk p)) ds ->
  (d_dsync (p_disk p) <= ds)%nat -> Inv_dur (pstep p e).
Proof.
  intros p e ds I Hchk Ed Hds. constructor.
  - apply struct_step; [apply (id_struct _ I)|exact Hchk].
  - intros k [A1 A2]. rewrite Ed in A1, A2 |- *; cbn [d_dsync d_ops] in A1, A2.
    apply (Good_ext (p_disk p)); [reflexivity|reflexivity|]. apply (id_good _ I). split; lia.
  - intros o x ed l Hx Hin Hl. rewrite Ed in Hx; cbn [d_objs] in Hx.
    pose proof (id_cov _ I _ _ _ _ Hx Hin Hl). pose proof (pstep_cov_mono p e). lia.
  - intros u f Hu. rewrite Ed in Hu |- *. exact (id_unl _ I u f Hu).
Qed.

(* ---- fsync of a file *)
Lemma dur_sync : forall p f o, Inv_dur p -> chk_all p (ESync f) = true ->
  ns_lookup (p_disk p) f = Some o -> Inv_dur (pstep p (ESync f)).
Proof.
  intros p f o I Hchk Hl. pose proof (id_struct _ I) as IS.
  assert (Ed : p_disk (pstep p (ESync f)) =
               mkDisk (upd_nth (d_objs (p_disk p)) o obj_sync) (d_ops (p_disk p)) (length (d_ops (p_disk p)))).
  { rewrite pstep_disk. cbn [fs_step]. rewrite Hl. reflexivity. }
  destruct (lookup_created _ _ _ IS Hl) as [i [g [xu [Hc [Hxu _]]]]].
  constructor.
  - apply struct_step; assumption.
  - intros k [A1 A2]. rewrite Ed in A1, A2 |- *; cbn [d_dsync d_ops] in A1, A2.
    assert (k = length (d_ops (p_disk p))) by lia. subst k.
    assert (G : Good (p_disk p) (length (d_ops (p_disk p)))).
    { apply (id_good _ I). split; [apply (is_dsync _ IS)|lia]. }
    apply (Good_upd (p_disk p) _ _ o obj_sync xu G); try reflexivity; try exact Hxu.
    + intros m ->. reflexivity.
    + intros ents ->. reflexivity.
    + intros c m V Hold ms Hin.
      destruct (view_manifest_typed _ _ _ _ _ _ IS V) as [eds [He [Hs _]]].
      apply (ver_good_upd (p_disk p) _ _ o obj_sync xu); try reflexivity; try exact Hxu.
      * intros ents ->. reflexivity.
      * apply Hold. eapply exposed_sync; eauto.
  - intros o' x ed l Hx Hin Hle. rewrite Ed in Hx; cbn [d_objs] in Hx.
    rewrite pstep_cov. destruct (Nat.eq_dec o o') as [<-|Hne].
    + rewrite (nth_error_upd_nth_eq _ _ _ _ Hxu) in Hx. injection Hx as <-.
      exact (id_cov _ I _ _ _ _ Hxu Hin Hle).
    + rewrite nth_error_upd_nth_neq in Hx by exact Hne. exact (id_cov _ I _ _ _ _ Hx Hin Hle).
  - intros u f' Hu. rewrite Ed in Hu |- *. exact (id_unl _ I u f' Hu).
Qed.

Lemma table_ok_spec : forall d t, fs_table_ok d t = true ->
  exists o ents, ns_lookup d (FTable t) = Some o /\ nth_error (d_objs d) o = Some (mkObj [PTable ents] 1).
Proof.
  intros d t H; unfold fs_table_ok in H. destruct (obj_at d (FTable t)) as [x|] eqn:E; [|discriminate].
  destruct (obj_at_some _ _ _ E) as [o [Hl Hx]].
  destruct x as [recs sy]. destruct recs as [|r1 rs]; [discriminate|].
  destruct r1; try discriminate. destruct rs; [|discriminate].
  destruct sy as [|[|sy]]; try discriminate. exists o, ents; auto.
Qed.

(* a complete fsynced table of the running directory is in every admissible cut *)
Lemma table_ok_good : forall p k t, Inv_struct p -> admissible (p_disk p) k ->
  fs_table_ok (p_disk p) t = true -> table_good (p_disk p) k t.
Proof.
  intros p k t IS [A1 A2] H. destruct (table_ok_spec _ _ H) as [o [ents [Hl Hx]]].
  destruct (lookup_created _ _ _ IS Hl) as [i [g [x [Hc [Hx' [Hg _]]]]]].
  rewrite Hx in Hx'; injection Hx' as <-. specialize (Hg ltac:(discriminate)); subst g.
  destruct (is_typed _ IS _ _ _ _ Hc Hx) as [_ [_ S2]]. cbn [o_synced] in S2. specialize (S2 ltac:(lia)).
  exists o, ents; split; [|exact Hx].
  eapply nsk_stable; [apply (is_ops _ IS)|discriminate|exact Hc| |exact A2| |].
  - lia.
  - lia.
  - rewrite <- ns_lookup_nsk; exact Hl.
Qed.

Lemma log_dead_apply : forall ms e n L, log_dead ms n = true -> mv_log ms = Some L ->
  (forall l, me_log e = Some l -> L <= l) -> log_dead (apply_edit ms e) n = true.
Proof.
  intros ms e n L H HL Hle. unfold log_dead in *. rewrite HL in H. cbn [apply_edit mv_log].
  destruct (me_log e) as [l|]; cbn [or_else].
  - specialize (Hle l eq_refl). apply N.ltb_lt in H. apply N.ltb_lt. lia.
  - rewrite HL. exact H.
Qed.

(* ---- a record is appended *)
Lemma dur_append : forall p f pl, Inv_dur p -> chk_all p (EAppend f pl) = true ->
  Inv_dur (pstep p (EAppend f pl)).
Proof.
  intros p f pl I Hchk. pose proof (id_struct _ I) as IS. pose proof (is_ops _ IS) as W.
  pose proof Hchk as Hchk0. apply chk_all_iff in Hchk.
  destruct Hchk as [H0 [_ [H2 [_ [_ [H5 _]]]]]].
  cbn [chk_R0] in H0. destruct (obj_at (p_disk p) f) as [xu|] eqn:Ex; [|discriminate].
  destruct (obj_at_some _ _ _ Ex) as [o [Hl Hxu]].
  assert (Hf : f <> FCurrent) by (intros ->; discriminate).
  destruct (lookup_created _ _ _ IS Hl) as [i [g [x' [Hc [Hx' [Hg _]]]]]].
  specialize (Hg Hf); subst g. clear x' Hx'.
  destruct (is_typed _ IS _ _ _ _ Hc Hxu) as [T [S1 S2]].
  assert (Ed : p_disk (pstep p (EAppend f pl)) =
               mkDisk (upd_nth (d_objs (p_disk p)) o (obj_append pl)) (d_ops (p_disk p)) (d_dsync (p_disk p))).
  { rewrite pstep_disk. cbn [fs_step]. rewrite Hl. reflexivity. }
  assert (K1 : forall m, xu = mkObj [PCurrent m] 1 -> obj_append pl xu = xu).
  { intros m ->. exfalso. cbn [o_recs] in H0, T.
    destruct f, pl; try discriminate; cbn [typed o_recs] in T.
    - destruct T as [bs Hb]; discriminate.
    - destruct T as [eds [He _]]; discriminate. }
  assert (K2 : forall ents, xu = mkObj [PTable ents] 1 -> obj_append pl xu = xu).
  { intros ents ->. exfalso. cbn [o_recs] in H0, T.
    destruct f, pl; try discriminate; cbn [typed o_recs] in T.
    - destruct T as [bs Hb]; discriminate.
    - destruct T as [eds [He _]]; discriminate. }
  constructor.
  - apply struct_step; assumption.
  - intros k A. assert (A' : admissible (p_disk p) k).
    { destruct A as [A1 A2]. rewrite Ed in A1, A2; cbn [d_dsync d_ops] in A1, A2. split; assumption. }
    rewrite Ed. pose proof (id_good _ I k A') as G.
    apply (Good_upd (p_disk p) _ _ o (obj_append pl) xu G); try reflexivity; try assumption.
    intros c m V Hold ms Hin.
    destruct V as [V1 [V2 [V3 V4]]].
    destruct (proj1 (nsk_created _ _ _ _ _ W V3)) as [i' [_ C']]; [discriminate|].
    destruct (created_unique _ _ _ _ _ _ _ W Hc C') as [-> ->].
    destruct pl as [s ops|ed|ents|cm]; try discriminate.
    destruct T as [eds [He Hp]].
    assert (Hs : (o_synced xu <= length eds)%nat) by (rewrite (edits_of_length _ _ He); exact S1).
    destruct (exposed_append _ _ _ He Hs _ Hin) as [Hin' | ->].
    + apply (ver_good_upd (p_disk p) _ k o (obj_append (PEdit ed)) xu ms);
        [reflexivity|reflexivity|exact Hxu|exact K2|apply Hold; exact Hin'].
    + pose proof (Hold _ (exposed_last _ _ He Hs)) as V0.
      pose proof (ver_good_upd (p_disk p) (mkDisk (upd_nth (d_objs (p_disk p)) o (obj_append (PEdit ed)))
                   (d_ops (p_disk p)) (d_dsync (p_disk p))) k o (obj_append (PEdit ed)) xu _ eq_refl eq_refl Hxu K2 V0) as V0'.
      destruct V0 as [M1 [M2 M3]]. destruct V0' as [_ [M2' _]].
      split; [apply manifest_ok_apply; exact M1|split].
      * intros f' Hin'. destruct (in_apply_files _ _ _ Hin') as [Hold'|Hnew].
        -- apply M2'; exact Hold'.
        -- cbn [chk_R2] in H2. rewrite forallb_forall in H2. specialize (H2 _ Hnew).
           destruct (table_ok_good _ _ _ IS A' H2) as [ot [ents [Hb Hx]]].
           exists ot, ents. split; [exact Hb|]. cbn [d_objs].
           rewrite nth_error_upd_nth_neq; [exact Hx|].
           intros <-. rewrite Hxu in Hx. injection Hx as ->. discriminate.
      * intros n Hin'. cbn [d_ops] in Hin'. specialize (M3 n Hin').
        unfold manifest_ok in M1. destruct (mv_log (replay eds)) as [L|] eqn:EL.
        2:{ destruct (mv_next (replay eds)); discriminate. }
        eapply log_dead_apply; [exact M3|exact EL|].
        intros l Hle. cbn [chk_R5] in H5. rewrite Hle in H5.
        apply andb_true_iff in H5. destruct H5 as [H5 _]. apply andb_true_iff in H5. destruct H5 as [H5 _].
        apply N.leb_le in H5.
        pose proof (exposed_log_le_cov _ _ _ _ _ I Hxu (exposed_last _ _ He Hs) EL). lia.
  - intros o' x ed l Hx Hin Hle. rewrite Ed in Hx; cbn [d_objs] in Hx.
    pose proof (pstep_cov_mono p (EAppend f pl)) as Hmono.
    destruct (Nat.eq_dec o o') as [<-|Hne].
    + rewrite (nth_error_upd_nth_eq _ _ _ _ Hxu) in Hx. injection Hx as <-.
      unfold obj_append in Hin; cbn [o_recs] in Hin. apply in_app_or in Hin. destruct Hin as [Hin|[Hin|[]]].
      * pose proof (id_cov _ I _ _ _ _ Hxu Hin Hle). lia.
      * subst pl. destruct f; try discriminate. rewrite pstep_cov. rewrite Hle. lia.
    + rewrite nth_error_upd_nth_neq in Hx by exact Hne.
      pose proof (id_cov _ I _ _ _ _ Hx Hin Hle). lia.
  - intros u f' Hu. rewrite Ed in Hu |- *. exact (id_unl _ I u f' Hu).
Qed.

(* ---- directory operations: the cuts that do not contain the new operation *)
Lemma Good_snoc_old : forall d d' op k, d_ops d' = d_ops d ++ [op] ->
  (forall o x, nth_error (d_objs d) o = Some x -> nth_error (d_objs d') o = Some x) ->
  (k <= length (d_ops d))%nat -> Good d k ->
  (forall n c m M xM ms, op = DUnlink (FLog n) -> view d k c m M xM -> In ms (exposed xM) -> log_dead ms n = true) ->
  Good d' k.
Proof.
  intros d d' op k Eops Hext Hk G Hdead.
  pose proof (nsk_snoc_old d d' op k Eops Hk) as Hns.
  eapply Good_transfer; [exact G|rewrite Hns; reflexivity|exact Hext|].
  intros c m M xM V. split; [rewrite Hns; apply V|].
  intros ms Hin Vg. eapply ver_good_frame; [exact Vg| | |].
  - intros f o _ Hb. rewrite Hns; exact Hb.
  - intros o ents Hx; apply Hext; exact Hx.
  - intros n Hin'. rewrite Eops in Hin'. apply in_app_or in Hin'. destruct Hin' as [Hin'|[Hin'|[]]].
    + left; exact Hin'.
    + right. eapply Hdead; eauto.
Qed.

Lemma cov_ext : forall p p', Inv_dur p -> p_cov p <= p_cov p' ->
  (forall o x, nth_error (d_objs (p_disk p')) o = Some x ->
     nth_error (d_objs (p_disk p)) o = Some x \/ o_recs x = []) ->
  forall o x e l, nth_error (d_objs (p_disk p')) o = Some x -> In (PEdit e) (o_recs x) -> me_log e = Some l -> l <= p_cov p'.
Proof.
  intros p p' I Hc Hobj o x e l Hx Hin Hl. destruct (Hobj _ _ Hx) as [Hx'|Hn].
  - pose proof (id_cov _ I _ _ _ _ Hx' Hin Hl). lia.
  - rewrite Hn in Hin; contradiction.
Qed.

Lemma unl_snoc : forall p d' op, Inv_dur p -> d_ops d' = d_ops (p_disk p) ++ [op] ->
  (forall f, op = DUnlink f -> exists i o, created_at (p_disk p) i f o) ->
  forall u f, nth_error (d_ops d') u = Some (DUnlink f) -> exists i o, (i < u)%nat /\ created_at d' i f o.
Proof.
  intros p d' op I Eops Hop u f Hu. rewrite Eops in Hu.
  destruct (nth_snoc_inv _ _ _ _ Hu) as [Hold|[-> Hnew]].
  - destruct (id_unl _ I u f Hold) as [i [o [Hi Hc]]]. exists i, o; split; [exact Hi|].
    unfold created_at; rewrite Eops. apply nth_error_snoc_old; exact Hc.
  - destruct (Hop f Hnew) as [i [o Hc]]. exists i, o. split.
    + apply nth_error_Some. unfold created_at in Hc; congruence.
    + unfold created_at; rewrite Eops. apply nth_error_snoc_old; exact Hc.
Qed.

(* ---- ECreate *)
Lemma dur_create : forall p f, Inv_dur p -> chk_all p (ECreate f) = true -> Inv_dur (pstep p (ECreate f)).
Proof.
  intros p f I Hchk. pose proof (id_struct _ I) as IS. pose proof (is_ops _ IS) as W.
  pose proof Hchk as Hchk0. apply chk_all_iff in Hchk.
  destruct Hchk as [H0 [_ [_ [_ [_ [_ [H6 _]]]]]]].
  cbn [chk_R0] in H0. apply negb_true_iff, fname_eqb_neq in H0.
  cbn [chk_R6] in H6. apply andb_true_iff in H6. destruct H6 as [Hfresh _]. apply negb_true_iff in Hfresh.
  assert (Hnew : ~ In f (created_names (d_ops (p_disk p)))).
  { intro Hin. apply (is_created _ IS) in Hin.
    assert (existsb (fname_eqb f) (p_created p) = true).
    { apply existsb_exists; exists f; split; [exact Hin|apply fname_eqb_refl]. }
    congruence. }
  set (d := p_disk p) in *.
  set (d' := mkDisk (d_objs d ++ [mkObj [] 0]) (d_ops d ++ [DCreate f (length (d_objs d))]) (d_dsync d)).
  assert (Ed : p_disk (pstep p (ECreate f)) = d').
  { rewrite pstep_disk; reflexivity. }
  assert (Hext : forall o x, nth_error (d_objs d) o = Some x -> nth_error (d_objs d ++ [mkObj [] 0]) o = Some x).
  { intros o x Hx. apply nth_error_snoc_old; exact Hx. }
  constructor.
  - apply struct_step; assumption.
  - intros k [A1 A2]. rewrite Ed in A1, A2 |- *. cbn [d' d_dsync d_ops] in A1, A2.
    rewrite app_length in A2; cbn [length] in A2.
    destruct (Nat.eq_dec k (S (length (d_ops d)))) as [->|Hne].
    + assert (G : Good d (length (d_ops d))).
      { apply (id_good _ I). fold d. split; [apply (is_dsync _ IS)|lia]. }
      assert (Hns : forall g, g <> f -> nsk d' (S (length (d_ops d))) g = nsk d (length (d_ops d)) g).
      { intros g Hg. rewrite (nsk_snoc_new d d' (DCreate f (length (d_objs d))) eq_refl). cbn [ns_apply].
        destruct (fname_eqb g f) eqn:E; [apply fname_eqb_eq in E; contradiction|reflexivity]. }
      assert (Hbound : forall g o, g <> FCurrent -> nsk d (length (d_ops d)) g = Some o -> g <> f).
      { intros g o Hg Hb ->. apply Hnew. eapply bound_name_created; eauto. }
      eapply Good_transfer; [exact G| |exact Hext|].
      * apply Hns. congruence.
      * intros c m M xM V. pose proof V as [V1 [V2 [V3 V4]]]. split.
        -- rewrite Hns; [exact V3|]. eapply Hbound; [discriminate|exact V3].
        -- intros ms Hin Vg. eapply ver_good_frame; [exact Vg| | |].
           ++ intros f' o _ Hb. rewrite Hns; [exact Hb|]. eapply Hbound; [discriminate|exact Hb].
           ++ intros o ents Hx; apply Hext; exact Hx.
           ++ intros n Hin'. cbn [d_ops] in Hin'. apply in_app_or in Hin'.
              destruct Hin' as [Hin'|[Hin'|[]]]; [left; exact Hin'|discriminate].
    + eapply (Good_snoc_old d d' (DCreate f (length (d_objs d)))); [reflexivity|exact Hext|lia| |].
      * apply (id_good _ I). fold d. split; lia.
      * intros; discriminate.
  - apply (cov_ext p); [exact I|apply pstep_cov_mono|].
    intros o x Hx. rewrite Ed in Hx; cbn [d' d_objs] in Hx.
    destruct (nth_snoc_inv _ _ _ _ Hx) as [Hold|[_ <-]]; [left; exact Hold|right; reflexivity].
  - rewrite Ed. apply (unl_snoc p d' (DCreate f (length (d_objs d))) I eq_refl). intros; discriminate.
Qed.

(* ---- what the rules R3 / R4 say *)
Lemma R3_log_spec : forall p n, chk_R3 p (EUnlink (FLog n)) = true ->
  no_pending_rename (p_disk p) = true /\
  exists m0 x0, current_manifest (p_disk p) = Some m0 /\ obj_at (p_disk p) (FManifest m0) = Some x0 /\
    forall ms, In ms (exposed x0) -> log_dead ms n = true.
Proof.
  intros p n H; cbn [chk_R3] in H. apply andb_true_iff in H. destruct H as [Hn H]. split; [exact Hn|].
  destruct (current_manifest (p_disk p)) as [m0|] eqn:Ecm; [|discriminate].
  destruct (obj_at (p_disk p) (FManifest m0)) as [x0|] eqn:Eob; [|discriminate].
  exists m0, x0. split; [reflexivity|split; [assumption|]]. rewrite forallb_forall in H. exact H.
Qed.

Lemma R3_table_spec : forall p t, chk_R3 p (EUnlink (FTable t)) = true ->
  exists m0 x0, current_manifest (p_disk p) = Some m0 /\ obj_at (p_disk p) (FManifest m0) = Some x0 /\
    forall ms f, In ms (exposed x0) -> In f (mv_files ms) -> snd f <> t.
Proof.
  intros p t H; cbn [chk_R3] in H.
  destruct (current_manifest (p_disk p)) as [m0|] eqn:Ecm; [|discriminate].
  destruct (obj_at (p_disk p) (FManifest m0)) as [x0|] eqn:Eob; [|discriminate].
  exists m0, x0. split; [reflexivity|split; [assumption|]]. rewrite forallb_forall in H.
  intros ms f Hms Hf Heq. specialize (H _ Hms). apply negb_true_iff in H.
  assert (existsb (fun f0 : nat * N => snd f0 =? t) (mv_files ms) = true).
  { apply existsb_exists; exists f; split; [exact Hf|apply N.eqb_eq; exact Heq]. }
  congruence.
Qed.

Lemma R4_unlink_spec : forall p m', chk_R4 p (EUnlink (FManifest m')) = true ->
  exists m0, current_manifest (p_disk p) = Some m0 /\ m0 <> m'.
Proof.
  intros p m' H; cbn [chk_R4] in H.
  destruct (current_manifest (p_disk p)) as [m0|] eqn:Ecm; [|discriminate].
  exists m0; split; [reflexivity|]. apply negb_true_iff, N.eqb_neq in H. exact H.
Qed.

Lemma R4_rename_spec : forall p t, chk_R4 p (ERename (FTmp t) FCurrent) = true ->
  exists m x, obj_at (p_disk p) (FTmp t) = Some (mkObj [PCurrent m] 1) /\
    obj_at (p_disk p) (FManifest m) = Some x /\
    forall ms, In ms (exposed x) ->
      manifest_ok ms = true /\
      (forall f, In f (mv_files ms) -> fs_table_ok (p_disk p) (snd f) = true) /\
      (forall l, In l (p_logs p) -> ns_lookup (p_disk p) (FLog (fst l)) = None -> log_dead ms (fst l) = true).
Proof.
  intros p t H; cbn [chk_R4] in H.
  destruct (obj_at (p_disk p) (FTmp t)) as [[recs sy]|] eqn:Etmp; [|discriminate].
  destruct recs as [|r1 rs]; [discriminate|]. destruct r1; try discriminate.
  destruct rs; [|discriminate]. destruct sy as [|[|sy]]; try discriminate.
  destruct (obj_at (p_disk p) (FManifest m)) as [x|] eqn:Eman; [|discriminate].
  apply andb_true_iff in H. destruct H as [_ H]. rewrite forallb_forall in H.
  exists m, x. split; [reflexivity|split; [assumption|]].
  intros ms Hms. specialize (H _ Hms). apply andb_true_iff in H. destruct H as [H H3].
  apply andb_true_iff in H. destruct H as [H1 H2]. rewrite forallb_forall in H2, H3.
  split; [exact H1|split; [exact H2|]].
  intros l Hl Hn. specialize (H3 _ Hl). rewrite Hn in H3. exact H3.
Qed.

(* ---- ERename tmp -> CURRENT *)
Lemma dur_rename : forall p t ot, Inv_dur p -> chk_all p (ERename (FTmp t) FCurrent) = true ->
  ns_lookup (p_disk p) (FTmp t) = Some ot -> Inv_dur (pstep p (ERename (FTmp t) FCurrent)).
Proof.
  intros p t ot I Hchk Hl. pose proof (id_struct _ I) as IS. pose proof (is_ops _ IS) as W.
  pose proof Hchk as Hchk0. apply chk_all_iff in Hchk.
  destruct Hchk as [_ [_ [_ [_ [H4 _]]]]].
  set (d := p_disk p) in *.
  set (d' := mkDisk (d_objs d) (d_ops d ++ [DRename (FTmp t) FCurrent]) (d_dsync d)).
  assert (Ed : p_disk (pstep p (ERename (FTmp t) FCurrent)) = d').
  { rewrite pstep_disk. cbn [fs_step]. fold d. rewrite Hl. reflexivity. }
  constructor.
  - apply struct_step; assumption.
  - intros k [A1 A2]. rewrite Ed in A1, A2 |- *. cbn [d' d_dsync d_ops] in A1, A2.
    rewrite app_length in A2; cbn [length] in A2.
    destruct (Nat.eq_dec k (S (length (d_ops d)))) as [->|Hne].
    + destruct (R4_rename_spec _ _ H4) as [m [x [Htmp [Hman Hall]]]]. fold d in Htmp, Hman, Hall.
      assert (Hns : forall g, nsk d' (S (length (d_ops d))) g =
                     if fname_eqb g FCurrent then Some ot else if fname_eqb g (FTmp t) then None else nsk d (length (d_ops d)) g).
      { intro g. rewrite (nsk_snoc_new d d' (DRename (FTmp t) FCurrent) eq_refl). cbn [ns_apply].
        rewrite <- ns_lookup_nsk, Hl. reflexivity. }
      destruct (obj_at_some _ _ _ Htmp) as [ot' [Hl' Hxt]]. rewrite Hl in Hl'; injection Hl' as <-.
      destruct (obj_at_some _ _ _ Hman) as [M [HlM HxM]].
      apply Good_view. intros c Hc. rewrite Hns in Hc. cbn [fname_eqb] in Hc. injection Hc as <-.
      exists m, M, x. split.
      * unfold view. rewrite !Hns. cbn [fname_eqb d' d_objs]. rewrite <- ns_lookup_nsk. auto.
      * intros ms Hms. destruct (Hall _ Hms) as [R1 [R2 R3]]. split; [exact R1|split].
        -- intros f Hf. destruct (table_ok_spec _ _ (R2 _ Hf)) as [o' [ents [Hb Hx]]].
           exists o', ents. split; [|exact Hx]. rewrite Hns. cbn [fname_eqb]. rewrite <- ns_lookup_nsk; exact Hb.
        -- intros n Hin. cbn [d' d_ops] in Hin. apply in_app_or in Hin.
           destruct Hin as [Hin|[Hin|[]]]; [|discriminate].
           apply In_nth_error in Hin. destruct Hin as [u Hu].
           destruct (id_unl _ I u _ Hu) as [i [o [Hi Hc]]].
           pose proof (in_logs_of_created _ _ _ _ IS Hc) as Hlog.
           apply in_map_iff in Hlog. destruct Hlog as [[n' bs] [En Hlog]]. cbn [fst] in En; subst n'.
           apply (R3 _ Hlog). cbn [fst]. rewrite ns_lookup_nsk.
           eapply nsk_unlinked; [exact W|exact Hc|exact Hu|exact Hi| |lia].
           apply nth_error_Some. fold d in Hu. congruence.
    + eapply (Good_snoc_old d d' (DRename (FTmp t) FCurrent)); [reflexivity|auto|lia| |].
      * apply (id_good _ I). fold d. split; lia.
      * intros; discriminate.
  - apply (cov_ext p); [exact I|apply pstep_cov_mono|].
    intros o x Hx. rewrite Ed in Hx. left; exact Hx.
  - rewrite Ed. apply (unl_snoc p d' (DRename (FTmp t) FCurrent) I eq_refl). intros; discriminate.
Qed.

(* ---- EUnlink *)
Lemma dur_unlink : forall p f, Inv_dur p -> chk_all p (EUnlink f) = true -> Inv_dur (pstep p (EUnlink f)).
Proof.
  intros p f I Hchk. pose proof (id_struct _ I) as IS. pose proof (is_ops _ IS) as W.
  pose proof Hchk as Hchk0. apply chk_all_iff in Hchk.
  destruct Hchk as [H0 [_ [_ [H3 [H4 _]]]]].
  cbn [chk_R0] in H0. apply andb_true_iff in H0. destruct H0 as [Hf Hb].
  apply negb_true_iff, fname_eqb_neq in Hf.
  destruct (ns_lookup (p_disk p) f) as [o|] eqn:Hl; [clear Hb|discriminate].
  set (d := p_disk p) in *.
  set (d' := mkDisk (d_objs d) (d_ops d ++ [DUnlink f]) (d_dsync d)).
  assert (Ed : p_disk (pstep p (EUnlink f)) = d').
  { rewrite pstep_disk. cbn [fs_step]. fold d. rewrite Hl. reflexivity. }
  (* whatever the cut, the view is the one of the running directory when no rename is pending *)
  assert (Hdead : forall k n c m M xM ms, admissible d k -> f = FLog n -> view d k c m M xM ->
            In ms (exposed xM) -> log_dead ms n = true).
  { intros k n c m M xM ms A -> V Hms.
    destruct (R3_log_spec _ _ H3) as [Hnp [m0 [x0 [Hcm [Hob Hd]]]]].
    destruct (current_view _ _ _ _ _ _ _ _ IS Hcm Hob V) as [_ ->].
    - apply admissible_same_current; assumption.
    - apply Hd; exact Hms. }
  constructor.
  - apply struct_step; assumption.
  - intros k [A1 A2]. rewrite Ed in A1, A2 |- *. cbn [d' d_dsync d_ops] in A1, A2.
    rewrite app_length in A2; cbn [length] in A2.
    destruct (Nat.eq_dec k (S (length (d_ops d)))) as [->|Hne].
    + assert (Alen : admissible d (length (d_ops d))).
      { split; [apply (is_dsync _ IS)|lia]. }
      pose proof (id_good _ I _ Alen) as G. fold d in G.
      assert (Hns : forall g, nsk d' (S (length (d_ops d))) g =
                     if fname_eqb g f then None else nsk d (length (d_ops d)) g).
      { intro g. rewrite (nsk_snoc_new d d' (DUnlink f) eq_refl). reflexivity. }
      assert (Hcur : forall c m M xM, view d (length (d_ops d)) c m M xM ->
                forall m0 x0, current_manifest d = Some m0 -> obj_at d (FManifest m0) = Some x0 -> m = m0 /\ xM = x0).
      { intros c m M xM V m0 x0 Hcm Hob. eapply (current_view p); eauto. }
      eapply Good_transfer; [exact G| |auto|].
      * rewrite Hns. destruct (fname_eqb FCurrent f) eqn:E; [|reflexivity].
        apply fname_eqb_eq in E; congruence.
      * intros c m M xM V. pose proof V as [V1 [V2 [V3 V4]]]. split.
        -- rewrite Hns. destruct (fname_eqb (FManifest m) f) eqn:E; [|exact V3].
           apply fname_eqb_eq in E; subst f.
           destruct (R4_unlink_spec _ _ H4) as [m0 [Hcm Hne]]. fold d in Hcm.
           destruct (obj_at d (FManifest m0)) as [x0|] eqn:Eob.
           ++ destruct (Hcur _ _ _ _ V _ _ Hcm Eob) as [-> _]. congruence.
           ++ exfalso. unfold current_manifest, obj_at in Hcm. rewrite ns_lookup_nsk, V1, V2 in Hcm.
              injection Hcm as <-. unfold obj_at in Eob. rewrite ns_lookup_nsk, V3, V4 in Eob. discriminate.
        -- intros ms Hms Vg. eapply ver_good_frame; [exact Vg| | |].
           ++ intros f' o' Hf' Hb. rewrite Hns. destruct (fname_eqb (FTable (snd f')) f) eqn:E; [|exact Hb].
              apply fname_eqb_eq in E; subst f.
              destruct (R3_table_spec _ _ H3) as [m0 [x0 [Hcm [Hob Hnot]]]]. fold d in Hcm, Hob.
              destruct (Hcur _ _ _ _ V _ _ Hcm Hob) as [_ ->].
              exfalso. eapply Hnot; eauto.
           ++ auto.
           ++ intros n Hin. cbn [d' d_ops] in Hin. apply in_app_or in Hin.
              destruct Hin as [Hin|[Hin|[]]]; [left; exact Hin|right].
              injection Hin as ->. eapply Hdead; eauto.
    + eapply (Good_snoc_old d d' (DUnlink f)); [reflexivity|auto|lia| |].
      * apply (id_good _ I). fold d. split; lia.
      * intros n c m M xM ms Hop V Hms. injection Hop as ->.
        eapply (Hdead k); eauto. split; lia.
  - apply (cov_ext p); [exact I|apply pstep_cov_mono|].
    intros o' x Hx. rewrite Ed in Hx. left; exact Hx.
  - rewrite Ed. apply (unl_snoc p d' (DUnlink f) I eq_refl).
    intros f' Hf'. injection Hf' as <-.
    destruct (lookup_created _ _ _ IS Hl) as [i [g [x [Hc [_ [Hg _]]]]]]. rewrite (Hg Hf) in Hc. eauto.
Qed.

(* ---- every accepted step preserves the durable invariant *)
Lemma dur_step : forall p e, Inv_dur p -> chk_all p e = true -> Inv_dur (pstep p e).
Proof.
  intros p e I Hchk. pose proof (id_struct _ I) as IS.
  destruct e as [f|f pl| | |a b|f|id b sy|id ok].
  - apply dur_create; assumption.
  - apply dur_append; assumption.
  - destruct (ns_lookup (p_disk p) f) as [o|] eqn:Hl.
    + eapply dur_sync; eauto.
    + apply (dur_same p _ (d_dsync (p_disk p))); [exact I|exact Hchk| |lia].
      rewrite pstep_disk. cbn [fs_step]. rewrite Hl. apply disk_eta.
  - apply (dur_same p _ (length (d_ops (p_disk p)))); [exact I|exact Hchk|reflexivity|apply (is_dsync _ IS)].
  - pose proof Hchk as Hc. apply chk_all_iff in Hc. destruct Hc as [H0 _].
    cbn [chk_R0] in H0. destruct a; try discriminate. destruct b; try discriminate.
    destruct (ns_lookup (p_disk p) (FTmp n)) as [o|] eqn:Hl.
    + eapply dur_rename; eauto.
    + apply (dur_same p _ (d_dsync (p_disk p))); [exact I|exact Hchk| |lia].
      rewrite pstep_disk. cbn [fs_step]. rewrite Hl. apply disk_eta.
  - apply dur_unlink; assumption.
  - apply (dur_same p _ (d_dsync (p_disk p))); [exact I|exact Hchk| |lia]. rewrite pstep_disk. apply disk_eta.
  - apply (dur_same p _ (d_dsync (p_disk p))); [exact I|exact Hchk| |lia]. rewrite pstep_disk. apply disk_eta.
Qed.

Lemma Inv_dur_p0 : Inv_dur p0.
Proof.
  constructor.
  - constructor; cbn.
    + constructor; cbn; try (intros; contradiction); try constructor; intros [].
    + lia.
    + intro f; tauto.
    + intros i f o x H; destruct i; discriminate.
    + reflexivity.
    + repeat constructor.
    + intros n bs i o x [].
  - intros k [A1 A2] c Hc. cbn in A2. assert (k = O) by lia. subst k. discriminate.
  - intros o x e l H. destruct o; discriminate.
  - intros u f H. destruct u; discriminate.
Qed.

Theorem Inv_dur_run : forall tr, wf_protocol tr = true -> Inv_dur (prun tr).
Proof.
  intro tr; induction tr as [|e tr IH] using rev_ind; intro H.
  - exact Inv_dur_p0.
  - apply wf_protocol_snoc in H. destruct H as [H1 H2]. rewrite prun_snoc. apply dur_step; auto.
Qed.
