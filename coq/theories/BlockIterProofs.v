(* BlockIterProofs.v -- (c, forward half) on a built block the iterator enumerates
   exactly the entries: First positions on the first entry, every Next on the
   following one, and the Next after the last entry invalidates the iterator with
   status OK.  Together with block_entries_build this says that the two readers of
   the model (linear decoder and iterator state machine) agree on built blocks. *)
From LCDB Require Import Base Varint Block BaseProofs VarintProofs BlockProofs.
Require Import Lia ZifyBool ZifyNat ZifyN.
Ltac Zify.zify_post_hook ::= Z.div_mod_to_equations.
Local Open Scope N_scope.

Lemma take_n_app_ge : forall (a r : bytes) w, nlen a <= w ->
  take_n w (a ++ r) = a ++ take_n (w - nlen a) r.
Proof.
  intros a r w H. unfold take_n. rewrite firstn_app. unfold nlen in *.
  rewrite firstn_all2 by lia. f_equal. f_equal. lia.
Qed.

Definition hdr_bytes (s ns vl : N) : bytes :=
  varint32_write s ++ varint32_write ns ++ varint32_write vl.

Lemma hdr_bytes_length : forall s ns vl,
  s < 4294967296 -> ns < 4294967296 -> vl < 4294967296 -> 3 <= nlen (hdr_bytes s ns vl) <= 15.
Proof.
  intros. unfold hdr_bytes. rewrite !nlen_app.
  pose proof (varint32_write_length_le s). pose proof (varint32_write_length_le ns).
  pose proof (varint32_write_length_le vl). lia.
Qed.

Definition decode_entry_slow (sub : bytes) (p limit : N)
  : res (option (N * N * N * N * bytes)) :=
  let xn := limit - p in
  let wlen := N.min xn 15 in
  let w := take_n wlen sub in
  if negb (nlen w =? wlen) then OOB
  else
    match varint32_read w with
    | None => Ok None
    | Some (shared, w1) =>
      match varint32_read w1 with
      | None => Ok None
      | Some (non_shared, w2) =>
        match varint32_read w2 with
        | None => Ok None
        | Some (value_length, w3) =>
            let used := wlen - nlen w3 in
            if xn - used <? non_shared + value_length then Ok None
            else Ok (Some (shared, non_shared, value_length, used, drop_n used sub))
        end
      end
    end.

Lemma decode_entry_slow_eq : forall sub p limit,
  (limit <? p) = false -> (limit - p <? 3) = false ->
  (3 <= length sub)%nat -> hd3_small sub = false ->
  decode_entry sub p limit = decode_entry_slow sub p limit.
Proof.
  intros sub p limit H1 H2 Hl Hs. unfold decode_entry. rewrite H1, H2.
  destruct sub as [|a [|b [|c rest]]]; cbn [length] in Hl; try lia.
  cbn [hd3_small] in Hs. rewrite Hs. reflexivity.
Qed.

(* decode_entry on an encoded header *)
Lemma decode_entry_encode : forall s ns vl tail p limit,
  s < 4294967296 -> ns < 4294967296 -> vl < 4294967296 ->
  p + nlen (hdr_bytes s ns vl) + ns + vl <= limit ->
  limit - p <= nlen (hdr_bytes s ns vl ++ tail) ->
  decode_entry (hdr_bytes s ns vl ++ tail) p limit
  = Ok (Some (s, ns, vl, nlen (hdr_bytes s ns vl), tail)).
Proof.
  intros s ns vl tail p limit Hs Hns Hvl Hlim Hsub.
  pose proof (hdr_bytes_length s ns vl Hs Hns Hvl) as Hh.
  assert (Hslow : decode_entry_slow (hdr_bytes s ns vl ++ tail) p limit
                  = Ok (Some (s, ns, vl, nlen (hdr_bytes s ns vl), tail))).
  { unfold decode_entry_slow. cbv zeta.
    set (wlen := N.min (limit - p) 15).
    assert (Hw : nlen (hdr_bytes s ns vl) <= wlen) by (subst wlen; lia).
    rewrite nlen_take_n_le by (subst wlen; lia). rewrite N.eqb_refl. cbn [negb].
    rewrite take_n_app_ge by exact Hw.
    unfold hdr_bytes at 1. rewrite <- !app_assoc.
    rewrite varint32_read_write by exact Hs.
    rewrite varint32_read_write by exact Hns.
    rewrite varint32_read_write by exact Hvl.
    rewrite nlen_app in Hsub.
    rewrite nlen_take_n_le by (subst wlen; lia).
    replace (wlen - (wlen - nlen (hdr_bytes s ns vl))) with (nlen (hdr_bytes s ns vl)) by lia.
    replace (limit - p - nlen (hdr_bytes s ns vl) <? ns + vl) with false by lia.
    rewrite drop_n_nlen_app. reflexivity. }
  destruct (N.ltb_spec s 128) as [S1|S1];
  [destruct (N.ltb_spec ns 128) as [S2|S2];
   [destruct (N.ltb_spec vl 128) as [S3|S3]|]|].
  - (* fast path *)
    unfold decode_entry.
    replace (limit <? p) with false by lia.
    replace (limit - p <? 3) with false by lia.
    assert (Ehdr : hdr_bytes s ns vl = [s; ns; vl]).
    { unfold hdr_bytes. rewrite !varint32_write_small by assumption. reflexivity. }
    rewrite Ehdr in *. change (nlen [s; ns; vl]) with 3 in *. cbn [app].
    replace (s <? 128) with true by lia. replace (ns <? 128) with true by lia.
    replace (vl <? 128) with true by lia. cbn [andb].
    replace (limit - p - 3 <? ns + vl) with false by lia. reflexivity.
  - rewrite decode_entry_slow_eq; [exact Hslow|lia|lia| |].
    + rewrite app_length. unfold nlen in Hh. lia.
    + unfold hdr_bytes. rewrite (varint32_write_small s), (varint32_write_small ns) by assumption.
      destruct (varint32_write_big vl S3) as [t ->]. cbn [app]. apply hd3_small_false_3. lia.
  - rewrite decode_entry_slow_eq; [exact Hslow|lia|lia| |].
    + rewrite app_length. unfold nlen in Hh. lia.
    + unfold hdr_bytes. rewrite (varint32_write_small s) by assumption.
      destruct (varint32_write_big ns S2) as [t ->]. cbn [app]. apply hd3_small_false_2. lia.
  - rewrite decode_entry_slow_eq; [exact Hslow|lia|lia| |].
    + rewrite app_length. unfold nlen in Hh. lia.
    + unfold hdr_bytes. destruct (varint32_write_big s S1) as [t ->]. cbn [app].
      apply hd3_small_false_1. lia.
Qed.

Lemma encode_entry_hdr : forall sh k v,
  encode_entry sh k v =
  hdr_bytes (sh mod two32) ((nlen k - sh) mod two32) (nlen v mod two32) ++ drop_n sh k ++ v.
Proof. intros. unfold encode_entry, hdr_bytes. rewrite <- !app_assoc. reflexivity. Qed.

Lemma set_ridx_self : forall it, set_ridx it (bi_ridx it) = it.
Proof. intros. destruct it. reflexivity. Qed.

Lemma set_ridx_twice : forall it a b, set_ridx (set_ridx it a) b = set_ridx it b.
Proof. intros. destruct it. reflexivity. Qed.

Lemma advance_ridx_shape : forall fuel it,
  binv1 it -> exists r, advance_ridx fuel it = Ok (set_ridx it r) /\ r <= bi_num it.
Proof.
  induction fuel as [|x fuel IH]; intros it Hinv; cbn [advance_ridx].
  - exists (bi_ridx it). rewrite set_ridx_self. split; [reflexivity|apply Hinv].
  - destruct (bi_ridx it + 1 <? bi_num it) eqn:E.
    + destruct (get_restart_point_ok it (bi_ridx it + 1) Hinv ltac:(lia)) as [rp [-> _]]. cbn [rbind].
      destruct (rp <? bi_cur it).
      * destruct (IH (set_ridx it (bi_ridx it + 1))) as [r [A B]].
        { apply set_pos_inv; [exact Hinv|lia]. }
        exists r. rewrite A, set_ridx_twice. split; [reflexivity|exact B].
      * exists (bi_ridx it). rewrite set_ridx_self. split; [reflexivity|apply Hinv].
    + exists (bi_ridx it). rewrite set_ridx_self. split; [reflexivity|apply Hinv].
Qed.

Section Built.
Variable cmp : bytes -> bytes -> comparison.
Variable isint : bool.
Variable interval : N.
Variable b : bytes.       (* the block *)
Variable E : N.           (* offset of the restart array *)
Variable TR : bytes.      (* restart array and count: b = entries ++ TR *)

Record pos_inv (it : biter) (c : N) (last : bytes) (rem : list entry) : Prop := {
  pi_data : bi_data it = b;
  pi_empty : bi_empty it = false;
  pi_restarts : bi_restarts it = E;
  pi_status : bi_status it = SOk;
  pi_inv : binv1 it;
  pi_next : bi_next it = enc_entries interval c last rem ++ TR;
  pi_off : next_entry_offset it + nlen (enc_entries interval c last rem) = E;
  pi_key : bi_key it = last
}.

(* parsing the next entry *)
Lemma parse_entry : forall it c last k v rem,
  pos_inv it c last ((k, v) :: rem) ->
  wf_entry (k, v) -> (isint = true -> 8 <= nlen k) ->
  exists it',
    parse_next_key isint it = Ok (it', true) /\
    pos_inv it' ((if negb (c <? interval) then 0 else c) + 1) k rem /\
    biter_valid it' = true /\ biter_observe it' = Ok (Some (k, v)).
Proof.
  intros it c last k v rem Hp [Hk Hv] H8. cbn [fst snd] in Hk, Hv.
  pose proof (pi_next _ _ _ _ Hp) as Hnext. pose proof (pi_off _ _ _ _ Hp) as Hoff.
  cbn [enc_entries] in Hnext, Hoff.
  set (restart := negb (c <? interval)) in *.
  set (sh := if restart then 0 else shared_len last k) in *.
  set (c' := (if restart then 0 else c) + 1) in *.
  set (enc' := enc_entries interval c' k rem) in *.
  assert (Hsh_k : sh <= nlen k) by (subst sh; destruct restart; [lia|apply shared_len_le_r]).
  assert (Hsh_l : sh <= nlen last) by (subst sh; destruct restart; [lia|apply shared_len_le_l]).
  assert (Hpre : take_n sh last = take_n sh k)
    by (subst sh; destruct restart; [reflexivity|apply shared_len_prefix]).
  rewrite encode_entry_hdr in Hnext, Hoff. unfold two32 in Hnext, Hoff.
  rewrite !N.mod_small in Hnext, Hoff by lia.
  set (hdr := hdr_bytes sh (nlen k - sh) (nlen v)) in *.
  rewrite <- !app_assoc in Hnext.
  rewrite !nlen_app, nlen_drop_n in Hoff.
  unfold parse_next_key.
  rewrite (pi_restarts _ _ _ _ Hp).
  replace (E <=? next_entry_offset it) with false.
  2:{ pose proof (hdr_bytes_length sh (nlen k - sh) (nlen v)). fold hdr in H. lia. }
  rewrite Hnext. unfold hdr at 1.
  rewrite decode_entry_encode; try lia.
  2:{ fold hdr. lia. }
  2:{ fold hdr. rewrite !nlen_app, nlen_drop_n. lia. }
  cbn [rbind]. fold hdr.
  rewrite (pi_key _ _ _ _ Hp).
  replace (nlen last <? sh) with false by lia.
  replace (sh + (nlen k - sh)) with (nlen k) by lia.
  assert (Hk8 : isint && (nlen k <? 8) = false).
  { destruct isint; [|reflexivity]. specialize (H8 eq_refl). cbn [andb]. lia. }
  rewrite Hk8.
  rewrite take_exact_ok by (rewrite nlen_app, nlen_drop_n; lia). cbn [rbind].
  rewrite (take_n_app_exact (drop_n sh k)) by (rewrite nlen_drop_n; lia).
  rewrite (drop_n_app_exact (drop_n sh k)) by (rewrite nlen_drop_n; lia).
  rewrite (drop_n_app_exact v) by reflexivity.
  rewrite Hpre, take_drop_n.
  match goal with |- context [advance_ridx ?f ?i] => set (it1 := i) end.
  pose proof (pi_inv _ _ _ _ Hp) as (I1 & I2 & I3 & I4 & I5 & I6).
  assert (Hinv1 : binv1 it1).
  { unfold binv1, it1.
    cbn [bi_data bi_restarts bi_num bi_rarr bi_ridx bi_vrest bi_voff bi_vlen bi_next].
    rewrite (pi_restarts _ _ _ _ Hp) in *. unfold next_entry_offset in *.
    repeat split; auto.
    - rewrite I5 in Hnext.
      assert (Hd : drop_n (nlen hdr + (nlen k - sh)) (drop_n (bi_voff it + bi_vlen it) (bi_data it))
                   = v ++ enc' ++ TR).
      { rewrite Hnext. rewrite <- drop_n_drop_n. rewrite drop_n_nlen_app.
        rewrite drop_n_app_exact by (rewrite nlen_drop_n; lia). reflexivity. }
      rewrite drop_n_drop_n in Hd. rewrite <- Hd. f_equal. lia.
    - rewrite I5 in Hnext.
      assert (Hd : drop_n (nlen hdr + (nlen k - sh) + nlen v) (drop_n (bi_voff it + bi_vlen it) (bi_data it))
                   = enc' ++ TR).
      { rewrite Hnext. rewrite <- !drop_n_drop_n. rewrite drop_n_nlen_app.
        rewrite drop_n_app_exact by (rewrite nlen_drop_n; lia). apply drop_n_nlen_app. }
      rewrite drop_n_drop_n in Hd. rewrite <- Hd. f_equal. lia.
    - lia. }
  destruct (advance_ridx_shape (bi_data it) it1 Hinv1) as [r [-> Hr]]. cbn [rbind].
  exists (set_ridx it1 r). split; [reflexivity|].
  assert (Hinv2 : binv1 (set_ridx it1 r)) by (apply set_pos_inv; [exact Hinv1|exact Hr]).
  split; [|split].
  - constructor; try exact Hinv2; unfold set_ridx, set_pos, it1, next_entry_offset;
      cbn [bi_data bi_empty bi_restarts bi_status bi_next bi_key bi_voff bi_vlen];
      try reflexivity.
    + apply (pi_data _ _ _ _ Hp).
    + apply (pi_empty _ _ _ _ Hp).
    + apply (pi_status _ _ _ _ Hp).
    + fold enc'. unfold next_entry_offset in *. lia.
  - unfold biter_valid, set_ridx, set_pos, it1. cbn [bi_empty bi_cur bi_restarts].
    rewrite (pi_empty _ _ _ _ Hp). cbn [negb andb].
    pose proof (hdr_bytes_length sh (nlen k - sh) (nlen v)). fold hdr in H. lia.
  - unfold biter_observe.
    replace (biter_valid (set_ridx it1 r)) with true.
    2:{ unfold biter_valid, set_ridx, set_pos, it1. cbn [bi_empty bi_cur bi_restarts].
        rewrite (pi_empty _ _ _ _ Hp). cbn [negb andb].
        pose proof (hdr_bytes_length sh (nlen k - sh) (nlen v)). fold hdr in H. lia. }
    unfold biter_value, set_ridx, set_pos, it1. cbn [bi_vrest bi_vlen bi_key].
    rewrite take_exact_ok by (rewrite nlen_app; lia). cbn [rbind].
    rewrite take_n_nlen_app. reflexivity.
Qed.

(* at the end of the entries *)
Lemma parse_end : forall it c last,
  pos_inv it c last [] ->
  exists it', parse_next_key isint it = Ok (it', false) /\
              biter_valid it' = false /\ bi_status it' = SOk /\ binv it'.
Proof.
  intros it c last Hp. pose proof (pi_off _ _ _ _ Hp) as Hoff. cbn [enc_entries] in Hoff.
  rewrite nlen_nil in Hoff.
  unfold parse_next_key. rewrite (pi_restarts _ _ _ _ Hp).
  replace (E <=? next_entry_offset it) with true by lia.
  eexists. split; [reflexivity|]. split; [|split].
  - unfold biter_valid, set_pos. cbn [bi_empty bi_cur bi_restarts].
    rewrite (pi_restarts _ _ _ _ Hp). replace (E <? E) with false by lia. apply andb_false_r.
  - unfold set_pos. cbn [bi_status]. apply (pi_status _ _ _ _ Hp).
  - right. apply set_pos_inv; [apply (pi_inv _ _ _ _ Hp)|lia].
Qed.

Lemma biter_run_cons : forall op ops it,
  biter_run cmp isint (op :: ops) it =
  (it1 <~ biter_step cmp isint op it ;;
   o <~ biter_observe it1 ;;
   '(os, it2) <~ biter_run cmp isint ops it1 ;;
   Ok (o :: os, it2)).
Proof. reflexivity. Qed.

(* running Next from an entry until the end *)
Lemma run_nexts : forall rem it c last,
  pos_inv it c last rem -> biter_valid it = true ->
  Forall wf_entry rem -> keys_ge8 isint rem ->
  exists it', biter_run cmp isint (repeat INext (S (length rem))) it
              = Ok (map Some rem ++ [None], it') /\ bi_status it' = SOk.
Proof.
  induction rem as [|[k v] rem IH]; intros it c last Hp Hv Hwf H8.
  - change (repeat INext (S (length (@nil entry)))) with [INext].
    rewrite biter_run_cons. cbn [biter_step]. rewrite Hv.
    unfold biter_next. rewrite (pi_empty _ _ _ _ Hp).
    destruct (parse_end it c last Hp) as [it' (-> & V & S & I)]. cbn [rbind].
    unfold biter_observe. rewrite V. cbn [rbind biter_run map app].
    exists it'. split; [reflexivity|exact S].
  - inversion Hwf as [|? ? W1 W2]; subst.
    assert (K8 : isint = true -> 8 <= nlen k).
    { intros Hi. specialize (H8 Hi). inversion H8; subst. assumption. }
    change (repeat INext (S (length ((k, v) :: rem)))) with (INext :: repeat INext (S (length rem))).
    rewrite biter_run_cons. cbn [biter_step]. rewrite Hv.
    unfold biter_next. rewrite (pi_empty _ _ _ _ Hp).
    destruct (parse_entry it c last k v rem Hp W1 K8) as [it' (-> & P' & V' & O')]. cbn [rbind].
    rewrite O'. cbn [rbind].
    destruct (IH it' _ _ P' V' W2 (keys_ge8_tail _ _ _ H8)) as [it'' (R & S)].
    rewrite R. cbn [rbind map app].
    exists it''. split; [reflexivity|exact S].
Qed.

End Built.

Lemma bb_restarts_last : forall es interval b l,
  bb_restarts b = l ++ [0] ->
  exists l', bb_restarts (bb_add_all interval b es) = l' ++ [0].
Proof.
  induction es as [|[k v] es IH]; intros interval b l Hl.
  - exists l. exact Hl.
  - unfold bb_add_all in *. cbn [fold_left fst snd].
    destruct (negb (bb_counter b <? interval)) eqn:E.
    + apply (IH interval (bb_add interval b k v) (bb_size b :: l)).
      unfold bb_add. cbn [bb_restarts]. rewrite E, Hl. reflexivity.
    + apply (IH interval (bb_add interval b k v) l).
      unfold bb_add. cbn [bb_restarts]. rewrite E. exact Hl.
Qed.

(* (c, forward half) First, then Next repeatedly, enumerates a built block *)
Theorem block_iter_forward : forall cmp isint interval es,
  wf_entries es -> keys_ge8 isint es ->
  block_run cmp isint (block_build interval es) (IFirst :: repeat INext (length es))
  = Ok (map Some es ++ [None], SOk).
Proof.
  intros cmp isint interval es [Hwf Hcount] H8.
  unfold block_build, bb_finish.
  assert (Hinv0 : bb_inv bb_empty) by (unfold bb_inv; cbn; lia).
  destruct (bb_add_all_inv es interval bb_empty Hinv0) as [[Hn H1] Hle].
  cbn [bb_empty bb_nrestarts] in Hle.
  destruct (bb_restarts_last es interval bb_empty [] eq_refl) as [l' Hl'].
  rewrite bb_add_all_buffer. cbn [bb_empty bb_buffer bb_chunks rev concat app bb_counter bb_last].
  set (bb := bb_add_all interval bb_empty es) in *.
  set (enc := enc_entries interval 0 [] es).
  set (n := bb_nrestarts bb) in *.
  assert (Hrev : rev (bb_restarts bb) = 0 :: rev l').
  { rewrite Hl', rev_app_distr. reflexivity. }
  set (RA := flat_map le32 (rev (bb_restarts bb))).
  assert (HRA : nlen RA = 4 * n).
  { subst RA. rewrite flat_map_le32_length. unfold nlen. rewrite rev_length. fold (nlen (bb_restarts bb)). lia. }
  set (TR := RA ++ le32 n).
  set (b := enc ++ TR).
  assert (Hsize : nlen b = nlen enc + 4 * n + 4).
  { subst b TR. rewrite !nlen_app, HRA. replace (nlen (le32 n)) with 4 by (unfold nlen; rewrite le32_length; reflexivity). lia. }
  (* block_init *)
  unfold block_run, block_init. rewrite Hsize.
  replace (nlen enc + 4 * n + 4 <? 4) with false by lia.
  assert (Hlast : drop_n (nlen enc + 4 * n + 4 - 4) b = le32 n).
  { subst b TR. rewrite app_assoc. apply drop_n_app_exact. rewrite nlen_app, HRA. lia. }
  unfold read32. replace (nlen enc + 4 * n + 4 <? nlen enc + 4 * n + 4 - 4 + 4) with false by lia.
  rewrite Hlast. rewrite <- (app_nil_r (le32 n)) at 1. rewrite de32_le32 by lia. cbn [rbind].
  replace ((nlen enc + 4 * n + 4 - 4) / 4 <? n) with false by lia.
  cbn [rbind].
  (* biter_create *)
  unfold biter_create. cbn [blk_size blk_data blk_len blk_restarts].
  replace (nlen enc + 4 * n + 4 <? 4) with false by lia.
  unfold read32. replace (nlen enc + 4 * n + 4 <? nlen enc + 4 * n + 4 - 4 + 4) with false by lia.
  rewrite Hlast. rewrite <- (app_nil_r (le32 n)) at 1. rewrite de32_le32 by lia. cbn [rbind].
  replace (n =? 0) with false by lia.
  replace (nlen enc + 4 * n + 4 - (1 + n) * 4) with (nlen enc) by lia.
  assert (Hrarr : drop_n (nlen enc) b = TR) by (subst b; apply drop_n_nlen_app).
  rewrite Hrarr.
  set (it0 := mk_biter b false (nlen enc) n TR (nlen enc) n [] 0 0 b b SOk).
  assert (Hinv : binv1 it0).
  { unfold binv1, it0. cbn [bi_data bi_restarts bi_num bi_rarr bi_ridx bi_vrest bi_voff bi_vlen bi_next].
    repeat split; try reflexivity; try lia. symmetry. exact Hrarr. }
  (* First *)
  cbv beta iota. cbn [rbind].
  rewrite biter_run_cons. cbn [biter_step]. unfold biter_first. cbn [bi_empty it0].
  change (bi_empty it0) with false. cbv beta iota.
  unfold seek_to_restart_point, get_restart_point. cbn [bi_rarr it0 bi_restarts].
  change (bi_rarr it0) with TR. change (bi_restarts it0) with (nlen enc).
  assert (Hfirst : de32 (drop_n (0 * 4) TR) = Some 0).
  { subst TR RA. rewrite Hrev. cbn [flat_map]. rewrite <- !app_assoc. apply de32_le32. lia. }
  rewrite Hfirst. cbn [rbind]. replace (nlen enc <? 0) with false by lia.
  change (bi_data it0) with b. rewrite drop_n_0.
  match goal with |- context [parse_next_key isint ?i] => set (it1 := i) end.
  assert (Hp : pos_inv interval b (nlen enc) TR it1 0 [] es).
  { constructor; unfold it1; cbn [bi_data bi_empty bi_restarts bi_status bi_next bi_key]; try reflexivity.
    all: try (unfold binv1; cbn [bi_data bi_restarts bi_num bi_rarr bi_ridx bi_vrest bi_voff bi_vlen bi_next it0];
              repeat split; try reflexivity; try lia; symmetry; exact Hrarr).
    all: try (unfold next_entry_offset; cbn [bi_voff bi_vlen]; fold enc; lia). }
  destruct es as [|[k v] es].
  - destruct (parse_end cmp isint interval b (nlen enc) TR it1 0 [] Hp) as [it' (-> & V & St & I)].
    cbn [rbind]. unfold biter_observe. rewrite V. cbn [rbind length repeat biter_run map app].
    unfold biter_status. rewrite St. reflexivity.
  - inversion Hwf as [|? ? W1 W2]; subst.
    assert (K8 : isint = true -> 8 <= nlen k).
    { intros Hi. specialize (H8 Hi). inversion H8; subst. assumption. }
    destruct (parse_entry cmp isint interval b (nlen enc) TR it1 0 [] k v es Hp W1 K8)
      as [it' (-> & P' & V' & O')]. cbn [rbind].
    rewrite O'. cbn [rbind].
    destruct (run_nexts cmp isint interval b (nlen enc) TR es it' _ _ P' V' W2 (keys_ge8_tail _ _ _ H8))
      as [it'' (R & St)].
    change (repeat INext (length ((k, v) :: es))) with (repeat INext (S (length es))).
    rewrite R. cbn [rbind map app]. unfold biter_status. rewrite St. reflexivity.
Qed.
