(* FsAck.v -- Part C of the invariant: what the trace says about batches
   (log contents, acknowledgements, flushes), tied to the protocol state. *)
From Coq Require Import Lia ZifyBool ZifyNat ZifyN.
From LCDB Require Import FsModel FsLemmas FsInv FsDur.
Local Open Scope N_scope.

(* ---- decidable equalities used by R7 *)
Lemma list_eqb_eq : forall {A} (eqb : A -> A -> bool), (forall a b, eqb a b = true -> a = b) ->
  forall l1 l2, list_eqb eqb l1 l2 = true -> l1 = l2.
Proof.
  intros A eqb H l1; induction l1 as [|x r IH]; intros [|y s] E; cbn [list_eqb] in E; try discriminate; [reflexivity|].
  apply andb_true_iff in E. destruct E as [E1 E2]. f_equal; [apply H; exact E1|apply IH; exact E2].
Qed.

Lemma bytes_eqb_eq : forall a b, bytes_eqb a b = true -> a = b.
Proof. apply list_eqb_eq. intros a b H; apply N.eqb_eq; exact H. Qed.

Lemma wop_eqb_eq : forall a b, wop_eqb a b = true -> a = b.
Proof.
  intros [k v|k] [k' v'|k'] H; cbn [wop_eqb] in H; try discriminate.
  - apply andb_true_iff in H. destruct H as [H1 H2].
    apply bytes_eqb_eq in H1, H2; subst; reflexivity.
  - apply bytes_eqb_eq in H; subst; reflexivity.
Qed.

(* ---- trace functions and snoc *)
Definition batch_of_ev (n : N) (e : fev) : list brec :=
  match e with
  | EAppend (FLog m) (PBatch s ops) => if m =? n then [(s, ops)] else []
  | _ => []
  end.

Lemma log_batches_snoc : forall tr e n, log_batches (tr ++ [e]) n = log_batches tr n ++ batch_of_ev n e.
Proof.
  intros tr e n; unfold log_batches. rewrite flat_map_app. cbn [flat_map]. rewrite app_nil_r.
  reflexivity.
Qed.

Definition logged_of_ev (e : fev) : list brec :=
  match e with EAppend (FLog _) (PBatch s ops) => [(s, ops)] | _ => [] end.

Lemma logged_snoc : forall tr e, logged (tr ++ [e]) = logged tr ++ logged_of_ev e.
Proof.
  intros tr e; unfold logged. rewrite flat_map_app. cbn [flat_map]. rewrite app_nil_r.
  reflexivity.
Qed.

Lemma acks_from_snoc : forall tr e p, acks_from p (tr ++ [e]) = acks_from p tr ++ ack_of (fold_left pstep tr p) e.
Proof.
  intro tr; induction tr as [|x r IH]; intros e p; cbn [acks_from app fold_left].
  - rewrite app_nil_r; reflexivity.
  - rewrite IH, app_assoc; reflexivity.
Qed.

Lemma acks_snoc : forall tr e, acks (tr ++ [e]) = acks tr ++ ack_of (prun tr) e.
Proof. intros; unfold acks; apply acks_from_snoc. Qed.

Lemma flushed_snoc : forall tr e b, flushed tr b -> flushed (tr ++ [e]) b.
Proof.
  intros tr e b [pre [m [ed [suf [E H]]]]]. exists pre, m, ed, (suf ++ [e]). split; [|exact H].
  rewrite E, <- app_assoc. reflexivity.
Qed.

Definition pending (c : option (N * list wop * bool * option (N * N))) : list brec :=
  match c with Some (_, ops, _, Some (_, s)) => [(s, ops)] | _ => [] end.

(* ---- the invariant *)
Record Inv_trace (tr : list fev) : Prop := {
  it_logs : forall n bs, In (n, bs) (p_logs (prun tr)) -> bs = log_batches tr n;
  it_nologs : forall n, ~ In n (map fst (p_logs (prun tr))) -> log_batches tr n = [];
  it_logged : logged tr = flat_map snd (p_logs (prun tr));
  it_acks : map snd (acks tr) ++ pending (p_call (prun tr)) = logged tr;
  it_call : forall id ops sy n s, p_call (prun tr) = Some (id, ops, sy, Some (n, s)) ->
      In n (map fst (p_logs (prun tr))) /\ exists bs0, log_batches tr n = bs0 ++ [(s, ops)];
  it_dur : forall id n b, In (id, true, n, b) (acks tr) ->
      exists i o x j, created_at (fs_run tr) i (FLog n) o /\ nth_error (d_objs (fs_run tr)) o = Some x /\
        (j < o_synced x)%nat /\ nth_error (log_batches tr n) j = Some b;
  it_ack_log : forall id sy n b, In (id, sy, n, b) (acks tr) -> In b (log_batches tr n);
  it_unl : forall f, In (EUnlink f) tr -> In (DUnlink f) (d_ops (fs_run tr));
  it_cov : p_cov (prun tr) <= newest_log (p_logs (prun tr));
  it_flushed : forall n bs b, In (n, bs) (p_logs (prun tr)) -> n < p_cov (prun tr) -> In b bs -> flushed tr b }.

(* ---- monotonicity of the disk *)
Lemma step_ops_mono : forall d e, exists l, d_ops (fs_step d e) = d_ops d ++ l.
Proof.
  intros d e; destruct e as [f|f pl| | |a b|f|id b sy|id ok]; cbn [fs_step];
    try (destruct (ns_lookup d _)); cbn [d_ops]; try (exists []; rewrite app_nil_r; reflexivity); eauto.
Qed.

Lemma step_created_mono : forall d e i f o, created_at d i f o -> created_at (fs_step d e) i f o.
Proof.
  intros d e i f o H. destruct (step_ops_mono d e) as [l E]. unfold created_at in *. rewrite E.
  rewrite nth_error_app1; [exact H|]. apply nth_error_Some; congruence.
Qed.

Lemma step_obj_mono : forall p e o x, Inv_struct p -> nth_error (d_objs (p_disk p)) o = Some x ->
  exists x', nth_error (d_objs (fs_step (p_disk p) e)) o = Some x' /\ (o_synced x <= o_synced x')%nat /\
    exists suf, o_recs x' = o_recs x ++ suf.
Proof.
  intros p e o x IS Hx.
  assert (Hs : (o_synced x <= length (o_recs x))%nat).
  { pose proof (is_ops _ IS) as W.
    assert (In o (create_ids (d_ops (p_disk p)))).
    { rewrite (ow_ids _ _ W). apply in_seq. split; [lia|]. cbn. apply nth_error_Some; congruence. }
    apply in_create_ids in H. destruct H as [f Hin]. apply In_nth_error in Hin. destruct Hin as [i Hi].
    apply (is_typed _ IS i f o x Hi Hx). }
  assert (Hsame : exists x', nth_error (d_objs (p_disk p)) o = Some x' /\ (o_synced x <= o_synced x')%nat /\
                    exists suf, o_recs x' = o_recs x ++ suf).
  { exists x; split; [exact Hx|split; [lia|exists []; rewrite app_nil_r; reflexivity]]. }
  destruct e as [f|f pl| | |a b|f|id b sy|id ok]; cbn [fs_step];
    try (destruct (ns_lookup (p_disk p) _) as [o'|] eqn:El); cbn [d_objs]; try exact Hsame.
  - exists x; split; [apply nth_error_snoc_old; exact Hx|split; [lia|exists []; rewrite app_nil_r; reflexivity]].
  - destruct (Nat.eq_dec o' o) as [->|Hne].
    + exists (obj_append pl x). split; [apply nth_error_upd_nth_eq; exact Hx|].
      unfold obj_append; cbn [o_synced o_recs]. split; [lia|eauto].
    + exists x. split; [rewrite nth_error_upd_nth_neq by exact Hne; exact Hx|].
      split; [lia|exists []; rewrite app_nil_r; reflexivity].
  - destruct (Nat.eq_dec o' o) as [->|Hne].
    + exists (obj_sync x). split; [apply nth_error_upd_nth_eq; exact Hx|].
      unfold obj_sync; cbn [o_synced o_recs]. split; [lia|exists []; rewrite app_nil_r; reflexivity].
    + exists x. split; [rewrite nth_error_upd_nth_neq by exact Hne; exact Hx|].
      split; [lia|exists []; rewrite app_nil_r; reflexivity].
Qed.

(* ---- log list helpers *)
Lemma add_batch_notin : forall n b l, ~ In n (map fst l) -> add_batch n b l = l.
Proof.
  intros n b l; induction l as [|[m bs] r IH]; intro H; cbn [add_batch]; [reflexivity|].
  cbn [map fst In] in H. destruct (m =? n) eqn:E.
  - apply N.eqb_eq in E. exfalso; apply H; left; exact E.
  - f_equal. apply IH. intro Hin; apply H; right; exact Hin.
Qed.

Lemma add_batch_app : forall n b l r, ~ In n (map fst l) -> add_batch n b (l ++ r) = l ++ add_batch n b r.
Proof.
  intros n b l r; induction l as [|[m bs] l IH]; intro H; cbn [add_batch app]; [reflexivity|].
  cbn [map fst In] in H. destruct (m =? n) eqn:E.
  - apply N.eqb_eq in E. exfalso; apply H; left; exact E.
  - f_equal. apply IH. intro Hin; apply H; right; exact Hin.
Qed.

Lemma sorted_last_max : forall (l : list N) a x, StronglySorted N.lt (a :: l ++ [x]) -> forall y, In y (a :: l) -> y < x.
Proof.
  intros l; induction l as [|z r IH]; intros a x H y Hy.
  - destruct Hy as [<-|[]]. cbn in H. inversion H as [|? ? _ Hf]; subst. inversion Hf; subst; assumption.
  - cbn [app] in H. inversion H as [|? ? Hs Hf]; subst. destruct Hy as [<-|Hy].
    + rewrite Forall_forall in Hf. apply Hf. right. apply in_or_app; right; left; reflexivity.
    + eapply IH; eauto.
Qed.

Lemma add_batch_last : forall (l : list (N * list brec)) m b, StronglySorted N.lt (0 :: map fst l) ->
  In m (map fst l) -> m = newest_log l -> flat_map snd (add_batch m b l) = flat_map snd l ++ [b].
Proof.
  intros l m b Hs Hin Hm. rewrite (newest_log_spec _ Hs) in Hm.
  destruct l as [|x0 l0] using rev_ind; [contradiction|]. clear IHl0.
  rewrite map_app in Hm, Hs. cbn [map] in Hm, Hs. rewrite last_last in Hm. destruct x0 as [m' bs]. cbn [fst] in Hm, Hs. subst m'.
  assert (Hn : ~ In m (map fst l0)).
  { intro Hi. pose proof (sorted_last_max _ _ _ Hs m (or_intror Hi)). lia. }
  rewrite (add_batch_app _ _ _ _ Hn). cbn [add_batch]. rewrite N.eqb_refl.
  rewrite !flat_map_app. cbn [flat_map snd]. rewrite !app_nil_r, app_assoc. reflexivity.
Qed.

Lemma newest_log_keys : forall (l l' : list (N * list brec)), map fst l = map fst l' -> newest_log l = newest_log l'.
Proof.
  intros l l' H. unfold newest_log.
  assert (G : forall (l : list (N * list brec)) a, fold_left (fun a x => N.max a (fst x)) l a = fold_left N.max (map fst l) a).
  { clear. intro l; induction l as [|x r IH]; intro a; cbn [fold_left map]; [reflexivity|apply IH]. }
  rewrite !G, H. reflexivity.
Qed.

(* ---- facts the rules give about a batch append *)
Lemma append_batch_facts : forall p m s ops, Inv_struct p -> chk_all p (EAppend (FLog m) (PBatch s ops)) = true ->
  In m (map fst (p_logs p)) /\ m = newest_log (p_logs p) /\
  exists id sy, p_call p = Some (id, ops, sy, None).
Proof.
  intros p m s ops IS H. apply chk_all_iff in H. destruct H as [H0 [_ [_ [_ [_ [_ [_ H7]]]]]]].
  cbn [chk_R0] in H0. destruct (obj_at (p_disk p) (FLog m)) as [x|] eqn:Ex; [|discriminate].
  destruct (obj_at_some _ _ _ Ex) as [o [Hl Hx]].
  destruct (lookup_created _ _ _ IS Hl) as [i [g [x' [Hc [_ [Hg _]]]]]].
  rewrite (Hg ltac:(discriminate)) in Hc. split; [eapply in_logs_of_created; eauto|].
  cbn [chk_R7] in H7. destruct (p_call p) as [[[[id b] sy] [app|]]|]; try discriminate.
  apply andb_true_iff in H7. destruct H7 as [H7 H8]. apply N.eqb_eq in H8.
  apply (list_eqb_eq _ wop_eqb_eq) in H7. subst b. split; [exact H8|eauto].
Qed.

Lemma create_log_fresh : forall p n, Inv_struct p -> chk_all p (ECreate (FLog n)) = true ->
  ~ In n (map fst (p_logs p)).
Proof.
  intros p n IS H. apply chk_all_iff in H. destruct H as [_ [_ [_ [_ [_ [_ [H6 _]]]]]]].
  cbn [chk_R6] in H6. apply andb_true_iff in H6. destruct H6 as [H6 _]. apply negb_true_iff in H6.
  intro Hin. rewrite (is_logs_names _ IS) in Hin. apply in_log_nums in Hin. apply (is_created _ IS) in Hin.
  assert (existsb (fname_eqb (FLog n)) (p_created p) = true).
  { apply existsb_exists; exists (FLog n); split; [exact Hin|apply fname_eqb_refl]. }
  congruence.
Qed.

(* ---- clause by clause *)
Lemma logs_step : forall tr e, Inv_struct (prun tr) -> Inv_trace tr -> chk_all (prun tr) e = true ->
  (forall n bs, In (n, bs) (p_logs (prun (tr ++ [e]))) -> bs = log_batches (tr ++ [e]) n) /\
  (forall n, ~ In n (map fst (p_logs (prun (tr ++ [e])))) -> log_batches (tr ++ [e]) n = []).
Proof.
  intros tr e IS IT Hchk. rewrite prun_snoc, pstep_logs.
  assert (ND : NoDup (map fst (p_logs (prun tr)))) by (apply sorted0_nodup; apply (is_logs_sorted _ IS)).
  assert (Hdef : (forall n bs, In (n, bs) (p_logs (prun tr)) -> batch_of_ev n e = [] -> bs = log_batches (tr ++ [e]) n) /\
                 (forall n, ~ In n (map fst (p_logs (prun tr))) -> batch_of_ev n e = [] -> log_batches (tr ++ [e]) n = [])).
  { split; intros; rewrite log_batches_snoc, H0, app_nil_r; [apply (it_logs _ IT); assumption|apply (it_nologs _ IT); assumption]. }
  destruct Hdef as [D1 D2].
  destruct e as [f|f pl| | |a b|f|id b sy|id ok];
    try (split; [intros ? ? Hq; apply D1; [exact Hq|reflexivity]|intros ? Hq; apply D2; [exact Hq|reflexivity]]).
  - destruct f as [n'| | | |];
      try (split; [intros ? ? Hq; apply D1; [exact Hq|reflexivity]|intros ? Hq; apply D2; [exact Hq|reflexivity]]).
    pose proof (create_log_fresh _ _ IS Hchk) as Hfresh. split.
    + intros n bs Hin. apply in_app_or in Hin. destruct Hin as [Hin|[Hin|[]]]; [apply D1; [exact Hin|reflexivity]|].
      injection Hin as <- <-. symmetry. apply D2; [exact Hfresh|reflexivity].
    + intros n Hn. apply D2; [|reflexivity]. intro Hin; apply Hn. rewrite map_app. apply in_or_app; left; exact Hin.
  - destruct f as [m| | | |];
      try (split; [intros ? ? Hq; apply D1; [exact Hq|reflexivity]|intros ? Hq; apply D2; [exact Hq|reflexivity]]).
    destruct pl as [s ops|ed|ents|cm];
      try (split; [intros ? ? Hq; apply D1; [exact Hq|reflexivity]|intros ? Hq; apply D2; [exact Hq|reflexivity]]).
    destruct (append_batch_facts _ _ _ _ IS Hchk) as [Hm _]. split.
    + intros n bs Hin. apply (in_add_batch m (s, ops) _ n bs ND) in Hin.
      destruct Hin as [[Hne Hin]|[-> [bs0 [Hin ->]]]].
      * apply D1; [exact Hin|]. cbn [batch_of_ev]. destruct (m =? n) eqn:E; [apply N.eqb_eq in E; congruence|reflexivity].
      * rewrite log_batches_snoc. cbn [batch_of_ev]. rewrite N.eqb_refl. f_equal. apply (it_logs _ IT); exact Hin.
    + intros n Hn. rewrite add_batch_fst in Hn. apply D2; [exact Hn|].
      cbn [batch_of_ev]. destruct (m =? n) eqn:E; [apply N.eqb_eq in E; subst; contradiction|reflexivity].
Qed.

Lemma logged_step : forall tr e, Inv_struct (prun tr) -> Inv_trace tr -> chk_all (prun tr) e = true ->
  logged (tr ++ [e]) = flat_map snd (p_logs (prun (tr ++ [e]))).
Proof.
  intros tr e IS IT Hchk. rewrite prun_snoc, pstep_logs, logged_snoc, (it_logged _ IT).
  destruct e as [f|f pl| | |a b|f|id b sy|id ok]; cbn [logged_of_ev]; try apply app_nil_r.
  - destruct f; try apply app_nil_r. rewrite flat_map_app. cbn [flat_map snd]. reflexivity.
  - destruct f; try apply app_nil_r. destruct pl; try apply app_nil_r.
    destruct (append_batch_facts _ _ _ _ IS Hchk) as [Hm [Hn _]].
    symmetry. apply add_batch_last; [apply (is_logs_sorted _ IS)|exact Hm|exact Hn].
Qed.

Lemma ack_of_nonack : forall p e, (forall id ok, e <> EAck id ok) -> ack_of p e = [].
Proof. intros p e H; destruct e; try reflexivity. exfalso; eapply H; reflexivity. Qed.

Lemma acks_step : forall tr e, Inv_struct (prun tr) -> Inv_trace tr -> chk_all (prun tr) e = true ->
  map snd (acks (tr ++ [e])) ++ pending (p_call (prun (tr ++ [e]))) = logged (tr ++ [e]).
Proof.
  intros tr e IS IT Hchk. rewrite prun_snoc, pstep_call, logged_snoc, acks_snoc, map_app, <- (it_acks _ IT).
  pose proof Hchk as Hc. apply chk_all_iff in Hc. destruct Hc as [_ [_ [_ [_ [_ [_ [_ H7]]]]]]].
  assert (Hdef : forall c, ack_of (prun tr) e = [] -> logged_of_ev e = [] -> c = p_call (prun tr) ->
            (map snd (acks tr) ++ map snd (ack_of (prun tr) e)) ++ pending c =
            (map snd (acks tr) ++ pending (p_call (prun tr))) ++ logged_of_ev e).
  { intros c -> -> ->. cbn [map]. rewrite !app_nil_r. reflexivity. }
  destruct e as [f|f pl| | |a b|f|id b sy|id ok].
  - apply Hdef; reflexivity.
  - destruct f as [m| | | |]; try (apply Hdef; reflexivity).
    destruct pl as [s ops|ed|ents|cm]; try (apply Hdef; reflexivity).
    destruct (append_batch_facts _ _ _ _ IS Hchk) as [_ [_ [id [sy Hcall]]]]. rewrite Hcall.
    cbn [pending ack_of logged_of_ev map]. rewrite !app_nil_r. reflexivity.
  - apply Hdef; reflexivity.
  - apply Hdef; reflexivity.
  - apply Hdef; reflexivity.
  - apply Hdef; reflexivity.
  - cbn [chk_R7] in H7. destruct (p_call (prun tr)) eqn:Ec; [discriminate|].
    cbn [pending ack_of logged_of_ev map]. rewrite !app_nil_r. reflexivity.
  - cbn [chk_R7] in H7. destruct (p_call (prun tr)) as [[[[id' ops] sy] ap]|] eqn:Ec; [|discriminate].
    apply andb_true_iff in H7. destruct H7 as [_ H7].
    destruct ok, ap as [[n s]|]; cbn in H7; try discriminate;
      cbn [pending ack_of logged_of_ev map snd app]; rewrite ?Ec; cbn [pending map snd app]; rewrite ?app_nil_r; reflexivity.
Qed.

Lemma call_step : forall tr e, Inv_struct (prun tr) -> Inv_trace tr -> chk_all (prun tr) e = true ->
  forall id ops sy n s, p_call (prun (tr ++ [e])) = Some (id, ops, sy, Some (n, s)) ->
    In n (map fst (p_logs (prun (tr ++ [e])))) /\ exists bs0, log_batches (tr ++ [e]) n = bs0 ++ [(s, ops)].
Proof.
  intros tr e IS IT Hchk id ops sy n s H. rewrite prun_snoc in H |- *. rewrite pstep_call in H. rewrite pstep_logs.
  pose proof Hchk as Hc. apply chk_all_iff in Hc. destruct Hc as [_ [_ [_ [_ [_ [_ [_ H7]]]]]]].
  assert (Hdef : p_call (prun tr) = Some (id, ops, sy, Some (n, s)) -> batch_of_ev n e = [] ->
                 In n (map fst (p_logs (prun tr))) /\ exists bs0, log_batches (tr ++ [e]) n = bs0 ++ [(s, ops)]).
  { intros Hp Hb. destruct (it_call _ IT _ _ _ _ _ Hp) as [Hin [bs0 Hl]]. split; [exact Hin|].
    exists bs0. rewrite log_batches_snoc, Hb, app_nil_r. exact Hl. }
  destruct e as [f|f pl| | |a b|f|id' b sy'|id' ok]; try (apply Hdef; [exact H|reflexivity]).
  - destruct (Hdef H eq_refl) as [Hin Hb]. split; [|exact Hb].
    destruct f; try exact Hin. rewrite map_app. apply in_or_app; left; exact Hin.
  - destruct f as [m| | | |]; try (apply Hdef; [exact H|reflexivity]).
    destruct pl as [s' ops'|ed|ents|cm]; try (apply Hdef; [exact H|reflexivity]).
    destruct (append_batch_facts _ _ _ _ IS Hchk) as [Hm [_ [id0 [sy0 Hcall]]]]. rewrite Hcall in H.
    injection H as <- <- <- <- <-. rewrite add_batch_fst. split; [exact Hm|].
    exists (log_batches tr m). rewrite log_batches_snoc. cbn [batch_of_ev]. rewrite N.eqb_refl. reflexivity.
  - discriminate.
  - discriminate.
Qed.

Lemma in_acks_snoc : forall tr e a, In a (acks (tr ++ [e])) ->
  In a (acks tr) \/ (exists id ops sy n s, e = EAck id true /\ p_call (prun tr) = Some (id, ops, sy, Some (n, s)) /\ a = (id, sy, n, (s, ops))) \/
  (exists id id' ops sy n s, e = EAck id true /\ p_call (prun tr) = Some (id', ops, sy, Some (n, s)) /\ a = (id, sy, n, (s, ops))).
Proof.
  intros tr e a H. rewrite acks_snoc in H. apply in_app_or in H. destruct H as [H|H]; [left; exact H|].
  right; right. destruct e as [f|f pl| | |a' b|f|id b sy|id ok]; cbn [ack_of] in H; try contradiction.
  destruct ok; [|contradiction].
  destruct (p_call (prun tr)) as [[[[id' ops] sy] [[n s]|]]|]; try contradiction.
  destruct H as [<-|[]]. exists id, id', ops, sy, n, s. auto.
Qed.

Lemma ack_log_step : forall tr e, Inv_trace tr ->
  forall id sy n b, In (id, sy, n, b) (acks (tr ++ [e])) -> In b (log_batches (tr ++ [e]) n).
Proof.
  intros tr e IT id sy n b H. rewrite log_batches_snoc. apply in_or_app; left.
  destruct (in_acks_snoc _ _ _ H) as [Hold|[[id0 [ops [sy0 [n0 [s [_ [Hc E]]]]]]]|[id0 [id' [ops [sy0 [n0 [s [_ [Hc E]]]]]]]]]].
  - eapply (it_ack_log _ IT); eauto.
  - injection E as -> -> -> ->. destruct (it_call _ IT _ _ _ _ _ Hc) as [_ [bs0 Hl]]. rewrite Hl.
    apply in_or_app; right; left; reflexivity.
  - injection E as -> -> -> ->. destruct (it_call _ IT _ _ _ _ _ Hc) as [_ [bs0 Hl]]. rewrite Hl.
    apply in_or_app; right; left; reflexivity.
Qed.

Lemma unl_step : forall tr e, Inv_trace tr -> chk_all (prun tr) e = true ->
  forall f, In (EUnlink f) (tr ++ [e]) -> In (DUnlink f) (d_ops (fs_run (tr ++ [e]))).
Proof.
  intros tr e IT Hchk f H. rewrite fs_run_snoc. apply in_app_or in H. destruct H as [H|[H|[]]].
  - destruct (step_ops_mono (fs_run tr) e) as [l E]. rewrite E. apply in_or_app; left. apply (it_unl _ IT); exact H.
  - subst e. apply chk_all_iff in Hchk. destruct Hchk as [H0 _]. cbn [chk_R0] in H0.
    apply andb_true_iff in H0. destruct H0 as [_ H0]. rewrite prun_disk in H0.
    cbn [fs_step]. destruct (ns_lookup (fs_run tr) f); [|discriminate]. cbn [d_ops].
    apply in_or_app; right; left; reflexivity.
Qed.

Lemma dur_ack_step : forall tr e, Inv_struct (prun tr) -> Inv_trace tr -> chk_all (prun tr) e = true ->
  forall id n b, In (id, true, n, b) (acks (tr ++ [e])) ->
    exists i o x j, created_at (fs_run (tr ++ [e])) i (FLog n) o /\
      nth_error (d_objs (fs_run (tr ++ [e]))) o = Some x /\
      (j < o_synced x)%nat /\ nth_error (log_batches (tr ++ [e]) n) j = Some b.
Proof.
  intros tr e IS IT Hchk id n b H.
  assert (Hold : In (id, true, n, b) (acks tr) -> exists i o x j, created_at (fs_run (tr ++ [e])) i (FLog n) o /\
      nth_error (d_objs (fs_run (tr ++ [e]))) o = Some x /\
      (j < o_synced x)%nat /\ nth_error (log_batches (tr ++ [e]) n) j = Some b).
  { intro Hin. destruct (it_dur _ IT _ _ _ Hin) as [i [o [x [j [Hc [Hx [Hj Hn]]]]]]].
    rewrite fs_run_snoc. rewrite <- prun_disk in Hx.
    destruct (step_obj_mono _ e _ _ IS Hx) as [x' [Hx' [Hs _]]]. rewrite prun_disk in Hx'.
    exists i, o, x', j. split; [apply step_created_mono; exact Hc|split; [exact Hx'|split; [lia|]]].
    rewrite log_batches_snoc. rewrite nth_error_app1; [exact Hn|]. apply nth_error_Some; congruence. }
  assert (Hnew : forall id' ops sy s, e = EAck id true -> p_call (prun tr) = Some (id', ops, sy, Some (n, s)) ->
            (id, true, n, b) = (id, sy, n, (s, ops)) -> exists i o x j, created_at (fs_run (tr ++ [e])) i (FLog n) o /\
      nth_error (d_objs (fs_run (tr ++ [e]))) o = Some x /\
      (j < o_synced x)%nat /\ nth_error (log_batches (tr ++ [e]) n) j = Some b).
  { intros id' ops sy s -> Hcall E. injection E as <- ->.
    apply chk_all_iff in Hchk. destruct Hchk as [_ [H1 _]]. cbn [chk_R1] in H1. rewrite Hcall in H1.
    destruct (obj_at (p_disk (prun tr)) (FLog n)) as [x|] eqn:Ex; [|discriminate].
    apply Nat.eqb_eq in H1.
    destruct (obj_at_some _ _ _ Ex) as [o [Hl Hx]].
    destruct (lookup_created _ _ _ IS Hl) as [i [g [x' [Hc [_ [Hg _]]]]]].
    rewrite (Hg ltac:(discriminate)) in Hc.
    destruct (it_call _ IT _ _ _ _ _ Hcall) as [Hkeys [bs0 Hl0]].
    apply in_map_iff in Hkeys. destruct Hkeys as [[n' bs] [En Hin]]. cbn [fst] in En; subst n'.
    pose proof (it_logs _ IT _ _ Hin) as Hbs.
    pose proof (is_logs_recs _ IS _ _ _ _ _ Hin Hc Hx) as Hrecs.
    pose proof (batches_of_length _ _ Hrecs) as Hlen.
    rewrite fs_run_snoc. cbn [fs_step]. rewrite <- prun_disk.
    exists i, o, x, (length bs0). split; [exact Hc|split; [exact Hx|split]].
    - rewrite H1, <- Hlen, Hbs, Hl0, app_length. cbn [length]. lia.
    - rewrite log_batches_snoc. cbn [batch_of_ev]. rewrite app_nil_r, Hl0.
      rewrite nth_error_app2 by lia. rewrite Nat.sub_diag. reflexivity. }
  destruct (in_acks_snoc _ _ _ H) as [Hin|[[id0 [ops [sy0 [n0 [s [He [Hc E]]]]]]]|[id0 [id' [ops [sy0 [n0 [s [He [Hc E]]]]]]]]]].
  - apply Hold; exact Hin.
  - pose proof E as E'. injection E' as -> _ -> _. eapply Hnew; eauto.
  - pose proof E as E'. injection E' as -> _ -> _. eapply Hnew; eauto.
Qed.

Lemma cov_newest_step : forall tr e, Inv_trace tr -> chk_all (prun tr) e = true ->
  p_cov (prun (tr ++ [e])) <= newest_log (p_logs (prun (tr ++ [e]))).
Proof.
  intros tr e IT Hchk. rewrite prun_snoc, pstep_cov, pstep_logs. pose proof (it_cov _ IT) as H.
  destruct e as [f|f pl| | |a b|f|id b sy|id ok]; try exact H.
  - destruct f; try exact H. rewrite newest_log_snoc. lia.
  - destruct f; try exact H; destruct pl; try exact H.
    + rewrite (newest_log_keys _ (p_logs (prun tr))); [exact H|apply add_batch_fst].
    + destruct (me_log e) as [l|] eqn:El; [|exact H].
      apply chk_all_iff in Hchk. destruct Hchk as [_ [_ [_ [_ [_ [H5 _]]]]]]. cbn [chk_R5] in H5. rewrite El in H5.
      apply andb_true_iff in H5. destruct H5 as [H5 _]. apply andb_true_iff in H5. destruct H5 as [_ H5].
      apply N.leb_le in H5. lia.
Qed.

Lemma flushed_step : forall tr e, Inv_struct (prun tr) -> Inv_trace tr -> chk_all (prun tr) e = true ->
  forall n bs b, In (n, bs) (p_logs (prun (tr ++ [e]))) -> n < p_cov (prun (tr ++ [e])) -> In b bs -> flushed (tr ++ [e]) b.
Proof.
  intros tr e IS IT Hchk n bs b Hin Hn Hb. rewrite prun_snoc in Hin, Hn. rewrite pstep_logs in Hin. rewrite pstep_cov in Hn.
  assert (Hold : In (n, bs) (p_logs (prun tr)) -> n < p_cov (prun tr) -> flushed (tr ++ [e]) b).
  { intros H1 H2. apply flushed_snoc. eapply (it_flushed _ IT); eauto. }
  destruct e as [f|f pl| | |a b'|f|id b' sy|id ok]; try (apply Hold; assumption).
  - destruct f as [n'| | | |]; try (apply Hold; assumption).
    apply in_app_or in Hin. destruct Hin as [Hin|[Hin|[]]]; [apply Hold; assumption|].
    injection Hin as <- <-. contradiction.
  - destruct f as [m|m|m| |m]; try (apply Hold; assumption).
    + destruct pl as [s ops|ed|ents|cm]; try (apply Hold; assumption).
      destruct (append_batch_facts _ _ _ _ IS Hchk) as [Hm [Hnew _]].
      assert (ND : NoDup (map fst (p_logs (prun tr)))) by (apply sorted0_nodup; apply (is_logs_sorted _ IS)).
      apply (in_add_batch m (s, ops) _ n bs ND) in Hin.
      destruct Hin as [[Hne Hin]|[-> _]]; [apply Hold; assumption|].
      pose proof (it_cov _ IT). lia.
    + destruct pl as [s ops|ed|ents|cm]; try (apply Hold; assumption).
      destruct (me_log ed) as [l|] eqn:El; [|apply Hold; assumption].
      destruct (N.ltb_spec n (p_cov (prun tr))) as [Hlt|Hge]; [apply Hold; assumption|].
      pose proof Hchk as Hc. apply chk_all_iff in Hc. destruct Hc as [_ [_ [_ [_ [_ [H5 _]]]]]].
      cbn [chk_R5] in H5. rewrite El in H5. apply andb_true_iff in H5. destruct H5 as [_ H5].
      rewrite forallb_forall in H5. specialize (H5 _ Hin). cbn [fst snd] in H5.
      assert (E1 : (p_cov (prun tr) <=? n) = true) by (apply N.leb_le; exact Hge).
      assert (E2 : (n <? l) = true) by (apply N.ltb_lt; lia).
      rewrite E1, E2 in H5. cbn [andb] in H5. rewrite forallb_forall in H5. specialize (H5 _ Hb).
      exists tr, m, ed, []. split; [reflexivity|]. rewrite <- prun_disk. exact H5.
Qed.

Lemma Inv_trace_nil : Inv_trace [].
Proof.
  constructor; cbn; try (intros; contradiction); try reflexivity; try (intros; discriminate); try lia.
Qed.

Theorem Inv_trace_run : forall tr, wf_protocol tr = true -> Inv_trace tr.
Proof.
  intro tr; induction tr as [|e tr IH] using rev_ind; intro H; [exact Inv_trace_nil|].
  apply wf_protocol_snoc in H. destruct H as [H1 H2]. specialize (IH H1).
  pose proof (id_struct _ (Inv_dur_run _ H1)) as IS.
  destruct (logs_step _ _ IS IH H2) as [L1 L2].
  constructor.
  - exact L1.
  - exact L2.
  - apply logged_step; assumption.
  - apply acks_step; assumption.
  - apply call_step; assumption.
  - apply dur_ack_step; assumption.
  - apply ack_log_step; assumption.
  - apply unl_step; assumption.
  - apply cov_newest_step; assumption.
  - apply flushed_step; assumption.
Qed.
