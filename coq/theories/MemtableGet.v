(* MemtableGet.v -- the memtable abstraction of the engine model is justified:
   the replica of ldb_memtable_get (Memtable.v) over the skiplist (Skiplist.v) of encoded
   entries, built by ldb_memtable_add with ANY node heights, equals Engine.get_in_run over
   the sorted entry list that Engine.do_write maintains ([mem_run] is that fold of
   Engine.insert_sorted).  MemtableProofs.memtable_get_is_seek_from instantiated with
   SkiplistProofs.skiplist_seek. *)
From LCDB Require Import Base Engine EngineSpec Skiplist SkiplistSpec SkiplistProofs Memtable MemtableProofs.
Local Open Scope N_scope.

Theorem memtable_get_is_seek : forall ucmp, total_order ucmp ->
  forall adds hs k q,
  Forall add_ok adds -> adds_distinct ucmp adds -> heights_ok (map enc_add adds) hs ->
  q < MAXSEQ1 -> nlen k + 8 < 4294967296 ->
  memtable_get ucmp (memtable_add_all ucmp sl_empty adds hs) k q
  = get_in_run ucmp (mem_run ucmp adds) k q.
Proof.
  intros ucmp TO. exact (memtable_get_is_seek_from ucmp TO (skiplist_seek bytes (mt_compare ucmp))).
Qed.
Print Assumptions memtable_get_is_seek.

(* the memtable run is exactly what Engine.do_write builds from an empty memtable *)
Lemma mem_run_is_do_write : forall ucmp adds,
  mem_run ucmp adds = fold_left (fun m e => insert_sorted ucmp e m) (map entry_of_add adds) [].
Proof. reflexivity. Qed.

(* what the memtable iterator walks (level 0 of the skiplist) is the engine model's sorted
   run, entry by entry: this is what a flush hands to the table builder *)
Theorem memtable_contents_is_run : forall ucmp, total_order ucmp ->
  forall adds hs,
  Forall add_ok adds -> adds_distinct ucmp adds -> heights_ok (map enc_add adds) hs ->
  Skiplist.skiplist_contents (memtable_add_all ucmp sl_empty adds hs)
  = map enc_entry (mem_run ucmp adds).
Proof.
  intros ucmp TO adds hs Hok Hd Hh.
  assert (Henc : map enc_add adds = map enc_entry (map entry_of_add adds)).
  { rewrite map_map. apply map_ext_in. intros a Ha. rewrite Forall_forall in Hok.
    apply (enc_add_entry a (Hok a Ha)). }
  assert (Hoks : Forall entry_ok (map entry_of_add adds)).
  { apply Forall_forall. intros e He. apply in_map_iff in He. destruct He as (a & <- & Ha).
    rewrite Forall_forall in Hok. apply (enc_add_entry a (Hok a Ha)). }
  rewrite memtable_add_all_build. fold (sl_build (mt_compare ucmp) (map enc_add adds) hs).
  rewrite (SkiplistProofs.skiplist_contents bytes (mt_compare ucmp) (mt_compare_order ucmp TO)).
  - unfold sort_keys, mem_run. rewrite Henc.
    rewrite (map_sort_entries ucmp TO (map entry_of_add adds) []); [reflexivity|exact Hoks|constructor|exact Hd|].
    intros e x _ [].
  - rewrite Henc. apply keys_distinct_enc; assumption.
  - exact Hh.
Qed.
Print Assumptions memtable_contents_is_run.
