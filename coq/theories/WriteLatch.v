(* WriteLatch.v -- the error latch of the write path (C12).
   Model of the status flow of ldb_write (src/db_impl.c, after fix cf9b327) for one open session
   of one handle, at the granularity of whole write calls (group leaders):

     rc = ldb_make_room_for_write(...)        -- yields db->bg_error when it is set
     rc = ldb_writer_add_record(db->log, ..)  -- may append the whole record, a strict prefix, or nothing
     if (rc != OK) sync_error = 1;
     if (rc == OK && sync) { rc = ldb_wfile_sync(..); if (rc != OK) sync_error = 1; }
     if (rc == OK) rc = ldb_batch_insert_into(write_batch, db->wl_mem);
     if (sync_error) ldb_record_background_error(db, rc);

   The environment chooses, per call, what the append and the fsync do ([lw_app], [lw_sync_ok]); the
   model is total over every such choice.  [wl_nolatch] is the behaviour before the fix (a failed
   append is reported but not latched), kept to show that the latch is what the theorems need.
   Executable; extracted (coq/extract/latch.roots) and run against the real library under injected
   faults by checks/c12.py (kind `latch-vs-model`). *)
From Coq Require Import List NArith Bool.
Import ListNotations.
Local Open Scope N_scope.

Inductive wl_app_out := WlAOk | WlAPartial | WlANone.
Record lwop := { lw_id : N; lw_sync : bool; lw_app : wl_app_out; lw_sync_ok : bool }.
Inductive wl_rec := WlWhole (id : N) | WlTorn (id : N).
Record wl_state := { wl_bg : bool; wl_logf : list wl_rec; wl_mem : list N }.

Definition wl_init : wl_state := {| wl_bg := false; wl_logf := []; wl_mem := [] |}.

(* does the environment make this call fail (when it is attempted at all)? *)
Definition wl_op_faulty (o : lwop) : bool :=
  match lw_app o with
  | WlAOk => lw_sync o && negb (lw_sync_ok o)
  | _ => true
  end.

Definition wl_step (s : wl_state) (o : lwop) : wl_state * bool :=
  if wl_bg s then (s, false) else
  match lw_app o with
  | WlAOk =>
      if lw_sync o && negb (lw_sync_ok o)
      then ({| wl_bg := true; wl_logf := wl_logf s ++ [WlWhole (lw_id o)]; wl_mem := wl_mem s |}, false)
      else ({| wl_bg := false; wl_logf := wl_logf s ++ [WlWhole (lw_id o)]; wl_mem := wl_mem s ++ [lw_id o] |}, true)
  | WlAPartial => ({| wl_bg := true; wl_logf := wl_logf s ++ [WlTorn (lw_id o)]; wl_mem := wl_mem s |}, false)
  | WlANone => ({| wl_bg := true; wl_logf := wl_logf s; wl_mem := wl_mem s |}, false)
  end.

(* the behaviour before fix cf9b327: a failed append is reported, but only a failed fsync latches *)
Definition wl_step_nolatch (s : wl_state) (o : lwop) : wl_state * bool :=
  if wl_bg s then (s, false) else
  match lw_app o with
  | WlAOk =>
      if lw_sync o && negb (lw_sync_ok o)
      then ({| wl_bg := true; wl_logf := wl_logf s ++ [WlWhole (lw_id o)]; wl_mem := wl_mem s |}, false)
      else ({| wl_bg := false; wl_logf := wl_logf s ++ [WlWhole (lw_id o)]; wl_mem := wl_mem s ++ [lw_id o] |}, true)
  | WlAPartial => ({| wl_bg := false; wl_logf := wl_logf s ++ [WlTorn (lw_id o)]; wl_mem := wl_mem s |}, false)
  | WlANone => ({| wl_bg := false; wl_logf := wl_logf s; wl_mem := wl_mem s |}, false)
  end.

Section Run.
  Variable stp : wl_state -> lwop -> wl_state * bool.
  Fixpoint wl_run (s : wl_state) (os : list lwop) : wl_state * list bool :=
    match os with
    | [] => (s, [])
    | o :: r => let '(s1, a) := stp s o in
                let '(s2, acks) := wl_run s1 r in (s2, a :: acks)
    end.
End Run.

(* identifiers of the calls acknowledged OK *)
Fixpoint wl_acked_ids (os : list lwop) (acks : list bool) : list N :=
  match os, acks with
  | o :: r, a :: ar => if a then lw_id o :: wl_acked_ids r ar else wl_acked_ids r ar
  | _, _ => []
  end.

(* what log recovery returns: the records in front of the first torn one (a torn record in the
   middle of a block takes the rest of its block with it: LogFormat.read_log, C15) *)
Fixpoint wl_recovered (l : list wl_rec) : list N :=
  match l with
  | WlWhole i :: r => i :: wl_recovered r
  | _ => []
  end.

(* driver entry: acks, latch, memtable, wl_recovered log *)
Definition latch_case (os : list lwop) : list bool * bool * list N * list N :=
  let '(s, acks) := wl_run wl_step wl_init os in (acks, wl_bg s, wl_mem s, wl_recovered (wl_logf s)).
