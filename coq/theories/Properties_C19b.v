(* Properties_C19b.v -- C19, log salvage part: the record loop of convert_log_to_table (RepairLog.v).
   Statements only; proofs in RepairLog.v. *)
From Coq Require Import List NArith.
From LCDB Require Import Base Batch RepairLog.
Import ListNotations.
Local Open Scope N_scope.

(* a record that does not parse as a write batch affects nothing but itself *)
Theorem C19_bad_record_is_local : forall pre bad post,
  salvage (pre ++ bad :: post) = salvage pre ++ record_entries bad ++ salvage post.
Proof. exact salvage_local. Qed.
Print Assumptions C19_bad_record_is_local.

(* an intact record hands over all of its operations, numbered from its own sequence *)
Theorem C19_intact_record_salvaged : forall seq ops,
  wf_ops ops = true -> seq < 18446744073709551616 ->
  record_entries (batch_build seq ops) = number_ops seq ops /\ record_ok (batch_build seq ops) = true.
Proof. exact record_entries_intact. Qed.
Print Assumptions C19_intact_record_salvaged.

(* every intact record of a log with one damaged record is salvaged completely, wherever the damage is *)
Theorem C19_log_with_one_bad_record : forall pre post bad,
  (forall r, In r (pre ++ post) -> exists seq ops, wf_ops ops = true /\ seq < 18446744073709551616 /\ r = batch_build seq ops) ->
  forall seq ops, wf_ops ops = true -> seq < 18446744073709551616 ->
  In (batch_build seq ops) (pre ++ post) ->
  forall e, In e (number_ops seq ops) -> In e (salvage (pre ++ bad :: post)).
Proof. exact salvage_keeps_intact_records. Qed.
Print Assumptions C19_log_with_one_bad_record.

Theorem C19_short_record_ignored : forall r, nlen r < BATCH_HEADER -> record_entries r = [].
Proof. exact record_entries_short. Qed.
Print Assumptions C19_short_record_ignored.

(* a failing record contributes exactly the operations delivered before the failure *)
Theorem C19_failing_record_prefix : forall r, BATCH_HEADER <= nlen r ->
  record_entries r = number_ops (batch_sequence r) (batch_ops r).
Proof. exact record_entries_numbered. Qed.
Print Assumptions C19_failing_record_prefix.
