(* Batch.v -- model of src/write_batch.c (+ write_batch.h).
   WriteBatch::rep := sequence: fixed64 | count: fixed32 | record[count]
   record := 1 varstring varstring (LDB_TYPE_VALUE) | 0 varstring (LDB_TYPE_DELETION)
   A batch is its [rep] byte string.  Definitions only. *)
From LCDB Require Export Base Varint.
Local Open Scope N_scope.

Definition BATCH_HEADER : N := 12.

Inductive bop :=
| BPut (key value : bytes)
| BDel (key : bytes).

(* Every error is LDB_CORRUPTION in C; the constructors name the comment next
   to each return statement of ldb_batch_iterate. *)
Inductive bstatus :=
| BOk
| BTooSmall      (* "malformed WriteBatch (too small)" *)
| BBadPut        (* "bad WriteBatch Put" *)
| BBadDelete     (* "bad WriteBatch Delete" *)
| BUnknownTag    (* "unknown WriteBatch tag" *)
| BWrongCount.   (* "WriteBatch has wrong count" *)

Definition bstatus_is_ok (s : bstatus) : bool :=
  match s with BOk => true | _ => false end.

(* ldb_batch_init / ldb_batch_reset: 12 zero bytes *)
Definition batch_empty : bytes := [0;0;0;0;0;0;0;0;0;0;0;0].

(* ldb_batch_contents / ldb_batch_size *)
Definition batch_contents (b : bytes) : bytes := b.
Definition batch_size (b : bytes) : N := nlen b.

(* ldb_batch_count: fixed32 at offset 8 (C asserts nothing; rep always has >= 12
   bytes; the model returns 0 on a shorter string, where C would read out of bounds) *)
Definition batch_count (b : bytes) : N :=
  match de32 (skipn 8 b) with Some v => v | None => 0 end.

(* ldb_batch_set_count: the int is stored as a 32-bit value *)
Definition batch_set_count (b : bytes) (c : N) : bytes :=
  firstn 8 b ++ le32 (c mod 4294967296) ++ skipn 12 b.

(* ldb_batch_sequence / ldb_batch_set_sequence: fixed64 at offset 0 *)
Definition batch_sequence (b : bytes) : N :=
  match de64 b with Some v => v | None => 0 end.

Definition batch_set_sequence (b : bytes) (seq : N) : bytes :=
  le64 (seq mod 18446744073709551616) ++ skipn 8 b.

(* ldb_batch_put / ldb_batch_del: count+1 then append the record *)
Definition batch_put (b : bytes) (key value : bytes) : bytes :=
  batch_set_count b (batch_count b + 1) ++ [1] ++ slice_write key ++ slice_write value.

Definition batch_del (b : bytes) (key : bytes) : bytes :=
  batch_set_count b (batch_count b + 1) ++ [0] ++ slice_write key.

(* ldb_batch_append(dst, src): counts add (32-bit), records of src are appended *)
Definition batch_append (dst src : bytes) : bytes :=
  batch_set_count dst (batch_count dst + batch_count src) ++ skipn 12 src.

Definition batch_apply (b : bytes) (op : bop) : bytes :=
  match op with
  | BPut k v => batch_put b k v
  | BDel k => batch_del b k
  end.

(* init; set_sequence(seq); put/del ... (what the k1 driver does) *)
Definition batch_build (seq : N) (ops : list bop) : bytes :=
  fold_left batch_apply ops (batch_set_sequence batch_empty seq).

(* The while loop of ldb_batch_iterate.  Returns the operations handed to the
   handler before the loop ended, and why it ended.  [found] of the C code equals
   the number of loop iterations = number of ops returned when the status is BOk.
   Fuel: every iteration consumes at least the tag byte. *)
Fixpoint batch_iter_loop (fuel : nat) (input : bytes) : list bop * bstatus :=
  match fuel with
  | O => ([], BOk)              (* unreachable with fuel >= length input *)
  | S f =>
    match input with
    | [] => ([], BOk)
    | tag :: rest =>
      if tag =? 1 then
        match slice_read rest with
        | None => ([], BBadPut)
        | Some (k, r1) =>
          match slice_read r1 with
          | None => ([], BBadPut)
          | Some (v, r2) =>
              let '(ops, st) := batch_iter_loop f r2 in (BPut k v :: ops, st)
          end
        end
      else if tag =? 0 then
        match slice_read rest with
        | None => ([], BBadDelete)
        | Some (k, r1) =>
            let '(ops, st) := batch_iter_loop f r1 in (BDel k :: ops, st)
        end
      else ([], BUnknownTag)
    end
  end.

(* ldb_batch_iterate.  [found != ldb_batch_count(batch)] compares two C ints; the
   model compares naturals, which agrees as long as found < 2^31 (a batch with
   2^31 records does not fit the address space the harness runs in). *)
Definition batch_iterate (b : bytes) : list bop * bstatus :=
  if nlen b <? BATCH_HEADER then ([], BTooSmall)
  else
    let '(ops, st) := batch_iter_loop (length b) (skipn 12 b) in
    match st with
    | BOk => if nlen ops =? batch_count b then (ops, BOk) else (ops, BWrongCount)
    | e => (ops, e)
    end.

Definition batch_ops (b : bytes) : list bop := fst (batch_iterate b).
Definition batch_status (b : bytes) : bstatus := snd (batch_iterate b).

(* ldb_batch_insert_into: the handler numbers the operations seq, seq+1, ...
   (64-bit counter) *)
Fixpoint number_ops (seq : N) (ops : list bop) : list (N * bop) :=
  match ops with
  | [] => []
  | o :: r => (seq, o) :: number_ops ((seq + 1) mod 18446744073709551616) r
  end.

Definition batch_insert_into (b : bytes) : list (N * bop) * bstatus :=
  let '(ops, st) := batch_iterate b in (number_ops (batch_sequence b) ops, st).

(* ---- encoding of a list of operations, and its well-formedness ---- *)
Definition enc_op (o : bop) : bytes :=
  match o with
  | BPut k v => [1] ++ slice_write k ++ slice_write v
  | BDel k => [0] ++ slice_write k
  end.

Definition enc_ops (ops : list bop) : bytes := flat_map enc_op ops.

(* lengths fit the varint32 prefix; the count fits the fixed32 header field *)
Definition wf_op (o : bop) : bool :=
  match o with
  | BPut k v => (nlen k <? 4294967296) && (nlen v <? 4294967296)
  | BDel k => nlen k <? 4294967296
  end.

Definition wf_ops (ops : list bop) : bool :=
  forallb wf_op ops && (nlen ops <? 4294967296).
