(* ManifestReplay.v -- model of the MANIFEST replay of src/version_set.c:
   ldb_versions_recover (the record loop and the final checks), the version
   builder (builder_apply / builder_maybe_add_file / builder_save_to,
   by_smallest_key), ldb_versions_mark_file_number and the snapshot record of
   ldb_versions_write_snapshot.  Input of the replay = the BYTES of the MANIFEST
   file and the name of the comparator the database is opened with.
   Definitions only (executable); the theorems are in ManifestReplayProofs.v.

   Representation choices (everything else is a line-by-line transcription):
   - rb_set64_t deleted_files  : duplicate-free list of numbers (put / del / has);
   - rb_set_t added_files      : list kept sorted by by_smallest_key; inserting an
                                 element that compares equal to a member is a no-op
                                 (rb_tree_put returns 0) -- the red-black tree and the
                                 sorted list have the same in-order traversal whenever
                                 the comparator is a strict weak order;
   - has_x flag + field        : option;
   - the #ifndef NDEBUG overlap asserts of builder_maybe_add_file /
     builder_save_to are not modelled;
   - on failure only the status code is returned (the C code has by then
     already modified vset->compact_pointer and possibly vset->next_file_number;
     ldb_open fails in that case and the version set is destroyed). *)
From LCDB Require Export Base LogFormat Edit IKey.
Local Open Scope N_scope.

Definition RC_OK : N := 0.
Definition RC_CORRUPTION : N := 30002.     (* LDB_CORRUPTION *)
Definition RC_INVALID : N := 30004.        (* LDB_INVALID *)
Definition U64 : N := 18446744073709551616.
Definition NLEVELS : nat := 7.             (* LDB_NUM_LEVELS *)

(* ldb_filemeta_t (the serialized fields) *)
Record filemeta := mkFile {
  f_number : N;
  f_size : N;
  f_smallest : bytes;      (* encoded internal key *)
  f_largest : bytes
}.

Definition meta_of (nf : newfile) : filemeta :=
  mkFile (nf_number nf) (nf_size nf) (nf_smallest nf) (nf_largest nf).
Definition newfile_of (level : N) (f : filemeta) : newfile :=
  mkNewFile level (f_number f) (f_size f) (f_smallest f) (f_largest f).

(* the internal-key comparator over a user comparator (ldb_ikc_compare);
   ikc_compare bytes_compare = ikey_compare *)
Definition ikc_compare (ucmp : bytes -> bytes -> comparison) (a b : bytes) : comparison :=
  match ucmp (ikey_user a) (ikey_user b) with
  | Eq => N.compare (ikey_tag b) (ikey_tag a)
  | c => c
  end.

(* ---- generic helpers on the per-level arrays ---- *)
Fixpoint upd_nth {A} (n : nat) (f : A -> A) (l : list A) : list A :=
  match l with
  | [] => []
  | x :: r => match n with O => f x :: r | S n' => x :: upd_nth n' f r end
  end.

(* ---- rb_set64_t ---- *)
Definition dset_has (n : N) (d : list N) : bool := existsb (N.eqb n) d.
Definition dset_put (n : N) (d : list N) : list N := if dset_has n d then d else n :: d.
Definition dset_del (n : N) (d : list N) : list N := filter (fun x => negb (x =? n)) d.

(* level_state_t *)
Record level_state := mkLS { ls_deleted : list N; ls_added : list filemeta }.
Definition ls_empty : level_state := mkLS [] [].

(* builder_t (levels) together with vset->compact_pointer, which builder_apply
   updates in place *)
Record builder := mkBuilder { b_levels : list level_state; b_compact : list bytes }.

Definition builder_init (compact : list bytes) : builder :=
  mkBuilder (repeat ls_empty NLEVELS) compact.

(* the local variables of ldb_versions_recover *)
Record rstate := mkR {
  r_rc : N;
  r_builder : builder;
  r_log : option N;
  r_prev : option N;
  r_next : option N;
  r_seq : option N
}.

Definition opt_or (new old : option N) : option N :=
  match new with Some _ => new | None => old end.

(* what recovery installs in the version set *)
Record recovered := mkRecovered {
  rv_levels : list (list filemeta);      (* vset->current->files[level], in order *)
  rv_compact : list bytes;               (* vset->compact_pointer[level] *)
  rv_log_number : N;
  rv_prev_log_number : N;
  rv_manifest_file_number : N;
  rv_next_file_number : N;
  rv_last_sequence : N;
  rv_marked : N      (* vset->next_file_number after the two mark_file_number calls,
                        i.e. just before it is overwritten with next_file + 1 *)
}.

(* the abstract state: the version (files per level, in order), the compaction
   pointers and the four counters with their have_* flags *)
Record vstate := mkV {
  vs_levels : list (list filemeta);
  vs_compact : list bytes;
  vs_log : option N;
  vs_prev : option N;
  vs_next : option N;
  vs_seq : option N
}.

Section Builder.
(* the internal-key comparator vset->icmp *)
Variable kcmp : bytes -> bytes -> comparison.

(* by_smallest_key *)
Definition by_smallest (f1 f2 : filemeta) : comparison :=
  match kcmp (f_smallest f1) (f_smallest f2) with
  | Eq => N.compare (f_number f1) (f_number f2)
  | c => c
  end.

(* rb_set_put(&state->added_files, f) *)
Fixpoint fset_insert (f : filemeta) (l : list filemeta) : list filemeta :=
  match l with
  | [] => [f]
  | g :: r =>
      match by_smallest f g with
      | Lt => f :: l
      | Eq => l
      | Gt => g :: fset_insert f r
      end
  end.

(* builder_apply *)
Definition apply_compact (cps : list bytes) (p : N * bytes) : list bytes :=
  upd_nth (N.to_nat (fst p)) (fun _ => snd p) cps.
Definition apply_deleted (ls : list level_state) (p : N * N) : list level_state :=
  upd_nth (N.to_nat (fst p)) (fun st => mkLS (dset_put (snd p) (ls_deleted st)) (ls_added st)) ls.
Definition apply_newfile (ls : list level_state) (nf : newfile) : list level_state :=
  upd_nth (N.to_nat (nf_level nf))
          (fun st => mkLS (dset_del (nf_number nf) (ls_deleted st))
                          (fset_insert (meta_of nf) (ls_added st))) ls.

Definition builder_apply (b : builder) (e : edit) : builder :=
  mkBuilder
    (fold_left apply_newfile (e_new_files e)
       (fold_left apply_deleted (e_deleted_files e) (b_levels b)))
    (fold_left apply_compact (e_compact_pointers e) (b_compact b)).

(* builder_maybe_add_file: the list of files pushed (none or one) *)
Definition maybe_add (d : list N) (f : filemeta) : list filemeta :=
  if dset_has (f_number f) d then [] else [f].

(* the inner for loop of builder_save_to: the base files that are pushed before
   [added] and the base files that remain *)
Fixpoint span_lt (a : filemeta) (base : list filemeta) : list filemeta * list filemeta :=
  match base with
  | [] => ([], [])
  | b :: r =>
      match by_smallest b a with
      | Lt => let (lo, hi) := span_lt a r in (b :: lo, hi)
      | _ => ([], base)
      end
  end.

(* one level of builder_save_to *)
Fixpoint save_level (d : list N) (base added : list filemeta) : list filemeta :=
  match added with
  | [] => flat_map (maybe_add d) base
  | a :: added' =>
      let (lo, hi) := span_lt a base in
      flat_map (maybe_add d) lo ++ maybe_add d a ++ save_level d hi added'
  end.

Fixpoint save_levels (base : list (list filemeta)) (ls : list level_state) : list (list filemeta) :=
  match ls with
  | [] => []
  | st :: ls' =>
      let b := match base with [] => [] | b :: _ => b end in
      save_level (ls_deleted st) b (ls_added st) :: save_levels (tl base) ls'
  end.

(* builder_save_to *)
Definition builder_save_to (base : list (list filemeta)) (b : builder) : list (list filemeta) :=
  save_levels base (b_levels b).

(* ---- the record loop of ldb_versions_recover ---- *)
(* the body of the while loop for one record (entered with rc == LDB_OK) *)
Definition recover_record (cmpname : bytes) (s : rstate) (r : bytes) : rstate :=
  match edit_import r with
  | None => mkR RC_CORRUPTION (r_builder s) (r_log s) (r_prev s) (r_next s) (r_seq s)
  | Some e =>
      let bad := match e_comparator e with
                 | Some c => negb (bytes_eqb c cmpname)
                 | None => false
                 end in
      mkR (if bad then RC_INVALID else RC_OK)
          (if bad then r_builder s else builder_apply (r_builder s) e)
          (opt_or (e_log_number e) (r_log s)) (opt_or (e_prev_log_number e) (r_prev s))
          (opt_or (e_next_file_number e) (r_next s)) (opt_or (e_last_sequence e) (r_seq s))
  end.

(* while (ldb_reader_read_record(...) && rc == LDB_OK): a corruption reported by
   the reader sets rc through the reporter (first status wins); a record that is
   returned while rc != LDB_OK ends the loop; nothing that happens after rc has
   become non-zero is observable in the result. *)
Fixpoint recover_loop (cmpname : bytes) (evs : list lev) (s : rstate) : rstate :=
  match evs with
  | [] => s
  | ev :: evs' =>
      if negb (r_rc s =? RC_OK) then s
      else match ev with
           | Drop _ => mkR RC_CORRUPTION (r_builder s) (r_log s) (r_prev s) (r_next s) (r_seq s)
           | Rec r => recover_loop cmpname evs' (recover_record cmpname s r)
           end
  end.

(* ldb_versions_mark_file_number on the value of vset->next_file_number *)
Definition mark_file_number (next_file_number number : N) : N :=
  if next_file_number <=? number then (number + 1) mod U64 else next_file_number.

(* the code after the loop.  [nf0] = vset->next_file_number on entry (2 for a
   fresh version set), [base] = vset->current on entry (empty). *)
Definition recover_finish (nf0 : N) (base : list (list filemeta)) (s : rstate) : N + recovered :=
  if negb (r_rc s =? RC_OK) then inl (r_rc s)
  else
    match r_next s, r_log s, r_seq s with
    | None, _, _ => inl RC_CORRUPTION      (* no meta-nextfile entry in descriptor *)
    | Some _, None, _ => inl RC_CORRUPTION (* no meta-lognumber entry in descriptor *)
    | Some _, Some _, None => inl RC_CORRUPTION   (* no last-sequence-number entry *)
    | Some next_file, Some log_number, Some last_sequence =>
        let prev_log_number := match r_prev s with Some p => p | None => 0 end in
        let marked := mark_file_number (mark_file_number nf0 prev_log_number) log_number in
        inr (mkRecovered (builder_save_to base (r_builder s)) (b_compact (r_builder s))
                         log_number prev_log_number next_file ((next_file + 1) mod U64)
                         last_sequence marked)
    end.

Definition rstate_init (compact : list bytes) : rstate :=
  mkR RC_OK (builder_init compact) None None None None.

(* the state reached by the record loop, with the builder saved on top of [base]
   (what the code after the loop works on) *)
Definition recover_state (cmpname : bytes) (base : list (list filemeta))
                         (compact : list bytes) (file : bytes) : N + vstate :=
  let s := recover_loop cmpname (read_log_events true file) (rstate_init compact) in
  if negb (r_rc s =? RC_OK) then inl (r_rc s)
  else inr (mkV (builder_save_to base (r_builder s)) (b_compact (r_builder s))
                (r_log s) (r_prev s) (r_next s) (r_seq s)).

Definition recover_from (cmpname : bytes) (nf0 : N) (base : list (list filemeta))
                        (compact : list bytes) (file : bytes) : N + recovered :=
  recover_finish nf0 base
    (recover_loop cmpname (read_log_events true file) (rstate_init compact)).

End Builder.

Definition empty_levels : list (list filemeta) := repeat [] NLEVELS.
Definition empty_compact : list bytes := repeat [] NLEVELS.

(* ldb_versions_recover on a freshly initialised version set
   (ldb_versions_init: next_file_number = 2, current = empty version,
   compact_pointer[] empty) *)
Definition manifest_replay_with (kcmp : bytes -> bytes -> comparison)
                                (cmpname : bytes) (file : bytes) : N + recovered :=
  recover_from kcmp cmpname 2 empty_levels empty_compact file.

Definition manifest_replay_state_with (kcmp : bytes -> bytes -> comparison)
                                      (cmpname : bytes) (file : bytes) : N + vstate :=
  recover_state kcmp cmpname empty_levels empty_compact file.

(* with the default bytewise comparator *)
Definition manifest_replay (cmpname : bytes) (file : bytes) : N + recovered :=
  manifest_replay_with ikey_compare cmpname file.

Definition manifest_replay_state (cmpname : bytes) (file : bytes) : N + vstate :=
  manifest_replay_state_with ikey_compare cmpname file.

(* user comparators of the K2 harness: 0 bytewise, 1 reverse bytewise,
   other = the function given *)
Definition rev_compare (a b : bytes) : comparison := CompOpp (bytes_compare a b).

(* ---- the abstract state and ldb_versions_apply's use of the builder ---- *)
Definition vstate_init : vstate := mkV empty_levels empty_compact None None None None.

(* builder_init(current); builder_apply(edit); builder_save_to(v) -- one edit on
   top of a state, plus "the last value set wins" for the four counters *)
Definition apply_edit (kcmp : bytes -> bytes -> comparison) (s : vstate) (e : edit) : vstate :=
  let b := builder_apply kcmp (builder_init (vs_compact s)) e in
  mkV (builder_save_to kcmp (vs_levels s) b) (b_compact b)
      (opt_or (e_log_number e) (vs_log s)) (opt_or (e_prev_log_number e) (vs_prev s))
      (opt_or (e_next_file_number e) (vs_next s)) (opt_or (e_last_sequence e) (vs_seq s)).

(* the final checks of ldb_versions_recover on an abstract state *)
Definition finish_vstate (nf0 : N) (s : vstate) : N + recovered :=
  match vs_next s, vs_log s, vs_seq s with
  | None, _, _ => inl RC_CORRUPTION
  | Some _, None, _ => inl RC_CORRUPTION
  | Some _, Some _, None => inl RC_CORRUPTION
  | Some next_file, Some log_number, Some last_sequence =>
      let prev_log_number := match vs_prev s with Some p => p | None => 0 end in
      inr (mkRecovered (vs_levels s) (vs_compact s) log_number prev_log_number next_file
                       ((next_file + 1) mod U64) last_sequence
                       (mark_file_number (mark_file_number nf0 prev_log_number) log_number))
  end.

(* ---- ldb_versions_write_snapshot: the edit it builds ---- *)
Fixpoint snapshot_compacts (level : N) (cps : list bytes) : list (N * bytes) :=
  match cps with
  | [] => []
  | k :: r => (if nlen k =? 0 then [] else [(level, k)]) ++ snapshot_compacts (level + 1) r
  end.

Fixpoint snapshot_files (level : N) (levels : list (list filemeta)) : list newfile :=
  match levels with
  | [] => []
  | fs :: r => map (newfile_of level) fs ++ snapshot_files (level + 1) r
  end.

Definition snapshot_edit (cmpname : bytes) (compact : list bytes)
                         (levels : list (list filemeta)) : edit :=
  mkEdit (Some cmpname) None None None None (snapshot_compacts 0 compact) []
         (snapshot_files 0 levels).
