(* SkiplistLemmas.v -- generic list lemmas and the pointwise effect of the link-setting
   operations of Skiplist.v (set_nth, nodes_set_next, link_loop).
   Used by SkiplistInv.v / SkiplistProofs.v. *)
From LCDB Require Import Skiplist SkiplistSpec.
Require Import Lia ZifyBool ZifyNat ZifyN.
Require Import List Arith.
Import ListNotations.
Local Open Scope nat_scope.

(* ------------------------------------------------------------------ *)
(* generic list lemmas                                                  *)
(* ------------------------------------------------------------------ *)
Section ListLemmas.
Context {A : Type}.

Lemma set_nth_length : forall n (x : A) l, length (set_nth n x l) = length l.
Proof. induction n; destruct l; cbn [set_nth length]; auto. Qed.

Lemma nth_error_set_nth_eq : forall n (x : A) l,
  n < length l -> nth_error (set_nth n x l) n = Some x.
Proof.
  induction n; destruct l; cbn [set_nth length nth_error]; intros; try lia; auto.
  apply IHn. lia.
Qed.

Lemma nth_error_set_nth_neq : forall n m (x : A) l,
  n <> m -> nth_error (set_nth n x l) m = nth_error l m.
Proof.
  induction n; destruct l, m; cbn [set_nth nth_error]; intros; try lia; auto.
Qed.

Lemma nth_set_nth_eq : forall n (x d : A) l, n < length l -> nth n (set_nth n x l) d = x.
Proof.
  induction n; destruct l; cbn [set_nth length nth]; intros; try lia; auto.
  apply IHn. lia.
Qed.

Lemma nth_set_nth_neq : forall n m (x d : A) l, n <> m -> nth m (set_nth n x l) d = nth m l d.
Proof.
  induction n; destruct l, m; cbn [set_nth nth]; intros; try lia; auto.
Qed.

Lemma set_nth_beyond : forall n (x : A) l, length l <= n -> set_nth n x l = l.
Proof.
  induction n; destruct l; cbn [set_nth length]; intros; try lia; auto.
  f_equal. apply IHn. lia.
Qed.

Lemma filter_true : forall (f : A -> bool) l, (forall y, In y l -> f y = true) -> filter f l = l.
Proof.
  induction l as [|y r IH]; intros H; cbn [filter]; auto.
  rewrite (H y (or_introl eq_refl)). f_equal. apply IH. intros; apply H; right; auto.
Qed.

Lemma filter_false : forall (f : A -> bool) l, (forall y, In y l -> f y = false) -> filter f l = [].
Proof.
  induction l as [|y r IH]; intros H; cbn [filter]; auto.
  rewrite (H y (or_introl eq_refl)). apply IH. intros; apply H; right; auto.
Qed.

Lemma filter_length_le' : forall (f : A -> bool) l, length (filter f l) <= length l.
Proof.
  induction l as [|y r IH]; cbn [filter length]; auto.
  destruct (f y); cbn [length]; lia.
Qed.

Lemma filter_hd_split : forall (f : A -> bool) c y,
  hd_error (filter f c) = Some y ->
  exists c1 c2, c = c1 ++ y :: c2 /\ filter f c1 = [] /\ f y = true.
Proof.
  induction c as [|z r IH]; intros y H; cbn [filter hd_error] in H; [discriminate|].
  destruct (f z) eqn:Hz.
  - cbn [hd_error] in H. injection H as ->. exists [], r. cbn [app filter]. auto.
  - destruct (IH y H) as (c1 & c2 & -> & H1 & H2).
    exists (z :: c1), c2. cbn [app filter]. rewrite Hz. auto.
Qed.

Lemma last_in_or_default : forall (l : list A) d, last l d = d \/ In (last l d) l.
Proof.
  induction l as [|y r IH]; intros d; [left; reflexivity|].
  destruct r as [|z r'].
  - right. left. reflexivity.
  - destruct (IH d) as [H|H].
    + left. exact H.
    + right. right. exact H.
Qed.

Lemma last_in : forall (l : list A) d, l <> [] -> In (last l d) l.
Proof.
  induction l as [|y r IH]; intros d H; [congruence|].
  destruct r as [|z r'].
  - left. reflexivity.
  - right. apply IH. discriminate.
Qed.

Lemma last_app_cons : forall (a : list A) x d, last (a ++ [x]) d = x.
Proof. intros. apply last_last. Qed.

Lemma last_cons_default : forall (l : list A) x d, last (x :: l) d = last l x.
Proof.
  induction l as [|y r IH]; intros; [reflexivity|].
  change (last (x :: y :: r) d) with (last (y :: r) d).
  rewrite IH. change (last (y :: r) x) with (match r with [] => y | _ => last r x end).
  destruct r; [reflexivity|]. rewrite <- (IH y x). reflexivity.
Qed.

Lemma firstn_seq' : forall n s m, n <= m -> firstn n (seq s m) = seq s n.
Proof.
  induction n; intros s m H; [reflexivity|].
  destruct m; [lia|]. cbn [seq firstn]. f_equal. apply IHn. lia.
Qed.

Lemma nth_map_seq : forall (f : nat -> A) n s l d, l < n -> nth l (map f (seq s n)) d = f (s + l).
Proof.
  induction n; intros s l d H; [lia|].
  cbn [seq map]. destruct l.
  - cbn [nth]. f_equal. lia.
  - cbn [nth]. rewrite IHn by lia. f_equal. lia.
Qed.

Lemma nth_repeat' : forall (a : A) m n, nth n (repeat a m) a = a.
Proof. induction m; destruct n; cbn [repeat nth]; auto. Qed.

End ListLemmas.

Lemma map_const_repeat : forall (f : nat -> nat) l, (forall i, In i l -> f i = 0) ->
  map f l = repeat 0 (length l).
Proof.
  induction l as [|y r IH]; intros H; [reflexivity|].
  cbn [map length repeat]. rewrite (H y (or_introl eq_refl)). f_equal.
  apply IH. intros; apply H; right; auto.
Qed.

(* my own "sorted": every element is related to every later element *)
Section Srt.
Context {A : Type}.
Variable R : A -> A -> Prop.
Fixpoint srt (l : list A) : Prop :=
  match l with
  | [] => True
  | x :: r => Forall (R x) r /\ srt r
  end.

Lemma srt_app : forall a b,
  srt (a ++ b) <-> srt a /\ srt b /\ Forall (fun x => Forall (R x) b) a.
Proof.
  induction a as [|x a IH]; intros b; cbn [app srt].
  - split; [intros H; repeat split; auto | intros (_ & H & _); exact H].
  - rewrite IH. rewrite Forall_app. split.
    + intros ((H1 & H2) & H3 & H4 & H5). repeat split; auto.
    + intros ((H1 & H2) & H3 & H4). inversion H4; subst. repeat split; auto.
Qed.
End Srt.

Lemma srt_impl_in : forall {A} (R R' : A -> A -> Prop) l,
  (forall a b, In a l -> In b l -> R a b -> R' a b) -> srt R l -> srt R' l.
Proof.
  induction l as [|x r IH]; intros H Hs; cbn [srt] in *; auto.
  destruct Hs as (H1 & H2). split.
  - rewrite Forall_forall in *. intros y Hy. apply H; [left; auto | right; auto | auto].
  - apply IH; auto. intros a b Ha Hb. apply H; right; auto.
Qed.

(* ------------------------------------------------------------------ *)
(* nodes: heights, keys, and the effect of nodes_set_next / link_loop  *)
(* ------------------------------------------------------------------ *)
Section Nodes.
Variable K : Type.

Definition nheight (ns : list (snode K)) (y : nat) : nat :=
  match nth_error ns y with Some n => length (nnext n) | None => 0 end.
Definition nkeyof (ns : list (snode K)) (y : nat) : option K :=
  match nth_error ns y with Some n => nkey n | None => None end.

Lemma nodes_set_next_length : forall (ns : list (snode K)) x l v,
  length (nodes_set_next ns x l v) = length ns.
Proof.
  intros. unfold nodes_set_next. destruct (nth_error ns x); auto. apply set_nth_length.
Qed.

Lemma nodes_set_next_nth_error : forall (ns : list (snode K)) x l v y,
  nth_error (nodes_set_next ns x l v) y =
  match nth_error ns y with
  | Some n => Some (if y =? x then mkNode (nkey n) (set_nth l v (nnext n)) else n)
  | None => None
  end.
Proof.
  intros. unfold nodes_set_next. destruct (nth_error ns x) as [nx|] eqn:Hx.
  - destruct (Nat.eqb_spec y x) as [->|Hne].
    + rewrite nth_error_set_nth_eq, Hx; auto.
      apply nth_error_Some. congruence.
    + rewrite nth_error_set_nth_neq by auto. destruct (nth_error ns y); reflexivity.
  - destruct (Nat.eqb_spec y x) as [->|Hne].
    + rewrite Hx. reflexivity.
    + destruct (nth_error ns y); reflexivity.
Qed.

Lemma nodes_set_next_height : forall (ns : list (snode K)) x l v y,
  nheight (nodes_set_next ns x l v) y = nheight ns y.
Proof.
  intros. unfold nheight. rewrite nodes_set_next_nth_error.
  destruct (nth_error ns y) as [n|]; auto.
  destruct (y =? x); cbn [nnext]; auto. apply set_nth_length.
Qed.

Lemma nodes_set_next_key : forall (ns : list (snode K)) x l v y,
  nkeyof (nodes_set_next ns x l v) y = nkeyof ns y.
Proof.
  intros. unfold nkeyof. rewrite nodes_set_next_nth_error.
  destruct (nth_error ns y) as [n|]; auto.
  destruct (y =? x); cbn [nkey]; auto.
Qed.

Lemma nodes_set_next_next : forall (ns : list (snode K)) x l v y l',
  nodes_next (nodes_set_next ns x l v) y l' =
  if (y =? x) && (l' =? l) && (l <? nheight ns x) then v else nodes_next ns y l'.
Proof.
  intros. unfold nodes_next, nheight. rewrite nodes_set_next_nth_error.
  destruct (Nat.eqb_spec y x) as [->|Hne].
  - destruct (nth_error ns x) as [n|];
      [|destruct (Nat.ltb_spec l 0); [lia|]; rewrite andb_false_r; reflexivity].
    cbn [nnext andb].
    destruct (Nat.eqb_spec l' l) as [->|Hl].
    + destruct (Nat.ltb_spec l (length (nnext n))) as [Hlt|Hge]; cbn [andb].
      * apply nth_set_nth_eq; auto.
      * rewrite set_nth_beyond by auto. reflexivity.
    + cbn [andb]. apply nth_set_nth_neq. auto.
  - cbn [andb]. destruct (nth_error ns y); reflexivity.
Qed.

Lemma link_loop_spec : forall xn P i (ns : list (snode K)),
  (forall j, j < length P -> nth j P 0 <> xn) ->
  (forall j, j < length P -> i + j < nheight ns (nth j P 0)) ->
  (forall j, j < length P -> i + j < nheight ns xn) ->
  length (link_loop ns xn P i) = length ns /\
  (forall y, nheight (link_loop ns xn P i) y = nheight ns y) /\
  (forall y, nkeyof (link_loop ns xn P i) y = nkeyof ns y) /\
  (forall y l, nodes_next (link_loop ns xn P i) y l =
     if (i <=? l) && (l <? i + length P) then
       if y =? xn then nodes_next ns (nth (l - i) P 0) l
       else if y =? nth (l - i) P 0 then Some xn else nodes_next ns y l
     else nodes_next ns y l).
Proof.
  induction P as [|p r IH]; intros i ns Hne Hhp Hhx.
  - cbn [link_loop length]. repeat split; auto. intros y l.
    destruct (Nat.leb_spec i l); destruct (Nat.ltb_spec l (i + 0)); cbn [andb]; auto; lia.
  - cbn [link_loop].
    set (ns1 := nodes_set_next ns xn i (nodes_next ns p i)).
    set (ns2 := nodes_set_next ns1 p i (Some xn)).
    assert (Hh2 : forall y, nheight ns2 y = nheight ns y).
    { intros y. unfold ns2, ns1. rewrite !nodes_set_next_height. reflexivity. }
    destruct (IH (S i) ns2) as (IHlen & IHh & IHk & IHn).
    { intros j Hj. apply (Hne (S j)). cbn [length]. lia. }
    { intros j Hj. rewrite Hh2. specialize (Hhp (S j)). cbn [length nth] in Hhp. lia. }
    { intros j Hj. rewrite Hh2. specialize (Hhx (S j)). cbn [length] in Hhx. lia. }
    assert (Hpx : p <> xn). { apply (Hne 0). cbn [length]. lia. }
    assert (Hip : i < nheight ns p). { specialize (Hhp 0). cbn [length nth] in Hhp. lia. }
    assert (Hix : i < nheight ns xn). { specialize (Hhx 0). cbn [length] in Hhx. lia. }
    split; [|split; [|split]].
    + rewrite IHlen. unfold ns2, ns1. rewrite !nodes_set_next_length. reflexivity.
    + intros y. rewrite IHh. apply Hh2.
    + intros y. rewrite IHk. unfold ns2, ns1. rewrite !nodes_set_next_key. reflexivity.
    + intros y l. rewrite IHn. cbn [length].
      assert (Hother : forall z, l <> i -> nodes_next ns2 z l = nodes_next ns z l).
      { intros z Hl. unfold ns2, ns1. rewrite !nodes_set_next_next.
        destruct (Nat.eqb_spec l i); [lia|]. rewrite !andb_false_r. cbn [andb]. reflexivity. }
      destruct (Nat.eq_dec l i) as [->|Hli].
      * (* the level set in this step *)
        destruct (Nat.leb_spec (S i) i); [lia|]. cbn [andb].
        destruct (Nat.leb_spec i i); [|lia].
        destruct (Nat.ltb_spec i (i + S (length r))); [|lia]. cbn [andb].
        replace (i - i) with 0 by lia. cbn [nth].
        unfold ns2. rewrite nodes_set_next_next.
        replace (nheight ns1 p) with (nheight ns p)
          by (unfold ns1; rewrite nodes_set_next_height; reflexivity).
        unfold ns1. rewrite nodes_set_next_next.
        rewrite Nat.eqb_refl.
        destruct (Nat.ltb_spec i (nheight ns p)); [|lia].
        destruct (Nat.ltb_spec i (nheight ns xn)); [|lia].
        rewrite !andb_true_r.
        destruct (Nat.eqb_spec y p) as [->|Hyp].
        -- destruct (Nat.eqb_spec p xn); [congruence|]. reflexivity.
        -- destruct (Nat.eqb_spec y xn); reflexivity.
      * destruct (Nat.leb_spec (S i) l) as [H1|H1];
        destruct (Nat.ltb_spec l (S i + length r)) as [H2|H2];
        destruct (Nat.leb_spec i l) as [H3|H3];
        destruct (Nat.ltb_spec l (i + S (length r))) as [H4|H4]; cbn [andb]; try lia;
        try (apply Hother; assumption).
        replace (l - i) with (S (l - S i)) by lia. cbn [nth].
        rewrite !Hother by assumption. reflexivity.
Qed.

End Nodes.

Arguments nheight {K}.
Arguments nkeyof {K}.
