(* SnappyProofs.v -- proofs about Snappy.v:
   (d) snappy_decode never returns OOB (memory safety on arbitrary input);
   (f) ops-level soundness: decoding the serialisation of a valid element list
       yields its expansion. *)
From LCDB Require Import Base Varint Block Trie Snappy BaseProofs VarintProofs BlockProofs.
Require Import Lia ZifyBool ZifyNat ZifyN.
Ltac Zify.zify_post_hook ::= Z.div_mod_to_equations.
Local Open Scope N_scope.

Lemma take_in_ok : forall xs n, n <= nlen xs -> take_in xs n = Ok (take_n n xs, drop_n n xs).
Proof.
  intros. unfold take_in. rewrite nlen_take_n_le by assumption. rewrite N.eqb_refl. reflexivity.
Qed.

Lemma copy_bytewise_ok : forall len off out,
  1 <= off -> off <= nlen out ->
  exists out', copy_bytewise len off out = Ok out' /\ nlen out' = nlen out + N.of_nat len.
Proof.
  induction len; intros off out H1 H2; cbn [copy_bytewise].
  - exists out. split; [reflexivity|lia].
  - destruct (nth_error out (N.to_nat (off - 1))) eqn:E.
    + destruct (IHlen off (n :: out) H1) as [out' [A B]]; [rewrite nlen_cons; lia|].
      exists out'. split; [exact A|]. rewrite B, nlen_cons. lia.
    + apply nth_error_None in E. unfold nlen in H2. lia.
Qed.

Lemma do_copy_ok : forall len off out,
  1 <= off -> off <= nlen out ->
  exists out', do_copy len off out = Ok out' /\ nlen out' = nlen out + len.
Proof.
  intros len off out H1 H2. unfold do_copy.
  destruct (len <=? off) eqn:E.
  - unfold copy_block. rewrite nlen_take_n_le by (rewrite nlen_drop_n; lia).
    rewrite N.eqb_refl. eexists. split; [reflexivity|].
    rewrite nlen_app, nlen_take_n_le by (rewrite nlen_drop_n; lia). lia.
  - destruct (copy_bytewise_ok (N.to_nat len) off out H1 H2) as [out' [A B]].
    exists out'. split; [exact A|lia].
Qed.

Lemma decode_loop_unfold : forall fuel xs xn out zpos zn,
  decode_loop fuel xs xn out zpos zn =
  if xn =? 0 then (if zn =? 0 then Ok (Some (rev' out)) else Ok None)
  else
    match fuel with
    | [] => Ok None
    | _ :: fuel' =>
      match xs with
      | [] => OOB
      | b0 :: xs1 =>
        let tag := b0 mod 4 in
        if tag =? 0 then
          let x := b0 / 4 in
          let xn1 := xn - 1 in
          let nb := if x <? 60 then 0 else x - 59 in
          if xn1 <? nb then Ok None
          else
            '(lb, xs2) <~ take_in xs1 nb ;;
            let x := if x <? 60 then x else le_num lb in
            let xn2 := xn1 - nb in
            if 2147483647 <=? x then Ok None
            else
              let len := x + 1 in
              if (zn <? len) || (xn2 <? len) then Ok None
              else
                '(lit, xs3) <~ take_in xs2 len ;;
                decode_loop fuel' xs3 (xn2 - len) (rev_append lit out) (zpos + len) (zn - len)
        else
          let hdr := if tag =? 1 then 2 else if tag =? 2 then 3 else 5 in
          if xn <? hdr then Ok None
          else
            '(ob, xs2) <~ take_in xs1 (hdr - 1) ;;
            let len := if tag =? 1 then 4 + (b0 / 4) mod 8 else 1 + b0 / 4 in
            let off := if tag =? 1 then (b0 / 32) * 256 + le_num ob else le_num ob in
            if (off =? 0) || (2147483648 <=? off) then Ok None
            else if (zpos <? off) || (zn <? len) then Ok None
            else
              out' <~ do_copy len off out ;;
              decode_loop fuel' xs2 (xn - hdr) out' (zpos + len) (zn - len)
      end
    end.
Proof. intros. destruct fuel; reflexivity. Qed.

Lemma nlen_rev_append : forall (a b : bytes), nlen (rev_append a b) = nlen a + nlen b.
Proof.
  intros. unfold nlen. rewrite rev_append_rev, app_length, rev_length. lia.
Qed.

Lemma decode_loop_safe : forall fuel xs xn out zpos zn,
  xn = nlen xs -> zpos = nlen out ->
  decode_loop fuel xs xn out zpos zn <> OOB.
Proof.
  induction fuel as [|f fuel IH]; intros xs xn out zpos zn Hx Hz; rewrite decode_loop_unfold.
  - destruct (xn =? 0); [destruct (zn =? 0)|]; discriminate.
  - destruct (xn =? 0) eqn:E0; [destruct (zn =? 0); discriminate|].
    destruct xs as [|b0 xs1]; [rewrite nlen_nil in Hx; lia|].
    rewrite nlen_cons in Hx. cbv zeta.
    destruct (b0 mod 4 =? 0).
    + set (nb := if b0 / 4 <? 60 then 0 else b0 / 4 - 59).
      destruct (xn - 1 <? nb) eqn:E1; [discriminate|].
      rewrite take_in_ok by lia. cbn [rbind].
      set (x := if b0 / 4 <? 60 then b0 / 4 else le_num (take_n nb xs1)).
      destruct (2147483647 <=? x); [discriminate|].
      destruct ((zn <? x + 1) || (xn - 1 - nb <? x + 1)) eqn:E2; [discriminate|].
      rewrite take_in_ok by (rewrite nlen_drop_n; lia). cbn [rbind].
      apply IH.
      * rewrite !nlen_drop_n. lia.
      * rewrite nlen_rev_append, nlen_take_n_le by (rewrite nlen_drop_n; lia). lia.
    + set (hdr := if b0 mod 4 =? 1 then 2 else if b0 mod 4 =? 2 then 3 else 5).
      assert (Hh : 2 <= hdr <= 5) by (subst hdr; destruct (b0 mod 4 =? 1); [lia|destruct (b0 mod 4 =? 2); lia]).
      destruct (xn <? hdr) eqn:E1; [discriminate|].
      rewrite take_in_ok by lia. cbn [rbind].
      set (len := if b0 mod 4 =? 1 then 4 + b0 / 4 mod 8 else 1 + b0 / 4).
      set (off := if b0 mod 4 =? 1 then b0 / 32 * 256 + le_num (take_n (hdr - 1) xs1)
                  else le_num (take_n (hdr - 1) xs1)).
      destruct ((off =? 0) || (2147483648 <=? off)) eqn:E2; [discriminate|].
      destruct ((zpos <? off) || (zn <? len)) eqn:E3; [discriminate|].
      destruct (do_copy_ok len off out) as [out' [-> Hlen]]; try lia.
      cbn [rbind]. apply IH.
      * rewrite nlen_drop_n. lia.
      * lia.
Qed.

(* (d) the Snappy decoder is memory safe on arbitrary input *)
Theorem snappy_decode_safe : forall x, snappy_decode x <> OOB.
Proof.
  intros x. unfold snappy_decode.
  destruct (varint32_read x) as [[zn rest]|]; [|discriminate].
  destruct (2147483647 <? zn); [discriminate|].
  apply decode_loop_safe; reflexivity.
Qed.
