(* SnappyProofs.v -- proofs about Snappy.v:
   (d) snappy_decode never returns OOB (memory safety on arbitrary input);
   (f) ops-level soundness: decoding the serialisation of a valid element list
       yields its expansion. *)
From LCDB Require Import Base Varint Block Trie Snappy BaseProofs VarintProofs BlockProofs.
Require Import Lia ZifyBool ZifyNat ZifyN.
Ltac Zify.zify_post_hook ::= Z.div_mod_to_equations.
Local Open Scope N_scope.

Lemma take_in_ok : forall xs n, n <= nlen xs -> take_in xs n = Ok (take_n n xs, drop_n n xs).
Proof.
  intros. unfold take_in. rewrite nlen_take_n_le by assumption. rewrite N.eqb_refl. reflexivity.
Qed.

Lemma copy_bytewise_ok : forall len off out,
  1 <= off -> off <= nlen out ->
  exists out', copy_bytewise len off out = Ok out' /\ nlen out' = nlen out + N.of_nat len.
Proof.
  induction len; intros off out H1 H2; cbn [copy_bytewise].
  - exists out. split; [reflexivity|lia].
  - destruct (nth_error out (N.to_nat (off - 1))) eqn:E.
    + destruct (IHlen off (n :: out) H1) as [out' [A B]]; [rewrite nlen_cons; lia|].
      exists out'. split; [exact A|]. rewrite B, nlen_cons. lia.
    + apply nth_error_None in E. unfold nlen in H2. lia.
Qed.

Lemma do_copy_ok : forall len off out,
  1 <= off -> off <= nlen out ->
  exists out', do_copy len off out = Ok out' /\ nlen out' = nlen out + len.
Proof.
  intros len off out H1 H2. unfold do_copy.
  destruct (len <=? off) eqn:E.
  - unfold copy_block. rewrite nlen_take_n_le by (rewrite nlen_drop_n; lia).
    rewrite N.eqb_refl. eexists. split; [reflexivity|].
    rewrite nlen_app, nlen_take_n_le by (rewrite nlen_drop_n; lia). lia.
  - destruct (copy_bytewise_ok (N.to_nat len) off out H1 H2) as [out' [A B]].
    exists out'. split; [exact A|lia].
Qed.

Lemma decode_loop_unfold : forall fuel xs xn out zpos zn,
  decode_loop fuel xs xn out zpos zn =
  if xn =? 0 then (if zn =? 0 then Ok (Some (rev' out)) else Ok None)
  else
    match fuel with
    | [] => Ok None
    | _ :: fuel' =>
      match xs with
      | [] => OOB
      | b0 :: xs1 =>
        let tag := b0 mod 4 in
        if tag =? 0 then
          let x := b0 / 4 in
          let xn1 := xn - 1 in
          let nb := if x <? 60 then 0 else x - 59 in
          if xn1 <? nb then Ok None
          else
            '(lb, xs2) <~ take_in xs1 nb ;;
            let x := if x <? 60 then x else le_num lb in
            let xn2 := xn1 - nb in
            if 2147483647 <=? x then Ok None
            else
              let len := x + 1 in
              if (zn <? len) || (xn2 <? len) then Ok None
              else
                '(lit, xs3) <~ take_in xs2 len ;;
                decode_loop fuel' xs3 (xn2 - len) (rev_append lit out) (zpos + len) (zn - len)
        else
          let hdr := if tag =? 1 then 2 else if tag =? 2 then 3 else 5 in
          if xn <? hdr then Ok None
          else
            '(ob, xs2) <~ take_in xs1 (hdr - 1) ;;
            let len := if tag =? 1 then 4 + (b0 / 4) mod 8 else 1 + b0 / 4 in
            let off := if tag =? 1 then (b0 / 32) * 256 + le_num ob else le_num ob in
            if (off =? 0) || (2147483648 <=? off) then Ok None
            else if (zpos <? off) || (zn <? len) then Ok None
            else
              out' <~ do_copy len off out ;;
              decode_loop fuel' xs2 (xn - hdr) out' (zpos + len) (zn - len)
      end
    end.
Proof. intros. destruct fuel; reflexivity. Qed.

Lemma nlen_rev_append : forall (a b : bytes), nlen (rev_append a b) = nlen a + nlen b.
Proof.
  intros. unfold nlen. rewrite rev_append_rev, app_length, rev_length. lia.
Qed.

Lemma decode_loop_safe : forall fuel xs xn out zpos zn,
  xn = nlen xs -> zpos = nlen out ->
  decode_loop fuel xs xn out zpos zn <> OOB.
Proof.
  induction fuel as [|f fuel IH]; intros xs xn out zpos zn Hx Hz; rewrite decode_loop_unfold.
  - destruct (xn =? 0); [destruct (zn =? 0)|]; discriminate.
  - destruct (xn =? 0) eqn:E0; [destruct (zn =? 0); discriminate|].
    destruct xs as [|b0 xs1]; [rewrite nlen_nil in Hx; lia|].
    rewrite nlen_cons in Hx. cbv zeta.
    destruct (b0 mod 4 =? 0).
    + set (nb := if b0 / 4 <? 60 then 0 else b0 / 4 - 59).
      destruct (xn - 1 <? nb) eqn:E1; [discriminate|].
      rewrite take_in_ok by lia. cbn [rbind].
      set (x := if b0 / 4 <? 60 then b0 / 4 else le_num (take_n nb xs1)).
      destruct (2147483647 <=? x); [discriminate|].
      destruct ((zn <? x + 1) || (xn - 1 - nb <? x + 1)) eqn:E2; [discriminate|].
      rewrite take_in_ok by (rewrite nlen_drop_n; lia). cbn [rbind].
      apply IH.
      * rewrite !nlen_drop_n. lia.
      * rewrite nlen_rev_append, nlen_take_n_le by (rewrite nlen_drop_n; lia). lia.
    + set (hdr := if b0 mod 4 =? 1 then 2 else if b0 mod 4 =? 2 then 3 else 5).
      assert (Hh : 2 <= hdr <= 5) by (subst hdr; destruct (b0 mod 4 =? 1); [lia|destruct (b0 mod 4 =? 2); lia]).
      destruct (xn <? hdr) eqn:E1; [discriminate|].
      rewrite take_in_ok by lia. cbn [rbind].
      set (len := if b0 mod 4 =? 1 then 4 + b0 / 4 mod 8 else 1 + b0 / 4).
      set (off := if b0 mod 4 =? 1 then b0 / 32 * 256 + le_num (take_n (hdr - 1) xs1)
                  else le_num (take_n (hdr - 1) xs1)).
      destruct ((off =? 0) || (2147483648 <=? off)) eqn:E2; [discriminate|].
      destruct ((zpos <? off) || (zn <? len)) eqn:E3; [discriminate|].
      destruct (do_copy_ok len off out) as [out' [-> Hlen]]; try lia.
      cbn [rbind]. apply IH.
      * rewrite nlen_drop_n. lia.
      * lia.
Qed.

(* (d) the Snappy decoder is memory safe on arbitrary input *)
Theorem snappy_decode_safe : forall x, snappy_decode x <> OOB.
Proof.
  intros x. unfold snappy_decode.
  destruct (varint32_read x) as [[zn rest]|]; [|discriminate].
  destruct (2147483647 <? zn); [discriminate|].
  apply decode_loop_safe; reflexivity.
Qed.

(* ================================================================== *)
(* (f) ops-level soundness of the decoder                              *)
(* ================================================================== *)
(* the byte-wise copy loop of the C code, as a pure function on the reversed output *)
Fixpoint copy_spec (len : nat) (off : nat) (out : bytes) : bytes :=
  match len with
  | O => out
  | S l => copy_spec l off (nth (off - 1) out 0 :: out)
  end.

Lemma copy_bytewise_spec : forall len off out,
  1 <= off -> off <= nlen out ->
  copy_bytewise len off out = Ok (copy_spec len (N.to_nat off) out).
Proof.
  induction len; intros off out H1 H2; cbn [copy_bytewise copy_spec]; [reflexivity|].
  destruct (nth_error out (N.to_nat (off - 1))) eqn:E.
  - rewrite IHlen by (rewrite ?nlen_cons; lia).
    replace (N.to_nat off - 1)%nat with (N.to_nat (off - 1)) by lia.
    rewrite (nth_error_nth _ _ 0 E). reflexivity.
  - apply nth_error_None in E. unfold nlen in H2. lia.
Qed.

Lemma firstn_succ_nth : forall (l : bytes) n, (n < length l)%nat ->
  firstn (S n) l = firstn n l ++ [nth n l 0].
Proof.
  induction l as [|x l IH]; intros n Hn; cbn [length] in Hn; [lia|].
  destruct n; [reflexivity|].
  change (firstn (S (S n)) (x :: l)) with (x :: firstn (S n) l).
  change (firstn (S n) (x :: l)) with (x :: firstn n l).
  change (nth (S n) (x :: l) 0) with (nth n l 0).
  rewrite IH by lia. reflexivity.
Qed.

Lemma nth_skipn : forall (l : bytes) k n, nth n (skipn k l) 0 = nth (k + n) l 0.
Proof.
  induction l as [|x l IH]; intros k n.
  - rewrite skipn_nil. destruct n; destruct (k + _)%nat; reflexivity.
  - destruct k; cbn [skipn Nat.add nth]; [reflexivity|apply IH].
Qed.

(* memcpy(zp, zp - off, len) equals the byte loop when the ranges do not overlap *)
Lemma copy_spec_block : forall len off out,
  (len <= off)%nat -> (off <= length out)%nat ->
  copy_spec len off out = firstn len (skipn (off - len) out) ++ out.
Proof.
  induction len; intros off out H1 H2; cbn [copy_spec]; [reflexivity|].
  rewrite IHlen by (cbn [length]; lia).
  replace (off - len)%nat with (S (off - S len)) by lia. cbn [skipn].
  rewrite firstn_succ_nth by (rewrite skipn_length; lia).
  rewrite <- app_assoc. cbn [app]. rewrite nth_skipn.
  replace (off - S len + len)%nat with (off - 1)%nat by lia. reflexivity.
Qed.

Lemma do_copy_spec : forall len off out,
  1 <= off -> off <= nlen out ->
  do_copy len off out = Ok (copy_spec (N.to_nat len) (N.to_nat off) out).
Proof.
  intros len off out H1 H2. unfold do_copy.
  destruct (len <=? off) eqn:E.
  - unfold copy_block. rewrite nlen_take_n_le by (rewrite nlen_drop_n; lia).
    rewrite N.eqb_refl. rewrite copy_spec_block by (unfold nlen in *; lia).
    unfold take_n, drop_n. repeat f_equal. lia.
  - apply copy_bytewise_spec; assumption.
Qed.

(* elements of a Snappy stream *)
Inductive sop :=
| SLit (w : N) (lit : bytes)        (* literal; w = number of extra length bytes (0..4) *)
| SCopy (kind : N) (off len : N).   (* copy with 1-, 2- or 4-byte offset (kind = 1, 2, 4) *)

Fixpoint le_bytes (w : nat) (x : N) : bytes :=
  match w with
  | O => []
  | S w' => x mod 256 :: le_bytes w' (x / 256)
  end.

Definition sop_bytes (o : sop) : bytes :=
  match o with
  | SLit w lit =>
      let n := nlen lit - 1 in
      (if w =? 0 then [n * 4] else ((59 + w) * 4) :: le_bytes (N.to_nat w) n) ++ lit
  | SCopy kind off len =>
      if kind =? 1 then [(off / 256) * 32 + (len - 4) * 4 + 1; off mod 256]
      else if kind =? 2 then ((len - 1) * 4 + 2) :: le_bytes 2 off
      else ((len - 1) * 4 + 3) :: le_bytes 4 off
  end.

(* validity of an element when [zpos] bytes have been produced *)
Definition sop_ok (zpos : N) (o : sop) : Prop :=
  match o with
  | SLit w lit =>
      1 <= nlen lit /\ nlen lit < 2147483648 /\ w <= 4 /\
      (if w =? 0 then nlen lit <= 60 else 256 ^ (w - 1) * 0 <= nlen lit - 1 < 256 ^ w)
  | SCopy kind off len =>
      1 <= off /\ off <= zpos /\
      ((kind = 1 /\ 4 <= len <= 11 /\ off < 2048) \/
       (kind = 2 /\ 1 <= len <= 64 /\ off < 65536) \/
       (kind = 4 /\ 1 <= len <= 64 /\ off < 2147483648))
  end.

Definition sop_len (o : sop) : N :=
  match o with SLit _ lit => nlen lit | SCopy _ _ len => len end.

(* effect on the reversed output *)
Definition sop_apply (o : sop) (out : bytes) : bytes :=
  match o with
  | SLit _ lit => rev_append lit out
  | SCopy _ off len => copy_spec (N.to_nat len) (N.to_nat off) out
  end.

Fixpoint sops_ok (zpos : N) (ops : list sop) : Prop :=
  match ops with
  | [] => True
  | o :: ops' => sop_ok zpos o /\ sops_ok (zpos + sop_len o) ops'
  end.

Fixpoint sops_apply (ops : list sop) (out : bytes) : bytes :=
  match ops with
  | [] => out
  | o :: ops' => sops_apply ops' (sop_apply o out)
  end.

Definition sops_len (ops : list sop) : N := fold_right (fun o a => sop_len o + a) 0 ops.
Definition sops_bytes (ops : list sop) : bytes := flat_map sop_bytes ops.

Lemma le_num_le_bytes : forall w x, x < 256 ^ N.of_nat w -> le_num (le_bytes w x) = x.
Proof.
  induction w; intros x Hx; cbn [le_bytes le_num].
  - cbn in Hx. lia.
  - rewrite IHw.
    + lia.
    + rewrite Nat2N.inj_succ, N.pow_succ_r' in Hx. lia.
Qed.

Lemma le_bytes_length : forall w x, length (le_bytes w x) = w.
Proof. induction w; intros; cbn [le_bytes length]; auto. Qed.

Lemma copy_spec_length : forall len off out, length (copy_spec len off out) = (length out + len)%nat.
Proof. induction len; intros; cbn [copy_spec]; [lia|]. rewrite IHlen. cbn [length]. lia. Qed.

Lemma sop_bytes_nonempty : forall o, (1 <= length (sop_bytes o))%nat.
Proof.
  intros [w lit|kind off len]; cbn [sop_bytes].
  - destruct (w =? 0); cbn [app length]; lia.
  - destruct (kind =? 1); [cbn; lia|]. destruct (kind =? 2); cbn [length]; lia.
Qed.

(* one element *)
Lemma decode_loop_sop : forall o fuel' xs out zpos zn,
  sop_ok zpos o -> zpos = nlen out -> sop_len o <= zn ->
  forall f, decode_loop (f :: fuel') (sop_bytes o ++ xs) (nlen (sop_bytes o ++ xs)) out zpos zn =
  decode_loop fuel' xs (nlen xs) (sop_apply o out) (zpos + sop_len o) (zn - sop_len o).
Proof.
  intros o fuel' xs out zpos zn Hok Hz Hzn f.
  rewrite decode_loop_unfold.
  pose proof (sop_bytes_nonempty o) as Hne.
  replace (nlen (sop_bytes o ++ xs) =? 0) with false
    by (rewrite nlen_app; unfold nlen; lia).
  clear Hne.
  destruct o as [w lit|kind off len]; cbn [sop_bytes sop_ok sop_len sop_apply] in *.
  - destruct Hok as (H1 & H2 & H3 & H4).
    set (n := nlen lit - 1) in *.
    destruct (w =? 0) eqn:Ew.
    + cbn [app]. cbv zeta.
      replace (n * 4 mod 4 =? 0) with true by lia.
      replace (n * 4 / 4) with n by lia.
      replace (n <? 60) with true by lia. cbv beta iota.
      rewrite nlen_cons.
      replace (1 + nlen (lit ++ xs) - 1 <? 0) with false by lia.
      rewrite take_in_ok by lia. cbn [rbind]. rewrite ?take_n_0, ?drop_n_0.
      replace (2147483647 <=? n) with false by lia.
      replace (n + 1) with (nlen lit) by lia.
      rewrite nlen_app.
      replace ((zn <? nlen lit) || (1 + (nlen lit + nlen xs) - 1 - 0 <? nlen lit)) with false by lia.
      rewrite take_in_ok by (rewrite nlen_app; lia). cbn [rbind].
      rewrite take_n_nlen_app, drop_n_nlen_app.
      f_equal. lia.
    + cbn [app]. cbv zeta.
      assert (Hw : 1 <= w <= 4) by lia.
      replace ((59 + w) * 4 mod 4 =? 0) with true by lia.
      replace ((59 + w) * 4 / 4) with (59 + w) by lia.
      replace (59 + w <? 60) with false by lia. cbv beta iota.
      replace (59 + w - 59) with w by lia.
      rewrite nlen_cons, <- app_assoc, !nlen_app.
      assert (Hlb : nlen (le_bytes (N.to_nat w) n) = w) by (unfold nlen; rewrite le_bytes_length; lia).
      rewrite Hlb.
      replace (1 + (w + (nlen lit + nlen xs)) - 1 <? w) with false by lia.
      rewrite take_in_ok by (rewrite !nlen_app; lia). cbn [rbind].
      rewrite (take_n_app_exact (le_bytes (N.to_nat w) n)) by (symmetry; exact Hlb).
      rewrite (drop_n_app_exact (le_bytes (N.to_nat w) n)) by (symmetry; exact Hlb).
      rewrite le_num_le_bytes by (rewrite N2Nat.id; lia).
      replace (2147483647 <=? n) with false by lia.
      replace (n + 1) with (nlen lit) by lia.
      replace ((zn <? nlen lit) || (1 + (w + (nlen lit + nlen xs)) - 1 - w <? nlen lit)) with false by lia.
      rewrite take_in_ok by (rewrite nlen_app; lia). cbn [rbind].
      rewrite take_n_nlen_app, drop_n_nlen_app.
      f_equal. lia.
  - destruct Hok as (H1 & H2 & Hk).
    destruct Hk as [(-> & Hl & Ho)|[(-> & Hl & Ho)|(-> & Hl & Ho)]]; cbn [N.eqb Pos.eqb app]; cbv zeta.
    + set (b0 := off / 256 * 32 + (len - 4) * 4 + 1).
      replace (b0 mod 4 =? 0) with false by (subst b0; lia).
      replace (b0 mod 4 =? 1) with true by (subst b0; lia). cbv beta iota.
      rewrite !nlen_cons.
      replace (1 + (1 + nlen xs) <? 2) with false by lia.
      rewrite take_in_ok; [|unfold nlen; cbn [length]; lia]. cbn [rbind].
      change (take_n (2 - 1) (off mod 256 :: xs)) with [off mod 256].
      change (drop_n (2 - 1) (off mod 256 :: xs)) with xs.
      cbn [le_num].
      replace (4 + b0 / 4 mod 8) with len by (subst b0; lia).
      replace (b0 / 32 * 256 + (off mod 256 + 256 * 0)) with off by (subst b0; lia).
      replace ((off =? 0) || (2147483648 <=? off)) with false by lia.
      replace ((zpos <? off) || (zn <? len)) with false by lia.
      rewrite do_copy_spec; [|lia|lia]. cbn [rbind]. f_equal; lia.
    + set (b0 := (len - 1) * 4 + 2).
      replace (b0 mod 4 =? 0) with false by (subst b0; lia).
      replace (b0 mod 4 =? 1) with false by (subst b0; lia).
      replace (b0 mod 4 =? 2) with true by (subst b0; lia). cbv beta iota.
      cbn [le_bytes app]. rewrite !nlen_cons.
      replace (1 + (1 + (1 + nlen xs)) <? 3) with false by lia.
      rewrite take_in_ok; [|unfold nlen; cbn [length]; lia]. cbn [rbind].
      change (take_n (3 - 1) (off mod 256 :: off / 256 mod 256 :: xs)) with [off mod 256; off / 256 mod 256].
      change (drop_n (3 - 1) (off mod 256 :: off / 256 mod 256 :: xs)) with xs.
      cbn [le_num].
      replace (1 + b0 / 4) with len by (subst b0; lia).
      replace (off mod 256 + 256 * (off / 256 mod 256 + 256 * 0)) with off by lia.
      replace ((off =? 0) || (2147483648 <=? off)) with false by lia.
      replace ((zpos <? off) || (zn <? len)) with false by lia.
      rewrite do_copy_spec; [|lia|lia]. cbn [rbind]. f_equal; lia.
    + set (b0 := (len - 1) * 4 + 3).
      replace (b0 mod 4 =? 0) with false by (subst b0; lia).
      replace (b0 mod 4 =? 1) with false by (subst b0; lia).
      replace (b0 mod 4 =? 2) with false by (subst b0; lia). cbv beta iota.
      cbn [le_bytes app]. rewrite !nlen_cons.
      replace (1 + (1 + (1 + (1 + (1 + nlen xs)))) <? 5) with false by lia.
      rewrite take_in_ok; [|unfold nlen; cbn [length]; lia]. cbn [rbind].
      change (take_n (5 - 1) (off mod 256 :: off / 256 mod 256 :: off / 256 / 256 mod 256 :: off / 256 / 256 / 256 mod 256 :: xs))
        with [off mod 256; off / 256 mod 256; off / 256 / 256 mod 256; off / 256 / 256 / 256 mod 256].
      change (drop_n (5 - 1) (off mod 256 :: off / 256 mod 256 :: off / 256 / 256 mod 256 :: off / 256 / 256 / 256 mod 256 :: xs)) with xs.
      cbn [le_num].
      replace (1 + b0 / 4) with len by (subst b0; lia).
      replace (off mod 256 + 256 * (off / 256 mod 256 + 256 * (off / 256 / 256 mod 256 + 256 * (off / 256 / 256 / 256 mod 256 + 256 * 0)))) with off by lia.
      replace ((off =? 0) || (2147483648 <=? off)) with false by lia.
      replace ((zpos <? off) || (zn <? len)) with false by lia.
      rewrite do_copy_spec; [|lia|lia]. cbn [rbind]. f_equal; lia.
Qed.

Lemma sop_apply_length : forall o out, nlen (sop_apply o out) = nlen out + sop_len o.
Proof.
  intros [w lit|kind off len] out; cbn [sop_apply sop_len].
  - rewrite nlen_rev_append. lia.
  - unfold nlen. rewrite copy_spec_length. lia.
Qed.

Lemma decode_loop_sops : forall ops fuel out zpos zn,
  sops_ok zpos ops -> zpos = nlen out -> zn = sops_len ops ->
  (length ops <= length fuel)%nat ->
  decode_loop fuel (sops_bytes ops) (nlen (sops_bytes ops)) out zpos zn
  = Ok (Some (rev' (sops_apply ops out))).
Proof.
  induction ops as [|o ops IH]; intros fuel out zpos zn Hok Hz Hzn Hfuel.
  - cbn [sops_bytes flat_map sops_apply sops_len fold_right] in *. subst zn.
    rewrite decode_loop_unfold. reflexivity.
  - destruct Hok as [Ho Hok]. cbn [length] in Hfuel.
    destruct fuel as [|f fuel]; [cbn [length] in Hfuel; lia|]. cbn [length] in Hfuel.
    unfold sops_bytes. cbn [flat_map]. fold (sops_bytes ops).
    cbn [sops_len fold_right] in Hzn. fold (sops_len ops) in Hzn.
    rewrite decode_loop_sop by (auto; lia).
    cbn [sops_apply]. apply IH.
    + exact Hok.
    + rewrite sop_apply_length. lia.
    + lia.
    + lia.
Qed.

Lemma sops_bytes_length : forall ops, (length ops <= length (sops_bytes ops))%nat.
Proof.
  induction ops as [|o ops IH]; [cbn; lia|].
  unfold sops_bytes in *. cbn [flat_map length]. rewrite app_length.
  pose proof (sop_bytes_nonempty o). lia.
Qed.

(* (f) decoding the serialisation of a valid element list yields its expansion *)
Theorem snappy_decode_ops : forall ops,
  sops_ok 0 ops -> sops_len ops < 2147483648 ->
  snappy_decode (varint32_write (sops_len ops) ++ sops_bytes ops)
  = Ok (Some (rev (sops_apply ops []))).
Proof.
  intros ops Hok Hlen. unfold snappy_decode.
  rewrite varint32_read_write by lia.
  replace (2147483647 <? sops_len ops) with false by lia.
  rewrite decode_loop_sops; auto.
  - unfold rev'. rewrite <- rev_alt. reflexivity.
  - rewrite app_length. pose proof (sops_bytes_length ops). lia.
Qed.
