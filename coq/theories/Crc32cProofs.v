(* Crc32cProofs.v -- proofs about Crc32c.v: mask/unmask round trip, 32-bit
   bounds, compositionality of crc_extend, and the standard check value. *)
From LCDB Require Import Base Crc32c BaseProofs.
From Coq Require Import Lia ZifyBool ZifyNat ZifyN.
Local Open Scope N_scope.

Ltac Zify.zify_post_hook ::= Z.div_mod_to_equations.

#[local] Arguments N.mul : simpl never.
#[local] Arguments N.add : simpl never.
#[local] Arguments N.sub : simpl never.
#[local] Arguments N.div : simpl never.
#[local] Arguments N.modulo : simpl never.
#[local] Arguments N.ltb : simpl never.
#[local] Arguments N.pow : simpl never.
#[local] Arguments N.lxor : simpl never.
#[local] Arguments N.div2 : simpl never.
#[local] Arguments N.odd : simpl never.

(* ------------------------------------------------------------------ *)
(* mask / unmask                                                       *)
(* ------------------------------------------------------------------ *)

Theorem crc_mask_bound : forall c, crc_mask c < 4294967296.
Proof. intros c. unfold crc_mask. apply N.mod_lt. discriminate. Qed.

Theorem crc_unmask_mask : forall c,
  c < 4294967296 -> crc_unmask (crc_mask c) = c.
Proof.
  intros c Hc. unfold crc_unmask, crc_mask, MASK_DELTA. cbv zeta.
  remember (c / 32768 + c mod 32768 * 131072) as rot eqn:Hrot.
  assert (Hrb : rot < 4294967296) by lia.
  assert (Hback : ((rot + 2726488792) mod 4294967296 + 4294967296 - 2726488792)
                    mod 4294967296 = rot) by lia.
  rewrite Hback. subst rot. lia.
Qed.

Theorem crc_unmask_bound : forall m, crc_unmask m < 4294967296.
Proof.
  intros m. unfold crc_unmask. cbv zeta.
  remember ((m + 4294967296 - MASK_DELTA) mod 4294967296) as rot eqn:Hrot.
  assert (Hrb : rot < 4294967296) by (subst rot; apply N.mod_lt; discriminate).
  lia.
Qed.

Theorem crc_mask_unmask : forall m,
  m < 4294967296 -> crc_mask (crc_unmask m) = m.
Proof.
  intros m Hm. unfold crc_unmask, crc_mask, MASK_DELTA. cbv zeta.
  remember ((m + 4294967296 - 2726488792) mod 4294967296) as rot eqn:Hrot.
  assert (Hrb : rot < 4294967296) by (subst rot; apply N.mod_lt; discriminate).
  assert (Hback : (rot / 131072 + rot mod 131072 * 32768) / 32768
                  + (rot / 131072 + rot mod 131072 * 32768) mod 32768 * 131072 = rot)
    by lia.
  rewrite Hback. subst rot. lia.
Qed.

(* ------------------------------------------------------------------ *)
(* xor bounds                                                          *)
(* ------------------------------------------------------------------ *)

Lemma lxor_lt_pow2 : forall a b n,
  a < 2 ^ n -> b < 2 ^ n -> N.lxor a b < 2 ^ n.
Proof.
  intros a b n Ha Hb.
  destruct (N.eq_dec a 0) as [Ha0|Ha0].
  { subst a. rewrite N.lxor_0_l. exact Hb. }
  destruct (N.eq_dec b 0) as [Hb0|Hb0].
  { subst b. rewrite N.lxor_0_r. exact Ha. }
  destruct (N.eq_dec (N.lxor a b) 0) as [Hx0|Hx0].
  { rewrite Hx0. apply N.neq_0_lt_0. apply N.pow_nonzero. discriminate. }
  apply N.log2_lt_pow2; [lia|].
  apply N.le_lt_trans with (m := N.max (N.log2 a) (N.log2 b)).
  - apply N.log2_lxor.
  - apply N.max_lub_lt; apply N.log2_lt_pow2; try lia; assumption.
Qed.

Lemma lxor_lt_32 : forall a b,
  a < 4294967296 -> b < 4294967296 -> N.lxor a b < 4294967296.
Proof.
  intros a b Ha Hb. change 4294967296 with (2 ^ 32) in *.
  apply lxor_lt_pow2; assumption.
Qed.

Lemma lxor_M32_involutive : forall x, N.lxor (N.lxor x M32) M32 = x.
Proof.
  intros x. rewrite N.lxor_assoc, N.lxor_nilpotent, N.lxor_0_r. reflexivity.
Qed.

(* ------------------------------------------------------------------ *)
(* crc bounds                                                          *)
(* ------------------------------------------------------------------ *)

Lemma crc_bit_bound : forall c, c < 4294967296 -> crc_bit c < 4294967296.
Proof.
  intros c Hc. unfold crc_bit.
  assert (Hd : N.div2 c < 4294967296).
  { rewrite N.div2_div. lia. }
  destruct (N.odd c).
  - apply lxor_lt_32; [exact Hd|]. unfold POLY. lia.
  - exact Hd.
Qed.

Lemma crc_byte_bound : forall c b,
  c < 4294967296 -> b < 256 -> crc_byte c b < 4294967296.
Proof.
  intros c b Hc Hb. unfold crc_byte. cbv zeta.
  do 8 apply crc_bit_bound.
  apply lxor_lt_32; [exact Hc|lia].
Qed.

Lemma fold_crc_byte_bound : forall data c,
  c < 4294967296 -> wf_bytes data = true ->
  fold_left crc_byte data c < 4294967296.
Proof.
  induction data as [|b data IH]; intros c Hc Hwf; cbn [fold_left].
  - exact Hc.
  - apply wf_bytes_cons in Hwf. destruct Hwf as [Hb Hwf].
    apply IH; [|exact Hwf]. apply crc_byte_bound; assumption.
Qed.

Theorem crc_extend_bound : forall init data,
  init < 4294967296 -> wf_bytes data = true ->
  crc_extend init data < 4294967296.
Proof.
  intros init data Hi Hwf. unfold crc_extend.
  assert (HM : M32 < 4294967296) by (unfold M32; lia).
  apply lxor_lt_32; [|exact HM].
  apply fold_crc_byte_bound; [|exact Hwf].
  apply lxor_lt_32; assumption.
Qed.

Theorem crc_value_bound : forall data,
  wf_bytes data = true -> crc_value data < 4294967296.
Proof.
  intros data Hwf. unfold crc_value. apply crc_extend_bound; [lia|exact Hwf].
Qed.

(* ------------------------------------------------------------------ *)
(* compositionality                                                    *)
(* ------------------------------------------------------------------ *)

(* No range hypotheses are needed: (x xor M32) xor M32 = x for every x. *)
Theorem crc_extend_app_gen : forall init a b,
  crc_extend (crc_extend init a) b = crc_extend init (a ++ b).
Proof.
  intros init a b. unfold crc_extend.
  rewrite lxor_M32_involutive, fold_left_app. reflexivity.
Qed.

Theorem crc_extend_app : forall init a b,
  init < 4294967296 -> wf_bytes a = true ->
  crc_extend (crc_extend init a) b = crc_extend init (a ++ b).
Proof. intros init a b _ _. apply crc_extend_app_gen. Qed.

Theorem crc_extend_nil : forall init, crc_extend init [] = init.
Proof. intros init. unfold crc_extend. cbn [fold_left]. apply lxor_M32_involutive. Qed.

Theorem crc_value_app : forall a b,
  crc_extend (crc_value a) b = crc_value (a ++ b).
Proof. intros a b. unfold crc_value. apply crc_extend_app_gen. Qed.

Theorem crc_value_cons_gen : forall ty payload,
  crc_extend (crc_value [ty]) payload = crc_value (ty :: payload).
Proof. intros ty payload. apply (crc_value_app [ty] payload). Qed.

Theorem crc_value_cons : forall ty payload,
  ty < 256 -> crc_extend (crc_value [ty]) payload = crc_value (ty :: payload).
Proof. intros ty payload _. apply crc_value_cons_gen. Qed.

(* ------------------------------------------------------------------ *)
(* check value: CRC-32C("123456789") = 0xE3069283                      *)
(* ------------------------------------------------------------------ *)

Theorem crc_check_value :
  crc_value [49;50;51;52;53;54;55;56;57] = 3808858755.
Proof. vm_compute. reflexivity. Qed.

(* Versions stated with 2^32. *)
Corollary crc_unmask_mask_pow : forall c, c < 2 ^ 32 -> crc_unmask (crc_mask c) = c.
Proof. intros c Hc. rewrite pow2_32 in Hc. apply crc_unmask_mask; exact Hc. Qed.

Corollary crc_mask_bound_pow : forall c, crc_mask c < 2 ^ 32.
Proof. intros c. rewrite pow2_32. apply crc_mask_bound. Qed.

Corollary crc_extend_bound_pow : forall init data,
  init < 2 ^ 32 -> wf_bytes data = true -> crc_extend init data < 2 ^ 32.
Proof.
  intros init data Hi Hwf. rewrite pow2_32 in *. apply crc_extend_bound; assumption.
Qed.

Print Assumptions crc_unmask_mask.
Print Assumptions crc_extend_bound.
Print Assumptions crc_extend_app.
Print Assumptions crc_check_value.
