(* MetaLemmas.v -- lemmas about the varint / slice readers shared by the proofs of
   the metadata codecs (BatchProofs, EditProofs): readers consume input, and
   reading is stable under appending more input. *)
From LCDB Require Import Base Varint BaseProofs VarintProofs.
From Coq Require Import Lia ZifyBool ZifyNat ZifyN.
Local Open Scope N_scope.

Ltac Zify.zify_post_hook ::= Z.div_mod_to_equations.

#[local] Arguments N.mul : simpl never.
#[local] Arguments N.add : simpl never.
#[local] Arguments N.div : simpl never.
#[local] Arguments N.modulo : simpl never.
#[local] Arguments N.ltb : simpl never.
#[local] Arguments N.leb : simpl never.

(* ---- readers consume input ---- *)
Lemma varint32_read_shrinks : forall l v r,
  varint32_read l = Some (v, r) -> (length r < length l)%nat.
Proof.
  intros l v r H. apply varint32_read_spec_gen in H.
  destruct H as [_ [pre [Heq Hl]]]. subst l. rewrite app_length. lia.
Qed.

Lemma varint64_read_shrinks : forall l v r,
  varint64_read l = Some (v, r) -> (length r < length l)%nat.
Proof.
  intros l v r H. apply varint64_read_spec_gen in H.
  destruct H as [_ [pre [Heq Hl]]]. subst l. rewrite app_length. lia.
Qed.

Lemma slice_read_shrinks : forall l s r,
  slice_read l = Some (s, r) -> (length r < length l)%nat.
Proof.
  unfold slice_read. intros l s r H.
  destruct (varint32_read l) as [[n b]|] eqn:Hv; [|discriminate H].
  destruct (nlen b <? n); [discriminate H|].
  injection H as _ Hr. subst r. apply varint32_read_shrinks in Hv.
  unfold drop_n. rewrite skipn_length. lia.
Qed.

(* ---- reading is stable under appending input ---- *)
Lemma varint_read_loop_app : forall k width mult acc l v r y,
  varint_read_loop k width mult acc l = Some (v, r) ->
  varint_read_loop k width mult acc (l ++ y) = Some (v, r ++ y).
Proof.
  induction k as [|k IH]; intros width mult acc l v r y H;
    cbn [varint_read_loop] in H; [discriminate H|].
  destruct l as [|b l']; [discriminate H|].
  cbn [app varint_read_loop].
  destruct (128 <=? b).
  - apply IH. exact H.
  - injection H as Hv Hr. subst. reflexivity.
Qed.

Lemma varint32_read_app : forall l v r y,
  varint32_read l = Some (v, r) -> varint32_read (l ++ y) = Some (v, r ++ y).
Proof. intros. unfold varint32_read in *. apply varint_read_loop_app. assumption. Qed.

Lemma varint64_read_app : forall l v r y,
  varint64_read l = Some (v, r) -> varint64_read (l ++ y) = Some (v, r ++ y).
Proof. intros. unfold varint64_read in *. apply varint_read_loop_app. assumption. Qed.

Lemma slice_read_app : forall l s r y,
  slice_read l = Some (s, r) -> slice_read (l ++ y) = Some (s, r ++ y).
Proof.
  unfold slice_read. intros l s r y H.
  destruct (varint32_read l) as [[n b]|] eqn:Hv; [|discriminate H].
  rewrite (varint32_read_app _ _ _ y Hv).
  destruct (nlen b <? n) eqn:Hn; [discriminate H|].
  apply N.ltb_ge in Hn. injection H as Hs Hr. subst s r.
  rewrite nlen_app.
  replace (nlen b + nlen y <? n) with false by (symmetry; apply N.ltb_ge; lia).
  unfold take_n, drop_n. unfold nlen in Hn.
  rewrite firstn_app, skipn_app.
  replace (N.to_nat n - length b)%nat with 0%nat by lia.
  cbn [firstn skipn]. rewrite app_nil_r. reflexivity.
Qed.
