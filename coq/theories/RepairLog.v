(* RepairLog.v -- model of the record loop of convert_log_to_table (src/repair.c):

     while (ldb_reader_read_record(&reader, &record, &scratch)) {
       if (record.size < 12) { report "log record too small"; continue; }
       ldb_batch_set_contents(&batch, &record);
       rc = ldb_batch_insert_into(&batch, mem);
       if (rc == LDB_OK) counter += ldb_batch_count(&batch);
       else { log "ignoring"; rc = LDB_OK;  /* Keep going with rest of file. */ }
     }

   The memtable receives, record by record, the operations ldb_batch_insert_into hands to it
   BEFORE it fails (if it fails), numbered from the record's own sequence; a record that does
   not parse affects nothing but itself.  Property C19 ("repair recovers all surviving data"). *)
From Coq Require Import List NArith Bool Lia.
From LCDB Require Import Base Batch BatchProofs.
Import ListNotations.
Local Open Scope N_scope.

(* what one record contributes to the salvage memtable *)
Definition record_entries (r : bytes) : list (N * bop) :=
  if nlen r <? BATCH_HEADER then [] else fst (batch_insert_into r).

Definition record_ok (r : bytes) : bool :=
  negb (nlen r <? BATCH_HEADER) &&
  match snd (batch_insert_into r) with BOk => true | _ => false end.

(* the whole log: records in file order *)
Definition salvage (rs : list bytes) : list (N * bop) := flat_map record_entries rs.

(* ---- proofs ---- *)

(* a record that does not parse affects nothing but itself *)
Theorem salvage_local : forall pre bad post,
  salvage (pre ++ bad :: post) = salvage pre ++ record_entries bad ++ salvage post.
Proof.
  intros pre bad post. unfold salvage. rewrite flat_map_app. cbn [flat_map]. reflexivity.
Qed.

Lemma batch_build_length : forall seq ops, BATCH_HEADER <= nlen (batch_build seq ops).
Proof.
  intros seq ops. rewrite batch_build_layout. unfold nlen. rewrite hdr_length. unfold BATCH_HEADER. lia.
Qed.

(* an intact record = a batch as the writer built it: all of its operations arrive, numbered from its sequence *)
Theorem record_entries_intact : forall seq ops,
  wf_ops ops = true -> seq < 18446744073709551616 ->
  record_entries (batch_build seq ops) = number_ops seq ops /\ record_ok (batch_build seq ops) = true.
Proof.
  intros seq ops Hwf Hs. unfold record_entries, record_ok, batch_insert_into.
  pose proof (batch_build_length seq ops) as Hl.
  replace (nlen (batch_build seq ops) <? BATCH_HEADER) with false by (symmetry; apply N.ltb_ge; exact Hl).
  rewrite batch_iterate_build by exact Hwf. rewrite batch_sequence_build by exact Hs.
  cbn [fst snd negb andb]. split; reflexivity.
Qed.

(* every intact record of a log with ONE damaged record is salvaged completely, wherever the damage is *)
Theorem salvage_keeps_intact_records : forall pre post bad,
  (forall r, In r (pre ++ post) -> exists seq ops, wf_ops ops = true /\ seq < 18446744073709551616 /\ r = batch_build seq ops) ->
  forall seq ops, wf_ops ops = true -> seq < 18446744073709551616 ->
  In (batch_build seq ops) (pre ++ post) ->
  forall e, In e (number_ops seq ops) -> In e (salvage (pre ++ bad :: post)).
Proof.
  intros pre post bad _ seq ops Hwf Hs Hin e He.
  rewrite salvage_local. rewrite !in_app_iff.
  apply in_app_iff in Hin. destruct Hin as [Hin|Hin].
  - left. unfold salvage. apply in_flat_map. exists (batch_build seq ops). split; [exact Hin|].
    rewrite (proj1 (record_entries_intact seq ops Hwf Hs)). exact He.
  - right. right. unfold salvage. apply in_flat_map. exists (batch_build seq ops). split; [exact Hin|].
    rewrite (proj1 (record_entries_intact seq ops Hwf Hs)). exact He.
Qed.

(* a record too short for a header contributes nothing; a record that fails contributes a prefix of numbered operations *)
Theorem record_entries_short : forall r, nlen r < BATCH_HEADER -> record_entries r = [].
Proof. intros r H. unfold record_entries. apply N.ltb_lt in H. rewrite H. reflexivity. Qed.

Lemma number_ops_length : forall ops seq, length (number_ops seq ops) = length ops.
Proof. induction ops as [|o r IH]; intros seq; cbn [number_ops length]; [reflexivity|]. rewrite IH. reflexivity. Qed.

Theorem record_entries_numbered : forall r, BATCH_HEADER <= nlen r ->
  record_entries r = number_ops (batch_sequence r) (batch_ops r).
Proof.
  intros r H. unfold record_entries, batch_insert_into, batch_ops.
  replace (nlen r <? BATCH_HEADER) with false by (symmetry; apply N.ltb_ge; exact H).
  destruct (batch_iterate r) as [ops st]. reflexivity.
Qed.
