(* BlockSeekProofs.v -- (c) on a built block whose keys are strictly sorted under the
   comparator, the block iterator simulates a cursor over the entry list for
   ARBITRARY scripts: First / Last / Seek t / Next / Prev move as in the list, Seek
   lands on the first entry with key >= t.  The proof does not depend on where the
   restart points are, only on: every restart point is the offset of an entry that was
   encoded without prefix sharing, and restart point 0 is offset 0. *)
From LCDB Require Import Base Varint Block BaseProofs VarintProofs BlockProofs BlockIterProofs.
Require Import Lia ZifyBool ZifyNat ZifyN.
Ltac Zify.zify_post_hook ::= Z.div_mod_to_equations.
Local Open Scope N_scope.

(* ------------------------------------------------------------------ *)
(* encoding of prefixes and suffixes of the entry list                 *)
(* ------------------------------------------------------------------ *)
Section Enc.
Variable I : N.    (* restart interval *)

(* builder state (counter, last key) after a list of entries *)
Fixpoint enc_state (c : N) (last : bytes) (es : list entry) : N * bytes :=
  match es with
  | [] => (c, last)
  | (k, v) :: es' => enc_state ((if negb (c <? I) then 0 else c) + 1) k es'
  end.

Lemma enc_entries_app : forall a b c last,
  enc_entries I c last (a ++ b) =
  enc_entries I c last a ++ enc_entries I (fst (enc_state c last a)) (snd (enc_state c last a)) b.
Proof.
  induction a as [|[k v] a IH]; intros b c last; cbn [app enc_entries enc_state fst snd].
  - reflexivity.
  - rewrite IH, <- app_assoc. reflexivity.
Qed.

Lemma enc_state_app : forall a b c last,
  enc_state c last (a ++ b) = enc_state (fst (enc_state c last a)) (snd (enc_state c last a)) b.
Proof.
  induction a as [|[k v] a IH]; intros b c last; cbn [app enc_state fst snd]; [reflexivity|apply IH].
Qed.

Definition encp (pre : list entry) : bytes := enc_entries I 0 [] pre.
Definition encs (pre rem : list entry) : bytes :=
  enc_entries I (fst (enc_state 0 [] pre)) (snd (enc_state 0 [] pre)) rem.
(* the next entry after [pre] starts a restart region (no prefix sharing) *)
Definition restart_at (pre : list entry) : bool := negb (fst (enc_state 0 [] pre) <? I).

Lemma encp_app : forall pre rem, encp (pre ++ rem) = encp pre ++ encs pre rem.
Proof. intros. unfold encp, encs. apply enc_entries_app. Qed.

Lemma encs_cons : forall pre k v rem,
  encs pre ((k, v) :: rem) =
  encode_entry (if restart_at pre then 0 else shared_len (snd (enc_state 0 [] pre)) k) k v
  ++ encs (pre ++ [(k, v)]) rem.
Proof.
  intros. unfold encs, restart_at. cbn [enc_entries]. f_equal.
  rewrite enc_state_app. cbn [enc_state fst snd]. reflexivity.
Qed.

Lemma last_state_snoc : forall pre k v, snd (enc_state 0 [] (pre ++ [(k, v)])) = k.
Proof. intros. rewrite enc_state_app. reflexivity. Qed.

Lemma encode_entry_len3 : forall sh k v, 3 <= nlen (encode_entry sh k v).
Proof.
  intros. rewrite encode_entry_hdr, nlen_app.
  pose proof (hdr_bytes_length (sh mod two32) ((nlen k - sh) mod two32) (nlen v mod two32)).
  unfold two32 in *. lia.
Qed.

(* offsets of entry boundaries grow strictly *)
Lemma encp_snoc_lt : forall pre e, nlen (encp pre) + 3 <= nlen (encp (pre ++ [e])).
Proof.
  intros pre [k v]. rewrite encp_app, nlen_app, encs_cons, nlen_app.
  pose proof (encode_entry_len3 (if restart_at pre then 0 else shared_len (snd (enc_state 0 [] pre)) k) k v).
  lia.
Qed.

Lemma encp_app_le : forall pre rem, nlen (encp pre) <= nlen (encp (pre ++ rem)).
Proof. intros. rewrite encp_app, nlen_app. lia. Qed.

Lemma encp_app_lt : forall pre e rem, nlen (encp pre) + 3 <= nlen (encp (pre ++ e :: rem)).
Proof.
  intros. change (e :: rem) with ([e] ++ rem). rewrite app_assoc.
  pose proof (encp_snoc_lt pre e). pose proof (encp_app_le (pre ++ [e]) rem). lia.
Qed.

End Enc.

(* two prefixes of the same list are comparable *)
Lemma prefixes_comparable : forall (A : Type) (p1 r1 p2 r2 : list A),
  p1 ++ r1 = p2 ++ r2 -> (exists m, p2 = p1 ++ m /\ r1 = m ++ r2) \/ (exists m, p1 = p2 ++ m /\ r2 = m ++ r1).
Proof.
  induction p1 as [|x p1 IH]; intros r1 p2 r2 H.
  - left. exists p2. cbn in *. auto.
  - destruct p2 as [|y p2].
    + right. exists (x :: p1). cbn in *. auto.
    + cbn [app] in H. inversion H; subst.
      destruct (IH _ _ _ H2) as [[m [Ha Hb]]|[m [Ha Hb]]].
      * left. exists m. subst. auto.
      * right. exists m. subst. auto.
Qed.

Lemma snoc_cases : forall (A : Type) (l : list A), l = [] \/ exists m e, l = m ++ [e].
Proof.
  intros A l. destruct l as [|x l] using rev_ind; [left; reflexivity|right; eauto].
Qed.

Lemma encp_prefix_lt : forall I pre m, m <> [] -> nlen (encp I pre) < nlen (encp I (pre ++ m)).
Proof.
  intros I pre m Hm. destruct m as [|e m]; [congruence|].
  pose proof (encp_app_lt I pre e m). lia.
Qed.

Lemma prefix_of_le : forall I (p1 r1 p2 r2 : list entry),
  p1 ++ r1 = p2 ++ r2 -> nlen (encp I p1) <= nlen (encp I p2) ->
  exists m, p2 = p1 ++ m /\ r1 = m ++ r2.
Proof.
  intros I p1 r1 p2 r2 H Hle.
  destruct (prefixes_comparable _ _ _ _ _ H) as [X|[m [A B]]]; [exact X|].
  destruct m as [|e m].
  - exists []. rewrite app_nil_r in A. subst. cbn in *. rewrite app_nil_r. auto.
  - subst p1. pose proof (encp_prefix_lt I p2 (e :: m) ltac:(discriminate)). lia.
Qed.

Lemma prefix_of_eq : forall I (p1 r1 p2 r2 : list entry),
  p1 ++ r1 = p2 ++ r2 -> nlen (encp I p1) = nlen (encp I p2) -> p1 = p2 /\ r1 = r2.
Proof.
  intros I p1 r1 p2 r2 H Heq.
  destruct (prefix_of_le I _ _ _ _ H ltac:(lia)) as [m [A B]].
  destruct m as [|e m].
  - rewrite app_nil_r in A. subst. auto.
  - subst p2. pose proof (encp_prefix_lt I p1 (e :: m) ltac:(discriminate)). lia.
Qed.

Lemma prefix_of_lt : forall I (p1 r1 p2 r2 : list entry),
  p1 ++ r1 = p2 ++ r2 -> nlen (encp I p1) < nlen (encp I p2) ->
  exists m e, p2 = p1 ++ m ++ [e] /\ r1 = m ++ e :: r2.
Proof.
  intros I p1 r1 p2 r2 H Hlt.
  destruct (prefix_of_le I _ _ _ _ H ltac:(lia)) as [m [A B]].
  destruct (snoc_cases _ m) as [->|[m' [e ->]]].
  - rewrite app_nil_r in A. subst. lia.
  - exists m', e. split; [exact A|]. rewrite B, <- app_assoc. reflexivity.
Qed.

Lemma encp_nil_len : forall I pre, nlen (encp I pre) = 0 -> pre = [].
Proof.
  intros I pre H. destruct pre as [|e pre]; [reflexivity|].
  pose proof (encp_app_lt I [] e pre). cbn [app] in H0. unfold encp at 1 in H0. cbn [enc_entries] in H0.
  rewrite nlen_nil in H0. lia.
Qed.

(* ------------------------------------------------------------------ *)
(* the iterator over a block  b = encp es ++ TR                        *)
(* ------------------------------------------------------------------ *)
Section Sim.
Variable cmp : bytes -> bytes -> comparison.
Variable isint : bool.
Variable I : N.
Variable es : list entry.
Variable TR : bytes.        (* restart array ++ count *)
Variable num : N.           (* number of restart points *)

Let b : bytes := encp I es ++ TR.
Let E : N := nlen (encp I es).

Hypothesis Hwf : Forall wf_entry es.
Hypothesis H8 : keys_ge8 isint es.
Hypothesis HTR : nlen TR = 4 * num + 4.
Hypothesis Hnum : 1 <= num.

(* fields that never change *)
Definition statics (it : biter) : Prop :=
  bi_data it = b /\ bi_empty it = false /\ bi_restarts it = E /\ bi_num it = num /\
  bi_rarr it = TR /\ bi_status it = SOk.

Lemma statics_binv_parts : forall it, statics it ->
  bi_restarts it + 4 * bi_num it + 4 = nlen (bi_data it) /\
  bi_rarr it = drop_n (bi_restarts it) (bi_data it).
Proof.
  intros it (A & _ & B & C & D & _). rewrite A, B, C, D. unfold b, E.
  rewrite nlen_app, HTR, drop_n_nlen_app. split; [lia|reflexivity].
Qed.

(* restart point j as stored in the array (clamped as get_restart_point does) *)
Definition rp (j : N) : res N :=
  match de32 (drop_n (j * 4) TR) with
  | None => OOB
  | Some off => Ok (if E <? off then E else off)
  end.

Lemma get_restart_point_rp : forall it j, statics it -> get_restart_point it j = rp j.
Proof. intros it j (_ & _ & B & _ & D & _). unfold get_restart_point, rp. rewrite D, B. reflexivity. Qed.

(* every restart point is the offset of an entry encoded without sharing *)
Definition restart_entry (off : N) : Prop :=
  exists pre rem, es = pre ++ rem /\ off = nlen (encp I pre) /\
                  (pre = [] \/ restart_at I pre = true) /\ (rem <> [] \/ es = []).
Hypothesis Hrestarts : forall j, j < num -> exists off, rp j = Ok off /\ restart_entry off.
Hypothesis Hrp0 : rp 0 = Ok 0.

(* --- position "just before the entries rem" (es = pre ++ rem) --- *)
Record before (it : biter) (pre rem : list entry) : Prop := {
  bf_es : es = pre ++ rem;
  bf_st : statics it;
  bf_inv : binv1 it;
  bf_next : bi_next it = encs I pre rem ++ TR;
  bf_off : next_entry_offset it = nlen (encp I pre);
  bf_key : restart_at I pre = false -> pre <> [] -> bi_key it = snd (enc_state I 0 [] pre);
  bf_key0 : pre = [] -> restart_at I pre = false -> bi_key it = [];
  bf_ridx : bi_ridx it < num;
  bf_rp : exists off, rp (bi_ridx it) = Ok off /\ off <= next_entry_offset it
}.

(* --- position "at the entry (k, v)" (es = pre ++ (k, v) :: post) --- *)
Record at_entry (it : biter) (pre : list entry) (k v : bytes) (post : list entry) : Prop := {
  at_es : es = pre ++ (k, v) :: post;
  at_st : statics it;
  at_inv : binv1 it;
  at_cur : bi_cur it = nlen (encp I pre);
  at_key : bi_key it = k;
  at_vlen : bi_vlen it = nlen v;
  at_vrest : bi_vrest it = v ++ encs I (pre ++ [(k, v)]) post ++ TR;
  at_next : bi_next it = encs I (pre ++ [(k, v)]) post ++ TR;
  at_off : next_entry_offset it = nlen (encp I (pre ++ [(k, v)]));
  at_ridx : bi_ridx it < num;
  at_rp : exists off, rp (bi_ridx it) = Ok off /\ off <= bi_cur it
}.

Lemma at_valid : forall it pre k v post, at_entry it pre k v post -> biter_valid it = true.
Proof.
  intros it pre k v post H. destruct (at_st _ _ _ _ _ H) as (_ & A & B & _).
  unfold biter_valid. rewrite A, B, (at_cur _ _ _ _ _ H). cbn [negb andb].
  unfold E. rewrite (at_es _ _ _ _ _ H).
  pose proof (encp_app_lt I pre (k, v) post) as H0.
  apply N.ltb_lt. apply (N.lt_le_trans _ (nlen (encp I pre) + 3)); [lia|exact H0].
Qed.

Lemma at_observe : forall it pre k v post,
  at_entry it pre k v post -> biter_observe it = Ok (Some (k, v)).
Proof.
  intros it pre k v post H. unfold biter_observe. rewrite (at_valid _ _ _ _ _ H).
  unfold biter_value. rewrite (at_vrest _ _ _ _ _ H), (at_vlen _ _ _ _ _ H).
  rewrite take_exact_ok by (rewrite nlen_app; lia). cbn [rbind].
  rewrite take_n_nlen_app, (at_key _ _ _ _ _ H). reflexivity.
Qed.

Lemma at_before : forall it pre k v post,
  at_entry it pre k v post -> before it (pre ++ [(k, v)]) post.
Proof.
  intros it pre k v post H. constructor.
  - rewrite (at_es _ _ _ _ _ H), <- app_assoc. reflexivity.
  - apply (at_st _ _ _ _ _ H).
  - apply (at_inv _ _ _ _ _ H).
  - apply (at_next _ _ _ _ _ H).
  - apply (at_off _ _ _ _ _ H).
  - intros _ _. rewrite last_state_snoc. apply (at_key _ _ _ _ _ H).
  - intros Hnil. destruct pre; discriminate.
  - apply (at_ridx _ _ _ _ _ H).
  - destruct (at_rp _ _ _ _ _ H) as [off [A B]]. exists off. split; [exact A|].
    rewrite (at_off _ _ _ _ _ H). rewrite (at_cur _ _ _ _ _ H) in B.
    pose proof (encp_app_le I pre [(k, v)]). lia.
Qed.

(* invalid position (cursor off the list) *)
Definition invalid (it : biter) : Prop :=
  statics it /\ binv1 it /\ bi_cur it = E.

Lemma invalid_not_valid : forall it, invalid it -> biter_valid it = false.
Proof.
  intros it ((_ & A & B & _) & _ & C). unfold biter_valid. rewrite A, B, C.
  replace (E <? E) with false by lia. reflexivity.
Qed.

Lemma set_pos_statics : forall it cur r, statics it -> statics (set_pos it cur r).
Proof. intros it cur r H. exact H. Qed.

Lemma in_es_wf : forall pre k v post, es = pre ++ (k, v) :: post ->
  nlen k < 4294967296 /\ nlen v < 4294967296 /\ (isint = true -> 8 <= nlen k).
Proof.
  intros pre k v post Hes.
  assert (Hin : In (k, v) es) by (rewrite Hes; apply in_or_app; right; left; reflexivity).
  rewrite Forall_forall in Hwf. destruct (Hwf _ Hin) as [A B]. cbn [fst snd] in A, B.
  split; [exact A|]. split; [exact B|].
  intros Hi. specialize (H8 Hi). rewrite Forall_forall in H8. apply (H8 _ Hin).
Qed.

(* advance_ridx keeps "restart point ridx is not after the current entry" *)
Lemma advance_ridx_rp : forall fuel it,
  statics it -> binv1 it -> bi_ridx it < num ->
  (exists off, rp (bi_ridx it) = Ok off /\ off <= bi_cur it) ->
  exists r, advance_ridx fuel it = Ok (set_ridx it r) /\ r < num /\
            exists off, rp r = Ok off /\ off <= bi_cur it.
Proof.
  induction fuel as [|x fuel IH]; intros it Hst Hinv Hr Hrp; cbn [advance_ridx].
  - exists (bi_ridx it). rewrite set_ridx_self. auto.
  - pose proof Hst as (_ & _ & _ & Hn & _). rewrite Hn.
    destruct (bi_ridx it + 1 <? num) eqn:E1.
    + rewrite (get_restart_point_rp it _ Hst).
      destruct (Hrestarts (bi_ridx it + 1) ltac:(lia)) as [off [Ho _]]. rewrite Ho. cbn [rbind].
      destruct (off <? bi_cur it) eqn:E2.
      * destruct (IH (set_ridx it (bi_ridx it + 1))) as [r (A & B & C)].
        { exact Hst. }
        { apply set_pos_inv; [exact Hinv|]. rewrite Hn. lia. }
        { cbn [set_ridx set_pos bi_ridx]. lia. }
        { exists off. cbn [set_ridx set_pos bi_ridx bi_cur]. split; [exact Ho|lia]. }
        exists r. rewrite A, set_ridx_twice. auto.
      * exists (bi_ridx it). rewrite set_ridx_self. auto.
    + exists (bi_ridx it). rewrite set_ridx_self. auto.
Qed.

(* parse_next_key from "before (k, v) :: post" lands at that entry *)
Lemma parse_at : forall it pre k v post,
  before it pre ((k, v) :: post) ->
  exists it', parse_next_key isint it = Ok (it', true) /\ at_entry it' pre k v post.
Proof.
  intros it pre k v post Hb.
  pose proof (bf_es _ _ _ Hb) as Hes.
  destruct (in_es_wf pre k v post Hes) as (Hk & Hv & K8).
  pose proof (bf_st _ _ _ Hb) as Hst. pose proof Hst as (S1 & S2 & S3 & S4 & S5 & S6).
  pose proof (bf_next _ _ _ Hb) as Hnext. pose proof (bf_off _ _ _ Hb) as Hoff.
  rewrite encs_cons in Hnext.
  set (last := snd (enc_state I 0 [] pre)) in *.
  set (sh := if restart_at I pre then 0 else shared_len last k) in *.
  set (post_enc := encs I (pre ++ [(k, v)]) post) in *.
  assert (Hsh_k : sh <= nlen k) by (subst sh; destruct (restart_at I pre); [lia|apply shared_len_le_r]).
  assert (Hkey : nlen (bi_key it) <? sh = false /\ take_n sh (bi_key it) = take_n sh k).
  { subst sh. destruct (restart_at I pre) eqn:Er.
    - split; [lia|reflexivity].
    - destruct pre as [|p0 pre0] eqn:Ep.
      + rewrite (bf_key0 _ _ _ Hb eq_refl Er). subst last. cbn [enc_state snd shared_len].
        split; [cbn; lia|reflexivity].
      + rewrite (bf_key _ _ _ Hb Er ltac:(discriminate)). fold last.
        split; [pose proof (shared_len_le_l last k); lia|apply shared_len_prefix]. }
  destruct Hkey as [Hkey1 Hkey2].
  rewrite encode_entry_hdr in Hnext. unfold two32 in Hnext.
  rewrite !N.mod_small in Hnext by lia.
  rewrite <- !app_assoc in Hnext.
  (* total size of this entry *)
  assert (Hsz : nlen (encp I (pre ++ [(k, v)])) =
                nlen (encp I pre) + nlen (hdr_bytes sh (nlen k - sh) (nlen v)) + (nlen k - sh) + nlen v).
  { rewrite encp_app, nlen_app. unfold encs at 1. fold (encs I pre [(k, v)]).
    rewrite encs_cons. fold last. fold sh. rewrite encode_entry_hdr. unfold two32.
    rewrite !N.mod_small by lia. rewrite !nlen_app, nlen_drop_n.
    unfold encs. cbn [enc_entries]. rewrite nlen_nil. lia. }
  assert (HleE : nlen (encp I (pre ++ [(k, v)])) <= E).
  { unfold E. rewrite Hes. change ((k, v) :: post) with ([(k, v)] ++ post). rewrite app_assoc.
    apply encp_app_le. }
  pose proof (hdr_bytes_length sh (nlen k - sh) (nlen v) ltac:(lia) ltac:(lia) ltac:(lia)) as Hh.
  unfold parse_next_key. rewrite S3.
  replace (E <=? next_entry_offset it) with false by lia.
  rewrite Hnext.
  rewrite decode_entry_encode; try lia.
  2:{ rewrite !nlen_app, nlen_drop_n.
      pose proof (bf_inv _ _ _ Hb) as (I1 & _ & _ & _ & I5 & _).
      assert (Hlen : nlen (bi_next it) = nlen (bi_data it) - next_entry_offset it)
        by (rewrite I5, nlen_drop_n; reflexivity).
      rewrite Hnext in Hlen. rewrite !nlen_app, nlen_drop_n in Hlen.
      rewrite S1 in Hlen. unfold b in Hlen. rewrite nlen_app in Hlen. fold E in Hlen. lia. }
  cbn [rbind].
  rewrite Hkey1.
  replace (sh + (nlen k - sh)) with (nlen k) by lia.
  assert (Hk8 : isint && (nlen k <? 8) = false).
  { destruct isint; [|reflexivity]. specialize (K8 eq_refl). cbn [andb]. lia. }
  rewrite Hk8.
  rewrite take_exact_ok by (rewrite nlen_app, nlen_drop_n; lia). cbn [rbind].
  rewrite (take_n_app_exact (drop_n sh k)) by (rewrite nlen_drop_n; lia).
  rewrite (drop_n_app_exact (drop_n sh k)) by (rewrite nlen_drop_n; lia).
  rewrite (drop_n_app_exact v) by reflexivity.
  rewrite Hkey2, take_drop_n.
  match goal with |- context [advance_ridx ?f ?i] => set (it1 := i) end.
  pose proof (bf_inv _ _ _ Hb) as (I1 & I2 & I3 & I4 & I5 & I6).
  assert (Hst1 : statics it1).
  { unfold statics, it1. cbn [bi_data bi_empty bi_restarts bi_num bi_rarr bi_status].
    repeat split; try assumption; reflexivity. }
  assert (Hinv1 : binv1 it1).
  { unfold binv1, it1.
    cbn [bi_data bi_restarts bi_num bi_rarr bi_ridx bi_vrest bi_voff bi_vlen bi_next].
    rewrite S3 in *. unfold next_entry_offset in *.
    repeat split; auto.
    - rewrite I5 in Hnext.
      assert (Hd : drop_n (nlen (hdr_bytes sh (nlen k - sh) (nlen v)) + (nlen k - sh))
                          (drop_n (bi_voff it + bi_vlen it) (bi_data it)) = v ++ post_enc ++ TR).
      { rewrite Hnext. rewrite <- drop_n_drop_n. rewrite drop_n_nlen_app.
        rewrite drop_n_app_exact by (rewrite nlen_drop_n; lia). reflexivity. }
      rewrite drop_n_drop_n in Hd. rewrite <- Hd. f_equal. lia.
    - rewrite I5 in Hnext.
      assert (Hd : drop_n (nlen (hdr_bytes sh (nlen k - sh) (nlen v)) + (nlen k - sh) + nlen v)
                          (drop_n (bi_voff it + bi_vlen it) (bi_data it)) = post_enc ++ TR).
      { rewrite Hnext. rewrite <- !drop_n_drop_n. rewrite drop_n_nlen_app.
        rewrite drop_n_app_exact by (rewrite nlen_drop_n; lia). apply drop_n_nlen_app. }
      rewrite drop_n_drop_n in Hd. rewrite <- Hd. f_equal. lia.
    - lia. }
  destruct (advance_ridx_rp (bi_data it) it1 Hst1 Hinv1) as [r (A & B & C)].
  { unfold it1. cbn [bi_ridx]. apply (bf_ridx _ _ _ Hb). }
  { destruct (bf_rp _ _ _ Hb) as [off [R1 R2]]. exists off. unfold it1. cbn [bi_ridx bi_cur]. auto. }
  rewrite A. cbn [rbind].
  exists (set_ridx it1 r). split; [reflexivity|].
  assert (Hinv2 : binv1 (set_ridx it1 r)).
  { apply set_pos_inv; [exact Hinv1|]. unfold it1. cbn [bi_num]. rewrite S4. lia. }
  constructor; try exact Hinv2; try exact Hes; try exact Hst1; try exact B; try exact C;
    unfold set_ridx, set_pos, it1, next_entry_offset;
    cbn [bi_data bi_empty bi_restarts bi_status bi_next bi_key bi_voff bi_vlen bi_cur bi_vrest bi_ridx bi_num bi_rarr];
    try reflexivity; try assumption.
  unfold next_entry_offset in Hoff. rewrite Hsz. lia.
Qed.

(* parse_next_key at the end of the list *)
Lemma parse_off_end : forall it pre,
  before it pre [] ->
  exists it', parse_next_key isint it = Ok (it', false) /\ invalid it'.
Proof.
  intros it pre Hb. pose proof (bf_es _ _ _ Hb) as Hes. rewrite app_nil_r in Hes. subst pre.
  pose proof (bf_st _ _ _ Hb) as Hst. pose proof Hst as (S1 & S2 & S3 & S4 & S5 & S6).
  unfold parse_next_key. rewrite S3, (bf_off _ _ _ Hb). fold E.
  replace (E <=? E) with true by lia.
  eexists. split; [reflexivity|]. split; [exact Hst|]. split.
  - apply set_pos_inv; [apply (bf_inv _ _ _ Hb)|lia].
  - reflexivity.
Qed.

(* seek_to_restart_point j positions just before the entry of restart point j *)
Lemma seek_to_restart_before : forall it j,
  statics it -> binv1 it -> j < num ->
  exists it' pre rem,
    seek_to_restart_point it j = Ok it' /\ before it' pre rem /\
    (rem <> [] \/ es = []) /\ bi_ridx it' = j /\
    rp j = Ok (nlen (encp I pre)).
Proof.
  intros it j Hst Hinv Hj.
  destruct (Hrestarts j Hj) as [off [Hrp (pre & rem & Hes & Hoff & Hre & Hne)]].
  unfold seek_to_restart_point. rewrite (get_restart_point_rp it j Hst), Hrp. cbn [rbind].
  pose proof Hst as (S1 & S2 & S3 & S4 & S5 & S6).
  assert (Hdrop : drop_n off (bi_data it) = encs I pre rem ++ TR).
  { rewrite S1. unfold b. rewrite Hes at 1. rewrite encp_app, <- app_assoc, Hoff. apply drop_n_nlen_app. }
  assert (HoffE : off <= E).
  { rewrite Hoff. unfold E. rewrite Hes. apply encp_app_le. }
  match goal with |- exists it' pre rem, Ok ?x = Ok it' /\ _ => set (it1 := x) end.
  exists it1, pre, rem. split; [reflexivity|].
  pose proof Hinv as (I1 & I2 & I3 & I4 & I5 & I6).
  split; [|split; [exact Hne|split; [reflexivity|congruence]]].
  assert (F1 : statics it1) by exact Hst.
  assert (F2 : binv1 it1).
  { unfold binv1, it1. cbn [bi_data bi_restarts bi_num bi_rarr bi_ridx bi_vrest bi_voff bi_vlen bi_next].
    rewrite N.add_0_r. repeat split; auto; rewrite ?S3, ?S4; lia. }
  assert (F3 : bi_next it1 = encs I pre rem ++ TR) by exact Hdrop.
  assert (F4 : next_entry_offset it1 = nlen (encp I pre)).
  { unfold next_entry_offset, it1. cbn [bi_voff bi_vlen]. lia. }
  constructor; try assumption.
  - intros Hr Hp. destruct Hre as [->|Hr']; congruence.
  - intros _ _. reflexivity.
  - exists off. rewrite F4. unfold it1. cbn [bi_ridx]. split; [exact Hrp|lia].
Qed.

(* scanning forward until the end of the current entry reaches a bound *)
Lemma scan_until_at : forall mid fuel bound it pre e post,
  before it pre (mid ++ e :: post) ->
  (length mid <= length fuel)%nat ->
  (mid <> [] -> nlen (encp I (pre ++ mid)) < bound) ->
  bound <= nlen (encp I (pre ++ mid ++ [e])) ->
  exists it', scan_until isint fuel bound it = Ok it' /\ at_entry it' (pre ++ mid) (fst e) (snd e) post.
Proof.
  induction mid as [|[k v] mid IH]; intros fuel bound it pre e post Hb Hfuel Hlt Hge.
  - destruct e as [k v]. cbn [app] in *.
    destruct (parse_at it pre k v post Hb) as [it' [P A]].
    assert (Hstop : (next_entry_offset it' <? bound) = false).
    { rewrite (at_off _ _ _ _ _ A). apply N.ltb_ge. exact Hge. }
    destruct fuel; cbn [scan_until]; rewrite P; cbn [rbind]; rewrite Hstop; cbn [andb];
      exists it'; rewrite app_nil_r; auto.
  - cbn [app] in Hb.
    destruct (parse_at it pre k v (mid ++ e :: post) Hb) as [it' [P A]].
    assert (Hgo : (next_entry_offset it' <? bound) = true).
    { rewrite (at_off _ _ _ _ _ A). apply N.ltb_lt.
      apply (N.le_lt_trans _ (nlen (encp I (pre ++ (k, v) :: mid)))); [|apply Hlt; discriminate].
      change ((k, v) :: mid) with ([(k, v)] ++ mid). rewrite app_assoc. apply encp_app_le. }
    destruct fuel as [|f fuel]; [cbn [length] in Hfuel; lia|].
    cbn [scan_until]. rewrite P. cbn [rbind]. rewrite Hgo. cbn [andb].
    destruct (IH fuel bound it' (pre ++ [(k, v)]) e post) as [it'' [S A'']].
    + apply at_before. exact A.
    + cbn [length] in Hfuel. lia.
    + intros Hm. rewrite <- app_assoc. apply Hlt. discriminate.
    + rewrite <- app_assoc. exact Hge.
    + exists it''. split; [exact S|]. rewrite <- app_assoc in A''. exact A''.
Qed.

(* linear search for the first key >= target *)
Lemma seek_linear_spec : forall mid fuel target it pre rest,
  before it pre (mid ++ rest) ->
  (length mid <= length fuel)%nat ->
  Forall (fun e => cmp (fst e) target = Lt) mid ->
  match rest with
  | [] => True
  | e :: _ => cmp (fst e) target <> Lt
  end ->
  exists it', seek_linear cmp isint fuel target it = Ok it' /\
    match rest with
    | [] => invalid it'
    | e :: post => at_entry it' (pre ++ mid) (fst e) (snd e) post
    end.
Proof.
  induction mid as [|[k v] mid IH]; intros fuel target it pre rest Hb Hfuel Hlt Hge.
  - cbn [app] in Hb. destruct rest as [|[k v] post].
    + destruct (parse_off_end it pre Hb) as [it' [P Inv]].
      destruct fuel; cbn [seek_linear]; rewrite P; cbn [rbind negb]; exists it'; auto.
    + destruct (parse_at it pre k v post Hb) as [it' [P A]].
      cbn [fst] in Hge.
      destruct fuel; cbn [seek_linear]; rewrite P; cbn [rbind negb]; rewrite (at_key _ _ _ _ _ A);
        (destruct (cmp k target) eqn:Ec; [|congruence|]); exists it'; rewrite app_nil_r; auto.
  - cbn [app] in Hb. inversion Hlt as [|? ? L1 L2]; subst. cbn [fst] in L1.
    destruct (parse_at it pre k v (mid ++ rest) Hb) as [it' [P A]].
    destruct fuel as [|f fuel]; [cbn [length] in Hfuel; lia|].
    cbn [seek_linear]. rewrite P. cbn [rbind negb]. rewrite (at_key _ _ _ _ _ A), L1.
    destruct (IH fuel target it' (pre ++ [(k, v)]) rest) as [it'' [S R]].
    + apply at_before. exact A.
    + cbn [length] in Hfuel. lia.
    + exact L2.
    + exact Hge.
    + exists it''. split; [exact S|]. destruct rest; [exact R|]. rewrite <- app_assoc in R. exact R.
Qed.

(* ---- binary search over the restart points ---- *)
Hypothesis Hempty : es = [] -> num = 1.

Definition restart_key_lt (target : bytes) (l : N) : Prop :=
  exists pre k v post, es = pre ++ (k, v) :: post /\ rp l = Ok (nlen (encp I pre)) /\ cmp k target = Lt.

Lemma restart_decode : forall it j, statics it -> j < num -> es <> [] ->
  exists pre k v post off,
    es = pre ++ (k, v) :: post /\ rp j = Ok off /\ off = nlen (encp I pre) /\
    decode_entry (drop_n off (bi_data it)) off (bi_restarts it)
    = Ok (Some (0, nlen k, nlen v, nlen (hdr_bytes 0 (nlen k) (nlen v)),
               k ++ v ++ encs I (pre ++ [(k, v)]) post ++ TR)).
Proof.
  intros it j Hst Hj Hne.
  destruct (Hrestarts j Hj) as [off [Hrp (pre & rem & Hes & Hoff & Hre & Hnn)]].
  destruct Hnn as [Hnn|Hnn]; [|congruence].
  destruct rem as [|[k v] post]; [congruence|].
  exists pre, k, v, post, off. split; [exact Hes|]. split; [exact Hrp|]. split; [exact Hoff|].
  pose proof Hst as (S1 & S2 & S3 & S4 & S5 & S6).
  destruct (in_es_wf pre k v post Hes) as (Hk & Hv & K8).
  assert (Hdrop : drop_n off (bi_data it) = encs I pre ((k, v) :: post) ++ TR).
  { rewrite S1. unfold b. rewrite Hes at 1. rewrite encp_app, <- app_assoc, Hoff. apply drop_n_nlen_app. }
  rewrite Hdrop, encs_cons.
  assert (Hsh : (if restart_at I pre then 0 else shared_len (snd (enc_state I 0 [] pre)) k) = 0).
  { destruct Hre as [-> | ->]; [|reflexivity]. unfold restart_at. cbn [enc_state fst snd shared_len]. destruct (negb (0 <? I)); reflexivity. }
  rewrite Hsh, encode_entry_hdr. unfold two32. rewrite !N.mod_small by lia.
  rewrite N.sub_0_r. rewrite <- !app_assoc. rewrite S3.
  assert (Hsz : nlen (encp I (pre ++ [(k, v)])) =
                nlen (encp I pre) + nlen (hdr_bytes 0 (nlen k) (nlen v)) + nlen k + nlen v).
  { rewrite encp_app, nlen_app. rewrite encs_cons, Hsh, encode_entry_hdr. unfold two32.
    rewrite !N.mod_small by lia. rewrite N.sub_0_r. rewrite !nlen_app.
    unfold encs. cbn [enc_entries]. rewrite nlen_nil. change (drop_n 0 k) with k. lia. }
  assert (HleE : nlen (encp I (pre ++ [(k, v)])) <= E).
  { unfold E. rewrite Hes. change ((k, v) :: post) with ([(k, v)] ++ post). rewrite app_assoc.
    apply encp_app_le. }
  change (drop_n 0 k) with k.
  rewrite decode_entry_encode; try lia; [reflexivity|].
  rewrite !nlen_app.
  assert (HE : E = nlen (encp I pre) + nlen (encs I pre ((k, v) :: post))).
  { unfold E. rewrite Hes at 1. rewrite encp_app, nlen_app. reflexivity. }
  rewrite encs_cons, Hsh, encode_entry_hdr in HE. unfold two32 in HE.
  rewrite !N.mod_small in HE by lia. rewrite N.sub_0_r in HE. rewrite !nlen_app in HE.
  change (drop_n 0 k) with k in HE. lia.
Qed.

Lemma seek_bsearch_spec : forall fuel target it lo hi,
  statics it -> binv1 it -> lo <= hi -> hi < num ->
  (isint = true -> 8 <= nlen target) ->
  exists l, seek_bsearch cmp isint fuel target it lo hi = Ok (inr l) /\
            lo <= l <= hi /\ (l = lo \/ restart_key_lt target l).
Proof.
  induction fuel as [|fuel IH]; intros target it lo hi Hst Hinv Hlh Hhi Ht; cbn [seek_bsearch].
  - destruct (lo <? hi); exists lo; (split; [reflexivity|split; [lia|left; reflexivity]]).
  - destruct (lo <? hi) eqn:E1; [|exists lo; split; [reflexivity|split; [lia|left; reflexivity]]].
    assert (Hne : es <> []) by (intros Hn; specialize (Hempty Hn); lia).
    set (mid := (lo + hi + 1) / 2).
    assert (Hmid : lo < mid /\ mid <= hi) by (subst mid; lia).
    destruct (restart_decode it mid Hst ltac:(lia) Hne) as (pre & k & v & post & off & Hes & Hrp & Hoff & Hdec).
    rewrite (get_restart_point_rp it mid Hst), Hrp. cbn [rbind].
    rewrite Hdec. cbn [rbind]. replace (negb (0 =? 0)) with false by reflexivity.
    destruct (in_es_wf pre k v post Hes) as (Hk & Hv & K8).
    assert (Hk8 : isint && (nlen k <? 8) = false).
    { destruct isint; [|reflexivity]. specialize (K8 eq_refl). cbn [andb]. lia. }
    rewrite Hk8.
    rewrite take_exact_ok by (rewrite nlen_app; lia). cbn [rbind].
    rewrite take_n_nlen_app.
    destruct (cmp k target) eqn:Ec.
    + destruct (IH target it lo (mid - 1) Hst Hinv ltac:(lia) ltac:(lia) Ht) as [l (A & B & C)].
      exists l. split; [exact A|]. split; [lia|exact C].
    + destruct (IH target it mid hi Hst Hinv ltac:(lia) ltac:(lia) Ht) as [l (A & B & C)].
      exists l. split; [exact A|]. split; [lia|].
      destruct C as [->|C]; [|right; exact C].
      right. exists pre, k, v, post. split; [exact Hes|]. split; [rewrite Hrp, Hoff; reflexivity|exact Ec].
    + destruct (IH target it lo (mid - 1) Hst Hinv ltac:(lia) ltac:(lia) Ht) as [l (A & B & C)].
      exists l. split; [exact A|]. split; [lia|exact C].
Qed.

(* ---- first loop of Prev ---- *)
Lemma prev_restart_spec : forall fuel original it,
  statics it -> binv1 it -> bi_ridx it < num -> (N.to_nat (bi_ridx it) <= length fuel)%nat ->
  exists r, prev_restart fuel original it = Ok r /\
    match r with
    | None => original = 0
    | Some it1 => exists r1 off, it1 = set_ridx it r1 /\ r1 < num /\ rp r1 = Ok off /\ off < original
    end.
Proof.
  induction fuel as [|x fuel IH]; intros original it Hst Hinv Hr Hfuel; cbn [prev_restart];
    rewrite (get_restart_point_rp it _ Hst);
    destruct (Hrestarts (bi_ridx it) Hr) as [off [Hrp _]]; rewrite Hrp; cbn [rbind].
  - assert (H0 : bi_ridx it = 0) by (cbn [length] in Hfuel; lia).
    rewrite H0 in *. rewrite Hrp0 in Hrp. inversion Hrp; subst off.
    destruct (original <=? 0) eqn:E1.
    + cbn. exists None. split; [reflexivity|lia].
    + exists (Some it). split; [reflexivity|]. exists 0, 0. rewrite <- H0 at 1. rewrite set_ridx_self.
      split; [reflexivity|]. split; [lia|]. split; [exact Hrp0|lia].
  - destruct (original <=? off) eqn:E1.
    + destruct (bi_ridx it =? 0) eqn:E0.
      * assert (H0 : bi_ridx it = 0) by lia. rewrite H0 in Hrp. rewrite Hrp0 in Hrp. inversion Hrp; subst off.
        exists None. split; [reflexivity|lia].
      * destruct (IH original (set_ridx it (bi_ridx it - 1))) as [r [A B]].
        { exact Hst. }
        { apply set_pos_inv; [exact Hinv|]. destruct Hst as (_ & _ & _ & Hn & _). rewrite Hn. lia. }
        { cbn [set_ridx set_pos bi_ridx]. lia. }
        { cbn [set_ridx set_pos bi_ridx]. cbn [length] in Hfuel. lia. }
        exists r. split; [exact A|]. destruct r as [it1|]; [|exact B].
        destruct B as (r1 & off1 & B1 & B2 & B3 & B4). exists r1, off1.
        rewrite set_ridx_twice in B1. auto.
    + exists (Some it). split; [reflexivity|]. exists (bi_ridx it), off. rewrite set_ridx_self.
      split; [reflexivity|]. split; [exact Hr|]. split; [exact Hrp|lia].
Qed.

(* ================================================================== *)
(* the reference cursor and the simulation                             *)
(* ================================================================== *)
Hypothesis Hsorted : forall pre k v mid k' v' post,
  es = pre ++ (k, v) :: mid ++ (k', v') :: post -> cmp k k' = Lt.
Hypothesis Hlt_trans : forall x y z, cmp x y = Lt -> cmp y z = Lt -> cmp x z = Lt.
Hypothesis Hlt_eq : forall x y z, cmp x y = Lt -> cmp y z = Eq -> cmp x z = Lt.

Definition zip := (list entry * entry * list entry)%type.

Definition sim (it : biter) (z : option zip) : Prop :=
  match z with
  | None => invalid it
  | Some (pre, e, post) => at_entry it pre (fst e) (snd e) post
  end.

Definition zip_obs (z : option zip) : option entry :=
  match z with None => None | Some (_, e, _) => Some e end.

Fixpoint split_lt (t : bytes) (l : list entry) : list entry * list entry :=
  match l with
  | [] => ([], [])
  | e :: l' =>
      match cmp (fst e) t with
      | Lt => (e :: fst (split_lt t l'), snd (split_lt t l'))
      | _ => ([], l)
      end
  end.

Definition ref_first : option zip :=
  match es with [] => None | e :: post => Some ([], e, post) end.
Definition ref_last : option zip :=
  match rev es with [] => None | e :: rpre => Some (rev rpre, e, []) end.
Definition ref_next (z : zip) : option zip :=
  let '(pre, e, post) := z in
  match post with [] => None | e' :: post' => Some (pre ++ [e], e', post') end.
Definition ref_prev (z : zip) : option zip :=
  let '(pre, e, post) := z in
  match rev pre with [] => None | e' :: rpre => Some (rev rpre, e', e :: post) end.
Definition ref_seek (t : bytes) : option zip :=
  match snd (split_lt t es) with
  | [] => None
  | e :: post => Some (fst (split_lt t es), e, post)
  end.
Definition ref_step (op : iop) (z : option zip) : option zip :=
  match op with
  | IFirst => ref_first
  | ILast => ref_last
  | ISeek t => ref_seek t
  | INext => match z with Some z' => ref_next z' | None => None end
  | IPrev => match z with Some z' => ref_prev z' | None => None end
  end.

Lemma split_lt_spec : forall t l,
  l = fst (split_lt t l) ++ snd (split_lt t l) /\
  Forall (fun e => cmp (fst e) t = Lt) (fst (split_lt t l)) /\
  match snd (split_lt t l) with [] => True | e :: _ => cmp (fst e) t <> Lt end.
Proof.
  induction l as [|e l IH]; cbn [split_lt]; [cbn; auto|].
  destruct (cmp (fst e) t) eqn:Ec; cbn [fst snd app].
  - split; [reflexivity|]. split; [constructor|congruence].
  - destruct IH as (A & B & C). split; [f_equal; exact A|]. split; [constructor; assumption|exact C].
  - split; [reflexivity|]. split; [constructor|congruence].
Qed.

Lemma sim_statics : forall it z, sim it z -> statics it /\ binv1 it.
Proof.
  intros it [[[pre e] post]|] H; cbn [sim] in H.
  - split; [apply (at_st _ _ _ _ _ H)|apply (at_inv _ _ _ _ _ H)].
  - destruct H as (A & B & _). auto.
Qed.

Lemma length_es_le_b : (length es <= length b)%nat.
Proof.
  unfold b. rewrite app_length. unfold encp. pose proof (enc_entries_length es I 0 []). lia.
Qed.

Lemma sublist_fuel : forall (pre mid post : list entry), es = pre ++ mid ++ post -> (length mid <= length b)%nat.
Proof.
  intros pre mid post H. pose proof length_es_le_b. rewrite H in H0 at 1. rewrite !app_length in H0. lia.
Qed.

(* linear search from a position before which every key is below the target *)
Lemma linear_from : forall target it pre rem,
  before it pre rem ->
  Forall (fun e => cmp (fst e) target = Lt) pre ->
  exists it', seek_linear cmp isint (bi_data it) target it = Ok it' /\ sim it' (ref_seek target).
Proof.
  intros target it pre rem Hb Hpre.
  pose proof (bf_es _ _ _ Hb) as Hes.
  destruct (split_lt_spec target es) as (Hsplit & Hlt & Hge).
  set (a := fst (split_lt target es)) in *. set (bb := snd (split_lt target es)) in *.
  assert (Hmid : exists mid, a = pre ++ mid /\ rem = mid ++ bb).
  { rewrite Hes in Hsplit.
    destruct (prefixes_comparable _ _ _ _ _ Hsplit) as [X|[m [A B]]]; [exact X|].
    destruct m as [|e m].
    - exists []. rewrite app_nil_r in A. cbn [app] in B. subst. rewrite app_nil_r. auto.
    - exfalso. rewrite B in Hge. cbn [app] in Hge. apply Hge.
      rewrite Forall_forall in Hpre. apply Hpre. rewrite A. apply in_or_app. right. left. reflexivity. }
  destruct Hmid as [mid [Ha Hrem]].
  assert (Hltmid : Forall (fun e => cmp (fst e) target = Lt) mid).
  { rewrite Ha in Hlt. apply Forall_app in Hlt. apply Hlt. }
  rewrite Hrem in Hb.
  destruct (bf_st _ _ _ Hb) as (S1 & _). rewrite S1.
  destruct (seek_linear_spec mid b target it pre bb Hb) as [it' [A B]].
  { apply (sublist_fuel pre mid bb). rewrite Hes, Hrem. reflexivity. }
  { exact Hltmid. }
  { exact Hge. }
  exists it'. split; [exact A|]. unfold ref_seek. fold a. fold bb.
  destruct bb as [|e post]; [exact B|]. cbn [sim]. rewrite Ha. exact B.
Qed.

(* all keys before a restart point chosen by the binary search are below the target *)
Lemma restart_pre_lt : forall target l pre rem,
  es = pre ++ rem -> rp l = Ok (nlen (encp I pre)) ->
  (l = 0 \/ restart_key_lt target l) ->
  Forall (fun e => cmp (fst e) target = Lt) pre.
Proof.
  intros target l pre rem Hes Hrp [->|(pre' & k & v & post & Hes' & Hrp' & Hc)].
  - rewrite Hrp0 in Hrp. inversion Hrp as [H0]. symmetry in H0. apply encp_nil_len in H0. subst. constructor.
  - rewrite Hrp in Hrp'. inversion Hrp' as [Hl].
    assert (Heq : pre ++ rem = pre' ++ (k, v) :: post) by congruence.
    destruct (prefix_of_eq I _ _ _ _ Heq Hl) as [-> _].
    apply Forall_forall. intros [k0 v0] Hin. cbn [fst].
    destruct (in_split _ _ Hin) as [p1 [p2 Hp]].
    apply (Hlt_trans k0 k target); [|exact Hc].
    apply (Hsorted p1 k0 v0 p2 k v post). rewrite Hes', Hp, <- app_assoc. reflexivity.
Qed.

(* ---- the five operations ---- *)
Lemma first_sim : forall it z, sim it z ->
  exists it', biter_first isint it = Ok it' /\ sim it' ref_first.
Proof.
  intros it z Hs. destruct (sim_statics it z Hs) as [Hst Hinv].
  unfold biter_first. destruct Hst as (S1 & S2 & S3 & S4 & S5 & S6). rewrite S2.
  destruct (seek_to_restart_before it 0 ltac:(repeat split; assumption) Hinv ltac:(lia))
    as (it1 & pre & rem & -> & Hb & Hne & Hr & Hrp). cbn [rbind].
  rewrite Hrp0 in Hrp. inversion Hrp as [H0]. symmetry in H0. apply encp_nil_len in H0. subst pre.
  pose proof (bf_es _ _ _ Hb) as Hes. cbn [app] in Hes.
  unfold ref_first. destruct rem as [|[k v] post].
  - destruct (parse_off_end it1 [] Hb) as [it' [-> Inv]]. cbn [rbind].
    exists it'. split; [reflexivity|]. rewrite Hes. exact Inv.
  - destruct (parse_at it1 [] k v post Hb) as [it' [-> A]]. cbn [rbind].
    exists it'. split; [reflexivity|]. rewrite Hes. exact A.
Qed.

Lemma next_sim : forall it pre e post, sim it (Some (pre, e, post)) ->
  exists it', biter_next isint it = Ok it' /\ sim it' (ref_next (pre, e, post)).
Proof.
  intros it pre [k v] post Hs. cbn [sim fst snd] in Hs.
  unfold biter_next. destruct (at_st _ _ _ _ _ Hs) as (_ & S2 & _). rewrite S2.
  pose proof (at_before _ _ _ _ _ Hs) as Hb. cbn [ref_next].
  destruct post as [|[k' v'] post'].
  - destruct (parse_off_end it _ Hb) as [it' [-> Inv]]. cbn [rbind]. exists it'. auto.
  - destruct (parse_at it _ k' v' post' Hb) as [it' [-> A]]. cbn [rbind]. exists it'. auto.
Qed.

Lemma last_sim : forall it z, sim it z ->
  exists it', biter_last isint it = Ok it' /\ sim it' ref_last.
Proof.
  intros it z Hs. destruct (sim_statics it z Hs) as [Hst Hinv].
  unfold biter_last. pose proof Hst as (S1 & S2 & S3 & S4 & S5 & S6). rewrite S2, S4, S3, S1.
  destruct (seek_to_restart_before it (num - 1) Hst Hinv ltac:(lia))
    as (it1 & pre & rem & -> & Hb & Hne & Hr & Hrp). cbn [rbind].
  pose proof (bf_es _ _ _ Hb) as Hes. unfold ref_last.
  destruct (snoc_cases _ rem) as [->|[mid [e ->]]].
  - destruct Hne as [Hne|Hne]; [congruence|].
    rewrite Hne. cbn [rev].
    destruct (parse_off_end it1 pre Hb) as [it' [P Inv]].
    exists it'. split; [|exact Inv].
    destruct b; cbn [scan_until]; rewrite P; cbn [rbind andb]; reflexivity.
  - destruct (scan_until_at mid b E it1 pre e [] Hb) as [it' [A B]].
    + apply (sublist_fuel pre mid [e]). exact Hes.
    + intros Hm. unfold E. rewrite Hes. rewrite app_assoc. apply encp_prefix_lt. discriminate.
    + unfold E. rewrite Hes. apply N.le_refl.
    + exists it'. split; [exact A|].
      rewrite Hes, app_assoc, rev_app_distr. cbn [rev app]. rewrite rev_involutive.
      cbn [sim]. exact B.
Qed.

Lemma prev_sim : forall it pre e post, sim it (Some (pre, e, post)) ->
  exists it', biter_prev isint it = Ok it' /\ sim it' (ref_prev (pre, e, post)).
Proof.
  intros it pre [k v] post Hs. cbn [sim fst snd] in Hs.
  pose proof (at_st _ _ _ _ _ Hs) as Hst. pose proof Hst as (S1 & S2 & S3 & S4 & S5 & S6).
  pose proof (at_inv _ _ _ _ _ Hs) as Hinv.
  unfold biter_prev. rewrite S2, S1.
  destruct (prev_restart_spec b (bi_cur it) it Hst Hinv (at_ridx _ _ _ _ _ Hs)) as [r [-> Hr]].
  { pose proof (at_ridx _ _ _ _ _ Hs). unfold b. rewrite app_length.
    assert (length TR = N.to_nat (4 * num + 4)) by (unfold nlen in HTR; lia). lia. }
  cbn [rbind]. cbn [ref_prev].
  destruct r as [it1|].
  - destruct Hr as (r1 & off & -> & Hr1 & Hrp1 & Hlt).
    replace (bi_ridx (set_ridx it r1)) with r1 by reflexivity.
    destruct (seek_to_restart_before (set_ridx it r1) r1 Hst) as (it2 & pre_r & rem_r & Hseek & Hb & Hne & Hri & Hrp).
    { apply set_pos_inv; [exact Hinv|]. rewrite S4. lia. }
    { exact Hr1. }
    rewrite Hseek. cbn [rbind].
    rewrite Hrp1 in Hrp. inversion Hrp as [Hoff]. rewrite (at_cur _ _ _ _ _ Hs) in Hlt. rewrite Hoff in Hlt.
    pose proof (bf_es _ _ _ Hb) as Hes_r. pose proof (at_es _ _ _ _ _ Hs) as Hes.
    assert (Heq : pre_r ++ rem_r = pre ++ (k, v) :: post) by congruence.
    destruct (prefix_of_lt I _ _ _ _ Heq Hlt) as (m & e' & Hpre & Hrem).
    rewrite Hrem in Hb.
    destruct (scan_until_at m b (bi_cur it) it2 pre_r e' ((k, v) :: post) Hb) as [it' [A B]].
    + apply (sublist_fuel pre_r m (e' :: (k, v) :: post)). rewrite Hes_r, Hrem. reflexivity.
    + intros Hm. rewrite (at_cur _ _ _ _ _ Hs), Hpre, app_assoc. apply encp_prefix_lt. discriminate.
    + rewrite (at_cur _ _ _ _ _ Hs), Hpre. apply N.le_refl.
    + exists it'. split; [exact A|].
      rewrite Hpre, app_assoc, rev_app_distr. cbn [rev app]. rewrite rev_involutive.
      cbn [sim]. exact B.
  - rewrite (at_cur _ _ _ _ _ Hs) in Hr. apply encp_nil_len in Hr. subst pre. cbn [rev].
    eexists. split; [reflexivity|]. cbn [sim]. split; [exact Hst|]. split.
    + apply set_pos_inv; [exact Hinv|]. rewrite S4. lia.
    + cbn [set_pos bi_cur]. exact S3.
Qed.

(* uniqueness of the split: a position whose predecessors are below the target and
   whose key is not, is the position Seek must reach *)
Lemma ref_seek_unique : forall target pre e post,
  es = pre ++ e :: post ->
  Forall (fun x => cmp (fst x) target = Lt) pre -> cmp (fst e) target <> Lt ->
  ref_seek target = Some (pre, e, post).
Proof.
  intros target pre e post Hes Hpre Hge.
  destruct (split_lt_spec target es) as (Hsplit & Hlt & Hg).
  unfold ref_seek.
  set (a := fst (split_lt target es)) in *. set (bb := snd (split_lt target es)) in *.
  rewrite Hes in Hsplit.
  destruct (prefixes_comparable _ _ _ _ _ Hsplit) as [[m [A B]]|[m [A B]]].
  - destruct m as [|x m].
    + rewrite app_nil_r in A. cbn [app] in B. rewrite <- B, A. reflexivity.
    + exfalso. cbn [app] in B. inversion B; subst x. apply Hge.
      rewrite Forall_forall in Hlt. apply Hlt. rewrite A. apply in_or_app. right. left. reflexivity.
  - destruct m as [|x m].
    + rewrite app_nil_r in A. cbn [app] in B. rewrite B, <- A. reflexivity.
    + exfalso. rewrite B in Hg. cbn [app] in Hg. apply Hg.
      rewrite Forall_forall in Hpre. apply Hpre. rewrite A. apply in_or_app. right. left. reflexivity.
Qed.

Lemma pre_lt_current : forall pre k v post target,
  es = pre ++ (k, v) :: post -> (cmp k target = Lt \/ cmp k target = Eq) ->
  Forall (fun x => cmp (fst x) target = Lt) pre.
Proof.
  intros pre k v post target Hes Hc. apply Forall_forall. intros [k0 v0] Hin. cbn [fst].
  destruct (in_split _ _ Hin) as [p1 [p2 Hp]].
  assert (H0 : cmp k0 k = Lt).
  { apply (Hsorted p1 k0 v0 p2 k v post). rewrite Hes, Hp, <- app_assoc. reflexivity. }
  destruct Hc as [Hc|Hc]; [apply (Hlt_trans _ _ _ H0 Hc)|apply (Hlt_eq _ _ _ H0 Hc)].
Qed.

Lemma seek_sim : forall target it z, sim it z ->
  (isint = true -> 8 <= nlen target) ->
  exists it', biter_seek cmp isint target it = Ok it' /\ sim it' (ref_seek target).
Proof.
  intros target it z Hs Ht. destruct (sim_statics it z Hs) as [Hst Hinv].
  pose proof Hst as (S1 & S2 & S3 & S4 & S5 & S6).
  unfold biter_seek. rewrite S2.
  assert (Ht8 : isint && (nlen target <? 8) = false).
  { destruct isint; [|reflexivity]. specialize (Ht eq_refl). cbn [andb]. lia. }
  rewrite Ht8.
  (* generic tail: restart at l (chosen soundly), then linear search *)
  assert (Hfrom : forall l, l < num -> (l = 0 \/ restart_key_lt target l) ->
            exists it', (it1 <~ seek_to_restart_point it l ;; seek_linear cmp isint (bi_data it) target it1) = Ok it'
                        /\ sim it' (ref_seek target)).
  { intros l Hl Hsound.
    destruct (seek_to_restart_before it l Hst Hinv Hl) as (it1 & pre & rem & -> & Hb & _ & _ & Hrp).
    cbn [rbind].
    pose proof (restart_pre_lt target l pre rem (bf_es _ _ _ Hb) Hrp Hsound) as Hpre.
    destruct (linear_from target it1 pre rem Hb Hpre) as [it' [A B]].
    destruct (bf_st _ _ _ Hb) as (S1' & _). rewrite S1' in A. rewrite S1.
    exists it'. auto. }
  destruct z as [[[pre [k v]] post]|]; cbn [sim fst snd] in Hs.
  - (* valid *)
    rewrite (at_valid _ _ _ _ _ Hs). rewrite (at_key _ _ _ _ _ Hs). cbn [andb].
    pose proof (at_es _ _ _ _ _ Hs) as Hes.
    destruct (cmp k target) eqn:Ec.
    + (* already there *)
      exists it. split; [reflexivity|].
      rewrite (ref_seek_unique target pre (k, v) post Hes); [exact Hs| |cbn [fst]; congruence].
      apply (pre_lt_current pre k v post target Hes). right. exact Ec.
    + (* current key below the target *)
      destruct (seek_bsearch_spec 64 target it (bi_ridx it) (bi_num it - 1) Hst Hinv) as [l (-> & Hl & Hsound)].
      { pose proof (at_ridx _ _ _ _ _ Hs). rewrite S4. lia. }
      { rewrite S4. lia. }
      { exact Ht. }
      cbn [rbind]. rewrite S4 in Hl.
      destruct (l =? bi_ridx it) eqn:El; cbn [andb].
      * (* continue from the current position *)
        cbn [rbind].
        assert (Hpre : Forall (fun x => cmp (fst x) target = Lt) (pre ++ [(k, v)])).
        { apply Forall_app. split; [apply (pre_lt_current pre k v post target Hes); left; exact Ec|].
          constructor; [exact Ec|constructor]. }
        destruct (linear_from target it _ _ (at_before _ _ _ _ _ Hs) Hpre) as [it' [A B]].
        exists it'. auto.
      * destruct Hsound as [->|Hsound]; [lia|].
        apply Hfrom; [lia|right; exact Hsound].
    + (* current key above the target *)
      destruct (seek_bsearch_spec 64 target it 0 (bi_ridx it) Hst Hinv) as [l (-> & Hl & Hsound)].
      { lia. }
      { apply (at_ridx _ _ _ _ _ Hs). }
      { exact Ht. }
      cbn [rbind]. rewrite andb_false_r.
      apply Hfrom; [pose proof (at_ridx _ _ _ _ _ Hs); lia|exact Hsound].
  - (* invalid *)
    rewrite (invalid_not_valid it Hs). cbn [andb].
    destruct (seek_bsearch_spec 64 target it 0 (bi_num it - 1) Hst Hinv) as [l (-> & Hl & Hsound)].
    { lia. }
    { rewrite S4. lia. }
    { exact Ht. }
    cbn [rbind]. rewrite andb_false_r. rewrite S4 in Hl.
    apply Hfrom; [lia|exact Hsound].
Qed.

(* ---- scripts ---- *)
Definition op_ok (op : iop) : Prop :=
  match op with ISeek t => isint = true -> 8 <= nlen t | _ => True end.

Lemma step_sim : forall op it z, sim it z -> op_ok op ->
  exists it', biter_step cmp isint op it = Ok it' /\ sim it' (ref_step op z).
Proof.
  intros op it z Hs Hop. destruct op; cbn [biter_step ref_step].
  - apply (first_sim it z Hs).
  - apply (last_sim it z Hs).
  - apply (seek_sim t it z Hs Hop).
  - destruct z as [[[pre e] post]|].
    + cbn [sim] in Hs. rewrite (at_valid _ _ _ _ _ Hs). apply next_sim. exact Hs.
    + rewrite (invalid_not_valid it Hs). exists it. auto.
  - destruct z as [[[pre e] post]|].
    + cbn [sim] in Hs. rewrite (at_valid _ _ _ _ _ Hs). apply prev_sim. exact Hs.
    + rewrite (invalid_not_valid it Hs). exists it. auto.
Qed.

Lemma sim_observe : forall it z, sim it z -> biter_observe it = Ok (zip_obs z).
Proof.
  intros it [[[pre [k v]] post]|] Hs; cbn [sim zip_obs fst snd] in *.
  - apply (at_observe _ _ _ _ _ Hs).
  - unfold biter_observe. rewrite (invalid_not_valid it Hs). reflexivity.
Qed.

Fixpoint ref_run (ops : list iop) (z : option zip) : list (option entry) :=
  match ops with
  | [] => []
  | op :: ops' => zip_obs (ref_step op z) :: ref_run ops' (ref_step op z)
  end.

Lemma run_sim : forall ops it z, sim it z -> Forall op_ok ops ->
  exists it', biter_run cmp isint ops it = Ok (ref_run ops z, it') /\ bi_status it' = SOk.
Proof.
  induction ops as [|op ops IH]; intros it z Hs Hops.
  - cbn [biter_run ref_run]. exists it. split; [reflexivity|].
    destruct (sim_statics it z Hs) as [(_ & _ & _ & _ & _ & S6) _]. exact S6.
  - inversion Hops; subst.
    rewrite biter_run_cons.
    destruct (step_sim op it z Hs H1) as [it1 [-> Hs1]]. cbn [rbind].
    rewrite (sim_observe it1 _ Hs1). cbn [rbind].
    destruct (IH it1 _ Hs1 H2) as [it2 [-> St]]. cbn [rbind ref_run].
    exists it2. auto.
Qed.

End Sim.

(* ================================================================== *)
(* instantiation: blocks produced by the block builder                 *)
(* ================================================================== *)
Lemma flat_map_app2 : forall (A B : Type) (f : A -> list B) l1 l2,
  flat_map f (l1 ++ l2) = flat_map f l1 ++ flat_map f l2.
Proof. induction l1; intros; cbn [flat_map app]; [reflexivity|]. rewrite IHl1, app_assoc. reflexivity. Qed.

Lemma de32_flat_map_nth : forall rs tail j x,
  nth_error rs j = Some x -> x < 4294967296 ->
  de32 (drop_n (N.of_nat j * 4) (flat_map le32 rs ++ tail)) = Some x.
Proof.
  intros rs tail j x Hn Hx.
  destruct (nth_error_split _ _ Hn) as (l1 & l2 & -> & Hl).
  rewrite flat_map_app2. cbn [flat_map]. rewrite <- !app_assoc.
  rewrite drop_n_app_exact by (rewrite flat_map_le32_length; unfold nlen; lia).
  apply de32_le32. exact Hx.
Qed.

(* where the builder records restart points *)
Definition restart_rec (I : N) (pre : list entry) (off : N) : Prop :=
  off = 0 \/ exists p r, pre = p ++ r /\ r <> [] /\ off = nlen (encp I p) /\ restart_at I p = true.

Lemma bb_add_all_restarts : forall I es pre bld,
  bb_size bld = nlen (encp I pre) ->
  bb_counter bld = fst (enc_state I 0 [] pre) ->
  bb_last bld = snd (enc_state I 0 [] pre) ->
  Forall (restart_rec I pre) (bb_restarts bld) ->
  Forall (restart_rec I (pre ++ es)) (bb_restarts (bb_add_all I bld es)) /\
  bb_size (bb_add_all I bld es) = nlen (encp I (pre ++ es)).
Proof.
  intros I es. induction es as [|[k v] es IH]; intros pre bld Hs Hc Hl Hr.
  - cbn [bb_add_all fold_left]. rewrite app_nil_r. auto.
  - unfold bb_add_all in *. cbn [fold_left fst snd].
    change ((k, v) :: es) with ([(k, v)] ++ es). rewrite app_assoc.
    apply IH.
    + unfold bb_add. cbn [bb_size]. rewrite Hs, Hc, Hl.
      rewrite encp_app, nlen_app. f_equal. rewrite encs_cons. unfold restart_at.
      unfold encs. cbn [enc_entries]. rewrite app_nil_r. reflexivity.
    + unfold bb_add. cbn [bb_counter]. rewrite enc_state_app. cbn [enc_state fst snd]. rewrite Hc. reflexivity.
    + unfold bb_add. cbn [bb_last]. rewrite last_state_snoc. reflexivity.
    + unfold bb_add. cbn [bb_restarts].
      assert (Hold : Forall (restart_rec I (pre ++ [(k, v)])) (bb_restarts bld)).
      { eapply Forall_impl; [|exact Hr]. intros off [H0|(p & r & A & B & C & D)]; [left; exact H0|].
        right. exists p, (r ++ [(k, v)]). split; [rewrite A, <- app_assoc; reflexivity|].
        split; [destruct r; discriminate|auto]. }
      destruct (negb (bb_counter bld <? I)) eqn:Er; [|exact Hold].
      constructor; [|exact Hold].
      right. exists pre, [(k, v)]. split; [reflexivity|]. split; [discriminate|].
      split; [exact Hs|]. unfold restart_at. rewrite <- Hc. exact Er.
Qed.

Theorem block_cursor_sim : forall cmp isint I es ops,
  wf_entries es -> keys_ge8 isint es ->
  nlen (block_build I es) < 4294967296 ->
  (* the keys are strictly sorted under cmp, a strict order compatible with Eq *)
  (forall pre k v mid k' v' post, es = pre ++ (k, v) :: mid ++ (k', v') :: post -> cmp k k' = Lt) ->
  (forall x y z, cmp x y = Lt -> cmp y z = Lt -> cmp x z = Lt) ->
  (forall x y z, cmp x y = Lt -> cmp y z = Eq -> cmp x z = Lt) ->
  Forall (op_ok isint) ops ->
  block_run cmp isint (block_build I es) ops = Ok (ref_run cmp es ops None, SOk).
Proof.
  intros cmp isint I es ops [Hwf Hcount] H8 Hsize Hsorted Htrans Hlteq Hops.
  unfold block_build, bb_finish in *.
  assert (Hinv0 : bb_inv bb_empty) by (unfold bb_inv; cbn; lia).
  destruct (bb_add_all_inv es I bb_empty Hinv0) as [[Hn H1] Hle].
  cbn [bb_empty bb_nrestarts] in Hle.
  destruct (bb_restarts_last es I bb_empty [] eq_refl) as [l' Hl'].
  destruct (bb_add_all_restarts I es [] bb_empty eq_refl eq_refl eq_refl) as [Hrec Hbsize].
  { constructor; [left; reflexivity|constructor]. }
  cbn [app] in Hrec, Hbsize.
  rewrite bb_add_all_buffer in *. cbn [bb_empty bb_buffer bb_chunks rev concat app bb_counter bb_last] in *.
  set (bb := bb_add_all I bb_empty es) in *.
  change (enc_entries I 0 [] es) with (encp I es) in *.
  set (n := bb_nrestarts bb) in *.
  set (rs := rev (bb_restarts bb)) in *.
  assert (Hrs0 : exists rs', rs = 0 :: rs') by (subst rs; rewrite Hl', rev_app_distr; eexists; reflexivity).
  assert (Hrslen : nlen rs = n) by (subst rs; unfold nlen; rewrite rev_length; fold (nlen (bb_restarts bb)); lia).
  set (TR := flat_map le32 rs ++ le32 n) in *.
  assert (HTR : nlen TR = 4 * n + 4).
  { subst TR. rewrite nlen_app, flat_map_le32_length, Hrslen.
    replace (nlen (le32 n)) with 4 by (unfold nlen; rewrite le32_length; reflexivity). lia. }
  set (E := nlen (encp I es)) in *.
  assert (Hsz : nlen (encp I es ++ TR) = E + 4 * n + 4) by (rewrite nlen_app, HTR; lia).
  (* the restart points *)
  assert (HrsE : Forall (fun off => restart_rec I es off) rs).
  { subst rs. apply Forall_rev. exact Hrec. }
  assert (Hrp : forall j, j < n -> exists off, rp I es TR j = Ok off /\ restart_entry I es off).
  { intros j Hj.
    destruct (nth_error rs (N.to_nat j)) as [off|] eqn:En.
    2:{ apply nth_error_None in En. unfold nlen in Hrslen. lia. }
    assert (Hin : In off rs) by (eapply nth_error_In; exact En).
    rewrite Forall_forall in HrsE. specialize (HrsE off Hin).
    assert (Hre : restart_entry I es off /\ off <= E).
    { destruct HrsE as [->|(p & r & A & B & C & D)].
      - split; [|lia]. exists [], es. split; [reflexivity|]. split; [reflexivity|]. split; [left; reflexivity|].
        destruct es; [right; reflexivity|left; discriminate].
      - split.
        + exists p, r. split; [exact A|]. split; [exact C|]. split; [right; exact D|left; exact B].
        + rewrite C. unfold E. rewrite A. apply encp_app_le. }
    destruct Hre as [Hre HoffE].
    exists off. split; [|exact Hre].
    unfold rp. subst TR.
    replace (j * 4) with (N.of_nat (N.to_nat j) * 4) by lia.
    rewrite (de32_flat_map_nth rs (le32 n) (N.to_nat j) off En) by lia.
    fold E. replace (E <? off) with false by lia. reflexivity. }
  assert (Hrp0 : rp I es TR 0 = Ok 0).
  { destruct Hrs0 as [rs' Hrs']. unfold rp. subst TR. rewrite Hrs'. cbn [flat_map].
    rewrite <- !app_assoc. change (drop_n (0 * 4) (le32 0 ++ flat_map le32 rs' ++ le32 n)) with (le32 0 ++ flat_map le32 rs' ++ le32 n).
    rewrite de32_le32 by lia. replace (nlen (encp I es) <? 0) with false by lia. reflexivity. }
  assert (Hempty : es = [] -> n = 1) by (intros ->; reflexivity).
  (* block_init / biter_create *)
  unfold block_run, block_init. rewrite Hsz.
  replace (E + 4 * n + 4 <? 4) with false by lia.
  assert (Hlast : drop_n (E + 4 * n + 4 - 4) (encp I es ++ TR) = le32 n).
  { subst TR. rewrite !app_assoc. apply drop_n_app_exact.
    rewrite nlen_app, flat_map_le32_length, Hrslen. fold E. lia. }
  unfold read32. replace (E + 4 * n + 4 <? E + 4 * n + 4 - 4 + 4) with false by lia.
  rewrite Hlast. rewrite <- (app_nil_r (le32 n)) at 1. rewrite de32_le32 by lia. cbn [rbind].
  replace ((E + 4 * n + 4 - 4) / 4 <? n) with false by lia.
  cbn [rbind].
  unfold biter_create. cbn [blk_size blk_data blk_len blk_restarts].
  replace (E + 4 * n + 4 <? 4) with false by lia.
  unfold read32. replace (E + 4 * n + 4 <? E + 4 * n + 4 - 4 + 4) with false by lia.
  rewrite Hlast. rewrite <- (app_nil_r (le32 n)) at 1. rewrite de32_le32 by lia. cbn [rbind].
  replace (n =? 0) with false by lia. cbv beta iota. cbn [rbind].
  replace (E + 4 * n + 4 - (1 + n) * 4) with E by lia.
  assert (Hrarr : drop_n E (encp I es ++ TR) = TR) by (apply drop_n_nlen_app).
  rewrite Hrarr.
  set (it0 := mk_biter (encp I es ++ TR) false E n TR E n [] 0 0 (encp I es ++ TR) (encp I es ++ TR) SOk).
  assert (Hsim0 : sim I es TR n it0 None).
  { cbn [sim]. unfold invalid, statics, it0.
    cbn [bi_data bi_empty bi_restarts bi_num bi_rarr bi_status bi_cur].
    split; [repeat split; reflexivity|]. split; [|reflexivity].
    unfold binv1. cbn [bi_data bi_restarts bi_num bi_rarr bi_ridx bi_vrest bi_voff bi_vlen bi_next].
    repeat split; try reflexivity; try lia. symmetry. exact Hrarr. }
  destruct (run_sim cmp isint I es TR n Hwf H8 HTR H1 Hrp Hrp0 Hempty Hsorted Htrans Hlteq ops it0 None Hsim0 Hops)
    as [it' [-> St]].
  cbn [rbind]. unfold biter_status. rewrite St. reflexivity.
Qed.

(* the bytewise comparator satisfies the order hypotheses *)
Corollary block_cursor_sim_bytewise : forall I es ops,
  wf_entries es ->
  nlen (block_build I es) < 4294967296 ->
  (forall pre k v mid k' v' post, es = pre ++ (k, v) :: mid ++ (k', v') :: post -> bytes_compare k k' = Lt) ->
  block_run bytes_compare false (block_build I es) ops = Ok (ref_run bytes_compare es ops None, SOk).
Proof.
  intros I es ops Hwf Hsz Hsorted.
  apply block_cursor_sim; auto.
  - intros H; discriminate.
  - apply bytes_compare_lt_trans.
  - intros x y z H1 H2. apply bytes_compare_eq_iff in H2. subst. exact H1.
  - apply Forall_forall. intros op _. destruct op; cbn; auto. intros H; discriminate.
Qed.

(* the internal-key comparator satisfies the order hypotheses as well *)
Lemma tbl_ikey_compare_lt_trans : forall x y z,
  tbl_ikey_compare x y = Lt -> tbl_ikey_compare y z = Lt -> tbl_ikey_compare x z = Lt.
Proof.
  intros x y z. unfold tbl_ikey_compare.
  destruct (bytes_compare (tbl_user_key x) (tbl_user_key y)) eqn:E1;
  destruct (bytes_compare (tbl_user_key y) (tbl_user_key z)) eqn:E2; intros H1 H2; try discriminate.
  - apply bytes_compare_eq_iff in E1. apply bytes_compare_eq_iff in E2.
    rewrite E1, E2, bytes_compare_refl.
    rewrite N.compare_lt_iff in H1, H2. apply N.compare_lt_iff. lia.
  - apply bytes_compare_eq_iff in E1. rewrite E1, E2. reflexivity.
  - apply bytes_compare_eq_iff in E2. rewrite <- E2, E1. reflexivity.
  - rewrite (bytes_compare_lt_trans _ _ _ E1 E2). reflexivity.
Qed.

Lemma tbl_ikey_compare_lt_eq : forall x y z,
  tbl_ikey_compare x y = Lt -> tbl_ikey_compare y z = Eq -> tbl_ikey_compare x z = Lt.
Proof.
  intros x y z. unfold tbl_ikey_compare.
  destruct (bytes_compare (tbl_user_key y) (tbl_user_key z)) eqn:E2; intros H1 H2; try discriminate.
  apply bytes_compare_eq_iff in E2. apply N.compare_eq_iff in H2.
  rewrite <- E2, H2. exact H1.
Qed.

Corollary block_cursor_sim_internal : forall I es ops,
  wf_entries es -> keys_ge8 true es ->
  nlen (block_build I es) < 4294967296 ->
  (forall pre k v mid k' v' post, es = pre ++ (k, v) :: mid ++ (k', v') :: post -> tbl_ikey_compare k k' = Lt) ->
  Forall (op_ok true) ops ->
  block_run tbl_ikey_compare true (block_build I es) ops = Ok (ref_run tbl_ikey_compare es ops None, SOk).
Proof.
  intros I es ops Hwf H8 Hsz Hsorted Hops.
  apply block_cursor_sim; auto.
  - apply tbl_ikey_compare_lt_trans.
  - apply tbl_ikey_compare_lt_eq.
Qed.
