(* BlockSeekProofs.v -- (c) on a built block whose keys are strictly sorted under the
   comparator, the block iterator simulates a cursor over the entry list for
   ARBITRARY scripts: First / Last / Seek t / Next / Prev move as in the list, Seek
   lands on the first entry with key >= t.  The proof does not depend on where the
   restart points are, only on: every restart point is the offset of an entry that was
   encoded without prefix sharing, and restart point 0 is offset 0. *)
From LCDB Require Import Base Varint Block BaseProofs VarintProofs BlockProofs BlockIterProofs.
Require Import Lia ZifyBool ZifyNat ZifyN.
Ltac Zify.zify_post_hook ::= Z.div_mod_to_equations.
Local Open Scope N_scope.

(* ------------------------------------------------------------------ *)
(* encoding of prefixes and suffixes of the entry list                 *)
(* ------------------------------------------------------------------ *)
Section Enc.
Variable I : N.    (* restart interval *)

(* builder state (counter, last key) after a list of entries *)
Fixpoint enc_state (c : N) (last : bytes) (es : list entry) : N * bytes :=
  match es with
  | [] => (c, last)
  | (k, v) :: es' => enc_state ((if negb (c <? I) then 0 else c) + 1) k es'
  end.

Lemma enc_entries_app : forall a b c last,
  enc_entries I c last (a ++ b) =
  enc_entries I c last a ++ enc_entries I (fst (enc_state c last a)) (snd (enc_state c last a)) b.
Proof.
  induction a as [|[k v] a IH]; intros b c last; cbn [app enc_entries enc_state fst snd].
  - reflexivity.
  - rewrite IH, <- app_assoc. reflexivity.
Qed.

Lemma enc_state_app : forall a b c last,
  enc_state c last (a ++ b) = enc_state (fst (enc_state c last a)) (snd (enc_state c last a)) b.
Proof.
  induction a as [|[k v] a IH]; intros b c last; cbn [app enc_state fst snd]; [reflexivity|apply IH].
Qed.

Definition encp (pre : list entry) : bytes := enc_entries I 0 [] pre.
Definition encs (pre rem : list entry) : bytes :=
  enc_entries I (fst (enc_state 0 [] pre)) (snd (enc_state 0 [] pre)) rem.
(* the next entry after [pre] starts a restart region (no prefix sharing) *)
Definition restart_at (pre : list entry) : bool := negb (fst (enc_state 0 [] pre) <? I).

Lemma encp_app : forall pre rem, encp (pre ++ rem) = encp pre ++ encs pre rem.
Proof. intros. unfold encp, encs. apply enc_entries_app. Qed.

Lemma encs_cons : forall pre k v rem,
  encs pre ((k, v) :: rem) =
  encode_entry (if restart_at pre then 0 else shared_len (snd (enc_state 0 [] pre)) k) k v
  ++ encs (pre ++ [(k, v)]) rem.
Proof.
  intros. unfold encs, restart_at. cbn [enc_entries]. f_equal.
  rewrite enc_state_app. cbn [enc_state fst snd]. reflexivity.
Qed.

Lemma last_state_snoc : forall pre k v, snd (enc_state 0 [] (pre ++ [(k, v)])) = k.
Proof. intros. rewrite enc_state_app. reflexivity. Qed.

Lemma encode_entry_len3 : forall sh k v, 3 <= nlen (encode_entry sh k v).
Proof.
  intros. rewrite encode_entry_hdr, nlen_app.
  pose proof (hdr_bytes_length (sh mod two32) ((nlen k - sh) mod two32) (nlen v mod two32)).
  unfold two32 in *. lia.
Qed.

(* offsets of entry boundaries grow strictly *)
Lemma encp_snoc_lt : forall pre e, nlen (encp pre) + 3 <= nlen (encp (pre ++ [e])).
Proof.
  intros pre [k v]. rewrite encp_app, nlen_app, encs_cons, nlen_app.
  pose proof (encode_entry_len3 (if restart_at pre then 0 else shared_len (snd (enc_state 0 [] pre)) k) k v).
  lia.
Qed.

Lemma encp_app_le : forall pre rem, nlen (encp pre) <= nlen (encp (pre ++ rem)).
Proof. intros. rewrite encp_app, nlen_app. lia. Qed.

Lemma encp_app_lt : forall pre e rem, nlen (encp pre) + 3 <= nlen (encp (pre ++ e :: rem)).
Proof.
  intros. change (e :: rem) with ([e] ++ rem). rewrite app_assoc.
  pose proof (encp_snoc_lt pre e). pose proof (encp_app_le (pre ++ [e]) rem). lia.
Qed.

End Enc.

(* ------------------------------------------------------------------ *)
(* the iterator over a block  b = encp es ++ TR                        *)
(* ------------------------------------------------------------------ *)
Section Sim.
Variable cmp : bytes -> bytes -> comparison.
Variable isint : bool.
Variable I : N.
Variable es : list entry.
Variable TR : bytes.        (* restart array ++ count *)
Variable num : N.           (* number of restart points *)

Let b : bytes := encp I es ++ TR.
Let E : N := nlen (encp I es).

Hypothesis Hwf : Forall wf_entry es.
Hypothesis H8 : keys_ge8 isint es.
Hypothesis HTR : nlen TR = 4 * num + 4.
Hypothesis Hnum : 1 <= num.

(* fields that never change *)
Definition statics (it : biter) : Prop :=
  bi_data it = b /\ bi_empty it = false /\ bi_restarts it = E /\ bi_num it = num /\
  bi_rarr it = TR /\ bi_status it = SOk.

Lemma statics_binv_parts : forall it, statics it ->
  bi_restarts it + 4 * bi_num it + 4 = nlen (bi_data it) /\
  bi_rarr it = drop_n (bi_restarts it) (bi_data it).
Proof.
  intros it (A & _ & B & C & D & _). rewrite A, B, C, D. unfold b, E.
  rewrite nlen_app, HTR, drop_n_nlen_app. split; [lia|reflexivity].
Qed.

(* restart point j as stored in the array (clamped as get_restart_point does) *)
Definition rp (j : N) : res N :=
  match de32 (drop_n (j * 4) TR) with
  | None => OOB
  | Some off => Ok (if E <? off then E else off)
  end.

Lemma get_restart_point_rp : forall it j, statics it -> get_restart_point it j = rp j.
Proof. intros it j (_ & _ & B & _ & D & _). unfold get_restart_point, rp. rewrite D, B. reflexivity. Qed.

(* every restart point is the offset of an entry encoded without sharing *)
Definition restart_entry (off : N) : Prop :=
  exists pre rem, es = pre ++ rem /\ off = nlen (encp I pre) /\
                  (pre = [] \/ restart_at I pre = true) /\ (rem <> [] \/ es = []).
Hypothesis Hrestarts : forall j, j < num -> exists off, rp j = Ok off /\ restart_entry off.
Hypothesis Hrp0 : rp 0 = Ok 0.

(* --- position "just before the entries rem" (es = pre ++ rem) --- *)
Record before (it : biter) (pre rem : list entry) : Prop := {
  bf_es : es = pre ++ rem;
  bf_st : statics it;
  bf_inv : binv1 it;
  bf_next : bi_next it = encs I pre rem ++ TR;
  bf_off : next_entry_offset it = nlen (encp I pre);
  bf_key : restart_at I pre = false -> pre <> [] -> bi_key it = snd (enc_state I 0 [] pre);
  bf_key0 : pre = [] -> restart_at I pre = false -> bi_key it = [];
  bf_ridx : bi_ridx it < num;
  bf_rp : exists off, rp (bi_ridx it) = Ok off /\ off <= next_entry_offset it
}.

(* --- position "at the entry (k, v)" (es = pre ++ (k, v) :: post) --- *)
Record at_entry (it : biter) (pre : list entry) (k v : bytes) (post : list entry) : Prop := {
  at_es : es = pre ++ (k, v) :: post;
  at_st : statics it;
  at_inv : binv1 it;
  at_cur : bi_cur it = nlen (encp I pre);
  at_key : bi_key it = k;
  at_vlen : bi_vlen it = nlen v;
  at_vrest : bi_vrest it = v ++ encs I (pre ++ [(k, v)]) post ++ TR;
  at_next : bi_next it = encs I (pre ++ [(k, v)]) post ++ TR;
  at_off : next_entry_offset it = nlen (encp I (pre ++ [(k, v)]));
  at_ridx : bi_ridx it < num;
  at_rp : exists off, rp (bi_ridx it) = Ok off /\ off <= bi_cur it
}.

Lemma at_valid : forall it pre k v post, at_entry it pre k v post -> biter_valid it = true.
Proof.
  intros it pre k v post H. destruct (at_st _ _ _ _ _ H) as (_ & A & B & _).
  unfold biter_valid. rewrite A, B, (at_cur _ _ _ _ _ H). cbn [negb andb].
  unfold E. rewrite (at_es _ _ _ _ _ H).
  pose proof (encp_app_lt I pre (k, v) post) as H0.
  apply N.ltb_lt. apply (N.lt_le_trans _ (nlen (encp I pre) + 3)); [lia|exact H0].
Qed.

Lemma at_observe : forall it pre k v post,
  at_entry it pre k v post -> biter_observe it = Ok (Some (k, v)).
Proof.
  intros it pre k v post H. unfold biter_observe. rewrite (at_valid _ _ _ _ _ H).
  unfold biter_value. rewrite (at_vrest _ _ _ _ _ H), (at_vlen _ _ _ _ _ H).
  rewrite take_exact_ok by (rewrite nlen_app; lia). cbn [rbind].
  rewrite take_n_nlen_app, (at_key _ _ _ _ _ H). reflexivity.
Qed.

Lemma at_before : forall it pre k v post,
  at_entry it pre k v post -> before it (pre ++ [(k, v)]) post.
Proof.
  intros it pre k v post H. constructor.
  - rewrite (at_es _ _ _ _ _ H), <- app_assoc. reflexivity.
  - apply (at_st _ _ _ _ _ H).
  - apply (at_inv _ _ _ _ _ H).
  - apply (at_next _ _ _ _ _ H).
  - apply (at_off _ _ _ _ _ H).
  - intros _ _. rewrite last_state_snoc. apply (at_key _ _ _ _ _ H).
  - intros Hnil. destruct pre; discriminate.
  - apply (at_ridx _ _ _ _ _ H).
  - destruct (at_rp _ _ _ _ _ H) as [off [A B]]. exists off. split; [exact A|].
    rewrite (at_off _ _ _ _ _ H). rewrite (at_cur _ _ _ _ _ H) in B.
    pose proof (encp_app_le I pre [(k, v)]). lia.
Qed.

(* invalid position (cursor off the list) *)
Definition invalid (it : biter) : Prop :=
  statics it /\ binv1 it /\ bi_cur it = E.

Lemma invalid_not_valid : forall it, invalid it -> biter_valid it = false.
Proof.
  intros it ((_ & A & B & _) & _ & C). unfold biter_valid. rewrite A, B, C.
  replace (E <? E) with false by lia. reflexivity.
Qed.

Lemma set_pos_statics : forall it cur r, statics it -> statics (set_pos it cur r).
Proof. intros it cur r H. exact H. Qed.

Lemma in_es_wf : forall pre k v post, es = pre ++ (k, v) :: post ->
  nlen k < 4294967296 /\ nlen v < 4294967296 /\ (isint = true -> 8 <= nlen k).
Proof.
  intros pre k v post Hes.
  assert (Hin : In (k, v) es) by (rewrite Hes; apply in_or_app; right; left; reflexivity).
  rewrite Forall_forall in Hwf. destruct (Hwf _ Hin) as [A B]. cbn [fst snd] in A, B.
  split; [exact A|]. split; [exact B|].
  intros Hi. specialize (H8 Hi). rewrite Forall_forall in H8. apply (H8 _ Hin).
Qed.

(* advance_ridx keeps "restart point ridx is not after the current entry" *)
Lemma advance_ridx_rp : forall fuel it,
  statics it -> binv1 it -> bi_ridx it < num ->
  (exists off, rp (bi_ridx it) = Ok off /\ off <= bi_cur it) ->
  exists r, advance_ridx fuel it = Ok (set_ridx it r) /\ r < num /\
            exists off, rp r = Ok off /\ off <= bi_cur it.
Proof.
  induction fuel as [|x fuel IH]; intros it Hst Hinv Hr Hrp; cbn [advance_ridx].
  - exists (bi_ridx it). rewrite set_ridx_self. auto.
  - pose proof Hst as (_ & _ & _ & Hn & _). rewrite Hn.
    destruct (bi_ridx it + 1 <? num) eqn:E1.
    + rewrite (get_restart_point_rp it _ Hst).
      destruct (Hrestarts (bi_ridx it + 1) ltac:(lia)) as [off [Ho _]]. rewrite Ho. cbn [rbind].
      destruct (off <? bi_cur it) eqn:E2.
      * destruct (IH (set_ridx it (bi_ridx it + 1))) as [r (A & B & C)].
        { exact Hst. }
        { apply set_pos_inv; [exact Hinv|]. rewrite Hn. lia. }
        { cbn [set_ridx set_pos bi_ridx]. lia. }
        { exists off. cbn [set_ridx set_pos bi_ridx bi_cur]. split; [exact Ho|lia]. }
        exists r. rewrite A, set_ridx_twice. auto.
      * exists (bi_ridx it). rewrite set_ridx_self. auto.
    + exists (bi_ridx it). rewrite set_ridx_self. auto.
Qed.

(* parse_next_key from "before (k, v) :: post" lands at that entry *)
Lemma parse_at : forall it pre k v post,
  before it pre ((k, v) :: post) ->
  exists it', parse_next_key isint it = Ok (it', true) /\ at_entry it' pre k v post.
Proof.
  intros it pre k v post Hb.
  pose proof (bf_es _ _ _ Hb) as Hes.
  destruct (in_es_wf pre k v post Hes) as (Hk & Hv & K8).
  pose proof (bf_st _ _ _ Hb) as Hst. pose proof Hst as (S1 & S2 & S3 & S4 & S5 & S6).
  pose proof (bf_next _ _ _ Hb) as Hnext. pose proof (bf_off _ _ _ Hb) as Hoff.
  rewrite encs_cons in Hnext.
  set (last := snd (enc_state I 0 [] pre)) in *.
  set (sh := if restart_at I pre then 0 else shared_len last k) in *.
  set (post_enc := encs I (pre ++ [(k, v)]) post) in *.
  assert (Hsh_k : sh <= nlen k) by (subst sh; destruct (restart_at I pre); [lia|apply shared_len_le_r]).
  assert (Hkey : nlen (bi_key it) <? sh = false /\ take_n sh (bi_key it) = take_n sh k).
  { subst sh. destruct (restart_at I pre) eqn:Er.
    - split; [lia|reflexivity].
    - destruct pre as [|p0 pre0] eqn:Ep.
      + rewrite (bf_key0 _ _ _ Hb eq_refl Er). subst last. cbn [enc_state snd shared_len].
        split; [cbn; lia|reflexivity].
      + rewrite (bf_key _ _ _ Hb Er ltac:(discriminate)). fold last.
        split; [pose proof (shared_len_le_l last k); lia|apply shared_len_prefix]. }
  destruct Hkey as [Hkey1 Hkey2].
  rewrite encode_entry_hdr in Hnext. unfold two32 in Hnext.
  rewrite !N.mod_small in Hnext by lia.
  rewrite <- !app_assoc in Hnext.
  (* total size of this entry *)
  assert (Hsz : nlen (encp I (pre ++ [(k, v)])) =
                nlen (encp I pre) + nlen (hdr_bytes sh (nlen k - sh) (nlen v)) + (nlen k - sh) + nlen v).
  { rewrite encp_app, nlen_app. unfold encs at 1. fold (encs I pre [(k, v)]).
    rewrite encs_cons. fold last. fold sh. rewrite encode_entry_hdr. unfold two32.
    rewrite !N.mod_small by lia. rewrite !nlen_app, nlen_drop_n.
    unfold encs. cbn [enc_entries]. rewrite nlen_nil. lia. }
  assert (HleE : nlen (encp I (pre ++ [(k, v)])) <= E).
  { unfold E. rewrite Hes. change ((k, v) :: post) with ([(k, v)] ++ post). rewrite app_assoc.
    apply encp_app_le. }
  pose proof (hdr_bytes_length sh (nlen k - sh) (nlen v) ltac:(lia) ltac:(lia) ltac:(lia)) as Hh.
  unfold parse_next_key. rewrite S3.
  replace (E <=? next_entry_offset it) with false by lia.
  rewrite Hnext.
  rewrite decode_entry_encode; try lia.
  2:{ rewrite !nlen_app, nlen_drop_n.
      pose proof (bf_inv _ _ _ Hb) as (I1 & _ & _ & _ & I5 & _).
      assert (Hlen : nlen (bi_next it) = nlen (bi_data it) - next_entry_offset it)
        by (rewrite I5, nlen_drop_n; reflexivity).
      rewrite Hnext in Hlen. rewrite !nlen_app, nlen_drop_n in Hlen.
      rewrite S1 in Hlen. unfold b in Hlen. rewrite nlen_app in Hlen. fold E in Hlen. lia. }
  cbn [rbind].
  rewrite Hkey1.
  replace (sh + (nlen k - sh)) with (nlen k) by lia.
  assert (Hk8 : isint && (nlen k <? 8) = false).
  { destruct isint; [|reflexivity]. specialize (K8 eq_refl). cbn [andb]. lia. }
  rewrite Hk8.
  rewrite take_exact_ok by (rewrite nlen_app, nlen_drop_n; lia). cbn [rbind].
  rewrite (take_n_app_exact (drop_n sh k)) by (rewrite nlen_drop_n; lia).
  rewrite (drop_n_app_exact (drop_n sh k)) by (rewrite nlen_drop_n; lia).
  rewrite (drop_n_app_exact v) by reflexivity.
  rewrite Hkey2, take_drop_n.
  match goal with |- context [advance_ridx ?f ?i] => set (it1 := i) end.
  pose proof (bf_inv _ _ _ Hb) as (I1 & I2 & I3 & I4 & I5 & I6).
  assert (Hst1 : statics it1).
  { unfold statics, it1. cbn [bi_data bi_empty bi_restarts bi_num bi_rarr bi_status].
    repeat split; try assumption; reflexivity. }
  assert (Hinv1 : binv1 it1).
  { unfold binv1, it1.
    cbn [bi_data bi_restarts bi_num bi_rarr bi_ridx bi_vrest bi_voff bi_vlen bi_next].
    rewrite S3 in *. unfold next_entry_offset in *.
    repeat split; auto.
    - rewrite I5 in Hnext.
      assert (Hd : drop_n (nlen (hdr_bytes sh (nlen k - sh) (nlen v)) + (nlen k - sh))
                          (drop_n (bi_voff it + bi_vlen it) (bi_data it)) = v ++ post_enc ++ TR).
      { rewrite Hnext. rewrite <- drop_n_drop_n. rewrite drop_n_nlen_app.
        rewrite drop_n_app_exact by (rewrite nlen_drop_n; lia). reflexivity. }
      rewrite drop_n_drop_n in Hd. rewrite <- Hd. f_equal. lia.
    - rewrite I5 in Hnext.
      assert (Hd : drop_n (nlen (hdr_bytes sh (nlen k - sh) (nlen v)) + (nlen k - sh) + nlen v)
                          (drop_n (bi_voff it + bi_vlen it) (bi_data it)) = post_enc ++ TR).
      { rewrite Hnext. rewrite <- !drop_n_drop_n. rewrite drop_n_nlen_app.
        rewrite drop_n_app_exact by (rewrite nlen_drop_n; lia). apply drop_n_nlen_app. }
      rewrite drop_n_drop_n in Hd. rewrite <- Hd. f_equal. lia.
    - lia. }
  destruct (advance_ridx_rp (bi_data it) it1 Hst1 Hinv1) as [r (A & B & C)].
  { unfold it1. cbn [bi_ridx]. apply (bf_ridx _ _ _ Hb). }
  { destruct (bf_rp _ _ _ Hb) as [off [R1 R2]]. exists off. unfold it1. cbn [bi_ridx bi_cur]. auto. }
  rewrite A. cbn [rbind].
  exists (set_ridx it1 r). split; [reflexivity|].
  constructor; unfold set_ridx, set_pos, it1, next_entry_offset;
    cbn [bi_data bi_empty bi_restarts bi_status bi_next bi_key bi_voff bi_vlen bi_cur bi_vrest bi_ridx bi_num bi_rarr];
    try reflexivity; try assumption.
  - apply set_pos_inv; [exact Hinv1|]. unfold it1. cbn [bi_num]. rewrite S4. lia.
  - unfold next_entry_offset in Hoff. exact Hoff.
  - unfold next_entry_offset in Hoff. rewrite Hsz. lia.
Qed.

(* parse_next_key at the end of the list *)
Lemma parse_off_end : forall it pre,
  before it pre [] ->
  exists it', parse_next_key isint it = Ok (it', false) /\ invalid it'.
Proof.
  intros it pre Hb. pose proof (bf_es _ _ _ Hb) as Hes. rewrite app_nil_r in Hes. subst pre.
  pose proof (bf_st _ _ _ Hb) as Hst. pose proof Hst as (S1 & S2 & S3 & S4 & S5 & S6).
  unfold parse_next_key. rewrite S3, (bf_off _ _ _ Hb). fold E.
  replace (E <=? E) with true by lia.
  eexists. split; [reflexivity|]. split; [exact Hst|]. split.
  - apply set_pos_inv; [apply (bf_inv _ _ _ Hb)|lia].
  - reflexivity.
Qed.

End Sim.
