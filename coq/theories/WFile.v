(* WFile.v -- model of the buffered writable file `ldb_wfile_t` of
   src/util/env_unix_impl.h (ldb_wfile_append0 / ldb_wfile_flush /
   ldb_wfile_sync0 / ldb_wfile_close, on top of ldb_write) and of the way
   src/log_writer.c (ldb_writer_add_record / emit_physical_record) drives it.
   Definitions only, executable; proofs are in WFileProofs.v.

   What is modelled: the 64 KiB user-space buffer (`buf`, `pos` = length of
   [wf_buf]) and the exact sequence of system calls issued on the file's
   descriptor: write(2) (with the bytes passed), fsync/fdatasync, the
   directory fsync of MANIFEST files, close(2).

   What is NOT modelled (assumption of every theorem about this model):
   every system call succeeds and write(2) always writes everything it is
   asked to write.  The static helper ldb_write(fd, buf, len) of
   env_unix_impl.h:416 (model: [fd_write]; not the public ldb_write of
   db_impl.c) loops over short writes
   and EINTR; under the assumption each iteration of its outer loop is one
   write(2) call of min(len, 2^30) bytes, and a length of 0 issues NO
   write(2) at all (`while (len > 0)`).  Error paths are discussed in the
   comments next to each operation; they are not part of the model.
   Operations after [wf_close] are outside the model as well (fd = -1 in C:
   every write fails); no caller in /repo/src performs one. *)
From LCDB Require Export Base LogFormat.
Local Open Scope N_scope.

Definition WBUF : N := 65536.          (* LDB_WRITE_BUFFER *)
Definition WMAX : N := 1073741824.     (* 1 << 30, the per-call cap of ldb_write *)

(* System calls on (or on behalf of) the file. *)
Inductive wsys :=
| WsWrite (d : bytes)   (* write(fd, d, |d|), returning |d| *)
| WsFsync               (* ldb_fsync(fd): fdatasync / fsync *)
| WsSyncDir             (* ldb_sync_dir(dirname): open + fsync + close of the directory *)
| WsClose.              (* close(fd) *)

Record wfile := mk_wfile {
  wf_manifest : bool;      (* file->manifest = basename starts with "MANIFEST" *)
  wf_out : list wsys;       (* every system call issued so far, oldest first *)
  wf_buf : bytes           (* buf[0 .. pos) *)
}.

(* ldb_wfile_init: pos = 0 *)
Definition wf_init (manifest : bool) : wfile := mk_wfile manifest [] [].

(* ---- observations ---- *)
Definition sys_bytes (e : wsys) : bytes := match e with WsWrite d => d | _ => [] end.
(* everything passed to write(2), concatenated *)
Definition written_of (es : list wsys) : bytes := flat_map sys_bytes es.
Definition wf_written (w : wfile) : bytes := written_of (wf_out w).
(* the lengths of the write(2) calls, in order *)
Definition write_sizes (es : list wsys) : list N :=
  flat_map (fun e => match e with WsWrite d => [nlen d] | _ => [] end) es.

(* ---- fd_write = the static ldb_write(fd, d, |d|) of env_unix_impl.h ----
   while (len > 0) { max = MIN(len, 1 << 30); write(fd, buf, max); ... }.
   Fuel = number of iterations that leave something behind; when it runs out
   the rest is emitted as one call, so that no byte is ever dropped by the
   model whatever the fuel (fd_write_chunks_bound shows the fuel used below
   is adequate: every chunk is non-empty and at most 2^30 bytes). *)
Fixpoint os_write (fuel : nat) (d : bytes) : list wsys :=
  match d with
  | [] => []
  | _ :: _ =>
      match fuel with
      | O => [WsWrite d]
      | S f =>
          if nlen d <=? WMAX then [WsWrite d]
          else WsWrite (take_n WMAX d) :: os_write f (drop_n WMAX d)
      end
  end.

Definition fd_write (d : bytes) : list wsys := os_write (N.to_nat (nlen d / WMAX)) d.

Definition wf_emit (w : wfile) (es : list wsys) (buf : bytes) : wfile * list wsys :=
  (mk_wfile (wf_manifest w) (wf_out w ++ es) buf, es).

(* ---- ldb_wfile_flush ----
     rc = ldb_wfile_write(file, file->buf, file->pos); file->pos = 0;
   An empty buffer issues no write(2).  (On a write error pos is reset all
   the same: the buffered bytes are dropped and the error is returned.) *)
Definition wf_flush (w : wfile) : wfile * list wsys :=
  wf_emit w (fd_write (wf_buf w)) [].

(* ---- ldb_wfile_append0 ----
     copy_size = MIN(write_size, LDB_WRITE_BUFFER - pos);  memcpy; pos += copy_size;
     if (write_size == 0) return OK;
     flush;                                   (the buffer is full here)
     if (write_size < LDB_WRITE_BUFFER) { memcpy(buf, rest); pos = write_size; return OK; }
     return ldb_wfile_write(rest);            (large remainder: written directly)
   An append of 0 bytes copies nothing and issues nothing. *)
Definition wf_append (w : wfile) (data : bytes) : wfile * list wsys :=
  let pos := nlen (wf_buf w) in
  let copy := N.min (nlen data) (WBUF - pos) in
  let buf1 := wf_buf w ++ take_n copy data in
  let rest := drop_n copy data in
  if nlen rest =? 0 then wf_emit w [] buf1
  else if nlen rest <? WBUF then wf_emit w (fd_write buf1) rest
  else wf_emit w (fd_write buf1 ++ fd_write rest) [].

(* ---- ldb_wfile_sync0 ----
     sync_dir (MANIFEST files only); flush; ldb_fsync(fd) *)
Definition wf_sync (w : wfile) : wfile * list wsys :=
  wf_emit w ((if wf_manifest w then [WsSyncDir] else []) ++ fd_write (wf_buf w) ++ [WsFsync]) [].

(* ---- ldb_wfile_close ----
     flush; close(fd); fd = -1 *)
Definition wf_close (w : wfile) : wfile * list wsys :=
  wf_emit w (fd_write (wf_buf w) ++ [WsClose]) [].

(* ---- operation sequences ---- *)
Inductive wfop :=
| WfAppend (d : bytes)
| WfFlush
| WfSync
| WfClose.

Definition wf_step (w : wfile) (op : wfop) : wfile * list wsys :=
  match op with
  | WfAppend d => wf_append w d
  | WfFlush => wf_flush w
  | WfSync => wf_sync w
  | WfClose => wf_close w
  end.

Fixpoint wf_run (w : wfile) (ops : list wfop) : wfile * list wsys :=
  match ops with
  | [] => (w, [])
  | op :: ops' =>
      let '(w1, e1) := wf_step w op in
      let '(w2, e2) := wf_run w1 ops' in
      (w2, e1 ++ e2)
  end.

(* the same run as a left fold over the state alone (the calls issued are recorded in
   [wf_out]); WFileProofs.wf_exec_run: wf_exec w ops = fst (wf_run w ops).  This is the
   form the model driver executes (constant stack). *)
Definition wf_exec (w : wfile) (ops : list wfop) : wfile :=
  fold_left (fun w op => fst (wf_step w op)) ops w.

(* everything handed to ldb_wfile_append, concatenated *)
Definition op_bytes (op : wfop) : bytes := match op with WfAppend d => d | _ => [] end.
Definition appended (ops : list wfop) : bytes := flat_map op_bytes ops.

(* ------------------------------------------------------------------ *)
(* The log writer on top of the file (src/log_writer.c, lw->dst == NULL) *)
(* ------------------------------------------------------------------ *)

(* the 7 header bytes formatted by emit_physical_record *)
Definition phys_header (ty : N) (payload : bytes) : bytes :=
  let crc := crc_mask (crc_extend (crc_value [ty]) payload) in
  let len := nlen payload in
  le32 crc ++ [len mod 256; len / 256; ty].

(* emit_physical_record: append(header, 7); append(payload); flush *)
Definition emit_ops (ty : N) (payload : bytes) : list wfop :=
  [WfAppend (phys_header ty payload); WfAppend payload; WfFlush].

(* One iteration of the do-while loop of ldb_writer_add_record as file
   operations (same arithmetic as LogFormat.add_record_step).  The trailer
   padding `ldb_wfile_append(lw->file, &padding)` is issued only when
   0 < leftover < 7, is NOT followed by a flush of its own, and its return
   value is ignored by the C code. *)
Definition add_record_step_ops (off : N) (is_begin : bool) (data : bytes)
  : list wfop * N * option bytes :=
  let leftover := BLOCK - off in
  let pad := if leftover <? HEADER
             then (if 0 <? leftover then [WfAppend (repeat 0 (N.to_nat leftover))] else [])
             else [] in
  let off1 := if leftover <? HEADER then 0 else off in
  let avail := BLOCK - off1 - HEADER in
  let left := nlen data in
  let flen := if left <? avail then left else avail in
  let is_end := left =? flen in
  let frag := take_n flen data in
  (pad ++ emit_ops (frag_type is_begin is_end) frag,
   off1 + HEADER + flen, if is_end then None else Some (drop_n flen data)).

Fixpoint add_record_loop_ops (fuel : nat) (off : N) (is_begin : bool) (data : bytes)
  : list wfop * N :=
  let '(ops, off', rest) := add_record_step_ops off is_begin data in
  match rest with
  | None => (ops, off')
  | Some data' =>
      match fuel with
      | O => (ops, off')
      | S f => let '(ops2, off2) := add_record_loop_ops f off' false data' in
               (ops ++ ops2, off2)
      end
  end.

(* the file operations of one ldb_writer_add_record at block offset [off] *)
Definition add_record_ops (off : N) (data : bytes) : list wfop * N :=
  add_record_loop_ops (add_record_fuel data) off true data.

(* ldb_writer_add_record on the file [w]: new file state, system calls
   issued, new block offset *)
Definition wfile_add_record (w : wfile) (off : N) (data : bytes) : wfile * list wsys * N :=
  let '(ops, off') := add_record_ops off data in
  (wf_run w ops, off').

(* ldb_writer_add_record followed by ldb_wfile_sync (MANIFEST records, and
   log records of sync writes) *)
Definition wfile_add_record_sync (w : wfile) (off : N) (data : bytes) : wfile * list wsys * N :=
  let '(ops, off') := add_record_ops off data in
  (wf_run w (ops ++ [WfSync]), off').

(* records added one after the other (ldb_writer_add_record called repeatedly) *)
Fixpoint wfile_add_records (w : wfile) (off : N) (rs : list bytes) : wfile * N :=
  match rs with
  | [] => (w, off)
  | r :: rs' => let '(x, off') := wfile_add_record w off r in wfile_add_records (fst x) off' rs'
  end.

(* Specification helper: the bytes of each iteration of the writer loop
   (zero trailer of the previous block, if any, ++ header ++ fragment), one
   list element per iteration; their concatenation is fst (add_record off data). *)
Fixpoint add_record_chunks (fuel : nat) (off : N) (is_begin : bool) (data : bytes)
  : list bytes :=
  let '(out, off', rest) := add_record_step off is_begin data in
  match rest with
  | None => [out]
  | Some data' =>
      match fuel with
      | O => [out]
      | S f => out :: add_record_chunks f off' false data'
      end
  end.

Definition record_chunks (off : N) (data : bytes) : list bytes :=
  add_record_chunks (add_record_fuel data) off true data.
