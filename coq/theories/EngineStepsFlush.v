(* EngineStepsFlush.v -- the steps OFlush and OReopen: invariant, entries, unchanged fields. *)
From LCDB Require Import Base Engine EngineSpec EngineStepsBase EngineStepsInv EngineStepsBasic EngineStepsLevels.
From Coq Require Import Sorting.Sorted Permutation.
Require Import Lia ZifyBool ZifyNat ZifyN.
Local Open Scope N_scope.

Section Flush.
Variable ucmp : bytes -> bytes -> comparison.
Context {TO : total_order ucmp}.

Notation ueq := (Engine.ueq ucmp).
Notation ult := (Engine.ult ucmp).
Notation ilt := (Engine.ilt ucmp).
Notation Srt := (EngineStepsBase.Srt ucmp).
Notation NO := (EngineStepsBase.NO ucmp).
Notation Cmp := (EngineStepsBase.Cmp ucmp).
Notation KD := (EngineStepsBase.KD ucmp).
Notation SInv := (EngineStepsInv.SInv ucmp).
Notation Rec := (EngineStepsInv.Rec ucmp).
Notation FOK := (EngineStepsInv.FOK ucmp).
Notation FB := (EngineStepsInv.FB ucmp).
Notation FC := (EngineStepsInv.FC ucmp).

(* ------------------------------------------------------------ user-key helpers *)
Lemma ule_lt_trans a b c : ucmp a b <> Gt -> ucmp b c = Lt -> ucmp a c = Lt.
Proof.
  intros H1 H2. pose proof (ucmp_trans3 ucmp a b c) as H.
  destruct (ucmp a b) eqn:E1; rewrite H2 in H; auto. congruence.
Qed.

Lemma lt_ule_trans a b c : ucmp a b = Lt -> ucmp b c <> Gt -> ucmp a c = Lt.
Proof.
  intros H1 H2. pose proof (ucmp_trans3 ucmp a b c) as H.
  rewrite H1 in H. destruct (ucmp b c) eqn:E2; auto. congruence.
Qed.

(* every user key of f strictly below every user key of g *)
Definition UB (f g : file) : Prop :=
  forall x y, In x (fents f) -> In y (fents g) -> ucmp (ek x) (ek y) = Lt.

Lemma UB_FB f g : UB f g -> FB f g.
Proof. intros H x y Hx Hy. apply ilt_iff. left. apply H; auto. Qed.

Lemma UB_no_ueq f g x y : UB f g -> In x (fents f) -> In y (fents g) -> ueq (ek x) (ek y) = true -> False.
Proof.
  intros H Hx Hy Hk. apply ueq_iff in Hk. rewrite (H x y Hx Hy) in Hk. discriminate.
Qed.

Lemma UB_no_ueq' f g x y : UB f g -> In x (fents f) -> In y (fents g) -> ueq (ek y) (ek x) = true -> False.
Proof.
  intros H Hx Hy Hk. apply (ueq_sym ucmp) in Hk. eapply UB_no_ueq; eauto.
Qed.

(* ------------------------------------------------------------ the flush guard *)
Lemma negb_existsb_false {A} (P : A -> bool) l g : negb (existsb P l) = true -> In g l -> P g = false.
Proof.
  intros H Hg. destruct (P g) eqn:E; auto.
  assert (existsb P l = true) by (apply existsb_exists; eauto).
  rewrite H0 in H. discriminate.
Qed.

Lemma no_overlap_spec lvls lo hi n :
  no_overlap_upto ucmp lvls lo hi n = true ->
  forall i, (i <= n)%nat -> forall g, In g (level_files lvls i) -> overlaps_user ucmp lo hi g = false.
Proof.
  revert lvls. induction n as [|n IH]; intros lvls H i Hi g Hg.
  - assert (i = 0)%nat by lia. subst i. destruct lvls as [|fs r].
    + destruct Hg.
    + cbn [no_overlap_upto] in H. unfold level_files in Hg. cbn [nth] in Hg.
      eapply negb_existsb_false; eauto.
  - destruct lvls as [|fs r].
    + unfold level_files in Hg. destruct i; destruct Hg.
    + cbn [no_overlap_upto] in H. apply andb_true_iff in H. destruct H as [H1 H2].
      unfold level_files in Hg. destruct i as [|i]; cbn [nth] in Hg.
      * eapply negb_existsb_false; eauto.
      * apply (IH r H2 i); auto. lia.
Qed.

Lemma overlaps_UB F g e0 r :
  FOK F -> FOK g -> fents F = e0 :: r ->
  overlaps_user ucmp (ek e0) (ek (last r e0)) g = false -> UB g F \/ UB F g.
Proof.
  intros HF Hg EF Ho. pose proof HF as [_ SF]. pose proof Hg as [_ Sg].
  destruct (FOK_ends ucmp g Hg) as (a & t & G1 & G2 & G3).
  unfold overlaps_user in Ho. rewrite G2, G3 in Ho. rewrite EF in SF. rewrite G1 in Sg.
  apply andb_false_iff in Ho. destruct Ho as [Ho|Ho]; apply negb_false_iff, ult_iff in Ho.
  - left. intros x y Hx Hy. rewrite G1 in Hx. rewrite EF in Hy.
    pose proof (ile_ukey ucmp _ _ (Srt_last_max ucmp a t x Sg Hx)) as H1.
    pose proof (ile_ukey ucmp _ _ (Srt_hd_min ucmp e0 r y SF Hy)) as H2.
    eapply lt_ule_trans; [|exact H2]. eapply ule_lt_trans; [exact H1|exact Ho].
  - right. intros x y Hx Hy. rewrite G1 in Hy. rewrite EF in Hx.
    pose proof (ile_ukey ucmp _ _ (Srt_last_max ucmp e0 r x SF Hx)) as H1.
    pose proof (ile_ukey ucmp _ _ (Srt_hd_min ucmp a t y Sg Hy)) as H2.
    eapply lt_ule_trans; [|exact H2]. eapply ule_lt_trans; [exact H1|exact Ho].
Qed.

Lemma flush_guard_UB lvls im lvl num :
  Srt im -> im <> [] -> flush_level_ok ucmp lvls im lvl = true -> (1 <= lvl)%nat ->
  forall i g, (i <= lvl)%nat -> In g (level_files lvls i) -> FOK g ->
              UB g (mkF num im) \/ UB (mkF num im) g.
Proof.
  intros HS Hne HG Hl i g Hi Hg Hok.
  destruct im as [|e0 r]; [congruence|].
  unfold flush_level_ok in HG. cbv zeta in HG.
  apply orb_true_iff in HG. destruct HG as [HG|HG].
  - apply Nat.eqb_eq in HG. lia.
  - apply andb_true_iff in HG. destruct HG as [_ HG].
    apply (overlaps_UB (mkF num (e0 :: r)) g e0 r); auto.
    + split; cbn [fents]; auto.
    + eapply no_overlap_spec; eauto.
Qed.

(* ------------------------------------------------------------ OFlush *)
Definition flush_levels (lvs : list (list file)) (lvl : nat) (num : N) (im : list entry) :=
  match im with
  | [] => lvs
  | _ => set_level lvs lvl (insert_file ucmp (mkF num im) (level_files lvs lvl))
  end.

Lemma flush_levels_ne lvs lvl num im : im <> [] ->
  flush_levels lvs lvl num im = set_level lvs lvl (insert_file ucmp (mkF num im) (level_files lvs lvl)).
Proof. intros H. unfold flush_levels. destruct im; auto. congruence. Qed.

Lemma nil_dec (im : list entry) : im = [] \/ im <> [].
Proof. destruct im; [left|right]; auto. discriminate. Qed.

Lemma flush_inv s lvl num nf s' :
  do_flush ucmp s lvl num nf = Some s' ->
  exists im, imm s = Some im /\ next_file s <= num /\ num < nf /\
             flush_level_ok ucmp (levels s) im lvl = true /\ (lvl < 7)%nat /\
             s' = mkS (mem s) None (flush_levels (levels s) lvl num im) (last_seq s) (snaps s) nf (hist s).
Proof.
  unfold do_flush. destruct (imm s) as [im|] eqn:Eim; [|discriminate].
  destruct (fresh_num s num && (num <? nf) && flush_level_ok ucmp (levels s) im lvl && (lvl <? NUM_LEVELS)%nat) eqn:G;
    [|discriminate].
  intros H; injection H as <-.
  apply andb_true_iff in G. destruct G as [G G4].
  apply andb_true_iff in G. destruct G as [G G3].
  apply andb_true_iff in G. destruct G as [G1 G2].
  unfold fresh_num in G1. apply Nat.ltb_lt in G4. unfold NUM_LEVELS in G4.
  exists im. repeat split; auto; lia.
Qed.

Lemma flush_files lvs lvl num im i g :
  (lvl < length lvs)%nat ->
  (In g (level_files (flush_levels lvs lvl num im) i) <->
   In g (level_files lvs i) \/ (im <> [] /\ i = lvl /\ g = mkF num im)).
Proof.
  intros Hl. unfold flush_levels. destruct im as [|e0 r].
  - split; auto. intros [H|(H & _)]; auto. congruence.
  - rewrite level_files_set by auto. destruct (i =? lvl)%nat eqn:E.
    + apply Nat.eqb_eq in E. subst i. rewrite insert_file_In. split.
      * intros [H|H]; auto. right. repeat split; auto. discriminate.
      * intros [H|(_ & _ & H)]; auto.
    + apply Nat.eqb_neq in E. split; auto. intros [H|(_ & H & _)]; auto. congruence.
Qed.

Lemma flush_same s lvl num nf s' : do_flush ucmp s lvl num nf = Some s' ->
  last_seq s' = last_seq s /\ snaps s' = snaps s /\ hist s' = hist s.
Proof.
  intros H. apply flush_inv in H. destruct H as (im & _ & _ & _ & _ & _ & ->). cbn. auto.
Qed.

Lemma flush_all_entries s lvl num nf s' e : SInv s -> do_flush ucmp s lvl num nf = Some s' ->
  (In e (all_entries s') <-> In e (all_entries s)).
Proof.
  intros HI H. apply flush_inv in H. destruct H as (im & Eim & G1 & G2 & G3 & G4 & ->).
  assert (Him: imm_run s = im). { unfold imm_run. rewrite Eim. reflexivity. }
  assert (Hl: (lvl < length (levels s))%nat). { rewrite (si_len _ _ HI). unfold NUM_LEVELS. lia. }
  rewrite !all_entries_In. unfold imm_run at 1. cbn [mem imm levels]. rewrite Him. split.
  - intros [H|[H|(i & f & H1 & H2)]]; auto.
    + destruct H.
    + apply flush_files in H1; auto. destruct H1 as [H1|(_ & _ & ->)].
      * right; right; eauto.
      * right; left. exact H2.
  - intros [H|[H|(i & f & H1 & H2)]]; auto.
    + right; right. exists lvl, (mkF num im). split; auto.
      apply flush_files; auto. right. repeat split; auto. intros ->. destruct H.
    + right; right. exists i, f. split; auto. apply flush_files; auto.
Qed.

Lemma flush_SInv s lvl num nf s' : SInv s -> do_flush ucmp s lvl num nf = Some s' -> SInv s'.
Proof.
  intros HI H. pose proof (flush_all_entries s lvl num nf s') as HAE. specialize (fun e => HAE e HI H).
  apply flush_inv in H. destruct H as (im & Eim & G1 & G2 & G3 & G4 & ->).
  assert (Him: imm_run s = im). { unfold imm_run. rewrite Eim. reflexivity. }
  assert (Hl: (lvl < length (levels s))%nat). { rewrite (si_len _ _ HI). unfold NUM_LEVELS. lia. }
  assert (Sim: Srt im). { rewrite <- Him. apply HI. }
  set (F := mkF num im).
  assert (HF: im <> [] -> FOK F). { intros Hne. split; auto. }
  assert (Hfiles := fun i g => flush_files (levels s) lvl num im i g Hl). fold F in Hfiles.
  set (lv' := flush_levels (levels s) lvl num im) in *.
  assert (HUB: im <> [] -> (1 <= lvl)%nat -> forall i g, (i <= lvl)%nat ->
               In g (level_files (levels s) i) -> UB g F \/ UB F g).
  { intros Hne H1 i g Hi Hg. apply (flush_guard_UB (levels s) im lvl num Sim Hne G3 H1 i g Hi Hg).
    eapply (si_fok _ _ HI); eauto. }
  set (s' := mkS (mem s) None lv' (last_seq s) (snaps s) nf (hist s)) in *.
  assert (Hpl: forall p e, at_place s' p e ->
            (p <> PImm /\ at_place s p e) \/
            (im <> [] /\ In e im /\ ((lvl = 0%nat /\ p = PF0 num) \/ ((1 <= lvl)%nat /\ p = PLv lvl)))).
  { intros p e Hp. destruct p as [| |n|i].
    - left. split. discriminate. exact Hp.
    - destruct Hp.
    - destruct Hp as (f & Hf & Hn & He). cbn [levels s'] in Hf. apply Hfiles in Hf.
      destruct Hf as [Hf|(Hne & Hi & ->)].
      + left. split. discriminate. exists f. auto.
      + right. cbn [fnum fents F] in *. subst n. repeat split; auto.
    - destruct Hp as (Hi & f & Hf & He). cbn [levels s'] in Hf. apply Hfiles in Hf.
      destruct Hf as [Hf|(Hne & Hi' & ->)].
      + left. split. discriminate. split; auto. exists f. auto.
      + right. cbn [fents F] in *. subst i. repeat split; auto. }
  constructor.
  - cbn [levels s']. unfold lv', flush_levels. destruct im; rewrite ?set_level_length; apply HI.
  - exact (si_mem _ _ HI).
  - apply Srt_nil.
  - intros i f Hf. cbn [levels s'] in Hf. apply Hfiles in Hf. destruct Hf as [Hf|(Hne & _ & ->)]; auto.
    eapply (si_fok _ _ HI); eauto.
  - intros i Hi. cbn [levels s']. unfold lv'.
    destruct (nil_dec im) as [Hnil|Hne]. rewrite Hnil. apply (si_lsort _ _ HI); auto.
    rewrite flush_levels_ne by auto. rewrite level_files_set by auto.
    destruct (i =? lvl)%nat eqn:E; [|apply (si_lsort _ _ HI); auto].
    apply Nat.eqb_eq in E. subst i.
    apply (insert_file_SS ucmp); auto.
    + apply Forall_forall. intros g Hg. eapply (si_fok _ _ HI); eauto.
    + apply (si_lsort _ _ HI); auto.
    + intros g Hg. destruct (HUB Hne Hi lvl g (Nat.le_refl _) Hg) as [HU|HU]; [right|left]; apply UB_FB; auto.
  - intros p p' o m Hlt Ho Hm Hk.
    apply Hpl in Ho. apply Hpl in Hm.
    destruct Ho as [[Hp Ho]|(Hne & Ho & Hp)]; destruct Hm as [[Hp' Hm]|(Hne' & Hm & Hp')].
    + eapply (si_rec _ _ HI); eauto.
    + assert (Hm': at_place s PImm m). { cbn. rewrite Him. auto. }
      destruct p as [| |n|i].
      * apply (si_rec _ _ HI PMem PImm o m); auto. exact I.
      * congruence.
      * destruct Ho as (f & Hf & Hn & Ho).
        destruct Hp' as [[H0 ->]|[H1 ->]].
        -- cbn in Hlt. pose proof (si_num _ _ HI _ _ Hf). lia.
        -- exfalso. destruct (HUB Hne' H1 0%nat f ltac:(lia) Hf) as [HU|HU].
           ++ eapply (UB_no_ueq f F o m); eauto.
           ++ eapply (UB_no_ueq' F f m o); eauto.
      * destruct Ho as (Hi & f & Hf & Ho).
        destruct Hp' as [[H0 ->]|[H1 ->]].
        -- destruct Hlt.
        -- cbn in Hlt. exfalso. destruct (HUB Hne' H1 i f ltac:(lia) Hf) as [HU|HU].
           ++ eapply (UB_no_ueq f F o m); eauto.
           ++ eapply (UB_no_ueq' F f m o); eauto.
    + assert (Ho': at_place s PImm o). { cbn. rewrite Him. auto. }
      apply (si_rec _ _ HI PImm p' o m); auto.
      destruct Hp as [[_ ->]|[_ ->]]; destruct p'; cbn in Hlt; try contradiction; exact I.
    + exfalso. destruct Hp as [[H0 ->]|[H1 ->]]; destruct Hp' as [[H0' ->]|[H1' ->]]; cbn in Hlt; lia.
  - intros e He. apply HAE in He. apply (si_seq _ _ HI); auto.
  - intros i f Hf. cbn [levels s' next_file] in *. apply Hfiles in Hf. destruct Hf as [Hf|(Hne & _ & ->)].
    + pose proof (si_num _ _ HI _ _ Hf). lia.
    + cbn [fnum F]. lia.
  - cbn [levels s']. unfold lv'.
    destruct (nil_dec im) as [Hnil|Hne]. rewrite Hnil. apply HI.
    rewrite flush_levels_ne by auto.
    apply ND_set_level; auto. apply HI.
    + eapply Permutation_NoDup. symmetry. apply Permutation_map. apply insert_file_Perm.
      cbn [map]. constructor. 2: apply (si_nd _ _ HI).
      intros Hin. apply in_map_iff in Hin. destruct Hin as (g & Hn & Hg).
      pose proof (si_num _ _ HI _ _ Hg). cbn [fnum] in Hn. lia.
    + intros f Hf. apply insert_file_In in Hf. destruct Hf as [->|Hf]; auto.
      right. intros j g _ Hg. pose proof (si_num _ _ HI _ _ Hg). cbn [fnum]. lia.
  - exact (si_snap _ _ HI).
  - exact (si_snsort _ _ HI).
Qed.

(* ------------------------------------------------------------ OReopen: helpers *)
Lemma Cmp_of_ueq_neq a b : (ueq (ek a) (ek b) = true -> es a <> es b) -> Cmp a b.
Proof.
  intros H. unfold EngineStepsBase.Cmp. rewrite !ilt_iff, (ucmp_opp ucmp (ek b) (ek a)).
  destruct (ucmp (ek a) (ek b)) eqn:E; cbn [CompOpp]; auto.
  assert (Hn: es a <> es b). { apply H. apply ueq_iff. exact E. }
  destruct (N.lt_trichotomy (es a) (es b)) as [H1|[H1|H1]]; auto; try contradiction.
Qed.

Lemma pending_eq s : pending_entries ucmp s = fold_right (insert_sorted ucmp) (mem s) (imm_run s).
Proof. unfold pending_entries, imm_run. destruct (imm s); reflexivity. Qed.

Lemma pending_In s e : In e (pending_entries ucmp s) <-> In e (imm_run s) \/ In e (mem s).
Proof. rewrite pending_eq. apply fold_insert_In. Qed.

Lemma pending_Srt s : SInv s -> Srt (pending_entries ucmp s).
Proof.
  intros HI. rewrite pending_eq. apply (fold_insert_Srt ucmp).
  - apply HI.
  - apply HI.
  - intros x y Hx Hy. apply Cmp_of_ueq_neq. intros Hk.
    assert (es x < es y); [|lia].
    apply (si_rec _ _ HI PMem PImm y x); auto. exact I. apply (ueq_sym ucmp). exact Hk.
Qed.

Lemma chunk_In l b pend e : In e (chunk l b pend) <-> In e pend /\ l < es e <= b.
Proof.
  unfold chunk. rewrite filter_In. split; intros [H1 H2]; split; auto; lia.
Qed.

Lemma si_FOP l : strictly_increasing l = true -> ForallOrdPairs N.lt l.
Proof.
  induction l as [|x r IH]; intros H. constructor.
  cbn [strictly_increasing] in H. apply andb_true_iff in H. destruct H as [H1 H2].
  specialize (IH H2). constructor; auto.
  destruct r as [|y r']. constructor.
  inversion IH; subst. constructor. lia.
  eapply Forall_impl; [|eassumption]. intros z Hz. cbn beta in Hz. lia.
Qed.

Definition SeqB (f g : file) : Prop := forall a b, In a (fents f) -> In b (fents g) -> es a < es b.

Lemma reopen_files_spec pend bounds : forall lo nums fs top,
  reopen_files lo bounds nums pend = Some (fs, top) ->
  map fnum fs = nums /\ lo <= top /\
  (forall f, In f fs -> (exists l b, fents f = chunk l b pend) /\
                        forall e, In e (fents f) -> In e pend /\ lo < es e <= top) /\
  ForallOrdPairs SeqB fs /\
  (forall e, In e pend -> lo < es e <= top -> exists f, In f fs /\ In e (fents f)).
Proof.
  induction bounds as [|b bs IH]; intros lo nums fs top H; cbn [reopen_files] in H.
  - destruct nums; [|discriminate]. injection H as <- <-.
    split; auto. split. lia. split. intros f []. split. constructor. intros e _ He. lia.
  - destruct nums as [|n ns]; [discriminate|].
    destruct (lo <? b) eqn:Elo; [|discriminate].
    destruct (reopen_files b bs ns pend) as [[fs0 top0]|] eqn:ER; [|discriminate].
    injection H as <- <-.
    destruct (IH b ns fs0 top0 ER) as (I1 & I2 & I3 & I4 & I5).
    split. cbn [map fnum]. f_equal. exact I1.
    split. lia.
    split; [|split].
    + intros f [<-|Hf].
      * cbn [fents]. split. eauto. intros e He. apply chunk_In in He. split. apply He. lia.
      * destruct (I3 f Hf) as [Ha Hb]. split; auto. intros e He. destruct (Hb e He). split; auto. lia.
    + constructor; auto. apply Forall_forall. intros g Hg a c Ha Hc. cbn [fents] in Ha.
      apply chunk_In in Ha. destruct (I3 g Hg) as [_ Hb]. destruct (Hb c Hc). lia.
    + intros e He Hr. destruct (N.le_gt_cases (es e) b) as [Hle|Hgt].
      * exists (mkF n (chunk lo b pend)). split. left; auto. cbn [fents]. apply chunk_In. split; auto. lia.
      * destruct (I5 e He) as (f & Hf1 & Hf2). lia. exists f. split; auto. right; auto.
Qed.

Lemma forallb_In {A} (P : A -> bool) l x : forallb P l = true -> In x l -> P x = true.
Proof. intros H. rewrite forallb_forall in H. auto. Qed.

Definition nonempty_file (f : file) : bool := match fents f with [] => false | _ => true end.

Lemma nonempty_file_iff f : nonempty_file f = true <-> fents f <> [].
Proof. unfold nonempty_file. destruct (fents f); split; intros; congruence. Qed.

Definition reopen_state (s : state) (fs : list file) (top nf : N) : state :=
  mkS (filter (fun e => top <? es e) (pending_entries ucmp s)) None
      (set_level (levels s) 0 (add_files ucmp (level_files (levels s) 0) (filter nonempty_file fs)))
      (last_seq s) [] nf (hist s).

Lemma reopen_inv s bounds nums nf s' :
  do_reopen ucmp s bounds nums nf = Some s' ->
  exists fs top, reopen_files 0 bounds nums (pending_entries ucmp s) = Some (fs, top) /\
    (forall n, In n nums -> n < nf /\ forall j g, In g (level_files (levels s) j) -> fnum g < n) /\
    strictly_increasing nums = true /\
    (forall j g, In g (level_files (levels s) j) -> fnum g < nf) /\ s' = reopen_state s fs top nf.
Proof.
  unfold do_reopen.
  destruct (forallb (fun n => forallb (fun f => fnum f <? n) (concat (levels s))) nums
            && strictly_increasing nums && forallb (fun n => n <? nf) nums
            && forallb (fun f => fnum f <? nf) (concat (levels s))
            && forallb (fun b => b <=? last_seq s) bounds) eqn:G; [|discriminate].
  destruct (reopen_files 0 bounds nums (pending_entries ucmp s)) as [[fs top]|] eqn:ER; [|discriminate].
  intros H; injection H as <-.
  apply andb_true_iff in G. destruct G as [G G5].
  apply andb_true_iff in G. destruct G as [G G4].
  apply andb_true_iff in G. destruct G as [G G3].
  apply andb_true_iff in G. destruct G as [G1 G2].
  exists fs, top. split; auto. split; [|split; [|split]]; auto.
  - intros n Hn. pose proof (forallb_In _ _ _ G1 Hn) as H1. pose proof (forallb_In _ _ _ G3 Hn) as H3.
    cbn beta in H1, H3. split. lia.
    intros j g Hg. assert (Hc: In g (concat (levels s))) by (apply In_concat_levels; eauto).
    pose proof (forallb_In _ _ _ H1 Hc) as H4. cbn beta in H4. lia.
  - intros j g Hg. assert (Hc: In g (concat (levels s))) by (apply In_concat_levels; eauto).
    pose proof (forallb_In _ _ _ G4 Hc) as H4. cbn beta in H4. lia.
Qed.

Lemma reopen_same s bounds nums nf s' : do_reopen ucmp s bounds nums nf = Some s' ->
  last_seq s' = last_seq s /\ snaps s' = [] /\ hist s' = hist s.
Proof.
  intros H. apply reopen_inv in H. destruct H as (fs & top & _ & _ & _ & _ & ->). cbn. auto.
Qed.

Lemma reopen_level_files s fs top nf i g :
  (0 < length (levels s))%nat ->
  (In g (level_files (levels (reopen_state s fs top nf)) i) <->
   (i = 0%nat /\ In g fs /\ fents g <> []) \/ In g (level_files (levels s) i)).
Proof.
  intros Hl. unfold reopen_state. cbn [levels]. rewrite level_files_set by auto.
  destruct (i =? 0)%nat eqn:E.
  - apply Nat.eqb_eq in E. subst i. rewrite add_files_In, filter_In, nonempty_file_iff. tauto.
  - apply Nat.eqb_neq in E. split; auto. intros [(H & _)|H]; auto. congruence.
Qed.

Lemma reopen_entries_sub s bounds nums nf fs top e :
  SInv s -> reopen_files 0 bounds nums (pending_entries ucmp s) = Some (fs, top) ->
  In e (all_entries (reopen_state s fs top nf)) -> In e (all_entries s).
Proof.
  intros HI ER.
  destruct (reopen_files_spec _ _ _ _ _ _ ER) as (I1 & I2 & I3 & I4 & I5).
  assert (Hl: (0 < length (levels s))%nat). { rewrite (si_len _ _ HI). unfold NUM_LEVELS. lia. }
  rewrite !all_entries_In.
  intros [H|[H|(i & f & H1 & H2)]].
  - unfold reopen_state in H. cbn [mem] in H. apply filter_In in H. destruct H as [H _].
    apply pending_In in H. tauto.
  - destruct H.
  - apply reopen_level_files in H1; auto. destruct H1 as [(_ & Hf & _)|H1].
    + destruct (I3 f Hf) as [_ Hb]. destruct (Hb e H2) as [Hp _]. apply pending_In in Hp. tauto.
    + right; right; eauto.
Qed.

Lemma reopen_state_SInv s bounds nums nf fs top :
  SInv s -> reopen_files 0 bounds nums (pending_entries ucmp s) = Some (fs, top) ->
  (forall n, In n nums -> n < nf /\ forall j g, In g (level_files (levels s) j) -> fnum g < n) ->
  strictly_increasing nums = true ->
  (forall j g, In g (level_files (levels s) j) -> fnum g < nf) -> SInv (reopen_state s fs top nf).
Proof.
  intros HI ER Hn Hinc Hnf.
  pose proof (fun e => reopen_entries_sub s bounds nums nf fs top e HI ER) as Hsub.
  destruct (reopen_files_spec _ _ _ _ _ _ ER) as (I1 & I2 & I3 & I4 & I5).
  assert (Hl: (0 < length (levels s))%nat). { rewrite (si_len _ _ HI). unfold NUM_LEVELS. lia. }
  pose proof (pending_Srt s HI) as SP.
  assert (Hlf := fun i g => reopen_level_files s fs top nf i g Hl).
  assert (Hpend: forall e, In e (pending_entries ucmp s) -> at_place s PMem e \/ at_place s PImm e).
  { intros e He. apply pending_In in He. destruct He; [right|left]; auto. }
  assert (Hnum: forall f, In f fs -> fnum f < nf /\ forall j g, In g (level_files (levels s) j) -> fnum g < fnum f).
  { intros f Hf. apply Hn. rewrite <- I1. apply in_map; auto. }
  assert (HFN: ForallOrdPairs (fun f g => fnum f < fnum g) fs).
  { apply -> (FOP_map fnum N.lt fs). rewrite I1. apply si_FOP; auto. }
  set (L0 := level_files (levels s) 0) in *.
  set (s' := reopen_state s fs top nf) in *.
  assert (Hpl: forall p e, at_place s' p e ->
            (p = PMem /\ In e (pending_entries ucmp s) /\ top < es e) \/
            (exists f, p = PF0 (fnum f) /\ In f fs /\ In e (fents f)) \/
            (p <> PMem /\ p <> PImm /\ at_place s p e)).
  { intros p e Hp. destruct p as [| |n|i].
    - left. change (In e (filter (fun e => top <? es e) (pending_entries ucmp s))) in Hp.
      apply filter_In in Hp. destruct Hp as [Hp1 Hp2]. repeat split; auto. lia.
    - destruct Hp.
    - destruct Hp as (f & Hf & Hn' & He). apply Hlf in Hf. destruct Hf as [(_ & Hf & _)|Hf].
      + right; left. exists f. subst n. auto.
      + right; right. split. discriminate. split. discriminate. exists f. auto.
    - destruct Hp as (Hi & f & Hf & He). apply Hlf in Hf. destruct Hf as [(Hi' & _)|Hf].
      + lia.
      + right; right. split. discriminate. split. discriminate. split; auto. exists f. auto. }
  constructor.
  - unfold s', reopen_state. cbn [levels]. rewrite set_level_length. apply HI.
  - unfold s', reopen_state. cbn [mem]. apply Srt_filter. exact SP.
  - apply Srt_nil.
  - intros i f Hf. apply Hlf in Hf. destruct Hf as [(_ & Hf & Hne)|Hf].
    + split; auto. destruct (I3 f Hf) as [(l & b & ->) _]. unfold chunk. apply Srt_filter. exact SP.
    + eapply (si_fok _ _ HI); eauto.
  - intros i Hi. unfold s', reopen_state. cbn [levels]. rewrite level_files_set_neq by lia.
    apply (si_lsort _ _ HI); auto.
  - intros p p' o m Hlt Ho Hm Hk.
    apply Hpl in Ho. apply Hpl in Hm.
    destruct Ho as [(-> & Ho & Hto)|[(f & -> & Hf & Ho)|(Hp1 & Hp2 & Ho)]];
      destruct Hm as [(-> & Hm & Htm)|[(g & -> & Hg & Hm)|(Hq1 & Hq2 & Hm)]].
    + destruct Hlt.
    + destruct (I3 g Hg) as [_ Hb]. destruct (Hb m Hm). lia.
    + destruct (Hpend o Ho) as [Ho'|Ho'].
      * apply (si_rec _ _ HI PMem p' o m); auto; try (destruct p'; try congruence; exact I).
      * apply (si_rec _ _ HI PImm p' o m); auto; try (destruct p'; try congruence; exact I).
    + destruct Hlt.
    + cbn in Hlt. pose proof (FOP_conj _ _ _ HFN I4) as HC.
      destruct (ForallOrdPairs_In HC f g Hf Hg) as [E|[[E1 E2]|[E1 E2]]].
      * subst g. lia.
      * lia.
      * apply (E2 m o); auto.
    + destruct (I3 f Hf) as [_ Hb]. destruct (Hb o Ho) as [Ho' _].
      destruct (Hpend o Ho') as [Ho''|Ho''].
      * apply (si_rec _ _ HI PMem p' o m); auto; try (destruct p'; try congruence; exact I).
      * apply (si_rec _ _ HI PImm p' o m); auto; try (destruct p'; try congruence; exact I).
    + destruct p; try congruence; destruct Hlt.
    + destruct p as [| |n|i]; try congruence.
      * cbn in Hlt. destruct Ho as (f0 & Hf0 & Hn0 & _).
        pose proof (proj2 (Hnum g Hg) _ _ Hf0). lia.
      * destruct Hlt.
    + eapply (si_rec _ _ HI); eauto.
  - intros e He. apply Hsub in He. apply (si_seq _ _ HI); auto.
  - intros i f Hf. apply Hlf in Hf. unfold s', reopen_state. cbn [next_file].
    destruct Hf as [(_ & Hf & _)|Hf].
    + apply Hnum; auto.
    + apply (Hnf i f Hf).
  - unfold s', reopen_state. cbn [levels]. apply ND_set_level; auto. apply HI.
    + eapply Permutation_NoDup. symmetry. apply Permutation_map. apply add_files_Perm.
      rewrite map_app. apply NoDup_app_iff. split; [|split].
      * apply NoDup_map_filter. apply NoDup_nums_FOP.
        eapply FOP_impl; [|exact HFN]. intros x y _ _ H. cbn beta in H. lia.
      * apply (si_nd _ _ HI).
      * intros n H1 H2. apply in_map_iff in H1. destruct H1 as (f & <- & Hf).
        apply filter_In in Hf. destruct Hf as [Hf _].
        apply in_map_iff in H2. destruct H2 as (g & Hgn & Hg).
        pose proof (proj2 (Hnum f Hf) _ _ Hg). lia.
    + intros f Hf. apply add_files_In in Hf. destruct Hf as [Hf|Hf]; auto.
      right. intros j g _ Hg. apply filter_In in Hf. destruct Hf as [Hf _].
      pose proof (proj2 (Hnum f Hf) _ _ Hg). lia.
  - intros q [].
  - reflexivity.
Qed.

Lemma reopen_SInv s bounds nums nf s' : SInv s -> do_reopen ucmp s bounds nums nf = Some s' -> SInv s'.
Proof.
  intros HI H. apply reopen_inv in H. destruct H as (fs & top & ER & Hn & Hinc & Hnf & ->).
  eapply reopen_state_SInv; eauto.
Qed.

Lemma reopen_all_entries s bounds nums nf s' e : SInv s -> seqs_pos s -> do_reopen ucmp s bounds nums nf = Some s' ->
  (In e (all_entries s') <-> In e (all_entries s)).
Proof.
  intros HI HP H. apply reopen_inv in H. destruct H as (fs & top & ER & Hn & Hinc & Hnf & ->).
  split. eapply reopen_entries_sub; eauto.
  intros He. pose proof (HP e He) as Hpos.
  destruct (reopen_files_spec _ _ _ _ _ _ ER) as (I1 & I2 & I3 & I4 & I5).
  assert (Hl: (0 < length (levels s))%nat). { rewrite (si_len _ _ HI). unfold NUM_LEVELS. lia. }
  assert (Hpe: In e (pending_entries ucmp s) -> In e (all_entries (reopen_state s fs top nf))).
  { intros Hp. apply all_entries_In. destruct (N.lt_ge_cases top (es e)) as [Ht|Ht].
    - left. unfold reopen_state. cbn [mem]. apply filter_In. split; auto. lia.
    - right; right. destruct (I5 e Hp) as (f & Hf1 & Hf2). lia.
      exists 0%nat, f. split; auto. apply reopen_level_files; auto. left. repeat split; auto.
      intros E. rewrite E in Hf2. destruct Hf2. }
  apply all_entries_In in He. destruct He as [He|[He|(i & f & H1 & H2)]].
  - apply Hpe. apply pending_In. auto.
  - apply Hpe. apply pending_In. auto.
  - apply all_entries_In. right; right. exists i, f. split; auto.
    apply reopen_level_files; auto.
Qed.

End Flush.
