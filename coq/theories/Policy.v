(* Policy.v -- exact replicas of lcdb's compaction INPUT-SELECTION code
   (src/version_set.c) over the types of Engine.v:

     ldb_version_get_overlapping_inputs   -> overlapping_inputs
     ldb_versions_get_range / get_range2  -> get_range
     find_largest_key                     -> find_largest_key
     find_smallest_boundary_file          -> find_smallest_boundary_file
     add_boundary_inputs                  -> boundary_inputs
     ldb_versions_setup_other_inputs      -> setup_other_inputs
     ldb_versions_compact_range           -> manual_inputs
     ldb_versions_pick_compaction         -> picked_inputs
     ldb_compaction_is_trivial_move       -> is_trivial_move
     some_file_overlaps_range             -> overlap_in_level
     ldb_version_pick_level_for_memtable_output -> pick_level_for_memtable_output

   Sizes are not modelled.  Every decision of the C code that depends on file
   sizes is a free parameter: [expand] (the byte limit of the level-L expansion),
   [keep] (where the manual compaction truncates its input list), the picked
   seed file (compaction score / compact pointer / seek counters), [gp] (the
   grandparent-overlap test of the memtable output level).

   A file's metadata is derived from its contents as in Engine.v
   ([fsmallest]/[flargest]); files without entries do not exist in lcdb and are
   skipped by every scan.  Definitions only (executable, extracted: tie K2,
   ocaml/cmd_policy.ml); proofs are in PolicyProofs.v. *)
From LCDB Require Export Base Engine.
Local Open Scope N_scope.

Section Policy.
Variable ucmp : bytes -> bytes -> comparison.

Notation ueq := (Engine.ueq ucmp).
Notation ult := (Engine.ult ucmp).
Notation ilt := (Engine.ilt ucmp).
Notation icmp := (Engine.icmp ucmp).

(* ldb_compare(...) > 0, literally *)
Definition ugt (a b : bytes) : bool := match ucmp a b with Gt => true | _ => false end.
Definition igt (a b : entry) : bool := match icmp a b with Gt => true | _ => false end.

(* ---------------------------------------------------------------- get_overlapping_inputs *)
(* one pass of the for-loop from i = 0 with the current (user_begin, user_end):
   either the loop runs to the end (the collected inputs), or a level-0 file that
   was just pushed extends the range: the inputs are reset and the scan restarts
   with the widened range *)
Inductive scan_result :=
| ScanDone (inputs : list file)
| ScanRestart (user_begin user_end : option bytes).

Definition before_begin (ub : option bytes) (file_limit : bytes) : bool :=
  match ub with Some u => ult file_limit u | None => false end.   (* begin != NULL && compare(file_limit, user_begin) < 0 *)
Definition after_end (ue : option bytes) (file_start : bytes) : bool :=
  match ue with Some u => ugt file_start u | None => false end.   (* end != NULL && compare(file_start, user_end) > 0 *)

Fixpoint ov_scan (lvl0 : bool) (ub ue : option bytes) (fs : list file) : scan_result :=
  match fs with
  | [] => ScanDone []
  | f :: r =>
      match fsmallest f, flargest f with
      | Some a, Some b =>
          let file_start := ek a in
          let file_limit := ek b in
          if before_begin ub file_limit then ov_scan lvl0 ub ue r          (* completely before: skip *)
          else if after_end ue file_start then ov_scan lvl0 ub ue r        (* completely after: skip *)
          else if lvl0 && before_begin ub file_start then ScanRestart (Some file_start) ue
          else if lvl0 && after_end ue file_limit then ScanRestart ub (Some file_limit)
          else match ov_scan lvl0 ub ue r with
               | ScanDone l => ScanDone (f :: l)
               | x => x
               end
      | _, _ => ov_scan lvl0 ub ue r
      end
  end.

Fixpoint ov_loop (fuel : nat) (lvl0 : bool) (fs : list file) (ub ue : option bytes) : list file :=
  match fuel with
  | O => []
  | S n =>
      match ov_scan lvl0 ub ue fs with
      | ScanDone l => l
      | ScanRestart ub' ue' => ov_loop n lvl0 fs ub' ue'
      end
  end.

(* every restart moves user_begin to the smaller start of some file or user_end to
   the larger limit of some file: at most 2 * |files| restarts
   (PolicyProofs.overlapping_inputs_fuel) *)
Definition ov_fuel (fs : list file) : nat := 2 * length fs + 1.

Definition overlapping_inputs (lvl0 : bool) (files : list file) (begin end_ : option bytes) : list file :=
  ov_loop (ov_fuel files) lvl0 files begin end_.

(* ---------------------------------------------------------------- get_range *)
Fixpoint range_from (small large : entry) (fs : list file) : entry * entry :=
  match fs with
  | [] => (small, large)
  | f :: r =>
      match fsmallest f, flargest f with
      | Some a, Some b =>
          range_from (if ilt a small then a else small) (if igt b large then b else large) r
      | _, _ => range_from small large r
      end
  end.

Fixpoint get_range (inputs : list file) : option (entry * entry) :=
  match inputs with
  | [] => None
  | f :: r =>
      match fsmallest f, flargest f with
      | Some a, Some b => Some (range_from a b r)
      | _, _ => get_range r
      end
  end.

Definition find_largest_key (files : list file) : option entry :=
  match get_range files with Some (_, large) => Some large | None => None end.

(* ---------------------------------------------------------------- boundary files *)
(* minimum file b2 = (l2, u2) of the level with l2 > u1 and user_key(l2) = user_key(u1) *)
Fixpoint fsbf_from (res : option file) (largest_key : entry) (fs : list file) : option file :=
  match fs with
  | [] => res
  | f :: r =>
      match fsmallest f with
      | Some a =>
          if igt a largest_key then
            if ueq (ek a) (ek largest_key) then
              match res with
              | None => fsbf_from (Some f) largest_key r
              | Some g =>
                  match fsmallest g with
                  | Some ga => if ilt a ga then fsbf_from (Some f) largest_key r
                               else fsbf_from res largest_key r
                  | None => fsbf_from (Some f) largest_key r
                  end
              end
            else fsbf_from res largest_key r
          else fsbf_from res largest_key r          (* compare(f->smallest, largest_key) <= 0: continue *)
      | None => fsbf_from res largest_key r
      end
  end.

Definition find_smallest_boundary_file (level_files : list file) (largest_key : entry) : option file :=
  fsbf_from None largest_key level_files.

(* the while(search) loop: the files pushed onto compaction_files *)
Fixpoint boundary_loop (fuel : nat) (level_files : list file) (largest_key : entry) : list file :=
  match fuel with
  | O => []
  | S n =>
      match find_smallest_boundary_file level_files largest_key with
      | Some f =>
          match flargest f with
          | Some k => f :: boundary_loop n level_files k
          | None => [f]
          end
      | None => []
      end
  end.

(* each found file starts after largest_key and becomes the new largest_key, so no
   file is found twice: at most |level_files| iterations find a file
   (PolicyProofs.boundary_loop_fuel) *)
Definition boundary_inputs (level_files chosen : list file) : list file :=
  match find_largest_key chosen with
  | None => chosen
  | Some key => chosen ++ boundary_loop (S (length level_files)) level_files key
  end.

(* ---------------------------------------------------------------- setup_other_inputs *)
Definition is_nil {A} (l : list A) : bool := match l with [] => true | _ => false end.

(* inputs[1] for given inputs[0]: overlapping files of level+1, then their boundary files *)
Definition parent_inputs (filesL1 : list file) (in0 : list file) : list file :=
  match get_range in0 with
  | Some (smallest, largest) =>
      boundary_inputs filesL1
        (overlapping_inputs false filesL1 (Some (ek smallest)) (Some (ek largest)))
  | None => []
  end.

Definition setup_other_inputs (s : state) (L : nat) (in0 : list file) (expand : bool)
  : list file * list file :=
  let filesL := level_files (levels s) L in
  let filesL1 := level_files (levels s) (S L) in
  let inputs0 := boundary_inputs filesL in0 in
  let inputs1 := parent_inputs filesL1 inputs0 in
  match get_range (inputs0 ++ inputs1) with
  | None => (inputs0, inputs1)
  | Some (all_start, all_limit) =>
      if negb (is_nil inputs1) then
        let expanded0 :=
          boundary_inputs filesL
            (overlapping_inputs (L =? 0)%nat filesL (Some (ek all_start)) (Some (ek all_limit))) in
        if (length inputs0 <? length expanded0)%nat && expand then
          let expanded1 := parent_inputs filesL1 expanded0 in
          if (length expanded1 =? length inputs1)%nat then (expanded0, expanded1)
          else (inputs0, inputs1)
        else (inputs0, inputs1)
      else (inputs0, inputs1)
  end.

(* ---------------------------------------------------------------- compact_range (manual) *)
Definition manual_inputs (s : state) (L : nat) (begin end_ : option bytes) (keep : nat) (expand : bool)
  : list file * list file :=
  let filesL := level_files (levels s) L in
  let inputs := overlapping_inputs (L =? 0)%nat filesL begin end_ in
  match inputs with
  | [] => ([], [])                                                (* return NULL *)
  | _ =>
      let inputs' := if (L =? 0)%nat then inputs else firstn keep inputs in
      setup_other_inputs s L inputs' expand
  end.

(* ---------------------------------------------------------------- pick_compaction *)
Definition picked_inputs (s : state) (L : nat) (seed : N) (expand : bool) : list file * list file :=
  let filesL := level_files (levels s) L in
  match find (fun f => fnum f =? seed) filesL with
  | None => ([], [])
  | Some f =>
      let in0 :=
        if (L =? 0)%nat then
          match get_range [f] with
          | Some (smallest, largest) =>
              overlapping_inputs true filesL (Some (ek smallest)) (Some (ek largest))
          | None => []
          end
        else [f] in
      setup_other_inputs s L in0 expand
  end.

Definition is_trivial_move (sel : list file * list file) (grandparents_small : bool) : bool :=
  (length (fst sel) =? 1)%nat && (length (snd sel) =? 0)%nat && grandparents_small.

(* the selection as an Engine.compaction (cuts, output numbers: free) *)
Definition to_compaction (L : nat) (sel : list file * list file) (cuts : list nat) (outs : list N) (nf : N)
  : compaction :=
  mkC L (map fnum (fst sel)) (map fnum (snd sel)) cuts outs nf.

(* ---------------------------------------------------------------- memtable output level *)
(* some_file_overlaps_range with both bounds given *)
Definition overlap_in_level (lvls : list (list file)) (level : nat) (small large : bytes) : bool :=
  let fs := level_files lvls level in
  if (level =? 0)%nat then
    existsb (fun f =>
      match fsmallest f, flargest f with
      | Some a, Some b => negb (ugt small (ek b) || ult large (ek a))   (* !(after_file || before_file) *)
      | _, _ => false
      end) fs
  else
    (* find_file(icmp, files, (small, MAX_SEQUENCE, SEEK)): first file whose largest user key is >= small *)
    match find (fun f => match flargest f with Some b => negb (ult (ek b) small) | None => false end) fs with
    | None => false
    | Some f => match fsmallest f with Some a => negb (ult large (ek a)) | None => false end
    end.

Fixpoint pick_level_loop (fuel : nat) (lvls : list (list file)) (small large : bytes)
                         (gp : nat -> bool) (level : nat) : nat :=
  match fuel with
  | O => level
  | S n =>
      if (level <? MAX_MEM_COMPACT_LEVEL)%nat then
        if overlap_in_level lvls (level + 1) small large then level
        else if (level + 2 <? NUM_LEVELS)%nat && gp level then level       (* too many grandparent bytes *)
        else pick_level_loop n lvls small large gp (S level)
      else level
  end.

Definition pick_level_for_memtable_output (lvls : list (list file)) (small large : bytes)
                                          (gp : nat -> bool) : nat :=
  if overlap_in_level lvls 0 small large then 0%nat
  else pick_level_loop MAX_MEM_COMPACT_LEVEL lvls small large gp 0.

End Policy.
