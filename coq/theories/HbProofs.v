(** HbProofs.v -- data-race freedom from disciplines (property C10).

    lockset_drf, publish_drf, atomic_drf : stand-alone discipline theorems.
    C10_drf_generic : a consistent fact table has only race-free executions.
    All statements quantify over arbitrary (unbounded) executions. *)
Require Import List Arith Bool Lia Relations String.
Import ListNotations.
Require Import LCDB.Hb.

(** * Basic facts about [ev], [holder] *)

Lemma ev_lt : forall (ex : execution) n e, ev ex n = Some e -> n < List.length ex.
Proof.
  intros ex n e H. unfold ev in H. apply nth_error_Some. rewrite H. discriminate.
Qed.

Lemma ev_some : forall (ex : execution) n, n < List.length ex -> exists e, ev ex n = Some e.
Proof.
  intros ex n H. unfold ev. destruct (nth_error ex n) as [e|] eqn:E.
  - exists e. reflexivity.
  - apply nth_error_None in E. lia.
Qed.

Lemma firstn_S_ev : forall (ex : execution) n e,
  ev ex n = Some e -> firstn (S n) ex = firstn n ex ++ [e].
Proof.
  unfold ev. induction ex as [|a ex IH]; intros n e H.
  - destruct n; discriminate.
  - destruct n as [|n].
    + cbn in H. inversion H; subst. reflexivity.
    + cbn in H. change (firstn (S (S n)) (a :: ex)) with (a :: firstn (S n) ex).
      rewrite (IH n e H). reflexivity.
Qed.

Lemma holder_S : forall ex m n e,
  ev ex n = Some e -> holder ex m (S n) = step m (holder ex m n) e.
Proof.
  intros ex m n e H. unfold holder. rewrite (firstn_S_ev ex n e H), fold_left_app. reflexivity.
Qed.

Lemma is_lock_on_true : forall m e, is_lock_on m e = true -> e_kind e = Lock /\ e_loc e = m.
Proof.
  intros m e H. unfold is_lock_on in H. destruct (e_kind e); try discriminate.
  apply Nat.eqb_eq in H. auto.
Qed.

Lemma is_unlock_on_true : forall m e, is_unlock_on m e = true -> e_kind e = Unlock /\ e_loc e = m.
Proof.
  intros m e H. unfold is_unlock_on in H. destruct (e_kind e); try discriminate.
  apply Nat.eqb_eq in H. auto.
Qed.

Lemma is_lock_on_intro : forall m e, e_kind e = Lock -> e_loc e = m -> is_lock_on m e = true.
Proof. intros m e Hk Hl. unfold is_lock_on. rewrite Hk. apply Nat.eqb_eq. exact Hl. Qed.

Lemma unlock_not_lock : forall m m' e, is_unlock_on m e = true -> is_lock_on m' e = false.
Proof.
  intros m m' e H. apply is_unlock_on_true in H. destruct H as [Hk _].
  unfold is_lock_on. rewrite Hk. reflexivity.
Qed.

Lemma access_not_unlock : forall m e, is_access e = true -> is_unlock_on m e = false.
Proof.
  intros m e H. unfold is_access, kind_is_access in H. unfold is_unlock_on.
  destruct (e_kind e); try discriminate; reflexivity.
Qed.

(** * Relations *)

Lemma hb1_lt : forall ex i j, hb1 ex i j -> i < j.
Proof. intros ex i j [[H _]|[H _]]; exact H. Qed.

Lemma hb_lt : forall ex i j, hb ex i j -> i < j.
Proof.
  intros ex i j H. induction H as [i j H|i k j _ IH1 _ IH2].
  - eapply hb1_lt; eauto.
  - lia.
Qed.

Lemma sb_hb : forall ex i j ei ej,
  i < j -> ev ex i = Some ei -> ev ex j = Some ej -> e_tid ei = e_tid ej -> hb ex i j.
Proof.
  intros ex i j ei ej Hlt Hi Hj Ht. apply t_step. left. split; [exact Hlt|].
  exists ei, ej. auto.
Qed.

Lemma hb_trans : forall ex i k j, hb ex i k -> hb ex k j -> hb ex i j.
Proof. intros ex i k j H1 H2. eapply t_trans; eauto. Qed.

Lemma race_sym : forall ex i j, race ex i j -> race ex j i.
Proof.
  intros ex i j (ei & ej & Hi & Hj & Hne & (Ai & Aj & Hl & Ht & Hw & Hm) & Hn1 & Hn2).
  exists ej, ei. repeat split; auto; tauto.
Qed.

(** * Least index satisfying a boolean predicate *)

Lemma least_from : forall (P : nat -> bool) d a,
  P (a + d) = true ->
  exists n, a <= n <= a + d /\ P n = true /\ forall k, a <= k < n -> P k = false.
Proof.
  intros P d. induction d as [|d IH]; intros a H.
  - exists a. rewrite Nat.add_0_r in H. repeat split; auto; lia.
  - destruct (P a) eqn:Pa.
    + exists a. repeat split; auto; lia.
    + destruct (IH (S a)) as (n & Hn & Pn & Hmin).
      { replace (S a + d) with (a + S d) by lia. exact H. }
      exists n. repeat split; auto; try lia.
      intros k Hk. destruct (Nat.eq_dec k a) as [->|Hne]; [exact Pa|]. apply Hmin. lia.
Qed.

(** * Mutexes: who unlocked, who locked *)

Lemma find_unlock : forall ex m t, wf_mutex ex ->
  forall a b, a <= b -> b <= List.length ex ->
  holder ex m a = Some t -> holder ex m b <> Some t ->
  exists u eu, a <= u < b /\ ev ex u = Some eu /\ is_unlock_on m eu = true /\ e_tid eu = t.
Proof.
  intros ex m t WF a b Hab. induction Hab as [|b' Hab IH]; intros Hlen Ha Hb.
  - contradiction.
  - destruct (ev_some ex b') as [e He]; [lia|].
    rewrite (holder_S ex m b' e He) in Hb.
    assert (Hdec : holder ex m b' = Some t \/ holder ex m b' <> Some t).
    { destruct (holder ex m b') as [t'|]; [|right; discriminate].
      destruct (Nat.eq_dec t' t) as [->|Hne]; [left; reflexivity|right; congruence]. }
    destruct Hdec as [Hh|Hh].
    + unfold step in Hb. destruct (is_lock_on m e) eqn:Hl.
      * apply is_lock_on_true in Hl. destruct Hl as [Hk Hm].
        destruct (WF b' e He) as [W1 _]. specialize (W1 Hk). rewrite Hm in W1. congruence.
      * destruct (is_unlock_on m e) eqn:Hu.
        -- pose proof Hu as Hu'. apply is_unlock_on_true in Hu'. destruct Hu' as [Hk Hm].
           destruct (WF b' e He) as [_ W2]. specialize (W2 Hk). rewrite Hm in W2.
           exists b', e. repeat split; auto; try lia. congruence.
        -- congruence.
    + destruct (IH ltac:(lia) Ha Hh) as (u & eu & Hu & Heu & Hun & Htid).
      exists u, eu. repeat split; auto; lia.
Qed.

Lemma find_lock : forall ex m t,
  forall a b, a <= b -> b <= List.length ex ->
  holder ex m a <> Some t -> holder ex m b = Some t ->
  exists l el, a <= l < b /\ ev ex l = Some el /\ is_lock_on m el = true /\ e_tid el = t.
Proof.
  intros ex m t a b Hab. induction Hab as [|b' Hab IH]; intros Hlen Ha Hb.
  - contradiction.
  - destruct (ev_some ex b') as [e He]; [lia|].
    rewrite (holder_S ex m b' e He) in Hb.
    assert (Hdec : holder ex m b' = Some t \/ holder ex m b' <> Some t).
    { destruct (holder ex m b') as [t'|]; [|right; discriminate].
      destruct (Nat.eq_dec t' t) as [->|Hne]; [left; reflexivity|right; congruence]. }
    destruct Hdec as [Hh|Hh].
    + destruct (IH ltac:(lia) Ha Hh) as (l & el & Hl & Hel & Hlk & Htid).
      exists l, el. repeat split; auto; lia.
    + unfold step in Hb. destruct (is_lock_on m e) eqn:Hl.
      * exists b', e. repeat split; auto; try lia. congruence.
      * destruct (is_unlock_on m e); congruence.
Qed.

(** An unlock happens before every later lock of the same mutex
    (sw only links it to the NEXT lock; the rest follows by induction along
    the alternation of the mutex). *)
Lemma unlock_hb_lock : forall ex m, wf_mutex ex ->
  forall d u l eu el, l - u <= d -> u < l ->
  ev ex u = Some eu -> ev ex l = Some el ->
  is_unlock_on m eu = true -> is_lock_on m el = true -> hb ex u l.
Proof.
  intros ex m WF d. induction d as [|d IH]; intros u l eu el Hd Hul Hu Hl Hun Hlk.
  - lia.
  - pose (P := fun k => match ev ex k with Some e => is_lock_on m e | None => false end).
    destruct (least_from P (l - S u) (S u)) as (n & Hn & Pn & Hmin).
    { replace (S u + (l - S u)) with l by lia. unfold P. rewrite Hl. exact Hlk. }
    replace (S u + (l - S u)) with l in Hn by lia.
    unfold P in Pn. destruct (ev ex n) as [en|] eqn:Hen; [|discriminate].
    pose proof (is_unlock_on_true m eu Hun) as [Hku Hmu].
    pose proof (is_lock_on_true m en Pn) as [Hkn Hmn].
    assert (Hsw : hb ex u n).
    { apply t_step. right. split; [lia|]. exists eu, en. repeat split; auto.
      left. unfold sw_mutex. repeat split; auto; try congruence.
      intros k ek Hk Hek. rewrite Hmu.
      specialize (Hmin k ltac:(lia)). unfold P in Hmin. rewrite Hek in Hmin. exact Hmin. }
    destruct (Nat.eq_dec n l) as [->|Hnl]; [exact Hsw|].
    assert (Hh1 : holder ex m (S n) = Some (e_tid en)).
    { rewrite (holder_S ex m n en Hen). unfold step. rewrite Pn. reflexivity. }
    pose proof (is_lock_on_true m el Hlk) as [Hkl Hml].
    assert (Hh2 : holder ex m l <> Some (e_tid en)).
    { destruct (WF l el Hl) as [W1 _]. specialize (W1 Hkl). rewrite Hml in W1. congruence. }
    pose proof (ev_lt ex l el Hl) as Hlen.
    destruct (find_unlock ex m (e_tid en) WF (S n) l ltac:(lia) ltac:(lia) Hh1 Hh2)
      as (u' & eu' & Hu' & Heu' & Hun' & Htid').
    assert (Hsb : hb ex n u').
    { apply (sb_hb ex n u' en eu'); auto; try lia. }
    assert (Hrest : hb ex u' l).
    { apply (IH u' l eu' el); auto; lia. }
    eapply hb_trans; [exact Hsw|]. eapply hb_trans; [exact Hsb|exact Hrest].
Qed.

(** The lockset argument: two accesses made while holding the same mutex by
    different threads are ordered. *)
Lemma lock_orders : forall ex m i j ei ej, wf_mutex ex ->
  i < j -> ev ex i = Some ei -> ev ex j = Some ej -> is_access ei = true ->
  holder ex m i = Some (e_tid ei) -> holder ex m j = Some (e_tid ej) ->
  e_tid ei <> e_tid ej -> hb ex i j.
Proof.
  intros ex m i j ei ej WF Hij Hi Hj Hacc Hhi Hhj Hne.
  pose proof (ev_lt ex j ej Hj) as Hlen.
  assert (Hhj' : holder ex m j <> Some (e_tid ei)) by congruence.
  destruct (find_unlock ex m (e_tid ei) WF i j ltac:(lia) ltac:(lia) Hhi Hhj')
    as (u & eu & Hu & Heu & Hun & Htu).
  assert (Hiu : i < u).
  { destruct (Nat.eq_dec i u) as [->|Hx]; [|lia].
    rewrite Hi in Heu. inversion Heu; subst eu.
    rewrite (access_not_unlock m ei Hacc) in Hun. discriminate. }
  assert (Hh : holder ex m (S u) <> Some (e_tid ej)).
  { rewrite (holder_S ex m u eu Heu). unfold step.
    rewrite (unlock_not_lock m m eu Hun), Hun. discriminate. }
  destruct (find_lock ex m (e_tid ej) (S u) j ltac:(lia) ltac:(lia) Hh Hhj)
    as (l & el & Hl & Hel & Hlk & Htl).
  assert (H1 : hb ex i u) by (apply (sb_hb ex i u ei eu); auto).
  assert (H2 : hb ex u l).
  { apply (unlock_hb_lock ex m WF (l - u) u l eu el); auto; lia. }
  assert (H3 : hb ex l j) by (apply (sb_hb ex l j el ej); auto; lia).
  eapply hb_trans; [exact H1|]. eapply hb_trans; [exact H2|exact H3].
Qed.

(** * Publication: release store, acquire load *)

Lemma chain_hb : forall ex i w wr r j ei ew ewr er ej, wf_rf ex ->
  ev ex i = Some ei -> ev ex w = Some ew -> ev ex wr = Some ewr ->
  ev ex r = Some er -> ev ex j = Some ej ->
  e_tid ei = e_tid ew -> i < w -> (wr = w \/ hb ex w wr) ->
  e_kind er = Read -> e_rf er = Some wr ->
  is_rel (e_mo ewr) = true -> is_acq (e_mo er) = true ->
  r < j -> e_tid er = e_tid ej -> hb ex i j.
Proof.
  intros ex i w wr r j ei ew ewr er ej WR Hi Hw Hwr Hr Hj Ht Hiw Hchain Hkr Hrf Hrel Hacq Hrj Htr.
  destruct (WR r er wr Hr Hkr Hrf) as (Hlt & ewr' & Hwr' & Hkw & Hloc).
  rewrite Hwr in Hwr'. inversion Hwr'; subst ewr'.
  assert (H1 : hb ex i w) by (apply (sb_hb ex i w ei ew); auto).
  assert (H2 : hb ex i wr).
  { destruct Hchain as [->|Hh]; [exact H1|]. eapply hb_trans; eauto. }
  assert (H3 : hb ex wr r).
  { apply t_step. right. split; [exact Hlt|]. exists ewr, er. repeat split; auto.
    right. left. unfold sw_rf. repeat split; auto. }
  assert (H4 : hb ex r j) by (apply (sb_hb ex r j er ej); auto).
  eapply hb_trans; [exact H2|]. eapply hb_trans; [exact H3|exact H4].
Qed.

(** * The three stand-alone theorems *)

Theorem lockset_drf : forall ex init x m,
  wf_mutex ex -> guarded_by ex init x m ->
  forall i j ei, ev ex i = Some ei -> e_loc ei = x ->
    init i = false -> init j = false -> ~ race ex i j.
Proof.
  intros ex init x m WF G.
  assert (Hlt : forall i j ei, ev ex i = Some ei -> e_loc ei = x ->
            init i = false -> init j = false -> i < j -> ~ race ex i j).
  { intros i j ei Hi Hx Ii Ij Hij (ei' & ej & Hi' & Hj & Hne & (Ai & Aj & Hl & Ht & Hw & Hm) & Hn1 & Hn2).
    rewrite Hi in Hi'. inversion Hi'; subst ei'.
    apply Hn1.
    apply (lock_orders ex m i j ei ej WF Hij Hi Hj Ai);
      [apply (G i ei); auto | apply (G j ej); auto; congruence | exact Ht]. }
  intros i j ei Hi Hx Ii Ij R.
  pose proof R as (ei' & ej & Hi' & Hj & Hne & (Ai & Aj & Hl & _) & _).
  rewrite Hi in Hi'. inversion Hi'; subst ei'.
  destruct (Nat.lt_trichotomy i j) as [Hlt'|[Heq|Hgt]].
  - exact (Hlt i j ei Hi Hx Ii Ij Hlt' R).
  - contradiction.
  - apply (Hlt j i ej); auto; try congruence. apply race_sym. exact R.
Qed.

Theorem publish_drf : forall ex fld t0 w,
  wf_rf ex -> published_object ex fld t0 w ->
  forall i j ei, ev ex i = Some ei -> fld (e_loc ei) = true -> ~ race ex i j.
Proof.
  intros ex fld t0 w WR [(ew & Hw & Htw & Hkw & Hrelw) PO].
  assert (Hlt : forall i j ei, ev ex i = Some ei -> fld (e_loc ei) = true -> i < j -> ~ race ex i j).
  { intros i j ei Hi Hf Hij (ei' & ej & Hi' & Hj & Hne & (Ai & Aj & Hl & Ht & Hwr & Hm) & Hn1 & Hn2).
    rewrite Hi in Hi'. inversion Hi'; subst ei'.
    assert (Hfj : fld (e_loc ej) = true) by congruence.
    destruct (PO i ei Hi Ai Hf) as [[Hti Hci]|[Hki Hri]];
      destruct (PO j ej Hj Aj Hfj) as [[Htj Hcj]|[Hkj Hrj]].
    - congruence.
    - (* i by the creator, j a reader *)
      assert (Hiw : i < w).
      { destruct Hci as [Hc|Hc]; [exact Hc|]. destruct Hwr as [Hx|Hx]; congruence. }
      destruct Hrj as (r & er & wr & ewr & Hrj & Her & Htr & Hkr & Hacq & Hrf & Hewr & Hrel & Hch).
      apply Hn1. apply (chain_hb ex i w wr r j ei ew ewr er ej); auto. congruence.
    - (* i a reader, j by the creator: impossible in the list order *)
      assert (Hjw : j < w).
      { destruct Hcj as [Hc|Hc]; [exact Hc|]. destruct Hwr as [Hx|Hx]; congruence. }
      destruct Hri as (r & er & wr & ewr & Hri & Her & Htr & Hkr & Hacq & Hrf & Hewr & Hrel & Hch).
      destruct (WR r er wr Her Hkr Hrf) as (Hlt & _).
      assert (w <= wr). { destruct Hch as [->|Hh]; [lia|]. apply hb_lt in Hh. lia. }
      lia.
    - destruct Hwr as [Hx|Hx]; congruence. }
  intros i j ei Hi Hf R.
  pose proof R as (ei' & ej & Hi' & Hj & Hne & (Ai & Aj & Hl & _) & _).
  rewrite Hi in Hi'. inversion Hi'; subst ei'.
  destruct (Nat.lt_trichotomy i j) as [Hlt'|[Heq|Hgt]].
  - exact (Hlt i j ei Hi Hf Hlt' R).
  - contradiction.
  - apply (Hlt j i ej); auto; try congruence. apply race_sym. exact R.
Qed.

Theorem atomic_drf : forall ex x, only_atomic ex x ->
  forall i j ei, ev ex i = Some ei -> e_loc ei = x -> ~ race ex i j.
Proof.
  intros ex x OA i j ei Hi Hx (ei' & ej & Hi' & Hj & Hne & (Ai & Aj & Hl & Ht & Hw & Hm) & _).
  rewrite Hi in Hi'. inversion Hi'; subst ei'.
  pose proof (OA i ei Hi Ai Hx) as H1.
  pose proof (OA j ej Hj Aj ltac:(congruence)) as H2.
  destruct Hm as [Hm|Hm]; rewrite Hm in *; discriminate.
Qed.

(** Fork / join give the ordering that justifies the [GInit] guard in the
    usual case: what a thread did before creating a child happens before
    everything the child does; everything a child did happens before what
    the joiner does after the join. *)
Lemma before_fork_hb : forall ex i f j ei ef ej c,
  ev ex i = Some ei -> ev ex f = Some ef -> ev ex j = Some ej ->
  e_tid ei = e_tid ef -> i < f -> e_kind ef = Fork c -> e_tid ej = c ->
  (forall k ek, k <= f -> ev ex k = Some ek -> e_tid ek <> c) ->
  hb ex i j.
Proof.
  intros ex i f j ei ef ej c Hi Hf Hj Ht Hif Hk Hc Hfresh.
  assert (Hfj : f < j).
  { destruct (Nat.le_gt_cases j f) as [Hle|Hgt]; [|exact Hgt].
    exfalso. exact (Hfresh j ej Hle Hj Hc). }
  pose (P := fun k => match ev ex k with Some e => Nat.eqb (e_tid e) c | None => false end).
  destruct (least_from P (j - S f) (S f)) as (n & Hn & Pn & Hmin).
  { replace (S f + (j - S f)) with j by lia. unfold P. rewrite Hj. apply Nat.eqb_eq. exact Hc. }
  replace (S f + (j - S f)) with j in Hn by lia.
  unfold P in Pn. destruct (ev ex n) as [en|] eqn:Hen; [|discriminate].
  apply Nat.eqb_eq in Pn.
  assert (H1 : hb ex i f) by (apply (sb_hb ex i f ei ef); auto).
  assert (H2 : hb ex f n).
  { apply t_step. right. split; [lia|]. exists ef, en. repeat split; auto.
    right. right. left. exists c. repeat split; auto.
    intros k ek Hkn Hek. destruct (Nat.le_gt_cases k f) as [Hle|Hgt].
    - apply (Hfresh k ek Hle Hek).
    - specialize (Hmin k ltac:(lia)). unfold P in Hmin. rewrite Hek in Hmin.
      apply Nat.eqb_neq in Hmin. exact Hmin. }
  destruct (Nat.eq_dec n j) as [->|Hnj].
  - eapply hb_trans; eauto.
  - assert (H3 : hb ex n j) by (apply (sb_hb ex n j en ej); auto; try lia; congruence).
    eapply hb_trans; [exact H1|]. eapply hb_trans; [exact H2|exact H3].
Qed.

(** * Fact tables *)

Lemma pair_ok_cases : forall a b, pair_ok a b = true ->
  is_init (ac_guard a) = true \/ is_init (ac_guard b) = true \/
  (kind_is_write (ac_kind a) = false /\ kind_is_write (ac_kind b) = false) \/
  (mo_atomic (ac_mo a) = true /\ mo_atomic (ac_mo b) = true) \/
  share_lock a b = true \/ both_tl a b = true \/ same_pub a b = true.
Proof.
  intros a b H. unfold pair_ok in H.
  repeat match goal with
  | Hx : (_ || _) = true |- _ => apply orb_true_iff in Hx; destruct Hx as [Hx|Hx]
  end; auto 10.
  - apply andb_true_iff in H. destruct H as [H1 H2].
    apply negb_true_iff in H1. apply negb_true_iff in H2. auto 10.
  - apply andb_true_iff in H. auto 10.
Qed.

Lemma share_lock_inv : forall a b, share_lock a b = true ->
  exists M, In M (locks_of (ac_guard a)) /\ In M (locks_of (ac_guard b)).
Proof.
  intros a b H. unfold share_lock in H. apply existsb_exists in H.
  destruct H as (M & HinA & H). apply existsb_exists in H. destruct H as (M' & HinB & He).
  apply Nat.eqb_eq in He. subst M'. exists M. auto.
Qed.

Lemma check_facts_inv : forall F, check_facts F = true ->
  (forall a, In a F -> class_wf a = true) /\
  (forall a b, In a F -> In b F -> ac_loc a = ac_loc b -> pair_ok a b = true).
Proof.
  intros F H. unfold check_facts in H.
  apply andb_true_iff in H. destruct H as [H Hp]. apply andb_true_iff in H. destruct H as [Hwf _].
  split.
  - intros a Ha. rewrite forallb_forall in Hwf. apply Hwf. exact Ha.
  - intros a b Ha Hb Hl. unfold pairs_ok in Hp. rewrite forallb_forall in Hp.
    specialize (Hp a Ha). rewrite forallb_forall in Hp. specialize (Hp b Hb).
    apply orb_true_iff in Hp. destruct Hp as [Hp|Hp]; [|exact Hp].
    apply negb_true_iff in Hp. apply Nat.eqb_neq in Hp. contradiction.
Qed.

Lemma class_wf_publish : forall a, class_wf a = true -> ac_role a = RPublish -> is_rel (ac_mo a) = true.
Proof.
  intros a H Hr. unfold class_wf in H. rewrite Hr in H.
  apply andb_true_iff in H. destruct H as [_ H]. apply andb_true_iff in H. tauto.
Qed.

Lemma class_wf_traverse : forall a, class_wf a = true -> ac_role a = RTraverse -> is_acq (ac_mo a) = true.
Proof.
  intros a H Hr. unfold class_wf in H. rewrite Hr in H.
  apply andb_true_iff in H. destruct H as [_ H]. apply andb_true_iff in H. tauto.
Qed.

Lemma kind_write_false_read : forall e, is_access e = true -> kind_is_write (e_kind e) = false -> e_kind e = Read.
Proof.
  intros e Ha Hw. unfold is_access, kind_is_access in Ha.
  destruct (e_kind e); try discriminate; reflexivity.
Qed.

Lemma generic_ordered : forall F, check_facts F = true ->
  forall ex, execution_of F ex ->
  forall i j ei ej, i < j -> ev ex i = Some ei -> ev ex j = Some ej -> conflict ei ej ->
    hb ex i j \/ hb ex j i.
Proof.
  intros F CF ex (WM & WR & I & HI) i j ei ej Hij Hi Hj (Ai & Aj & Hl & Ht & Hw & Hm).
  destruct (check_facts_inv F CF) as [Hwf Hpairs].
  destruct (HI i ei Hi Ai) as (Hina & (Hlca & Hka & Hma) & Hra).
  destruct (HI j ej Hj Aj) as (Hinb & (Hlcb & Hkb & Hmb) & Hrb).
  set (a := i_lab I i) in *. set (b := i_lab I j) in *.
  assert (Hloc : ac_loc a = ac_loc b) by congruence.
  pose proof (Hpairs a b Hina Hinb Hloc) as Hok.
  apply pair_ok_cases in Hok.
  destruct Hok as [Hok|[Hok|[Hok|[Hok|[Hok|[Hok|Hok]]]]]].
  - (* a is an exclusive-phase access *)
    unfold respects in Hra. destruct (ac_guard a); try discriminate.
    apply (Hra j ej); auto; congruence.
  - unfold respects in Hrb. destruct (ac_guard b); try discriminate.
    destruct (Hrb i ei) as [H|H]; auto.
  - (* two reads *)
    destruct Hok as [H1 H2]. rewrite <- Hka in H1. rewrite <- Hkb in H2.
    destruct Hw as [Hx|Hx]; rewrite Hx in *; discriminate.
  - (* two atomics *)
    destruct Hok as [H1 H2]. rewrite <- Hma in H1. rewrite <- Hmb in H2.
    destruct Hm as [Hx|Hx]; rewrite Hx in *; discriminate.
  - (* a common lock class *)
    apply share_lock_inv in Hok. destruct Hok as (M & HMa & HMb).
    unfold respects in Hra, Hrb.
    destruct (ac_guard a) as [msa| | | |]; cbn in HMa; try contradiction.
    destruct (ac_guard b) as [msb| | | |]; cbn in HMb; try contradiction.
    left. apply (lock_orders ex (i_mu I M (e_loc ei)) i j ei ej); auto.
    rewrite Hl. apply Hrb. exact HMb.
  - (* thread-local *)
    unfold both_tl in Hok. unfold respects in Hra.
    destruct (ac_guard a); try discriminate.
    exfalso. apply Ht. symmetry. apply (Hra j ej); auto.
  - (* published through the same pointer class *)
    unfold same_pub in Hok. unfold respects in Hra, Hrb.
    destruct (ac_guard a) as [|pa| | |]; try discriminate.
    destruct (ac_guard b) as [|pb| | |]; try discriminate.
    unfold published in Hra, Hrb. rewrite <- Hl in Hrb.
    set (w := i_pub I (e_loc ei)) in *.
    destruct Hra as (ew & Hew & Hkw & Hrw & Hca).
    destruct Hrb as (ew' & Hew' & _ & _ & Hcb).
    rewrite Hew in Hew'. inversion Hew'; subst ew'.
    destruct Hca as [[Hti Hci]|[Hki Hri]]; destruct Hcb as [[Htj Hcj]|[Hkj Hrj]].
    + congruence.
    + assert (Hiw : i < w).
      { destruct Hci as [Hc|Hc]; [exact Hc|]. destruct Hw as [Hx|Hx]; congruence. }
      destruct Hrj as (r & er & wr & Hrj & Her & Htr & Hkr & Hrole & Hrf & Hrolew & Hch).
      destruct (WR r er wr Her Hkr Hrf) as (Hlt & ewr & Hewr & Hkwr & Hlwr).
      assert (Aer : is_access er = true) by (unfold is_access; rewrite Hkr; reflexivity).
      assert (Aewr : is_access ewr = true) by (unfold is_access; rewrite Hkwr; reflexivity).
      destruct (HI r er Her Aer) as (Hinr & (_ & _ & Hmr) & _).
      destruct (HI wr ewr Hewr Aewr) as (Hinw & (_ & _ & Hmw) & _).
      left. apply (chain_hb ex i w wr r j ei ew ewr er ej); auto.
      * rewrite Hmw. apply class_wf_publish; auto.
      * rewrite Hmr. apply class_wf_traverse; auto.
    + assert (Hjw : j < w).
      { destruct Hcj as [Hc|Hc]; [exact Hc|]. destruct Hw as [Hx|Hx]; congruence. }
      destruct Hri as (r & er & wr & Hri & Her & Htr & Hkr & Hrole & Hrf & Hrolew & Hch).
      destruct (WR r er wr Her Hkr Hrf) as (Hlt & _).
      assert (w <= wr). { destruct Hch as [->|Hh]; [lia|]. apply hb_lt in Hh. lia. }
      lia.
    + destruct Hw as [Hx|Hx]; congruence.
Qed.

(** A consistent fact table has only race-free executions. *)
Theorem C10_drf_generic : forall F, check_facts F = true ->
  forall ex, execution_of F ex -> race_free ex.
Proof.
  intros F CF ex EX i j R.
  pose proof R as (ei & ej & Hi & Hj & Hne & Hc & Hn1 & Hn2).
  destruct (Nat.lt_trichotomy i j) as [Hlt|[Heq|Hgt]].
  - destruct (generic_ordered F CF ex EX i j ei ej Hlt Hi Hj Hc); contradiction.
  - contradiction.
  - assert (Hc' : conflict ej ei).
    { destruct Hc as (A1 & A2 & Hl & Ht & Hw & Hm). repeat split; auto; tauto. }
    destruct (generic_ordered F CF ex EX j i ej ei Hgt Hj Hi Hc'); contradiction.
Qed.

(** * The definitions are not vacuous *)

(** Two unsynchronised non-atomic writes race. *)
Definition racy_ex : execution :=
  [ mkEvent 1 Write 7 NonAtomic None; mkEvent 2 Write 7 NonAtomic None ].

Lemma racy_hb1 : forall i j, hb1 racy_ex i j -> False.
Proof.
  intros i j H. pose proof (hb1_lt _ _ _ H) as Hlt.
  assert (Hb : forall k e, ev racy_ex k = Some e -> k < 2).
  { intros k e Hk. apply ev_lt in Hk. cbn in Hk. exact Hk. }
  destruct H as [(_ & ei & ej & Hi & Hj & Ht)|(_ & ei & ej & Hi & Hj & Hs)];
    pose proof (Hb i ei Hi) as Bi; pose proof (Hb j ej Hj) as Bj;
    assert (i = 0) by lia; assert (j = 1) by lia; subst i j;
    unfold ev in Hi, Hj; cbn in Hi, Hj; inversion Hi; inversion Hj; subst ei ej.
  - cbn in Ht. discriminate.
  - destruct Hs as [(Hk & _)|[(_ & Hk & _)|[(c & Hk & _)|(c & Hk & _)]]]; cbn in Hk; discriminate.
Qed.

Lemma racy_ex_races : ~ race_free racy_ex.
Proof.
  intros RF. apply (RF 0 1).
  exists (mkEvent 1 Write 7 NonAtomic None), (mkEvent 2 Write 7 NonAtomic None).
  assert (N : forall i j, ~ hb racy_ex i j).
  { intros i j H. induction H as [i j H|i k j _ IH1 _ _]; [exact (racy_hb1 i j H)|exact IH1]. }
  repeat split; try reflexivity; try discriminate; auto.
Qed.

(** A two-class table (one location class guarded by one lock class) and a
    two-thread execution of it. *)
Definition toy_facts : list access_class :=
  [ mkClass "toy.write" 0 Write NonAtomic (GLock [0]) RPlain;
    mkClass "toy.read" 0 Read NonAtomic (GLock [0]) RPlain ].

Definition toy_ex : execution :=
  [ mkEvent 1 Lock 100 NonAtomic None; mkEvent 1 Write 7 NonAtomic None; mkEvent 1 Unlock 100 NonAtomic None;
    mkEvent 2 Lock 100 NonAtomic None; mkEvent 2 Read 7 NonAtomic None; mkEvent 2 Unlock 100 NonAtomic None ].

Lemma toy_check : check_facts toy_facts = true.
Proof. vm_compute. reflexivity. Qed.

Lemma toy_execution : execution_of toy_facts toy_ex.
Proof.
  split; [|split].
  - intros n e H.
    do 6 (destruct n as [|n]; [cbn in H; inversion H; subst e; split; intros Hk; try discriminate Hk; reflexivity|]).
    destruct n; discriminate.
  - intros j ej w H Hk Hrf.
    do 6 (destruct j as [|j]; [cbn in H; inversion H; subst ej; cbn in Hrf; discriminate|]).
    destruct j; discriminate.
  - exists (mkInterp (fun _ => 0) (fun _ _ => 100)
             (fun i => if Nat.eqb i 1 then mkClass "toy.write" 0 Write NonAtomic (GLock [0]) RPlain
                       else mkClass "toy.read" 0 Read NonAtomic (GLock [0]) RPlain)
             (fun _ => 0)).
    intros i e H Ha.
    destruct i as [|[|[|[|[|[|i]]]]]]; unfold ev in H; cbn in H; try (destruct i; discriminate H);
      inversion H; subst e; try discriminate Ha.
    + cbn. split; [auto|]. split; [repeat split|]. intros M [<-|[]]. reflexivity.
    + cbn. split; [auto|]. split; [repeat split|]. intros M [<-|[]]. reflexivity.
Qed.

Corollary toy_race_free : race_free toy_ex.
Proof. exact (C10_drf_generic toy_facts toy_check toy_ex toy_execution). Qed.
