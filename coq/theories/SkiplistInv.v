(* SkiplistInv.v -- the well-formedness invariant of the skiplist model (Skiplist.v),
   the characterisation of the three search loops on a well-formed list, and the
   preservation of the invariant by sl_insert / sl_insert_all.
   Used by SkiplistProofs.v. *)
From LCDB Require Import Skiplist SkiplistSpec SkiplistLemmas.
Require Import Lia ZifyBool ZifyNat ZifyN.
Require Import List Arith.
Import ListNotations.
Local Open Scope nat_scope.

Section Inv.
Variable K : Type.
Variable cmp : K -> K -> comparison.
Hypothesis Hord : cmp_order cmp.

(* key_after_node on a node index *)
Definition ka (sl : skiplist K) (k : K) (y : nat) : bool := key_after_node cmp sl k (Some y).
(* "node y has a link at level l" *)
Definition lf (sl : skiplist K) (l y : nat) : bool := l <? node_height sl y.
(* the nodes of c are linked in this order at level l, the last one has no successor *)
Fixpoint chain (sl : skiplist K) (l : nat) (c : list nat) : Prop :=
  match c with
  | [] => True
  | x :: r => node_next sl x l = hd_error r /\ chain sl l r
  end.
(* the last node of level i among A (the head when there is none) *)
Definition pred_at (sl : skiplist K) (A : list nat) (i : nat) : nat := last (filter (lf sl i) A) 0.
Definition nlt (sl : skiplist K) (a b : nat) : Prop :=
  match node_key sl a, node_key sl b with
  | Some x, Some y => cmp x y = Lt
  | _, _ => False
  end.

Lemma filter_cons' : forall (f : nat -> bool) x l,
  filter f (x :: l) = if f x then x :: filter f l else filter f l.
Proof. reflexivity. Qed.

(* ---- ka ---- *)
Lemma ka_true : forall sl k y, ka sl k y = true ->
  exists ky, node_key sl y = Some ky /\ cmp ky k = Lt.
Proof.
  unfold ka, key_after_node. intros sl k y H.
  destruct (node_key sl y) as [ky|]; [|discriminate].
  exists ky. split; auto. destruct (cmp ky k); auto; discriminate.
Qed.

Lemma ka_false : forall sl k y ky, ka sl k y = false -> node_key sl y = Some ky -> cmp ky k <> Lt.
Proof.
  unfold ka, key_after_node. intros sl k y ky H Hk. rewrite Hk in H.
  destruct (cmp ky k); congruence.
Qed.

Lemma ka_intro_true : forall sl k y ky, node_key sl y = Some ky -> cmp ky k = Lt -> ka sl k y = true.
Proof. unfold ka, key_after_node. intros sl k y ky Hk Hc. rewrite Hk, Hc. reflexivity. Qed.

Lemma ka_intro_false : forall sl k y ky, node_key sl y = Some ky -> cmp ky k <> Lt -> ka sl k y = false.
Proof.
  unfold ka, key_after_node. intros sl k y ky Hk Hc. rewrite Hk.
  destruct (cmp ky k); congruence.
Qed.

(* ---- chain ---- *)
Lemma chain_app_r : forall sl l a b, chain sl l (a ++ b) -> chain sl l b.
Proof.
  induction a as [|z a IH]; cbn [app chain]; intros b H; auto.
  apply IH. destruct H; auto.
Qed.

Lemma chain_next : forall sl l a x b, chain sl l (a ++ x :: b) -> node_next sl x l = hd_error b.
Proof. intros sl l a x b H. apply chain_app_r in H. destruct H; auto. Qed.

Lemma next_in_full : forall sl l a x b,
  chain sl l (filter (lf sl l) (a ++ x :: b)) -> lf sl l x = true ->
  node_next sl x l = hd_error (filter (lf sl l) b).
Proof.
  intros sl l a x b H Hx. rewrite filter_app, filter_cons', Hx in H.
  eapply chain_next; eauto.
Qed.

Lemma chain_ext : forall sl sl' l c,
  (forall y, In y c -> node_next sl' y l = node_next sl y l) -> chain sl l c -> chain sl' l c.
Proof.
  induction c as [|z c IH]; cbn [chain]; intros He H; auto.
  destruct H as [H1 H2]. split.
  - rewrite He by (left; auto). exact H1.
  - apply IH; auto. intros y Hy. apply He. right; auto.
Qed.

Lemma chain_splice : forall sl sl' l xn p F0 G,
  chain sl l (F0 ++ p :: G) -> NoDup (F0 ++ p :: G) -> ~ In xn (F0 ++ p :: G) ->
  (forall y, y <> xn -> y <> p -> node_next sl' y l = node_next sl y l) ->
  node_next sl' p l = Some xn -> node_next sl' xn l = node_next sl p l ->
  chain sl' l (F0 ++ p :: xn :: G).
Proof.
  induction F0 as [|z F0 IH]; intros G Hc Hnd Hnin Hoth Hp Hx; cbn [app chain] in *.
  - destruct Hc as [Hc1 Hc2]. split; [rewrite Hp; reflexivity|].
    split; [rewrite Hx; exact Hc1|].
    apply chain_ext with sl; auto. intros y Hy. apply Hoth.
    + intros ->. apply Hnin. right; auto.
    + intros ->. inversion Hnd; auto.
  - destruct Hc as [Hc1 Hc2]. split.
    + rewrite Hoth.
      * rewrite Hc1. destruct F0; reflexivity.
      * intros ->. apply Hnin. left; auto.
      * intros ->. inversion Hnd as [|? ? Hz _]; subst. apply Hz. apply in_or_app. right. left. auto.
    + apply IH; auto.
      * inversion Hnd; auto.
      * intros H. apply Hnin. right; auto.
Qed.

Lemma chain_from_spec : forall (sl : skiplist K) l fuel c,
  chain sl l c -> length c <= fuel -> chain_from fuel sl l (hd_error c) = c.
Proof.
  induction fuel as [|fuel IH]; intros c Hc Hlen.
  - destruct c; [reflexivity | cbn [length] in Hlen; lia].
  - destruct c as [|y r]; [reflexivity|]. cbn [hd_error chain_from].
    destruct Hc as [Hn Hc]. rewrite Hn. f_equal. apply IH; auto. cbn [length] in Hlen. lia.
Qed.

(* ---- pred_at ---- *)
Lemma pred_at_in : forall sl A i, pred_at sl (0 :: A) i = 0 \/ In (pred_at sl (0 :: A) i) A.
Proof.
  intros. unfold pred_at.
  destruct (last_in_or_default (filter (lf sl i) (0 :: A)) 0) as [H|H]; [left; auto|].
  apply filter_In in H. destruct H as [[H|H] _]; [left; auto | right; auto].
Qed.

Lemma pred_at_lf : forall sl A i, i < node_height sl 0 -> lf sl i (pred_at sl (0 :: A) i) = true.
Proof.
  intros sl A i Hi. unfold pred_at.
  assert (H0 : lf sl i 0 = true) by (unfold lf; apply Nat.ltb_lt; auto).
  assert (H : In (last (filter (lf sl i) (0 :: A)) 0) (filter (lf sl i) (0 :: A))).
  { apply last_in. rewrite filter_cons', H0. discriminate. }
  apply filter_In in H. tauto.
Qed.

Lemma pred_at_high : forall sl A i, (forall y, In y A -> node_height sl y <= i) ->
  pred_at sl (0 :: A) i = 0.
Proof.
  intros sl A i H. unfold pred_at. rewrite filter_cons'.
  rewrite (filter_false (lf sl i) A).
  - destruct (lf sl i 0); reflexivity.
  - intros y Hy. unfold lf. apply Nat.ltb_ge. auto.
Qed.

Lemma prev_firstn : forall sl A maxh h, (forall y, In y A -> node_height sl y <= maxh) ->
  firstn h (map (pred_at sl (0 :: A)) (seq 0 maxh) ++ repeat 0 (h - maxh))
  = map (pred_at sl (0 :: A)) (seq 0 h).
Proof.
  intros sl A maxh h H. destruct (le_lt_dec h maxh) as [Hle|Hgt].
  - replace (h - maxh) with 0 by lia. cbn [repeat].
    rewrite app_nil_r, firstn_map, firstn_seq'; auto.
  - replace (repeat 0 (h - maxh)) with (map (pred_at sl (0 :: A)) (seq maxh (h - maxh))).
    + pose proof (seq_app maxh (h - maxh) 0) as E. cbn [Nat.add] in E.
      rewrite <- map_app, <- E. replace (maxh + (h - maxh)) with h by lia.
      apply firstn_all2. rewrite map_length, seq_length. lia.
    + rewrite map_const_repeat.
      * rewrite seq_length. reflexivity.
      * intros i Hi. apply in_seq in Hi. apply pred_at_high.
        intros y Hy. specialize (H y Hy). lia.
Qed.

(* ------------------------------------------------------------------ *)
(* the search loops on a list that is split as A ++ B by the key       *)
(* ------------------------------------------------------------------ *)
Section Loops.
Variable sl : skiplist K.
Variable k : K.
Variables A B : list nat.
Hypothesis HA : Forall (fun y => ka sl k y = true) A.
Hypothesis HB : Forall (fun y => ka sl k y = false) B.
Hypothesis Hchain : forall l, l < MAX_HEIGHT -> chain sl l (filter (lf sl l) (0 :: A ++ B)).
Hypothesis Hht : forall y, In y (A ++ B) -> 1 <= node_height sl y.

Lemma loop_next : forall a x c level,
  0 :: A = a ++ x :: c -> level < node_height sl x -> level < MAX_HEIGHT ->
  node_next sl x level = hd_error (filter (lf sl level) c ++ filter (lf sl level) B).
Proof.
  intros a x c level Hs Hlx Hl12.
  pose proof (Hchain level Hl12) as Hc.
  change (0 :: A ++ B) with ((0 :: A) ++ B) in Hc.
  rewrite Hs, <- app_assoc, <- app_comm_cons in Hc.
  rewrite <- filter_app. eapply next_in_full; eauto.
  unfold lf. apply Nat.ltb_lt; auto.
Qed.

Lemma c_in_A : forall a x c y, 0 :: A = a ++ x :: c -> In y c -> In y A.
Proof.
  intros a x c y Hs Hy. destruct a as [|z a']; cbn [app] in Hs; injection Hs as _ Hs'; rewrite Hs'.
  - exact Hy.
  - apply in_or_app. right. right. exact Hy.
Qed.

Lemma level0_filter : forall c, (forall y, In y c -> In y (A ++ B)) -> filter (lf sl 0) c = c.
Proof.
  intros c H. apply filter_true. intros y Hy. unfold lf. apply Nat.ltb_lt.
  specialize (Hht y (H y Hy)). lia.
Qed.

Lemma ka_hd_B : forall f, key_after_node cmp sl k (hd_error (filter f B)) = false.
Proof.
  intros f. destruct (filter f B) as [|b fb] eqn:E; [reflexivity|]. cbn [hd_error].
  assert (H : In b (filter f B)) by (rewrite E; left; auto).
  apply filter_In in H. destruct H as [H _].
  change (ka sl k b = false). apply (proj1 (Forall_forall _ _) HB). auto.
Qed.

Lemma pred_at_here : forall a x c level,
  0 :: A = a ++ x :: c -> level < node_height sl x -> filter (lf sl level) c = [] ->
  pred_at sl (0 :: A) level = x.
Proof.
  intros a x c level Hs Hlx Hc. unfold pred_at.
  assert (Hx : lf sl level x = true) by (unfold lf; apply Nat.ltb_lt; auto).
  rewrite Hs, filter_app, filter_cons', Hx, Hc. apply last_last.
Qed.

Lemma find_ge_loop_spec : forall fuel a x c level prev,
  0 :: A = a ++ x :: c -> level < node_height sl x -> level < MAX_HEIGHT ->
  length c + level < fuel ->
  find_ge_loop cmp fuel sl k x level prev =
    (hd_error B, map (pred_at sl (0 :: A)) (seq 0 (S level)) ++ prev).
Proof.
  induction fuel as [|fuel IH]; intros a x c level prev Hs Hlx Hl12 Hfuel; [lia|].
  cbn [find_ge_loop].
  rewrite (loop_next a x c level Hs Hlx Hl12).
  destruct (filter (lf sl level) c) as [|y fc] eqn:Hfc.
  - cbn [app]. rewrite ka_hd_B.
    destruct level as [|level].
    + assert (Hc : c = []).
      { rewrite <- Hfc. symmetry. apply level0_filter.
        intros z Hz. apply in_or_app. left. eapply c_in_A; eauto. }
      subst c. rewrite (level0_filter B) by (intros; apply in_or_app; right; auto).
      cbn [seq map app]. rewrite (pred_at_here a x [] 0); auto.
    + rewrite (IH a x c level (x :: prev)); auto; try lia.
      rewrite (seq_S (S level) 0), map_app, <- app_assoc. cbn [map app Nat.add].
      rewrite (pred_at_here a x c (S level)); auto.
  - cbn [app hd_error].
    assert (Hy : In y (filter (lf sl level) c)) by (rewrite Hfc; left; auto).
    apply filter_In in Hy. destruct Hy as [Hyc Hyl].
    assert (Hka : key_after_node cmp sl k (Some y) = true).
    { change (ka sl k y = true). apply (proj1 (Forall_forall _ _) HA). eapply c_in_A; eauto. }
    rewrite Hka.
    destruct (filter_hd_split (lf sl level) c y) as (c1 & c2 & Hc & Hc1 & _).
    { rewrite Hfc. reflexivity. }
    apply (IH (a ++ x :: c1) y c2).
    + rewrite Hs, Hc, <- app_assoc. reflexivity.
    + apply Nat.ltb_lt. exact Hyl.
    + auto.
    + rewrite Hc, app_length in Hfuel. cbn [length] in Hfuel. lia.
Qed.

Lemma last_here : forall a x, 0 :: A = a ++ [x] -> last (0 :: A) 0 = x.
Proof. intros a x Hs. rewrite Hs. apply last_last. Qed.

Lemma find_lt_loop_spec : forall fuel a x c level,
  0 :: A = a ++ x :: c -> level < node_height sl x -> level < MAX_HEIGHT ->
  length c + level < fuel ->
  find_lt_loop cmp fuel sl k x level = last (0 :: A) 0.
Proof.
  induction fuel as [|fuel IH]; intros a x c level Hs Hlx Hl12 Hfuel; [lia|].
  cbn [find_lt_loop].
  rewrite (loop_next a x c level Hs Hlx Hl12).
  destruct (filter (lf sl level) c) as [|y fc] eqn:Hfc.
  - cbn [app]. rewrite ka_hd_B.
    destruct level as [|level].
    + assert (Hc : c = []).
      { rewrite <- Hfc. symmetry. apply level0_filter.
        intros z Hz. apply in_or_app. left. eapply c_in_A; eauto. }
      subst c. symmetry. eapply last_here; eauto.
    + apply (IH a x c level); auto; try lia.
  - cbn [app hd_error].
    assert (Hy : In y (filter (lf sl level) c)) by (rewrite Hfc; left; auto).
    apply filter_In in Hy. destruct Hy as [Hyc Hyl].
    assert (Hka : key_after_node cmp sl k (Some y) = true).
    { change (ka sl k y = true). apply (proj1 (Forall_forall _ _) HA). eapply c_in_A; eauto. }
    rewrite Hka.
    destruct (filter_hd_split (lf sl level) c y) as (c1 & c2 & Hc & Hc1 & _).
    { rewrite Hfc. reflexivity. }
    apply (IH (a ++ x :: c1) y c2).
    + rewrite Hs, Hc, <- app_assoc. reflexivity.
    + apply Nat.ltb_lt. exact Hyl.
    + auto.
    + rewrite Hc, app_length in Hfuel. cbn [length] in Hfuel. lia.
Qed.

Lemma find_last_loop_spec : B = [] -> forall fuel a x c level,
  0 :: A = a ++ x :: c -> level < node_height sl x -> level < MAX_HEIGHT ->
  length c + level < fuel ->
  find_last_loop fuel sl x level = last (0 :: A) 0.
Proof.
  intros HBnil.
  induction fuel as [|fuel IH]; intros a x c level Hs Hlx Hl12 Hfuel; [lia|].
  cbn [find_last_loop].
  rewrite (loop_next a x c level Hs Hlx Hl12). rewrite HBnil. cbn [filter]. rewrite app_nil_r.
  destruct (filter (lf sl level) c) as [|y fc] eqn:Hfc.
  - cbn [hd_error].
    destruct level as [|level].
    + assert (Hc : c = []).
      { rewrite <- Hfc. symmetry. apply level0_filter.
        intros z Hz. apply in_or_app. left. eapply c_in_A; eauto. }
      subst c. symmetry. eapply last_here; eauto.
    + apply (IH a x c level); auto; try lia.
  - cbn [hd_error].
    assert (Hy : In y (filter (lf sl level) c)) by (rewrite Hfc; left; auto).
    apply filter_In in Hy. destruct Hy as [Hyc Hyl].
    destruct (filter_hd_split (lf sl level) c y) as (c1 & c2 & Hc & Hc1 & _).
    { rewrite Hfc. reflexivity. }
    apply (IH (a ++ x :: c1) y c2).
    + rewrite Hs, Hc, <- app_assoc. reflexivity.
    + apply Nat.ltb_lt. exact Hyl.
    + auto.
    + rewrite Hc, app_length in Hfuel. cbn [length] in Hfuel. lia.
Qed.

End Loops.

End Inv.

Arguments ka {K}.
Arguments lf {K}.
Arguments chain {K}.
Arguments pred_at {K}.
Arguments nlt {K}.
