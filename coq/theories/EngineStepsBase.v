(* EngineStepsBase.v -- generic lemmas for the step theorems of the engine model:
   the internal-key order, strictly sorted runs, [best], files and levels. *)
From LCDB Require Import Base Engine EngineSpec.
From Coq Require Import Sorting.Sorted Permutation.
Require Import Lia ZifyBool ZifyNat ZifyN.
Local Open Scope N_scope.

Existing Class total_order.

Section Base.
Variable ucmp : bytes -> bytes -> comparison.
Context {TO : total_order ucmp}.

Notation ueq := (Engine.ueq ucmp).
Notation ult := (Engine.ult ucmp).
Notation ule := (Engine.ule ucmp).
Notation ilt := (Engine.ilt ucmp).
Notation icmp := (Engine.icmp ucmp).

(* ------------------------------------------------------------ user comparator *)
Lemma ucmp_refl a : ucmp a a = Eq.
Proof. apply (to_refl _ TO). Qed.

Lemma ucmp_opp a b : ucmp a b = CompOpp (ucmp b a).
Proof. apply (to_antisym _ TO). Qed.

Lemma ucmp_eq_sym a b : ucmp a b = Eq -> ucmp b a = Eq.
Proof. intros H. rewrite ucmp_opp, H. reflexivity. Qed.

Lemma ucmp_gt_lt a b : ucmp a b = Gt <-> ucmp b a = Lt.
Proof. rewrite (ucmp_opp a b). destruct (ucmp b a); cbn; split; congruence. Qed.

Lemma ucmp_eq_l a b c : ucmp a b = Eq -> ucmp a c = ucmp b c.
Proof. intros H. apply (to_eq _ TO a b H c). Qed.

Lemma ucmp_eq_r a b c : ucmp a b = Eq -> ucmp c a = ucmp c b.
Proof. intros H. apply (to_eq _ TO a b H c). Qed.

Lemma ucmp_lt_trans a b c : ucmp a b = Lt -> ucmp b c = Lt -> ucmp a c = Lt.
Proof. apply (to_trans _ TO). Qed.

Lemma ucmp_gt_trans a b c : ucmp a b = Gt -> ucmp b c = Gt -> ucmp a c = Gt.
Proof.
  rewrite !ucmp_gt_lt. intros H1 H2. eapply ucmp_lt_trans; eauto.
Qed.

Lemma ucmp_trans3 a b c :
  match ucmp a b, ucmp b c with
  | Eq, x => ucmp a c = x
  | x, Eq => ucmp a c = x
  | Lt, Lt => ucmp a c = Lt
  | Gt, Gt => ucmp a c = Gt
  | _, _ => True
  end.
Proof.
  destruct (ucmp a b) eqn:E1.
  - rewrite (ucmp_eq_l a b c E1). reflexivity.
  - destruct (ucmp b c) eqn:E2; auto.
    + rewrite <- (ucmp_eq_r b c a E2). exact E1.
    + eapply ucmp_lt_trans; eauto.
  - destruct (ucmp b c) eqn:E2; auto.
    + rewrite <- (ucmp_eq_r b c a E2). exact E1.
    + eapply ucmp_gt_trans; eauto.
Qed.

Lemma ueq_iff a b : ueq a b = true <-> ucmp a b = Eq.
Proof. unfold Engine.ueq. destruct (ucmp a b); split; congruence. Qed.
Lemma ult_iff a b : ult a b = true <-> ucmp a b = Lt.
Proof. unfold Engine.ult. destruct (ucmp a b); split; congruence. Qed.
Lemma ule_iff a b : ule a b = true <-> ucmp a b <> Gt.
Proof. unfold Engine.ule. destruct (ucmp a b); split; congruence. Qed.

Lemma ueq_refl a : ueq a a = true.
Proof. apply ueq_iff, ucmp_refl. Qed.
Lemma ueq_sym a b : ueq a b = true -> ueq b a = true.
Proof. rewrite !ueq_iff. apply ucmp_eq_sym. Qed.
Lemma ueq_trans a b c : ueq a b = true -> ueq b c = true -> ueq a c = true.
Proof. rewrite !ueq_iff. intros H1 H2. rewrite (ucmp_eq_l a b c H1). exact H2. Qed.

(* ------------------------------------------------------------ internal order *)
Lemma ilt_iff a b :
  ilt a b = true <-> ucmp (ek a) (ek b) = Lt \/ (ucmp (ek a) (ek b) = Eq /\ es b < es a).
Proof.
  unfold Engine.ilt, Engine.icmp.
  destruct (ucmp (ek a) (ek b)).
  - destruct (N.compare_spec (es b) (es a)); split; intros H1; try discriminate; auto;
      destruct H1 as [H1|[_ H1]]; try discriminate; lia.
  - split; auto.
  - split; try discriminate. intros [H|[H _]]; discriminate.
Qed.

Lemma ilt_false_iff a b :
  ilt a b = false <-> ucmp (ek a) (ek b) = Gt \/ (ucmp (ek a) (ek b) = Eq /\ es a <= es b).
Proof.
  unfold Engine.ilt, Engine.icmp.
  destruct (ucmp (ek a) (ek b)).
  - destruct (N.compare_spec (es b) (es a)); split; intros H1; try discriminate; auto;
      try (right; split; auto; lia);
      destruct H1 as [H1|[_ H1]]; try discriminate; lia.
  - split; try discriminate. intros [H|[H _]]; discriminate.
  - split; auto.
Qed.

Ltac ord3 a b c :=
  let H := fresh "H3" in
  pose proof (ucmp_trans3 (ek a) (ek b) (ek c)) as H;
  destruct (ucmp (ek a) (ek b)), (ucmp (ek b) (ek c));
  try rewrite H in *; clear H.

Lemma ilt_trans a b c : ilt a b = true -> ilt b c = true -> ilt a c = true.
Proof.
  rewrite !ilt_iff. ord3 a b c; intros [H1|[H1 H1']] [H2|[H2 H2']]; try discriminate; auto.
  right; split; auto; lia.
Qed.

Lemma ilt_irrefl a : ilt a a = false.
Proof. apply ilt_false_iff. right. split. apply ucmp_refl. lia. Qed.

(* a <= b < c *)
Lemma ile_lt_trans a b c : ilt b a = false -> ilt b c = true -> ilt a c = true.
Proof.
  rewrite ilt_false_iff, !ilt_iff, (ucmp_opp (ek b) (ek a)).
  ord3 a b c; cbn; intros [H1|[H1 H1']] [H2|[H2 H2']]; try discriminate; auto.
  right; split; auto; lia.
Qed.

(* a < b <= c *)
Lemma ilt_le_trans a b c : ilt a b = true -> ilt c b = false -> ilt a c = true.
Proof.
  rewrite ilt_false_iff, !ilt_iff, (ucmp_opp (ek c) (ek b)).
  ord3 a b c; cbn; intros [H1|[H1 H1']] [H2|[H2 H2']]; try discriminate; auto.
  right; split; auto; lia.
Qed.

(* a <= b <= c *)
Lemma ile_trans a b c : ilt b a = false -> ilt c b = false -> ilt c a = false.
Proof.
  rewrite !ilt_false_iff, (ucmp_opp (ek b) (ek a)), (ucmp_opp (ek c) (ek b)), (ucmp_opp (ek c) (ek a)).
  ord3 a b c; cbn; intros [H1|[H1 H1']] [H2|[H2 H2']]; try discriminate; auto.
  right; split; auto; lia.
Qed.

Lemma ilt_asym a b : ilt a b = true -> ilt b a = false.
Proof.
  intros H. destruct (ilt b a) eqn:E; auto.
  pose proof (ilt_trans _ _ _ H E) as H1. rewrite ilt_irrefl in H1. discriminate.
Qed.

Lemma ilt_ueq_seq a b : ilt a b = true -> ueq (ek a) (ek b) = true -> es b < es a.
Proof.
  rewrite ilt_iff, ueq_iff. intros [H|[_ H]] H2; auto. congruence.
Qed.

(* user keys are monotone along the internal order *)
Lemma ilt_ukey a b : ilt a b = true -> ucmp (ek a) (ek b) <> Gt.
Proof. rewrite ilt_iff. intros [H|[H _]]; congruence. Qed.
Lemma ile_ukey a b : ilt b a = false -> ucmp (ek a) (ek b) <> Gt.
Proof.
  rewrite ilt_false_iff, (ucmp_opp (ek b) (ek a)).
  destruct (ucmp (ek a) (ek b)); cbn; intros [H|[H _]]; congruence.
Qed.

Lemma ilt_total a b : ilt a b = false -> ilt b a = false -> ueq (ek a) (ek b) = true /\ es a = es b.
Proof.
  rewrite !ilt_false_iff, ueq_iff, (ucmp_opp (ek b) (ek a)).
  destruct (ucmp (ek a) (ek b)); cbn; intros [H1|[H1 H1']] [H2|[H2 H2']]; try discriminate.
  split; auto; lia.
Qed.

(* x <= y <= z in user keys, with ueq x z: all equal *)
Lemma ukey_squeeze a b c :
  ucmp a b <> Gt -> ucmp b c <> Gt -> ucmp a c = Eq -> ucmp a b = Eq /\ ucmp b c = Eq.
Proof.
  intros H1 H2 H3.
  pose proof (ucmp_trans3 a b c) as H.
  destruct (ucmp a b) eqn:E1, (ucmp b c) eqn:E2; try congruence; auto.
Qed.

(* ------------------------------------------------------------ strictly sorted runs *)
Definition Srt (l : list entry) : Prop := StronglySorted (fun a b => ilt a b = true) l.

Lemma sorted_run_Srt l : sorted_run ucmp l = true <-> Srt l.
Proof.
  unfold Srt. induction l as [|x r IH].
  - split; intros; [constructor|reflexivity].
  - cbn [sorted_run]. rewrite andb_true_iff, IH. split.
    + intros [H1 H2]. constructor; auto.
      destruct r as [|y r']; [constructor|].
      inversion H2; subst. constructor; auto.
      eapply Forall_impl; [|eassumption]. intros z Hz. eapply ilt_trans; eauto.
    + intros H. inversion H; subst. split; auto.
      destruct r; auto. inversion H3; auto.
Qed.

Lemma Srt_nil : Srt [].
Proof. constructor. Qed.

Lemma Srt_cons_inv a l : Srt (a :: l) -> Srt l /\ forall x, In x l -> ilt a x = true.
Proof.
  intros H. inversion H; subst. split; auto. apply Forall_forall; auto.
Qed.

Lemma Srt_cons a l : Srt l -> (forall x, In x l -> ilt a x = true) -> Srt (a :: l).
Proof. intros H1 H2. constructor; auto. apply Forall_forall; auto. Qed.

Lemma Srt_In_cases l a b : Srt l -> In a l -> In b l -> a = b \/ ilt a b = true \/ ilt b a = true.
Proof.
  induction l as [|x r IH]; intros HS Ha Hb; [destruct Ha|].
  apply Srt_cons_inv in HS. destruct HS as [HS Hx].
  destruct Ha as [Ha|Ha], Hb as [Hb|Hb]; subst; auto.
Qed.

Lemma Srt_app a b : Srt (a ++ b) <-> Srt a /\ Srt b /\ forall x y, In x a -> In y b -> ilt x y = true.
Proof.
  induction a as [|e a IH]; cbn [app].
  - split.
    + intros H. split; [apply Srt_nil|]. split; [exact H|]. intros x y Hx. destruct Hx.
    + intros (_ & H & _); auto.
  - split.
    + intros H. apply Srt_cons_inv in H. destruct H as [H1 H2].
      apply IH in H1. destruct H1 as (Ha & Hb & Hab). repeat split; auto.
      * apply Srt_cons; auto. intros x Hx. apply H2. apply in_or_app; auto.
      * intros x y [Hx|Hx] Hy; subst; auto. apply H2. apply in_or_app; auto.
    + intros (Ha & Hb & Hab). apply Srt_cons_inv in Ha. destruct Ha as [Ha He].
      apply Srt_cons.
      * apply IH. repeat split; auto. intros; apply Hab; auto. right; auto.
      * intros x Hx. apply in_app_or in Hx. destruct Hx as [Hx|Hx]; auto.
        apply Hab; auto. left; auto.
Qed.

Lemma Srt_filter f l : Srt l -> Srt (filter f l).
Proof.
  induction l as [|x r IH]; intros H; cbn [filter]; auto.
  apply Srt_cons_inv in H. destruct H as [H1 H2].
  destruct (f x); auto. apply Srt_cons; auto.
  intros y Hy. apply filter_In in Hy. apply H2, Hy.
Qed.

Lemma Srt_firstn n l : Srt l -> Srt (firstn n l).
Proof.
  intros H. rewrite <- (firstn_skipn n l) in H. apply Srt_app in H. apply H.
Qed.
Lemma Srt_skipn n l : Srt l -> Srt (skipn n l).
Proof.
  intros H. rewrite <- (firstn_skipn n l) in H. apply Srt_app in H. apply H.
Qed.
Lemma Srt_firstn_skipn n l x y : Srt l -> In x (firstn n l) -> In y (skipn n l) -> ilt x y = true.
Proof.
  intros H. rewrite <- (firstn_skipn n l) in H. apply Srt_app in H. apply H.
Qed.

Lemma Srt_hd_min a r x : Srt (a :: r) -> In x (a :: r) -> ilt x a = false.
Proof.
  intros H Hx. apply Srt_cons_inv in H. destruct H as [_ H].
  destruct Hx as [Hx|Hx]; subst. apply ilt_irrefl. apply ilt_asym; auto.
Qed.

Lemma last_change {A} (y : A) r a : last (y :: r) a = last r y.
Proof.
  revert y a. induction r as [|z r IH]; intros y a. reflexivity.
  change (last (y :: z :: r) a) with (last (z :: r) a).
  rewrite (IH z a), (IH z y). reflexivity.
Qed.

Lemma last_In {A} (r : list A) (a : A) : In (last r a) (a :: r).
Proof.
  revert a. induction r as [|y r IH]; intros a. left; auto.
  rewrite last_change. right. apply IH.
Qed.

Lemma Srt_last_max a r x : Srt (a :: r) -> In x (a :: r) -> ilt (last r a) x = false.
Proof.
  revert a x. induction r as [|y r IH]; intros a x H Hx.
  - cbn [last]. destruct Hx as [Hx|[]]; subst. apply ilt_irrefl.
  - rewrite last_change. pose proof H as H0.
    apply Srt_cons_inv in H. destruct H as [H1 H2].
    destruct Hx as [Hx|Hx]; subst; auto.
    apply ilt_asym. apply H2. apply last_In.
Qed.

(* insertion *)
Lemma insert_sorted_In e l x : In x (insert_sorted ucmp e l) <-> x = e \/ In x l.
Proof.
  induction l as [|y r IH]; cbn [insert_sorted].
  - cbn [In]. intuition.
  - destruct (ilt e y); cbn [In]; [|rewrite IH]; intuition.
Qed.

Lemma insert_sorted_Srt e l :
  Srt l -> (forall x, In x l -> ilt e x = true \/ ilt x e = true) -> Srt (insert_sorted ucmp e l).
Proof.
  induction l as [|y r IH]; intros HS Hc; cbn [insert_sorted].
  - apply Srt_cons; auto; intros x [].
  - pose proof HS as HS0. apply Srt_cons_inv in HS. destruct HS as [HS Hy].
    destruct (ilt e y) eqn:E.
    + apply Srt_cons; auto. intros x [Hx|Hx]; subst; auto.
      eapply ilt_trans; eauto.
    + apply Srt_cons.
      * apply IH; auto. intros x Hx. apply Hc. right; auto.
      * intros x Hx. rewrite insert_sorted_In in Hx. destruct Hx as [Hx|Hx]; subst; auto.
        destruct (Hc y (or_introl eq_refl)) as [H|H]; auto. congruence.
Qed.

Lemma insert_sorted_Perm e l : Permutation (insert_sorted ucmp e l) (e :: l).
Proof.
  induction l as [|y r IH]; cbn [insert_sorted]; auto.
  destruct (ilt e y); auto.
  eapply perm_trans. apply perm_skip, IH. apply perm_swap.
Qed.

Lemma sort_entries_In l x : In x (sort_entries ucmp l) <-> In x l.
Proof.
  induction l as [|y r IH]; cbn [sort_entries fold_right]. reflexivity.
  fold (sort_entries ucmp r). rewrite insert_sorted_In, IH. cbn [In]. intuition.
Qed.

(* pairwise comparable (no two entries with equal internal key) *)
Definition Cmp (a b : entry) : Prop := ilt a b = true \/ ilt b a = true.

Lemma sort_entries_Srt l : ForallOrdPairs Cmp l -> Srt (sort_entries ucmp l).
Proof.
  induction 1 as [|a l Ha Hl IH]; cbn [sort_entries fold_right]. apply Srt_nil.
  fold (sort_entries ucmp l). apply insert_sorted_Srt; auto.
  intros x Hx. rewrite sort_entries_In in Hx. rewrite Forall_forall in Ha. apply Ha; auto.
Qed.

(* fold_right insert_sorted over a sorted accumulator *)
Lemma fold_insert_In (m im : list entry) x :
  In x (fold_right (insert_sorted ucmp) m im) <-> In x im \/ In x m.
Proof.
  induction im as [|y r IH]; cbn [fold_right].
  - cbn [In]. tauto.
  - rewrite insert_sorted_In, IH. cbn [In]. intuition.
Qed.

Lemma fold_insert_Srt (m im : list entry) :
  Srt m -> Srt im -> (forall x y, In x im -> In y m -> Cmp x y) ->
  Srt (fold_right (insert_sorted ucmp) m im).
Proof.
  intros Hm. induction im as [|y r IH]; intros Him Hc; cbn [fold_right]; auto.
  apply Srt_cons_inv in Him. destruct Him as [Hr Hy].
  apply insert_sorted_Srt.
  - apply IH; auto. intros; apply Hc; auto. right; auto.
  - intros x Hx. rewrite fold_insert_In in Hx. destruct Hx as [Hx|Hx].
    + left. auto.
    + apply Hc; auto. left; auto.
Qed.

(* fold_left insertion (memtable writes) *)
Lemma fold_left_insert_In (es' m : list entry) x :
  In x (fold_left (fun m e => insert_sorted ucmp e m) es' m) <-> In x es' \/ In x m.
Proof.
  revert m. induction es' as [|y r IH]; intros m; cbn [fold_left].
  - cbn [In]. tauto.
  - rewrite IH, insert_sorted_In. cbn [In]. intuition.
Qed.

Lemma fold_left_insert_Srt (es' m : list entry) :
  Srt m -> ForallOrdPairs Cmp es' -> (forall x y, In x es' -> In y m -> Cmp x y) ->
  Srt (fold_left (fun m e => insert_sorted ucmp e m) es' m).
Proof.
  intros Hm Hp. revert m Hm. induction Hp as [|a l Ha Hl IH]; intros m Hm Hc; cbn [fold_left]; auto.
  apply IH.
  - apply insert_sorted_Srt; auto. intros x Hx. apply Hc; auto. left; auto.
  - intros x y Hx Hy. rewrite insert_sorted_In in Hy. destruct Hy as [Hy|Hy]; subst.
    + rewrite Forall_forall in Ha. destruct (Ha x Hx) as [H|H]; [right|left]; auto.
    + apply Hc; auto. right; auto.
Qed.

(* ------------------------------------------------------------ best *)
Lemma matches_iff k q e : matches ucmp k q e = true <-> ueq (ek e) k = true /\ es e <= q.
Proof. unfold matches. rewrite andb_true_iff. split; intros [H1 H2]; split; auto; lia. Qed.

Lemma best_cons e l k q :
  best ucmp (e :: l) k q = if matches ucmp k q e then newer e (best ucmp l k q) else best ucmp l k q.
Proof. reflexivity. Qed.

Lemma best_None l k q : best ucmp l k q = None <-> forall e, In e l -> matches ucmp k q e = false.
Proof.
  induction l as [|a l IH].
  - split; auto. intros _ e [].
  - rewrite best_cons. destruct (matches ucmp k q a) eqn:E.
    + split.
      * unfold newer. destruct (best ucmp l k q); [destruct (es e <? es a)|]; discriminate.
      * intros H. rewrite (H a) in E. discriminate. left; auto.
    + rewrite IH. split; intros H e; [intros [He|He]; subst; auto|intros He; apply H; right; auto].
Qed.

Lemma best_Some l k q e :
  best ucmp l k q = Some e ->
  In e l /\ matches ucmp k q e = true /\
  forall e', In e' l -> matches ucmp k q e' = true -> es e' <= es e.
Proof.
  revert e. induction l as [|a l IH]; intros e.
  - cbn. discriminate.
  - rewrite best_cons. destruct (matches ucmp k q a) eqn:E.
    + unfold newer. destruct (best ucmp l k q) as [b|] eqn:Eb.
      * destruct (IH b eq_refl) as (H1 & H2 & H3).
        destruct (es b <? es a) eqn:El; intros H; injection H as <-.
        -- repeat split; auto. left; auto.
           intros e' [He|He] Hm; subst. lia. specialize (H3 e' He Hm). lia.
        -- repeat split; auto. right; auto.
           intros e' [He|He] Hm; subst. lia. auto.
      * intros H; injection H as <-. repeat split; auto. left; auto.
        intros e' [He|He] Hm; subst. lia.
        rewrite best_None in Eb. rewrite (Eb e' He) in Hm. discriminate.
    + intros H. destruct (IH e H) as (H1 & H2 & H3). repeat split; auto. right; auto.
      intros e' [He|He] Hm; subst; auto. congruence.
Qed.

(* entries of one user key with one sequence are the same entry *)
Definition KD (l : list entry) : Prop :=
  forall a b, In a l -> In b l -> ueq (ek a) (ek b) = true -> es a = es b -> a = b.

Lemma best_unique l k q e :
  KD l -> In e l -> matches ucmp k q e = true ->
  (forall e', In e' l -> matches ucmp k q e' = true -> es e' <= es e) ->
  best ucmp l k q = Some e.
Proof.
  intros HK Hin Hm Hmax.
  destruct (best ucmp l k q) as [b|] eqn:Eb.
  - apply best_Some in Eb. destruct Eb as (H1 & H2 & H3).
    f_equal. apply HK; auto.
    + apply matches_iff in Hm. apply matches_iff in H2.
      eapply ueq_trans. apply H2. apply ueq_sym, Hm.
    + specialize (Hmax b H1 H2). specialize (H3 e Hin Hm). lia.
  - rewrite best_None in Eb. rewrite (Eb e Hin) in Hm. discriminate.
Qed.

Lemma best_ext l l' k q :
  KD l' -> (forall e, In e l <-> In e l') -> best ucmp l k q = best ucmp l' k q.
Proof.
  intros HK Hiff.
  destruct (best ucmp l k q) as [b|] eqn:Eb.
  - apply best_Some in Eb. destruct Eb as (H1 & H2 & H3).
    symmetry. apply best_unique; auto. apply Hiff; auto.
    intros e' He'. apply H3. apply Hiff; auto.
  - symmetry. rewrite best_None in *. intros e He. apply Eb, Hiff, He.
Qed.

Lemma Srt_KD l : Srt l -> KD l.
Proof.
  intros HS a b Ha Hb Hk Hs.
  destruct (Srt_In_cases l a b HS Ha Hb) as [H|[H|H]]; auto.
  - pose proof (ilt_ueq_seq _ _ H Hk). lia.
  - pose proof (ilt_ueq_seq _ _ H (ueq_sym _ _ Hk)). lia.
Qed.

(* ------------------------------------------------------------ newer_outside / recency *)
Definition NO (p p' : list entry) : Prop :=
  forall o m, In o p -> In m p' -> ueq (ek o) (ek m) = true -> es m < es o.

Lemma newer_outside_NO p p' : newer_outside ucmp p p' = true <-> NO p p'.
Proof.
  unfold newer_outside, NO. rewrite forallb_forall. split.
  - intros H o m Ho Hm Hk. specialize (H o Ho). rewrite forallb_forall in H.
    specialize (H m Hm). rewrite Hk in H. cbn in H. lia.
  - intros H o Ho. apply forallb_forall. intros m Hm.
    destruct (ueq (ek o) (ek m)) eqn:E; cbn; auto.
    specialize (H o m Ho Hm E). lia.
Qed.

Lemma NO_nil_l p : NO [] p.
Proof. intros o m []. Qed.
Lemma NO_nil_r p : NO p [].
Proof. intros o m _ []. Qed.

Lemma recency_FOP ps : recency ucmp ps = true <-> ForallOrdPairs NO ps.
Proof.
  induction ps as [|p r IH]; cbn [recency].
  - split; auto. constructor.
  - rewrite andb_true_iff, IH, forallb_forall. split.
    + intros [H1 H2]. constructor; auto. apply Forall_forall. intros x Hx.
      apply newer_outside_NO; auto.
    + intros H. inversion H; subst. split; auto. intros x Hx.
      apply newer_outside_NO. rewrite Forall_forall in H2; auto.
Qed.

Lemma FOP_app {A} (R : A -> A -> Prop) (a b : list A) :
  ForallOrdPairs R (a ++ b) <->
  ForallOrdPairs R a /\ ForallOrdPairs R b /\ forall x y, In x a -> In y b -> R x y.
Proof.
  induction a as [|e a IH]; cbn [app].
  - split.
    + intros H. split; [constructor|]. split; [exact H|]. intros x y Hx. destruct Hx.
    + intros (_ & H & _); auto.
  - split.
    + intros H. inversion H; subst. apply IH in H3. destruct H3 as (Ha & Hb & Hab).
      rewrite Forall_forall in H2.
      repeat split; auto.
      * constructor; auto. apply Forall_forall. intros x Hx. apply H2, in_or_app; auto.
      * intros x y [Hx|Hx] Hy; subst; auto. apply H2, in_or_app; auto.
    + intros (Ha & Hb & Hab). inversion Ha; subst. constructor.
      * apply Forall_forall. intros x Hx. apply in_app_or in Hx. destruct Hx as [Hx|Hx].
        rewrite Forall_forall in H1; auto. apply Hab; auto. left; auto.
      * apply IH. repeat split; auto. intros; apply Hab; auto. right; auto.
Qed.

Lemma FOP_nth {A} (R : A -> A -> Prop) (d : A) (l : list A) :
  ForallOrdPairs R l <->
  forall i j, (i < j)%nat -> (j < length l)%nat -> R (nth i l d) (nth j l d).
Proof.
  induction l as [|a l IH].
  - split. intros _ i j _ H. cbn in H. lia. constructor.
  - split.
    + intros H i j Hij Hj. inversion H; subst. rewrite Forall_forall in H2.
      destruct j as [|j]; [lia|]. cbn [length] in Hj.
      destruct i as [|i]; cbn [nth].
      * apply H2. apply nth_In. lia.
      * apply IH; auto; lia.
    + intros H. constructor.
      * apply Forall_forall. intros x Hx. destruct (In_nth _ _ d Hx) as (j & Hj & <-).
        apply (H 0%nat (S j)). lia. cbn [length]. lia.
      * apply IH. intros i j Hij Hj. apply (H (S i) (S j)). lia. cbn [length]. lia.
Qed.

Lemma FOP_map {A B} (f : A -> B) (R : B -> B -> Prop) (l : list A) :
  ForallOrdPairs R (map f l) <-> ForallOrdPairs (fun x y => R (f x) (f y)) l.
Proof.
  induction l as [|a l IH]; cbn [map].
  - split; constructor.
  - split; intros H; inversion H; subst; constructor; try (apply IH; auto).
    + rewrite Forall_map in H2. exact H2.
    + rewrite Forall_map. exact H2.
Qed.

Lemma FOP_impl {A} (R R' : A -> A -> Prop) (l : list A) :
  (forall x y, In x l -> In y l -> R x y -> R' x y) -> ForallOrdPairs R l -> ForallOrdPairs R' l.
Proof.
  intros HI H. induction H as [|a l Ha Hl IH]; constructor.
  - rewrite Forall_forall in *. intros x Hx. apply HI; auto. left; auto. right; auto.
  - apply IH. intros x y Hx Hy. apply HI; right; auto.
Qed.

Lemma FOP_filter {A} (R : A -> A -> Prop) f (l : list A) :
  ForallOrdPairs R l -> ForallOrdPairs R (filter f l).
Proof.
  induction 1 as [|a l Ha Hl IH]; cbn [filter]. constructor.
  destruct (f a); auto. constructor; auto.
  rewrite Forall_forall in *. intros x Hx. apply filter_In in Hx. apply Ha, Hx.
Qed.

Lemma FOP_perm_sym {A} (R : A -> A -> Prop) (l l' : list A) :
  (forall x y, R x y -> R y x) -> Permutation l l' -> ForallOrdPairs R l -> ForallOrdPairs R l'.
Proof.
  intros Hs HP. induction HP; intros H; auto.
  - inversion H; subst. constructor; auto.
    rewrite Forall_forall in *. intros y Hy. apply H2. eapply Permutation_in; [symmetry|]; eauto.
  - inversion H; subst. inversion H3; subst. inversion H2; subst.
    constructor. constructor; auto. constructor; auto.
Qed.

(* ------------------------------------------------------------ sort_newest *)
Lemma insert_newest_Perm f l : Permutation (insert_newest f l) (f :: l).
Proof.
  induction l as [|g r IH]; cbn [insert_newest]; auto.
  destruct (fnum g <? fnum f); auto.
  eapply perm_trans. apply perm_skip, IH. apply perm_swap.
Qed.

Lemma sort_newest_Perm l : Permutation (sort_newest l) l.
Proof.
  induction l as [|f r IH]; cbn [sort_newest fold_right]; auto.
  fold (sort_newest r). eapply perm_trans. apply insert_newest_Perm. auto.
Qed.

Lemma sort_newest_In l f : In f (sort_newest l) <-> In f l.
Proof.
  split; apply Permutation_in; [|symmetry]; apply sort_newest_Perm.
Qed.

Definition Desc (f g : file) : Prop := fnum g <= fnum f.

Lemma insert_newest_sorted f l :
  StronglySorted Desc l -> StronglySorted Desc (insert_newest f l).
Proof.
  induction l as [|g r IH]; intros H; cbn [insert_newest].
  - constructor; auto.
  - inversion H; subst. rewrite Forall_forall in H3.
    destruct (fnum g <? fnum f) eqn:E.
    + constructor; auto. apply Forall_forall. intros x [Hx|Hx]; subst; unfold Desc in *.
      lia. specialize (H3 x Hx). lia.
    + constructor; auto. apply Forall_forall. intros x Hx.
      apply (Permutation_in _ (insert_newest_Perm f r)) in Hx.
      destruct Hx as [Hx|Hx]; subst; unfold Desc; auto. lia. apply H3; auto.
Qed.

Lemma sort_newest_sorted l : StronglySorted Desc (sort_newest l).
Proof.
  induction l as [|f r IH]; cbn [sort_newest fold_right]. constructor.
  apply insert_newest_sorted; auto.
Qed.

Lemma SS_FOP {A} (R : A -> A -> Prop) (l : list A) : StronglySorted R l <-> ForallOrdPairs R l.
Proof.
  induction l as [|a l IH]. split; constructor.
  split; intros H; inversion H; subst; constructor; auto; apply IH; auto.
Qed.

Lemma FOP_conj {A} (R R' : A -> A -> Prop) (l : list A) :
  ForallOrdPairs R l -> ForallOrdPairs R' l -> ForallOrdPairs (fun x y => R x y /\ R' x y) l.
Proof.
  induction 1 as [|a l Ha Hl IH]; intros H'; inversion H'; subst; constructor; auto.
  rewrite Forall_forall in *. intros x Hx; split; auto.
Qed.

Definition NumInj (l : list file) : Prop :=
  forall f g, In f l -> In g l -> fnum f = fnum g -> f = g.

Lemma NoDup_nums_inj l : NoDup (map fnum l) -> NumInj l.
Proof.
  induction l as [|a l IH]; intros H f g Hf Hg Hn. destruct Hf.
  cbn [map] in H. inversion H; subst.
  destruct Hf as [Hf|Hf], Hg as [Hg|Hg]; subst; auto.
  - exfalso. apply H2. rewrite Hn. apply in_map; auto.
  - exfalso. apply H2. rewrite <- Hn. apply in_map; auto.
  - apply IH; auto.
Qed.

Lemma NoDup_nums_FOP l : NoDup (map fnum l) <-> ForallOrdPairs (fun f g => fnum f <> fnum g) l.
Proof.
  induction l as [|a l IH]; cbn [map]. split; constructor.
  split; intros H; inversion H; subst; constructor; try (apply IH; auto).
  - apply Forall_forall. intros x Hx Hn. apply H2. rewrite Hn. apply in_map; auto.
  - intros Hin. apply in_map_iff in Hin. destruct Hin as (x & Hx1 & Hx2).
    rewrite Forall_forall in H2. apply (H2 x Hx2). auto.
Qed.

(* pairs of sort_newest in search order: exactly the pairs with decreasing number *)
Lemma sort_newest_FOP (R : file -> file -> Prop) l :
  NoDup (map fnum l) ->
  (ForallOrdPairs R (sort_newest l) <->
   forall f g, In f l -> In g l -> fnum g < fnum f -> R f g).
Proof.
  intros ND.
  assert (ND': ForallOrdPairs (fun f g => fnum f <> fnum g) (sort_newest l)).
  { apply NoDup_nums_FOP. eapply Permutation_NoDup; [|exact ND].
    apply Permutation_map. symmetry. apply sort_newest_Perm. }
  pose proof (sort_newest_sorted l) as HS. apply SS_FOP in HS.
  pose proof (FOP_conj _ _ _ HS ND') as HC.
  split.
  - intros H f g Hf Hg Hlt.
    pose proof (FOP_conj _ _ _ H HS) as H2.
    rewrite <- (sort_newest_In l f) in Hf. rewrite <- (sort_newest_In l g) in Hg.
    destruct (ForallOrdPairs_In H2 f g Hf Hg) as [E|[[E _]|[_ E]]]; auto.
    + subst. lia.
    + unfold Desc in E. lia.
  - intros H. eapply FOP_impl; [|exact HC].
    intros x y Hx Hy [H1 H2]. rewrite sort_newest_In in Hx, Hy. apply H; auto.
    unfold Desc in H1. lia.
Qed.

End Base.
