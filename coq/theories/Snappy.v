(* Snappy.v -- model of src/util/snappy.c: the decoder (snappy_decode_size,
   snappy_decode / decode_blocks) with checked accesses, and the encoder
   (snappy_encode / encode_block / emit_literal / emit_copy).
   Definitions only; proofs are in SnappyProofs.v. *)
From LCDB Require Export Base Varint Block Trie.
Local Open Scope N_scope.

(* ------------------------------------------------------------------ *)
(* Decoder                                                             *)
(* ------------------------------------------------------------------ *)

(* snappy_decode_size *)
Definition snappy_decode_size (x : bytes) : option N :=
  match varint32_read x with
  | None => None
  | Some (n, _) => if 2147483647 <? n then None else Some n
  end.

(* input cursor: remaining bytes and their count (xn); the count is what the C
   code tests, the list is what it reads *)
Definition take_in (xs : bytes) (n : N) : res (bytes * bytes) :=
  let s := take_n n xs in
  if nlen s =? n then Ok (s, drop_n n xs) else OOB.

(* little-endian number from a short list *)
Fixpoint le_num (l : bytes) : N :=
  match l with
  | [] => 0
  | b :: r => b + 256 * le_num r
  end.

(* for (i = 0; i < len; i++) zp[i] = (zp - off)[i];  on the reversed output *)
Fixpoint copy_bytewise (len : nat) (off : N) (out_rev : bytes) : res bytes :=
  match len with
  | O => Ok out_rev
  | S len' =>
      match nth_error out_rev (N.to_nat (off - 1)) with
      | None => OOB
      | Some b => copy_bytewise len' off (b :: out_rev)
      end
  end.

(* memcpy(zp, zp - off, len) for off >= len *)
Definition copy_block (len off : N) (out_rev : bytes) : res bytes :=
  let seg := take_n len (drop_n (off - len) out_rev) in
  if nlen seg =? len then Ok (seg ++ out_rev) else OOB.

Definition do_copy (len off : N) (out_rev : bytes) : res bytes :=
  if len <=? off then copy_block len off out_rev
  else copy_bytewise (N.to_nat len) off out_rev.

(* decode_blocks.  State: input (xs, xn), output reversed (out_rev), bytes
   written so far (zpos = zp - sp), remaining capacity (zn).
   Result: Ok None = return 0. *)
Fixpoint decode_loop (fuel : bytes) (xs : bytes) (xn : N) (out_rev : bytes) (zpos zn : N)
  : res (option bytes) :=
  if xn =? 0 then
    (if zn =? 0 then Ok (Some (rev' out_rev)) else Ok None)
  else
    match fuel with
    | [] => Ok None     (* unreachable: every iteration consumes input *)
    | _ :: fuel' =>
      match xs with
      | [] => OOB
      | b0 :: xs1 =>
        let tag := b0 mod 4 in
        if tag =? 0 then
          (* TAG_LITERAL *)
          let x := b0 / 4 in
          let xn1 := xn - 1 in
          let nb := if x <? 60 then 0 else x - 59 in     (* extra length bytes *)
          if xn1 <? nb then Ok None
          else
            '(lb, xs2) <~ take_in xs1 nb ;;
            let x := if x <? 60 then x else le_num lb in
            let xn2 := xn1 - nb in
            if 2147483647 <=? x then Ok None
            else
              let len := x + 1 in
              if (zn <? len) || (xn2 <? len) then Ok None
              else
                '(lit, xs3) <~ take_in xs2 len ;;
                decode_loop fuel' xs3 (xn2 - len) (rev_append lit out_rev) (zpos + len) (zn - len)
        else
          let hdr := if tag =? 1 then 2 else if tag =? 2 then 3 else 5 in
          if xn <? hdr then Ok None
          else
            '(ob, xs2) <~ take_in xs1 (hdr - 1) ;;
            let len := if tag =? 1 then 4 + (b0 / 4) mod 8 else 1 + b0 / 4 in
            let off := if tag =? 1 then (b0 / 32) * 256 + le_num ob else le_num ob in
            if (off =? 0) || (2147483648 <=? off) then Ok None
            else if (zpos <? off) || (zn <? len) then Ok None
            else
              out' <~ do_copy len off out_rev ;;
              decode_loop fuel' xs2 (xn - hdr) out' (zpos + len) (zn - len)
      end
    end.

(* snappy_decode: the caller allocated snappy_decode_size bytes *)
Definition snappy_decode (x : bytes) : res (option bytes) :=
  match varint32_read x with
  | None => Ok None
  | Some (zn, rest) =>
      if 2147483647 <? zn then Ok None
      else decode_loop x rest (nlen rest) [] 0 zn
  end.
