(* Snappy.v -- model of src/util/snappy.c: the decoder (snappy_decode_size,
   snappy_decode / decode_blocks) with checked accesses, and the encoder
   (snappy_encode / encode_block / emit_literal / emit_copy).
   Definitions only; proofs are in SnappyProofs.v. *)
From LCDB Require Export Base Varint Block Trie.
Local Open Scope N_scope.

(* ------------------------------------------------------------------ *)
(* Decoder                                                             *)
(* ------------------------------------------------------------------ *)

(* snappy_decode_size *)
Definition snappy_decode_size (x : bytes) : option N :=
  match varint32_read x with
  | None => None
  | Some (n, _) => if 2147483647 <? n then None else Some n
  end.

(* input cursor: remaining bytes and their count (xn); the count is what the C
   code tests, the list is what it reads *)
Definition take_in (xs : bytes) (n : N) : res (bytes * bytes) :=
  let s := take_n n xs in
  if nlen s =? n then Ok (s, drop_n n xs) else OOB.

(* little-endian number from a short list *)
Fixpoint le_num (l : bytes) : N :=
  match l with
  | [] => 0
  | b :: r => b + 256 * le_num r
  end.

(* for (i = 0; i < len; i++) zp[i] = (zp - off)[i];  on the reversed output *)
Fixpoint copy_bytewise (len : nat) (off : N) (out_rev : bytes) : res bytes :=
  match len with
  | O => Ok out_rev
  | S len' =>
      match nth_error out_rev (N.to_nat (off - 1)) with
      | None => OOB
      | Some b => copy_bytewise len' off (b :: out_rev)
      end
  end.

(* memcpy(zp, zp - off, len) for off >= len *)
Definition copy_block (len off : N) (out_rev : bytes) : res bytes :=
  let seg := take_n len (drop_n (off - len) out_rev) in
  if nlen seg =? len then Ok (seg ++ out_rev) else OOB.

Definition do_copy (len off : N) (out_rev : bytes) : res bytes :=
  if len <=? off then copy_block len off out_rev
  else copy_bytewise (N.to_nat len) off out_rev.

(* decode_blocks.  State: input (xs, xn), output reversed (out_rev), bytes
   written so far (zpos = zp - sp), remaining capacity (zn).
   Result: Ok None = return 0. *)
Fixpoint decode_loop (fuel : bytes) (xs : bytes) (xn : N) (out_rev : bytes) (zpos zn : N)
  : res (option bytes) :=
  if xn =? 0 then
    (if zn =? 0 then Ok (Some (rev' out_rev)) else Ok None)
  else
    match fuel with
    | [] => Ok None     (* unreachable: every iteration consumes input *)
    | _ :: fuel' =>
      match xs with
      | [] => OOB
      | b0 :: xs1 =>
        let tag := b0 mod 4 in
        if tag =? 0 then
          (* TAG_LITERAL *)
          let x := b0 / 4 in
          let xn1 := xn - 1 in
          let nb := if x <? 60 then 0 else x - 59 in     (* extra length bytes *)
          if xn1 <? nb then Ok None
          else
            '(lb, xs2) <~ take_in xs1 nb ;;
            let x := if x <? 60 then x else le_num lb in
            let xn2 := xn1 - nb in
            if 2147483647 <=? x then Ok None
            else
              let len := x + 1 in
              if (zn <? len) || (xn2 <? len) then Ok None
              else
                '(lit, xs3) <~ take_in xs2 len ;;
                decode_loop fuel' xs3 (xn2 - len) (rev_append lit out_rev) (zpos + len) (zn - len)
        else
          let hdr := if tag =? 1 then 2 else if tag =? 2 then 3 else 5 in
          if xn <? hdr then Ok None
          else
            '(ob, xs2) <~ take_in xs1 (hdr - 1) ;;
            let len := if tag =? 1 then 4 + (b0 / 4) mod 8 else 1 + b0 / 4 in
            let off := if tag =? 1 then (b0 / 32) * 256 + le_num ob else le_num ob in
            if (off =? 0) || (2147483648 <=? off) then Ok None
            else if (zpos <? off) || (zn <? len) then Ok None
            else
              out' <~ do_copy len off out_rev ;;
              decode_loop fuel' xs2 (xn - hdr) out' (zpos + len) (zn - len)
      end
    end.

(* snappy_decode: the caller allocated snappy_decode_size bytes *)
Definition snappy_decode (x : bytes) : res (option bytes) :=
  match varint32_read x with
  | None => Ok None
  | Some (zn, rest) =>
      if 2147483647 <? zn then Ok None
      else decode_loop x rest (nlen rest) [] 0 zn
  end.

(* ------------------------------------------------------------------ *)
(* Encoder (snappy_encode, encode_block, emit_literal, emit_copy)      *)
(* The input block is loaded into a trie for the random accesses       *)
(* (load32 / load64 / xp[i]); the uint16 hash table is a trie as well. *)
(* ------------------------------------------------------------------ *)
Definition MAX_TABLE_SIZE : N := 2048.
Definition INPUT_MARGIN : N := 15.
Definition MIN_BLOCK_SIZE : N := 17.
Definition MAX_BLOCK_SIZE : N := 65536.

(* hash32: (x * 0x1e35a7bd) >> shift on uint32 (the argument is truncated) *)
Definition hash32 (x shift : N) : N :=
  (((x mod two32) * 506832829) mod two32) / 2 ^ shift.

Definition ld32 (m : trie) (i : N) : N :=
  tget i m + 256 * tget (i + 1) m + 65536 * tget (i + 2) m + 16777216 * tget (i + 3) m.
Definition ld64 (m : trie) (i : N) : N := ld32 m i + 4294967296 * ld32 m (i + 4).

Fixpoint load_trie (l : bytes) (i : N) (m : trie) : trie :=
  match l with
  | [] => m
  | b :: r => load_trie r (N.succ i) (tset i b m)
  end.

(* emit_literal: tag bytes ++ literal *)
Definition emit_literal (lit : bytes) : bytes :=
  let n := nlen lit - 1 in
  (if n <? 60 then [n * 4]
   else if n <? 256 then [240; n]
   else [244; n mod 256; (n / 256) mod 256]) ++ lit.

(* emit_copy *)
Fixpoint emit_copy_loop (fuel : nat) (off len : N) : bytes * N :=
  match fuel with
  | O => ([], len)
  | S f =>
      if 68 <=? len then
        let '(bs, len') := emit_copy_loop f off (len - 64) in
        (254 :: off mod 256 :: (off / 256) mod 256 :: bs, len')
      else ([], len)
  end.

Definition emit_copy (off len : N) : bytes :=
  let '(b1, len1) := emit_copy_loop (N.to_nat (len / 64)) off len in
  let '(b2, len2) :=
    if 64 <? len1 then ([238; off mod 256; (off / 256) mod 256], len1 - 60) else ([], len1) in
  b1 ++ b2 ++
  (if (12 <=? len2) || (2048 <=? off)
   then [((len2 - 1) * 4 + 2) mod 256; off mod 256; (off / 256) mod 256]
   else [((off / 256) * 32 + (len2 - 4) * 4 + 1) mod 256; off mod 256]).

(* while (pos < xn && xp[chk] == xp[pos]) chk++, pos++;  returns pos *)
Fixpoint match_extend (fuel : bytes) (m : trie) (xn chk pos : N) : N :=
  match fuel with
  | [] => pos
  | _ :: f =>
      if (pos <? xn) && (tget chk m =? tget pos m) then match_extend f m xn (chk + 1) (pos + 1)
      else pos
  end.

(* the inner for(;;) of the outer loop: None = goto finish;
   Some (pos, cand, next, table) = break *)
Fixpoint enc_scan (fuel : bytes) (m : trie) (limit shift : N)
                  (npos skip next : N) (table : trie) : option (N * N * N * trie) :=
  match fuel with
  | [] => None
  | _ :: f =>
      let pos := npos in
      let npos' := pos + skip / 32 in
      let skip' := skip + skip / 32 in
      if limit <? npos' then None
      else
        let cand := tget next table in
        let table' := tset next pos table in
        let next' := hash32 (ld32 m npos') shift in
        if ld32 m pos =? ld32 m cand then Some (pos, cand, next', table')
        else enc_scan f m limit shift npos' skip' next' table'
  end.

(* the second for(;;): emits copies.
   inl (out, emit) = goto finish; inr (pos, next, table, out, emit) = break *)
Fixpoint enc_copies (fuel : bytes) (m : trie) (xn limit shift : N)
                    (pos cand : N) (table : trie) (out : list bytes)
  : (list bytes * N) + (N * N * trie * list bytes * N) :=
  match fuel with
  | [] => inl (out, pos)
  | _ :: f =>
      let base := pos in
      let pos1 := match_extend fuel m xn (cand + 4) (pos + 4) in
      let out1 := emit_copy (base - cand) (pos1 - base) :: out in
      if limit <=? pos1 then inl (out1, pos1)
      else
        let x := ld64 m (pos1 - 1) in
        let prev := hash32 x shift in
        let table1 := tset prev (pos1 - 1) table in
        let cur := hash32 (x / 256) shift in
        let cand1 := tget cur table1 in
        let table2 := tset cur pos1 table1 in
        if negb (x / 256 =? ld32 m cand1) then
          inr (pos1 + 1, hash32 (x / 65536) shift, table2, out1, pos1)
        else enc_copies f m xn limit shift pos1 cand1 table2 out1
  end.

(* the outer for(;;); [erest] = the input from offset [emit] on.
   Returns the output chunks (most recent first) and the final emit / erest. *)
Fixpoint enc_outer (fuel : bytes) (m : trie) (xn limit shift : N)
                   (pos next : N) (table : trie) (emit : N) (erest : bytes) (out : list bytes)
  : list bytes * N * bytes :=
  match fuel with
  | [] => (out, emit, erest)
  | _ :: f =>
      match enc_scan fuel m limit shift pos 32 next table with
      | None => (out, emit, erest)
      | Some (pos1, cand, next1, table1) =>
          let out1 := emit_literal (take_n (pos1 - emit) erest) :: out in
          match enc_copies fuel m xn limit shift pos1 cand table1 out1 with
          | inl (out2, emit2) => (out2, emit2, drop_n (emit2 - emit) erest)
          | inr (pos2, next2, table2, out2, emit2) =>
              enc_outer f m xn limit shift pos2 next2 table2 emit2 (drop_n (emit2 - emit) erest) out2
          end
      end
  end.

(* while (size < MAX_TABLE_SIZE && size < xn) { size *= 2; shift--; } *)
Fixpoint enc_shift (fuel : nat) (size shift xn : N) : N :=
  match fuel with
  | O => shift
  | S f => if (size <? MAX_TABLE_SIZE) && (size <? xn) then enc_shift f (size * 2) (shift - 1) xn
           else shift
  end.

(* encode_block: output chunks, most recent first *)
Definition encode_block (blk : bytes) (out : list bytes) : list bytes :=
  let xn := nlen blk in
  let m := load_trie blk 0 TLeaf in
  let shift := enc_shift 8 256 24 xn in
  let next := hash32 (ld32 m 1) shift in
  let '(out1, emit, erest) := enc_outer blk m xn (xn - INPUT_MARGIN) shift 1 next TLeaf 0 blk out in
  if emit <? xn then emit_literal erest :: out1 else out1.

Fixpoint encode_blocks (fuel : nat) (x : bytes) (xn : N) (out : list bytes) : list bytes :=
  match fuel with
  | O => out
  | S f =>
      if MAX_BLOCK_SIZE <=? xn then
        encode_blocks f (drop_n MAX_BLOCK_SIZE x) (xn - MAX_BLOCK_SIZE)
                      (encode_block (take_n MAX_BLOCK_SIZE x) out)
      else if 0 <? xn then
        (if MIN_BLOCK_SIZE <=? xn then encode_block x out else emit_literal x :: out)
      else out
  end.

(* snappy_encode *)
Definition snappy_encode (x : bytes) : bytes :=
  let xn := nlen x in
  concat (rev (encode_blocks (S (N.to_nat (xn / MAX_BLOCK_SIZE))) x xn [varint32_write (xn mod two32)])).
