(* Memtable.v -- model of src/memtable.c over the skiplist model (Skiplist.v).

   A memtable entry is the byte string
     varint32(|user_key| + 8) ++ user_key ++ fixed64((seq << 8) | type)
       ++ varint32(|value|) ++ value
   (ldb_memtable_add); the skiplist stores these strings and orders them with
   ldb_skiplist_compare = internal-key comparator over the length-prefixed contents.
   ldb_memtable_get seeks with the lookup key (IKey.lkey_build), compares USER keys
   with the user comparator and switches on the type byte.  The memtable iterator
   (the ldb_memiter functions) is the skiplist iterator plus the two decodes.
   Definitions only; proofs are in MemtableProofs.v. *)
From LCDB Require Export Base Varint IKey Engine Skiplist.
From LCDB Require Import Comparators.
Local Open Scope N_scope.

(* ldb_slice_decode (slice.h): varint32 length, then that many bytes -- no bounds
   check in C (the caller guarantees a well-formed prefix); returns contents and rest *)
Definition mt_slice_decode (l : bytes) : bytes * bytes :=
  match varint32_read l with
  | Some (n, rest) => (take_n n rest, drop_n n rest)
  | None => ([], [])
  end.

(* ldb_memtable_add: the bytes handed to ldb_skiplist_insert (lengths are truncated to
   uint32 by ldb_varint32_write's parameter type) *)
Definition mem_entry_encode (user_key : bytes) (seq ty : N) (value : bytes) : bytes :=
  varint32_write ((nlen user_key + 8) mod 4294967296) ++ user_key ++ le64 (pack_seqtype seq ty)
    ++ varint32_write (nlen value mod 4294967296) ++ value.

(* the inverse: (user_key, seq, type, value) *)
Definition mem_entry_decode (e : bytes) : option (bytes * N * N * bytes) :=
  match slice_read e with
  | None => None
  | Some (ik, rest) =>
      if nlen ik <? 8 then None
      else match slice_read rest with
           | None => None
           | Some (v, _) => Some (ikey_user ik, ikey_tag ik / 256, ikey_tag ik mod 256, v)
           end
  end.

Section WithUserComparator.
Variable ucmp : bytes -> bytes -> comparison.

(* ldb_ikc_compare *)
Definition ikc_compare (a b : bytes) : comparison :=
  match ucmp (ikey_user a) (ikey_user b) with
  | Eq => N.compare (ikey_tag b) (ikey_tag a)
  | c => c
  end.

(* ldb_skiplist_compare *)
Definition mt_compare (x y : bytes) : comparison :=
  ikc_compare (fst (mt_slice_decode x)) (fst (mt_slice_decode y)).

Definition memtable := skiplist bytes.

Definition memtable_add (mt : memtable) (height : nat) (seq ty : N) (key value : bytes) : memtable :=
  sl_insert mt_compare mt (mem_entry_encode key seq ty value) height.

(* ldb_memtable_get *)
Definition memtable_get (mt : memtable) (user_key : bytes) (seq : N) : lookup :=
  match it_seek mt_compare mt (lkey_memtable_key user_key seq) with
  | None => NotHere
  | Some n =>
      match node_key mt n with
      | None => NotHere
      | Some e =>
          let '(okey, rest) := mt_slice_decode e in
          match ucmp (ikey_user okey) user_key with
          | Eq =>
              let ty := ikey_tag okey mod 256 in
              if ty =? TYPE_VALUE then Found (fst (mt_slice_decode rest))
              else if ty =? TYPE_DELETION then Deleted
              else NotHere
          | _ => NotHere
          end
      end
  end.

(* ---- the memtable iterator ---- *)
Definition memiter_seek (mt : memtable) (target : bytes) : option nat :=
  it_seek mt_compare mt (slice_write target).           (* ldb_slice_export into tmp *)
Definition memiter_prev (mt : memtable) (n : nat) : option nat := it_prev mt_compare mt n.
Definition memiter_kv (mt : memtable) (n : nat) : option (bytes * bytes) :=
  match node_key mt n with
  | None => None
  | Some e => let '(k, rest) := mt_slice_decode e in Some (k, fst (mt_slice_decode rest))
  end.

Definition memiter_step (mt : memtable) (it : option nat) (op : skop) : option nat :=
  match op with
  | SkFirst => it_first mt
  | SkLast => it_last mt
  | SkSeek t => memiter_seek mt t
  | SkNext => match it with Some n => it_next mt n | None => None end
  | SkPrev => match it with Some n => memiter_prev mt n | None => None end
  end.

Fixpoint memiter_run (mt : memtable) (it : option nat) (ops : list skop) : list (option (bytes * bytes)) :=
  match ops with
  | [] => []
  | op :: r =>
      let it' := memiter_step mt it op in
      (match it' with Some n => memiter_kv mt n | None => None end) :: memiter_run mt it' r
  end.

(* a batch of adds with given heights *)
Fixpoint memtable_add_all (mt : memtable) (adds : list (N * N * bytes * bytes)) (hs : list nat) : memtable :=
  match adds, hs with
  | (seq, ty, k, v) :: r, h :: hr => memtable_add_all (memtable_add mt h seq ty k v) r hr
  | _, _ => mt
  end.

End WithUserComparator.

(* the abstraction the engine model uses: an add is an [entry] *)
Definition entry_of_add (a : N * N * bytes * bytes) : entry :=
  let '(seq, ty, k, v) := a in mkE k seq (ty =? TYPE_VALUE) v.

(* ------------------------------------------------------------------ *)
(* the [memtable] command of the differential                           *)
(* ------------------------------------------------------------------ *)
(* comparator selector of the drivers: 0 bytewise, 1 reverse bytewise, 2 case-insensitive *)
Definition user_cmp (sel : N) : bytes -> bytes -> comparison :=
  if sel =? 1 then (fun a b => bytes_compare b a)
  else if sel =? 2 then ci_compare
  else bytes_compare.

Definition SKIPLIST_SEED : N := 3735928559.      (* ldb_rand_init(&list->rnd, 0xdeadbeef) *)

Definition memtable_script (sel : N) (adds : list (N * N * bytes * bytes))
           (gets : list (bytes * N)) (ops : list skop)
  : list lookup * list (option (bytes * bytes)) :=
  let ucmp := user_cmp sel in
  let hs := rand_heights (length adds) (rand_init SKIPLIST_SEED) in
  let mt := memtable_add_all ucmp sl_empty adds hs in
  (map (fun g => memtable_get ucmp mt (fst g) (snd g)) gets, memiter_run ucmp mt None ops).
