(* CrcBurstTable.v -- CrcBurst.v carried to [read_block] (TableFormat.v):
   a stored block  data ++ [type] ++ le32 (masked crc)  whose contents, type
   byte or checksum field have been altered is answered with a Corruption
   status when checksum verification is on, for every alteration that
   [table_crc_ok] rejects (CrcBurst.v: every burst of at most 32 bits in
   data ++ [type], every alteration confined to the checksum field). *)
From LCDB Require Import Base Varint Crc32c Block Snappy TableFormat.
From LCDB Require Import BaseProofs VarintProofs Crc32cProofs BlockProofs FilterProofs
  TableProofs TableBuildProofs CrcBurst.
From Coq Require Import Lia ZifyBool ZifyNat ZifyN.
Local Open Scope N_scope.

#[local] Arguments N.mul : simpl never.
#[local] Arguments N.add : simpl never.
#[local] Arguments N.ltb : simpl never.
#[local] Arguments N.eqb : simpl never.
#[local] Arguments crc_value : simpl never.
#[local] Arguments crc_unmask : simpl never.

(* [read_block] on a file holding, at handle (|pre|, |dat|), the bytes
   dat ++ [ty; c0; c1; c2; c3] whose checksum comparison fails. *)
Theorem read_block_crc_bad : forall pre dat ty c0 c1 c2 c3 post file,
  file = pre ++ (dat ++ [ty; c0; c1; c2; c3]) ++ post ->
  nlen file < 18446744073709551616 ->
  table_crc_ok c0 c1 c2 c3 (dat ++ [ty]) = false ->
  read_block file (nlen file) true (nlen pre, nlen dat) = Ok (RBerr SCorruption).
Proof.
  intros pre dat ty c0 c1 c2 c3 post file Hf Hlen Hbad.
  set (off := nlen pre). set (n := nlen dat).
  assert (Hsz : nlen file = off + (n + 5) + nlen post).
  { rewrite Hf. unfold off, n, nlen. rewrite !app_length. cbn [length]. lia. }
  unfold read_block.
  replace (18446744073709551610 <? n) with false by lia.
  unfold TRAILER_SIZE.
  replace (nlen file <? off + (n + 5)) with false by lia.
  rewrite slice_ok by (auto; lia). cbn [rbind].
  assert (Hc : take_n (n + 5) (drop_n off file) = dat ++ [ty; c0; c1; c2; c3]).
  { rewrite Hf. rewrite drop_n_app_exact by reflexivity.
    apply take_n_app_exact. unfold n, nlen. rewrite app_length. cbn [length]. lia. }
  rewrite Hc.
  rewrite (take_n_app_exact dat [ty; c0; c1; c2; c3] n) by reflexivity.
  rewrite (drop_n_app_exact dat [ty; c0; c1; c2; c3] n) by reflexivity.
  change (dat ++ [ty; c0; c1; c2; c3]) with (dat ++ [ty] ++ [c0; c1; c2; c3]).
  rewrite app_assoc.
  rewrite take_n_app_exact
    by (unfold n, nlen; rewrite app_length; cbn [length]; lia).
  unfold table_crc_ok in Hbad. rewrite Hbad. cbn [negb]. reflexivity.
Qed.

(* Contents and/or type byte altered by a burst of at most 32 bits. *)
Theorem read_block_rejects_altered_block :
  forall pre data ty data' ty' c0 c1 c2 c3 post file,
  wf_bytes (data ++ [ty]) = true -> wf_bytes (data' ++ [ty']) = true ->
  length data' = length data ->
  data' ++ [ty'] <> data ++ [ty] ->
  burst_le_32 (xor_bytes (data' ++ [ty']) (data ++ [ty])) ->
  le32 (crc_mask (crc_extend (crc_value data) [ty])) = [c0; c1; c2; c3] ->
  file = pre ++ (data' ++ [ty'; c0; c1; c2; c3]) ++ post ->
  nlen file < 18446744073709551616 ->
  read_block file (nlen file) true (nlen pre, nlen data') = Ok (RBerr SCorruption).
Proof.
  intros pre data ty data' ty' c0 c1 c2 c3 post file Hwf Hwf' Hlen Hne Hb Hc Hf Hsz.
  apply (read_block_crc_bad pre data' ty' c0 c1 c2 c3 post file Hf Hsz).
  apply (table_block_alteration_detected data ty); try assumption.
  rewrite !app_length, Hlen. reflexivity.
Qed.

(* One byte of data ++ [type] overwritten by a different value. *)
Theorem read_block_rejects_byte_overwrite :
  forall pre data ty data' ty' a b b' z c0 c1 c2 c3 post file,
  wf_bytes (data ++ [ty]) = true ->
  data ++ [ty] = a ++ b :: z -> data' ++ [ty'] = a ++ b' :: z ->
  b' < 256 -> b' <> b ->
  le32 (crc_mask (crc_extend (crc_value data) [ty])) = [c0; c1; c2; c3] ->
  file = pre ++ (data' ++ [ty'; c0; c1; c2; c3]) ++ post ->
  nlen file < 18446744073709551616 ->
  read_block file (nlen file) true (nlen pre, nlen data') = Ok (RBerr SCorruption).
Proof.
  intros pre data ty data' ty' a b b' z c0 c1 c2 c3 post file Hwf E E' Hb' Hne Hc Hf Hsz.
  apply (read_block_crc_bad pre data' ty' c0 c1 c2 c3 post file Hf Hsz).
  rewrite E'. apply (table_block_byte_overwrite_detected data ty a b z b'); assumption.
Qed.

(* One bit of data ++ [type] flipped. *)
Theorem read_block_rejects_bit_flip :
  forall pre data ty data' ty' a b j z c0 c1 c2 c3 post file,
  wf_bytes (data ++ [ty]) = true ->
  data ++ [ty] = a ++ b :: z -> data' ++ [ty'] = a ++ N.lxor b (2 ^ j) :: z ->
  j < 8 ->
  le32 (crc_mask (crc_extend (crc_value data) [ty])) = [c0; c1; c2; c3] ->
  file = pre ++ (data' ++ [ty'; c0; c1; c2; c3]) ++ post ->
  nlen file < 18446744073709551616 ->
  read_block file (nlen file) true (nlen pre, nlen data') = Ok (RBerr SCorruption).
Proof.
  intros pre data ty data' ty' a b j z c0 c1 c2 c3 post file Hwf E E' Hj Hc Hf Hsz.
  apply (read_block_crc_bad pre data' ty' c0 c1 c2 c3 post file Hf Hsz).
  rewrite E'. apply (table_block_bit_flip_detected data ty a b z j); assumption.
Qed.

(* Only the four checksum bytes altered. *)
Theorem read_block_rejects_altered_crc_field :
  forall pre data ty c0 c1 c2 c3 c0' c1' c2' c3' post file,
  wf_bytes (data ++ [ty]) = true ->
  le32 (crc_mask (crc_extend (crc_value data) [ty])) = [c0; c1; c2; c3] ->
  c0' < 256 -> c1' < 256 -> c2' < 256 -> c3' < 256 ->
  [c0'; c1'; c2'; c3'] <> [c0; c1; c2; c3] ->
  file = pre ++ (data ++ [ty; c0'; c1'; c2'; c3']) ++ post ->
  nlen file < 18446744073709551616 ->
  read_block file (nlen file) true (nlen pre, nlen data) = Ok (RBerr SCorruption).
Proof.
  intros pre data ty c0 c1 c2 c3 c0' c1' c2' c3' post file Hwf Hc H0 H1 H2 H3 Hne Hf Hsz.
  apply (read_block_crc_bad pre data ty c0' c1' c2' c3' post file Hf Hsz).
  apply (table_block_crc_field_alteration_detected data ty c0 c1 c2 c3); assumption.
Qed.

Print Assumptions read_block_rejects_altered_block.
Print Assumptions read_block_rejects_byte_overwrite.
Print Assumptions read_block_rejects_bit_flip.
Print Assumptions read_block_rejects_altered_crc_field.
