(* FilenameProofs.v -- proofs about Filename.v: ldb_decode_int inverts
   ldb_encode_int for every uint64, and ldb_parse_filename recognises every name
   produced by the constructors with the right type and number. *)
From LCDB Require Import Base BaseProofs Filename.
From Coq Require Import Lia ZifyBool ZifyNat ZifyN.
Local Open Scope N_scope.

Ltac Zify.zify_post_hook ::= Z.div_mod_to_equations.

#[local] Arguments N.mul : simpl never.
#[local] Arguments N.add : simpl never.
#[local] Arguments N.sub : simpl never.
#[local] Arguments N.div : simpl never.
#[local] Arguments N.modulo : simpl never.
#[local] Arguments N.ltb : simpl never.
#[local] Arguments N.leb : simpl never.
#[local] Arguments N.eqb : simpl never.

Fixpoint pow10 (n : nat) : N :=
  match n with O => 1 | S k => 10 * pow10 k end.

Lemma pow10_pos : forall n, 0 < pow10 n.
Proof. induction n as [|n IH]; cbn [pow10]; lia. Qed.

Lemma pow10_mono : forall a b, (a <= b)%nat -> pow10 a <= pow10 b.
Proof.
  intros a b H. induction H as [|b H IH]; [lia|].
  cbn [pow10]. pose proof (pow10_pos b). lia.
Qed.

Lemma pow10_21 : pow10 21 = 1000000000000000000000.
Proof. reflexivity. Qed.

(* ---- ldb_size_int ---- *)
Lemma size_int_fuel_pos : forall f x, (1 <= size_int_fuel f x)%nat.
Proof. intros [|f] x; cbn [size_int_fuel]; [lia|]. destruct (x / 10 =? 0); lia. Qed.

Lemma size_int_fuel_bound : forall f x,
  x < pow10 (S f) -> x < pow10 (size_int_fuel f x).
Proof.
  induction f as [|f IH]; intros x Hx.
  - exact Hx.
  - cbn [size_int_fuel]. destruct (x / 10 =? 0) eqn:Hq.
    + apply N.eqb_eq in Hq. cbn [pow10]. lia.
    + change (pow10 (S (S f))) with (10 * pow10 (S f)) in Hx.
      assert (Hd : x / 10 < pow10 (S f)) by (remember (pow10 (S f)) as p; lia).
      apply IH in Hd. change (pow10 (S (size_int_fuel f (x / 10))))
        with (10 * pow10 (size_int_fuel f (x / 10))).
      remember (pow10 (size_int_fuel f (x / 10))) as p. lia.
Qed.

Lemma size_int_bound : forall x, x < 18446744073709551616 -> x < pow10 (size_int x).
Proof.
  intros x Hx. unfold size_int. apply size_int_fuel_bound. rewrite pow10_21. lia.
Qed.

(* ---- ldb_encode_int ---- *)
Lemma encode_int_loop_acc : forall n x acc,
  encode_int_loop n x acc = encode_int_loop n x [] ++ acc.
Proof.
  induction n as [|n IH]; intros x acc; cbn [encode_int_loop].
  - reflexivity.
  - rewrite (IH (x / 10) ((48 + x mod 10) :: acc)).
    rewrite (IH (x / 10) [48 + x mod 10]).
    rewrite <- app_assoc. reflexivity.
Qed.

Definition is_digit (c : N) : Prop := 48 <= c /\ c <= 57.

Lemma encode_int_loop_digits : forall n x acc,
  Forall is_digit acc -> Forall is_digit (encode_int_loop n x acc).
Proof.
  induction n as [|n IH]; intros x acc H; cbn [encode_int_loop].
  - exact H.
  - apply IH. constructor; [|exact H]. unfold is_digit. lia.
Qed.

Lemma encode_int_loop_length : forall n x acc,
  length (encode_int_loop n x acc) = (n + length acc)%nat.
Proof.
  induction n as [|n IH]; intros x acc; cbn [encode_int_loop].
  - reflexivity.
  - rewrite IH. cbn [length]. lia.
Qed.

Lemma encode_int_digits : forall x pad, Forall is_digit (encode_int x pad).
Proof. intros. unfold encode_int. apply encode_int_loop_digits. constructor. Qed.

Lemma encode_int_length : forall x pad,
  length (encode_int x pad) = Nat.max (size_int x) pad.
Proof. intros. unfold encode_int. rewrite encode_int_loop_length. cbn [length]. lia. Qed.

Lemma encode_int_cons : forall x pad,
  exists d ds, encode_int x pad = d :: ds /\ is_digit d.
Proof.
  intros x pad. pose proof (encode_int_digits x pad) as Hd.
  pose proof (encode_int_length x pad) as Hl.
  pose proof (size_int_fuel_pos 20 x) as Hp. fold (size_int x) in Hp.
  destruct (encode_int x pad) as [|d ds]; [cbn [length] in Hl; lia|].
  exists d, ds. split; [reflexivity|]. inversion Hd; assumption.
Qed.

(* ---- ldb_decode_int on the digits written by ldb_encode_int ---- *)
Lemma decode_int_loop_digit : forall ch r x,
  is_digit ch ->
  x * 10 + (ch - 48) < 18446744073709551616 ->
  decode_int_loop (ch :: r) x = decode_int_loop r (x * 10 + (ch - 48)).
Proof.
  intros ch r x [H1 H2] Hb. cbn [decode_int_loop].
  replace (ch <? 48) with false by (symmetry; apply N.ltb_ge; lia).
  replace (57 <? ch) with false by (symmetry; apply N.ltb_ge; lia).
  cbn [orb]. unfold DECODE_LIMIT, DECODE_LAST.
  destruct (1844674407370955161 <? x) eqn:E1.
  - apply N.ltb_lt in E1. lia.
  - cbn [orb]. destruct (x =? 1844674407370955161) eqn:E2.
    + apply N.eqb_eq in E2. cbn [andb].
      replace (53 <? ch) with false by (symmetry; apply N.ltb_ge; lia). reflexivity.
    + reflexivity.
Qed.

Lemma decode_encode_gen : forall n x v tail,
  x < pow10 n ->
  v * pow10 n + x < 18446744073709551616 ->
  decode_int_loop (encode_int_loop n x tail) v = decode_int_loop tail (v * pow10 n + x).
Proof.
  induction n as [|n IH]; intros x v tail Hx Hb.
  - cbn [pow10] in *. cbn [encode_int_loop]. f_equal. lia.
  - cbn [encode_int_loop]. change (pow10 (S n)) with (10 * pow10 n) in *.
    remember (pow10 n) as p eqn:Hp.
    assert (Hq : x / 10 < p) by lia.
    rewrite IH by lia.
    rewrite decode_int_loop_digit.
    + f_equal. lia.
    + unfold is_digit. lia.
    + lia.
Qed.

Definition stops (rest : bytes) : Prop :=
  match rest with [] => True | c :: _ => c < 48 \/ 57 < c end.

Lemma decode_int_loop_stops : forall rest x,
  stops rest -> decode_int_loop rest x = Some (x, rest).
Proof.
  intros [|c r] x H; cbn [decode_int_loop]; [reflexivity|].
  cbn [stops] in H.
  destruct H as [H|H].
  - replace (c <? 48) with true by (symmetry; apply N.ltb_lt; lia). reflexivity.
  - replace (57 <? c) with true by (symmetry; apply N.ltb_lt; lia).
    rewrite orb_true_r. reflexivity.
Qed.

Theorem decode_int_encode_int : forall x pad rest,
  x < 18446744073709551616 -> stops rest ->
  decode_int (encode_int x pad ++ rest) = Some (x, rest).
Proof.
  intros x pad rest Hx Hs. unfold decode_int, encode_int.
  rewrite <- encode_int_loop_acc.
  assert (Hlt : x < pow10 (Nat.max (size_int x) pad)).
  { eapply N.lt_le_trans; [apply size_int_bound; exact Hx|]. apply pow10_mono. lia. }
  rewrite decode_encode_gen by (first [exact Hlt | lia]).
  replace (0 * pow10 (Nat.max (size_int x) pad) + x) with x by lia.
  rewrite decode_int_loop_stops by exact Hs.
  rewrite encode_int_loop_length.
  pose proof (size_int_fuel_pos 20 x) as Hp. fold (size_int x) in Hp.
  replace (Nat.eqb (length rest) (Nat.max (size_int x) pad + length rest)) with false
    by (symmetry; apply Nat.eqb_neq; lia).
  reflexivity.
Qed.

(* ---- C strings ---- *)
Lemma cstr_nonzero : forall l, Forall (fun c => c <> 0) l -> cstr l = l.
Proof.
  induction l as [|c l IH]; intros H; cbn [cstr]; [reflexivity|].
  inversion H as [|c' l' Hc Hl]; subst.
  replace (c =? 0) with false by (symmetry; apply N.eqb_neq; exact Hc).
  rewrite IH by exact Hl. reflexivity.
Qed.

Lemma digits_nonzero : forall l, Forall is_digit l -> Forall (fun c => c <> 0) l.
Proof.
  intros l H. eapply Forall_impl; [|exact H]. unfold is_digit. intros; lia.
Qed.

Lemma bytes_eqb_head_neq : forall a b ta tb, a <> b -> bytes_eqb (a :: ta) (b :: tb) = false.
Proof.
  intros a b ta tb H. unfold bytes_eqb. cbn [list_eqb].
  replace (a =? b) with false by (symmetry; apply N.eqb_neq; exact H). reflexivity.
Qed.

Lemma starts_with_head_neq : forall a b ta tb, a <> b -> starts_with (a :: ta) (b :: tb) = false.
Proof.
  intros a b ta tb H. cbn [starts_with].
  replace (a =? b) with false by (symmetry; apply N.eqb_neq; exact H). reflexivity.
Qed.

Lemma starts_with_app : forall p t, starts_with (p ++ t) p = true.
Proof.
  induction p as [|c p IH]; intros t; cbn [app starts_with]; [destruct t; reflexivity|].
  rewrite N.eqb_refl. apply IH.
Qed.

(* ---- <number><suffix> names ---- *)
Definition suffix_ok (suf : bytes) : Prop :=
  Forall (fun c => c <> 0) suf /\ stops suf.

Lemma parse_numbered : forall n suf,
  n < 18446744073709551616 -> suffix_ok suf ->
  parse_filename (encode_int n 6 ++ suf) =
    if bytes_eqb suf s_dot_log then Some (FLog, n)
    else if bytes_eqb suf s_dot_sst || bytes_eqb suf s_dot_ldb then Some (FTable, n)
    else if bytes_eqb suf s_dot_dbtmp then Some (FTemp, n)
    else None.
Proof.
  intros n suf Hn [Hnz Hst]. unfold parse_filename.
  rewrite cstr_nonzero
    by (apply Forall_app; split; [apply digits_nonzero, encode_int_digits|exact Hnz]).
  rewrite decode_int_encode_int by assumption.
  destruct (encode_int_cons n 6) as [d [ds [Heq [Hd1 Hd2]]]]. rewrite Heq.
  cbn [app]. unfold s_CURRENT, s_LOCK, s_LOG, s_LOG_old, s_MANIFEST_.
  rewrite !bytes_eqb_head_neq by lia.
  rewrite starts_with_head_neq by lia.
  cbn [orb]. reflexivity.
Qed.

Lemma suffix_ok_log : suffix_ok s_dot_log.
Proof. split; [repeat constructor; discriminate|cbn; lia]. Qed.
Lemma suffix_ok_sst : suffix_ok s_dot_sst.
Proof. split; [repeat constructor; discriminate|cbn; lia]. Qed.
Lemma suffix_ok_ldb : suffix_ok s_dot_ldb.
Proof. split; [repeat constructor; discriminate|cbn; lia]. Qed.
Lemma suffix_ok_dbtmp : suffix_ok s_dot_dbtmp.
Proof. split; [repeat constructor; discriminate|cbn; lia]. Qed.

Theorem parse_log_name : forall n,
  n < 18446744073709551616 -> parse_filename (log_name n) = Some (FLog, n).
Proof. intros n H. unfold log_name. rewrite parse_numbered by (first [exact H|apply suffix_ok_log]). reflexivity. Qed.

Theorem parse_table_name : forall n,
  n < 18446744073709551616 -> parse_filename (table_name n) = Some (FTable, n).
Proof. intros n H. unfold table_name. rewrite parse_numbered by (first [exact H|apply suffix_ok_ldb]). reflexivity. Qed.

Theorem parse_sstable_name : forall n,
  n < 18446744073709551616 -> parse_filename (sstable_name n) = Some (FTable, n).
Proof. intros n H. unfold sstable_name. rewrite parse_numbered by (first [exact H|apply suffix_ok_sst]). reflexivity. Qed.

Theorem parse_temp_name : forall n,
  n < 18446744073709551616 -> parse_filename (temp_name n) = Some (FTemp, n).
Proof. intros n H. unfold temp_name. rewrite parse_numbered by (first [exact H|apply suffix_ok_dbtmp]). reflexivity. Qed.

Theorem parse_desc_name : forall n,
  n < 18446744073709551616 -> parse_filename (desc_name n) = Some (FDesc, n).
Proof.
  intros n H. unfold desc_name, parse_filename.
  rewrite cstr_nonzero.
  2:{ apply Forall_app. split; [repeat constructor; discriminate|apply digits_nonzero, encode_int_digits]. }
  rewrite starts_with_app.
  replace (skipn 9 (s_MANIFEST_ ++ encode_int n 6)) with (encode_int n 6 ++ []) by (rewrite app_nil_r; reflexivity).
  rewrite decode_int_encode_int by (first [exact H|exact I]).
  unfold s_MANIFEST_, s_CURRENT, s_LOCK, s_LOG, s_LOG_old. cbn [app].
  rewrite !bytes_eqb_head_neq by lia. reflexivity.
Qed.

Theorem parse_current_name : parse_filename current_name = Some (FCurrent, 0).
Proof. reflexivity. Qed.
Theorem parse_lock_name : parse_filename lock_name = Some (FLock, 0).
Proof. reflexivity. Qed.
Theorem parse_info_name : parse_filename info_name = Some (FInfo, 0).
Proof. reflexivity. Qed.
Theorem parse_oldinfo_name : parse_filename oldinfo_name = Some (FInfo, 0).
Proof. reflexivity. Qed.

(* all constructors at once, by the kind code used by the k1 driver *)
Definition kind_type (kind : N) : ftype :=
  if kind =? 0 then FLog else if kind =? 1 then FTable else if kind =? 2 then FTable
  else if kind =? 3 then FDesc else if kind =? 4 then FTemp else if kind =? 5 then FCurrent
  else if kind =? 6 then FLock else FInfo.

Theorem parse_filename_make : forall kind n,
  n < 2 ^ 64 ->
  parse_filename (make_name kind n) = Some (kind_type kind, if kind <? 5 then n else 0).
Proof.
  intros kind n Hn. change (2 ^ 64) with 18446744073709551616 in Hn.
  unfold make_name, kind_type.
  destruct (kind =? 0) eqn:K0; [apply N.eqb_eq in K0; subst; apply parse_log_name; exact Hn|].
  destruct (kind =? 1) eqn:K1; [apply N.eqb_eq in K1; subst; apply parse_table_name; exact Hn|].
  destruct (kind =? 2) eqn:K2; [apply N.eqb_eq in K2; subst; apply parse_sstable_name; exact Hn|].
  destruct (kind =? 3) eqn:K3; [apply N.eqb_eq in K3; subst; apply parse_desc_name; exact Hn|].
  destruct (kind =? 4) eqn:K4; [apply N.eqb_eq in K4; subst; apply parse_temp_name; exact Hn|].
  apply N.eqb_neq in K0, K1, K2, K3, K4.
  replace (kind <? 5) with false by (symmetry; apply N.ltb_ge; lia).
  destruct (kind =? 5); [reflexivity|].
  destruct (kind =? 6); [reflexivity|].
  destruct (kind =? 7); reflexivity.
Qed.

(* distinct numbers give distinct names: the parser is a left inverse *)
Theorem log_name_inj : forall a b,
  a < 2 ^ 64 -> b < 2 ^ 64 -> log_name a = log_name b -> a = b.
Proof.
  intros a b Ha Hb H. change (2 ^ 64) with 18446744073709551616 in *.
  pose proof (parse_log_name a Ha) as Pa. pose proof (parse_log_name b Hb) as Pb.
  rewrite H in Pa. rewrite Pa in Pb. injection Pb as Pb. exact Pb.
Qed.

Print Assumptions parse_filename_make.
