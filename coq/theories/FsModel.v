(* FsModel.v -- L1 (record-level) model of lcdb's files, the crash model of
   C02/C03/C05/C17b, recovery (ldb_open at record level) and lcdb's write
   protocol as decidable rules over an I/O trace.

   A file is a list of complete records: a log holds write batches, a MANIFEST
   holds version edits, a table holds ONE record (its whole content, appended
   when the last byte is written: a table cut short is unreadable = zero
   records), CURRENT / *.dbtmp hold one record naming a MANIFEST.  The cut
   lemmas of LogFormat (C15) justify "a byte prefix of a log file is a record
   prefix"; tie K3 (checks/k3lift.py) lifts real syscall traces to [ev] lists.

   Definitions only (executable, extracted by coq/extract/fs.roots); proofs are
   in FsProofs.v. *)
From Coq Require Export Sorting.Sorted.
From LCDB Require Export Base Engine.
Local Open Scope N_scope.

(* ------------------------------------------------------------------ names *)
Inductive fname :=
| FLog (n : N) | FTable (n : N) | FManifest (n : N) | FCurrent | FTmp (n : N).

Definition fname_eqb (a b : fname) : bool :=
  match a, b with
  | FLog x, FLog y => x =? y
  | FTable x, FTable y => x =? y
  | FManifest x, FManifest y => x =? y
  | FCurrent, FCurrent => true
  | FTmp x, FTmp y => x =? y
  | _, _ => false
  end.

(* ------------------------------------------------------------------ records *)
Record medit := mkMEdit {
  me_new : list (nat * N);       (* (level, file number) added *)
  me_del : list (nat * N);       (* (level, file number) deleted *)
  me_log : option N;
  me_prev : option N;
  me_next : option N;
  me_last : option N }.

Definition brec := (N * list wop)%type.      (* a batch record: first sequence, operations *)

Inductive payload :=
| PBatch (first_seq : N) (ops : list wop)
| PEdit (e : medit)
| PTable (ents : list entry)
| PCurrent (m : N).

Inductive fev :=
| ECreate (f : fname)                 (* open(O_CREAT|O_TRUNC) *)
| EAppend (f : fname) (p : payload)   (* the write(2) completing record p reached the OS *)
| ESync (f : fname)                   (* fsync of the file *)
| ESyncDir                            (* fsync of the directory *)
| ERename (a b : fname)
| EUnlink (f : fname)
| ECall (id : N) (b : list wop) (sync : bool)   (* ldb_write begins *)
| EAck (id : N) (ok : bool).                    (* ldb_write returns *)

(* ------------------------------------------------------------------ running disk *)
Record fobj := mkObj { o_recs : list payload; o_synced : nat }.
(* o_synced: number of records covered by the last fsync of the file *)

Inductive dirop := DCreate (f : fname) (o : nat) | DRename (a b : fname) | DUnlink (f : fname).

Record disk := mkDisk {
  d_objs : list fobj;        (* file objects (inodes), indexed by creation order *)
  d_ops : list dirop;        (* directory operations in issue order *)
  d_dsync : nat }.           (* number of directory operations issued before the last fsync of anything *)

Definition disk0 : disk := mkDisk [] [] 0.

Definition nspace := fname -> option nat.

Definition ns_apply (ns : nspace) (op : dirop) : nspace :=
  match op with
  | DCreate f o => fun g => if fname_eqb g f then Some o else ns g
  | DRename a b =>
      match ns a with
      | Some o => fun g => if fname_eqb g b then Some o else if fname_eqb g a then None else ns g
      | None => ns
      end
  | DUnlink f => fun g => if fname_eqb g f then None else ns g
  end.

Definition ns_of (ops : list dirop) : nspace := fold_left ns_apply ops (fun _ => None).

Definition ns_lookup (d : disk) (f : fname) : option nat := ns_of (d_ops d) f.

Fixpoint upd_nth {A} (l : list A) (i : nat) (f : A -> A) : list A :=
  match l, i with
  | [], _ => []
  | x :: r, O => f x :: r
  | x :: r, S j => x :: upd_nth r j f
  end.

Definition obj_append (p : payload) (x : fobj) : fobj := mkObj (o_recs x ++ [p]) (o_synced x).
Definition obj_sync (x : fobj) : fobj := mkObj (o_recs x) (length (o_recs x)).

Definition fs_step (d : disk) (e : fev) : disk :=
  match e with
  | ECreate f =>
      mkDisk (d_objs d ++ [mkObj [] 0]) (d_ops d ++ [DCreate f (length (d_objs d))]) (d_dsync d)
  | EAppend f p =>
      match ns_lookup d f with
      | Some o => mkDisk (upd_nth (d_objs d) o (obj_append p)) (d_ops d) (d_dsync d)
      | None => d
      end
  | ESync f =>
      match ns_lookup d f with
      | Some o => mkDisk (upd_nth (d_objs d) o obj_sync) (d_ops d) (length (d_ops d))
      | None => d
      end
  | ESyncDir => mkDisk (d_objs d) (d_ops d) (length (d_ops d))
  | ERename a b =>
      match ns_lookup d a with
      | Some _ => mkDisk (d_objs d) (d_ops d ++ [DRename a b]) (d_dsync d)
      | None => d
      end
  | EUnlink f =>
      match ns_lookup d f with
      | Some _ => mkDisk (d_objs d) (d_ops d ++ [DUnlink f]) (d_dsync d)
      | None => d
      end
  | ECall _ _ _ => d
  | EAck _ _ => d
  end.

Definition fs_run (tr : list fev) : disk := fold_left fs_step tr disk0.

(* ------------------------------------------------------------------ crash images *)
Definition image := list (fname * list payload).

Fixpoint iget (img : image) (f : fname) : option (list payload) :=
  match img with
  | [] => None
  | (g, recs) :: r => if fname_eqb g f then Some recs else iget r f
  end.

Fixpoint add_name (f : fname) (l : list fname) : list fname :=
  match l with
  | [] => [f]
  | g :: r => if fname_eqb g f then l else g :: add_name f r
  end.

Definition op_names (ops : list dirop) : list fname :=
  fold_left (fun acc op =>
    match op with
    | DCreate f _ => add_name f acc
    | DRename _ b => add_name b acc
    | DUnlink _ => acc
    end) ops [].

(* the image in which the first k directory operations persisted and object o
   keeps its first [cut o] records *)
Definition image_of (d : disk) (k : nat) (cut : nat -> nat) : image :=
  let ns := ns_of (firstn k (d_ops d)) in
  flat_map (fun f =>
    match ns f with
    | Some o =>
        match nth_error (d_objs d) o with
        | Some x => [(f, firstn (cut o) (o_recs x))]
        | None => []
        end
    | None => []
    end) (op_names (d_ops d)).

(* Power failure: directory operations persist in issue order at least up to
   the last fsync of any file or directory; every file keeps a record prefix
   at least as long as at its last fsync. *)
Definition crash_image (tr : list fev) (img : image) : Prop :=
  exists (k : nat) (cut : nat -> nat),
    (d_dsync (fs_run tr) <= k <= length (d_ops (fs_run tr)))%nat /\
    (forall o x, nth_error (d_objs (fs_run tr)) o = Some x ->
                 (o_synced x <= cut o <= length (o_recs x))%nat) /\
    img = image_of (fs_run tr) k cut.

Definition cut_written (d : disk) : nat -> nat :=
  fun o => match nth_error (d_objs d) o with Some x => length (o_recs x) | None => O end.
Definition cut_synced (d : disk) : nat -> nat :=
  fun o => match nth_error (d_objs d) o with Some x => o_synced x | None => O end.

(* Process crash: everything that reached the OS persists. *)
Definition written_image (tr : list fev) : image :=
  image_of (fs_run tr) (length (d_ops (fs_run tr))) (cut_written (fs_run tr)).

(* Finite set of representative power-failure images (testing): for every
   admissible directory cut: all files minimal / all files complete; with all
   directory operations: each file in turn one record short. *)
Definition one_less (d : disk) (o : nat) : nat -> nat :=
  fun i => if Nat.eqb i o then Nat.max (cut_synced d o) (pred (cut_written d o)) else cut_written d i.

Definition rep_images (tr : list fev) : list image :=
  let d := fs_run tr in
  let n := length (d_ops d) in
  let ks := map (fun i => (d_dsync d + i)%nat) (seq 0 (S (n - d_dsync d))) in
  map (fun k => image_of d k (cut_synced d)) ks ++
  map (fun k => image_of d k (cut_written d)) ks ++
  map (fun o => image_of d n (one_less d o)) (seq 0 (length (d_objs d))).

(* ------------------------------------------------------------------ recovery *)
Record mver := mkMV {
  mv_files : list (nat * N);
  mv_log : option N; mv_prev : option N; mv_next : option N; mv_last : option N }.

Definition mv0 : mver := mkMV [] None None None None.

Definition file_eqb (a b : nat * N) : bool := Nat.eqb (fst a) (fst b) && (snd a =? snd b).

Definition or_else {A} (a b : option A) : option A := match a with Some _ => a | None => b end.

(* builder_apply: deletions, then additions; counters overwrite *)
Definition apply_edit (m : mver) (e : medit) : mver :=
  mkMV (filter (fun f => negb (existsb (file_eqb f) (me_del e))) (mv_files m) ++ me_new e)
      (or_else (me_log e) (mv_log m)) (or_else (me_prev e) (mv_prev m))
      (or_else (me_next e) (mv_next m)) (or_else (me_last e) (mv_last m)).

Definition replay (eds : list medit) : mver := fold_left apply_edit eds mv0.

Fixpoint edits_of (recs : list payload) : option (list medit) :=
  match recs with
  | [] => Some []
  | PEdit e :: r => match edits_of r with Some l => Some (e :: l) | None => None end
  | _ :: _ => None
  end.

Fixpoint batches_of (recs : list payload) : option (list brec) :=
  match recs with
  | [] => Some []
  | PBatch s ops :: r => match batches_of r with Some l => Some ((s, ops) :: l) | None => None end
  | _ :: _ => None
  end.

(* ldb_versions_recover refuses a descriptor without next-file / log-number / last-sequence *)
Definition manifest_ok (ms : mver) : bool :=
  match mv_next ms, mv_log ms, mv_last ms with
  | Some _, Some _, Some _ => true
  | _, _, _ => false
  end.

Definition read_table (img : image) (n : N) : option (list entry) :=
  match iget img (FTable n) with
  | Some [PTable ents] => Some ents
  | _ => None
  end.

Fixpoint read_tables (img : image) (fs : list (nat * N)) : option (list (N * list entry)) :=
  match fs with
  | [] => Some []
  | (_, n) :: r =>
      match read_table img n, read_tables img r with
      | Some ents, Some l => Some ((n, ents) :: l)
      | _, _ => None
      end
  end.

(* strictly increasing insertion (duplicates dropped) *)
Fixpoint insert_N (x : N) (l : list N) : list N :=
  match l with
  | [] => [x]
  | y :: r => if x <? y then x :: l else if x =? y then l else y :: insert_N x r
  end.
Definition sort_N (l : list N) : list N := fold_right insert_N [] l.

Definition log_num (f : fname) : list N := match f with FLog n => [n] | _ => [] end.
Definition image_logs (img : image) : list N := sort_N (flat_map (fun x => log_num (fst x)) img).

Fixpoint read_logs (img : image) (ns : list N) : option (list (N * list brec)) :=
  match ns with
  | [] => Some []
  | n :: r =>
      match iget img (FLog n) with
      | Some recs =>
          match batches_of recs, read_logs img r with
          | Some bs, Some l => Some ((n, bs) :: l)
          | _, _ => None
          end
      | None => None
      end
  end.

Record rstate := mkR {
  r_manifest : N;
  r_files : list (nat * N);
  r_tables : list (N * list entry);     (* the tables of r_files with their entries *)
  r_log : N; r_prev : N;
  r_segs : list (N * list brec);        (* replayed logs in order, with the batches applied from each *)
  r_next : N;                           (* next_file_number after recovery *)
  r_last : N }.                         (* last_sequence after recovery *)

Definition applied_batches (s : rstate) : list brec := flat_map snd (r_segs s).

Definition batch_last (b : brec) : N := fst b + nlen (snd b) - 1.

Definition recover (img : image) : option rstate :=
  match iget img FCurrent with
  | Some [PCurrent m] =>
      match iget img (FManifest m) with
      | Some recs =>
          match edits_of recs with
          | Some eds =>
              let ms := replay eds in
              match mv_next ms, mv_log ms, mv_last ms with
              | Some nx, Some lg, Some ls =>
                  let pv := match mv_prev ms with Some p => p | None => 0 end in
                  match read_tables img (mv_files ms) with
                  | Some tabs =>
                      let nums := filter (fun n => (lg <=? n) || (n =? pv)) (image_logs img) in
                      match read_logs img nums with
                      | Some segs =>
                          Some (mkR m (mv_files ms) tabs lg pv segs
                                  (fold_left (fun a n => N.max a (n + 1)) (pv :: lg :: nums) (nx + 1))
                                  (fold_left (fun a b => if 0 <? nlen (snd b) then N.max a (batch_last b) else a)
                                             (flat_map snd segs) ls))
                      | None => None
                      end
                  | None => None
                  end
              | _, _, _ => None
              end
          | None => None
          end
      | None => None
      end
  | _ => None
  end.

(* contents: newest sequence wins among table entries and replayed batches *)
Definition r_entries (s : rstate) : list entry :=
  flat_map snd (r_tables s) ++ flat_map (fun b => batch_entries (fst b) (snd b)) (applied_batches s).

Definition newest (k : bytes) (l : list entry) : option entry :=
  fold_left (fun acc e =>
    if bytes_eqb (ek e) k then
      match acc with
      | Some a => if es a <=? es e then Some e else acc
      | None => Some e
      end
    else acc) l None.

Definition contents (s : rstate) (k : bytes) : option bytes :=
  match newest k (r_entries s) with
  | Some e => if et e then Some (ev e) else None
  | None => None
  end.

(* ------------------------------------------------------------------ protocol state *)
Definition wop_eqb (a b : wop) : bool :=
  match a, b with
  | WPut k v, WPut k' v' => bytes_eqb k k' && bytes_eqb v v'
  | WDel k, WDel k' => bytes_eqb k k'
  | _, _ => false
  end.

Definition fs_entry_eqb (a b : entry) : bool :=
  (es a =? es b) && Bool.eqb (et a) (et b) && bytes_eqb (ek a) (ek b) && bytes_eqb (ev a) (ev b).

(* every entry of the batch is literally present *)
Definition batch_covered (ents : list entry) (b : brec) : bool :=
  forallb (fun e => existsb (fs_entry_eqb e) ents) (batch_entries (fst b) (snd b)).

Record pstate := mkP {
  p_disk : disk;
  (* the API call in progress: id, operations, sync flag, where its record went (log, first sequence) *)
  p_call : option (N * list wop * bool * option (N * N));
  p_logs : list (N * list brec);   (* every log created so far, in creation order, with the batches appended to it *)
  p_created : list fname;          (* every name created so far *)
  p_cov : N }.                     (* flush watermark: largest log_number written in any edit *)

Definition p0 : pstate := mkP disk0 None [] [] 0.

Fixpoint add_batch (n : N) (b : brec) (l : list (N * list brec)) : list (N * list brec) :=
  match l with
  | [] => []
  | (m, bs) :: r => if m =? n then (m, bs ++ [b]) :: r else (m, bs) :: add_batch n b r
  end.

Definition newest_log (l : list (N * list brec)) : N := fold_left (fun a x => N.max a (fst x)) l 0.

Definition pstep (p : pstate) (e : fev) : pstate :=
  let d' := fs_step (p_disk p) e in
  match e with
  | ECreate f =>
      mkP d' (p_call p)
          (match f with FLog n => p_logs p ++ [(n, [])] | _ => p_logs p end)
          (f :: p_created p) (p_cov p)
  | EAppend (FLog n) (PBatch s ops) =>
      mkP d'
          (match p_call p with
           | Some (id, b, sy, _) => Some (id, b, sy, Some (n, s))
           | None => None
           end)
          (add_batch n (s, ops) (p_logs p)) (p_created p) (p_cov p)
  | EAppend (FManifest _) (PEdit ed) =>
      mkP d' (p_call p) (p_logs p) (p_created p)
          (match me_log ed with Some l => N.max (p_cov p) l | None => p_cov p end)
  | ECall id b sy => mkP d' (Some (id, b, sy, None)) (p_logs p) (p_created p) (p_cov p)
  | EAck _ _ => mkP d' None (p_logs p) (p_created p) (p_cov p)
  | _ => mkP d' (p_call p) (p_logs p) (p_created p) (p_cov p)
  end.

Definition prun (tr : list fev) : pstate := fold_left pstep tr p0.

(* ------------------------------------------------------------------ views used by the rules *)
Definition obj_at (d : disk) (f : fname) : option fobj :=
  match ns_lookup d f with Some o => nth_error (d_objs d) o | None => None end.

(* a table that exists, is complete and fsynced *)
Definition fs_table_ok (d : disk) (n : N) : bool :=
  match obj_at d (FTable n) with
  | Some (mkObj [PTable _] 1%nat) => true
  | _ => false
  end.

Definition table_ents (d : disk) (n : N) : list entry :=
  match obj_at d (FTable n) with
  | Some (mkObj [PTable ents] _) => ents
  | _ => []
  end.

(* the MANIFEST named by CURRENT in the running directory *)
Definition current_manifest (d : disk) : option N :=
  match obj_at d FCurrent with
  | Some (mkObj [PCurrent m] _) => Some m
  | _ => None
  end.

(* every version a crash can expose from a MANIFEST object: replay of each
   record prefix from the fsynced one to the whole *)
Definition exposed (x : fobj) : list mver :=
  match edits_of (o_recs x) with
  | Some eds => map (fun j => replay (firstn j eds)) (seq (o_synced x) (S (length eds - o_synced x)))
  | None => []
  end.

Definition log_dead (ms : mver) (n : N) : bool :=
  match mv_log ms with Some l => n <? l | None => false end.

(* no rename of CURRENT is waiting for a directory fsync *)
Definition is_rename_op (op : dirop) : bool := match op with DRename _ _ => true | _ => false end.
Definition no_pending_rename (d : disk) : bool :=
  negb (existsb is_rename_op (skipn (d_dsync d) (d_ops d))).

(* ------------------------------------------------------------------ the rules *)
(* R0 (shape): typed appends to existing files, one record per table / tmp
   file, prev_log_number unused, only "tmp -> CURRENT" renames, CURRENT is
   never created or unlinked directly, only existing files are unlinked. *)
Definition chk_R0 (p : pstate) (e : fev) : bool :=
  let d := p_disk p in
  match e with
  | ECreate f => negb (fname_eqb f FCurrent)
  | EAppend f pl =>
      match obj_at d f with
      | Some x =>
          match f, pl with
          | FLog _, PBatch _ _ => true
          | FTable _, PTable _ => match o_recs x with [] => true | _ => false end
          | FManifest _, PEdit ed => match me_prev ed with None => true | Some v => v =? 0 end
          | FTmp _, PCurrent _ => match o_recs x with [] => true | _ => false end
          | _, _ => false
          end
      | None => false
      end
  | ERename a b => match a, b with FTmp _, FCurrent => true | _, _ => false end
  | EUnlink f => negb (fname_eqb f FCurrent) && match ns_lookup d f with Some _ => true | None => false end
  | _ => true
  end.

(* R1: a sync write's record is in its log and the log is fsynced before the call is acknowledged *)
Definition chk_R1 (p : pstate) (e : fev) : bool :=
  match e with
  | EAck _ true =>
      match p_call p with
      | Some (_, _, true, Some (n, _)) =>
          match obj_at (p_disk p) (FLog n) with
          | Some x => Nat.eqb (o_synced x) (length (o_recs x))
          | None => false
          end
      | _ => true
      end
  | _ => true
  end.

(* R2: a table named by an edit exists, is complete and fsynced when the edit is appended *)
Definition chk_R2 (p : pstate) (e : fev) : bool :=
  match e with
  | EAppend (FManifest _) (PEdit ed) => forallb (fun f => fs_table_ok (p_disk p) (snd f)) (me_new ed)
  | _ => true
  end.

(* R3: a log / table is unlinked only when every version a crash can expose
   from the current MANIFEST (fsynced prefix or longer) has made it obsolete;
   for a log, moreover, the switch to the current MANIFEST must be durable
   (directory fsynced after the rename of CURRENT): only the unlinked-log
   clause of C02 needs this (finding F5, repaired by /repo 0411e80) *)
Definition chk_R3 (p : pstate) (e : fev) : bool :=
  let d := p_disk p in
  match e with
  | EUnlink (FLog n) =>
      no_pending_rename d &&
      match current_manifest d with
      | Some m =>
          match obj_at d (FManifest m) with
          | Some x => forallb (fun ms => log_dead ms n) (exposed x)
          | None => false
          end
      | None => false
      end
  | EUnlink (FTable n) =>
      match current_manifest d with
      | Some m =>
          match obj_at d (FManifest m) with
          | Some x => forallb (fun ms => negb (existsb (fun f => snd f =? n) (mv_files ms))) (exposed x)
          | None => false
          end
      | None => false
      end
  | _ => true
  end.

(* R4: CURRENT is replaced only by renaming a complete fsynced tmp file naming
   a MANIFEST whose fsynced prefix is a complete snapshot (counters present,
   every table of every exposable version present and fsynced, every log it
   still needs present); a MANIFEST is unlinked only when CURRENT names
   another; a log is created only once CURRENT exists *)
Definition chk_R4 (p : pstate) (e : fev) : bool :=
  let d := p_disk p in
  match e with
  | ERename (FTmp n) FCurrent =>
      match obj_at d (FTmp n) with
      | Some (mkObj [PCurrent m] 1%nat) =>
          match obj_at d (FManifest m) with
          | Some x =>
              negb (Nat.eqb (length (exposed x)) 0) &&
              forallb (fun ms =>
                 manifest_ok ms &&
                 forallb (fun f => fs_table_ok d (snd f)) (mv_files ms) &&
                 forallb (fun l => match ns_lookup d (FLog (fst l)) with
                                   | Some _ => true
                                   | None => log_dead ms (fst l)
                                   end) (p_logs p)) (exposed x)
          | None => false
          end
      | _ => false
      end
  | ERename _ _ => false
  | ECreate (FLog _) => match current_manifest d with Some _ => true | None => false end
  | EUnlink (FManifest m') =>
      match current_manifest d with
      | Some m => negb (m =? m')
      | None => false
      end
  | _ => true
  end.

(* R5: an edit writes log_number = l only if l is not below any log_number
   written before, not above the newest log, and every batch of every log
   between the watermark and l is contained in the tables the edit adds *)
Definition chk_R5 (p : pstate) (e : fev) : bool :=
  match e with
  | EAppend (FManifest _) (PEdit ed) =>
      match me_log ed with
      | Some l =>
          (p_cov p <=? l) && (l <=? newest_log (p_logs p)) &&
          let ents := flat_map (fun f => table_ents (p_disk p) (snd f)) (me_new ed) in
          forallb (fun x =>
             if (p_cov p <=? fst x) && (fst x <? l)
             then forallb (batch_covered ents) (snd x) else true) (p_logs p)
      | None => true
      end
  | _ => true
  end.

(* R6: created names are fresh; log numbers increase *)
Definition chk_R6 (p : pstate) (e : fev) : bool :=
  match e with
  | ECreate f =>
      negb (existsb (fname_eqb f) (p_created p)) &&
      match f with FLog n => newest_log (p_logs p) <? n | _ => true end
  | _ => true
  end.

(* R7: API calls do not nest; a batch record is appended only on behalf of the
   call in progress, once, with that call's operations, to the newest log;
   a call is acknowledged OK iff its record was appended *)
Definition chk_R7 (p : pstate) (e : fev) : bool :=
  match e with
  | ECall _ _ _ => match p_call p with None => true | Some _ => false end
  | EAppend (FLog n) (PBatch _ ops) =>
      match p_call p with
      | Some (_, b, _, None) => list_eqb wop_eqb ops b && (n =? newest_log (p_logs p))
      | _ => false
      end
  | EAck id ok =>
      match p_call p with
      | Some (id', _, _, app) =>
          (id =? id') && Bool.eqb ok (match app with Some _ => true | None => false end)
      | None => false
      end
  | _ => true
  end.

Fixpoint all_steps (chk : pstate -> fev -> bool) (p : pstate) (tr : list fev) : bool :=
  match tr with
  | [] => true
  | e :: r => chk p e && all_steps chk (pstep p e) r
  end.

Definition rule_R0 tr := all_steps chk_R0 p0 tr.
Definition rule_R1 tr := all_steps chk_R1 p0 tr.
Definition rule_R2 tr := all_steps chk_R2 p0 tr.
Definition rule_R3 tr := all_steps chk_R3 p0 tr.
Definition rule_R4 tr := all_steps chk_R4 p0 tr.
Definition rule_R5 tr := all_steps chk_R5 p0 tr.
Definition rule_R6 tr := all_steps chk_R6 p0 tr.
Definition rule_R7 tr := all_steps chk_R7 p0 tr.

Definition wf_protocol (tr : list fev) : bool :=
  rule_R0 tr && rule_R1 tr && rule_R2 tr && rule_R3 tr &&
  rule_R4 tr && rule_R5 tr && rule_R6 tr && rule_R7 tr.

(* first violated rule (number) and event index, for the checker *)
Definition chk_list : list (N * (pstate -> fev -> bool)) :=
  [(0, chk_R0); (1, chk_R1); (2, chk_R2); (3, chk_R3); (4, chk_R4); (5, chk_R5); (6, chk_R6); (7, chk_R7)].

Fixpoint first_violation_from (p : pstate) (i : N) (tr : list fev) : option (N * N) :=
  match tr with
  | [] => None
  | e :: r =>
      match find (fun c => negb (snd c p e)) chk_list with
      | Some c => Some (fst c, i)
      | None => first_violation_from (pstep p e) (i + 1) r
      end
  end.
Definition first_violation (tr : list fev) : option (N * N) := first_violation_from p0 0 tr.

(* ------------------------------------------------------------------ vocabulary of the theorems *)
(* positions are indices into the trace; "before p" = within firstn p tr *)
Definition log_batches (tr : list fev) (n : N) : list brec :=
  flat_map (fun e => match e with
                     | EAppend (FLog m) (PBatch s ops) => if m =? n then [(s, ops)] else []
                     | _ => []
                     end) tr.

(* every batch record appended to any log, in order *)
Definition logged (tr : list fev) : list brec :=
  flat_map (fun e => match e with EAppend (FLog _) (PBatch s ops) => [(s, ops)] | _ => [] end) tr.

(* acknowledgements: (id, sync flag, log, batch record) of every call that
   returned OK, in order; the protocol state knows which call is in progress
   and where its record went *)
Definition ack_of (p : pstate) (e : fev) : list (N * bool * N * brec) :=
  match e, p_call p with
  | EAck id true, Some (_, ops, sy, Some (n, s)) => [(id, sy, n, (s, ops))]
  | _, _ => []
  end.

Fixpoint acks_from (p : pstate) (tr : list fev) : list (N * bool * N * brec) :=
  match tr with
  | [] => []
  | e :: r => ack_of p e ++ acks_from (pstep p e) r
  end.
Definition acks (tr : list fev) : list (N * bool * N * brec) := acks_from p0 tr.

Definition acked_sync_before (tr : list fev) (p : nat) (id : N) (b : brec) : Prop :=
  exists n, In (id, true, n, b) (acks (firstn p tr)).

Definition acked_and_log_unlinked_before (tr : list fev) (p : nat) (id : N) (b : brec) : Prop :=
  exists n sy, In (id, sy, n, b) (acks (firstn p tr)) /\ In (EUnlink (FLog n)) (firstn p tr).

(* batch records of the calls acknowledged OK before p, in order *)
Definition acked_before (tr : list fev) (p : nat) : list brec := map snd (acks (firstn p tr)).

(* the record of the call in progress at p is in its log but the call has not returned *)
Definition in_flight (tr : list fev) (p : nat) (b : brec) : Prop :=
  exists id sy n, p_call (prun (firstn p tr)) = Some (id, snd b, sy, Some (n, fst b)).

(* the batch was literally contained in the tables added by some edit *)
Definition flushed (tr : list fev) (b : brec) : Prop :=
  exists pre m ed suf, tr = pre ++ EAppend (FManifest m) (PEdit ed) :: suf /\
    batch_covered (flat_map (fun f => table_ents (fs_run pre) (snd f)) (me_new ed)) b = true.

(* b is reflected in the recovered state s: replayed from a log, or its log is
   below the recovered log_number (then R5 made it [flushed]) *)
Definition applied (tr : list fev) (s : rstate) (b : brec) : Prop :=
  In b (applied_batches s) \/ exists n, In b (log_batches tr n) /\ n < r_log s.

(* the replayed batches are, log by log in increasing order, a prefix of what
   was appended to that log; logs below log_number are not replayed *)
Definition per_segment_prefix (tr : list fev) (s : rstate) : Prop :=
  (forall n bs, In (n, bs) (r_segs s) -> exists k, bs = firstn k (log_batches tr n)) /\
  StronglySorted N.lt (map fst (r_segs s)) /\
  (forall n, In n (map fst (r_segs s)) -> r_log s <= n \/ n = r_prev s).

Definition complete_manifest (img : image) (m : N) : Prop :=
  exists recs eds, iget img (FManifest m) = Some recs /\ edits_of recs = Some eds /\
    manifest_ok (replay eds) = true /\ read_tables img (mv_files (replay eds)) <> None.

(* testing aid: batch b (held by log n) is lost in image img: the database
   exists but recovery fails, or b is neither replayed nor below log_number *)
Definition brec_eqb (a b : brec) : bool := (fst a =? fst b) && list_eqb wop_eqb (snd a) (snd b).
Definition lost_in (img : image) (n : N) (b : brec) : bool :=
  match iget img FCurrent with
  | None => false
  | Some _ =>
      match recover img with
      | None => true
      | Some s => negb (existsb (brec_eqb b) (applied_batches s)) && negb (n <? r_log s)
      end
  end.
